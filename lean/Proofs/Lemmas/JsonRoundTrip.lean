/-
The JSON text round trip: `parseJson (render j) = some j` for every value whose object
member names are pairwise distinct at every level.  No condition on characters is needed:
every `Char` (Unicode scalar value) survives `escChar` / `parseStrBody`, including the
`\uXXXX` forms and the surrogate pairs of code points ≥ 65536.  The last section shows that
printed text passes the leading-zero screen of `States.StringToJson` (`leadingZero`).
-/
import AslModel.JsonText
import AslModel.Intrinsic
namespace Asl

/-! ### hexadecimal -/

theorem hexVal_hexDigit : ∀ n, n < 16 → hexVal (hexDigit n) = some n := by decide

theorem hexDigit_ne : ∀ n, n < 16 → hexDigit n ≠ '"' ∧ hexDigit n ≠ '\\' := by decide

theorem hex4Val_hex4 (n : Nat) (rest : Str) (h : n < 65536) :
    hex4Val (hex4 n ++ rest) = some (n, rest) := by
  have h1 := hexVal_hexDigit (n / 4096 % 16) (Nat.mod_lt _ (by decide))
  have h2 := hexVal_hexDigit (n / 256 % 16) (Nat.mod_lt _ (by decide))
  have h3 := hexVal_hexDigit (n / 16 % 16) (Nat.mod_lt _ (by decide))
  have h4 := hexVal_hexDigit (n % 16) (Nat.mod_lt _ (by decide))
  simp only [hex4, List.cons_append, List.nil_append, hex4Val, h1, h2, h3, h4]
  congr 2
  omega

/-! ### string bodies -/

theorem char_eq_of_toNat (c : Char) (n : Nat) (h : c.toNat = n) : Char.ofNat n = c := by
  rw [← h, Char.ofNat_toNat]

theorem char_not_surrogate (c : Char) : ¬ (55296 ≤ c.toNat ∧ c.toNat < 56320) := by
  have := c.valid
  simp only [UInt32.isValidChar, Nat.isValidChar] at this
  simp only [Char.toNat]
  omega

theorem char_lt (c : Char) : c.toNat < 1114112 := by
  have := c.valid
  simp only [UInt32.isValidChar, Nat.isValidChar] at this
  simp only [Char.toNat]
  omega

/-- one printed character is read back as that character, using one unit of fuel -/
theorem parseStrBody_escChar (c : Char) (fuel : Nat) (rest acc : Str) :
    parseStrBody (fuel + 1) (escChar c ++ rest) acc = parseStrBody fuel rest (c :: acc) := by
  unfold escChar
  by_cases h1 : c = '"'
  · subst h1; simp [parseStrBody]
  by_cases h2 : c = '\\'
  · subst h2; simp [parseStrBody]
  by_cases h3 : c = '\n'
  · subst h3; simp [parseStrBody]
  by_cases h4 : c = '\r'
  · subst h4; simp [parseStrBody]
  by_cases h5 : c = '\t'
  · subst h5; simp [parseStrBody]
  by_cases h6 : c.toNat = 8
  · have := char_eq_of_toNat c 8 h6
    simp [h1, h2, h3, h4, h5, h6, parseStrBody]
    rw [this]
  by_cases h7 : c.toNat = 12
  · have := char_eq_of_toNat c 12 h7
    simp [h1, h2, h3, h4, h5, h7, parseStrBody]
    rw [this]
  by_cases h8 : 32 ≤ c.toNat ∧ c.toNat ≤ 126
  · have : ¬ c.toNat < 32 := by omega
    simp [h1, h2, h3, h4, h5, h6, h7, h8, parseStrBody, this]
  by_cases h9 : c.toNat < 65536
  · have hs := char_not_surrogate c
    have := char_eq_of_toNat c _ rfl
    simp [h1, h2, h3, h4, h5, h6, h7, h8, h9, parseStrBody, hex4Val_hex4 _ _ h9, hs, this]
  · have hlt := char_lt c
    have e1 : hex4Val (hex4 (55296 + (c.toNat - 65536) / 1024) ++
        ('\\' :: 'u' :: (hex4 (56320 + (c.toNat - 65536) % 1024) ++ rest))) =
        some (55296 + (c.toNat - 65536) / 1024,
          '\\' :: 'u' :: (hex4 (56320 + (c.toNat - 65536) % 1024) ++ rest)) :=
      hex4Val_hex4 _ _ (by omega)
    have e2 : hex4Val (hex4 (56320 + (c.toNat - 65536) % 1024) ++ rest) =
        some (56320 + (c.toNat - 65536) % 1024, rest) := hex4Val_hex4 _ _ (by omega)
    have a1 : 55296 ≤ 55296 + (c.toNat - 65536) / 1024 ∧
        55296 + (c.toNat - 65536) / 1024 < 56320 := by omega
    have a2 : 56320 ≤ 56320 + (c.toNat - 65536) % 1024 ∧
        56320 + (c.toNat - 65536) % 1024 < 57344 := by omega
    have a3 : 65536 + (55296 + (c.toNat - 65536) / 1024 - 55296) * 1024 +
        (56320 + (c.toNat - 65536) % 1024 - 56320) = c.toNat := by omega
    simp only [h1, h2, h3, h4, h5, h6, h7, h8, h9, if_false, List.cons_append, List.append_assoc]
    rw [parseStrBody]
    simp only [show ('\\' : Char) ≠ '"' by decide, if_false, if_true, e1, a1, e2, a2, a3,
      and_self, char_eq_of_toNat c _ rfl]

theorem escChar_length_pos (c : Char) : 1 ≤ (escChar c).length := by
  unfold escChar
  repeat' split
  all_goals simp [hex4]

theorem length_le_escBody (s : Str) : s.length ≤ (escBody s).length := by
  induction s with
  | nil => simp
  | cons c cs ih =>
    have := escChar_length_pos c
    simp only [escBody, List.length_cons, List.length_append]
    omega

/-- a printed string body, up to its closing quote, is read back -/
theorem parseStrBody_escBody (s : Str) (fuel : Nat) (rest acc : Str) (hf : s.length < fuel) :
    parseStrBody fuel (escBody s ++ '"' :: rest) acc = some (acc.reverse ++ s, rest) := by
  induction s generalizing fuel acc with
  | nil =>
    cases fuel with
    | zero => omega
    | succ f => simp [escBody, parseStrBody]
  | cons c cs ih =>
    cases fuel with
    | zero => omega
    | succ f =>
      simp only [escBody, List.append_assoc]
      rw [parseStrBody_escChar, ih f (c :: acc) (by simpa using hf)]
      simp

/-- the form in which `parseValue` / `parseMembers` call the string reader -/
theorem parseStrBody_quote (s rest : Str) :
    parseStrBody ((escBody s ++ '"' :: rest).length + 1) (escBody s ++ '"' :: rest) [] =
      some (s, rest) := by
  have := length_le_escBody s
  rw [parseStrBody_escBody s _ rest [] (by simp only [List.length_append, List.length_cons]; omega)]
  simp

/-! ### numbers -/

/-- what may follow a number token: anything but a digit, `.`, `e`, `E` -/
def numEnd : Str → Bool
  | [] => true
  | c :: _ => !(c.isDigit || c = '.' || c = 'e' || c = 'E')

theorem parseDigits_append (ds rest : Str) (acc : Nat) (hd : ∀ c ∈ ds, c.isDigit = true)
    (hr : ∀ c r, rest = c :: r → c.isDigit = false) :
    parseDigits (ds ++ rest) acc = (Nat.ofDigitChars 10 ds acc, rest) := by
  induction ds generalizing acc with
  | nil =>
    cases rest with
    | nil => simp [parseDigits]
    | cons c r => simp [parseDigits, hr c r rfl]
  | cons d ds ih =>
    have h1 : d.isDigit = true := hd d (by simp)
    simp only [List.cons_append, parseDigits, h1, if_true, Nat.ofDigitChars_cons]
    rw [ih _ (fun c hc => hd c (by simp [hc])), Nat.mul_comm]
    rfl

theorem parseNum_nat (n : Nat) (rest : Str) (h : numEnd rest = true) :
    parseNum (Nat.toDigits 10 n ++ rest) = some (.num (n : Int), rest) := by
  have hd : ∀ c ∈ Nat.toDigits 10 n, c.isDigit = true :=
    fun c hc => Nat.isDigit_of_mem_toDigits (by decide) (by decide) hc
  have hr : ∀ c r, rest = c :: r → c.isDigit = false := by
    intro c r hc; subst hc; simp [numEnd] at h; simp [h]
  have hp := parseDigits_append _ rest 0 hd hr
  rw [Nat.ofDigitChars_ten_toDigits] at hp
  cases hds : Nat.toDigits 10 n with
  | nil => exact absurd hds Nat.toDigits_ne_nil
  | cons d tl =>
    rw [hds] at hp hd
    have h1 : d.isDigit = true := hd d (by simp)
    have h2 : d ≠ '-' := by intro h; subst h; simp at h1
    have hp' : parseDigits (d :: (tl ++ rest)) 0 = (n, rest) := hp
    simp [parseNum, h2, h1, hp']
    split <;> simp_all [numEnd]

theorem parseNum_neg_nat (n : Nat) (rest : Str) (h : numEnd rest = true) :
    parseNum ('-' :: (Nat.toDigits 10 n ++ rest)) = some (.num (-(n : Int)), rest) := by
  have hd : ∀ c ∈ Nat.toDigits 10 n, c.isDigit = true :=
    fun c hc => Nat.isDigit_of_mem_toDigits (by decide) (by decide) hc
  have hr : ∀ c r, rest = c :: r → c.isDigit = false := by
    intro c r hc; subst hc; simp [numEnd] at h; simp [h]
  have hp := parseDigits_append _ rest 0 hd hr
  rw [Nat.ofDigitChars_ten_toDigits] at hp
  cases hds : Nat.toDigits 10 n with
  | nil => exact absurd hds Nat.toDigits_ne_nil
  | cons d tl =>
    rw [hds] at hp hd
    have h1 : d.isDigit = true := hd d (by simp)
    have hp' : parseDigits (d :: (tl ++ rest)) 0 = (n, rest) := hp
    simp [parseNum, h1, hp']
    split <;> simp_all [numEnd]

theorem intText_nonneg (n : Int) (h : 0 ≤ n) : intText n = Nat.toDigits 10 n.toNat := by
  simp [intText, Int.repr_eq_if, h]

theorem intText_neg (n : Int) (h : ¬ 0 ≤ n) : intText n = '-' :: Nat.toDigits 10 (-n).toNat := by
  simp [intText, Int.repr_eq_if, h]

/-- an integer followed by anything that cannot continue a number token is read back -/
theorem parseNum_intText (n : Int) (rest : Str) (h : numEnd rest = true) :
    parseNum (intText n ++ rest) = some (.num n, rest) := by
  by_cases hn : 0 ≤ n
  · rw [intText_nonneg n hn, parseNum_nat _ rest h]
    congr 3; omega
  · rw [intText_neg n hn, List.cons_append, parseNum_neg_nat _ rest h]
    congr 3; omega

/-- the first character of a printed integer -/
theorem intText_head (n : Int) : ∃ c tl, intText n = c :: tl ∧ (c = '-' ∨ c.isDigit = true) := by
  by_cases hn : 0 ≤ n
  · rw [intText_nonneg n hn]
    cases hds : Nat.toDigits 10 n.toNat with
    | nil => exact absurd hds Nat.toDigits_ne_nil
    | cons d tl =>
      exact ⟨d, tl, rfl, Or.inr (Nat.isDigit_of_mem_toDigits (n := n.toNat) (b := 10) (by decide) (by decide)
        (by simp [hds]))⟩
  · exact ⟨'-', _, intText_neg n hn, Or.inl rfl⟩

/-! ### values -/

theorem numHead_facts (c : Char) (h : c = '-' ∨ c.isDigit = true) :
    isWs c = false ∧ c ≠ ']' ∧ c ≠ '}' ∧ c ≠ '"' ∧ c ≠ '[' ∧ c ≠ '{' ∧ c ≠ 't' ∧ c ≠ 'f' ∧
      c ≠ 'n' := by
  rcases h with h | h
  · subst h; decide
  · have hw : isWs c = false := by
      cases hw : isWs c with
      | false => rfl
      | true =>
        simp only [isWs, Bool.or_eq_true, decide_eq_true_eq] at hw
        rcases hw with ((hw | hw) | hw) | hw <;> subst hw <;> exact absurd h (by decide)
    refine ⟨hw, ?_, ?_, ?_, ?_, ?_, ?_, ?_, ?_⟩ <;> intro e <;> subst e <;>
      exact absurd h (by decide)

theorem skipWs_head (c : Char) (tl : Str) (h : isWs c = false) : skipWs (c :: tl) = c :: tl := by
  simp [skipWs, h]

theorem skipWs_space (cs : Str) : skipWs (' ' :: cs) = skipWs cs := by
  simp [skipWs, isWs]

/-- the first character of a value's text: not white space, not a closing bracket -/
def HeadOk (l : Str) : Prop := ∃ c tl, l = c :: tl ∧ isWs c = false ∧ c ≠ ']' ∧ c ≠ '}'

theorem HeadOk.append {l : Str} (h : HeadOk l) (r : Str) : HeadOk (l ++ r) := by
  obtain ⟨c, tl, rfl, h⟩ := h
  exact ⟨c, tl ++ r, rfl, h⟩

theorem HeadOk.skipWs {l : Str} (h : HeadOk l) : skipWs l = l := by
  obtain ⟨c, tl, rfl, h, _⟩ := h
  exact skipWs_head c tl h

theorem render_head (j : Json) : HeadOk (render j) := by
  cases j with
  | null => exact ⟨'n', "ull".toList, by simp [render], by decide⟩
  | bool b => cases b
              · exact ⟨'f', "alse".toList, by simp [render], by decide⟩
              · exact ⟨'t', "rue".toList, by simp [render], by decide⟩
  | num n =>
    obtain ⟨c, tl, hc, h⟩ := intText_head n
    have := numHead_facts c h
    exact ⟨c, tl, by simp [render, hc], this.1, this.2.1, this.2.2.1⟩
  | str s => exact ⟨'"', _, by rw [render, quote], by decide⟩
  | arr xs => exact ⟨'[', _, by rw [render], by decide⟩
  | obj kvs => exact ⟨'{', _, by rw [render], by decide⟩

theorem renderL_head (x : Json) (xs : List Json) : HeadOk (renderL (x :: xs)) := by
  cases xs with
  | nil => simpa [renderL] using render_head x
  | cons y r => simpa [renderL] using (render_head x).append _

theorem renderM_head (k : Str) (v : Json) (kvs : List (Str × Json)) :
    ∃ tl, renderM ((k, v) :: kvs) = '"' :: tl := by
  cases kvs with
  | nil => exact ⟨_, by rw [renderM, quote]; rfl⟩
  | cons y r => exact ⟨_, by rw [renderM, quote]; rfl⟩

theorem size_pos (j : Json) : 1 ≤ j.size := by
  cases j <;> simp [Json.size]

theorem numEnd_comma (r : Str) : numEnd (',' :: r) = true := by simp [numEnd]
theorem numEnd_rbracket (r : Str) : numEnd (']' :: r) = true := by simp [numEnd]
theorem numEnd_rbrace (r : Str) : numEnd ('}' :: r) = true := by simp [numEnd]

mutual
/-- a printed value followed by `rest` is read back, leaving `rest`; leading white space is
skipped; `2 * size` units of fuel suffice -/
theorem parseValue_render : (j : Json) → (fuel : Nat) → (cs rest : Str) →
    2 * j.size ≤ fuel → numEnd rest = true → skipWs cs = render j ++ rest →
    parseValue fuel cs = some (j, rest)
  | .null, fuel, cs, rest, hf, _, hcs => by
    cases fuel with
    | zero => simp only [Json.size] at hf; omega
    | succ f => simp [parseValue, hcs, render, startsWith]
  | .bool true, fuel, cs, rest, hf, _, hcs => by
    cases fuel with
    | zero => simp only [Json.size] at hf; omega
    | succ f => simp [parseValue, hcs, render, startsWith]
  | .bool false, fuel, cs, rest, hf, _, hcs => by
    cases fuel with
    | zero => simp only [Json.size] at hf; omega
    | succ f => simp [parseValue, hcs, render, startsWith]
  | .num n, fuel, cs, rest, hf, hr, hcs => by
    cases fuel with
    | zero => simp only [Json.size] at hf; omega
    | succ f =>
      obtain ⟨c, tl, hc, hh⟩ := intText_head n
      have hp := parseNum_intText n rest hr
      have hn := numHead_facts c hh
      rw [hc] at hp
      simp only [render, hc, List.cons_append] at hcs
      simp only [parseValue, hcs, hn, if_false]
      exact hp
  | .str s, fuel, cs, rest, hf, _, hcs => by
    cases fuel with
    | zero => simp only [Json.size] at hf; omega
    | succ f =>
      have hq : render (.str s) ++ rest = '"' :: (escBody s ++ '"' :: rest) := by
        simp [render, quote]
      rw [hq] at hcs
      simp only [parseValue, hcs, if_true, parseStrBody_quote]
  | .arr [], fuel, cs, rest, hf, _, hcs => by
    cases fuel with
    | zero => simp only [Json.size] at hf; omega
    | succ f =>
      have hq : render (.arr []) ++ rest = '[' :: ']' :: rest := by simp [render, renderL]
      rw [hq] at hcs
      simp [parseValue, hcs, skipWs_head ']' rest (by decide)]
  | .arr (x :: xs), fuel, cs, rest, hf, _, hcs => by
    cases fuel with
    | zero => simp only [Json.size] at hf; omega
    | succ f =>
      have hq : render (.arr (x :: xs)) ++ rest = '[' :: (renderL (x :: xs) ++ ']' :: rest) := by
        simp [render]
      rw [hq] at hcs
      have hh := (renderL_head x xs).append (']' :: rest)
      have hs := hh.skipWs
      have ih := parseElems_renderL (x :: xs) (by simp) f _ rest
        (by simp only [Json.size] at hf; omega) hs
      obtain ⟨c, tl, hc, _, hc1, _⟩ := hh
      rw [parseValue]
      simp only [hcs, show ('[' : Char) ≠ '"' by decide, if_false, if_true]
      split
      · rename_i r heq
        rw [hs, hc] at heq
        cases heq
        exact absurd rfl hc1
      · rw [ih]
  | .obj [], fuel, cs, rest, hf, _, hcs => by
    cases fuel with
    | zero => simp only [Json.size] at hf; omega
    | succ f =>
      have hq : render (.obj []) ++ rest = '{' :: '}' :: rest := by simp [render, renderM]
      rw [hq] at hcs
      simp [parseValue, hcs, skipWs_head '}' rest (by decide)]
  | .obj ((k, v) :: kvs), fuel, cs, rest, hf, _, hcs => by
    cases fuel with
    | zero => simp only [Json.size] at hf; omega
    | succ f =>
      have hq : render (.obj ((k, v) :: kvs)) ++ rest =
          '{' :: (renderM ((k, v) :: kvs) ++ '}' :: rest) := by
        simp [render]
      rw [hq] at hcs
      obtain ⟨tl, htl⟩ := renderM_head k v kvs
      have hs : skipWs (renderM ((k, v) :: kvs) ++ '}' :: rest) =
          renderM ((k, v) :: kvs) ++ '}' :: rest := by
        rw [htl]; exact skipWs_head _ _ (by decide)
      have ih := parseMembers_renderM ((k, v) :: kvs) (by simp) f _ rest
        (by simp only [Json.size] at hf; omega) hs
      rw [parseValue]
      simp only [hcs, show ('{' : Char) ≠ '"' by decide, show ('{' : Char) ≠ '[' by decide,
        if_false, if_true]
      split
      · rename_i r heq
        rw [hs, htl] at heq
        cases heq
      · rw [ih]
/-- the elements of a non-empty array up to and including the closing bracket -/
theorem parseElems_renderL : (xs : List Json) → xs ≠ [] → (fuel : Nat) → (cs rest : Str) →
    2 * Json.sizeL xs + 1 ≤ fuel → skipWs cs = renderL xs ++ ']' :: rest →
    parseElems fuel cs = some (xs, rest)
  | [], h, _, _, _, _, _ => absurd rfl h
  | [x], _, fuel, cs, rest, hf, hcs => by
    cases fuel with
    | zero => omega
    | succ f =>
      have hx := size_pos x
      simp only [renderL] at hcs
      have ih := parseValue_render x f cs (']' :: rest)
        (by simp only [Json.sizeL] at hf; omega) (numEnd_rbracket rest) hcs
      simp [parseElems, ih, skipWs_head ']' rest (by decide)]
  | x :: y :: r, _, fuel, cs, rest, hf, hcs => by
    cases fuel with
    | zero => omega
    | succ f =>
      have hx := size_pos x
      have hq : renderL (x :: y :: r) ++ ']' :: rest =
          render x ++ (',' :: ' ' :: (renderL (y :: r) ++ ']' :: rest)) := by
        simp [renderL]
      rw [hq] at hcs
      have ih := parseValue_render x f cs _
        (by simp only [Json.sizeL] at hf ⊢; omega) (numEnd_comma _) hcs
      have hs : skipWs (' ' :: (renderL (y :: r) ++ ']' :: rest)) =
          renderL (y :: r) ++ ']' :: rest := by
        rw [skipWs_space]; exact ((renderL_head y r).append _).skipWs
      have ih2 := parseElems_renderL (y :: r) (by simp) f _ rest
        (by simp only [Json.sizeL] at hf ⊢; omega) hs
      simp [parseElems, ih, skipWs_head ',' _ (by decide), ih2]
/-- the members of a non-empty object up to and including the closing brace -/
theorem parseMembers_renderM : (kvs : List (Str × Json)) → kvs ≠ [] → (fuel : Nat) →
    (cs rest : Str) → 2 * Json.sizeM kvs + 1 ≤ fuel → skipWs cs = renderM kvs ++ '}' :: rest →
    parseMembers fuel cs = some (kvs, rest)
  | [], h, _, _, _, _, _ => absurd rfl h
  | [(k, v)], _, fuel, cs, rest, hf, hcs => by
    cases fuel with
    | zero => omega
    | succ f =>
      have hq : renderM [(k, v)] ++ '}' :: rest =
          '"' :: (escBody k ++ '"' :: ':' :: ' ' :: (render v ++ '}' :: rest)) := by
        simp [renderM, quote]
      rw [hq] at hcs
      have hs : skipWs (' ' :: (render v ++ '}' :: rest)) = render v ++ '}' :: rest := by
        rw [skipWs_space]; exact ((render_head v).append _).skipWs
      have ih := parseValue_render v f _ ('}' :: rest)
        (by simp only [Json.sizeM] at hf; omega) (numEnd_rbrace rest) hs
      simp only [parseMembers, hcs]
      rw [parseStrBody_quote]
      simp [skipWs_head ':' _ (by decide), ih, skipWs_head '}' rest (by decide)]
  | (k, v) :: y :: r, _, fuel, cs, rest, hf, hcs => by
    cases fuel with
    | zero => omega
    | succ f =>
      have hx := size_pos v
      have hq : renderM ((k, v) :: y :: r) ++ '}' :: rest =
          '"' :: (escBody k ++ '"' :: ':' :: ' ' :: (render v ++
            (',' :: ' ' :: (renderM (y :: r) ++ '}' :: rest)))) := by
        simp [renderM, quote]
      rw [hq] at hcs
      have hs : skipWs (' ' :: (render v ++ (',' :: ' ' :: (renderM (y :: r) ++ '}' :: rest)))) =
          render v ++ (',' :: ' ' :: (renderM (y :: r) ++ '}' :: rest)) := by
        rw [skipWs_space]; exact ((render_head v).append _).skipWs
      have ih := parseValue_render v f _ _
        (by simp only [Json.sizeM] at hf ⊢; omega) (numEnd_comma _) hs
      obtain ⟨tl, htl⟩ := renderM_head y.1 y.2 r
      have hs2 : skipWs (' ' :: (renderM (y :: r) ++ '}' :: rest)) =
          renderM (y :: r) ++ '}' :: rest := by
        rw [skipWs_space, htl]; exact skipWs_head _ _ (by decide)
      have ih2 := parseMembers_renderM (y :: r) (by simp) f _ rest
        (by simp only [Json.sizeM] at hf ⊢; omega) hs2
      simp only [parseMembers, hcs]
      rw [parseStrBody_quote]
      simp [skipWs_head ':' _ (by decide), ih, skipWs_head ',' _ (by decide), ih2]
end

/-! ### the fuel `parseJson` supplies is enough -/

theorem quote_length (s : Str) : 2 ≤ (quote s).length := by simp [quote]

theorem intText_length (n : Int) : 1 ≤ (intText n).length := by
  obtain ⟨c, tl, h, _⟩ := intText_head n
  simp [h]

mutual
theorem size_le_render : (j : Json) → 2 * j.size ≤ (render j).length + 1
  | .null => by simp [Json.size, render]
  | .bool true => by simp [Json.size, render]
  | .bool false => by simp [Json.size, render]
  | .num n => by have := intText_length n; simp only [Json.size, render]; omega
  | .str s => by have := quote_length s; simp only [Json.size, render]; omega
  | .arr xs => by
    have := sizeL_le_renderL xs
    simp only [Json.size, render, List.length_cons, List.length_append, List.length_nil]; omega
  | .obj kvs => by
    have := sizeM_le_renderM kvs
    simp only [Json.size, render, List.length_cons, List.length_append, List.length_nil]; omega
theorem sizeL_le_renderL : (xs : List Json) → 2 * Json.sizeL xs ≤ (renderL xs).length + 1
  | [] => by simp [Json.sizeL]
  | [x] => by have := size_le_render x; simp only [Json.sizeL, renderL]; omega
  | x :: y :: r => by
    have := size_le_render x
    have := sizeL_le_renderL (y :: r)
    simp only [Json.sizeL, renderL, List.length_cons, List.length_append] at *; omega
theorem sizeM_le_renderM : (kvs : List (Str × Json)) →
    2 * Json.sizeM kvs ≤ (renderM kvs).length + 1
  | [] => by simp [Json.sizeM]
  | [(k, v)] => by
    have := size_le_render v
    simp only [Json.sizeM, renderM, List.length_cons, List.length_append]; omega
  | (k, v) :: y :: r => by
    have := size_le_render v
    have := sizeM_le_renderM (y :: r)
    simp only [Json.sizeM, renderM, List.length_cons, List.length_append] at *; omega
end

/-! ### well-formed values: member names pairwise distinct at every level -/

mutual
/-- the member names of every object, at any depth, are pairwise distinct.  Nothing is asked
of characters: every `Char` round-trips. -/
def Json.wf : Json → Bool
  | .arr xs => Json.wfL xs
  | .obj kvs => Json.wfM kvs
  | _ => true
def Json.wfL : List Json → Bool
  | [] => true
  | x :: xs => x.wf && Json.wfL xs
def Json.wfM : List (Str × Json) → Bool
  | [] => true
  | (k, v) :: kvs => !objHas kvs k && v.wf && Json.wfM kvs
end

theorem objSet_append_new (acc : List (Str × Json)) (k : Str) (v : Json)
    (h : objHas acc k = false) : objSet acc k v = acc ++ [(k, v)] := by
  induction acc with
  | nil => simp [objSet]
  | cons a acc ih =>
    obtain ⟨k', v'⟩ := a
    by_cases hk : k' = k
    · simp [objHas, objGet, hk] at h
    · have : objHas acc k = false := by simpa [objHas, objGet, hk] using h
      simp [objSet, hk, ih this]

theorem objHas_append (a b : List (Str × Json)) (k : Str) :
    objHas (a ++ b) k = (objHas a k || objHas b k) := by
  induction a with
  | nil => simp [objHas, objGet]
  | cons x a ih =>
    obtain ⟨k', v'⟩ := x
    by_cases hk : k' = k
    · simp [objHas, objGet, hk]
    · simpa [objHas, objGet, hk] using ih

/-- the keys of a list of members, with the values forgotten -/
def distinctKeys : List (Str × Json) → Bool
  | [] => true
  | (k, _) :: kvs => !objHas kvs k && distinctKeys kvs

theorem foldl_objSet_distinct (kvs acc : List (Str × Json)) (hd : distinctKeys kvs = true)
    (ha : ∀ k, objHas acc k = true → objHas kvs k = false) :
    kvs.foldl (fun acc (kv : Str × Json) => objSet acc kv.1 kv.2) acc = acc ++ kvs := by
  induction kvs generalizing acc with
  | nil => simp
  | cons a kvs ih =>
    obtain ⟨k, v⟩ := a
    simp only [distinctKeys, Bool.and_eq_true, Bool.not_eq_true'] at hd
    have hk : objHas acc k = false := by
      cases h : objHas acc k with
      | false => rfl
      | true => have := ha k h; simp [objHas, objGet] at this
    simp only [List.foldl_cons]
    rw [objSet_append_new acc k v hk, ih (acc ++ [(k, v)]) hd.2]
    · simp
    · intro k' h'
      rw [objHas_append] at h'
      by_cases e : k = k'
      · subst e; exact hd.1
      · simp only [Bool.or_eq_true] at h'
        rcases h' with h' | h'
        · have := ha k' h'
          simpa [objHas, objGet, e] using this
        · simp [objHas, objGet, e] at h'

theorem dedupMembers_distinct (kvs : List (Str × Json)) (hd : distinctKeys kvs = true) :
    dedupMembers kvs = kvs := by
  have := foldl_objSet_distinct kvs [] hd (by intro k h; simp [objHas, objGet] at h)
  simpa [dedupMembers] using this

theorem objHas_normaliseM (kvs : List (Str × Json)) (k : Str) :
    objHas (normaliseM kvs) k = objHas kvs k := by
  induction kvs with
  | nil => simp [normaliseM]
  | cons a kvs ih =>
    obtain ⟨k', v'⟩ := a
    by_cases hk : k' = k
    · simp [normaliseM, objHas, objGet, hk]
    · simpa [normaliseM, objHas, objGet, hk] using ih

theorem wfM_distinct (kvs : List (Str × Json)) (h : Json.wfM kvs = true) :
    distinctKeys kvs = true := by
  induction kvs with
  | nil => simp [distinctKeys]
  | cons a kvs ih =>
    obtain ⟨k, v⟩ := a
    simp only [Json.wfM, Bool.and_eq_true, Bool.not_eq_true'] at h
    simp [distinctKeys, h.1.1, ih h.2]

mutual
theorem normalise_wf : (j : Json) → j.wf = true → normalise j = j
  | .null, _ => by simp [normalise]
  | .bool _, _ => by simp [normalise]
  | .num _, _ => by simp [normalise]
  | .str _, _ => by simp [normalise]
  | .arr xs, h => by
    simp only [Json.wf] at h
    simp [normalise, normaliseL_wf xs h]
  | .obj kvs, h => by
    simp only [Json.wf] at h
    rw [normalise, normaliseM_wf kvs h, dedupMembers_distinct kvs (wfM_distinct kvs h)]
theorem normaliseL_wf : (xs : List Json) → Json.wfL xs = true → normaliseL xs = xs
  | [], _ => by simp [normaliseL]
  | x :: xs, h => by
    simp only [Json.wfL, Bool.and_eq_true] at h
    simp [normaliseL, normalise_wf x h.1, normaliseL_wf xs h.2]
theorem normaliseM_wf : (kvs : List (Str × Json)) → Json.wfM kvs = true → normaliseM kvs = kvs
  | [], _ => by simp [normaliseM]
  | (k, v) :: kvs, h => by
    simp only [Json.wfM, Bool.and_eq_true] at h
    simp [normaliseM, normalise_wf v h.1.2, normaliseM_wf kvs h.2]
end

/-! ### the round trip -/

/-- the reader, before de-duplication, returns exactly the value printed — for every value -/
theorem parseValue_render_top (j : Json) :
    parseValue ((render j).length + 1) (render j) = some (j, []) := by
  have h := parseValue_render j ((render j).length + 1) (render j) []
    (by have := size_le_render j; omega) rfl (by simpa using (render_head j).skipWs)
  exact h

/-- `json.loads(json.dumps(x)) == x` for every value whose member names are pairwise distinct
at every level (as in every Python `dict`); strings and names may contain any characters. -/
theorem parseJson_render (j : Json) (h : Json.wf j = true) : parseJson (render j) = some j := by
  simp [parseJson, parseValue_render_top j, skipWs, normalise_wf j h]

/-- without the distinctness condition the reader returns the de-duplicated value -/
theorem parseJson_render_any (j : Json) : parseJson (render j) = some (normalise j) := by
  simp [parseJson, parseValue_render_top j, skipWs]

/-- distinctness is needed: a repeated name is merged (last value, first position) -/
example : parseJson (render (.obj [("a".toList, .num 1), ("a".toList, .num 2)])) =
    some (.obj [("a".toList, .num 2)]) := by
  rw [parseJson_render_any]; rfl

/-- characters of every escape class, a surrogate pair included -/
example : Json.wf (.obj [("k\"\\\n".toList, .arr [.str "é\x7f\x08😀 /".toList, .num (-12), .null]),
    ("".toList, .obj [])]) = true := by decide

/-! ### the leading-zero screen of `States.StringToJson` passes printed text -/

theorem lz_str_plain (c : Char) (q : Bool) (rest : Str) (h1 : c ≠ '\\') (h2 : c ≠ '"') :
    leadingZero true false q (c :: rest) = leadingZero true false false rest := by
  simp [leadingZero, h1, h2]

theorem lz_str_esc (e : Char) (q : Bool) (rest : Str) :
    leadingZero true false q ('\\' :: e :: rest) = leadingZero true false false rest := by
  simp [leadingZero]

theorem lz_hex4 (n : Nat) (q : Bool) (rest : Str) :
    leadingZero true false q (hex4 n ++ rest) = leadingZero true false false rest := by
  have h1 := hexDigit_ne (n / 4096 % 16) (Nat.mod_lt _ (by decide))
  have h2 := hexDigit_ne (n / 256 % 16) (Nat.mod_lt _ (by decide))
  have h3 := hexDigit_ne (n / 16 % 16) (Nat.mod_lt _ (by decide))
  have h4 := hexDigit_ne (n % 16) (Nat.mod_lt _ (by decide))
  simp only [hex4, List.cons_append, List.nil_append]
  rw [lz_str_plain _ _ _ h1.2 h1.1, lz_str_plain _ _ _ h2.2 h2.1, lz_str_plain _ _ _ h3.2 h3.1,
    lz_str_plain _ _ _ h4.2 h4.1]

theorem lz_escChar (c : Char) (q : Bool) (rest : Str) :
    leadingZero true false q (escChar c ++ rest) = leadingZero true false false rest := by
  unfold escChar
  split
  · exact lz_str_esc _ _ _
  split
  · exact lz_str_esc _ _ _
  split
  · exact lz_str_esc _ _ _
  split
  · exact lz_str_esc _ _ _
  split
  · exact lz_str_esc _ _ _
  split
  · exact lz_str_esc _ _ _
  split
  · exact lz_str_esc _ _ _
  split
  · rename_i h1 h2 _ _ _ _ _ _
    exact lz_str_plain c q rest h2 h1
  split
  · simp only [List.cons_append]
    rw [lz_str_esc, lz_hex4]
  · simp only [List.cons_append, List.append_assoc]
    rw [lz_str_esc, lz_hex4, lz_str_esc, lz_hex4]

theorem lz_escBody (s : Str) (q : Bool) (rest : Str) :
    leadingZero true false q (escBody s ++ '"' :: rest) = leadingZero false false false rest := by
  induction s generalizing q with
  | nil => simp [escBody, leadingZero]
  | cons c cs ih => simp only [escBody, List.append_assoc]; rw [lz_escChar, ih]

theorem lz_quote (s : Str) (p : Bool) (rest : Str) :
    leadingZero false false p (quote s ++ rest) = leadingZero false false false rest := by
  have : quote s ++ rest = '"' :: (escBody s ++ '"' :: rest) := by simp [quote]
  rw [this]
  simp [leadingZero, lz_escBody]

/-- digits after a digit never trip the screen -/
theorem lz_digits (ds rest : Str) (hd : ∀ c ∈ ds, c.isDigit = true) :
    leadingZero false false true (ds ++ rest) = leadingZero false false true rest := by
  induction ds with
  | nil => rfl
  | cons d ds ih =>
    have h1 : d.isDigit = true := hd d (by simp)
    have h2 : d ≠ '"' := by intro e; subst e; exact absurd h1 (by decide)
    simp only [List.cons_append, leadingZero, h2, if_false, Bool.not_true, Bool.and_false,
      Bool.false_and, h1, Bool.true_or]
    exact ih (fun c hc => hd c (by simp [hc]))

/-- the leading digit of a number ≥ 10 (indeed ≥ 1) is not `0` -/
theorem toDigits_head_ne_zero (n : Nat) (h : 0 < n) :
    ∃ d tl, Nat.toDigits 10 n = d :: tl ∧ d ≠ '0' := by
  induction n using Nat.strongRecOn with
  | _ n ih =>
    by_cases hn : n < 10
    · refine ⟨n.digitChar, [], Nat.toDigits_of_lt_base hn, ?_⟩
      match n, h, hn with
      | 1, _, _ | 2, _, _ | 3, _, _ | 4, _, _ | 5, _, _ | 6, _, _ | 7, _, _ | 8, _, _
      | 9, _, _ => decide
      | n + 10, _, hn => omega
    · obtain ⟨d, tl, hd, hz⟩ := ih (n / 10) (by omega) (by omega)
      exact ⟨d, tl ++ [Nat.digitChar (n % 10)],
        by rw [Nat.toDigits_of_base_le (by decide) (by omega), hd]; rfl, hz⟩

/-- what follows a value inside printed text: nothing, or `,` `]` `}` -/
def FollowOk (rest : Str) : Prop :=
  rest = [] ∨ ∃ r, rest = ',' :: r ∨ rest = ']' :: r ∨ rest = '}' :: r

theorem FollowOk.lz {rest : Str} (h : FollowOk rest) (q : Bool) :
    leadingZero false false q rest = leadingZero false false false rest := by
  rcases h with h | ⟨r, h | h | h⟩ <;> subst h <;> simp [leadingZero]

theorem lz_toDigits (n : Nat) (rest : Str) (hr : FollowOk rest) :
    leadingZero false false false (Nat.toDigits 10 n ++ rest) =
      leadingZero false false false rest := by
  have hd : ∀ c ∈ Nat.toDigits 10 n, c.isDigit = true :=
    fun c hc => Nat.isDigit_of_mem_toDigits (by decide) (by decide) hc
  by_cases hn : n = 0
  · subst hn
    rw [Nat.toDigits_zero]
    rcases hr with h | ⟨r, h | h | h⟩ <;> subst h <;> simp [leadingZero]
  · obtain ⟨d, tl, hds, hz⟩ := toDigits_head_ne_zero n (by omega)
    rw [hds] at hd ⊢
    have h1 : d.isDigit = true := hd d (by simp)
    have h2 : d ≠ '"' := by intro e; subst e; exact absurd h1 (by decide)
    simp only [List.cons_append, leadingZero, h2, hz, if_false, decide_false, Bool.false_and, h1,
      Bool.true_or]
    rw [lz_digits tl rest (fun c hc => hd c (by simp [hc])), hr.lz]
    simp

theorem lz_intText (n : Int) (rest : Str) (hr : FollowOk rest) :
    leadingZero false false false (intText n ++ rest) = leadingZero false false false rest := by
  by_cases hn : 0 ≤ n
  · rw [intText_nonneg n hn, lz_toDigits _ _ hr]
  · rw [intText_neg n hn]
    simp only [List.cons_append, leadingZero]
    simpa using lz_toDigits _ _ hr

mutual
theorem lz_render : (j : Json) → (rest : Str) → FollowOk rest →
    leadingZero false false false (render j ++ rest) = leadingZero false false false rest
  | .null, rest, _ => by simp [render, leadingZero]
  | .bool true, rest, _ => by simp [render, leadingZero]
  | .bool false, rest, _ => by simp [render, leadingZero]
  | .num n, rest, hr => by simpa [render] using lz_intText n rest hr
  | .str s, rest, _ => by simpa [render] using lz_quote s false rest
  | .arr xs, rest, _ => by
    have := lz_renderL xs rest
    simpa [render, leadingZero] using this
  | .obj kvs, rest, _ => by
    have := lz_renderM kvs rest
    simpa [render, leadingZero] using this
theorem lz_renderL : (xs : List Json) → (rest : Str) →
    leadingZero false false false (renderL xs ++ ']' :: rest) = leadingZero false false false rest
  | [], rest => by simp [renderL, leadingZero]
  | [x], rest => by
    rw [renderL, lz_render x _ (Or.inr ⟨rest, Or.inr (Or.inl rfl)⟩)]
    simp [leadingZero]
  | x :: y :: r, rest => by
    have := lz_renderL (y :: r) rest
    simp only [renderL, List.append_assoc, List.cons_append]
    rw [lz_render x _ (Or.inr ⟨_, Or.inl rfl⟩)]
    simpa [leadingZero] using this
theorem lz_renderM : (kvs : List (Str × Json)) → (rest : Str) →
    leadingZero false false false (renderM kvs ++ '}' :: rest) = leadingZero false false false rest
  | [], rest => by simp [renderM, leadingZero]
  | [(k, v)], rest => by
    simp only [renderM, List.append_assoc, List.cons_append]
    rw [lz_quote]
    have := lz_render v ('}' :: rest) (Or.inr ⟨rest, Or.inr (Or.inr rfl)⟩)
    simpa [leadingZero] using this
  | (k, v) :: y :: r, rest => by
    have ih := lz_renderM (y :: r) rest
    simp only [renderM, List.append_assoc, List.cons_append]
    rw [lz_quote]
    have := lz_render v (',' :: ' ' :: (renderM (y :: r) ++ '}' :: rest)) (Or.inr ⟨_, Or.inl rfl⟩)
    simp only [leadingZero] at this ⊢
    simpa [leadingZero, ih] using this
end

/-- printed text never has a number with a leading zero -/
theorem leadingZero_render (j : Json) : leadingZero false false false (render j) = false := by
  have := lz_render j [] (Or.inl rfl)
  simpa [leadingZero] using this

end Asl
