/- helper lemmas for C19: text splitting, the engine's option maps, evaluation of the address model -/
import AslModel.Amqp
namespace Asl.Amqp
open Asl

theorem splitOn_not_mem {sep : Char} : ∀ {s : Str}, sep ∉ s → splitOn sep s = [s]
  | [], _ => rfl
  | c :: cs, h => by
    have hc : c ≠ sep := fun e => h (e ▸ List.mem_cons_self)
    have hcs : sep ∉ cs := fun m => h (List.mem_cons_of_mem _ m)
    simp [splitOn, hc, splitOn_not_mem hcs]

theorem splitOn_append {sep : Char} {b : Str} : ∀ {a : Str}, sep ∉ a →
    splitOn sep (a ++ sep :: b) = a :: splitOn sep b
  | [], _ => by simp [splitOn]
  | c :: cs, h => by
    have hc : c ≠ sep := fun e => h (e ▸ List.mem_cons_self)
    have hcs : sep ∉ cs := fun m => h (List.mem_cons_of_mem _ m)
    simp [splitOn, hc, splitOn_append hcs]

/-- a name the address grammar leaves alone: none of its separators, no padding, not empty -/
structure Clean (n : Str) : Prop where
  noSemi : ';' ∉ n
  noSlash : '/' ∉ n
  noBrace : n.head? ≠ some '{'
  stripped : strip n = n
  nonempty : n ≠ []

theorem splitAddress_clean {n tl : Str} (hn : Clean n) (ht : ';' ∉ tl) :
    splitAddress (n ++ ';' :: tl) = ⟨n, [], tl⟩ := by
  have hb : ¬ (2 ≤ n.length ∧ n.head? = some '{') := fun h => hn.noBrace h.2
  simp only [splitAddress, splitOn_append hn.noSemi, splitOn_not_mem ht, splitOn_not_mem hn.noSlash,
    hn.stripped, if_neg hb]

theorem parseAddress_clean {n tl : Str} {o : Json} (hn : Clean n) (ht : ';' ∉ tl)
    (hp : parseJson tl = some o) : parseAddress (n ++ ';' :: tl) = destOf n [] o := by
  simp only [parseAddress, splitAddress_clean hn ht, hp]

/-- an address that is just a clean name -/
theorem parseAddress_name {n : Str} (hn : Clean n) : parseAddress n = destOf n [] (.obj []) := by
  have hb : ¬ (2 ≤ n.length ∧ n.head? = some '{') := fun h => hn.noBrace h.2
  have hs : splitAddress n = ⟨n, [], ['{', '}']⟩ := by
    simp only [splitAddress, splitOn_not_mem hn.noSemi, splitOn_not_mem hn.noSlash, hn.stripped, if_neg hb]
  have hp : parseJson ['{', '}'] = some (.obj []) := by decide
  simp only [parseAddress, hs, hp]

/-! the option maps of the engine's address strings, as `json.loads` gives them -/

def optsShared : QType → Json
  | .classic => .obj [(['n', 'o', 'd', 'e'], .obj [(['d', 'u', 'r', 'a', 'b', 'l', 'e'], .bool true)])]
  | .quorum => .obj [(['n', 'o', 'd', 'e'], .obj [(['d', 'u', 'r', 'a', 'b', 'l', 'e'], .bool true), (['x', '-', 'd', 'e', 'c', 'l', 'a', 'r', 'e'], .obj [(['a', 'r', 'g', 'u', 'm', 'e', 'n', 't', 's'], .obj [(['x', '-', 'q', 'u', 'e', 'u', 'e', '-', 't', 'y', 'p', 'e'], .str ['q', 'u', 'o', 'r', 'u', 'm'])])])])]

def optsInstance : QType → Json
  | .classic => .obj [(['n', 'o', 'd', 'e'], .obj [(['d', 'u', 'r', 'a', 'b', 'l', 'e'], .bool true)]), (['l', 'i', 'n', 'k'], .obj [(['x', '-', 's', 'u', 'b', 's', 'c', 'r', 'i', 'b', 'e'], .obj [(['e', 'x', 'c', 'l', 'u', 's', 'i', 'v', 'e'], .bool true)])])]
  | .quorum => .obj [(['n', 'o', 'd', 'e'], .obj [(['d', 'u', 'r', 'a', 'b', 'l', 'e'], .bool true), (['x', '-', 'd', 'e', 'c', 'l', 'a', 'r', 'e'], .obj [(['a', 'r', 'g', 'u', 'm', 'e', 'n', 't', 's'], .obj [(['x', '-', 'q', 'u', 'e', 'u', 'e', '-', 't', 'y', 'p', 'e'], .str ['q', 'u', 'o', 'r', 'u', 'm'])])])]), (['l', 'i', 'n', 'k'], .obj [(['x', '-', 's', 'u', 'b', 's', 'c', 'r', 'i', 'b', 'e'], .obj [(['e', 'x', 'c', 'l', 'u', 's', 'i', 'v', 'e'], .bool true)])])]

def optsReply : QType → Json
  | .classic => .obj [(['n', 'o', 'd', 'e'], .obj [(['d', 'u', 'r', 'a', 'b', 'l', 'e'], .bool true)]), (['l', 'i', 'n', 'k'], .obj [(['x', '-', 's', 'u', 'b', 's', 'c', 'r', 'i', 'b', 'e'], .obj [(['a', 'r', 'g', 'u', 'm', 'e', 'n', 't', 's'], .obj [(['x', '-', 'p', 'r', 'i', 'o', 'r', 'i', 't', 'y'], .num 10)])])])]
  | .quorum => .obj [(['n', 'o', 'd', 'e'], .obj [(['d', 'u', 'r', 'a', 'b', 'l', 'e'], .bool true), (['x', '-', 'd', 'e', 'c', 'l', 'a', 'r', 'e'], .obj [(['a', 'r', 'g', 'u', 'm', 'e', 'n', 't', 's'], .obj [(['x', '-', 'q', 'u', 'e', 'u', 'e', '-', 't', 'y', 'p', 'e'], .str ['q', 'u', 'o', 'r', 'u', 'm'])])])]), (['l', 'i', 'n', 'k'], .obj [(['x', '-', 's', 'u', 'b', 's', 'c', 'r', 'i', 'b', 'e'], .obj [(['a', 'r', 'g', 'u', 'm', 'e', 'n', 't', 's'], .obj [(['x', '-', 'p', 'r', 'i', 'o', 'r', 'i', 't', 'y'], .num 10)])])])]

def optsTopic : Json := .obj [(['n', 'o', 'd', 'e'], .obj [(['x', '-', 'd', 'e', 'c', 'l', 'a', 'r', 'e'], .obj [(['e', 'x', 'c', 'h', 'a', 'n', 'g', 'e'], .str ['a', 's', 'l', '_', 'w', 'o', 'r', 'k', 'f', 'l', 'o', 'w', '_', 'e', 'n', 'g', 'i', 'n', 'e']), (['e', 'x', 'c', 'h', 'a', 'n', 'g', 'e', '-', 't', 'y', 'p', 'e'], .str ['t', 'o', 'p', 'i', 'c']), (['d', 'u', 'r', 'a', 'b', 'l', 'e'], .bool true)])])]

def sEngine : Str := ['a', 's', 'l', '_', 'w', 'o', 'r', 'k', 'f', 'l', 'o', 'w', '_', 'e', 'n', 'g', 'i', 'n', 'e']

def sTopic : Str := ['t', 'o', 'p', 'i', 'c']

def sXPriority : Str := ['x', '-', 'p', 'r', 'i', 'o', 'r', 'i', 't', 'y']

theorem parse_sharedTail (qt : QType) : parseJson (sharedTail qt) = some (optsShared qt) := by
  cases qt <;> decide
theorem parse_instanceTail (qt : QType) : parseJson (instanceTail qt) = some (optsInstance qt) := by
  cases qt <;> decide
theorem parse_replyTail (qt : QType) : parseJson (replyTail qt) = some (optsReply qt) := by
  cases qt <;> decide
theorem semi_sharedTail (qt : QType) : ';' ∉ sharedTail qt := by cases qt <;> decide
theorem semi_instanceTail (qt : QType) : ';' ∉ instanceTail qt := by cases qt <;> decide
theorem semi_replyTail (qt : QType) : ';' ∉ replyTail qt := by cases qt <;> decide

/-- what a Consumer on a plain durable node `n` sends, in order: the constructor's prefetch, the passive probe
for an exchange called `n`, the queue declaration, the prefetch the engine then sets (if it does), the
subscription -/
def plainQueue (n : Str) (qt : QType) (cap : Option Nat) (exclusive arguments : Json) : List Op :=
  [.qos defaultCapacity, .probe n,
   .queueDeclare (.str n) (.bool false) (.bool true) (.bool false) (.bool false) (queueArgs qt)] ++
  capacityOp cap ++ [.consume (.str n) (.bool false) exclusive arguments]

/-- what those frames create: one durable, non-exclusive, non-auto-delete queue and one subscription -/
def plainEntities (n : Str) (qt : QType) (exclusive arguments : Json) : List Entity :=
  [.queue (.str n) (.bool true) (.bool false) (.bool false) (queueArgs qt),
   .subscription (.str n) (.bool false) exclusive arguments]

theorem created_plainQueue (n : Str) (qt : QType) (cap : Option Nat) (x g : Json) :
    created (plainQueue n qt cap x g) = plainEntities n qt x g := by
  cases cap <;> simp [plainQueue, plainEntities, capacityOp, created, Op.creates, Json.truthy]

section eval
variable (env : Env) (n : Str) (cap : Option Nat)

theorem consumer_shared_eval (qt : QType) (hn : n ≠ []) (hx : n ∉ env.exchanges) :
    consumerOf env cap (destOf n [] (optsShared qt)) = .ok (plainQueue n qt cap (.bool false) .null, n) := by
  cases qt <;>
  simp [optsShared, destOf, nodePart, truthyObj, dget, objGet, nonEmptyObj, nonEmptyArr, isStr, hn, hx, Json.truthy,
    bind, Except.bind, pure, Except.pure, queueArgs, objSet, declare0, linkDeclare0, linkSubscribe0, upd,
    consumerOf, consumerOpen, listenOp, probeOp, exchangeOp, bindOps, strOf, plainQueue]

theorem consumer_instance_eval (qt : QType) (hn : n ≠ []) (hx : n ∉ env.exchanges) :
    consumerOf env cap (destOf n [] (optsInstance qt)) = .ok (plainQueue n qt cap (.bool true) .null, n) := by
  cases qt <;>
  simp [optsInstance, destOf, nodePart, truthyObj, dget, objGet, nonEmptyObj, nonEmptyArr, isStr, hn, hx, Json.truthy,
    bind, Except.bind, pure, Except.pure, linkPart, queueArgs, objSet, declare0, linkDeclare0, linkSubscribe0, upd,
    consumerOf, consumerOpen, listenOp, probeOp, exchangeOp, bindOps, strOf, plainQueue]

theorem consumer_reply_eval (qt : QType) (hn : n ≠ []) (hx : n ∉ env.exchanges) :
    consumerOf env cap (destOf n [] (optsReply qt)) =
      .ok (plainQueue n qt cap (.bool false) (.obj [(sXPriority, .num 10)]), n) := by
  cases qt <;>
  simp [optsReply, destOf, nodePart, truthyObj, dget, objGet, nonEmptyObj, nonEmptyArr, isStr, hn, hx, Json.truthy,
    bind, Except.bind, pure, Except.pure, linkPart, queueArgs, objSet, declare0, linkDeclare0, linkSubscribe0, upd,
    consumerOf, consumerOpen, listenOp, probeOp, exchangeOp, bindOps, strOf, plainQueue, sXPriority]

/-- a Producer on a bare clean name that is not an exchange: only the passive probe, nothing declared, default
exchange, the name as the default subject -/
theorem producer_name_eval (hn : n ≠ []) (hx : n ∉ env.exchanges) :
    (match destOf n [] (.obj []) with
      | .ok d => Except.ok (producerOpen env d)
      | .error e => .error e) = (.ok ([.probe n], ⟨[], n⟩) : Except AErr (List Op × Target)) := by
  simp [destOf, truthyObj, dget, objGet, Json.truthy, bind, Except.bind, pure, Except.pure, producerOpen, exchangeOp,
    probeOp, declare0, hn, hx]

end eval

/-- a frame list made of probes and prefetch settings creates nothing -/
theorem created_append (a b : List Op) : created (a ++ b) = created a ++ created b := by
  induction a with
  | nil => rfl
  | cons x xs ih => simp [created, ih]

theorem created_probeOp (d : Dest) : created (probeOp d) = [] := by
  unfold probeOp
  split <;> rfl

/-- the frames of a run of sends go out in the order given (all indices naming a message) -/
theorem sendSeq_fst (t : Transport) (tgt : Target) (ms : List Msg) :
    ∀ order : List Nat, (∀ j ∈ order, j < ms.length) → (sendSeq t tgt ms order).map Prod.fst = order
  | [], _ => rfl
  | j :: js, hall => by
    have hj : j < ms.length := hall j List.mem_cons_self
    have hjs : ∀ k ∈ js, k < ms.length := fun k hk => hall k (List.mem_cons_of_mem _ hk)
    have hget : ms[j]? = some ms[j] := List.getElem?_eq_getElem hj
    have ih := sendSeq_fst t tgt ms js hjs
    simp only [sendSeq] at ih ⊢
    simp only [List.filterMap_cons, hget, Option.map_some, List.map_cons, List.cons.injEq, true_and]
    exact ih

end Asl.Amqp
