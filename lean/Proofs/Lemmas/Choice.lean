/-
Helper lemmas of C14: the glob matcher against `GlobMatch`, string order against `CodeLt`,
the relations, `evalCmp` against `Matches`, and the list evaluators.
-/
import AslModel.Choice
namespace Asl.ChoiceLemmas
open Asl

/-! ### strings by code point -/

theorem strLt_iff (a b : Str) : strLt a b = true ↔ CodeLt a b := by
  induction a generalizing b with
  | nil =>
    cases b with
    | nil => simp [strLt]; intro h; cases h
    | cons d ds => simp [strLt]; exact CodeLt.nil d ds
  | cons c cs ih =>
    cases b with
    | nil => simp [strLt]; intro h; cases h
    | cons d ds =>
      simp only [strLt]
      constructor
      · intro h
        split at h
        · rename_i hlt; exact CodeLt.head c d cs ds hlt
        · split at h
          · rename_i heq; subst heq; exact CodeLt.tail c cs ds ((ih ds).mp h)
          · cases h
      · intro h
        cases h with
        | head _ _ _ _ hlt => simp [hlt]
        | tail _ _ _ ht =>
          have : ¬ c.toNat < c.toNat := Nat.lt_irrefl _
          simp [this, (ih ds).mpr ht]

theorem codeLt_irrefl (a : Str) : ¬ CodeLt a a := by
  induction a with
  | nil => intro h; cases h
  | cons c cs ih =>
    intro h
    cases h with
    | head _ _ _ _ hlt => exact Nat.lt_irrefl _ hlt
    | tail _ _ _ ht => exact ih ht

/-! ### relations -/

theorem evalInt_iff (r : Rel) (a b : Int) : r.evalInt a b = true ↔ r.Holds (· < ·) a b := by
  cases r <;> simp [Rel.evalInt, Rel.Holds] <;> omega

theorem evalStr_iff (r : Rel) (a b : Str) : r.evalStr a b = true ↔ r.Holds CodeLt a b := by
  cases r <;> simp [Rel.evalStr, Rel.Holds, strLt_iff]

/-! ### the glob matcher -/

theorem anySuffix_iff (f : Str → Bool) (s : Str) :
    anySuffix f s = true ↔ ∃ s1 s2, s = s1 ++ s2 ∧ f s2 = true := by
  induction s with
  | nil =>
    simp only [anySuffix]
    constructor
    · intro h; exact ⟨[], [], rfl, h⟩
    · rintro ⟨s1, s2, h, hf⟩
      have : s2 = [] := by
        have := congrArg List.length h; simp at this; exact List.eq_nil_of_length_eq_zero (by omega)
      rw [this] at hf; exact hf
  | cons c cs ih =>
    simp only [anySuffix, Bool.or_eq_true]
    constructor
    · intro h
      cases h with
      | inl h => exact ⟨[], c :: cs, rfl, h⟩
      | inr h =>
        obtain ⟨s1, s2, hs, hf⟩ := ih.mp h
        exact ⟨c :: s1, s2, by simp [hs], hf⟩
    · rintro ⟨s1, s2, hs, hf⟩
      cases s1 with
      | nil => simp at hs; left; rw [hs]; exact hf
      | cons d s1 =>
        simp at hs
        right; exact ih.mpr ⟨s1, s2, hs.2, hf⟩

theorem glob_nil (s : Str) : glob [] s = s.isEmpty := by simp [glob]

theorem glob_star (p s : Str) : glob ('*' :: p) s = anySuffix (glob p) s := by
  cases p <;> simp [glob]

/-- the condition under which a backslash is an escape -/
def IsEsc (c : Char) (p : Str) : Prop := c = '\\' ∧ ∃ e p', p = e :: p' ∧ (e = '*' ∨ e = '\\')

theorem glob_esc (e : Char) (p s : Str) (he : e = '*' ∨ e = '\\') :
    glob ('\\' :: e :: p) s = (match s with
      | d :: s' => decide (d = e) && glob p s'
      | [] => false) := by
  cases s <;> simp [glob, he]

theorem glob_lit (c : Char) (p s : Str) (h1 : c ≠ '*') (h2 : ¬ IsEsc c p) :
    glob (c :: p) s = (match s with
      | d :: s' => decide (d = c) && glob p s'
      | [] => false) := by
  cases p with
  | nil => cases s <;> simp [glob, h1]
  | cons e p' =>
    have : ¬ (c = '\\' ∧ (e = '*' ∨ e = '\\')) := by
      intro h; exact h2 ⟨h.1, e, p', rfl, h.2⟩
    cases s <;> simp only [glob, h1, if_false, this]

theorem glob_sound : ∀ (n : Nat) (p : Str), p.length ≤ n → ∀ s, glob p s = true → GlobMatch p s := by
  intro n
  induction n with
  | zero =>
    intro p hp s h
    have : p = [] := List.eq_nil_of_length_eq_zero (by omega)
    subst this
    simp [glob_nil] at h; subst h; exact GlobMatch.nil
  | succ n ih =>
    intro p hp s h
    cases p with
    | nil => simp [glob_nil] at h; subst h; exact GlobMatch.nil
    | cons c p =>
      simp at hp
      by_cases hstar : c = '*'
      · subst hstar
        rw [glob_star, anySuffix_iff] at h
        obtain ⟨s1, s2, hs, hf⟩ := h
        subst hs
        exact GlobMatch.star p s1 s2 (ih p (by omega) s2 hf)
      · by_cases hesc : IsEsc c p
        · obtain ⟨hc, e, p', hp', he⟩ := hesc
          subst hc; subst hp'
          rw [glob_esc e p' s he] at h
          cases s with
          | nil => simp at h
          | cons d s' =>
            simp at h
            obtain ⟨hd, hg⟩ := h
            subst hd
            simp at hp
            have hm := ih p' (by omega) s' hg
            cases he with
            | inl he => subst he; exact GlobMatch.escStar p' s' hm
            | inr he => subst he; exact GlobMatch.escBackslash p' s' hm
        · rw [glob_lit c p s hstar hesc] at h
          cases s with
          | nil => simp at h
          | cons d s' =>
            simp at h
            obtain ⟨hd, hg⟩ := h
            subst hd
            exact GlobMatch.lit d p s' hstar hesc (ih p (by omega) s' hg)

theorem glob_complete (p s : Str) (h : GlobMatch p s) : glob p s = true := by
  induction h with
  | nil => simp [glob_nil]
  | star p s t _ ih => rw [glob_star, anySuffix_iff]; exact ⟨s, t, rfl, ih⟩
  | escStar p s _ ih => rw [glob_esc '*' p _ (Or.inl rfl)]; simp [ih]
  | escBackslash p s _ ih => rw [glob_esc '\\' p _ (Or.inr rfl)]; simp [ih]
  | lit c p s h1 h2 _ ih => rw [glob_lit c p _ h1 h2]; simp [ih]

/-! ### comparisons -/

theorem evalCmp_iff (c : Cmp) (x k : Json) : evalCmp c x k = true ↔ Matches c x k := by
  constructor
  · intro h
    cases c with
    | boolEq =>
      cases x <;> cases k <;> simp [evalCmp] at h
      subst h; exact Matches.boolEq _
    | num r =>
      cases x <;> cases k <;> simp [evalCmp] at h
      exact Matches.num r _ _ ((evalInt_iff r _ _).mp h)
    | str r =>
      cases x <;> cases k <;> simp [evalCmp] at h
      exact Matches.str r _ _ ((evalStr_iff r _ _).mp h)
    | ts r =>
      cases x <;> cases k <;> simp [evalCmp] at h
      rename_i a b
      split at h
      · rename_i ta tb ha hb
        exact Matches.ts r a b ta tb ha hb ((evalInt_iff r _ _).mp h)
      · cases h
    | strMatches =>
      cases x <;> cases k <;> simp [evalCmp] at h
      exact Matches.glob _ _ (glob_sound _ _ (Nat.le_refl _) _ h)
  · intro h
    cases h with
    | boolEq a => simp [evalCmp]
    | num r a b hr => simp [evalCmp, (evalInt_iff r a b).mpr hr]
    | str r a b hr => simp [evalCmp, (evalStr_iff r a b).mpr hr]
    | ts r a b ta tb ha hb hr => simp [evalCmp, ha, hb, (evalInt_iff r _ _).mpr hr]
    | glob p s hg => simp [evalCmp, glob_complete p s hg]

theorem matches_hasType (c : Cmp) (x k : Json) (h : Matches c x k) : HasType c x ∧ HasType c k := by
  cases h with
  | boolEq a => exact ⟨⟨a, rfl⟩, ⟨a, rfl⟩⟩
  | num r a b _ => exact ⟨⟨a, rfl⟩, ⟨b, rfl⟩⟩
  | str r a b _ => exact ⟨⟨a, rfl⟩, ⟨b, rfl⟩⟩
  | ts r a b ta tb ha hb _ => exact ⟨⟨a, ta, rfl, ha⟩, ⟨b, tb, rfl, hb⟩⟩
  | glob p s _ => exact ⟨⟨s, rfl⟩, ⟨p, rfl⟩⟩

theorem isType_iff (t : IsOp) (x : Json) : isType t x = true ↔ TypeFact t x := by
  cases t <;> cases x <;> simp [isType, TypeFact, Option.isSome_iff_exists]

/-! ### rule lists -/

theorem evalAll_iff (e : CEnv) (rs : List Rule) :
    evalAll e rs = true ↔ ∀ r ∈ rs, evalRule e r = true := by
  induction rs with
  | nil => simp [evalAll]
  | cons r rs ih => simp [evalAll, ih]

theorem evalAny_iff (e : CEnv) (rs : List Rule) :
    evalAny e rs = true ↔ ∃ r ∈ rs, evalRule e r = true := by
  induction rs with
  | nil => simp [evalAny]
  | cons r rs ih => simp [evalAny, ih]

theorem evalAll_map_not (e : CEnv) (rs : List Rule) :
    evalAll e (rs.map .not) = !evalAny e rs := by
  induction rs with
  | nil => simp [evalAll, evalAny]
  | cons r rs ih => simp [evalAll, evalAny, evalRule, ih]

theorem evalAny_map_not (e : CEnv) (rs : List Rule) :
    evalAny e (rs.map .not) = !evalAll e rs := by
  induction rs with
  | nil => simp [evalAll, evalAny]
  | cons r rs ih => simp [evalAll, evalAny, evalRule, ih]

theorem firstMatch_none_iff (e : CEnv) (cs : List (Rule × Str)) :
    firstMatch e cs = none ↔ ∀ c ∈ cs, evalRule e c.1 = false := by
  induction cs with
  | nil => simp [firstMatch]
  | cons c cs ih =>
    obtain ⟨r, n⟩ := c
    simp only [firstMatch]
    split
    · rename_i h; simp [h]
    · rename_i h; simp [ih, h]

theorem firstMatch_some_iff (e : CEnv) (cs : List (Rule × Str)) (n : Str) :
    firstMatch e cs = some n ↔
      ∃ pre r post, cs = pre ++ (r, n) :: post ∧ (∀ c ∈ pre, evalRule e c.1 = false) ∧
        evalRule e r = true := by
  induction cs with
  | nil => simp [firstMatch]
  | cons c cs ih =>
    obtain ⟨r, m⟩ := c
    simp only [firstMatch]
    split
    · rename_i h
      constructor
      · intro hn
        simp at hn; subst hn
        exact ⟨[], r, cs, rfl, by simp, h⟩
      · rintro ⟨pre, r', post, hcs, hpre, hr'⟩
        cases pre with
        | nil => simp at hcs; rw [hcs.1.2]
        | cons c' pre' =>
          simp at hcs
          have := hpre c' (by simp)
          rw [← hcs.1] at this
          simp [h] at this
    · rename_i h
      rw [ih]
      constructor
      · rintro ⟨pre, r', post, hcs, hpre, hr'⟩
        refine ⟨(r, m) :: pre, r', post, by simp [hcs], ?_, hr'⟩
        intro c hc
        simp at hc
        cases hc with
        | inl hc => rw [hc]; simpa using h
        | inr hc => exact hpre c hc
      · rintro ⟨pre, r', post, hcs, hpre, hr'⟩
        cases pre with
        | nil =>
          simp at hcs
          rw [hcs.1.1] at h
          exact absurd hr' h
        | cons c' pre' =>
          simp at hcs
          exact ⟨pre', r', post, hcs.2, fun c hc => hpre c (by simp [hc]), hr'⟩

end Asl.ChoiceLemmas
