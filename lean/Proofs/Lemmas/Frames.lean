/-
The frame state of the reference semantics (`FS`, AslModel/Frames.lean) and the acknowledgement ledger
(AslModel/Ledger.lean): a well-formedness invariant `FS.WF` that every operation the interpreter performs on
the frame state preserves —

  * every closed step is ordered (nothing is published after an acknowledgement within it), the step in
    progress and the last steps of the branches put aside contain no acknowledgement yet;
  * the ledger replayed over the closed steps' frames is sound (no acknowledgement of a message that is not
    outstanding) and what it has outstanding is, message by message, what the current thread and the branches
    put aside still owe from closed steps (`owed`);
  * what a thread has to acknowledge (`hold ++ now`) is what it owes from closed steps plus what the step in
    progress delivered;
  * a closed step that is not marked `early` acknowledges only after it has published something.

Everything is counted per message (`List.count`), so that the arithmetic is `omega`'s.
-/
import AslModel.Frames
import AslModel.Ledger
namespace Asl

def toFr : BFr → Fr
  | .deliver m => .deliver m
  | .ack m => .ack m
  | _ => .pub

/-- the messages a list of frames delivers -/
def dlv : List BFr → List Nat
  | [] => []
  | .deliver m :: fs => m :: dlv fs
  | _ :: fs => dlv fs

def noAck (fs : List BFr) : Prop := ∀ f ∈ fs, f.isAck = false

theorem noAck_nil : noAck [] := by intro f hf; cases hf

theorem noAck_cons {f : BFr} {fs : List BFr} (h : f.isAck = false) (hs : noAck fs) : noAck (f :: fs) := by
  intro g hg
  rcases List.mem_cons.mp hg with h1 | h1
  · subst h1; exact h
  · exact hs g h1

theorem noAck_append {a b : List BFr} (ha : noAck a) (hb : noAck b) : noAck (a ++ b) := by
  intro g hg
  rcases List.mem_append.mp hg with h | h
  · exact ha g h
  · exact hb g h

theorem noAck_reverse {a : List BFr} (ha : noAck a) : noAck a.reverse := by
  intro g hg; exact ha g (List.mem_reverse.mp hg)

theorem noAck_tail {f : BFr} {fs : List BFr} (h : noAck (f :: fs)) : noAck fs := by
  intro g hg; exact h g (List.mem_cons_of_mem _ hg)

theorem dlv_append (a b : List BFr) : dlv (a ++ b) = dlv a ++ dlv b := by
  induction a with
  | nil => rfl
  | cons f fs ih => cases f <;> simp [dlv, ih]

theorem dlv_count_reverse (a : List BFr) (t : Nat) : (dlv a.reverse).count t = (dlv a).count t := by
  induction a with
  | nil => rfl
  | cons f fs ih =>
    rw [List.reverse_cons, dlv_append, List.count_append, ih]
    cases f <;> simp [dlv, List.count_cons] <;> omega

/-! ### the ledger over frames without / of acknowledgements -/

theorem ledger_run_append (a b : List Fr) : Ledger.run (a ++ b) = b.foldl Ledger.step (Ledger.run a) := by
  simp [Ledger.run, List.foldl_append]

/-- frames that are no acknowledgements: the ledger stays sound, the deliveries become outstanding -/
theorem fold_noAck (fr : List BFr) (l : Ledger) (h : noAck fr) :
    ((fr.map toFr).foldl Ledger.step l).bad = l.bad ∧
    ∀ t, ((fr.map toFr).foldl Ledger.step l).unacked.count t = l.unacked.count t + (dlv fr).count t := by
  induction fr generalizing l with
  | nil => simp [dlv]
  | cons f fs ih =>
    have hf : f.isAck = false := h f (by simp)
    have ih' := ih (l.step (toFr f)) (noAck_tail h)
    simp only [List.map_cons, List.foldl_cons]
    cases f with
    | ack m => simp [BFr.isAck] at hf
    | deliver m =>
      refine ⟨by rw [ih'.1]; rfl, ?_⟩
      intro t
      rw [ih'.2 t]
      simp only [toFr, Ledger.step, dlv, List.count_cons]
      omega
    | pubEv m n p => exact ⟨by rw [ih'.1]; rfl, fun t => by rw [ih'.2 t]; simp [toFr, Ledger.step, dlv]⟩
    | pubReq m e => exact ⟨by rw [ih'.1]; rfl, fun t => by rw [ih'.2 t]; simp [toFr, Ledger.step, dlv]⟩
    | pubNote s => exact ⟨by rw [ih'.1]; rfl, fun t => by rw [ih'.2 t]; simp [toFr, Ledger.step, dlv]⟩

/-- acknowledgements of messages that are outstanding (as often as they are acknowledged): sound, and they are
no longer outstanding -/
theorem fold_acks (acks : List Nat) (l : Ledger) (hb : l.bad = false)
    (h : ∀ t, acks.count t ≤ l.unacked.count t) :
    (((acks.map BFr.ack).map toFr).foldl Ledger.step l).bad = false ∧
    ∀ t, (((acks.map BFr.ack).map toFr).foldl Ledger.step l).unacked.count t + acks.count t = l.unacked.count t := by
  induction acks generalizing l with
  | nil => simp [hb]
  | cons a as ih =>
    have ha : a ∈ l.unacked := by
      have := h a
      simp only [List.count_cons_self] at this
      exact List.count_pos_iff.mp (by omega)
    have hs : l.step (.ack a) = { l with unacked := l.unacked.erase a, acked := a :: l.acked } := by
      simp [Ledger.step, ha]
    have h' : ∀ t, as.count t ≤ (l.step (.ack a)).unacked.count t := by
      intro t
      rw [hs]
      have := h t
      by_cases hta : a = t
      · subst hta
        have he := List.count_erase_self (a := a) (l := l.unacked)
        simp only [List.count_cons_self] at this
        simp only [he]; omega
      · have he : (l.unacked.erase a).count t = l.unacked.count t := List.count_erase_of_ne (fun e => hta e.symm)
        have hc : (a :: as).count t = as.count t := by
          rw [List.count_cons]; simp [hta]
        simp only [he]; omega
    have ih' := ih (l.step (.ack a)) (by rw [hs]; exact hb) h'
    simp only [List.map_cons, List.foldl_cons, toFr]
    refine ⟨ih'.1, ?_⟩
    intro t
    have := ih'.2 t
    rw [hs] at this
    by_cases hta : a = t
    · subst hta
      have he := List.count_erase_self (a := a) (l := l.unacked)
      have hp : 0 < l.unacked.count a := List.count_pos_iff.mpr ha
      simp only [he] at this
      simp only [List.count_cons_self]
      rw [hs]; omega
    · have he : (l.unacked.erase a).count t = l.unacked.count t := List.count_erase_of_ne (fun e => hta e.symm)
      have hc : (a :: as).count t = as.count t := by
        rw [List.count_cons]; simp [hta]
      simp only [he] at this
      rw [hs, hc]; omega

/-- a step's frames: no acknowledgement first, then acknowledgements of messages that are outstanding by then -/
theorem fold_step (fr : List BFr) (acks : List Nat) (l : Ledger) (hb : l.bad = false) (hn : noAck fr)
    (h : ∀ t, acks.count t ≤ l.unacked.count t + (dlv fr).count t) :
    (((fr ++ acks.map BFr.ack).map toFr).foldl Ledger.step l).bad = false ∧
    ∀ t, (((fr ++ acks.map BFr.ack).map toFr).foldl Ledger.step l).unacked.count t + acks.count t =
      l.unacked.count t + (dlv fr).count t := by
  have h1 := fold_noAck fr l hn
  rw [List.map_append, List.foldl_append]
  have h2 := fold_acks acks ((fr.map toFr).foldl Ledger.step l) (by rw [h1.1]; exact hb)
    (by intro t; rw [h1.2 t]; exact h t)
  refine ⟨h2.1, ?_⟩
  intro t
  rw [h2.2 t, h1.2 t]

/-! ### ordered steps -/

theorem ordered_noAck (fr : List BFr) (h : noAck fr) : stepOrdered (fr.map toFr) = true := by
  induction fr with
  | nil => rfl
  | cons f fs ih =>
    have hf : f.isAck = false := h f (by simp)
    have : isAck (toFr f) = false := by cases f <;> simp_all [toFr, isAck, BFr.isAck]
    simp [stepOrdered, this, ih (noAck_tail h)]

theorem ordered_acks (acks : List Nat) : stepOrdered ((acks.map BFr.ack).map toFr) = true := by
  induction acks with
  | nil => rfl
  | cons a as ih =>
    simp only [List.map_cons, toFr, stepOrdered, isAck, if_true, Bool.and_eq_true, Bool.not_eq_true']
    refine ⟨?_, ih⟩
    rw [List.any_eq_false]
    intro x hx
    simp only [List.mem_map] at hx
    obtain ⟨y, ⟨z, _, hz⟩, hy⟩ := hx
    subst hz; subst hy; simp [toFr, isOut]

theorem ordered_step (fr : List BFr) (acks : List Nat) (h : noAck fr) :
    stepOrdered ((fr ++ acks.map BFr.ack).map toFr) = true := by
  induction fr with
  | nil => simpa using ordered_acks acks
  | cons f fs ih =>
    have hf : f.isAck = false := h f (by simp)
    have : isAck (toFr f) = false := by cases f <;> simp_all [toFr, isAck, BFr.isAck]
    simp only [List.cons_append, List.map_cons, stepOrdered, this]
    exact ih (noAck_tail h)

/-! ### sums over the branches put aside -/

def tsum (g : Tail → Nat) (l : List Tail) : Nat := (l.map g).sum

@[simp] theorem tsum_nil (g : Tail → Nat) : tsum g [] = 0 := rfl
@[simp] theorem tsum_cons (g : Tail → Nat) (f : Tail) (l : List Tail) : tsum g (f :: l) = g f + tsum g l := by
  simp [tsum]
@[simp] theorem tsum_append (g : Tail → Nat) (a b : List Tail) : tsum g (a ++ b) = tsum g a + tsum g b := by
  simp [tsum, List.sum_append]

theorem tsum_filter (g : Tail → Nat) (p : Tail → Bool) (l : List Tail) :
    tsum g (l.filter p) + tsum g (l.filter (fun f => !p f)) = tsum g l := by
  induction l with
  | nil => rfl
  | cons f l ih =>
    cases hp : p f <;> simp [List.filter_cons, hp] <;> omega

theorem tsum_congr {g h : Tail → Nat} {l : List Tail} (e : ∀ f ∈ l, g f = h f) : tsum g l = tsum h l := by
  induction l with
  | nil => rfl
  | cons f l ih =>
    simp only [tsum_cons]
    rw [e f (by simp), ih (fun x hx => e x (List.mem_cons_of_mem _ hx))]

theorem tsum_add4 {a b c d : Tail → Nat} {l : List Tail} (e : ∀ f ∈ l, a f + b f = c f + d f) :
    tsum a l + tsum b l = tsum c l + tsum d l := by
  induction l with
  | nil => rfl
  | cons f l ih =>
    have := e f (by simp)
    have := ih (fun x hx => e x (List.mem_cons_of_mem _ hx))
    simp only [tsum_cons]; omega

theorem count_flatMap (h : Tail → List Nat) (l : List Tail) (t : Nat) :
    (l.flatMap h).count t = tsum (fun f => (h f).count t) l := by
  induction l with
  | nil => rfl
  | cons f l ih => simp [List.flatMap_cons, List.count_append, ih]

theorem dlv_flatMap_count (h : Tail → List BFr) (l : List Tail) (t : Nat) :
    (dlv (l.flatMap h)).count t = tsum (fun f => (dlv (h f)).count t) l := by
  induction l with
  | nil => rfl
  | cons f l ih => simp [List.flatMap_cons, dlv_append, List.count_append, ih]

theorem tsum_map_if (g : Tail → Nat) (p : Tail → Bool) (h : Tail → Tail) (l : List Tail) :
    tsum g (l.map (fun f => if p f then h f else f)) =
      tsum (fun f => g (h f)) (l.filter p) + tsum g (l.filter (fun f => !p f)) := by
  induction l with
  | nil => rfl
  | cons f l ih =>
    cases hp : p f <;> simp [List.filter_cons, hp, ih] <;> omega

/-! ### closed steps -/

def framesOf (steps : List BStep) : List BFr := steps.reverse.flatMap (·.frames)

theorem FS.frames_eq (fs : FS) : fs.frames = framesOf fs.steps := rfl

theorem framesOf_mkStep (t : Rat) (fr : List BFr) (e : Bool) (steps : List BStep) :
    framesOf (FS.mkStep t fr e steps) = framesOf steps ++ fr := by
  unfold FS.mkStep
  split
  · rename_i h
    have : fr = [] := by simpa using h
    simp [this]
  · simp [framesOf, List.reverse_cons, List.flatMap_append]

theorem mem_mkStep {t : Rat} {fr : List BFr} {e : Bool} {steps : List BStep} {s : BStep}
    (h : s ∈ FS.mkStep t fr e steps) : s ∈ steps ∨ (s.frames = fr ∧ s.early = e) := by
  unfold FS.mkStep at h
  split at h
  · exact Or.inl h
  · rcases List.mem_cons.mp h with h1 | h1
    · subst h1; exact Or.inr ⟨rfl, rfl⟩
    · exact Or.inl h1

theorem any_isAck_false {fr : List BFr} (h : noAck fr) : fr.any BFr.isAck = false := by
  rw [List.any_eq_false]
  intro x hx
  simp [h x hx]

/-! ### the invariant -/

def FS.allTails (fs : FS) : List Tail := fs.lvl.fins ++ fs.outer.flatMap (·.fins)

structure FS.WF (fs : FS) : Prop where
  ordered : ∀ s ∈ fs.steps, stepOrdered (s.frames.map toFr) = true
  openNoAck : noAck fs.open_
  tailsNoAck : ∀ f ∈ fs.allTails, noAck f.frames
  sound : (Ledger.run ((framesOf fs.steps).map toFr)).bad = false
  owes : ∀ t, (Ledger.run ((framesOf fs.steps).map toFr)).unacked.count t =
    fs.owed.count t + tsum (fun f => f.owed.count t) fs.allTails
  thread : ∀ t, fs.hold.count t + fs.now.count t = fs.owed.count t + (dlv fs.open_).count t
  tails : ∀ f ∈ fs.allTails, ∀ t, f.hold.count t + f.now.count t = f.owed.count t + (dlv f.frames).count t
  consequence : ∀ s ∈ fs.steps, s.early = false → s.frames.any BFr.isAck = true → s.frames.any BFr.isPub = true

/-- the invariant only looks at these -/
theorem FS.WF.congr {fs fs' : FS} (h : fs.WF) (e1 : fs'.steps = fs.steps) (e2 : fs'.open_ = fs.open_)
    (e3 : fs'.hold = fs.hold) (e4 : fs'.now = fs.now) (e5 : fs'.owed = fs.owed)
    (e6 : fs'.allTails = fs.allTails) : fs'.WF := by
  constructor
  · rw [e1]; exact h.ordered
  · rw [e2]; exact h.openNoAck
  · rw [e6]; exact h.tailsNoAck
  · rw [e1]; exact h.sound
  · rw [e1, e5, e6]; exact h.owes
  · rw [e2, e3, e4, e5]; exact h.thread
  · rw [e6]; exact h.tails
  · rw [e1]; exact h.consequence

theorem wf_init : ({} : FS).WF := by
  constructor
  · intro s hs; cases hs
  · intro f hf
    simp at hf
    rcases hf with h | h <;> subst h <;> rfl
  · intro f hf; simp [FS.allTails] at hf
  · rfl
  · intro t; simp [framesOf, Ledger.run, FS.allTails]
  · intro t; simp [dlv]
  · intro f hf; simp [FS.allTails] at hf
  · intro s hs; cases hs

/-- a publication joins the step in progress -/
theorem FS.WF.pub {fs : FS} (h : fs.WF) (f : BFr) (hp : f.isPub = true) : (fs.pub f).WF := by
  have hna : f.isAck = false := by cases f <;> simp_all [BFr.isPub, BFr.isAck]
  have hd : ∀ l, dlv (f :: l) = dlv l := by intro l; cases f <;> simp_all [BFr.isPub, dlv]
  constructor
  · exact h.ordered
  · exact noAck_cons hna h.openNoAck
  · exact h.tailsNoAck
  · exact h.sound
  · exact h.owes
  · intro t; simp only [FS.pub, hd]; exact h.thread t
  · exact h.tails
  · exact h.consequence

theorem FS.WF.deliverHold {fs : FS} (h : fs.WF) (m : Nat) : (fs.deliverHold m).WF := by
  constructor
  · exact h.ordered
  · exact noAck_cons rfl h.openNoAck
  · exact h.tailsNoAck
  · exact h.sound
  · exact h.owes
  · intro t
    have := h.thread t
    simp only [FS.deliverHold, dlv, List.count_append, List.count_cons, List.count_nil]
    omega
  · exact h.tails
  · exact h.consequence

theorem FS.WF.deliverNow {fs : FS} (h : fs.WF) (m : Nat) : (fs.deliverNow m).WF := by
  constructor
  · exact h.ordered
  · exact noAck_cons rfl h.openNoAck
  · exact h.tailsNoAck
  · exact h.sound
  · exact h.owes
  · intro t
    have := h.thread t
    simp only [FS.deliverNow, dlv, List.count_append, List.count_cons, List.count_nil]
    omega
  · exact h.tails
  · exact h.consequence

theorem FS.WF.closeKeep {fs : FS} (h : fs.WF) (t : Rat) : (fs.closeKeep t).WF := by
  have hn := noAck_reverse h.openNoAck
  have hf := fold_noAck fs.open_.reverse (Ledger.run ((framesOf fs.steps).map toFr)) hn
  constructor
  · intro s hs
    rcases mem_mkStep hs with h1 | ⟨h1, _⟩
    · exact h.ordered s h1
    · rw [h1]; exact ordered_noAck _ hn
  · exact noAck_nil
  · exact h.tailsNoAck
  · simp only [FS.closeKeep, framesOf_mkStep, List.map_append, ledger_run_append]
    rw [hf.1]; exact h.sound
  · intro x
    simp only [FS.closeKeep, framesOf_mkStep, List.map_append, ledger_run_append]
    rw [hf.2 x, dlv_count_reverse, h.owes x, List.count_append]
    have := h.thread x
    show _ = _ + tsum _ fs.allTails
    omega
  · intro x; simp [FS.closeKeep, dlv]
  · exact h.tails
  · intro s hs he ha
    rcases mem_mkStep hs with h1 | ⟨h1, _⟩
    · exact h.consequence s h1 he ha
    · rw [h1, any_isAck_false hn] at ha; cases ha

/-- the step ends with the acknowledgements: it has published something (or there is nothing to acknowledge) -/
theorem FS.WF.closeAck {fs : FS} (h : fs.WF) (t : Rat)
    (hp : fs.open_.any BFr.isPub = true ∨ fs.hold ++ fs.now = []) : (fs.closeAck t).WF := by
  have hn := noAck_reverse h.openNoAck
  have hle : ∀ x, (fs.hold ++ fs.now).count x ≤
      (Ledger.run ((framesOf fs.steps).map toFr)).unacked.count x + (dlv fs.open_.reverse).count x := by
    intro x
    rw [dlv_count_reverse, h.owes x, List.count_append]
    have := h.thread x
    omega
  have hf := fold_step fs.open_.reverse (fs.hold ++ fs.now) (Ledger.run ((framesOf fs.steps).map toFr)) h.sound hn hle
  constructor
  · intro s hs
    rcases mem_mkStep hs with h1 | ⟨h1, _⟩
    · exact h.ordered s h1
    · rw [h1]; exact ordered_step _ _ hn
  · exact noAck_nil
  · exact h.tailsNoAck
  · simp only [FS.closeAck, framesOf_mkStep]
    rw [List.map_append, ledger_run_append]
    exact hf.1
  · intro x
    simp only [FS.closeAck, framesOf_mkStep]
    rw [List.map_append, ledger_run_append]
    have h1 := hf.2 x
    rw [dlv_count_reverse, h.owes x, List.count_append] at h1
    have := h.thread x
    show _ = List.count x [] + tsum _ fs.allTails
    simp only [List.count_nil]
    omega
  · intro x; simp [FS.closeAck, dlv]
  · exact h.tails
  · intro s hs he ha
    rcases mem_mkStep hs with h1 | ⟨h1, _⟩
    · exact h.consequence s h1 he ha
    · rw [h1] at ha ⊢
      rcases hp with hp | hp
      · rw [List.any_append, List.any_reverse, hp]; rfl
      · rw [hp] at ha
        simp only [List.map_nil, List.append_nil] at ha
        rw [any_isAck_false hn] at ha; cases ha

theorem FS.WF.handover {fs : FS} (h : fs.WF) (t : Rat) (name : Str) : (fs.handover t name).WF := by
  have h1 := (h.pub (.pubEv fs.next name fs.path) rfl).closeAck t (Or.inl (by simp [FS.pub, BFr.isPub]))
  exact (h1.congr (fs' := { (fs.pub (.pubEv fs.next name fs.path)).closeAck t with next := fs.next + 1, rel := false })
    rfl rfl rfl rfl rfl rfl).deliverHold fs.next

theorem FS.WF.terminal {fs : FS} (h : fs.WF) (t : Rat) (status : Str) : (fs.terminal t status).WF :=
  (h.pub (.pubNote status) rfl).closeAck t (Or.inl (by simp [FS.pub, BFr.isPub]))

theorem FS.WF.request {fs : FS} (h : fs.WF) (t : Rat) (timedOut : Bool) : (fs.request t timedOut).WF := by
  have h1 := (h.pub (.pubReq fs.next (fs.hold.getLastD 0)) rfl).closeKeep t
  have h2 : ({ (fs.pub (.pubReq fs.next (fs.hold.getLastD 0))).closeKeep t with
      next := fs.next + 1, toks := FS.requested fs.toks } : FS).WF :=
    h1.congr rfl rfl rfl rfl rfl rfl
  unfold FS.request
  cases timedOut
  · exact h2.deliverNow fs.next
  · exact h2.congr rfl rfl rfl rfl rfl rfl

theorem allTails_pushLevel (fs : FS) (mc : Nat) : (fs.pushLevel mc).allTails = fs.allTails := by
  simp [FS.pushLevel, FS.allTails, List.flatMap_cons]

theorem FS.WF.pushLevel {fs : FS} (h : fs.WF) (mc : Nat) : (fs.pushLevel mc).WF :=
  h.congr rfl rfl rfl rfl rfl (allTails_pushLevel fs mc)

theorem FS.WF.visit {fs : FS} (h : fs.WF) (k : Tok) : (fs.visit k).WF := h.congr rfl rfl rfl rfl rfl rfl
theorem FS.WF.failTok {fs : FS} (h : fs.WF) : fs.failTok.WF := h.congr rfl rfl rfl rfl rfl rfl

theorem pubBranches_isPub (base lo : Nat) (path : List Nat) (i : Nat) (names : List Str) :
    ∀ f ∈ FS.pubBranches base lo path i names, f.isPub = true := by
  induction names generalizing i with
  | nil => intro f hf; cases hf
  | cons n ns ih =>
    intro f hf
    rcases List.mem_cons.mp hf with h | h
    · subst h; rfl
    · exact ih (i + 1) f h

/-- publications join the step in progress -/
theorem FS.WF.pubs {fs : FS} (h : fs.WF) (l : List BFr) (hl : ∀ f ∈ l, f.isPub = true) :
    ({ fs with open_ := l ++ fs.open_ } : FS).WF := by
  induction l with
  | nil => exact h.congr rfl rfl rfl rfl rfl rfl
  | cons f l ih =>
    have := (ih (fun x hx => hl x (List.mem_cons_of_mem _ hx))).pub f (hl f (by simp))
    exact this.congr rfl rfl rfl rfl rfl rfl

theorem FS.WF.launch {fs : FS} (h : fs.WF) (t : Rat) (names : List Str) : (fs.launch t names).WF := by
  unfold FS.launch
  split
  · exact h
  · rename_i hne
    have hall : ∀ f ∈ (FS.pubBranches fs.next fs.lvl.fins.length fs.lvl.path 0 names).reverse, f.isPub = true := by
      intro f hf; exact pubBranches_isPub _ _ _ _ _ f (List.mem_reverse.mp hf)
    have h1 := h.pubs _ hall
    have hany : ({ fs with open_ := (FS.pubBranches fs.next fs.lvl.fins.length fs.lvl.path 0 names).reverse ++ fs.open_ } : FS).open_.any
        BFr.isPub = true := by
      cases names with
      | nil => simp at hne
      | cons n ns =>
        simp only [FS.pubBranches, List.reverse_cons, List.any_append, List.any_cons, BFr.isPub, List.any_nil]
        simp
    have h2 := h1.closeAck t (Or.inl hany)
    exact h2.congr rfl rfl rfl rfl rfl rfl

theorem FS.WF.startBranch {fs : FS} (h : fs.WF) : fs.startBranch.WF := by
  unfold FS.startBranch
  exact (h.congr (fs' := { fs with
      rel := false, path := fs.lvl.path ++ [fs.lvl.fins.length], mark := fs.steps.length, toks := [] })
    rfl rfl rfl rfl rfl rfl).deliverHold _

theorem FS.WF.endBranch {fs : FS} (h : fs.WF) (t : Rat) (failed : Bool) : (fs.endBranch t failed).WF := by
  have hall : (fs.endBranch t failed).allTails = fs.lvl.fins ++
      [({ slot := fs.lvl.fins.length, t := t, frames := fs.open_,
          hold := if fs.rel then [] else fs.hold, now := if fs.rel then fs.hold ++ fs.now else fs.now,
          owed := fs.owed, failed := failed, seg := fs.steps.take (fs.steps.length - fs.mark), toks := fs.toks } : Tail)] ++
      fs.outer.flatMap (·.fins) := by
    simp [FS.endBranch, FS.allTails]
  constructor
  · exact h.ordered
  · exact noAck_nil
  · intro f hf
    rw [hall] at hf
    simp only [List.mem_append, List.mem_singleton] at hf
    rcases hf with (h1 | h1) | h1
    · exact h.tailsNoAck f (List.mem_append.mpr (Or.inl h1))
    · subst h1; exact h.openNoAck
    · exact h.tailsNoAck f (List.mem_append.mpr (Or.inr h1))
  · exact h.sound
  · intro x
    rw [hall]
    have := h.owes x
    simp only [FS.allTails, tsum_append, tsum_cons, tsum_nil] at this ⊢
    show (Ledger.run ((framesOf fs.steps).map toFr)).unacked.count x = List.count x [] + _
    simp only [List.count_nil]
    omega
  · intro x; simp [FS.endBranch, dlv]
  · intro f hf x
    rw [hall] at hf
    simp only [List.mem_append, List.mem_singleton] at hf
    rcases hf with (h1 | h1) | h1
    · exact h.tails f (List.mem_append.mpr (Or.inl h1)) x
    · subst h1
      have := h.thread x
      cases fs.rel <;> simp [List.count_append] <;> omega
    · exact h.tails f (List.mem_append.mpr (Or.inr h1)) x
  · exact h.consequence

/-! ### closing the last steps of branches -/

theorem closeWith_ok (ex : Tail → List BFr) (hex : ∀ f, noAck (ex f) ∧ dlv (ex f) = [])
    (ts : List Tail) (steps : List BStep) (base : Nat → Nat)
    (hb : (Ledger.run ((framesOf steps).map toFr)).bad = false)
    (hc : ∀ t, (Ledger.run ((framesOf steps).map toFr)).unacked.count t = base t + tsum (fun f => f.owed.count t) ts)
    (hn : ∀ f ∈ ts, noAck f.frames)
    (ht : ∀ f ∈ ts, ∀ t, f.hold.count t + f.now.count t = f.owed.count t + (dlv f.frames).count t) :
    (Ledger.run ((framesOf (FS.closeWith ex ts steps)).map toFr)).bad = false ∧
    (∀ t, (Ledger.run ((framesOf (FS.closeWith ex ts steps)).map toFr)).unacked.count t =
      base t + tsum (fun f => f.hold.count t) ts) ∧
    (∀ s ∈ FS.closeWith ex ts steps, s ∈ steps ∨ (s.early = true ∧ stepOrdered (s.frames.map toFr) = true)) := by
  induction ts generalizing steps base with
  | nil => exact ⟨hb, by simpa [FS.closeWith] using hc, fun s hs => Or.inl hs⟩
  | cons f ts ih =>
    have hnf : noAck (f.frames.reverse ++ ex f) := noAck_append (noAck_reverse (hn f (by simp))) (hex f).1
    have hd : ∀ x, (dlv (f.frames.reverse ++ ex f)).count x = (dlv f.frames).count x := by
      intro x; rw [dlv_append, (hex f).2, List.append_nil, dlv_count_reverse]
    have hle : ∀ x, f.now.count x ≤
        (Ledger.run ((framesOf steps).map toFr)).unacked.count x + (dlv (f.frames.reverse ++ ex f)).count x := by
      intro x
      rw [hd x, hc x]
      have := ht f (by simp) x
      simp only [tsum_cons]; omega
    have hf := fold_step (f.frames.reverse ++ ex f) f.now (Ledger.run ((framesOf steps).map toFr)) hb hnf hle
    have hfr : framesOf (FS.closeFin f (ex f) steps) = framesOf steps ++ ((f.frames.reverse ++ ex f) ++ f.now.map BFr.ack) := by
      unfold FS.closeFin; rw [framesOf_mkStep]
    have hb1 : (Ledger.run ((framesOf (FS.closeFin f (ex f) steps)).map toFr)).bad = false := by
      rw [hfr, List.map_append, ledger_run_append]; exact hf.1
    have hc1 : ∀ x, (Ledger.run ((framesOf (FS.closeFin f (ex f) steps)).map toFr)).unacked.count x =
        (base x + f.hold.count x) + tsum (fun g => g.owed.count x) ts := by
      intro x
      rw [hfr, List.map_append, ledger_run_append]
      have h1 := hf.2 x
      rw [hd x, hc x] at h1
      have := ht f (by simp) x
      simp only [tsum_cons] at h1
      omega
    have := ih (FS.closeFin f (ex f) steps) (fun x => base x + f.hold.count x) hb1 hc1
      (fun g hg => hn g (List.mem_cons_of_mem _ hg)) (fun g hg => ht g (List.mem_cons_of_mem _ hg))
    refine ⟨this.1, ?_, ?_⟩
    · intro x
      have := this.2.1 x
      simp only [FS.closeWith, tsum_cons]
      omega
    · intro s hs
      rcases this.2.2 s hs with h1 | h1
      · unfold FS.closeFin at h1
        rcases mem_mkStep h1 with h2 | ⟨h2, h3⟩
        · exact Or.inl h2
        · exact Or.inr ⟨h3, by rw [h2]; exact ordered_step _ _ hnf⟩
      · exact Or.inr h1

theorem latest_none {l : List Tail} (h : FS.latest l = none) : l = [] := by
  cases l with
  | nil => rfl
  | cons f fs =>
    simp only [FS.latest] at h
    split at h
    · cases h
    · split at h <;> cases h

theorem allTails_popLevel (fs : FS) (h : fs.lvl.fins = []) : (FS.popLevel fs).allTails = fs.allTails := by
  unfold FS.popLevel FS.allTails
  cases ho : fs.outer with
  | nil => simp [h]
  | cons l ls => simp [h, List.flatMap_cons]

theorem FS.WF.popLevel {fs : FS} (h : fs.WF) (hf : fs.lvl.fins = []) : (FS.popLevel fs).WF := by
  have ha := allTails_popLevel fs hf
  cases ho : fs.outer with
  | nil =>
    have e : FS.popLevel fs = { fs with lvl := {} } := by unfold FS.popLevel; rw [ho]
    rw [e] at ha ⊢
    exact h.congr rfl rfl rfl rfl rfl ha
  | cons l ls =>
    have e : FS.popLevel fs = { fs with lvl := l, outer := ls } := by unfold FS.popLevel; rw [ho]
    rw [e] at ha ⊢
    exact h.congr rfl rfl rfl rfl rfl ha

theorem noAck_flatMap {l : List Tail} (h : ∀ f ∈ l, noAck f.frames) : noAck (l.flatMap (·.frames)) := by
  intro g hg
  obtain ⟨f, hf, hgf⟩ := List.mem_flatMap.mp hg
  exact h f hf g hgf

theorem FS.WF.joinOn {fs : FS} (h : fs.WF) (c : Tail) (tie : Bool) : (fs.joinOn c tie).WF := by
  -- the branches of this level: those in `c`'s slot go on, the rest is closed
  have hsub : ∀ f ∈ fs.lvl.fins, f ∈ fs.allTails := fun f hf => List.mem_append.mpr (Or.inl hf)
  have hsame : ∀ f ∈ fs.lvl.fins.filter (fun f => f.slot == c.slot), f ∈ fs.allTails :=
    fun f hf => hsub f (List.mem_filter.mp hf).1
  have hrest : ∀ f ∈ fs.lvl.fins.filter (fun f => !(f.slot == c.slot)), f ∈ fs.allTails :=
    fun f hf => hsub f (List.mem_filter.mp hf).1
  have hco := closeWith_ok (fun _ => []) (fun _ => ⟨noAck_nil, rfl⟩)
    (fs.lvl.fins.filter (fun f => !(f.slot == c.slot))) fs.steps
    (fun x => fs.owed.count x + tsum (fun f => f.owed.count x) (fs.lvl.fins.filter (fun f => f.slot == c.slot)) +
      tsum (fun f => f.owed.count x) (fs.outer.flatMap (·.fins)))
    h.sound
    (by
      intro x
      have h1 := h.owes x
      have h2 := tsum_filter (fun f => f.owed.count x) (fun f => f.slot == c.slot) fs.lvl.fins
      simp only [FS.allTails, tsum_append] at h1
      omega)
    (fun f hf => h.tailsNoAck f (hrest f hf)) (fun f hf => h.tails f (hrest f hf))
  -- the state before the level is popped
  have hw : ({ fs with
              steps := FS.closeAll (fs.lvl.fins.filter (fun f => !(f.slot == c.slot))) fs.steps,
              open_ := (fs.lvl.fins.filter (fun f => f.slot == c.slot)).flatMap (·.frames) ++ fs.open_,
              hold := fs.hold ++ fs.lvl.fins.flatMap (·.hold),
              now := fs.now ++ (fs.lvl.fins.filter (fun f => f.slot == c.slot)).flatMap (·.now),
              owed := fs.owed ++ (fs.lvl.fins.filter (fun f => !(f.slot == c.slot))).flatMap (·.hold) ++
                (fs.lvl.fins.filter (fun f => f.slot == c.slot)).flatMap (·.owed),
              rel := true, path := fs.lvl.path, mark := fs.lvl.mark, tieJoin := fs.tieJoin || tie,
              toks := FS.withBranches fs.lvl.toks fs.lvl.mc (fs.lvl.fins.map (·.toks.reverse)),
              lvl := { fs.lvl with fins := [] } } : FS).WF := by
    constructor
    · intro s hs
      rcases hco.2.2 s hs with h1 | h1
      · exact h.ordered s h1
      · exact h1.2
    · exact noAck_append (noAck_flatMap (fun f hf => h.tailsNoAck f (hsame f hf))) h.openNoAck
    · intro f hf
      exact h.tailsNoAck f (List.mem_append.mpr (Or.inr (by simpa [FS.allTails] using hf)))
    · exact hco.1
    · intro x
      have h1 := hco.2.1 x
      show (Ledger.run ((framesOf (FS.closeAll _ fs.steps)).map toFr)).unacked.count x = _
      unfold FS.closeAll
      rw [h1]
      simp only [FS.allTails, List.nil_append, List.count_append, count_flatMap]
      omega
    · intro x
      have h1 := h.thread x
      have h2 := tsum_filter (fun f => f.hold.count x) (fun f => f.slot == c.slot) fs.lvl.fins
      have h3 := tsum_add4 (a := fun f => f.hold.count x) (b := fun f => f.now.count x) (c := fun f => f.owed.count x)
        (d := fun f => (dlv f.frames).count x) (l := fs.lvl.fins.filter (fun f => f.slot == c.slot))
        (fun f hf => h.tails f (hsame f hf) x)
      simp only [List.count_append, count_flatMap, dlv_append, dlv_flatMap_count]
      omega
    · intro f hf x
      exact h.tails f (List.mem_append.mpr (Or.inr (by simpa [FS.allTails] using hf))) x
    · intro s hs he
      rcases hco.2.2 s hs with h1 | h1
      · exact h.consequence s h1 he
      · rw [h1.1] at he; cases he
  unfold FS.joinOn
  exact hw.popLevel rfl

theorem FS.WF.join {fs : FS} (h : fs.WF) (failed : Bool) : (fs.join failed).WF := by
  unfold FS.join
  simp only
  split
  · rename_i hco
    have hf : fs.lvl.fins = [] := by
      cases failed
      · simp only [Bool.false_eq_true, if_false] at hco
        split at hco
        · cases hco
        · exact latest_none hco
      · simp only [if_true] at hco
        split at hco
        · cases hco
        · split at hco
          · cases hco
          · exact latest_none hco
    exact (h.popLevel hf).congr rfl rfl rfl rfl rfl rfl
  · exact h.joinOn _ _

theorem FS.WF.batchOn {fs : FS} (h : fs.WF) (t : Rat) (name : Str) (names : List Str) (c : Tail) (tie : Bool) :
    (fs.batchOn t name names c tie).WF := by
  have hsub : ∀ f ∈ fs.lvl.fins, f ∈ fs.allTails := fun f hf => List.mem_append.mpr (Or.inl hf)
  have hcur : ∀ f ∈ fs.lvl.fins.filter (fun f => decide (fs.lvl.lo ≤ f.slot)), f ∈ fs.allTails :=
    fun f hf => hsub f (List.mem_filter.mp hf).1
  have hco := closeWith_ok (fun f => if f.slot = c.slot then [BFr.pubEv fs.next name fs.lvl.path] else [])
    (by intro f; split <;> exact ⟨by first | exact noAck_cons rfl noAck_nil | exact noAck_nil, rfl⟩)
    (fs.lvl.fins.filter (fun f => decide (fs.lvl.lo ≤ f.slot))) fs.steps
    (fun x => fs.owed.count x +
      tsum (fun f => f.owed.count x) (fs.lvl.fins.filter (fun f => !(decide (fs.lvl.lo ≤ f.slot)))) +
      tsum (fun f => f.owed.count x) (fs.outer.flatMap (·.fins)))
    h.sound
    (by
      intro x
      have h1 := h.owes x
      have h2 := tsum_filter (fun f => f.owed.count x) (fun f => decide (fs.lvl.lo ≤ f.slot)) fs.lvl.fins
      simp only [FS.allTails, tsum_append] at h1
      omega)
    (fun f hf => h.tailsNoAck f (hcur f hf)) (fun f hf => h.tails f (hcur f hf))
  have hmem : ∀ g ∈ ({ fs with
      steps := FS.closeBatch c.slot (.pubEv fs.next name fs.lvl.path)
        (fs.lvl.fins.filter (fun f => decide (fs.lvl.lo ≤ f.slot))) fs.steps,
      lvl := { fs.lvl with fins := fs.lvl.fins.map (fun f => if fs.lvl.lo ≤ f.slot then FS.holding f else f) },
      next := fs.next + 1, rel := false, tieJoin := fs.tieJoin || tie } : FS).allTails,
      (∃ f ∈ fs.lvl.fins, g = FS.holding f) ∨ g ∈ fs.allTails := by
    intro g hg
    simp only [FS.allTails, List.mem_append, List.mem_map] at hg
    rcases hg with ⟨f, hf, hgf⟩ | hg
    · split at hgf
      · exact Or.inl ⟨f, hf, hgf.symm⟩
      · exact Or.inr (hgf ▸ hsub f hf)
    · exact Or.inr (List.mem_append.mpr (Or.inr hg))
  have hw : ({ fs with
      steps := FS.closeBatch c.slot (.pubEv fs.next name fs.lvl.path)
        (fs.lvl.fins.filter (fun f => decide (fs.lvl.lo ≤ f.slot))) fs.steps,
      lvl := { fs.lvl with fins := fs.lvl.fins.map (fun f => if fs.lvl.lo ≤ f.slot then FS.holding f else f) },
      next := fs.next + 1, rel := false, tieJoin := fs.tieJoin || tie } : FS).WF := by
    constructor
    · intro s hs
      rcases hco.2.2 s hs with h1 | h1
      · exact h.ordered s h1
      · exact h1.2
    · exact h.openNoAck
    · intro g hg
      rcases hmem g hg with ⟨f, _, e⟩ | h1
      · rw [e]; exact noAck_nil
      · exact h.tailsNoAck g h1
    · exact hco.1
    · intro x
      have h1 := hco.2.1 x
      show (Ledger.run ((framesOf (FS.closeBatch _ _ _ fs.steps)).map toFr)).unacked.count x = _
      unfold FS.closeBatch
      rw [h1]
      have h2 := tsum_map_if (fun f => f.owed.count x) (fun f => decide (fs.lvl.lo ≤ f.slot)) FS.holding fs.lvl.fins
      simp only [FS.allTails, tsum_append]
      simp only [decide_eq_true_eq] at h2
      rw [h2]
      simp only [FS.holding]
      omega
    · exact h.thread
    · intro g hg x
      rcases hmem g hg with ⟨f, _, e⟩ | h1
      · rw [e]; simp [FS.holding, dlv]
      · exact h.tails g h1 x
    · intro s hs he
      rcases hco.2.2 s hs with h1 | h1
      · exact h.consequence s h1 he
      · rw [h1.1] at he; cases he
  unfold FS.batchOn
  exact ((hw.deliverHold fs.next).closeKeep t).launch t names

theorem FS.WF.batch {fs : FS} (h : fs.WF) (t : Rat) (name : Str) (names : List Str) : (fs.batch t name names).WF := by
  unfold FS.batch
  simp only
  split
  · exact h
  · exact h.batchOn _ _ _ _ _

end Asl
