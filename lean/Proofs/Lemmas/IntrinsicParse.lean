import AslModel.Intrinsic
import Proofs.Lemmas.IntrinsicText
namespace Asl

theorem isWs_cases (c : Char) (h : isWs c = true) : c = ' ' ∨ c = '\n' ∨ c = '\r' ∨ c = '\t' := by
  simp [isWs] at h
  rcases h with ((h | h) | h) | h <;> simp [h]

theorem identStart_facts (c : Char) (h : identStart c = true) :
    isWs c = false ∧ c ≠ '\'' ∧ c ≠ '$' ∧ c ≠ ')' := by
  refine ⟨?_, ?_, ?_, ?_⟩
  · cases hw : isWs c with
    | false => rfl
    | true =>
      rcases isWs_cases c hw with h1 | h1 | h1 | h1 <;> subst h1 <;> revert h <;> decide
  all_goals (intro hc; subst hc; revert h; decide)

theorem parseArg_space (fuel : Nat) (cs : Str) : parseArg fuel (' ' :: cs) = parseArg fuel cs := by
  cases fuel with
  | zero => simp [parseArg]
  | succ f =>
    rw [parseArg, parseArg]
    have : skipWs (' ' :: cs) = skipWs cs := by simp [skipWs, isWs]
    rw [this]

theorem parseArgs1_space (fuel : Nat) (cs : Str) :
    parseArgs1 fuel (' ' :: cs) = parseArgs1 fuel cs := by
  cases fuel with
  | zero => simp [parseArgs1]
  | succ f => rw [parseArgs1, parseArgs1, parseArg_space]

/-- the first character of a printed (well-formed) argument starts a token -/
theorem printArg_head (a : Arg) (hw : a.wf = true) :
    ∃ c r, printArg a = c :: r ∧ isWs c = false ∧ c ≠ ')' := by
  cases a with
  | str s => exact ⟨'\'', escStr s ++ ['\''], by simp [printArg], by decide, by decide⟩
  | int n =>
    obtain ⟨d, r, hd, hr⟩ := natStr_head n.natAbs
    have hf := digitChar_facts d hd
    by_cases hn : n < 0
    · exact ⟨'-', natStr n.natAbs, by simp [printArg, intStr, hn], by decide, by decide⟩
    · refine ⟨idigitChar d, r, by simp [printArg, intStr, hn, hr], hf.2.2.2.2.2.2, ?_⟩
      intro hc
      have := hf.1
      rw [hc] at this
      revert this; decide
  | null => exact ⟨'n', ['u', 'l', 'l'], by simp [printArg], by decide, by decide⟩
  | bool b =>
    cases b
    · exact ⟨'f', ['a', 'l', 's', 'e'], by simp [printArg], by decide, by decide⟩
    · exact ⟨'t', ['r', 'u', 'e'], by simp [printArg], by decide, by decide⟩
  | path p =>
    cases p with
    | nil => simp [Arg.wf, pathOk] at hw
    | cons c cs =>
      by_cases hc : c = '$'
      · subst hc; exact ⟨'$', cs, by simp [printArg], by decide, by decide⟩
      · simp [Arg.wf, pathOk] at hw
        split at hw <;> simp_all
  | call f args =>
    cases f with
    | nil => simp [Arg.wf, identOk] at hw
    | cons c cs =>
      simp [Arg.wf, identOk] at hw
      have := identStart_facts c hw.1.1
      exact ⟨c, cs ++ '(' :: (printArgs args ++ [')']), by simp [printArg], this.1, this.2.2.2⟩

theorem parseArgs_nonempty (fuel : Nat) (c : Char) (r : Str) (hws : isWs c = false)
    (hc : c ≠ ')') : parseArgs (fuel + 1) (c :: r) = parseArgs1 fuel (c :: r) := by
  rw [parseArgs]
  rw [skipWs_nonws c r hws]
  split
  · rename_i h; cases h; exact absurd rfl hc
  · rfl

/-- what may follow an argument: the end of the text, a comma or a closing bracket -/
def Follow (rest : Str) : Prop := rest = [] ∨ ∃ r, rest = ',' :: r ∨ rest = ')' :: r

theorem Follow.tokenEnd {rest : Str} (h : Follow rest) : tokenEnd rest = true := by
  rcases h with h | ⟨r, h | h⟩ <;> subst h <;> simp [Asl.tokenEnd]

theorem Follow.notCall {rest : Str} (h : Follow rest) : ∀ x, skipWs rest ≠ '(' :: x := by
  intro x
  rcases h with h | ⟨r, h | h⟩ <;> subst h <;> simp [skipWs, isWs]

mutual
theorem parseArg_print : (a : Arg) → a.wf = true → ∀ fuel rest, a.size ≤ fuel →
    Follow rest → parseArg fuel (printArg a ++ rest) = some (a, rest)
  | .str s, _, fuel, rest, hf, _ => by
    cases fuel with
    | zero => simp [Arg.size] at hf
    | succ f => simp [printArg, parseArg, skipWs, isWs, parseQ_escStr]
  | .int n, _, fuel, rest, hf, hfw => by
    have ht := hfw.tokenEnd
    have hnc := hfw.notCall
    cases fuel with
    | zero => simp [Arg.size] at hf
    | succ f =>
      by_cases hn : n < 0
      · have h1 := parseNat_natStr n.natAbs rest ht
        have : (-(n.natAbs : Int)) = n := by omega
        simp [printArg, intStr, hn, parseArg, skipWs, isWs, identStart, h1, this]
      · obtain ⟨d, r, hd, hr⟩ := natStr_head n.natAbs
        have hfct := digitChar_facts d hd
        have h1 := parseNat_natStr n.natAbs rest ht
        have : ((n.natAbs : Nat) : Int) = n := by omega
        rw [hr] at h1
        simp only [List.cons_append] at h1
        simp [printArg, intStr, hn, hr, parseArg, skipWs, hfct, h1, this]
  | .null, _, fuel, rest, hf, hfw => by
    have ht := hfw.tokenEnd
    have hnc := hfw.notCall
    cases fuel with
    | zero => simp [Arg.size] at hf
    | succ f =>
      have h1 := takeIdent_append ['u', 'l', 'l'] rest (by decide) (tokenEnd_not_ident rest ht)
      simp only [printArg, List.cons_append, List.nil_append] at *
      rw [parseArg, skipWs_nonws _ _ (by decide)]
      simp [identStart, h1, keyword, ht]
      <;> (split <;> first | rfl | (rename_i heq; exact absurd heq (hnc _)))
  | .bool b, _, fuel, rest, hf, hfw => by
    have ht := hfw.tokenEnd
    have hnc := hfw.notCall
    cases fuel with
    | zero => simp [Arg.size] at hf
    | succ f =>
      cases b with
      | false =>
        have h1 := takeIdent_append ['a', 'l', 's', 'e'] rest (by decide) (tokenEnd_not_ident rest ht)
        simp only [printArg, List.cons_append, List.nil_append] at *
        rw [parseArg, skipWs_nonws _ _ (by decide)]
        simp [identStart, h1, keyword, ht]
        <;> (split <;> first | rfl | (rename_i heq; exact absurd heq (hnc _)))
      | true =>
        have h1 := takeIdent_append ['r', 'u', 'e'] rest (by decide) (tokenEnd_not_ident rest ht)
        simp only [printArg, List.cons_append, List.nil_append] at *
        rw [parseArg, skipWs_nonws _ _ (by decide)]
        simp [identStart, h1, keyword, ht]
        <;> (split <;> first | rfl | (rename_i heq; exact absurd heq (hnc _)))
  | .path p, hw, fuel, rest, hf, hfw => by
    have ht := hfw.tokenEnd
    have hnc := hfw.notCall
    cases fuel with
    | zero => simp [Arg.size] at hf
    | succ f =>
      cases p with
      | nil => simp [Arg.wf, pathOk] at hw
      | cons c cs =>
        by_cases hc : c = '$'
        · subst hc
          simp [Arg.wf, pathOk] at hw
          have h1 := takePath_append cs rest hw (tokenEnd_not_path rest ht)
          simp only [printArg, List.cons_append]
          rw [parseArg, skipWs_nonws _ _ (by decide)]
          simp [h1, ht]
        · simp [Arg.wf, pathOk] at hw
          split at hw <;> simp_all
  | .call f args, hw, fuel, rest, hf, hfw => by
    have ht := hfw.tokenEnd
    have hnc := hfw.notCall
    cases fuel with
    | zero => simp [Arg.size] at hf
    | succ f1 =>
      cases f with
      | nil => simp [Arg.wf, identOk] at hw
      | cons c n =>
        simp [Arg.wf, identOk] at hw
        obtain ⟨⟨hc, hn⟩, hargs⟩ := hw
        have hfc := identStart_facts c hc
        have h1 := takeIdent_append n ('(' :: (printArgs args ++ [')'] ++ rest)) hn
          (by intro c' r' h; cases h; decide)
        have hcall : parseArgs f1 (printArgs args ++ ')' :: rest) = some (args, rest) := by
          cases args with
          | nil =>
            cases f1 with
            | zero => simp [Arg.size, Arg.sizeL] at hf
            | succ f2 => simp [printArgs, parseArgs, skipWs, isWs]
          | cons a as =>
            cases f1 with
            | zero => simp only [Arg.size, Arg.sizeL] at hf; omega
            | succ f2 =>
              obtain ⟨c', r', hp, hws, hcp⟩ := printArg_head a (by simp [Arg.wfL] at hargs; exact hargs.1)
              have hh : ∃ r'', printArgs (a :: as) ++ ')' :: rest = c' :: r'' := by
                cases as with
                | nil => exact ⟨r' ++ ')' :: rest, by simp [printArgs, hp]⟩
                | cons b bs => exact ⟨r' ++ ',' :: ' ' :: (printArgs (b :: bs) ++ ')' :: rest), by simp [printArgs, hp]⟩
              obtain ⟨r'', hr''⟩ := hh
              rw [hr'', parseArgs_nonempty f2 c' r'' hws hcp, ← hr'']
              exact parseArgs1_print a as hargs f2 rest (by simp [Arg.size] at hf; omega)
        simp only [printArg, List.cons_append, List.append_assoc]
        rw [parseArg, skipWs_nonws _ _ hfc.1]
        simp only [List.append_assoc, List.cons_append, List.nil_append] at h1
        simp [hfc.2.1, hfc.2.2.1, hc, h1, skipWs, isWs, hcall]
theorem parseArgs1_print : (a : Arg) → (as : List Arg) → Arg.wfL (a :: as) = true →
    ∀ fuel rest, Arg.sizeL (a :: as) ≤ fuel →
    parseArgs1 fuel (printArgs (a :: as) ++ ')' :: rest) = some (a :: as, rest)
  | a, [], hw, fuel, rest, hf => by
    cases fuel with
    | zero => simp [Arg.sizeL] at hf
    | succ f =>
      simp [Arg.wfL] at hw
      have h1 := parseArg_print a hw f (')' :: rest) (by simp [Arg.sizeL] at hf; omega) (Or.inr ⟨rest, Or.inr rfl⟩)
      simp only [printArgs]
      rw [parseArgs1, h1]
      simp [skipWs, isWs]
  | a, b :: bs, hw, fuel, rest, hf => by
    cases fuel with
    | zero => simp [Arg.sizeL] at hf
    | succ f =>
      simp only [Arg.wfL, Bool.and_eq_true] at hw
      have hsz : a.size ≤ f ∧ Arg.sizeL (b :: bs) ≤ f := by
        simp only [Arg.sizeL] at hf ⊢; omega
      have h1 := parseArg_print a hw.1 f (',' :: ' ' :: (printArgs (b :: bs) ++ ')' :: rest)) hsz.1
        (Or.inr ⟨_, Or.inl rfl⟩)
      have h2 := parseArgs1_print b bs (by simpa [Arg.wfL] using hw.2) f rest hsz.2
      simp only [printArgs, List.append_assoc, List.cons_append]
      rw [parseArgs1, h1]
      simp [skipWs, isWs, parseArgs1_space, h2]
end

/-! ### fuel: the size of a tree is bounded by the length of its text -/

mutual
theorem size_le_print : (a : Arg) → a.size ≤ 2 * (printArg a).length + 1
  | .str _ => by simp [Arg.size]
  | .int _ => by simp [Arg.size]
  | .null => by simp [Arg.size]
  | .bool _ => by simp [Arg.size]
  | .path _ => by simp [Arg.size]
  | .call f args => by
    have := sizeL_le_print args
    simp only [Arg.size, printArg, List.length_append, List.length_cons, List.length_nil]
    omega
theorem sizeL_le_print : (as : List Arg) → Arg.sizeL as ≤ 2 * (printArgs as).length + 2
  | [] => by simp [Arg.sizeL]
  | [a] => by
    have := size_le_print a
    simp only [Arg.sizeL, printArgs]; omega
  | a :: b :: rest => by
    have h1 := size_le_print a
    have h2 := sizeL_le_print (b :: rest)
    simp only [Arg.sizeL, printArgs, List.length_append, List.length_cons] at *
    omega
end

theorem parseIntrinsic_print (f : Str) (args : List Arg) (hw : (Arg.call f args).wf = true) :
    parseIntrinsic (printArg (.call f args)) = some (.call f args) := by
  have h := parseArg_print (.call f args) hw (2 * (printArg (.call f args)).length + 2) []
    (by have := size_le_print (.call f args); omega) (Or.inl rfl)
  simp only [List.append_nil] at h
  simp [parseIntrinsic, h, skipWs]

end Asl
