import AslModel.Join
namespace Asl

@[simp] theorem Join.record_length (s : Slots) (i : Nat) (v : Json) : (Join.record s i v).length = s.length := by
  induction s generalizing i with
  | nil => simp [Join.record]
  | cons x s ih => cases i <;> simp [Join.record, ih]

theorem Join.record_get (s : Slots) (i j : Nat) (v : Json) :
    (Join.record s i v)[j]? = if j = i ∧ i < s.length then some (some v) else s[j]? := by
  induction s generalizing i j with
  | nil => simp [Join.record]
  | cons x s ih =>
    cases i with
    | zero =>
      cases j with
      | zero => simp [Join.record]
      | succ j => simp [Join.record]
    | succ i =>
      cases j with
      | zero => simp [Join.record]
      | succ j => simp [Join.record, ih]

@[simp] theorem Join.init_length (n : Nat) : (Join.init n).length = n := by simp [Join.init]

theorem Join.feed_length (s : Slots) (σ : List (Nat × Json)) : (Join.feed s σ).length = s.length := by
  induction σ generalizing s with
  | nil => simp [Join.feed]
  | cons p σ ih =>
    simp only [Join.feed, List.foldl_cons] at *
    rw [ih]; simp

/-- a filled slot stays filled -/
theorem Join.feed_filled (s : Slots) (σ : List (Nat × Json)) (i : Nat) (w : Json)
    (h : s[i]? = some (some w)) : ∃ w', (Join.feed s σ)[i]? = some (some w') := by
  induction σ generalizing s w with
  | nil => exact ⟨w, by simpa [Join.feed] using h⟩
  | cons p σ ih =>
    simp only [Join.feed, List.foldl_cons]
    have : ∃ w2, (Join.record s p.1 p.2)[i]? = some (some w2) := by
      rw [Join.record_get]
      split
      · exact ⟨p.2, rfl⟩
      · exact ⟨w, h⟩
    obtain ⟨w2, h2⟩ := this
    exact ih _ w2 h2

/-- an index mentioned by the completion list ends up filled -/
theorem Join.feed_fills (s : Slots) (σ : List (Nat × Json)) (i : Nat) (v : Json)
    (hm : (i, v) ∈ σ) (hi : i < s.length) : ∃ w, (Join.feed s σ)[i]? = some (some w) := by
  induction σ generalizing s with
  | nil => simp at hm
  | cons p σ ih =>
    simp only [Join.feed, List.foldl_cons]
    rcases List.mem_cons.mp hm with h | h
    · subst h
      have : (Join.record s i v)[i]? = some (some v) := by rw [Join.record_get]; simp [hi]
      exact Join.feed_filled _ σ i v this
    · exact ih _ h (by simpa using hi)

/-- every filled slot holds the branch's own output, provided the completion list does -/
theorem Join.feed_agrees (o : List Json) (s : Slots) (σ : List (Nat × Json))
    (hs : ∀ (j : Nat) (w : Json), s[j]? = some (some w) → o[j]? = some w)
    (hσ : ∀ p ∈ σ, o[p.1]? = some p.2) :
    ∀ (j : Nat) (w : Json), (Join.feed s σ)[j]? = some (some w) → o[j]? = some w := by
  induction σ generalizing s with
  | nil => simpa [Join.feed] using hs
  | cons p σ ih =>
    simp only [Join.feed, List.foldl_cons]
    apply ih
    · intro j w hj
      rw [Join.record_get] at hj
      split at hj
      · rename_i hc
        simp at hj; subst hj
        rw [hc.1]; exact hσ p (by simp)
      · exact hs j w hj
    · intro q hq; exact hσ q (by simp [hq])

theorem Join.result_of_all (s : Slots) (o : List Json) (hl : s.length = o.length)
    (h : ∀ i, i < o.length → s[i]? = some (o[i]?)) : Join.result s = some o := by
  induction s generalizing o with
  | nil =>
    cases o with
    | nil => rfl
    | cons _ _ => simp at hl
  | cons x s ih =>
    cases o with
    | nil => simp at hl
    | cons v o =>
      have h0 := h 0 (by simp)
      simp at h0
      subst h0
      have := ih o (by simpa using hl) (fun i hi => by simpa using h (i + 1) (by simpa using hi))
      simp [Join.result, this]

theorem Join.result_none_of_missing (s : Slots) (i : Nat) (h : s[i]? = some none) : Join.result s = none := by
  induction s generalizing i with
  | nil => simp at h
  | cons x s ih =>
    cases i with
    | zero => simp at h; subst h; rfl
    | succ i =>
      cases x with
      | none => rfl
      | some v => simp [Join.result, ih i (by simpa using h)]

/-- a slot nobody recorded into is still empty -/
theorem Join.feed_untouched (s : Slots) (σ : List (Nat × Json)) (i : Nat)
    (h : s[i]? = some none) (hn : ∀ p ∈ σ, p.1 ≠ i) : (Join.feed s σ)[i]? = some none := by
  induction σ generalizing s with
  | nil => simpa [Join.feed] using h
  | cons p σ ih =>
    simp only [Join.feed, List.foldl_cons]
    apply ih
    · rw [Join.record_get]
      have := hn p (by simp)
      split
      · rename_i hc; exact absurd hc.1.symm this
      · exact h
    · intro q hq; exact hn q (by simp [hq])

end Asl
