/-
The crash protocol (AslModel/Crash.lean) with all quirks off on *sequences*: Task visits (first attempts and retries),
plain steps and Waits in any order.  `SInv` holds in every configuration reachable by any schedule — any operations
in any order, the engine dying between handler invocations or after any number of broker operations inside one
(`sinv_step`, `sinv_run`) —, and from any such configuration the crash-free canonical run ends the execution
(`sdrain_ends`).
-/
import Proofs.Lemmas.CrashInv
namespace Asl.Crash

/-! ### what a handler does -/

def ackRof : Option Nat → List Act
  | some r => [.ackRp r]
  | none => []

theorem fuelOf_succ (c : Cfg) : ∃ n, fuelOf c = n + 1 := ⟨_, rfl⟩

theorem advance_done_top (q : Quirks) (c : Cfg) (fuel ev : Nat) (rp : Option Nat) (v : Vol) (hj : v.joins = []) :
    advance q c (fuel + 1) ev .done [] none rp v = ([.note true, .ackEv ev] ++ ackRof rp, v) := by
  cases rp <;> simp [advance, ackRof, hj]

/-- a top-level event is dropped exactly when it is delivered for the first time after the terminal notification -/
theorem inDead_top (c : Cfg) (v : Vol) (m : QEv) {t : Sk} {start : Bool} (hk : m.kind = .visit t [] start none)
    (hf : c.failed = 0) : inDeadJoin Quirks.none c v m = (decide (c.notes > 0) && !m.redelivered) := by
  simp [inDeadJoin, evJids, evOwner, hk, hf]

theorem dropEv_top (q : Quirks) (c : Cfg) (v : Vol) (m : QEv) {t : Sk} {start : Bool} (hk : m.kind = .visit t [] start none) :
    dropEv q c v m = ([.ackEv m.id], v) := by
  simp [dropEv, evJids, hk]

/-- the skeleton goes on with a visit -/
def Sk.isVisit : Sk → Bool
  | .task _ _ => true
  | .step _ => true
  | .wait _ => true
  | .par _ _ _ => true
  | .child _ _ _ => true
  | _ => false

/-- a visit follows: its event is published, then the event just handled (and the reply) acknowledged -/
theorem advance_next (q : Quirks) (c : Cfg) (fuel ev : Nat) (rest : Sk) (stack : List Frame) (owner : Option Nat)
    (rp : Option Nat) (v : Vol) (h : rest.isVisit = true) :
    advance q c (fuel + 1) ev rest stack owner rp v =
      ([.pubEv (.visit rest stack false owner), .ackEv ev] ++ ackRof rp, v) := by
  cases rest <;> simp [Sk.isVisit] at h <;> cases rp <;> simp [advance, ackRof]

def preOf (start : Bool) : List Act := if start then [.note false] else []

def ackRq (rp : Option Nat) (l : List QRp) : List QRp :=
  match rp with
  | none => l
  | some r => removeFirst (fun x => x.corr == r && x.unacked) l

/-- the configuration after "publish the successor, acknowledge the event (and the reply)" -/
theorem fold_next (c : Cfg) (start : Bool) (k : EvKind) (id : Nat) (rp : Option Nat) :
    List.foldl Cfg.act c (preOf start ++ ([Act.pubEv k, Act.ackEv id] ++ ackRof rp)) =
      { c with evq := (c.evq ++ [({ id := c.nextId, kind := k } : QEv)]).filter (ackP id), nextId := c.nextId + 1,
               batches := c.batches ++ batchKey k, running := c.running + (if start then 1 else 0),
               rpq := ackRq rp c.rpq } := by
  cases start <;> cases rp <;> rfl

/-- … after "terminal notification, acknowledge the event (and the reply)" -/
theorem fold_end (c : Cfg) (start : Bool) (id : Nat) (rp : Option Nat) :
    List.foldl Cfg.act c (preOf start ++ ([Act.note true, Act.ackEv id] ++ ackRof rp)) =
      { c with evq := c.evq.filter (ackP id), notes := c.notes + 1, running := c.running + (if start then 1 else 0),
               rpq := ackRq rp c.rpq } := by
  cases start <;> cases rp <;> rfl

theorem fold_pre (c : Cfg) (start : Bool) :
    (preOf start).foldl Cfg.act c = { c with running := c.running + (if start then 1 else 0) } := by
  cases start <;> simp [preOf, Cfg.act]

theorem fold_send_pre (c : Cfg) (start : Bool) (id : Nat) :
    List.foldl Cfg.act c ([Act.pubReq id] ++ preOf start) =
      { c with sent := c.sent ++ [id], rpq := c.rpq ++ [({ corr := id } : QRp)], running := c.running + (if start then 1 else 0) } := by
  cases start <;> simp [preOf, Cfg.act]

/-! ### ordered handlers -/

theorem ok_pre {K : EvKind → Prop} {c : Cfg} (start : Bool) {acts : List Act}
    (h : ∀ d : Cfg, d.evq = c.evq → d.rpq = c.rpq → d.sent = c.sent → d.nextId = c.nextId → d.notes = c.notes → ok K d acts) :
    ok K c (preOf start ++ acts) := by
  cases start
  · exact h c rfl rfl rfl rfl rfl
  · exact ⟨trivial, h _ rfl rfl rfl rfl rfl⟩

theorem ok_pre_only {K : EvKind → Prop} (c : Cfg) (start : Bool) : ok K c (preOf start) := by
  cases start
  · trivial
  · exact ⟨trivial, trivial⟩

/-- after the event `m` (unacknowledged) has been acknowledged no event has its id -/
theorem no_id_after_ack {l1 l2 l3 : List QEv} {m : QEv} (h1 : ∀ e ∈ l1, e.id ≠ m.id) (h2 : ∀ e ∈ l2, e.id ≠ m.id)
    (h3 : ∀ e ∈ l3, e.id ≠ m.id) (hm : m.unacked = true) :
    ∀ p ∈ (((l1 ++ m :: l2 ++ l3).filter (ackP m.id)).map (fun e => (e.id, e.kind))), p.1 ≠ m.id := by
  rw [ack_split h1 h2 h3 hm]
  intro p hp
  obtain ⟨e, he, rfl⟩ := List.mem_map.mp hp
  simp only [List.mem_append] at he
  rcases he with (he | he) | he
  · exact h1 e he
  · exact h2 e he
  · exact h3 e he

/-- the handler of event `m` (delivered, so unacknowledged) that publishes a successor and acknowledges -/
theorem ok_next {K : EvKind → Prop} {c : Cfg} {l1 l2 : List QEv} {m : QEv} {k : EvKind} (start : Bool) (rp : Option Nat)
    (he : c.evq = l1 ++ m :: l2) (h1 : ∀ e ∈ l1, e.id ≠ m.id) (h2 : ∀ e ∈ l2, e.id ≠ m.id) (hm : m.unacked = true)
    (hlt : m.id < c.nextId) (hk : K k) (hrp : ∀ r, rp = some r → r = m.id) :
    ok K c (preOf start ++ ([.pubEv k, .ackEv m.id] ++ ackRof rp)) := by
  apply ok_pre
  intro d hev _ _ hn _
  rw [← hev] at he; rw [← hn] at hlt
  refine ⟨hk, ?_, ?_⟩
  · right
    refine ⟨(d.nextId, k), ?_, ?_⟩
    · simp [evK, Cfg.act]
    · simp; omega
  · cases rp with
    | none => trivial
    | some r =>
      obtain rfl := hrp r rfl
      refine ⟨?_, trivial⟩
      show ∀ p ∈ evK ((d.act (.pubEv k)).act (.ackEv m.id)), p.1 ≠ m.id
      simp only [evK, act_ackEv_evq]
      have : (d.act (.pubEv k)).evq = l1 ++ m :: l2 ++ [{ id := d.nextId, kind := k }] := by simp [Cfg.act, he]
      rw [this]
      exact no_id_after_ack h1 h2 (by intro e he; simp at he; subst he; simp; omega) hm

/-- … or that ends the execution -/
theorem ok_end {K : EvKind → Prop} {c : Cfg} {l1 l2 : List QEv} {m : QEv} (start : Bool) (rp : Option Nat)
    (he : c.evq = l1 ++ m :: l2) (h1 : ∀ e ∈ l1, e.id ≠ m.id) (h2 : ∀ e ∈ l2, e.id ≠ m.id) (hm : m.unacked = true)
    (hrp : ∀ r, rp = some r → r = m.id) :
    ok K c (preOf start ++ ([.note true, .ackEv m.id] ++ ackRof rp)) := by
  apply ok_pre
  intro d hev _ _ _ _
  rw [← hev] at he
  refine ⟨trivial, ?_, ?_⟩
  · left; show 1 ≤ d.notes + 1; omega
  · cases rp with
    | none => trivial
    | some r =>
      obtain rfl := hrp r rfl
      refine ⟨?_, trivial⟩
      show ∀ p ∈ evK ((d.act (.note true)).act (.ackEv m.id)), p.1 ≠ m.id
      simp only [evK, act_ackEv_evq]
      have : (d.act (.note true)).evq = l1 ++ m :: l2 ++ [] := by simp [Cfg.act, he]
      rw [this]
      exact no_id_after_ack h1 h2 (by intro e he; cases he) hm

/-- the request of Task event `m`, not on record as sent -/
theorem ok_send {K : EvKind → Prop} {c : Cfg} {m : QEv} (start : Bool) (hm : m ∈ c.evq) (ht : isTaskKind m.kind = true)
    (hns : m.id ∉ c.sent) : ok K c ([.pubReq m.id] ++ preOf start) :=
  ⟨⟨⟨(m.id, m.kind), mem_evK hm, rfl, ht⟩, hns⟩, ok_pre_only _ start⟩

/-! ### sequences -/

def Sk.seq : Sk → Bool
  | .done => true
  | .task _ r => r.seq
  | .step r => r.seq
  | .wait r => r.seq
  | _ => false

def seqKind : EvKind → Bool
  | .visit t [] _ none => t.seq
  | _ => false

abbrev SeqK (k : EvKind) : Prop := seqKind k = true

structure SInv (c : Cfg) : Prop where
  dur : Dur SeqK c
  vol : VolI c
  nojoin : c.joins = []

theorem seqKind_inv {k : EvKind} (h : seqKind k = true) : ∃ t start, k = .visit t [] start none ∧ t.seq = true := by
  cases k with
  | visit t stack start owner =>
    cases stack with
    | nil => cases owner with
      | none => exact ⟨t, start, rfl, h⟩
      | some _ => simp [seqKind] at h
    | cons _ _ => simp [seqKind] at h
  | reenter _ _ _ _ => simp [seqKind] at h

/-- a sequence goes on with a visit or is over -/
theorem seq_cases {t : Sk} (h : t.seq = true) : t = .done ∨ (t.isVisit = true ∧ seqKind (.visit t [] false none) = true) := by
  cases t <;> simp [Sk.seq, Sk.isVisit, seqKind] at h ⊢ <;> exact h

mutual
/-- visits still to come (a fan-out state: its own two handler invocations, its branches, one unit per branch for the
join, and what follows) -/
def visits : Sk → Nat
  | .task _ r => visits r + 1
  | .step r => visits r + 1
  | .wait r => visits r + 1
  | .par _ brs r => brVisits brs + visits r + 2
  | _ => 0
def brVisits : Br → Nat
  | .nil => 0
  | .cons b bs => visits b + 1 + brVisits bs
end

def todoOf : EvKind → Sk
  | .visit t _ _ _ => t
  | .reenter _ _ _ _ => .done

def evW (e : QEv) : Nat := 8 * visits (todoOf e.kind) + (if e.unacked then 1 else 6)

/-- what is left to do: eight units per visit to come, less what the event in hand has done, plus the armed timers and
the replies waiting to be delivered -/
def mu (c : Cfg) : Nat :=
  (c.evq.map evW).sum + 3 * c.timers.length + (c.rpq.filter (fun r => !r.unacked)).length

mutual
/-- Task visits still to come -/
def tasksIn : Sk → Nat
  | .task _ r => tasksIn r + 1
  | .step r => tasksIn r
  | .wait r => tasksIn r
  | .par _ brs r => brTasks brs + tasksIn r
  | .child _ sub r => tasksIn sub + tasksIn r + 1
  | _ => 0
def brTasks : Br → Nat
  | .nil => 0
  | .cons b bs => tasksIn b + brTasks bs
end

/-- requests sent plus Task visits the events in the queue still have before them -/
def load (c : Cfg) : Nat := c.sent.length + (c.evq.map (fun e => tasksIn (todoOf e.kind))).sum
/-- events whose request is out -/
def inflight (c : Cfg) : Nat := (c.evq.filter (fun e => c.sent.contains e.id)).length

/-- conserved as long as no handler is cut short: one thread of control (an event, or the terminal notification), `N`
Task visits in all (sent, or still to come), and no reply without its event -/
structure Cons (N : Nat) (c : Cfg) : Prop where
  psi : c.notes + c.evq.length = 1
  phi : load c = N + inflight c
  fresh : ∀ r ∈ c.rpq, ∃ e ∈ c.evq, e.id = r.corr

/-- the outcome of a handler invocation: the invariant holds again and, when it was not cut short, there is less left
to do (`dec`: for the operations the canonical schedule uses) -/
structure Good (c c' : Cfg) (cut : Option Nat) (dec : Prop) : Prop where
  inv : SInv c'
  less : cut = none → dec → mu c' < mu c
  cons : cut = none → ∀ N, Cons N c → Cons N c'

theorem good_handler {c c1 : Cfg} {acts : List Act} {v : Vol} {dec : Prop} (cut : Option Nat) (hd : Dur SeqK c1)
    (hok : ok SeqK c1 acts) (hj : v.joins = [])
    (hv : VolI ((acts.foldl Cfg.act c1).withVol v) ∧ (dec → mu ((acts.foldl Cfg.act c1).withVol v) < mu c) ∧
      (∀ N, Cons N c → Cons N ((acts.foldl Cfg.act c1).withVol v))) :
    Good c (c1.handler acts v cut) cut dec := by
  cases cut with
  | none => exact ⟨⟨(hd.all hok).withVol v, hv.1, hj⟩, fun _ hdec => hv.2.1 hdec, fun _ => hv.2.2⟩
  | some k => exact ⟨⟨(hd.take hok k).crash, VolI.crash _, rfl⟩, fun hc => (by cases hc), fun hc => (by cases hc)⟩

theorem length_insertNat_new {x : Nat} {xs : List Nat} (h : x ∉ xs) : (insertNat x xs).length = xs.length + 1 := by
  unfold insertNat
  simp [h]

theorem length_erase_mem {x : Nat} {xs : List Nat} (h : x ∈ xs) : (xs.erase x).length + 1 = xs.length := by
  rw [List.length_erase_of_mem h]
  have : 0 < xs.length := List.length_pos_of_mem h
  omega

macro "cons_tac" "[" ts:Lean.Parser.Tactic.simpLemma,* "]" : tactic => `(tactic|
  (intro N hcons
   obtain ⟨hpsi, hphi, hfresh⟩ := hcons
   refine ⟨?_, ?_, ?_⟩
   · simp only [Cfg.withVol, List.foldl, List.length_append, List.length_cons, List.length_nil, $ts,*] at hpsi ⊢ <;> omega
   · simp only [load, inflight, Cfg.withVol, List.foldl, List.map_append, List.map_cons, List.map_nil, List.sum_append,
       List.sum_cons, List.sum_nil, List.filter_append, List.filter_cons, List.filter_nil, List.length_append,
       List.length_cons, List.length_nil, todoOf, tasksIn, Bool.false_eq_true, if_true, if_false, $ts,*] at hphi ⊢ <;> omega
   · simp only [Cfg.withVol, List.foldl, $ts,*] at hfresh ⊢ <;> grind))

macro "mu_tac" "[" ts:Lean.Parser.Tactic.simpLemma,* "]" : tactic => `(tactic|
  (simp only [mu, evW, Cfg.withVol, Cfg.vol, List.foldl, List.map_append, List.map_cons, List.map_nil, List.sum_append,
      List.sum_cons, List.sum_nil, List.filter_append, List.filter_cons, List.filter_nil, List.length_append,
      List.length_cons, List.length_nil, todoOf, visits, Bool.not_true, Bool.not_false, Bool.false_eq_true, if_true, if_false, $ts,*]
   <;> omega))

theorem sinv_init (sk : Sk) (h : sk.seq = true) : SInv (init sk) := by
  refine ⟨?_, ?_, rfl⟩
  · constructor <;> simp [init, evK, rpC]
    show seqKind _ = true
    simpa [seqKind] using h
  · constructor <;> simp [init, uEv, uRp]

/-- the delivered event `m`, marked: the queue around it -/
theorem markEv_split {c : Cfg} {l1 l2 : List QEv} {m : QEv} (he : c.evq = l1 ++ m :: l2) (h1 : ∀ e ∈ l1, e.id ≠ m.id)
    (h2 : ∀ e ∈ l2, e.id ≠ m.id) (hu : m.unacked = false) :
    ∃ m' : QEv, m'.id = m.id ∧ m'.kind = m.kind ∧ m'.unacked = true ∧
      markEv c m.id = { c with evq := l1 ++ m' :: l2 } := by
  refine ⟨{ m with unacked := true }, rfl, rfl, rfl, ?_⟩
  show { c with evq := c.evq.map (markOne m.id) } = _
  rw [he, mark_split h1 h2 hu]


theorem mem_uRp_ne {l : List QRp} {corr : Nat} (h : ∀ e ∈ l, e.corr ≠ corr) : corr ∉ uRp l := by
  intro hx; obtain ⟨e, he', _, hid⟩ := mem_uRp.mp hx; exact h e he' hid

theorem mem_uEv_ne {l : List QEv} {id : Nat} (h : ∀ e ∈ l, e.id ≠ id) : id ∉ uEv l := by
  intro hx; obtain ⟨e, he', _, hid⟩ := mem_uEv.mp hx; exact h e he' hid

macro "voli_grind" : tactic => `(tactic|
  (constructor <;> simp only [Cfg.withVol, Cfg.vol, List.foldl] <;>
    simp only [uEv_append, uEv_cons, uEv_nil, uRp_append, uRp_cons, uRp_nil, mem_insertNat, List.mem_append, List.mem_cons,
      List.mem_singleton, List.not_mem_nil, or_false, false_or] at * <;>
    grind [timerKind, isTaskKind]))

/-- … after rewriting the queues with the given equations -/
macro "voli_grind_with" "[" ts:Lean.Parser.Tactic.simpLemma,* "]" : tactic => `(tactic|
  (constructor <;> simp only [Cfg.withVol, Cfg.vol, List.foldl, $ts,*] <;>
    simp only [uEv_append, uEv_cons, uEv_nil, uRp_append, uRp_cons, uRp_nil, mem_insertNat, List.mem_append, List.mem_cons,
      List.mem_singleton, List.not_mem_nil, or_false, false_or] at * <;>
    grind [timerKind, isTaskKind]))

theorem good_ev (c c' : Cfg) (id : Nat) (cut : Option Nat) (h : SInv c)
    (hs : step Quirks.none c (.ev id) cut = some c') : Good c c' cut True := by
  unfold step at hs
  rw [if_neg (by simp [h.dur.nodiv])] at hs
  simp only at hs
  cases hf : findEv c id false with
  | none => rw [hf] at hs; cases hs
  | some m =>
    rw [hf] at hs
    obtain ⟨hm, hid, hu⟩ := findEv_some hf
    subst hid
    obtain ⟨t, start, hk, hseq⟩ := seqKind_inv (h.dur.kinds _ (mem_evK hm))
    replace hk : m.kind = .visit t [] start none := hk
    obtain ⟨l1, l2, he, h1, h2⟩ := split_of_mem hm (by rw [← evK_ids]; exact h.dur.ids)
    have hd1 := h.dur.markEv m.id
    have hlt : m.id < c.nextId := h.dur.idlt _ (mem_evK hm)
    obtain ⟨m', hid', hk', hu', hmk⟩ := markEv_split he h1 h2 hu
    rw [hmk] at hs hd1
    obtain ⟨n, hn⟩ := fuelOf_succ { c with evq := l1 ++ m' :: l2 }
    have hpre : ∀ o : Option Nat, o = none → (if start = true then [if o.isSome = true then Act.cnote false else Act.note false] else []) = preOf start := by
      intro o ho; subst ho; rfl
    obtain ⟨tnd, pnd, ond, t_sub, p_sub, o_sub, he_sub, hr_sub, u_ev, u_rp, t_kind, p_kind, tp⟩ := h.vol
    have hnj := h.nojoin
    have hndt := @nodup_insertNat m.id _ tnd
    have hndp := @nodup_insertNat m.id _ pnd
    have hn1 : m.id ∉ uEv l1 := mem_uEv_ne h1
    have hn2 : m.id ∉ uEv l2 := mem_uEv_ne h2
    have hnt : m.id ∉ c.timers := by
      intro ht
      have := t_sub _ ht
      rw [he] at this
      simp only [uEv_append, uEv_cons, hu, Bool.false_eq_true, if_false, List.mem_append] at this
      rcases this with h | h
      · exact hn1 h
      · exact hn2 h
    have hlen := length_insertNat_new hnt
    rw [he] at t_sub p_sub he_sub u_ev t_kind p_kind
    have hc1 : ({ c with evq := l1 ++ m' :: l2 } : Cfg).evq = l1 ++ m' :: l2 := rfl
    simp only at hs
    rw [inDead_top ({ c with evq := l1 ++ m' :: l2 } : Cfg) _ m hk h.dur.nofail,
      dropEv_top _ ({ c with evq := l1 ++ m' :: l2 } : Cfg) _ m hk] at hs
    by_cases hdrop : (decide (c.notes > 0) && !m.redelivered) = true
    · -- delivered for the first time after the terminal notification: dropped
      have hnotes : 1 ≤ c.notes := by
        simp only [Bool.and_eq_true, decide_eq_true_eq] at hdrop; exact hdrop.1
      simp only [show (({ c with evq := l1 ++ m' :: l2 } : Cfg).notes) = c.notes from rfl, hdrop, if_true, Option.some.injEq] at hs
      subst hs
      have h1' := h1
      have h2' := h2
      rw [← hid'] at h1' h2' hlt ⊢
      refine good_handler cut hd1 ⟨Or.inl hnotes, trivial⟩ (by simp [Cfg.vol, hnj]) ?_
      have hq := ack_split h1' h2' (l3 := []) (by simp) hu'
      simp only [List.append_nil] at hq
      have hfold : List.foldl Cfg.act ({ c with evq := l1 ++ m' :: l2 } : Cfg) [Act.ackEv m'.id] =
          { c with evq := l1 ++ l2 } := by
        simp only [List.foldl, Cfg.act]
        rw [show (fun m => !(m.id == m'.id && m.unacked)) = ackP m'.id from rfl, hq]
      rw [hfold]
      refine ⟨by voli_grind, fun _ => by mu_tac [he, hu, hk], ?_⟩
      intro N hcons
      exfalso
      have := hcons.psi
      rw [he] at this
      simp at this
      omega
    rw [if_neg hdrop] at hs
    simp only [hk, hpre none rfl, hn] at hs
    have hul1 : ∀ x ∈ uEv l1, x < c.nextId := by
      intro x hx; obtain ⟨e, he', _, rfl⟩ := mem_uEv.mp hx
      exact h.dur.idlt _ (mem_evK (he ▸ List.mem_append_left _ he'))
    have hul2 : ∀ x ∈ uEv l2, x < c.nextId := by
      intro x hx; obtain ⟨e, he', _, rfl⟩ := mem_uEv.mp hx
      exact h.dur.idlt _ (mem_evK (he ▸ List.mem_append_right _ (List.mem_cons_of_mem _ he')))
    have h1' := h1
    have h2' := h2
    rw [← hid'] at h1' h2' hlt hs hlen
    have hkm' : m'.kind = .visit t [] start none := hk' ▸ hk
    have hj0 : ({ c with evq := l1 ++ m' :: l2 } : Cfg).vol.joins = [] := hnj
    have hnx : c.sent.contains c.nextId = false := by
      have : c.nextId ∉ c.sent := fun hh => Nat.lt_irrefl _ (h.dur.sentlt _ hh)
      simpa using this
    have hcs : ∀ r ∈ c.rpq, r.corr ∈ c.sent := fun r hr => h.dur.corrsent _ (List.mem_map.mpr ⟨r, hr, rfl⟩)
    have hnontask : isTaskKind m.kind = false → m.id ∉ c.sent := by
      intro hnt hh
      have := (h.dur.reply _ (mem_evK hm) hh).1
      rw [hnt] at this; cases this
    cases t with
    | wait rest =>
      simp only [Option.some.injEq] at hs
      subst hs
      refine good_handler cut hd1 (ok_pre_only _ start) (by simp [Cfg.vol, hnj]) ?_
      rw [fold_pre]
      refine ⟨by voli_grind, fun _ => by mu_tac [he, hu, hu', hk, hkm', hlen], ?_⟩
      have hns := hnontask (by rw [hk]; rfl)
      have hnsb : c.sent.contains m.id = false := by simpa using hns
      cons_tac [he, hk, hkm', hid', hnsb, hnx]
    | done =>
      simp only [advance_done_top _ _ _ _ _ _ hj0, Option.some.injEq] at hs
      subst hs
      refine good_handler cut hd1 (ok_end start none hc1 h1' h2' hu' (by simp)) (by simp [Cfg.vol, hnj]) ?_
      have := fold_end { c with evq := l1 ++ m' :: l2 } start m'.id none
      simp only [ackRof, List.append_nil] at this ⊢
      rw [this]
      have hq := ack_split h1' h2' (l3 := []) (by simp) hu'
      simp only [List.append_nil] at hq
      simp only [hq, ackRq]
      refine ⟨by voli_grind, fun _ => by mu_tac [he, hu, hk], ?_⟩
      have hns := hnontask (by rw [hk]; rfl)
      have hnsb : c.sent.contains m.id = false := by simpa using hns
      cons_tac [he, hk, hkm', hid', hnsb, hnx]
    | step rest =>
      have hrs : rest.seq = true := hseq
      rcases seq_cases hrs with rfl | ⟨hv, hkk⟩
      · simp only [advance_done_top _ _ _ _ _ _ hj0, Option.some.injEq] at hs
        subst hs
        refine good_handler cut hd1 (ok_end start none hc1 h1' h2' hu' (by simp)) (by simp [Cfg.vol, hnj]) ?_
        have := fold_end { c with evq := l1 ++ m' :: l2 } start m'.id none
        simp only [ackRof, List.append_nil] at this ⊢
        rw [this]
        have hq := ack_split h1' h2' (l3 := []) (by simp) hu'
        simp only [List.append_nil] at hq
        simp only [hq, ackRq]
        refine ⟨by voli_grind, fun _ => by mu_tac [he, hu, hk], ?_⟩
        have hns := hnontask (by rw [hk]; rfl)
        have hnsb : c.sent.contains m.id = false := by simpa using hns
        cons_tac [he, hk, hkm', hid', hnsb, hnx]
      · simp only [advance_next _ _ _ _ _ _ _ _ _ hv, Option.some.injEq] at hs
        subst hs
        refine good_handler cut hd1 (ok_next start none hc1 h1' h2' hu' hlt hkk (by simp)) (by simp [Cfg.vol, hnj]) ?_
        have := fold_next { c with evq := l1 ++ m' :: l2 } start (.visit rest [] false none) m'.id none
        simp only [ackRof, List.append_nil] at this ⊢
        rw [this]
        have hq := ack_split h1' h2' (l3 := [({ id := c.nextId, kind := .visit rest [] false none } : QEv)])
          (by intro e he; simp at he; subst he; simp; omega) hu'
        simp only [hq, ackRq]
        refine ⟨by voli_grind, fun _ => by mu_tac [he, hu, hk], ?_⟩
        have hns := hnontask (by rw [hk]; rfl)
        have hnsb : c.sent.contains m.id = false := by simpa using hns
        cons_tac [he, hk, hkm', hid', hnsb, hnx]
    | task rc rest =>
      cases rc with
      | zero =>
        simp only [Quirks.none, bne_self_eq_false, Bool.or_false, Bool.false_eq_true, if_false, requestOf,
          Option.some.injEq, List.contains_iff_mem] at hs
        by_cases hsn : m'.id ∈ c.sent
        · rw [if_pos hsn, List.nil_append] at hs
          subst hs
          refine good_handler cut hd1 (ok_pre_only _ start) (by simp [Cfg.vol, hnj]) ?_
          rw [fold_pre]
          refine ⟨by voli_grind, fun _ => by mu_tac [he, hu, hu', hk, hkm'], ?_⟩
          have hsnb : c.sent.contains m.id = true := by rw [← hid']; simpa using hsn
          cons_tac [he, hk, hkm', hid', hsnb, hnx]
        · rw [if_neg hsn] at hs
          subst hs
          refine good_handler cut hd1 (ok_send (m := m') start (by simp) (by rw [hkm']; rfl) hsn) (by simp [Cfg.vol, hnj]) ?_
          rw [fold_send_pre]
          refine ⟨by voli_grind, fun _ => by mu_tac [he, hu, hu', hk, hkm'], ?_⟩
          have hsnb : c.sent.contains m.id = false := by rw [← hid']; simpa using hsn
          have hf1 : l1.filter (fun e => (c.sent ++ [m.id]).contains e.id) = l1.filter (fun e => c.sent.contains e.id) :=
            List.filter_congr (fun e he' => by have := h1 e he'; simp [this])
          have hf2 : l2.filter (fun e => (c.sent ++ [m.id]).contains e.id) = l2.filter (fun e => c.sent.contains e.id) :=
            List.filter_congr (fun e he' => by have := h2 e he'; simp [this])
          have hself : (c.sent ++ [m.id]).contains m.id = true := by simp
          cons_tac [he, hk, hkm', hid', hsnb, hnx, hf1, hf2, hself]
      | succ rc =>
        simp only [Quirks.none, Bool.false_or, Nat.succ_ne_zero, bne_iff_ne, ne_eq, not_false_eq_true, decide_true,
          if_true, Option.some.injEq] at hs
        subst hs
        refine good_handler cut hd1 (ok_pre_only _ start) (by simp [Cfg.vol, hnj]) ?_
        rw [fold_pre]
        refine ⟨by voli_grind, fun _ => by mu_tac [he, hu, hu', hk, hkm', hlen], ?_⟩
        by_cases hsn : m.id ∈ c.sent
        · have hsnb : c.sent.contains m.id = true := by simpa using hsn
          cons_tac [he, hk, hkm', hid', hsnb, hnx]
        · have hsnb : c.sent.contains m.id = false := by simpa using hsn
          cons_tac [he, hk, hkm', hid', hsnb, hnx]
    | par _ _ _ => simp [Sk.seq] at hseq
    | child _ _ _ => simp [Sk.seq] at hseq
    | fail _ _ => simp [Sk.seq] at hseq
    | «opaque» => simp [Sk.seq] at hseq

theorem withVol_vol (c : Cfg) : c.withVol c.vol = c := rfl

theorem good_noop (c : Cfg) (cut : Option Nat) (h : SInv c) : Good c (c.handler [] c.vol cut) cut False :=
  good_handler cut h.dur trivial (by simp [Cfg.vol, h.nojoin])
    ⟨by simpa [withVol_vol] using h.vol, fun hf => hf.elim, fun N hc => by simpa [withVol_vol] using hc⟩

/-- the unacknowledged event with a given id, and the queue around it -/
theorem unacked_split {c : Cfg} (h : SInv c) {id : Nat} (hid : id ∈ uEv c.evq) :
    ∃ m l1 l2, c.evq = l1 ++ m :: l2 ∧ m.id = id ∧ m.unacked = true ∧ (∀ e ∈ l1, e.id ≠ m.id) ∧ (∀ e ∈ l2, e.id ≠ m.id) ∧
      findEv c id true = some m := by
  obtain ⟨m, hm, hu, rfl⟩ := mem_uEv.mp hid
  obtain ⟨l1, l2, he, h1, h2⟩ := split_of_mem hm (by rw [← evK_ids]; exact h.dur.ids)
  exact ⟨m, l1, l2, he, rfl, hu, h1, h2, by have := findEv_split he h1; rwa [hu] at this⟩

theorem good_tm (c c' : Cfg) (id : Nat) (cut : Option Nat) (h : SInv c)
    (hs : step Quirks.none c (.tm id) cut = some c') : Good c c' cut (id ∈ c.timers) := by
  unfold step at hs
  rw [if_neg (by simp [h.dur.nodiv])] at hs
  simp only at hs
  by_cases hc : id ∈ c.timers
  · have hc' : (!c.timers.contains id) = false := by simp [hc]
    rw [hc'] at hs
    simp only [Bool.false_eq_true, if_false] at hs
    obtain ⟨m, l1, l2, he, hid, hu, h1, h2, hf⟩ := unacked_split h (h.vol.t_sub id hc)
    subst hid
    rw [hf] at hs
    have hm : m ∈ c.evq := by rw [he]; simp
    obtain ⟨t, start, hk, hseq⟩ := seqKind_inv (h.dur.kinds _ (mem_evK hm))
    replace hk : m.kind = .visit t [] start none := hk
    have hlt : m.id < c.nextId := h.dur.idlt _ (mem_evK hm)
    obtain ⟨n, hn⟩ := fuelOf_succ c
    obtain ⟨tnd, pnd, ond, t_sub, p_sub, o_sub, he_sub, hr_sub, u_ev, u_rp, t_kind, p_kind, tp⟩ := h.vol
    have hnj := h.nojoin
    have hte : ∀ a, a ∈ c.timers.erase m.id ↔ a ≠ m.id ∧ a ∈ c.timers := fun a => List.Nodup.mem_erase_iff tnd
    have hnde := tnd.erase m.id
    have hndp := @nodup_insertNat m.id _ pnd
    have hlen := length_erase_mem hc
    have hul1 : ∀ x ∈ uEv l1, x < c.nextId := by
      intro x hx; obtain ⟨e, he', _, rfl⟩ := mem_uEv.mp hx
      exact h.dur.idlt _ (mem_evK (he ▸ List.mem_append_left _ he'))
    have hul2 : ∀ x ∈ uEv l2, x < c.nextId := by
      intro x hx; obtain ⟨e, he', _, rfl⟩ := mem_uEv.mp hx
      exact h.dur.idlt _ (mem_evK (he ▸ List.mem_append_right _ (List.mem_cons_of_mem _ he')))
    have hE : heldE c.joins = [] := by rw [hnj]; rfl
    have hR : heldR c.joins = [] := by rw [hnj]; rfl
    have hn1 : m.id ∉ uEv l1 := mem_uEv_ne h1
    have hn2 : m.id ∉ uEv l2 := mem_uEv_ne h2
    rw [he] at t_sub p_sub he_sub u_ev t_kind p_kind
    simp only [hk, hn] at hs
    have hnx : c.sent.contains c.nextId = false := by
      have : c.nextId ∉ c.sent := fun hh => Nat.lt_irrefl _ (h.dur.sentlt _ hh)
      simpa using this
    have hcs : ∀ r ∈ c.rpq, r.corr ∈ c.sent := fun r hr => h.dur.corrsent _ (List.mem_map.mpr ⟨r, hr, rfl⟩)
    have hnontask : isTaskKind m.kind = false → m.id ∉ c.sent := by
      intro hnt hh
      have := (h.dur.reply _ (mem_evK hm) hh).1
      rw [hnt] at this; cases this
    have hj0 : ({ timers := c.timers.erase m.id, pending := c.vol.pending, orphans := c.vol.orphans, joins := c.vol.joins } : Vol).joins = [] := hnj
    cases t with
    | wait rest =>
      simp only [waitVisit, Bool.not_true, Bool.false_and, Bool.false_eq_true, if_false] at hs
      have hrs : rest.seq = true := hseq
      rcases seq_cases hrs with rfl | ⟨hv, hkk⟩
      · simp only [advance_done_top _ _ _ _ _ _ hj0, Option.some.injEq] at hs
        subst hs
        refine good_handler cut h.dur (ok_end false none he h1 h2 hu (by simp)) (by simp [Cfg.vol, hnj]) ?_
        have := fold_end c false m.id none
        simp only [ackRof, List.append_nil, preOf, Bool.false_eq_true, if_false, List.nil_append] at this ⊢
        rw [this]
        have hq := ack_split h1 h2 (l3 := []) (by simp) hu
        simp only [List.append_nil] at hq
        simp only [he, hq, ackRq]
        refine ⟨by voli_grind, fun _ => by mu_tac [he, hu, hk], ?_⟩
        have hns := hnontask (by rw [hk]; rfl)
        have hnsb : c.sent.contains m.id = false := by simpa using hns
        cons_tac [he, hk, hnsb, hnx]
      · simp only [advance_next _ _ _ _ _ _ _ _ _ hv, Option.some.injEq] at hs
        subst hs
        refine good_handler cut h.dur (ok_next false none he h1 h2 hu hlt hkk (by simp)) (by simp [Cfg.vol, hnj]) ?_
        have := fold_next c false (.visit rest [] false none) m.id none
        simp only [ackRof, List.append_nil, preOf, Bool.false_eq_true, if_false, List.nil_append] at this ⊢
        rw [this]
        have hq := ack_split h1 h2 (l3 := [({ id := c.nextId, kind := .visit rest [] false none } : QEv)])
          (by intro e he; simp at he; subst he; simp; omega) hu
        simp only [he, hq, ackRq]
        refine ⟨by voli_grind, fun _ => by mu_tac [he, hu, hk], ?_⟩
        have hns := hnontask (by rw [hk]; rfl)
        have hnsb : c.sent.contains m.id = false := by simpa using hns
        cons_tac [he, hk, hnsb, hnx]
    | task rc rest =>
      rw [inDead_top c _ m hk h.dur.nofail, dropEv_top _ c _ m hk] at hs
      simp only [waitVisit, Bool.not_false, Bool.true_and] at hs
      by_cases hdrop : (decide (c.notes > 0) && !m.redelivered) = true
      · -- the execution has ended since the event was accepted (it was not redelivered): dropped
        have hnotes : 1 ≤ c.notes := by
          simp only [Bool.and_eq_true, decide_eq_true_eq] at hdrop; exact hdrop.1
        simp only [hdrop, if_true, Option.some.injEq] at hs
        subst hs
        refine good_handler cut h.dur ⟨Or.inl hnotes, trivial⟩ (by simp [Cfg.vol, hnj]) ?_
        have hq := ack_split h1 h2 (l3 := []) (by simp) hu
        simp only [List.append_nil] at hq
        have hfold : List.foldl Cfg.act c [Act.ackEv m.id] = { c with evq := l1 ++ l2 } := by
          simp only [List.foldl, Cfg.act]
          rw [show (fun x => !(x.id == m.id && x.unacked)) = ackP m.id from rfl, he, hq]
        rw [hfold]
        refine ⟨by voli_grind, fun _ => by mu_tac [he, hu, hk], ?_⟩
        intro N hcons
        exfalso
        have := hcons.psi
        rw [he] at this
        simp at this
        omega
      rw [if_neg hdrop] at hs
      simp only [Quirks.none, Bool.false_eq_true, if_false, requestOf, Option.some.injEq, List.contains_iff_mem] at hs
      by_cases hsn : m.id ∈ c.sent
      · simp only [hsn, if_true] at hs
        subst hs
        refine good_handler cut h.dur trivial (by simp [Cfg.vol, hnj]) ?_
        refine ⟨by voli_grind_with [he], fun _ => by mu_tac [he, hu, hk], ?_⟩
        have hsnb : c.sent.contains m.id = true := by simpa using hsn
        cons_tac [he, hk, hsnb, hnx]
      · simp only [hsn, if_false] at hs
        subst hs
        refine good_handler cut h.dur (ok_send (m := m) false hm (by rw [hk]; rfl) hsn) (by simp [Cfg.vol, hnj]) ?_
        have := fold_send_pre c false m.id
        simp only [preOf, Bool.false_eq_true, if_false, List.append_nil] at this ⊢
        rw [this]
        simp only [he]
        refine ⟨by voli_grind, fun _ => by mu_tac [he, hu, hk], ?_⟩
        have hsnb : c.sent.contains m.id = false := by simpa using hsn
        have hf1 : l1.filter (fun e => (c.sent ++ [m.id]).contains e.id) = l1.filter (fun e => c.sent.contains e.id) :=
          List.filter_congr (fun e he' => by have := h1 e he'; simp [this])
        have hf2 : l2.filter (fun e => (c.sent ++ [m.id]).contains e.id) = l2.filter (fun e => c.sent.contains e.id) :=
          List.filter_congr (fun e he' => by have := h2 e he'; simp [this])
        have hself : (c.sent ++ [m.id]).contains m.id = true := by simp
        cons_tac [he, hk, hsnb, hnx, hf1, hf2, hself]
    | done =>
      have := t_kind m (by simp) hc
      rw [hk] at this; simp [timerKind] at this
    | step _ =>
      have := t_kind m (by simp) hc
      rw [hk] at this; simp [timerKind] at this
    | par _ _ _ => simp [Sk.seq] at hseq
    | child _ _ _ => simp [Sk.seq] at hseq
    | fail _ _ => simp [Sk.seq] at hseq
    | «opaque» => simp [Sk.seq] at hseq
  · have hc' : (!c.timers.contains id) = true := by simp [hc]
    rw [hc'] at hs
    simp only [if_true] at hs
    have weaken : ∀ {x : Cfg}, Good c x cut False → Good c x cut (id ∈ c.timers) :=
      fun g => ⟨g.inv, fun _ hd => absurd hd hc, g.cons⟩
    cases hf : findEv c id true with
    | none => rw [hf] at hs; cases hs
    | some m =>
      rw [hf] at hs
      simp only [Quirks.none, Bool.false_eq_true, if_false] at hs
      split at hs
      · cases hs; exact weaken (good_noop c cut h)
      · cases hs; exact weaken (good_noop c cut h)
      · cases hs

/-- the reply to `corr` completes the Task visit of event `m`: the common part of `rp` (the reply was just delivered) and
`tick` (it was retained) -/
theorem good_reply (c c' : Cfg) (cut : Option Nat) (h : SInv c) {m : QEv} {l1 l2 : List QEv} {r : QRp} {k1 k2 : List QRp}
    (orph : List Nat)
    (he : c.evq = l1 ++ m :: l2) (hu : m.unacked = true) (h1 : ∀ e ∈ l1, e.id ≠ m.id) (h2 : ∀ e ∈ l2, e.id ≠ m.id)
    (hp : m.id ∈ c.pending)
    (hr : c.rpq = k1 ++ r :: k2) (hrc : r.corr = m.id) (g1 : ∀ e ∈ k1, e.corr ≠ r.corr) (g2 : ∀ e ∈ k2, e.corr ≠ r.corr)
    (r' : QRp) (hr'c : r'.corr = r.corr) (hr'u : r'.unacked = true)
    (horph : ∀ a, a ∈ orph ↔ a ≠ m.id ∧ a ∈ c.orphans) (horphnd : orph.Nodup)
    (hru : r.unacked = true → m.id ∈ c.orphans)
    {acts : List Act} {v' : Vol} (x : Nat) (hx : x = m.id)
    (hon : onReply Quirks.none { c with rpq := k1 ++ r' :: k2 } x
              { timers := c.timers, pending := c.pending, orphans := orph, joins := c.joins } = some (acts, v'))
    (hrdy : (k1 ++ r :: k2).filter (fun x => !x.unacked) = (k1 ++ k2).filter (fun x => !x.unacked) ∨
      ((k1 ++ r :: k2).filter (fun x => !x.unacked)).length = ((k1 ++ k2).filter (fun x => !x.unacked)).length + 1)
    (hs : c' = ({ c with rpq := k1 ++ r' :: k2 } : Cfg).handler acts v' cut) : Good c c' cut True := by
  subst hx
  have hm : m ∈ c.evq := by rw [he]; simp
  obtain ⟨t, start, hk, hseq⟩ := seqKind_inv (h.dur.kinds _ (mem_evK hm))
  replace hk : m.kind = .visit t [] start none := hk
  have hlt : m.id < c.nextId := h.dur.idlt _ (mem_evK hm)
  have hd1 : Dur SeqK { c with rpq := k1 ++ r' :: k2 } := by
    refine h.dur.congr rfl ?_ rfl rfl rfl rfl
    simp [rpC, hr, hr'c]
  have hc1e : ({ c with rpq := k1 ++ r' :: k2 } : Cfg).evq = l1 ++ m :: l2 := he
  have hf : findEv { c with rpq := k1 ++ r' :: k2 } m.id true = some m := by
    have := findEv_split (c := { c with rpq := k1 ++ r' :: k2 }) hc1e h1; rwa [hu] at this
  obtain ⟨n, hn⟩ := fuelOf_succ { c with rpq := k1 ++ r' :: k2 }
  obtain ⟨tnd, pnd, ond, t_sub, p_sub, o_sub, he_sub, hr_sub, u_ev, u_rp, t_kind, p_kind, tp⟩ := h.vol
  have hnj := h.nojoin
  have hpe : ∀ a, a ∈ c.pending.erase m.id ↔ a ≠ m.id ∧ a ∈ c.pending := fun a => List.Nodup.mem_erase_iff pnd
  have hndp := pnd.erase m.id
  have hul1 : ∀ x ∈ uEv l1, x < c.nextId := by
    intro x hx; obtain ⟨e, he', _, rfl⟩ := mem_uEv.mp hx
    exact h.dur.idlt _ (mem_evK (he ▸ List.mem_append_left _ he'))
  have hul2 : ∀ x ∈ uEv l2, x < c.nextId := by
    intro x hx; obtain ⟨e, he', _, rfl⟩ := mem_uEv.mp hx
    exact h.dur.idlt _ (mem_evK (he ▸ List.mem_append_right _ (List.mem_cons_of_mem _ he')))
  have hE : heldE c.joins = [] := by rw [hnj]; rfl
  have hR : heldR c.joins = [] := by rw [hnj]; rfl
  have hn1 := mem_uEv_ne h1
  have hn2 := mem_uEv_ne h2
  have gn1 := mem_uRp_ne g1
  have gn2 := mem_uRp_ne g2
  have hpk := h.vol.p_kind m hm hp
  have hrq : removeFirst (fun x => x.corr == m.id && x.unacked) (k1 ++ r' :: k2) = k1 ++ k2 := by
    apply removeFirst_split
    · intro e he'
      have := g1 e he'
      rw [hrc] at this
      simp [this]
    · simp [hr'c, hrc, hr'u]
  rw [he] at t_sub p_sub he_sub u_ev t_kind p_kind
  rw [hr] at o_sub hr_sub u_rp
  simp only [onReply, hf, hk] at hon
  have hnx : c.sent.contains c.nextId = false := by
    have : c.nextId ∉ c.sent := fun hh => Nat.lt_irrefl _ (h.dur.sentlt _ hh)
    simpa using this
  have hcs : ∀ r ∈ c.rpq, r.corr ∈ c.sent := fun r hr => h.dur.corrsent _ (List.mem_map.mpr ⟨r, hr, rfl⟩)
  have hsnb : c.sent.contains m.id = true := by simpa using (h.vol.p_sub _ hp).2
  cases t with
  | task rc rest =>
    have hrs : rest.seq = true := hseq
    simp only [hn] at hon
    have hj0 : ({ timers := c.timers, pending := c.pending.erase m.id, orphans := orph, joins := c.joins } : Vol).joins = [] := hnj
    rcases seq_cases hrs with rfl | ⟨hv, hkk⟩
    · simp only [advance_done_top _ _ _ _ _ _ hj0, Option.some.injEq, Prod.mk.injEq] at hon
      obtain ⟨rfl, rfl⟩ := hon
      subst hs
      refine good_handler cut hd1 (ok_end false (some m.id) hc1e h1 h2 hu (by simp)) (by simp [hnj]) ?_
      have := fold_end { c with rpq := k1 ++ r' :: k2 } false m.id (some m.id)
      simp only [preOf, Bool.false_eq_true, if_false, List.nil_append] at this ⊢
      rw [this]
      have hq := ack_split h1 h2 (l3 := []) (by simp) hu
      simp only [List.append_nil] at hq
      simp only [he, hq, ackRq, hrq]
      have hrl : ((k1 ++ k2).filter (fun x => !x.unacked)).length ≤ ((k1 ++ r :: k2).filter (fun x => !x.unacked)).length := by
        rcases hrdy with h | h
        · rw [h]; exact Nat.le_refl _
        · omega
      refine ⟨by voli_grind, fun _ => ?_, ?_⟩
      · simp only [mu, evW, Cfg.withVol, he, hr, List.map_append, List.map_cons, List.map_nil, List.sum_append, List.sum_cons,
          List.sum_nil, hu, hk, todoOf, visits, if_true, Bool.false_eq_true, if_false]
        omega
      · cons_tac [he, hr, hk, hsnb, hnx]
    · simp only [advance_next _ _ _ _ _ _ _ _ _ hv, Option.some.injEq, Prod.mk.injEq] at hon
      obtain ⟨rfl, rfl⟩ := hon
      subst hs
      refine good_handler cut hd1 (ok_next false (some m.id) hc1e h1 h2 hu hlt hkk (by simp)) (by simp [hnj]) ?_
      have := fold_next { c with rpq := k1 ++ r' :: k2 } false (.visit rest [] false none) m.id (some m.id)
      simp only [preOf, Bool.false_eq_true, if_false, List.nil_append] at this ⊢
      rw [this]
      have hq := ack_split h1 h2 (l3 := [({ id := c.nextId, kind := .visit rest [] false none } : QEv)])
        (by intro e he; simp at he; subst he; simp; omega) hu
      simp only [he, hq, ackRq, hrq]
      have hrl : ((k1 ++ k2).filter (fun x => !x.unacked)).length ≤ ((k1 ++ r :: k2).filter (fun x => !x.unacked)).length := by
        rcases hrdy with h | h
        · rw [h]; exact Nat.le_refl _
        · omega
      refine ⟨by voli_grind, fun _ => ?_, ?_⟩
      · simp only [mu, evW, Cfg.withVol, he, hr, List.map_append, List.map_cons, List.map_nil, List.sum_append, List.sum_cons,
          List.sum_nil, hu, hk, todoOf, visits, if_true, Bool.false_eq_true, if_false]
        omega
      · cons_tac [he, hr, hk, hsnb, hnx]
  | done => rw [hk] at hpk; simp [isTaskKind] at hpk
  | step _ => rw [hk] at hpk; simp [isTaskKind] at hpk
  | wait _ => rw [hk] at hpk; simp [isTaskKind] at hpk
  | par _ _ _ => simp [Sk.seq] at hseq
  | child _ _ _ => simp [Sk.seq] at hseq
  | fail _ _ => simp [Sk.seq] at hseq
  | «opaque» => simp [Sk.seq] at hseq


theorem good_rp (c c' : Cfg) (corr : Nat) (cut : Option Nat) (h : SInv c)
    (hs : step Quirks.none c (.rp corr) cut = some c') : Good c c' cut True := by
  unfold step at hs
  rw [if_neg (by simp [h.dur.nodiv])] at hs
  simp only at hs
  by_cases hany : (c.rpq.any (fun r => r.corr == corr && !r.unacked)) = true
  · rw [hany] at hs
    simp only [Bool.not_true, Bool.false_eq_true, if_false] at hs
    obtain ⟨r, hr, hrp⟩ := List.any_eq_true.mp hany
    simp only [Bool.and_eq_true, beq_iff_eq, Bool.not_eq_true'] at hrp
    obtain ⟨hrc, hru⟩ := hrp
    subst hrc
    obtain ⟨k1, k2, hk, g1, g2⟩ := splitR_of_mem hr h.dur.corrnd
    have hmk : markRpL c.rpq r.corr = k1 ++ { r with unacked := true } :: k2 := by
      rw [hk]; exact markRpL_split g1 hru
    rw [hmk] at hs
    have gn1 := mem_uRp_ne g1
    have gn2 := mem_uRp_ne g2
    have hno : r.corr ∉ c.orphans := by
      intro ho
      have := h.vol.o_sub _ ho
      rw [hk] at this
      simp only [uRp_append, uRp_cons, hru, Bool.false_eq_true, if_false, List.mem_append] at this
      rcases this with h | h
      · exact gn1 h
      · exact gn2 h
    by_cases hp : r.corr ∈ c.pending
    · have hp' : (({ c with rpq := k1 ++ { r with unacked := true } :: k2 } : Cfg).vol.pending.contains r.corr) = true := by
        simp [Cfg.vol, hp]
      rw [if_pos hp'] at hs
      obtain ⟨m, l1, l2, he, hid, hu, h1, h2, _⟩ := unacked_split h (h.vol.p_sub _ hp).1
      simp only [Cfg.vol] at hs
      split at hs
      · rename_i acts v' hon
        exact good_reply c c' cut h c.orphans he hu h1 h2 (hid ▸ hp) hk hid.symm g1 g2 { r with unacked := true } rfl rfl
          (fun a => ⟨fun ha => ⟨fun e => hno (hid ▸ e ▸ ha), ha⟩, fun ha => ha.2⟩) h.vol.ond (by simp [hru]) r.corr hid.symm hon
          (Or.inr (by simp [List.filter_append, hru]; omega)) (Option.some.inj hs).symm
      · cases hs
    · have hp' : ¬ (({ c with rpq := k1 ++ { r with unacked := true } :: k2 } : Cfg).vol.pending.contains r.corr) = true := by
        simp [Cfg.vol, hp]
      rw [if_neg hp'] at hs
      simp only [Option.some.injEq] at hs
      subst hs
      have hd1 : Dur SeqK { c with rpq := k1 ++ { r with unacked := true } :: k2 } := by
        refine h.dur.congr rfl ?_ rfl rfl rfl rfl
        simp [rpC, hk]
      refine good_handler cut hd1 trivial (by simp [Cfg.vol, h.nojoin]) ?_
      obtain ⟨tnd, pnd, ond, t_sub, p_sub, o_sub, he_sub, hr_sub, u_ev, u_rp, t_kind, p_kind, tp⟩ := h.vol
      have hndo := @nodup_insertNat r.corr _ ond
      have hnj := h.nojoin
      have hE : heldE c.joins = [] := by rw [hnj]; rfl
      have hR : heldR c.joins = [] := by rw [hnj]; rfl
      rw [hk] at o_sub hr_sub u_rp
      refine ⟨by voli_grind, fun _ => by mu_tac [hk, hru], ?_⟩
      intro N hcons
      obtain ⟨hpsi, hphi, hfresh⟩ := hcons
      refine ⟨hpsi, hphi, ?_⟩
      intro x hx
      have hx' : x ∈ k1 ++ { r with unacked := true } :: k2 := hx
      show ∃ e ∈ c.evq, e.id = x.corr
      rcases List.mem_append.mp hx' with hx1 | hx1
      · exact hfresh x (by rw [hk]; exact List.mem_append_left _ hx1)
      · rcases List.mem_cons.mp hx1 with rfl | hx2
        · exact hfresh r hr
        · exact hfresh x (by rw [hk]; exact List.mem_append_right _ (List.mem_cons_of_mem _ hx2))
  · have : (!c.rpq.any (fun r => r.corr == corr && !r.unacked)) = true := by simp [hany]
    rw [if_pos this] at hs
    cases hs

theorem good_tick (c c' : Cfg) (cut : Option Nat) (h : SInv c)
    (hs : step Quirks.none c .tick cut = some c') : Good c c' cut (∃ o ∈ c.orphans, o ∈ c.pending) := by
  unfold step at hs
  rw [if_neg (by simp [h.dur.nodiv])] at hs
  simp only at hs
  cases hf : c.orphans.find? (fun o => c.pending.contains o) with
  | none =>
    rw [hf] at hs
    simp only [Option.some.injEq] at hs
    subst hs
    have hnone := List.find?_eq_none.mp hf
    exact ⟨(good_noop c cut h).inv, fun _ ⟨o, ho, hp⟩ => absurd (by simpa using hp) (hnone o ho), (good_noop c cut h).cons⟩
  | some corr =>
    rw [hf] at hs
    simp only at hs
    have ho := List.mem_of_find?_eq_some hf
    have hp : corr ∈ c.pending := by simpa using List.find?_some hf
    obtain ⟨m, l1, l2, he, hid, hu, h1, h2, _⟩ := unacked_split h (h.vol.p_sub _ hp).1
    obtain ⟨r, hr, hru, hrc⟩ := mem_uRp.mp (h.vol.o_sub _ ho)
    obtain ⟨k1, k2, hk, g1, g2⟩ := splitR_of_mem hr h.dur.corrnd
    subst hid
    have hcc : c = { c with rpq := k1 ++ r :: k2 } := by rw [← hk]
    simp only [Cfg.vol] at hs
    split at hs
    · rename_i acts v' hon
      rw [hcc] at hon hs
      have g := good_reply c c' cut h (c.orphans.erase m.id) he hu h1 h2 hp hk hrc g1 g2 r rfl hru
        (fun a => List.Nodup.mem_erase_iff h.vol.ond) (h.vol.ond.erase _) (fun _ => ho) m.id rfl hon
        (Or.inl (by simp [List.filter_append, hru])) (Option.some.inj hs).symm
      exact ⟨g.inv, fun hc _ => g.less hc trivial, g.cons⟩
    · cases hs

theorem sinv_step (c c' : Cfg) (op : Op) (cut : Option Nat) (h : SInv c)
    (hs : step Quirks.none c op cut = some c') : SInv c' := by
  cases op with
  | ev id => exact (good_ev c c' id cut h hs).inv
  | tm id => exact (good_tm c c' id cut h hs).inv
  | rp corr => exact (good_rp c c' corr cut h hs).inv
  | tick => exact (good_tick c c' cut h hs).inv
  | crash =>
    unfold step at hs
    rw [if_neg (by simp [h.dur.nodiv])] at hs
    simp only [Option.some.injEq] at hs
    subst hs
    exact ⟨h.dur.crash, VolI.crash c, rfl⟩

/-- every executable schedule — crashes between handler invocations and inside them, anywhere, any number — keeps the
invariant -/
theorem sinv_run (c c' : Cfg) (sched : Sched) (h : SInv c) (hr : run Quirks.none c sched = some c') : SInv c' := by
  induction sched generalizing c with
  | nil => simp [run] at hr; exact hr ▸ h
  | cons x rest ih =>
    obtain ⟨op, cut⟩ := x
    simp only [run] at hr
    split at hr
    · rename_i c1 h1
      exact ih c1 (sinv_step c c1 op cut h h1) hr
    · cases hr


/-! ### the canonical crash-free run ends the execution -/

theorem task_of_seq {k : EvKind} (hs : seqKind k = true) (ht : isTaskKind k = true) :
    ∃ rc rest start, k = .visit (.task rc rest) [] start none := by
  obtain ⟨t, start, rfl, hseq⟩ := seqKind_inv hs
  cases t <;> simp [isTaskKind, Sk.seq] at ht hseq
  exact ⟨_, _, _, rfl⟩

theorem onReply_enabled {c c1 : Cfg} (h : SInv c) {corr : Nat} (hp : corr ∈ c.pending) (v : Vol)
    (hev : c1.evq = c.evq) : ∃ x, onReply Quirks.none c1 corr v = some x := by
  obtain ⟨m, l1, l2, he, hid, hu, h1, h2, hf⟩ := unacked_split h (h.vol.p_sub _ hp).1
  have hm : m ∈ c.evq := by rw [he]; simp
  obtain ⟨rc, rest, start, hk⟩ := task_of_seq (h.dur.kinds _ (mem_evK hm)) (h.vol.p_kind m hm (hid ▸ hp))
  replace hk : m.kind = .visit (.task rc rest) [] start none := hk
  have hf1 : findEv c1 corr true = some m := by
    unfold findEv at hf ⊢; rw [hev]; exact hf
  simp only [onReply, hf1, hk]
  exact ⟨_, rfl⟩

theorem canon_enabled (c : Cfg) (h : SInv c) (op : Op) (hop : nextOp c = some op) :
    (∃ c', step Quirks.none c op none = some c') ∧
      (match op with
       | .ev _ => True
       | .tm id => id ∈ c.timers
       | .rp _ => True
       | .tick => ∃ o ∈ c.orphans, o ∈ c.pending
       | .crash => False) := by
  have hnd : c.diverged = false := h.dur.nodiv
  unfold nextOp at hop
  split at hop
  · -- a timer is armed
    rename_i t ts ht
    cases hop
    have hc : t ∈ c.timers := by rw [ht]; simp
    refine ⟨?_, hc⟩
    obtain ⟨m, l1, l2, he, hid, hu, h1, h2, hf⟩ := unacked_split h (h.vol.t_sub t hc)
    have hm : m ∈ c.evq := by rw [he]; simp
    obtain ⟨tt, start, hk, hseq⟩ := seqKind_inv (h.dur.kinds _ (mem_evK hm))
    replace hk : m.kind = .visit tt [] start none := hk
    have htk := h.vol.t_kind m hm (hid ▸ hc)
    have hc' : (!c.timers.contains t) = false := by simp [hc]
    unfold step
    rw [if_neg (by simp [hnd])]
    simp only [hc', Bool.false_eq_true, if_false, hf, hk]
    cases tt <;> simp [hk, timerKind, Sk.seq] at htk hseq ⊢ <;> split <;> exact ⟨_, rfl⟩
  · split at hop
    · -- an event is ready
      rename_i m hm
      cases hop
      refine ⟨?_, trivial⟩
      have hmm := List.mem_of_find?_eq_some hm
      have hmu : m.unacked = false := by simpa using List.find?_some hm
      obtain ⟨l1, l2, he, h1, h2⟩ := split_of_mem hmm (by rw [← evK_ids]; exact h.dur.ids)
      have hf : findEv c m.id false = some m := by
        have := findEv_split he h1; rwa [hmu] at this
      obtain ⟨tt, start, hk, hseq⟩ := seqKind_inv (h.dur.kinds _ (mem_evK hmm))
      replace hk : m.kind = .visit tt [] start none := hk
      unfold step
      rw [if_neg (by simp [hnd])]
      simp only [hf, hk]
      split
      · exact ⟨_, rfl⟩
      · cases tt <;> simp [Sk.seq] at hseq ⊢
        split <;> exact ⟨_, rfl⟩
    · split at hop
      · -- a reply is ready
        rename_i hne r hr
        cases hop
        refine ⟨?_, trivial⟩
        have hrm := List.mem_of_find?_eq_some hr
        have hru : r.unacked = false := by simpa using List.find?_some hr
        have hany : (c.rpq.any (fun x => x.corr == r.corr && !x.unacked)) = true :=
          List.any_eq_true.mpr ⟨r, hrm, by simp [hru]⟩
        unfold step
        rw [if_neg (by simp [hnd])]
        simp only [hany, Bool.not_true, Bool.false_eq_true, if_false]
        by_cases hp : r.corr ∈ c.pending
        · have hp' : (({ c with rpq := markRpL c.rpq r.corr } : Cfg).vol.pending.contains r.corr) = true := by
            simp [Cfg.vol, hp]
          rw [if_pos hp']
          obtain ⟨x, hx⟩ := onReply_enabled (c1 := { c with rpq := markRpL c.rpq r.corr }) h hp
            ({ c with rpq := markRpL c.rpq r.corr } : Cfg).vol rfl
          rw [hx]
          exact ⟨_, rfl⟩
        · have hp' : ¬ (({ c with rpq := markRpL c.rpq r.corr } : Cfg).vol.pending.contains r.corr) = true := by
            simp [Cfg.vol, hp]
          rw [if_neg hp']
          exact ⟨_, rfl⟩
      · -- the orphan handler has something to match
        split at hop
        · rename_i hany
          cases hop
          obtain ⟨o, ho, hpo⟩ := List.any_eq_true.mp hany
          have hpo' : o ∈ c.pending := by simpa using hpo
          refine ⟨?_, o, ho, hpo'⟩
          unfold step
          rw [if_neg (by simp [hnd])]
          simp only
          cases hf : c.orphans.find? (fun o => c.pending.contains o) with
          | none => exact absurd hpo (List.find?_eq_none.mp hf o ho)
          | some corr =>
            have hp : corr ∈ c.pending := by simpa using List.find?_some hf
            obtain ⟨x, hx⟩ := onReply_enabled (c1 := c) h hp { c.vol with orphans := c.orphans.erase corr } rfl
            simp only [hx]
            exact ⟨_, rfl⟩
        · cases hop

/-- nothing enabled: nothing is left in the event queue -/
theorem quiet_empty (c : Cfg) (h : SInv c) (hq : nextOp c = none) : c.evq = [] := by
  unfold nextOp at hq
  split at hq
  · cases hq
  · rename_i ht
    split at hq
    · cases hq
    · rename_i hev
      split at hq
      · cases hq
      · rename_i hrp
        split at hq
        · cases hq
        · rename_i hany
          -- an event would be unacknowledged, pending, requested, its reply unacknowledged and retained: the orphan
          -- handler would match it
          apply List.eq_nil_iff_forall_not_mem.mpr
          intro e he
          have heu : e.unacked = true := by
            have := List.find?_eq_none.mp hev e he
            simpa using this
          have hu := h.vol.u_ev e.id (mem_uEv.mpr ⟨e, he, heu, rfl⟩)
          rw [ht, h.nojoin] at hu
          simp only [List.not_mem_nil, heldE_nil, or_false, false_or] at hu
          have hs := (h.vol.p_sub _ hu).2
          obtain ⟨_, hr⟩ := h.dur.reply _ (mem_evK he) hs
          obtain ⟨r, hrm, hrc⟩ := List.mem_map.mp hr
          have hru : r.unacked = true := by
            have := List.find?_eq_none.mp hrp r hrm
            simpa using this
          have ho := h.vol.u_rp r.corr (mem_uRp.mpr ⟨r, hrm, hru, rfl⟩)
          rw [h.nojoin] at ho
          simp only [heldR_nil, List.not_mem_nil, or_false] at ho
          apply hany
          exact List.any_eq_true.mpr ⟨r.corr, ho, by rw [hrc]; simpa using hu⟩

theorem canon_progress (c : Cfg) (h : SInv c) (op : Op) (hop : nextOp c = some op) :
    ∃ c', step Quirks.none c op none = some c' ∧ SInv c' ∧ mu c' < mu c := by
  obtain ⟨⟨c', hs⟩, hdec⟩ := canon_enabled c h op hop
  refine ⟨c', hs, ?_⟩
  cases op with
  | ev id => have g := good_ev c c' id none h hs; exact ⟨g.inv, g.less rfl trivial⟩
  | tm id => have g := good_tm c c' id none h hs; exact ⟨g.inv, g.less rfl hdec⟩
  | rp corr => have g := good_rp c c' corr none h hs; exact ⟨g.inv, g.less rfl trivial⟩
  | tick => have g := good_tick c c' none h hs; exact ⟨g.inv, g.less rfl hdec⟩
  | crash => exact hdec.elim

/-- from any reachable configuration the crash-free canonical run comes to rest with the invariant intact -/
theorem sdrain (fuel : Nat) (c : Cfg) (h : SInv c) (hf : mu c ≤ fuel) :
    SInv (drain Quirks.none fuel c) ∧ nextOp (drain Quirks.none fuel c) = none := by
  induction fuel generalizing c with
  | zero =>
    simp only [drain]
    refine ⟨h, ?_⟩
    cases hop : nextOp c with
    | none => rfl
    | some op =>
      obtain ⟨c', _, _, hlt⟩ := canon_progress c h op hop
      omega
  | succ fuel ih =>
    simp only [drain, h.dur.nodiv, Bool.false_eq_true, if_false]
    cases hop : nextOp c with
    | none => exact ⟨h, hop⟩
    | some op =>
      obtain ⟨c', hs, hi, hlt⟩ := canon_progress c h op hop
      simp only [hs]
      exact ih c' hi (by omega)


/-! ### exactly once, when no handler is cut short -/

theorem Cons.crash {N : Nat} {c : Cfg} (h : Cons N c) : Cons N c.crash := by
  obtain ⟨hpsi, hphi, hfresh⟩ := h
  have hlen : c.crash.evq.length = c.evq.length := by simp [Cfg.crash]
  have hload : load c.crash = load c := by
    simp only [load, Cfg.crash, List.map_map]
    congr 2
    apply List.map_congr_left
    intro e _
    simp only [Function.comp]
    split <;> rfl
  have hin : inflight c.crash = inflight c := by
    simp only [inflight, Cfg.crash, List.filter_map, List.length_map]
    congr 1
    apply List.filter_congr
    intro e _
    simp only [Function.comp]
    split <;> rfl
  refine ⟨?_, ?_, ?_⟩
  · show c.notes + c.crash.evq.length = 1
    rw [hlen]; exact hpsi
  · rw [hload, hin]; exact hphi
  · intro r hr
    obtain ⟨r0, hr0, rfl⟩ := List.mem_map.mp hr
    obtain ⟨e, he, hid⟩ := hfresh r0 hr0
    refine ⟨_, List.mem_map.mpr ⟨e, he, rfl⟩, ?_⟩
    have h1 : ∀ (x : QEv), (if x.unacked = true then { x with unacked := false, redelivered := true } else x).id = x.id := by
      intro x; split <;> rfl
    have h2 : ∀ (x : QRp), (if x.unacked = true then { x with unacked := false, redelivered := true } else x).corr = x.corr := by
      intro x; split <;> rfl
    rw [h1, h2]; exact hid

theorem cons_step (N : Nat) (c c' : Cfg) (op : Op) (h : SInv c) (hc : Cons N c)
    (hs : step Quirks.none c op none = some c') : Cons N c' := by
  cases op with
  | ev id => exact (good_ev c c' id none h hs).cons rfl N hc
  | tm id => exact (good_tm c c' id none h hs).cons rfl N hc
  | rp corr => exact (good_rp c c' corr none h hs).cons rfl N hc
  | tick => exact (good_tick c c' none h hs).cons rfl N hc
  | crash =>
    unfold step at hs
    rw [if_neg (by simp [h.dur.nodiv])] at hs
    simp only [Option.some.injEq] at hs
    subst hs
    exact hc.crash

/-- every executable schedule whose crashes fall between handler invocations keeps the conservation laws -/
theorem cons_run (N : Nat) (c c' : Cfg) (ops : List Op) (h : SInv c) (hc : Cons N c)
    (hr : run Quirks.none c (ops.map (fun o => (o, none))) = some c') : Cons N c' := by
  induction ops generalizing c with
  | nil => simp [run] at hr; exact hr ▸ hc
  | cons op rest ih =>
    simp only [List.map_cons, run] at hr
    split at hr
    · rename_i c1 h1
      exact ih c1 (sinv_step c c1 op none h h1) (cons_step N c c1 op h hc h1) hr
    · cases hr

theorem sdrain_cons (N : Nat) (fuel : Nat) (c : Cfg) (h : SInv c) (hc : Cons N c) :
    Cons N (drain Quirks.none fuel c) := by
  induction fuel generalizing c with
  | zero => simpa [drain] using hc
  | succ fuel ih =>
    simp only [drain, h.dur.nodiv, Bool.false_eq_true, if_false]
    cases hop : nextOp c with
    | none => exact hc
    | some op =>
      obtain ⟨c', hs, hi, _⟩ := canon_progress c h op hop
      simp only [hs]
      exact ih c' hi (cons_step N c c' op h hc hs)

theorem cons_init (sk : Sk) : Cons (tasksIn sk) (init sk) := by
  refine ⟨by simp [init], by simp [load, inflight, init, todoOf], by simp [init]⟩

/-- the configuration of an execution that has ended: one terminal notification, nothing in the queues, nothing in the
engine's memory -/
structure Ended (N : Nat) (c : Cfg) : Prop where
  evq : c.evq = []
  rpq : c.rpq = []
  notes : c.notes = 1
  sentnd : c.sent.Nodup
  sentlen : c.sent.length = N
  timers : c.timers = []
  pending : c.pending = []
  orphans : c.orphans = []
  joins : c.joins = []

theorem ended_of_quiet {N : Nat} {c : Cfg} (h : SInv c) (hc : Cons N c) (hq : nextOp c = none) : Ended N c := by
  have hev := quiet_empty c h hq
  obtain ⟨hpsi, hphi, hfresh⟩ := hc
  have hrp : c.rpq = [] := by
    apply List.eq_nil_iff_forall_not_mem.mpr
    intro r hr
    obtain ⟨e, he, _⟩ := hfresh r hr
    rw [hev] at he; cases he
  refine ⟨hev, hrp, ?_, h.dur.sentnd, ?_, ?_, ?_, ?_, h.nojoin⟩
  · rw [hev] at hpsi; simpa using hpsi
  · simp only [load, inflight, hev, List.map_nil, List.sum_nil, List.filter_nil, List.length_nil] at hphi; omega
  · apply List.eq_nil_iff_forall_not_mem.mpr
    intro t ht; have := h.vol.t_sub t ht; rw [hev] at this; cases this
  · apply List.eq_nil_iff_forall_not_mem.mpr
    intro t ht; have := (h.vol.p_sub t ht).1; rw [hev] at this; cases this
  · apply List.eq_nil_iff_forall_not_mem.mpr
    intro t ht; have := h.vol.o_sub t ht; rw [hrp] at this; cases this

end Asl.Crash
