/-
The crash protocol (AslModel/Crash.lean) on a sequence of Task visits, with all quirks off and crashes
between handler invocations: the reachable configurations (`Inv`), that every enabled operation — a
crash included — keeps them (`inv_step`), and that from any of them the crash-free canonical run ends
the execution (`drain_ends`).
-/
import AslModel.Crash
namespace Asl.Crash

/-- `n` Task visits in a row -/
def tasks : Nat → Sk
  | 0 => .done
  | n + 1 => .task (tasks n)

/-- the one event in flight: the visit of the first of `m` remaining Tasks -/
def evm (id m : Nat) (start red una : Bool) : QEv :=
  { id := id, kind := .visit (tasks m) [] start, redelivered := red, unacked := una }

def rpm (id : Nat) (red una : Bool) : QRp := { corr := id, redelivered := red, unacked := una }

/-- the phases of one Task visit (event `id`, `m` Tasks left including this one) -/
inductive Phase where
  | fresh                      -- the event is in the queue, never delivered; nothing requested yet
  | waiting                    -- delivered, requested, the reply is on its way
  | crashed                    -- after a crash: event and reply are ready again, the engine remembers nothing
  | orphan                     -- after a crash the reply came first and is retained
  | matched                    -- … and the redelivered event has registered its request again
  deriving DecidableEq

def cfgOf (id m : Nat) (start red rr : Bool) (sent : List Nat) (running : Nat) : Phase → Cfg
  | .fresh => { evq := [evm id m start false false], rpq := [], sent := sent, running := running, nextId := id + 1 }
  | .waiting => { evq := [evm id m start red true], rpq := [rpm id rr false], sent := sent, running := running,
                  nextId := id + 1, pending := [id] }
  | .crashed => { evq := [evm id m start true false], rpq := [rpm id rr false], sent := sent, running := running,
                  nextId := id + 1 }
  | .orphan => { evq := [evm id m start true false], rpq := [rpm id rr true], sent := sent, running := running,
                 nextId := id + 1, orphans := [id] }
  | .matched => { evq := [evm id m start true true], rpq := [rpm id rr true], sent := sent, running := running,
                  nextId := id + 1, orphans := [id], pending := [id] }

/-- the execution has ended -/
def cfgEnd (nextId : Nat) (sent : List Nat) (running : Nat) : Cfg :=
  { sent := sent, running := running, notes := 1, nextId := nextId }

/-- the reachable configurations of a run of `N` Task visits -/
inductive Inv (N : Nat) : Cfg → Prop where
  | run (id m : Nat) (start red rr : Bool) (sent : List Nat) (running : Nat) (p : Phase)
      (hnd : sent.Nodup) (hle : ∀ x ∈ sent, x ≤ id)
      (hin : (p = .fresh → id ∉ sent) ∧ (p ≠ .fresh → id ∈ sent ∧ 1 ≤ m))
      (hlen : sent.length + m = N + (if p = .fresh then 0 else 1)) :
      Inv N (cfgOf id m start red rr sent running p)
  | ended (nextId : Nat) (sent : List Nat) (running : Nat) (hnd : sent.Nodup) (hlen : sent.length = N) :
      Inv N (cfgEnd nextId sent running)

theorem inv_init (N : Nat) : Inv N (init (tasks N)) := by
  have := Inv.run (N := N) 0 N true false false [] 0 .fresh (by simp) (by simp) (by simp) (by simp)
  simpa [cfgOf, init, evm] using this

macro "crash_simp" " at " h:ident : tactic => `(tactic|
  simp [step, cfgOf, cfgEnd, findEv, evm, markEv, markRpL, tasks, Quirks.none, Cfg.handler, Cfg.vol, Cfg.withVol, Cfg.act,
    Cfg.crash, insertNat, rpm, onReply, advance, fuelOf, removeFirst] at $h:ident)

/-- building `Inv` for a configuration given as a literal -/
theorem inv_of_eq {N : Nat} {c d : Cfg} (h : Inv N d) (e : d = c) : Inv N c := e ▸ h

section
variable {N : Nat}

/-- the Task visit of event `id` is over (its reply has been handled): the next visit's event is in the queue, or
the execution has ended -/
theorem inv_next (id m : Nat) (sent : List Nat) (running : Nat)
    (hnd : sent.Nodup) (hle : ∀ x ∈ sent, x ≤ id) (hlen : sent.length + (m + 1) = N + 1) :
    (m = 0 → Inv N (cfgEnd (id + 1) sent running)) ∧
    (m ≠ 0 → Inv N (cfgOf (id + 1) m false false false sent running .fresh)) := by
  constructor
  · intro h; exact Inv.ended _ _ _ hnd (by omega)
  · intro h
    exact Inv.run (id + 1) m false false false sent running .fresh hnd (fun x hx => Nat.le_succ_of_le (hle x hx))
      ⟨fun _ hc => absurd (hle _ hc) (by omega), fun hc => absurd rfl hc⟩ (by simp; omega)

theorem inv_step (c c' : Cfg) (op : Op) (h : Inv N c) (hs : step Quirks.none c op none = some c') : Inv N c' := by
  cases h with
  | ended nextId sent running hnd hlen =>
    cases op <;> crash_simp at hs
    all_goals (subst hs; exact inv_of_eq (Inv.ended nextId sent running hnd hlen) (by simp [cfgEnd]))
  | run id m start red rr sent running p hnd hle hin hlen =>
    cases p with
    | fresh =>
      have hnin := hin.1 rfl
      simp only [if_true] at hlen
      cases op with
      | ev j =>
        by_cases hj : j = id
        · subst hj
          cases m with
          | zero =>
            cases start <;> crash_simp at hs <;> subst hs
            · exact inv_of_eq (Inv.ended (j + 1) sent running hnd (by omega)) (by simp [cfgEnd])
            · exact inv_of_eq (Inv.ended (j + 1) sent (running + 1) hnd (by omega)) (by simp [cfgEnd])
          | succ m =>
            have hnd' : (sent ++ [j]).Nodup := by
              simp [List.nodup_append, hnd]; intro a ha e; exact hnin (e ▸ ha)
            have hle' : ∀ x ∈ sent ++ [j], x ≤ j := by
              intro x hx; simp at hx; rcases hx with h | h
              · exact hle x h
              · omega
            cases start <;> crash_simp at hs <;> subst hs
            · exact inv_of_eq (Inv.run j (m + 1) false false false (sent ++ [j]) running .waiting hnd' hle'
                (by simp) (by simp; omega)) (by simp [cfgOf, evm, rpm, tasks])
            · exact inv_of_eq (Inv.run j (m + 1) true false false (sent ++ [j]) (running + 1) .waiting hnd' hle'
                (by simp) (by simp; omega)) (by simp [cfgOf, evm, rpm, tasks])
        · have hj' : ¬ id = j := fun e => hj e.symm
          simp [step, cfgOf, findEv, evm, hj'] at hs
      | tm j => crash_simp at hs
      | rp j => crash_simp at hs
      | tick =>
        crash_simp at hs; subst hs
        exact inv_of_eq (Inv.run id m start red rr sent running .fresh hnd hle hin (by simpa using hlen))
          (by simp [cfgOf, evm])
      | crash =>
        crash_simp at hs; subst hs
        exact inv_of_eq (Inv.run id m start red rr sent running .fresh hnd hle hin (by simpa using hlen))
          (by simp [cfgOf, evm])
    | waiting =>
      obtain ⟨hmem, hm1⟩ := hin.2 (by simp)
      simp only [reduceCtorEq, if_false] at hlen
      obtain ⟨m, rfl⟩ : ∃ k, m = k + 1 := ⟨m - 1, by omega⟩
      have same : Inv N (cfgOf id (m + 1) start red rr sent running .waiting) :=
        Inv.run id (m + 1) start red rr sent running .waiting hnd hle (by simp [hmem]) (by simp; omega)
      cases op with
      | ev j =>
        by_cases hj : j = id
        · subst hj; crash_simp at hs
        · have hj' : ¬ id = j := fun e => hj e.symm
          simp [step, cfgOf, findEv, evm, hj'] at hs
      | tm j =>
        by_cases hj : j = id
        · subst hj
          crash_simp at hs; subst hs
          exact inv_of_eq same (by simp [cfgOf, evm, rpm, tasks])
        · have hj' : ¬ id = j := fun e => hj e.symm
          simp [step, cfgOf, findEv, evm, hj'] at hs
      | rp j =>
        by_cases hj : j = id
        · subst hj
          have nx := inv_next (N := N) j m sent running hnd hle (by omega)
          cases m with
          | zero =>
            crash_simp at hs; subst hs
            exact inv_of_eq (nx.1 rfl) (by simp [cfgEnd])
          | succ m =>
            crash_simp at hs; subst hs
            exact inv_of_eq (nx.2 (by omega)) (by simp [cfgOf, evm, tasks])
        · have hj' : ¬ id = j := fun e => hj e.symm
          simp [step, cfgOf, rpm, hj'] at hs
      | tick =>
        crash_simp at hs; subst hs
        exact inv_of_eq same (by simp [cfgOf, evm, rpm, tasks])
      | crash =>
        crash_simp at hs; subst hs
        exact inv_of_eq (Inv.run id (m + 1) start true rr sent running .crashed hnd hle (by simp [hmem])
          (by simp; omega)) (by simp [cfgOf, evm, rpm, tasks])
    | crashed =>
      obtain ⟨hmem, hm1⟩ := hin.2 (by simp)
      simp only [reduceCtorEq, if_false] at hlen
      obtain ⟨m, rfl⟩ : ∃ k, m = k + 1 := ⟨m - 1, by omega⟩
      cases op with
      | ev j =>
        by_cases hj : j = id
        · subst hj
          cases start <;> crash_simp at hs <;> subst hs
          · exact inv_of_eq (Inv.run j (m + 1) false true rr sent running .waiting hnd hle (by simp [hmem])
              (by simp; omega)) (by simp [cfgOf, evm, rpm, tasks])
          · exact inv_of_eq (Inv.run j (m + 1) true true rr sent (running + 1) .waiting hnd hle (by simp [hmem])
              (by simp; omega)) (by simp [cfgOf, evm, rpm, tasks])
        · have hj' : ¬ id = j := fun e => hj e.symm
          simp [step, cfgOf, findEv, evm, hj'] at hs
      | tm j => crash_simp at hs
      | rp j =>
        by_cases hj : j = id
        · subst hj
          crash_simp at hs; subst hs
          exact inv_of_eq (Inv.run j (m + 1) start true rr sent running .orphan hnd hle (by simp [hmem])
            (by simp; omega)) (by simp [cfgOf, evm, rpm, tasks])
        · have hj' : ¬ id = j := fun e => hj e.symm
          simp [step, cfgOf, rpm, hj'] at hs
      | tick =>
        crash_simp at hs; subst hs
        exact inv_of_eq (Inv.run id (m + 1) start true rr sent running .crashed hnd hle (by simp [hmem])
          (by simp; omega)) (by simp [cfgOf, evm, rpm, tasks])
      | crash =>
        crash_simp at hs; subst hs
        exact inv_of_eq (Inv.run id (m + 1) start true rr sent running .crashed hnd hle (by simp [hmem])
          (by simp; omega)) (by simp [cfgOf, evm, rpm, tasks])
    | orphan =>
      obtain ⟨hmem, hm1⟩ := hin.2 (by simp)
      simp only [reduceCtorEq, if_false] at hlen
      obtain ⟨m, rfl⟩ : ∃ k, m = k + 1 := ⟨m - 1, by omega⟩
      cases op with
      | ev j =>
        by_cases hj : j = id
        · subst hj
          cases start <;> crash_simp at hs <;> subst hs
          · exact inv_of_eq (Inv.run j (m + 1) false true rr sent running .matched hnd hle (by simp [hmem])
              (by simp; omega)) (by simp [cfgOf, evm, rpm, tasks])
          · exact inv_of_eq (Inv.run j (m + 1) true true rr sent (running + 1) .matched hnd hle (by simp [hmem])
              (by simp; omega)) (by simp [cfgOf, evm, rpm, tasks])
        · have hj' : ¬ id = j := fun e => hj e.symm
          simp [step, cfgOf, findEv, evm, hj'] at hs
      | tm j => crash_simp at hs
      | rp j => crash_simp at hs
      | tick =>
        crash_simp at hs; subst hs
        exact inv_of_eq (Inv.run id (m + 1) start true rr sent running .orphan hnd hle (by simp [hmem])
          (by simp; omega)) (by simp [cfgOf, evm, rpm, tasks])
      | crash =>
        crash_simp at hs; subst hs
        exact inv_of_eq (Inv.run id (m + 1) start true true sent running .crashed hnd hle (by simp [hmem])
          (by simp; omega)) (by simp [cfgOf, evm, rpm, tasks])
    | matched =>
      obtain ⟨hmem, hm1⟩ := hin.2 (by simp)
      simp only [reduceCtorEq, if_false] at hlen
      obtain ⟨m, rfl⟩ : ∃ k, m = k + 1 := ⟨m - 1, by omega⟩
      have same : Inv N (cfgOf id (m + 1) start red rr sent running .matched) :=
        Inv.run id (m + 1) start red rr sent running .matched hnd hle (by simp [hmem]) (by simp; omega)
      cases op with
      | ev j =>
        by_cases hj : j = id
        · subst hj; crash_simp at hs
        · have hj' : ¬ id = j := fun e => hj e.symm
          simp [step, cfgOf, findEv, evm, hj'] at hs
      | tm j =>
        by_cases hj : j = id
        · subst hj
          crash_simp at hs; subst hs
          exact inv_of_eq same (by simp [cfgOf, evm, rpm, tasks])
        · have hj' : ¬ id = j := fun e => hj e.symm
          simp [step, cfgOf, findEv, evm, hj'] at hs
      | rp j => crash_simp at hs
      | tick =>
        have nx := inv_next (N := N) id m sent running hnd hle (by omega)
        cases m with
        | zero =>
          crash_simp at hs; subst hs
          exact inv_of_eq (nx.1 rfl) (by simp [cfgEnd])
        | succ m =>
          crash_simp at hs; subst hs
          exact inv_of_eq (nx.2 (by omega)) (by simp [cfgOf, evm, tasks])
      | crash =>
        crash_simp at hs; subst hs
        exact inv_of_eq (Inv.run id (m + 1) start true true sent running .crashed hnd hle (by simp [hmem])
          (by simp; omega)) (by simp [cfgOf, evm, rpm, tasks])

/-- Task visits still to come -/
def skLen : Sk → Nat
  | .task r => skLen r + 1
  | _ => 0

theorem skLen_tasks (m : Nat) : skLen (tasks m) = m := by
  induction m with
  | zero => rfl
  | succ m ih => simp [tasks, skLen, ih]

/-- what is left to do: three units per Task visit to come, less what the current one has done -/
def mu (c : Cfg) : Nat :=
  match c.evq with
  | [e] => (match e.kind with
    | .visit todo _ _ => 3 * skLen todo + (if e.unacked then 1 else 2)
    | _ => 0)
  | _ => 0

/-- an execution that has not ended can take the next step of the canonical schedule, stays among the reachable
configurations, and has less left to do -/
theorem inv_progress (c : Cfg) (h : Inv N c) :
    (∃ nextId sent running, c = cfgEnd nextId sent running ∧ sent.Nodup ∧ sent.length = N) ∨
    (∃ op c', nextOp c = some op ∧ step Quirks.none c op none = some c' ∧ Inv N c' ∧ mu c' < mu c) := by
  cases h with
  | ended nextId sent running hnd hlen => exact Or.inl ⟨nextId, sent, running, rfl, hnd, hlen⟩
  | run id m start red rr sent running p hnd hle hin hlen =>
    right
    have H := Inv.run (N := N) id m start red rr sent running p hnd hle hin hlen
    have key : ∀ op c', nextOp (cfgOf id m start red rr sent running p) = some op →
        step Quirks.none (cfgOf id m start red rr sent running p) op none = some c' →
        mu c' < mu (cfgOf id m start red rr sent running p) →
        ∃ op c', nextOp (cfgOf id m start red rr sent running p) = some op ∧
          step Quirks.none (cfgOf id m start red rr sent running p) op none = some c' ∧ Inv N c' ∧
          mu c' < mu (cfgOf id m start red rr sent running p) :=
      fun op c' h1 h2 h3 => ⟨op, c', h1, h2, inv_step _ _ _ H h2, h3⟩
    cases p with
    | fresh =>
      cases m with
      | zero =>
        cases start
        · exact key (.ev id) (cfgEnd (id + 1) sent running) (by simp [nextOp, cfgOf, evm])
            (by simp [step, cfgOf, cfgEnd, findEv, evm, markEv, tasks, Quirks.none, Cfg.handler, Cfg.vol, Cfg.withVol, Cfg.act, advance, fuelOf])
            (by simp [mu, cfgOf, cfgEnd, evm, tasks, skLen])
        · exact key (.ev id) (cfgEnd (id + 1) sent (running + 1)) (by simp [nextOp, cfgOf, evm])
            (by simp [step, cfgOf, cfgEnd, findEv, evm, markEv, tasks, Quirks.none, Cfg.handler, Cfg.vol, Cfg.withVol, Cfg.act, advance, fuelOf])
            (by simp [mu, cfgOf, cfgEnd, evm, tasks, skLen])
      | succ m =>
        cases start
        · exact key (.ev id) (cfgOf id (m + 1) false false false (sent ++ [id]) running .waiting)
            (by simp [nextOp, cfgOf, evm])
            (by simp [step, cfgOf, findEv, evm, markEv, tasks, Quirks.none, Cfg.handler, Cfg.vol, Cfg.withVol, Cfg.act, insertNat, rpm])
            (by simp [mu, cfgOf, evm])
        · exact key (.ev id) (cfgOf id (m + 1) true false false (sent ++ [id]) (running + 1) .waiting)
            (by simp [nextOp, cfgOf, evm])
            (by simp [step, cfgOf, findEv, evm, markEv, tasks, Quirks.none, Cfg.handler, Cfg.vol, Cfg.withVol, Cfg.act, insertNat, rpm])
            (by simp [mu, cfgOf, evm])
    | waiting =>
      obtain ⟨hmem, hm1⟩ := hin.2 (by simp)
      obtain ⟨m, rfl⟩ : ∃ k, m = k + 1 := ⟨m - 1, by omega⟩
      cases m with
      | zero =>
        exact key (.rp id) (cfgEnd (id + 1) sent running) (by simp [nextOp, cfgOf, evm, rpm])
          (by simp [step, cfgOf, cfgEnd, findEv, evm, markRpL, tasks, Quirks.none, Cfg.handler, Cfg.vol, Cfg.withVol, Cfg.act, rpm, onReply, advance, fuelOf, removeFirst])
          (by simp [mu, cfgOf, cfgEnd, evm, tasks, skLen])
      | succ m =>
        exact key (.rp id) (cfgOf (id + 1) (m + 1) false false false sent running .fresh) (by simp [nextOp, cfgOf, evm, rpm])
          (by simp [step, cfgOf, findEv, evm, markRpL, tasks, Quirks.none, Cfg.handler, Cfg.vol, Cfg.withVol, Cfg.act, rpm, onReply, advance, fuelOf, removeFirst])
          (by simp [mu, cfgOf, evm, tasks, skLen, skLen_tasks]; omega)
    | crashed =>
      obtain ⟨hmem, hm1⟩ := hin.2 (by simp)
      obtain ⟨m, rfl⟩ : ∃ k, m = k + 1 := ⟨m - 1, by omega⟩
      cases start
      · exact key (.ev id) (cfgOf id (m + 1) false true rr sent running .waiting) (by simp [nextOp, cfgOf, evm])
          (by simp [step, cfgOf, findEv, evm, markEv, tasks, Quirks.none, Cfg.handler, Cfg.vol, Cfg.withVol, Cfg.act, insertNat, rpm])
          (by simp [mu, cfgOf, evm])
      · exact key (.ev id) (cfgOf id (m + 1) true true rr sent (running + 1) .waiting) (by simp [nextOp, cfgOf, evm])
          (by simp [step, cfgOf, findEv, evm, markEv, tasks, Quirks.none, Cfg.handler, Cfg.vol, Cfg.withVol, Cfg.act, insertNat, rpm])
          (by simp [mu, cfgOf, evm])
    | orphan =>
      obtain ⟨hmem, hm1⟩ := hin.2 (by simp)
      obtain ⟨m, rfl⟩ : ∃ k, m = k + 1 := ⟨m - 1, by omega⟩
      cases start
      · exact key (.ev id) (cfgOf id (m + 1) false true rr sent running .matched) (by simp [nextOp, cfgOf, evm])
          (by simp [step, cfgOf, findEv, evm, markEv, tasks, Quirks.none, Cfg.handler, Cfg.vol, Cfg.withVol, Cfg.act, insertNat, rpm])
          (by simp [mu, cfgOf, evm])
      · exact key (.ev id) (cfgOf id (m + 1) true true rr sent (running + 1) .matched) (by simp [nextOp, cfgOf, evm])
          (by simp [step, cfgOf, findEv, evm, markEv, tasks, Quirks.none, Cfg.handler, Cfg.vol, Cfg.withVol, Cfg.act, insertNat, rpm])
          (by simp [mu, cfgOf, evm])
    | matched =>
      obtain ⟨hmem, hm1⟩ := hin.2 (by simp)
      obtain ⟨m, rfl⟩ : ∃ k, m = k + 1 := ⟨m - 1, by omega⟩
      cases m with
      | zero =>
        exact key .tick (cfgEnd (id + 1) sent running) (by simp [nextOp, cfgOf, evm, rpm])
          (by simp [step, cfgOf, cfgEnd, findEv, evm, tasks, Quirks.none, Cfg.handler, Cfg.vol, Cfg.withVol, Cfg.act, rpm, onReply, advance, fuelOf, removeFirst])
          (by simp [mu, cfgOf, cfgEnd, evm, tasks, skLen])
      | succ m =>
        exact key .tick (cfgOf (id + 1) (m + 1) false false false sent running .fresh) (by simp [nextOp, cfgOf, evm, rpm])
          (by simp [step, cfgOf, findEv, evm, tasks, Quirks.none, Cfg.handler, Cfg.vol, Cfg.withVol, Cfg.act, rpm, onReply, advance, fuelOf, removeFirst])
          (by simp [mu, cfgOf, evm, tasks, skLen, skLen_tasks]; omega)

/-- from any reachable configuration the crash-free canonical run ends the execution: one terminal
notification, every one of the `N` requests sent exactly once, nothing left in the queues or in the engine -/
theorem drain_ends (fuel : Nat) (c : Cfg) (h : Inv N c) (hf : mu c ≤ fuel) :
    ∃ nextId sent running, drain Quirks.none fuel c = cfgEnd nextId sent running ∧ sent.Nodup ∧ sent.length = N := by
  induction fuel generalizing c with
  | zero =>
    rcases inv_progress c h with ⟨nextId, sent, running, rfl, hnd, hlen⟩ | ⟨op, c', _, _, _, hlt⟩
    · exact ⟨nextId, sent, running, rfl, hnd, hlen⟩
    · omega
  | succ fuel ih =>
    rcases inv_progress c h with ⟨nextId, sent, running, rfl, hnd, hlen⟩ | ⟨op, c', hn, hs, hi, hlt⟩
    · exact ⟨nextId, sent, running, by simp [drain, nextOp, cfgEnd], hnd, hlen⟩
    · simp only [drain, hn, hs]
      exact ih c' hi (by omega)

/-- every executable schedule — crashes between handler invocations anywhere, any number of them — keeps the
configuration reachable -/
theorem inv_run (c c' : Cfg) (ops : List Op) (h : Inv N c)
    (hr : run Quirks.none c (ops.map (fun o => (o, none))) = some c') : Inv N c' := by
  induction ops generalizing c with
  | nil => simp [run] at hr; exact hr ▸ h
  | cons op rest ih =>
    simp only [List.map_cons, run] at hr
    split at hr
    · rename_i c1 h1
      exact ih c1 (inv_step c c1 op h h1) hr
    · cases hr
end

end Asl.Crash
