/- helper lemmas for C19's routing model: the affinity invariant is preserved by every step -/
import AslModel.AmqpRoute
namespace Asl.AmqpRoute

/-- the invariant: queued later events sit in the queue of the instance that consumed their execution's
start event, and an instance holds continuations only of executions it started -/
def Inv (s : Net) : Prop :=
  (∀ q e, (q, e) ∈ s.later → ∃ j, q = .inst j ∧ s.st e = .owned j) ∧
  (∀ i e, (i, e) ∈ s.holds → s.st e = .owned i)

theorem lookup_cons_ne {ex : List (Nat × ExecSt)} {k e : Nat} {v : ExecSt} (h : k ≠ e) :
    lookup ((k, v) :: ex) e = lookup ex e := by
  simp [lookup, h]

theorem lookup_cons_eq {ex : List (Nat × ExecSt)} {k : Nat} {v : ExecSt} :
    lookup ((k, v) :: ex) k = v := by
  simp [lookup]

/-- binding an execution that is not owned leaves every owned execution as it was -/
theorem st_bind_owned {s : Net} {k e i : Nat} {v : ExecSt} (hk : ∀ j, s.st k ≠ .owned j)
    (he : s.st e = .owned i) : lookup ((k, v) :: s.ex) e = .owned i := by
  have hne : k ≠ e := by
    intro h; subst h; exact hk i he
  rw [lookup_cons_ne hne]; exact he

theorem inv_bind {s : Net} {k : Nat} {v : ExecSt} (hk : ∀ j, s.st k ≠ .owned j) (h : Inv s) :
    Inv { s with ex := (k, v) :: s.ex } := by
  refine ⟨?_, ?_⟩
  · intro q e hq
    obtain ⟨j, hj, hs⟩ := h.1 q e hq
    exact ⟨j, hj, st_bind_owned hk hs⟩
  · intro i e hi
    exact st_bind_owned hk (h.2 i e hi)

theorem pub_inv {i : Nat} {s s' : Net} {o : Out} (h : Inv s) (hp : pub i s o = some s') : Inv s' := by
  cases o with
  | later e =>
    simp only [pub] at hp
    split at hp
    · rename_i hh
      cases hp
      refine ⟨?_, h.2⟩
      intro q e' hq
      simp only [List.mem_append, List.mem_singleton] at hq
      rcases hq with hq | hq
      · exact h.1 q e' hq
      · cases hq
        exact ⟨i, by simp [route], h.2 i e hh⟩
    · cases hp
  | childSync c =>
    simp only [pub] at hp
    split at hp
    · rename_i hu
      cases hp
      exact inv_bind (by intro j hj; rw [hu] at hj; cases hj) h
    · cases hp
  | childAsync c =>
    simp only [pub] at hp
    split at hp
    · rename_i hu
      cases hp
      exact inv_bind (by intro j hj; rw [hu] at hj; cases hj) h
    · cases hp

theorem pubs_inv {i : Nat} : ∀ {os : List Out} {s s' : Net}, Inv s → pubs i s os = some s' → Inv s'
  | [], s, s', h, hp => by simp only [pubs] at hp; cases hp; exact h
  | o :: os, s, s', h, hp => by
    simp only [pubs] at hp
    split at hp
    · rename_i s1 h1
      exact pubs_inv (pub_inv h h1) hp
    · cases hp

theorem mem_removeOne {x y : QName × Nat} : ∀ {l : List (QName × Nat)}, y ∈ removeOne x l → y ∈ l
  | [], h => by simp [removeOne] at h
  | z :: zs, h => by
    simp only [removeOne] at h
    split at h
    · exact List.mem_cons_of_mem _ h
    · rcases List.mem_cons.mp h with h | h
      · rw [h]; exact List.mem_cons_self
      · exact List.mem_cons_of_mem _ (mem_removeOne h)

theorem step_inv {s s' : Net} {a : Act} (h : Inv s) (hs : step s a = some s') : Inv s' := by
  cases a with
  | submit via e =>
    simp only [step] at hs
    split at hs
    · rename_i hu
      cases hs
      exact inv_bind (by intro j hj; rw [hu] at hj; cases hj) h
    · cases hs
  | deliverStart e i outs =>
    simp only [step] at hs
    split at hs
    · rename_i q hq
      split at hs
      · refine pubs_inv ?_ hs
        have hk : ∀ j, s.st e ≠ .owned j := by intro j hj; rw [hq] at hj; cases hj
        refine ⟨?_, ?_⟩
        · intro q' e' hq'
          obtain ⟨j, hj, hst⟩ := h.1 q' e' hq'
          exact ⟨j, hj, st_bind_owned hk hst⟩
        · intro i' e' hi'
          rcases List.mem_cons.mp hi' with hi' | hi'
          · cases hi'
            exact lookup_cons_eq
          · exact st_bind_owned hk (h.2 i' e' hi')
      · cases hs
    · cases hs
  | deliverLater q e i outs =>
    simp only [step] at hs
    split at hs
    · rename_i hc
      refine pubs_inv ?_ hs
      obtain ⟨j, hj, hst⟩ := h.1 q e hc.1
      have hij : i = j := by
        have := hc.2; rw [hj] at this; exact this
      refine ⟨?_, ?_⟩
      · intro q' e' hq'
        exact h.1 q' e' (mem_removeOne hq')
      · intro i' e' hi'
        rcases List.mem_cons.mp hi' with hi' | hi'
        · cases hi'
          rw [hij]; exact hst
        · exact h.2 i' e' hi'
    · cases hs
  | spontaneous i outs =>
    simp only [step] at hs
    exact pubs_inv h hs

theorem inv_init : Inv {} := by
  refine ⟨?_, ?_⟩ <;> intro a b hab <;> simp at hab

theorem run_inv : ∀ {acts : List Act} {s s' : Net}, Inv s → run s acts = some s' → Inv s'
  | [], s, s', h, hr => by simp only [run] at hr; cases hr; exact h
  | a :: as, s, s', h, hr => by
    simp only [run] at hr
    split at hr
    · rename_i s1 h1
      exact run_inv (step_inv h h1) hr
    · cases hr

theorem reachable_inv {s : Net} (h : Reachable s) : Inv s := by
  obtain ⟨acts, ha⟩ := h
  exact run_inv inv_init ha

/-! ownership is assigned once, by the delivery of the start event, and never changes -/

theorem pub_owned {i : Nat} {s s' : Net} {o : Out} (hp : pub i s o = some s') (e j : Nat) :
    (s.st e = .owned j → s'.st e = .owned j) ∧ (s'.st e = .owned j → s.st e = .owned j) := by
  cases o with
  | later e' =>
    simp only [pub] at hp
    split at hp
    · cases hp; exact ⟨id, id⟩
    · cases hp
  | childSync c =>
    simp only [pub] at hp
    split at hp
    · rename_i hu
      cases hp
      refine ⟨fun he => st_bind_owned (by intro j hj; rw [hu] at hj; cases hj) he, ?_⟩
      intro he
      by_cases hce : c = e
      · subst hce; simp [Net.st, lookup] at he
      · simpa [Net.st, lookup, hce] using he
    · cases hp
  | childAsync c =>
    simp only [pub] at hp
    split at hp
    · rename_i hu
      cases hp
      refine ⟨fun he => st_bind_owned (by intro j hj; rw [hu] at hj; cases hj) he, ?_⟩
      intro he
      by_cases hce : c = e
      · subst hce; simp [Net.st, lookup] at he
      · simpa [Net.st, lookup, hce] using he
    · cases hp

theorem pubs_owned {i : Nat} : ∀ {os : List Out} {s s' : Net}, pubs i s os = some s' → ∀ e j,
    (s.st e = .owned j → s'.st e = .owned j) ∧ (s'.st e = .owned j → s.st e = .owned j)
  | [], s, s', hp, e, j => by simp only [pubs] at hp; cases hp; exact ⟨id, id⟩
  | o :: os, s, s', hp, e, j => by
    simp only [pubs] at hp
    split at hp
    · rename_i s1 h1
      have a := pub_owned h1 e j
      have b := pubs_owned hp e j
      exact ⟨fun h => b.1 (a.1 h), fun h => a.2 (b.2 h)⟩
    · cases hp

end Asl.AmqpRoute
