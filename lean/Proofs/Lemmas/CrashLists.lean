/-
List facts used by the fan-out part of the crash protocol proofs: a duplicate-free list of numbers below `n` that is at
least `n` long contains them all; acknowledging a list of events / replies is a filter; a batch of publications.
-/
import Proofs.Lemmas.CrashInv
namespace Asl.Crash

theorem nodup_lt_length_le (n : Nat) : ∀ (l : List Nat), l.Nodup → (∀ x ∈ l, x < n) → l.length ≤ n := by
  induction n with
  | zero =>
    intro l _ h
    cases l with
    | nil => simp
    | cons x xs => exact absurd (h x (by simp)) (Nat.not_lt_zero _)
  | succ n ih =>
    intro l hnd h
    have h1 : (l.erase n).Nodup := hnd.erase n
    have h2 : ∀ x ∈ l.erase n, x < n := by
      intro x hx
      have := (List.Nodup.mem_erase_iff hnd).mp hx
      have := h x this.2
      omega
    have h3 := ih (l.erase n) h1 h2
    by_cases hn : n ∈ l
    · have := List.length_erase_of_mem hn
      have hpos : 0 < l.length := List.length_pos_of_mem hn
      omega
    · rw [List.erase_of_not_mem hn] at h3; omega

theorem nodup_lt_full (n : Nat) : ∀ (l : List Nat), l.Nodup → (∀ x ∈ l, x < n) → n ≤ l.length → ∀ i, i < n → i ∈ l := by
  induction n with
  | zero => intro l _ _ _ i hi; exact absurd hi (Nat.not_lt_zero _)
  | succ n ih =>
    intro l hnd h hlen i hi
    have h1 : (l.erase n).Nodup := hnd.erase n
    have h2 : ∀ x ∈ l.erase n, x < n := by
      intro x hx
      have := (List.Nodup.mem_erase_iff hnd).mp hx
      have := h x this.2
      omega
    by_cases hn : n ∈ l
    · have hl := List.length_erase_of_mem hn
      have hpos : 0 < l.length := List.length_pos_of_mem hn
      by_cases hin : i = n
      · subst hin; exact hn
      · have := ih (l.erase n) h1 h2 (by omega) i (by omega)
        exact ((List.Nodup.mem_erase_iff hnd).mp this).2
    · rw [List.erase_of_not_mem hn] at h2
      have := nodup_lt_length_le n l hnd h2
      omega

theorem length_ge_of_full (n : Nat) : ∀ (l : List Nat), (∀ i, i < n → i ∈ l) → n ≤ l.length := by
  induction n with
  | zero => intro l _; exact Nat.zero_le _
  | succ n ih =>
    intro l h
    have hn : n ∈ l := h n (Nat.lt_succ_self n)
    have h2 : ∀ i, i < n → i ∈ l.erase n := by
      intro i hi
      exact (List.mem_erase_of_ne (by omega)).mpr (h i (by omega))
    have := ih (l.erase n) h2
    have hl := List.length_erase_of_mem hn
    have hpos : 0 < l.length := List.length_pos_of_mem hn
    omega

theorem filter_all_true {α : Type} (l : List α) : l.filter (fun _ => true) = l := by
  rw [List.filter_eq_self]; intros; rfl

/-! ### sums -/

theorem sum_indicator {α : Type} (l : List α) (g : α → Nat) (b : α → Bool) (h : ∀ p ∈ l, g p = if b p then 1 else 0) :
    (l.map g).sum = (l.filter b).length := by
  induction l with
  | nil => rfl
  | cons x xs ih =>
    simp only [List.map_cons, List.sum_cons, List.filter_cons]
    rw [ih (fun p hp => h p (by simp [hp])), h x (by simp)]
    by_cases hb : b x = true <;> simp [hb]; omega

/-- all elements that satisfy `b` carry `T`, the others nothing, and exactly one element satisfies `b` -/
theorem sum_single {α : Type} (l : List α) (g : α → Nat) (b : α → Bool) (T : Nat)
    (hg : ∀ p ∈ l, g p = if b p then T else 0) (hnd : l.Nodup) (huniq : ∀ p ∈ l, ∀ q ∈ l, b p = true → b q = true → p = q)
    (hex : ∃ p ∈ l, b p = true) : (l.map g).sum = T := by
  induction l with
  | nil => obtain ⟨p, hp, _⟩ := hex; cases hp
  | cons x xs ih =>
    simp only [List.map_cons, List.sum_cons]
    rw [hg x (by simp)]
    simp only [List.nodup_cons] at hnd
    by_cases hb : b x = true
    · -- the others carry nothing
      have hz : (xs.map g).sum = 0 := by
        have : ∀ p ∈ xs, g p = 0 := by
          intro p hp
          rw [hg p (by simp [hp])]
          have hbp : b p ≠ true := by
            intro hbp
            have := huniq x (by simp) p (by simp [hp]) hb hbp
            exact hnd.1 (this ▸ hp)
          simp [hbp]
        clear ih hg huniq hex hnd
        induction xs with
        | nil => rfl
        | cons y ys ih2 =>
          simp only [List.map_cons, List.sum_cons]
          rw [this y (by simp), ih2 (fun p hp => this p (by simp [hp]))]
      simp [hb, hz]
    · have hex' : ∃ p ∈ xs, b p = true := by
        obtain ⟨p, hp, hbp⟩ := hex
        rcases List.mem_cons.mp hp with rfl | hp
        · exact absurd hbp hb
        · exact ⟨p, hp, hbp⟩
      rw [ih (fun p hp => hg p (by simp [hp])) hnd.2 (fun p hp q hq => huniq p (by simp [hp]) q (by simp [hq])) hex']
      simp [hb]

theorem sum_map_add {α : Type} (l : List α) (g h : α → Nat) :
    (l.map (fun p => g p + h p)).sum = (l.map g).sum + (l.map h).sum := by
  induction l with
  | nil => rfl
  | cons x xs ih => simp only [List.map_cons, List.sum_cons, ih]; omega

theorem sum_ge_of_mem {α : Type} (l : List α) (g : α → Nat) {x : α} (hx : x ∈ l) : g x ≤ (l.map g).sum := by
  induction l with
  | nil => cases hx
  | cons y ys ih =>
    simp only [List.map_cons, List.sum_cons]
    rcases List.mem_cons.mp hx with rfl | hx
    · omega
    · have := ih hx; omega

/-! ### acknowledging lists of messages -/

theorem foldl_ackEv (ids : List Nat) (c : Cfg) :
    (ids.map Act.ackEv).foldl Cfg.act c = { c with evq := c.evq.filter (fun e => !(ids.contains e.id && e.unacked)) } := by
  induction ids generalizing c with
  | nil => simp [filter_all_true]
  | cons x xs ih =>
    simp only [List.map_cons, List.foldl_cons]
    rw [ih]
    simp only [Cfg.act, List.filter_filter]
    congr 1
    apply List.filter_congr
    intro e _
    by_cases h1 : e.id = x <;> by_cases h2 : e.unacked = true <;> simp [h1, h2]

theorem removeFirst_eq_filter {p : QRp → Bool} {l : List QRp}
    (h : ∀ a ∈ l, ∀ b ∈ l, p a = true → p b = true → a.corr = b.corr) (hnd : (l.map (·.corr)).Nodup) :
    removeFirst p l = l.filter (fun r => !p r) := by
  induction l with
  | nil => rfl
  | cons x xs ih =>
    simp only [List.map_cons, List.nodup_cons] at hnd
    simp only [removeFirst, List.filter_cons]
    by_cases hx : p x = true
    · simp only [hx, if_true, Bool.not_true, Bool.false_eq_true, if_false]
      symm
      rw [List.filter_eq_self]
      intro a ha
      by_cases hpa : p a = true
      · have := h x (by simp) a (by simp [ha]) hx hpa
        exact absurd (this ▸ List.mem_map.mpr ⟨a, ha, rfl⟩) hnd.1
      · simp [hpa]
    · simp only [hx, Bool.false_eq_true, if_false, Bool.not_false, if_true]
      rw [ih (fun a ha b hb => h a (by simp [ha]) b (by simp [hb])) hnd.2]

theorem foldl_ackRp (xs : List Nat) (c : Cfg) (hnd : (c.rpq.map (·.corr)).Nodup) :
    (xs.map Act.ackRp).foldl Cfg.act c = { c with rpq := c.rpq.filter (fun r => !(xs.contains r.corr && r.unacked)) } := by
  induction xs generalizing c with
  | nil => simp [filter_all_true]
  | cons x xs ih =>
    simp only [List.map_cons, List.foldl_cons]
    have h1 : (c.act (.ackRp x)).rpq = c.rpq.filter (fun r => !(r.corr == x && r.unacked)) := by
      simp only [Cfg.act]
      apply removeFirst_eq_filter _ hnd
      intro a _ b _ ha hb
      simp only [Bool.and_eq_true, beq_iff_eq] at ha hb
      rw [ha.1, hb.1]
    have hnd' : ((c.act (.ackRp x)).rpq.map (·.corr)).Nodup := by
      rw [h1]; exact List.Nodup.sublist (List.filter_sublist.map _) hnd
    rw [ih _ hnd', h1]
    simp only [Cfg.act, List.filter_filter]
    congr 1
    apply List.filter_congr
    intro e _
    by_cases h1 : e.corr = x <;> by_cases h2 : e.unacked = true <;> simp [h1, h2]

/-! ### publishing a list of events -/

theorem foldl_pubEv (ks : List EvKind) (c : Cfg) :
    (ks.map Act.pubEv).foldl Cfg.act c =
      { c with evq := c.evq ++ ks.zipIdx.map (fun p => ({ id := c.nextId + p.2, kind := p.1 } : QEv)),
               nextId := c.nextId + ks.length, batches := c.batches ++ ks.flatMap batchKey } := by
  induction ks generalizing c with
  | nil => simp
  | cons k ks ih =>
    simp only [List.map_cons, List.foldl_cons]
    rw [ih]
    simp only [Cfg.act, List.zipIdx_cons, List.map_cons, List.length_cons, List.flatMap_cons, List.append_assoc]
    congr 1
    · congr 1
      simp only [List.cons_append, List.nil_append, Nat.add_zero, List.cons.injEq, true_and]
      rw [List.zipIdx_succ]  
      simp [List.map_map, Function.comp_def]
      intro a b _; omega
    · omega

end Asl.Crash
