/-
Flat skeletons, continued: the configuration *inside* a handler that completes a visit — the event (and the reply
that completes a Task visit) is taken in hand: unacknowledged and no longer registered anywhere (`VolH`, `Mid`) — and how
the handlers get there (`mid_ev`, `mid_tm`, `mid_rp`, `mid_tick`).
-/
import Proofs.Lemmas.CrashFlat
namespace Asl.Crash

/-- `VolI` with a hole: the event `hev` / the reply `hrp` in hand are unacknowledged and registered nowhere -/
structure VolH (c : Cfg) (hev : Option Nat) (hrp : Option Nat) : Prop where
  tnd : c.timers.Nodup
  pnd : c.pending.Nodup
  ond : c.orphans.Nodup
  t_sub : ∀ t ∈ c.timers, t ∈ uEv c.evq
  p_sub : ∀ p ∈ c.pending, p ∈ uEv c.evq ∧ p ∈ c.sent
  o_sub : ∀ o ∈ c.orphans, o ∈ uRp c.rpq
  he_sub : ∀ x ∈ heldE c.joins, x ∈ uEv c.evq
  hr_sub : ∀ x ∈ heldR c.joins, x ∈ uRp c.rpq
  u_ev : ∀ x ∈ uEv c.evq, hev = some x ∨ x ∈ c.timers ∨ x ∈ c.pending ∨ x ∈ heldE c.joins
  u_rp : ∀ x ∈ uRp c.rpq, hrp = some x ∨ x ∈ c.orphans ∨ x ∈ heldR c.joins
  t_kind : ∀ e ∈ c.evq, e.id ∈ c.timers → timerKind e.kind = true
  p_kind : ∀ e ∈ c.evq, e.id ∈ c.pending → isTaskKind e.kind = true
  tp : ∀ t ∈ c.timers, t ∉ c.pending
  free_ev : ∀ x, hev = some x → x ∉ c.timers ∧ x ∉ c.pending ∧ x ∉ heldE c.joins
  free_rp : ∀ x, hrp = some x → x ∉ c.orphans ∧ x ∉ heldR c.joins

theorem VolI.toH {c : Cfg} (h : VolI c) : VolH c none none := by
  obtain ⟨tnd, pnd, ond, t_sub, p_sub, o_sub, he_sub, hr_sub, u_ev, u_rp, t_kind, p_kind, tp⟩ := h
  exact ⟨tnd, pnd, ond, t_sub, p_sub, o_sub, he_sub, hr_sub, fun x hx => Or.inr (u_ev x hx), fun x hx => Or.inr (u_rp x hx),
    t_kind, p_kind, tp, fun _ h => (by cases h), fun _ h => (by cases h)⟩

theorem VolH.toI {c : Cfg} (h : VolH c none none) : VolI c := by
  obtain ⟨tnd, pnd, ond, t_sub, p_sub, o_sub, he_sub, hr_sub, u_ev, u_rp, t_kind, p_kind, tp, _, _⟩ := h
  refine ⟨tnd, pnd, ond, t_sub, p_sub, o_sub, he_sub, hr_sub, ?_, ?_, t_kind, p_kind, tp⟩
  · intro x hx; rcases u_ev x hx with h | h
    · cases h
    · exact h
  · intro x hx; rcases u_rp x hx with h | h
    · cases h
    · exact h

/-- inside a handler that completes the visit of event `mid` (with the reply `rp`) -/
structure Mid (N : Nat) (d : Cfg) (mid : Nat) (rp : Option Nat) : Prop where
  dur : Dur FlatK d
  vol : VolH d (some mid) rp
  shape : Shape d
  join : JInv d
  cons : Cons2 N d
  inhand : mid ∈ uEv d.evq
  rpok : ∀ r, rp = some r → r = mid ∧ r ∈ uRp d.rpq ∧ mid ∈ d.sent
  norp : rp = none → mid ∉ d.sent


theorem JInv.congr {c d : Cfg} (h : JInv c) (h1 : evK d = evK c) (h2 : d.joins = c.joins) (h3 : d.sent = c.sent)
    (ht : ∀ x ∈ heldE c.joins, x ∉ d.timers ∧ x ∉ d.pending) (ho : ∀ x ∈ heldR c.joins, x ∉ d.orphans) : JInv d := by
  constructor
  · rw [h2]; exact h.one
  · rw [h2]; exact h.alive
  · rw [h1, h2]; exact h.mine
  · rw [h2]; exact h.fnd
  · rw [h2]; exact h.fheld
  · rw [h1, h2, h3]; exact h.held
  · rw [h2, h3]; exact h.heldsent
  · rw [h2]; exact h.rpheld
  · rw [h2]; exact ht
  · rw [h2]; exact ho
  · rw [h1, h2]; exact h.jne
  · rw [h2]; exact h.live

theorem mem_heldE {js : List Join} {j : Join} {q : Nat × Nat} (hj : j ∈ js) (hq : q ∈ j.heldEv) : q.2 ∈ heldE js := by
  simp only [heldE, List.mem_flatMap]
  exact ⟨j, hj, List.mem_map.mpr ⟨q, hq, rfl⟩⟩

/-- one event of the queue (not a held one) is replaced by another with the same Branch stack -/
theorem JInv.replace {c d : Cfg} (h : JInv c) {x y : Nat × EvKind} (hx : x ∈ evK c)
    (hmem : ∀ p, p ∈ evK d ↔ (p ∈ evK c ∧ p ≠ x) ∨ p = y) (hstk : evStack y.2 = evStack x.2)
    (hj : d.joins = c.joins) (hs : d.sent = c.sent) (hxh : x.1 ∉ heldE c.joins)
    (ht : ∀ z ∈ heldE c.joins, z ∉ d.timers ∧ z ∉ d.pending) (ho : ∀ z ∈ heldR c.joins, z ∉ d.orphans) : JInv d := by
  constructor
  · rw [hj]; exact h.one
  · rw [hj]; exact h.alive
  · rw [hj]; intro j hjm p hp f hf
    rcases (hmem p).mp hp with ⟨hpc, _⟩ | rfl
    · exact h.mine j hjm p hpc f hf
    · exact h.mine j hjm x hx f (hstk ▸ hf)
  · rw [hj]; exact h.fnd
  · rw [hj]; exact h.fheld
  · rw [hj]; intro j hjm q hq
    obtain ⟨hq1, p, hp, hp1, hp2, hp3, hp4⟩ := h.held j hjm q hq
    refine ⟨hq1, p, (hmem p).mpr (Or.inl ⟨hp, ?_⟩), hp1, hp2, hp3, hs ▸ hp4⟩
    intro hpx
    apply hxh
    rw [← hpx, hp1]
    exact mem_heldE hjm hq
  · rw [hj, hs]; exact h.heldsent
  · rw [hj]; exact h.rpheld
  · rw [hj]; exact ht
  · rw [hj]; exact ho
  · intro h0
    have := (hmem y).mpr (Or.inr rfl)
    rw [h0] at this; cases this
  · rw [hj]; exact h.live

theorem evK_split (l1 l2 : List QEv) (m : QEv) :
    (l1 ++ m :: l2).map (fun e => (e.id, e.kind)) = l1.map (fun e => (e.id, e.kind)) ++ (m.id, m.kind) :: l2.map (fun e => (e.id, e.kind)) := by
  simp

macro "volh_grind" : tactic => `(tactic|
  (constructor <;> simp only [Cfg.withVol, Cfg.vol, List.foldl] <;>
    simp only [uEv_append, uEv_cons, uEv_nil, uRp_append, uRp_cons, uRp_nil, mem_insertNat, List.mem_append, List.mem_cons,
      List.mem_singleton, List.not_mem_nil, or_false, false_or, Option.some.injEq, reduceCtorEq, false_implies,
      implies_true] at * <;>
    grind [timerKind, isTaskKind]))

/-- an event that is handled in one go is delivered: it is in hand -/
theorem mid_ev {N : Nat} {c : Cfg} (h : PInv N c) {l1 l2 : List QEv} {m m' : QEv} (he : c.evq = l1 ++ m :: l2)
    (h1 : ∀ e ∈ l1, e.id ≠ m.id) (h2 : ∀ e ∈ l2, e.id ≠ m.id) (hu : m.unacked = false)
    (hid' : m'.id = m.id) (hk' : m'.kind = m.kind) (hu' : m'.unacked = true) (hnt : isTaskKind m.kind = false) (run : Nat) :
    Mid N { c with evq := l1 ++ m' :: l2, running := run } m.id none ∧
      mu2 { c with evq := l1 ++ m' :: l2, running := run } < mu2 c := by
  have hm : m ∈ c.evq := by rw [he]; simp
  have hevk : evK { c with evq := l1 ++ m' :: l2, running := run } = evK c := by
    simp only [evK, he, List.map_append, List.map_cons, hid', hk']
  have hns : m.id ∉ c.sent := by
    intro hh
    have := (h.dur.reply _ (mem_evK hm) hh).1
    rw [hnt] at this; cases this
  have hn1 : m.id ∉ uEv l1 := mem_uEv_ne h1
  have hn2 : m.id ∉ uEv l2 := mem_uEv_ne h2
  obtain ⟨tnd, pnd, ond, t_sub, p_sub, o_sub, he_sub, hr_sub, u_ev, u_rp, t_kind, p_kind, tp⟩ := h.vol
  have hht := h.join.ht
  rw [he] at t_sub p_sub he_sub u_ev t_kind p_kind
  refine ⟨⟨h.dur.congr hevk rfl rfl rfl rfl rfl, ?_, h.shape.congr hevk (fun x => x) rfl,
    h.join.congr hevk rfl rfl h.join.ht h.join.hro, h.cons.congr hevk rfl rfl rfl, ?_, fun _ hh => (by cases hh), fun _ => hns⟩, ?_⟩
  · volh_grind
  · simp [uEv_cons, hu', hid']
  · simp only [mu2, evW, he, List.map_append, List.map_cons, List.sum_append, List.sum_cons, hu, hu', hk', hid',
      Bool.false_eq_true, if_true, if_false]
    omega


/-- the deferred handler of a Wait (or of an empty fan-out) runs: its event is in hand -/
theorem mid_tm {N : Nat} {c : Cfg} (h : PInv N c) {l1 l2 : List QEv} {m : QEv} (he : c.evq = l1 ++ m :: l2)
    (h1 : ∀ e ∈ l1, e.id ≠ m.id) (h2 : ∀ e ∈ l2, e.id ≠ m.id) (hu : m.unacked = true)
    (hc : m.id ∈ c.timers) (hnt : isTaskKind m.kind = false) :
    Mid N { c with timers := c.timers.erase m.id } m.id none ∧
      mu2 { c with timers := c.timers.erase m.id } < mu2 c := by
  have hm : m ∈ c.evq := by rw [he]; simp
  have hns : m.id ∉ c.sent := by
    intro hh
    have := (h.dur.reply _ (mem_evK hm) hh).1
    rw [hnt] at this; cases this
  have hn1 : m.id ∉ uEv l1 := mem_uEv_ne h1
  have hn2 : m.id ∉ uEv l2 := mem_uEv_ne h2
  obtain ⟨tnd, pnd, ond, t_sub, p_sub, o_sub, he_sub, hr_sub, u_ev, u_rp, t_kind, p_kind, tp⟩ := h.vol
  have hht := h.join.ht
  have hte : ∀ a, a ∈ c.timers.erase m.id ↔ a ≠ m.id ∧ a ∈ c.timers := fun a => List.Nodup.mem_erase_iff tnd
  have hnde := tnd.erase m.id
  have hlen := length_erase_mem hc
  refine ⟨⟨h.dur.congr rfl rfl rfl rfl rfl rfl, ?_, h.shape.congr rfl (fun x => x) rfl,
    h.join.congr rfl rfl rfl (fun x hx => ⟨fun hh => (hht x hx).1 ((hte x).mp hh).2, (hht x hx).2⟩) h.join.hro,
    h.cons.congr rfl rfl rfl rfl, ?_, fun _ hh => (by cases hh), fun _ => hns⟩, ?_⟩
  · constructor <;>
      simp only [Option.some.injEq, reduceCtorEq, false_implies, implies_true] at * <;>
      grind [timerKind, isTaskKind]
  · show m.id ∈ uEv c.evq
    rw [he]; simp [uEv_cons, hu]
  · simp only [mu2]
    omega

/-- a reply is delivered to the Task that waits for it: event and reply are in hand -/
theorem mid_rp {N : Nat} {c : Cfg} (h : PInv N c) {l1 l2 : List QEv} {m : QEv} (he : c.evq = l1 ++ m :: l2)
    (h1 : ∀ e ∈ l1, e.id ≠ m.id) (h2 : ∀ e ∈ l2, e.id ≠ m.id) (hu : m.unacked = true) (hp : m.id ∈ c.pending)
    {k1 k2 : List QRp} {r r' : QRp} (hr : c.rpq = k1 ++ r :: k2) (hrc : r.corr = m.id)
    (g1 : ∀ e ∈ k1, e.corr ≠ r.corr) (g2 : ∀ e ∈ k2, e.corr ≠ r.corr) (hru : r.unacked = false)
    (hr'c : r'.corr = r.corr) (hr'u : r'.unacked = true) :
    Mid N { c with rpq := k1 ++ r' :: k2, pending := c.pending.erase m.id } m.id (some m.id) ∧
      mu2 { c with rpq := k1 ++ r' :: k2, pending := c.pending.erase m.id } < mu2 c := by
  have hm : m ∈ c.evq := by rw [he]; simp
  have hn1 : m.id ∉ uEv l1 := mem_uEv_ne h1
  have hn2 : m.id ∉ uEv l2 := mem_uEv_ne h2
  have gn1 := mem_uRp_ne g1
  have gn2 := mem_uRp_ne g2
  obtain ⟨tnd, pnd, ond, t_sub, p_sub, o_sub, he_sub, hr_sub, u_ev, u_rp, t_kind, p_kind, tp⟩ := h.vol
  have hht := h.join.ht
  have hpe : ∀ a, a ∈ c.pending.erase m.id ↔ a ≠ m.id ∧ a ∈ c.pending := fun a => List.Nodup.mem_erase_iff pnd
  have hnde := pnd.erase m.id
  have hlen := length_erase_mem hp
  have hsent := (p_sub _ hp).2
  have hrpc : rpC { c with rpq := k1 ++ r' :: k2, pending := c.pending.erase m.id } = rpC c := by
    simp [rpC, hr, hr'c]
  refine ⟨⟨h.dur.congr rfl hrpc rfl rfl rfl rfl, ?_, h.shape.congr rfl (fun x => x) rfl,
    h.join.congr rfl rfl rfl (fun x hx => ⟨(hht x hx).1, fun hh => (hht x hx).2 ((hpe x).mp hh).2⟩) h.join.hro,
    h.cons.congr rfl hrpc rfl rfl, ?_, ?_, fun hh => (by cases hh)⟩, ?_⟩
  · rw [hr] at o_sub hr_sub u_rp
    have hine : m.id ∈ uEv c.evq := mem_uEv.mpr ⟨m, hm, hu, rfl⟩
    rw [← hrc] at *
    constructor <;> simp only [] <;>
      simp only [uRp_append, uRp_cons, uRp_nil, List.mem_append, List.mem_cons,
        List.mem_singleton, List.not_mem_nil, or_false, false_or, Option.some.injEq, reduceCtorEq, false_implies,
        implies_true] at * <;>
      grind [timerKind, isTaskKind]
  · show m.id ∈ uEv c.evq
    rw [he]; simp [uEv_cons, hu]
  · intro x hx
    cases hx
    refine ⟨rfl, ?_, hsent⟩
    show m.id ∈ uRp (k1 ++ r' :: k2)
    simp [uRp_cons, hr'u, hr'c, hrc]
  · simp only [mu2, hr, List.filter_append, List.filter_cons, hru, hr'u, List.length_append, List.length_cons,
      Bool.not_false, Bool.not_true, Bool.false_eq_true, if_true, if_false]
    omega

/-- the orphan handler matches a retained reply with the Task that now waits for it -/
theorem mid_tick {N : Nat} {c : Cfg} (h : PInv N c) {m : QEv} (hm : m ∈ c.evq) (hu : m.unacked = true)
    (hp : m.id ∈ c.pending) (ho : m.id ∈ c.orphans) :
    Mid N { c with orphans := c.orphans.erase m.id, pending := c.pending.erase m.id } m.id (some m.id) ∧
      mu2 { c with orphans := c.orphans.erase m.id, pending := c.pending.erase m.id } < mu2 c := by
  obtain ⟨tnd, pnd, ond, t_sub, p_sub, o_sub, he_sub, hr_sub, u_ev, u_rp, t_kind, p_kind, tp⟩ := h.vol
  have hht := h.join.ht
  have hpe : ∀ a, a ∈ c.pending.erase m.id ↔ a ≠ m.id ∧ a ∈ c.pending := fun a => List.Nodup.mem_erase_iff pnd
  have hoe : ∀ a, a ∈ c.orphans.erase m.id ↔ a ≠ m.id ∧ a ∈ c.orphans := fun a => List.Nodup.mem_erase_iff ond
  have hnde := pnd.erase m.id
  have hndo := ond.erase m.id
  have hlen := length_erase_mem hp
  have hsent := (p_sub _ hp).2
  have hinr := o_sub _ ho
  have hine : m.id ∈ uEv c.evq := mem_uEv.mpr ⟨m, hm, hu, rfl⟩
  -- a reply is retained or held, not both
  have hnh : m.id ∉ heldR c.joins := by
    intro hh
    -- its event would be held as well, but it waits for the reply
    have hj := h.join
    simp only [heldR, List.mem_flatMap] at hh
    obtain ⟨j, hj1, hj2⟩ := hh
    obtain ⟨q, hq, hq2⟩ := hj.rpheld j hj1 _ hj2
    have : m.id ∈ heldE c.joins := by
      simp only [heldE, List.mem_flatMap]
      exact ⟨j, hj1, List.mem_map.mpr ⟨q, hq, hq2⟩⟩
    exact (hht _ this).2 hp
  refine ⟨⟨h.dur.congr rfl rfl rfl rfl rfl rfl, ?_, h.shape.congr rfl (fun x => x) rfl,
    h.join.congr rfl rfl rfl (fun x hx => ⟨(hht x hx).1, fun hh => (hht x hx).2 ((hpe x).mp hh).2⟩)
      (fun x hx hh => h.join.hro x hx ((hoe x).mp hh).2),
    h.cons.congr rfl rfl rfl rfl, hine, ?_, fun hh => (by cases hh)⟩, ?_⟩
  · constructor <;>
      simp only [Option.some.injEq, reduceCtorEq, false_implies, implies_true] at * <;>
      grind [timerKind, isTaskKind]
  · intro x hx
    cases hx
    exact ⟨rfl, hinr, hsent⟩
  · simp only [mu2]
    omega

end Asl.Crash
