import AslModel.Intrinsic
namespace Asl

/-- a literal chunk as it is written in a `States.Format` template: braces escaped -/
def escBraces : Str → Str
  | [] => []
  | c :: cs => if c = '{' ∨ c = '}' then '\\' :: c :: escBraces cs else c :: escBraces cs

/-- chunks `c₀ … cₙ` written as a template with `n` place holders -/
def printTemplate : List Str → Str
  | [] => []
  | [c] => escBraces c
  | c :: d :: rest => escBraces c ++ '{' :: '}' :: printTemplate (d :: rest)

/-- the specification of `States.Format`: chunks and argument texts in turn -/
def interleave : List Str → List Str → Str
  | [], _ => []
  | [c], _ => c
  | c :: d :: rest, a :: as => c ++ a ++ interleave (d :: rest) as
  | c :: _ :: _, [] => c

def notBrace (s : Str) : Prop := ∀ x t, s = x :: t → x ≠ '{' ∧ x ≠ '}'

def prependChunk : Str → Option (List Str) → Option (List Str)
  | [], r => r
  | c :: cs, r => consChunk c (prependChunk cs r)

theorem prependChunk_some (c p : Str) (ps : List Str) :
    prependChunk c (some (p :: ps)) = some ((c ++ p) :: ps) := by
  induction c with
  | nil => rfl
  | cons x xs ih => simp [prependChunk, ih, consChunk]

theorem fmtSplit_esc (s : Str) (h : notBrace s) :
    fmtSplit .esc s = consChunk '\\' (fmtSplit .plain s) := by
  cases s with
  | nil => simp [fmtSplit, consChunk]
  | cons x t =>
    obtain ⟨h1, h2⟩ := h x t rfl
    by_cases hb : x = '\\'
    · subst hb; simp [fmtSplit]
    · simp [fmtSplit, h1, h2, hb]

theorem escBraces_head (c tail : Str) (hc : c ≠ []) : notBrace (escBraces c ++ tail) := by
  cases c with
  | nil => exact absurd rfl hc
  | cons y ys =>
    intro x t hx
    by_cases hy : y = '{' ∨ y = '}'
    · simp [escBraces, hy] at hx
      rw [← hx.1]; decide
    · simp [escBraces, hy] at hx
      rw [← hx.1]; exact ⟨fun h => hy (Or.inl h), fun h => hy (Or.inr h)⟩

theorem fmtSplit_chunk (c : Str) : ∀ tail : Str,
    (c.getLast? = some '\\' → notBrace tail) →
    fmtSplit .plain (escBraces c ++ tail) = prependChunk c (fmtSplit .plain tail) := by
  induction c with
  | nil => intro tail _; rfl
  | cons x xs ih =>
    intro tail h
    have hrest : xs.getLast? = some '\\' → notBrace tail := by
      intro hx
      apply h
      cases xs with
      | nil => simp at hx
      | cons y ys => simpa [List.getLast?_cons_cons] using hx
    by_cases hb : x = '{' ∨ x = '}'
    · have : escBraces (x :: xs) = '\\' :: x :: escBraces xs := by simp [escBraces, hb]
      rw [this]
      rcases hb with hb | hb <;> subst hb <;> simp [fmtSplit, prependChunk, ih tail hrest]
    · have hne : escBraces (x :: xs) = x :: escBraces xs := by simp [escBraces, hb]
      rw [hne]
      have h1 : x ≠ '{' := fun h => hb (Or.inl h)
      have h2 : x ≠ '}' := fun h => hb (Or.inr h)
      by_cases hs : x = '\\'
      · subst hs
        have hnb : notBrace (escBraces xs ++ tail) := by
          cases xs with
          | nil => simpa [escBraces] using h (by simp)
          | cons y ys => exact escBraces_head (y :: ys) tail (by simp)
        simp only [List.cons_append, fmtSplit, prependChunk]
        simp [fmtSplit_esc _ hnb, ih tail hrest]
      · simp [fmtSplit, h1, h2, hs, prependChunk, ih tail hrest]

theorem fmtSplit_printTemplate : ∀ cs : List Str, cs ≠ [] →
    (∀ c ∈ cs.dropLast, c.getLast? ≠ some '\\') →
    fmtSplit .plain (printTemplate cs) = some cs
  | [], h, _ => absurd rfl h
  | [c], _, _ => by
    have := fmtSplit_chunk c [] (fun _ => by intro x t h; cases h)
    simp only [List.append_nil] at this
    simp [printTemplate, this, fmtSplit, prependChunk_some]
  | c :: d :: rest, _, hb => by
    have ih := fmtSplit_printTemplate (d :: rest) (by simp)
      (fun e he => hb e (by simp [List.dropLast_cons_cons, he]))
    have hc : c.getLast? ≠ some '\\' := hb c (by simp [List.dropLast_cons_cons])
    rw [printTemplate, fmtSplit_chunk c _ (fun h => absurd h hc)]
    simp [fmtSplit, ih, prependChunk_some]

theorem fmtJoin_interleave : ∀ (cs : List Str) (as : List Str), cs ≠ [] →
    cs.length ≤ as.length + 1 → fmtJoin cs as = some (interleave cs as)
  | [], _, h, _ => absurd rfl h
  | [c], _, _, _ => by simp [fmtJoin, interleave]
  | c :: d :: rest, [], _, hl => by simp at hl
  | c :: d :: rest, a :: as, _, hl => by
    have := fmtJoin_interleave (d :: rest) as (by simp) (by simp at hl ⊢; omega)
    simp [fmtJoin, interleave, this]

end Asl
