import Proofs.Lemmas.Store
namespace Asl.Store
open Asl

def jabs (w : JWorld) (c : Nat) : Spec := fun k => aGet (w.mem c) k

/-- the file image is what this client would load -/
def Synced (w : JWorld) (c : Nat) : Prop := load w.file = w.mem c

@[simp] theorem setAt_same {α : Type} (f : Nat → α) (c : Nat) (x : α) : setAt f c x c = x := by
  simp [setAt]

theorem setAt_other {α : Type} (f : Nat → α) (c c' : Nat) (x : α) (h : c' ≠ c) :
    setAt f c x c' = f c' := by
  simp [setAt, h]

/-- every operation other than reopen acts on the client's memory copy exactly like a dict -/
theorem jsonStep_mem (q : Quirks) (w : JWorld) (c : Nat) (op : Op) (hop : op ≠ .reopen) :
    (jsonStep q w c op).1.mem c = (memStep (w.mem c) op).1 ∧
    (jsonStep q w c op).2 = (memStep (w.mem c) op).2 := by
  cases op with
  | reopen => exact absurd rfl hop
  | set k v => simp [jsonStep, memStep]
  | del k =>
    simp only [jsonStep, memStep]
    cases h : (aGet (w.mem c) k).isSome <;> simp
  | upd k f v =>
    simp only [jsonStep, memStep, memNested]
    cases h : aGet (w.mem c) k with
    | none => simp
    | some d => cases h2 : nestedSet d f v <;> simp [h2]
  | app k v =>
    simp only [jsonStep, memStep, memNested]
    cases h : aGet (w.mem c) k with
    | none => simp
    | some d => cases h2 : nestedApp d v <;> simp [h2]
  | get k => simp only [jsonStep, memStep]; cases h : aGet (w.mem c) k <;> simp
  | cget k => simp only [jsonStep, memStep]; cases h : aGet (w.mem c) k <;> simp
  | has k => simp [jsonStep, memStep]
  | iter => simp [jsonStep, memStep]
  | len => simp [jsonStep, memStep]
  | ttl k n => simp [jsonStep, memStep]
  | gttl k => simp [jsonStep, memStep]
  | deliver => simp [jsonStep, memStep]

/-- write-through: with no deviation switched on, the file follows the client's memory -/
theorem synced_step (w : JWorld) (c : Nat) (op : Op) (h : Synced w c) :
    Synced (jsonStep Quirks.none w c op).1 c := by
  unfold Synced at *
  cases op with
  | reopen => simp [jsonStep]
  | set k v => simp [jsonStep, memStep, load]
  | del k =>
    simp only [jsonStep, memStep]
    cases h2 : (aGet (w.mem c) k).isSome <;> simp <;> first | exact h | simp [load]
  | upd k f v =>
    simp only [jsonStep, memStep, memNested]
    cases h1 : aGet (w.mem c) k with
    | none => simp [h]
    | some d => cases h2 : nestedSet d f v <;> simp [h2, Quirks.none] <;> first | exact h | simp [load]
  | app k v =>
    simp only [jsonStep, memStep, memNested]
    cases h1 : aGet (w.mem c) k with
    | none => simp [h]
    | some d => cases h2 : nestedApp d v <;> simp [h2, Quirks.none] <;> first | exact h | simp [load]
  | get k => simpa [jsonStep] using h
  | cget k => simpa [jsonStep] using h
  | has k => simpa [jsonStep] using h
  | iter => simpa [jsonStep] using h
  | len => simpa [jsonStep] using h
  | ttl k n => simpa [jsonStep] using h
  | gttl k => simpa [jsonStep] using h
  | deliver => simpa [jsonStep] using h

theorem synced_run (w : JWorld) (c : Nat) (ops : List Op) (h : Synced w c) :
    Synced (jrun Quirks.none w (ops.map (fun o => (c, o)))).1 c := by
  induction ops generalizing w with
  | nil => simpa [jrun] using h
  | cons o r ih => simpa [jrun] using ih _ (synced_step w c o h)

theorem synced_open (f : FileC) (c : Nat) : Synced (jopen f) c := by simp [Synced, jopen]

end Asl.Store
