import AslModel.Intrinsic
import Proofs.Lemmas.PathText
namespace Asl

/-! ### string literals -/

theorem parseQ_escStr (s rest : Str) :
    parseQ false (escStr s ++ '\'' :: rest) = some (s, rest) := by
  induction s with
  | nil => simp [escStr, parseQ]
  | cons c cs ih =>
    by_cases h1 : c = '\''
    · subst h1; simp [escStr, parseQ, ih]
    · by_cases h2 : c = '\\'
      · subst h2; simp [escStr, parseQ, ih]
      · simp [escStr, parseQ, h1, h2, ih]

/-! ### decimal numbers -/

theorem digitChar_facts (d : Nat) (h : d < 10) :
    (idigitChar d).isDigit = true ∧ (idigitChar d).toNat - 48 = d ∧ idigitChar d ≠ '\'' ∧
      idigitChar d ≠ '$' ∧ idigitChar d ≠ '-' ∧ identStart (idigitChar d) = false ∧
      isWs (idigitChar d) = false := by
  match d, h with
  | 0, _ => decide
  | 1, _ => decide
  | 2, _ => decide
  | 3, _ => decide
  | 4, _ => decide
  | 5, _ => decide
  | 6, _ => decide
  | 7, _ => decide
  | 8, _ => decide
  | 9, _ => decide
  | n + 10, h => omega

theorem natStr_lt (n : Nat) (h : n < 10) : natStr n = [idigitChar n] := by
  rw [natStr]; simp [h]

theorem natStr_ge (n : Nat) (h : ¬ n < 10) :
    natStr n = natStr (n / 10) ++ [idigitChar (n % 10)] := by
  rw [natStr]; simp [h]

theorem allDigits_append (a b : Str) : allDigits (a ++ b) = (allDigits a && allDigits b) := by
  induction a with
  | nil => simp [allDigits]
  | cons c cs ih => simp [allDigits, ih, Bool.and_assoc]

theorem natStr_allDigits (n : Nat) : allDigits (natStr n) = true := by
  induction n using Nat.strongRecOn with
  | _ n ih =>
    by_cases h : n < 10
    · simp [natStr_lt n h, allDigits, (digitChar_facts n h).1]
    · rw [natStr_ge n h, allDigits_append, ih (n / 10) (by omega)]
      simp [allDigits, (digitChar_facts (n % 10) (by omega)).1]

theorem digitsNat_snoc (s : Str) (c : Char) :
    digitsNat (s ++ [c]) = digitsNat s * 10 + (c.toNat - 48) := by
  simp [digitsNat, List.foldl_append]

theorem digitsNat_natStr (n : Nat) : digitsNat (natStr n) = n := by
  induction n using Nat.strongRecOn with
  | _ n ih =>
    by_cases h : n < 10
    · simp [natStr_lt n h, digitsNat, (digitChar_facts n h).2.1]
    · rw [natStr_ge n h, digitsNat_snoc, ih (n / 10) (by omega),
        (digitChar_facts (n % 10) (by omega)).2.1]
      omega

/-- the first character of a printed natural number is a digit -/
theorem natStr_head (n : Nat) : ∃ d r, d < 10 ∧ natStr n = idigitChar d :: r := by
  induction n using Nat.strongRecOn with
  | _ n ih =>
    by_cases h : n < 10
    · exact ⟨n, [], h, natStr_lt n h⟩
    · obtain ⟨d, r, hd, hr⟩ := ih (n / 10) (by omega)
      exact ⟨d, r ++ [idigitChar (n % 10)], hd, by rw [natStr_ge n h, hr]; rfl⟩

/-! ### token boundaries -/

theorem tokenEnd_cases (rest : Str) (h : tokenEnd rest = true) :
    rest = [] ∨ ∃ c r, rest = c :: r ∧ (c = ' ' ∨ c = '\n' ∨ c = '\r' ∨ c = '\t' ∨ c = ',' ∨ c = ')') := by
  cases rest with
  | nil => exact Or.inl rfl
  | cons c r =>
    refine Or.inr ⟨c, r, rfl, ?_⟩
    simp [tokenEnd, isWs] at h
    rcases h with ((((h | h) | h) | h) | h) | h <;> simp [h]

theorem tokenEnd_not_digit (rest : Str) (h : tokenEnd rest = true) :
    ∀ c r, rest = c :: r → c.isDigit = false := by
  intro c r hc
  rcases tokenEnd_cases rest h with h0 | ⟨c', r', h1, h2⟩
  · simp [h0] at hc
  · rw [h1] at hc; cases hc
    rcases h2 with h | h | h | h | h | h <;> subst h <;> decide

theorem tokenEnd_not_ident (rest : Str) (h : tokenEnd rest = true) :
    ∀ c r, rest = c :: r → identChar c = false := by
  intro c r hc
  rcases tokenEnd_cases rest h with h0 | ⟨c', r', h1, h2⟩
  · simp [h0] at hc
  · rw [h1] at hc; cases hc
    rcases h2 with h | h | h | h | h | h <;> subst h <;> decide

theorem tokenEnd_not_path (rest : Str) (h : tokenEnd rest = true) :
    ∀ c r, rest = c :: r → pathChar c = false := by
  intro c r hc
  rcases tokenEnd_cases rest h with h0 | ⟨c', r', h1, h2⟩
  · simp [h0] at hc
  · rw [h1] at hc; cases hc
    rcases h2 with h | h | h | h | h | h <;> subst h <;> decide

theorem takeIdent_append (n rest : Str) (hn : allIdent n = true)
    (hr : ∀ c r, rest = c :: r → identChar c = false) :
    takeIdent (n ++ rest) = (n, rest) := by
  induction n with
  | nil =>
    cases rest with
    | nil => simp [takeIdent]
    | cons c r => simp [takeIdent, hr c r rfl]
  | cons c cs ih =>
    simp only [allIdent, Bool.and_eq_true] at hn
    simp [takeIdent, hn.1, ih hn.2]

theorem takePath_append (n rest : Str) (hn : allPath n = true)
    (hr : ∀ c r, rest = c :: r → pathChar c = false) :
    takePath (n ++ rest) = (n, rest) := by
  induction n with
  | nil =>
    cases rest with
    | nil => simp [takePath]
    | cons c r => simp [takePath, hr c r rfl]
  | cons c cs ih =>
    simp only [allPath, Bool.and_eq_true] at hn
    simp [takePath, hn.1, ih hn.2]

theorem skipWs_nonws (c : Char) (cs : Str) (h : isWs c = false) : skipWs (c :: cs) = c :: cs := by
  simp [skipWs, h]

theorem parseNat_natStr (n : Nat) (rest : Str) (h : tokenEnd rest = true) :
    parseNat (natStr n ++ rest) = some (n, rest) := by
  have h1 := takeDigits_append (natStr n) rest (natStr_allDigits n) (tokenEnd_not_digit rest h)
  obtain ⟨d, r, _, hr⟩ := natStr_head n
  have h2 := digitsNat_natStr n
  unfold parseNat
  rw [h1]
  rw [hr] at h2 ⊢
  simp [h, h2]

end Asl
