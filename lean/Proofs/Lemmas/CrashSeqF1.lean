/-
The crash protocol on a sequence of Task visits with the quirk `requestFromTimer` (C04-F1) on: the
reachable configurations when the engine never dies inside that quirk's window — some Task event has been
delivered and its request is not sent yet (`inWindow`) —, and that the execution then still completes.
-/
import Proofs.Lemmas.CrashSeq
namespace Asl.Crash

/-- `n` Task visits in a row -/
def tasks : Nat → Sk
  | 0 => .done
  | n + 1 => .task 0 (tasks n)

/-- the one event in flight: the visit of the first of `m` remaining Tasks -/
def evm (id m : Nat) (start red una : Bool) : QEv :=
  { id := id, kind := .visit (tasks m) [] start none, redelivered := red, unacked := una }

def rpm (id : Nat) (red una : Bool) : QRp := { corr := id, redelivered := red, unacked := una }

/-- the execution has ended -/
def cfgEnd (nextId : Nat) (sent : List Nat) (running : Nat) : Cfg :=
  { sent := sent, running := running, notes := 1, nextId := nextId }

/-- Task visits still to come -/
def skLen : Sk → Nat
  | .task _ r => skLen r + 1
  | _ => 0

theorem skLen_tasks (m : Nat) : skLen (tasks m) = m := by
  induction m with
  | zero => rfl
  | succ m ih => simp [tasks, skLen, ih]

def qF1 : Quirks := { requestFromTimer := true }

/-- the window of C04-F1: a deferred handler is armed for an event whose request has not been sent -/
def inWindow (c : Cfg) : Bool := c.timers.any (fun id => !c.sent.contains id)

/-- one operation; the engine does not die inside the window -/
def stepW (q : Quirks) (c : Cfg) (op : Op) : Option Cfg :=
  if op = .crash ∧ inWindow c = true then none else step q c op none

def runW (q : Quirks) : Cfg → List Op → Option Cfg
  | c, [] => some c
  | c, op :: rest =>
    match stepW q c op with
    | some c' => runW q c' rest
    | none => none

inductive Phase1 where
  | fresh
  | armedNew        -- delivered, the deferred handler armed, nothing requested yet: the window
  | waiting
  | crashed
  | armedRe         -- redelivered after a crash, the deferred handler armed; the request is out
  | orphan
  | armedOrph       -- … and the reply came first and is retained
  | matched
  deriving DecidableEq

def cfgOf1 (id m : Nat) (start red rr : Bool) (sent : List Nat) (running : Nat) : Phase1 → Cfg
  | .fresh => { evq := [evm id m start false false], rpq := [], sent := sent, running := running, nextId := id + 1 }
  | .armedNew => { evq := [evm id m start false true], rpq := [], sent := sent, running := running, nextId := id + 1,
                   timers := [id] }
  | .waiting => { evq := [evm id m start red true], rpq := [rpm id rr false], sent := sent, running := running,
                  nextId := id + 1, pending := [id] }
  | .crashed => { evq := [evm id m start true false], rpq := [rpm id rr false], sent := sent, running := running,
                  nextId := id + 1 }
  | .armedRe => { evq := [evm id m start true true], rpq := [rpm id rr false], sent := sent, running := running,
                  nextId := id + 1, timers := [id] }
  | .orphan => { evq := [evm id m start true false], rpq := [rpm id rr true], sent := sent, running := running,
                 nextId := id + 1, orphans := [id] }
  | .armedOrph => { evq := [evm id m start true true], rpq := [rpm id rr true], sent := sent, running := running,
                    nextId := id + 1, orphans := [id], timers := [id] }
  | .matched => { evq := [evm id m start true true], rpq := [rpm id rr true], sent := sent, running := running,
                  nextId := id + 1, orphans := [id], pending := [id] }

def Phase1.unsent : Phase1 → Bool
  | .fresh => true
  | .armedNew => true
  | _ => false

inductive Inv1 (N : Nat) : Cfg → Prop where
  | run (id m : Nat) (start red rr : Bool) (sent : List Nat) (running : Nat) (p : Phase1)
      (hnd : sent.Nodup) (hle : ∀ x ∈ sent, x ≤ id)
      (hin : (p.unsent = true → id ∉ sent) ∧ (p.unsent = false → id ∈ sent))
      (hm : p ≠ .fresh → 1 ≤ m)
      (hlen : sent.length + m = N + (if p.unsent then 0 else 1)) :
      Inv1 N (cfgOf1 id m start red rr sent running p)
  | ended (nextId : Nat) (sent : List Nat) (running : Nat) (hnd : sent.Nodup) (hlen : sent.length = N) :
      Inv1 N (cfgEnd nextId sent running)

theorem inv1_init (N : Nat) : Inv1 N (init (tasks N)) := by
  have := Inv1.run (N := N) 0 N true false false [] 0 .fresh (by simp) (by simp) (by simp [Phase1.unsent])
    (by simp) (by simp [Phase1.unsent])
  simpa [cfgOf1, init, evm] using this

macro "crash_simp1" " at " h:ident : tactic => `(tactic|
  simp [stepW, inWindow, step, cfgOf1, cfgEnd, findEv, evm, markEv, markRpL, tasks, qF1, Cfg.handler, Cfg.vol, Cfg.withVol,
    Cfg.act, Cfg.crash, insertNat, rpm, onReply, advance, fuelOf, removeFirst, inDeadJoin, evStack, requestOf, batchKey, evJids, evOwner, deadJid, dropEv, waitVisit, hasRecords] at $h:ident)

theorem inv1_of_eq {N : Nat} {c d : Cfg} (h : Inv1 N d) (e : d = c) : Inv1 N c := e ▸ h

section
variable {N : Nat}

theorem inv1_next (id m : Nat) (sent : List Nat) (running : Nat)
    (hnd : sent.Nodup) (hle : ∀ x ∈ sent, x ≤ id) (hlen : sent.length + (m + 1) = N + 1) :
    (m = 0 → Inv1 N (cfgEnd (id + 1) sent running)) ∧
    (m ≠ 0 → Inv1 N (cfgOf1 (id + 1) m false false false sent running .fresh)) := by
  constructor
  · intro h; exact Inv1.ended _ _ _ hnd (by omega)
  · intro h
    exact Inv1.run (id + 1) m false false false sent running .fresh hnd (fun x hx => Nat.le_succ_of_le (hle x hx))
      ⟨fun _ hc => absurd (hle _ hc) (by omega), fun hc => by simp [Phase1.unsent] at hc⟩ (by simp)
      (by simp [Phase1.unsent]; omega)


theorem inv1_step (c c' : Cfg) (op : Op) (h : Inv1 N c) (hs : stepW qF1 c op = some c') : Inv1 N c' := by
  cases h with
  | ended nextId sent running hnd hlen =>
    cases op <;> crash_simp1 at hs
    all_goals (subst hs; exact inv1_of_eq (Inv1.ended nextId sent running hnd hlen) (by simp [cfgEnd]))
  | run id m start red rr sent running p hnd hle hin hm hlen =>
    -- the same event, another phase (the request is out)
    have R : ∀ (start' red' rr' : Bool) (running' : Nat) (p' : Phase1), p'.unsent = false → p' ≠ .fresh → 1 ≤ m → id ∈ sent →
        sent.length + m = N + 1 → Inv1 N (cfgOf1 id m start' red' rr' sent running' p') :=
      fun start' red' rr' running' p' hu hf h1 hmem hl =>
        Inv1.run id m start' red' rr' sent running' p' hnd hle ⟨fun hc => by simp [hu] at hc, fun _ => hmem⟩ (fun _ => h1)
          (by simp [hu]; exact hl)
    cases p with
    | fresh =>
      have hnin := hin.1 rfl
      simp only [Phase1.unsent, if_true] at hlen
      cases op with
      | ev j =>
        by_cases hj : j = id
        · subst hj
          cases m with
          | zero =>
            cases start <;> crash_simp1 at hs <;> subst hs
            · exact inv1_of_eq (Inv1.ended (j + 1) sent running hnd (by omega)) (by simp [cfgEnd])
            · exact inv1_of_eq (Inv1.ended (j + 1) sent (running + 1) hnd (by omega)) (by simp [cfgEnd])
          | succ m =>
            cases start <;> crash_simp1 at hs <;> subst hs
            · exact inv1_of_eq (Inv1.run j (m + 1) false false false sent running .armedNew hnd hle
                ⟨fun _ => hnin, fun hc => by simp [Phase1.unsent] at hc⟩ (fun _ => by omega) (by simp [Phase1.unsent]; omega))
                (by simp [cfgOf1, evm, tasks])
            · exact inv1_of_eq (Inv1.run j (m + 1) true false false sent (running + 1) .armedNew hnd hle
                ⟨fun _ => hnin, fun hc => by simp [Phase1.unsent] at hc⟩ (fun _ => by omega) (by simp [Phase1.unsent]; omega))
                (by simp [cfgOf1, evm, tasks])
        · have hj' : ¬ id = j := fun e => hj e.symm
          simp [stepW, step, cfgOf1, findEv, evm, hj'] at hs
      | tm j => crash_simp1 at hs
      | rp j => crash_simp1 at hs
      | tick =>
        crash_simp1 at hs; subst hs
        exact inv1_of_eq (Inv1.run id m start red rr sent running .fresh hnd hle hin hm (by simpa [Phase1.unsent] using hlen))
          (by simp [cfgOf1, evm])
      | crash =>
        crash_simp1 at hs; subst hs
        exact inv1_of_eq (Inv1.run id m start red rr sent running .fresh hnd hle hin hm (by simpa [Phase1.unsent] using hlen))
          (by simp [cfgOf1, evm])
    | armedNew =>
      have hnin := hin.1 rfl
      have hm1 := hm (by simp)
      simp only [Phase1.unsent, if_true] at hlen
      obtain ⟨m, rfl⟩ : ∃ k, m = k + 1 := ⟨m - 1, by omega⟩
      cases op with
      | ev j =>
        by_cases hj : j = id
        · subst hj; crash_simp1 at hs
        · have hj' : ¬ id = j := fun e => hj e.symm
          simp [stepW, step, cfgOf1, findEv, evm, hj'] at hs
      | tm j =>
        by_cases hj : j = id
        · subst hj
          have hnd' : (sent ++ [j]).Nodup := by
            simp [List.nodup_append, hnd]; intro a ha e; exact hnin (e ▸ ha)
          have hle' : ∀ x ∈ sent ++ [j], x ≤ j := by
            intro x hx; simp at hx; rcases hx with h | h
            · exact hle x h
            · omega
          crash_simp1 at hs; subst hs
          exact inv1_of_eq (Inv1.run j (m + 1) start false false (sent ++ [j]) running .waiting hnd' hle'
            ⟨fun hc => by simp [Phase1.unsent] at hc, fun _ => by simp⟩ (fun _ => by omega) (by simp [Phase1.unsent]; omega))
            (by simp [cfgOf1, evm, rpm, tasks])
        · have hj' : ¬ id = j := fun e => hj e.symm
          have hj'' : ¬ j = id := hj
          simp [stepW, step, cfgOf1, hj', hj'', findEv, evm] at hs
      | rp j => crash_simp1 at hs
      | tick =>
        crash_simp1 at hs; subst hs
        exact inv1_of_eq (Inv1.run id (m + 1) start red rr sent running .armedNew hnd hle hin hm (by simp [Phase1.unsent]; omega))
          (by simp [cfgOf1, evm, tasks])
      | crash =>
        -- inside the window: excluded
        have hc : (sent.contains id) = false := by simpa using hnin
        simp [stepW, inWindow, cfgOf1, hc] at hs
        exact absurd hs.1 hnin
    | waiting =>
      have hmem := hin.2 rfl
      have hm1 := hm (by simp)
      simp only [Phase1.unsent, Bool.false_eq_true, if_false] at hlen
      obtain ⟨m, rfl⟩ : ∃ k, m = k + 1 := ⟨m - 1, by omega⟩
      cases op with
      | ev j =>
        by_cases hj : j = id
        · subst hj; crash_simp1 at hs
        · have hj' : ¬ id = j := fun e => hj e.symm
          simp [stepW, step, cfgOf1, findEv, evm, hj'] at hs
      | tm j =>
        crash_simp1 at hs
        by_cases hj : id = j <;> simp [hj] at hs
      | rp j =>
        by_cases hj : j = id
        · subst hj
          have nx := inv1_next (N := N) j m sent running hnd hle (by omega)
          cases m with
          | zero =>
            crash_simp1 at hs; subst hs
            exact inv1_of_eq (nx.1 rfl) (by simp [cfgEnd])
          | succ m =>
            crash_simp1 at hs; subst hs
            exact inv1_of_eq (nx.2 (by omega)) (by simp [cfgOf1, evm, tasks])
        · have hj' : ¬ id = j := fun e => hj e.symm
          simp [stepW, step, cfgOf1, rpm, hj'] at hs
      | tick =>
        crash_simp1 at hs; subst hs
        exact inv1_of_eq (R start red rr running .waiting rfl (by simp) (by omega) hmem (by omega)) (by simp [cfgOf1, evm, rpm, tasks])
      | crash =>
        crash_simp1 at hs; subst hs
        exact inv1_of_eq (R start true rr running .crashed rfl (by simp) (by omega) hmem (by omega)) (by simp [cfgOf1, evm, rpm, tasks])
    | crashed =>
      have hmem := hin.2 rfl
      have hm1 := hm (by simp)
      simp only [Phase1.unsent, Bool.false_eq_true, if_false] at hlen
      obtain ⟨m, rfl⟩ : ∃ k, m = k + 1 := ⟨m - 1, by omega⟩
      cases op with
      | ev j =>
        by_cases hj : j = id
        · subst hj
          cases start <;> crash_simp1 at hs <;> subst hs
          · exact inv1_of_eq (R false true rr running .armedRe rfl (by simp) (by omega) hmem (by omega)) (by simp [cfgOf1, evm, rpm, tasks])
          · exact inv1_of_eq (R true true rr (running + 1) .armedRe rfl (by simp) (by omega) hmem (by omega)) (by simp [cfgOf1, evm, rpm, tasks])
        · have hj' : ¬ id = j := fun e => hj e.symm
          simp [stepW, step, cfgOf1, findEv, evm, hj'] at hs
      | tm j => crash_simp1 at hs
      | rp j =>
        by_cases hj : j = id
        · subst hj
          crash_simp1 at hs; subst hs
          exact inv1_of_eq (R start true rr running .orphan rfl (by simp) (by omega) hmem (by omega)) (by simp [cfgOf1, evm, rpm, tasks])
        · have hj' : ¬ id = j := fun e => hj e.symm
          simp [stepW, step, cfgOf1, rpm, hj'] at hs
      | tick =>
        crash_simp1 at hs; subst hs
        exact inv1_of_eq (R start true rr running .crashed rfl (by simp) (by omega) hmem (by omega)) (by simp [cfgOf1, evm, rpm, tasks])
      | crash =>
        crash_simp1 at hs; subst hs
        exact inv1_of_eq (R start true rr running .crashed rfl (by simp) (by omega) hmem (by omega)) (by simp [cfgOf1, evm, rpm, tasks])
    | armedRe =>
      have hmem := hin.2 rfl
      have hm1 := hm (by simp)
      simp only [Phase1.unsent, Bool.false_eq_true, if_false] at hlen
      obtain ⟨m, rfl⟩ : ∃ k, m = k + 1 := ⟨m - 1, by omega⟩
      have hc : (sent.contains id) = true := by simpa using hmem
      cases op with
      | ev j =>
        by_cases hj : j = id
        · subst hj; crash_simp1 at hs
        · have hj' : ¬ id = j := fun e => hj e.symm
          simp [stepW, step, cfgOf1, findEv, evm, hj'] at hs
      | tm j =>
        by_cases hj : j = id
        · subst hj
          crash_simp1 at hs; subst hs
          exact inv1_of_eq (R start true rr running .waiting rfl (by simp) (by omega) hmem (by omega)) (by simp [cfgOf1, evm, rpm, tasks])
        · have hj' : ¬ id = j := fun e => hj e.symm
          have hj'' : ¬ j = id := hj
          simp [stepW, step, cfgOf1, hj', hj'', findEv, evm] at hs
      | rp j =>
        by_cases hj : j = id
        · subst hj
          crash_simp1 at hs; subst hs
          exact inv1_of_eq (R start true rr running .armedOrph rfl (by simp) (by omega) hmem (by omega)) (by simp [cfgOf1, evm, rpm, tasks])
        · have hj' : ¬ id = j := fun e => hj e.symm
          simp [stepW, step, cfgOf1, rpm, hj'] at hs
      | tick =>
        crash_simp1 at hs; subst hs
        exact inv1_of_eq (R start true rr running .armedRe rfl (by simp) (by omega) hmem (by omega)) (by simp [cfgOf1, evm, rpm, tasks])
      | crash =>
        simp [stepW, inWindow, cfgOf1, hc, step, Cfg.crash, evm, rpm] at hs
        obtain ⟨_, hs⟩ := hs; subst hs
        exact inv1_of_eq (R start true rr running .crashed rfl (by simp) (by omega) hmem (by omega)) (by simp [cfgOf1, evm, rpm, tasks])
    | orphan =>
      have hmem := hin.2 rfl
      have hm1 := hm (by simp)
      simp only [Phase1.unsent, Bool.false_eq_true, if_false] at hlen
      obtain ⟨m, rfl⟩ : ∃ k, m = k + 1 := ⟨m - 1, by omega⟩
      cases op with
      | ev j =>
        by_cases hj : j = id
        · subst hj
          cases start <;> crash_simp1 at hs <;> subst hs
          · exact inv1_of_eq (R false true rr running .armedOrph rfl (by simp) (by omega) hmem (by omega)) (by simp [cfgOf1, evm, rpm, tasks])
          · exact inv1_of_eq (R true true rr (running + 1) .armedOrph rfl (by simp) (by omega) hmem (by omega)) (by simp [cfgOf1, evm, rpm, tasks])
        · have hj' : ¬ id = j := fun e => hj e.symm
          simp [stepW, step, cfgOf1, findEv, evm, hj'] at hs
      | tm j => crash_simp1 at hs
      | rp j => crash_simp1 at hs
      | tick =>
        crash_simp1 at hs; subst hs
        exact inv1_of_eq (R start true rr running .orphan rfl (by simp) (by omega) hmem (by omega)) (by simp [cfgOf1, evm, rpm, tasks])
      | crash =>
        crash_simp1 at hs; subst hs
        exact inv1_of_eq (R start true true running .crashed rfl (by simp) (by omega) hmem (by omega)) (by simp [cfgOf1, evm, rpm, tasks])
    | armedOrph =>
      have hmem := hin.2 rfl
      have hm1 := hm (by simp)
      simp only [Phase1.unsent, Bool.false_eq_true, if_false] at hlen
      obtain ⟨m, rfl⟩ : ∃ k, m = k + 1 := ⟨m - 1, by omega⟩
      have hc : (sent.contains id) = true := by simpa using hmem
      cases op with
      | ev j =>
        by_cases hj : j = id
        · subst hj; crash_simp1 at hs
        · have hj' : ¬ id = j := fun e => hj e.symm
          simp [stepW, step, cfgOf1, findEv, evm, hj'] at hs
      | tm j =>
        by_cases hj : j = id
        · subst hj
          crash_simp1 at hs; subst hs
          exact inv1_of_eq (R start true rr running .matched rfl (by simp) (by omega) hmem (by omega)) (by simp [cfgOf1, evm, rpm, tasks])
        · have hj' : ¬ id = j := fun e => hj e.symm
          have hj'' : ¬ j = id := hj
          simp [stepW, step, cfgOf1, hj', hj'', findEv, evm] at hs
      | rp j => crash_simp1 at hs
      | tick =>
        crash_simp1 at hs; subst hs
        exact inv1_of_eq (R start true rr running .armedOrph rfl (by simp) (by omega) hmem (by omega)) (by simp [cfgOf1, evm, rpm, tasks])
      | crash =>
        simp [stepW, inWindow, cfgOf1, hc, step, Cfg.crash, evm, rpm] at hs
        obtain ⟨_, hs⟩ := hs; subst hs
        exact inv1_of_eq (R start true true running .crashed rfl (by simp) (by omega) hmem (by omega)) (by simp [cfgOf1, evm, rpm, tasks])
    | matched =>
      have hmem := hin.2 rfl
      have hm1 := hm (by simp)
      simp only [Phase1.unsent, Bool.false_eq_true, if_false] at hlen
      obtain ⟨m, rfl⟩ : ∃ k, m = k + 1 := ⟨m - 1, by omega⟩
      cases op with
      | ev j =>
        by_cases hj : j = id
        · subst hj; crash_simp1 at hs
        · have hj' : ¬ id = j := fun e => hj e.symm
          simp [stepW, step, cfgOf1, findEv, evm, hj'] at hs
      | tm j =>
        crash_simp1 at hs
        by_cases hj : id = j <;> simp [hj] at hs
      | rp j => crash_simp1 at hs
      | tick =>
        have nx := inv1_next (N := N) id m sent running hnd hle (by omega)
        cases m with
        | zero =>
          crash_simp1 at hs; subst hs
          exact inv1_of_eq (nx.1 rfl) (by simp [cfgEnd])
        | succ m =>
          crash_simp1 at hs; subst hs
          exact inv1_of_eq (nx.2 (by omega)) (by simp [cfgOf1, evm, tasks])
      | crash =>
        crash_simp1 at hs; subst hs
        exact inv1_of_eq (R start true true running .crashed rfl (by simp) (by omega) hmem (by omega)) (by simp [cfgOf1, evm, rpm, tasks])

/-- what is left to do, with the deferred handler as a step of its own -/
def mu1 (c : Cfg) : Nat :=
  match c.evq with
  | [e] => (match e.kind with
    | .visit todo _ _ _ => 4 * skLen todo + (if e.unacked then (if c.timers.isEmpty then 1 else 2) else 3)
    | _ => 0)
  | _ => 0

theorem inv1_progress (c : Cfg) (h : Inv1 N c) :
    (∃ nextId sent running, c = cfgEnd nextId sent running ∧ sent.Nodup ∧ sent.length = N) ∨
    (∃ op c', nextOp c = some op ∧ op ≠ .crash ∧ step qF1 c op none = some c' ∧ Inv1 N c' ∧ mu1 c' < mu1 c) := by
  cases h with
  | ended nextId sent running hnd hlen => exact Or.inl ⟨nextId, sent, running, rfl, hnd, hlen⟩
  | run id m start red rr sent running p hnd hle hin hm hlen =>
    right
    have H := Inv1.run (N := N) id m start red rr sent running p hnd hle hin hm hlen
    have key : ∀ op c', op ≠ .crash → nextOp (cfgOf1 id m start red rr sent running p) = some op →
        step qF1 (cfgOf1 id m start red rr sent running p) op none = some c' →
        mu1 c' < mu1 (cfgOf1 id m start red rr sent running p) →
        ∃ op c', nextOp (cfgOf1 id m start red rr sent running p) = some op ∧ op ≠ .crash ∧
          step qF1 (cfgOf1 id m start red rr sent running p) op none = some c' ∧ Inv1 N c' ∧
          mu1 c' < mu1 (cfgOf1 id m start red rr sent running p) :=
      fun op c' hne h1 h2 h3 => ⟨op, c', h1, hne, h2,
        inv1_step _ _ op H (by simp [stepW, hne]; exact h2), h3⟩
    cases p with
    | fresh =>
      cases m with
      | zero =>
        cases start
        · exact key (.ev id) (cfgEnd (id + 1) sent running) (by simp) (by simp [nextOp, cfgOf1, evm])
            (by simp [step, inDeadJoin, evStack, requestOf, batchKey, evJids, evOwner, deadJid, dropEv, waitVisit, hasRecords, cfgOf1, cfgEnd, findEv, evm, markEv, tasks, qF1, Cfg.handler, Cfg.vol, Cfg.withVol, Cfg.act, advance, fuelOf])
            (by simp [mu1, cfgOf1, cfgEnd, evm, tasks, skLen])
        · exact key (.ev id) (cfgEnd (id + 1) sent (running + 1)) (by simp) (by simp [nextOp, cfgOf1, evm])
            (by simp [step, inDeadJoin, evStack, requestOf, batchKey, evJids, evOwner, deadJid, dropEv, waitVisit, hasRecords, cfgOf1, cfgEnd, findEv, evm, markEv, tasks, qF1, Cfg.handler, Cfg.vol, Cfg.withVol, Cfg.act, advance, fuelOf])
            (by simp [mu1, cfgOf1, cfgEnd, evm, tasks, skLen])
      | succ m =>
        cases start
        · exact key (.ev id) (cfgOf1 id (m + 1) false false false sent running .armedNew) (by simp)
            (by simp [nextOp, cfgOf1, evm])
            (by simp [step, inDeadJoin, evStack, requestOf, batchKey, evJids, evOwner, deadJid, dropEv, waitVisit, hasRecords, cfgOf1, findEv, evm, markEv, tasks, qF1, Cfg.handler, Cfg.vol, Cfg.withVol, Cfg.act, insertNat])
            (by simp [mu1, cfgOf1, evm])
        · exact key (.ev id) (cfgOf1 id (m + 1) true false false sent (running + 1) .armedNew) (by simp)
            (by simp [nextOp, cfgOf1, evm])
            (by simp [step, inDeadJoin, evStack, requestOf, batchKey, evJids, evOwner, deadJid, dropEv, waitVisit, hasRecords, cfgOf1, findEv, evm, markEv, tasks, qF1, Cfg.handler, Cfg.vol, Cfg.withVol, Cfg.act, insertNat])
            (by simp [mu1, cfgOf1, evm])
    | armedNew =>
      have hm1 := hm (by simp)
      obtain ⟨m, rfl⟩ : ∃ k, m = k + 1 := ⟨m - 1, by omega⟩
      exact key (.tm id) (cfgOf1 id (m + 1) start false false (sent ++ [id]) running .waiting) (by simp)
        (by simp [nextOp, cfgOf1])
        (by simp [step, inDeadJoin, evStack, requestOf, batchKey, evJids, evOwner, deadJid, dropEv, waitVisit, hasRecords, cfgOf1, findEv, evm, tasks, qF1, Cfg.handler, Cfg.vol, Cfg.withVol, Cfg.act, insertNat, rpm])
        (by simp [mu1, cfgOf1, evm])
    | waiting =>
      have hm1 := hm (by simp)
      obtain ⟨m, rfl⟩ : ∃ k, m = k + 1 := ⟨m - 1, by omega⟩
      cases m with
      | zero =>
        exact key (.rp id) (cfgEnd (id + 1) sent running) (by simp) (by simp [nextOp, cfgOf1, evm, rpm])
          (by simp [step, inDeadJoin, evStack, requestOf, batchKey, evJids, evOwner, deadJid, dropEv, waitVisit, hasRecords, cfgOf1, cfgEnd, findEv, evm, markRpL, tasks, qF1, Cfg.handler, Cfg.vol, Cfg.withVol, Cfg.act, rpm, onReply, advance, fuelOf, removeFirst])
          (by simp [mu1, cfgOf1, cfgEnd, evm, tasks, skLen])
      | succ m =>
        exact key (.rp id) (cfgOf1 (id + 1) (m + 1) false false false sent running .fresh) (by simp) (by simp [nextOp, cfgOf1, evm, rpm])
          (by simp [step, inDeadJoin, evStack, requestOf, batchKey, evJids, evOwner, deadJid, dropEv, waitVisit, hasRecords, cfgOf1, findEv, evm, markRpL, tasks, qF1, Cfg.handler, Cfg.vol, Cfg.withVol, Cfg.act, rpm, onReply, advance, fuelOf, removeFirst])
          (by simp [mu1, cfgOf1, evm, tasks, skLen, skLen_tasks]; omega)
    | crashed =>
      have hm1 := hm (by simp)
      obtain ⟨m, rfl⟩ : ∃ k, m = k + 1 := ⟨m - 1, by omega⟩
      cases start
      · exact key (.ev id) (cfgOf1 id (m + 1) false true rr sent running .armedRe) (by simp) (by simp [nextOp, cfgOf1, evm])
          (by simp [step, inDeadJoin, evStack, requestOf, batchKey, evJids, evOwner, deadJid, dropEv, waitVisit, hasRecords, cfgOf1, findEv, evm, markEv, tasks, qF1, Cfg.handler, Cfg.vol, Cfg.withVol, Cfg.act, insertNat, rpm])
          (by simp [mu1, cfgOf1, evm])
      · exact key (.ev id) (cfgOf1 id (m + 1) true true rr sent (running + 1) .armedRe) (by simp) (by simp [nextOp, cfgOf1, evm])
          (by simp [step, inDeadJoin, evStack, requestOf, batchKey, evJids, evOwner, deadJid, dropEv, waitVisit, hasRecords, cfgOf1, findEv, evm, markEv, tasks, qF1, Cfg.handler, Cfg.vol, Cfg.withVol, Cfg.act, insertNat, rpm])
          (by simp [mu1, cfgOf1, evm])
    | armedRe =>
      have hm1 := hm (by simp)
      obtain ⟨m, rfl⟩ : ∃ k, m = k + 1 := ⟨m - 1, by omega⟩
      exact key (.tm id) (cfgOf1 id (m + 1) start true rr sent running .waiting) (by simp)
        (by simp [nextOp, cfgOf1])
        (by simp [step, inDeadJoin, evStack, requestOf, batchKey, evJids, evOwner, deadJid, dropEv, waitVisit, hasRecords, cfgOf1, findEv, evm, tasks, qF1, Cfg.handler, Cfg.vol, Cfg.withVol, Cfg.act, insertNat, rpm])
        (by simp [mu1, cfgOf1, evm])
    | orphan =>
      have hm1 := hm (by simp)
      obtain ⟨m, rfl⟩ : ∃ k, m = k + 1 := ⟨m - 1, by omega⟩
      cases start
      · exact key (.ev id) (cfgOf1 id (m + 1) false true rr sent running .armedOrph) (by simp) (by simp [nextOp, cfgOf1, evm])
          (by simp [step, inDeadJoin, evStack, requestOf, batchKey, evJids, evOwner, deadJid, dropEv, waitVisit, hasRecords, cfgOf1, findEv, evm, markEv, tasks, qF1, Cfg.handler, Cfg.vol, Cfg.withVol, Cfg.act, insertNat, rpm])
          (by simp [mu1, cfgOf1, evm])
      · exact key (.ev id) (cfgOf1 id (m + 1) true true rr sent (running + 1) .armedOrph) (by simp) (by simp [nextOp, cfgOf1, evm])
          (by simp [step, inDeadJoin, evStack, requestOf, batchKey, evJids, evOwner, deadJid, dropEv, waitVisit, hasRecords, cfgOf1, findEv, evm, markEv, tasks, qF1, Cfg.handler, Cfg.vol, Cfg.withVol, Cfg.act, insertNat, rpm])
          (by simp [mu1, cfgOf1, evm])
    | armedOrph =>
      have hm1 := hm (by simp)
      obtain ⟨m, rfl⟩ : ∃ k, m = k + 1 := ⟨m - 1, by omega⟩
      exact key (.tm id) (cfgOf1 id (m + 1) start true rr sent running .matched) (by simp)
        (by simp [nextOp, cfgOf1])
        (by simp [step, inDeadJoin, evStack, requestOf, batchKey, evJids, evOwner, deadJid, dropEv, waitVisit, hasRecords, cfgOf1, findEv, evm, tasks, qF1, Cfg.handler, Cfg.vol, Cfg.withVol, Cfg.act, insertNat, rpm])
        (by simp [mu1, cfgOf1, evm])
    | matched =>
      have hm1 := hm (by simp)
      obtain ⟨m, rfl⟩ : ∃ k, m = k + 1 := ⟨m - 1, by omega⟩
      cases m with
      | zero =>
        exact key .tick (cfgEnd (id + 1) sent running) (by simp) (by simp [nextOp, cfgOf1, evm, rpm])
          (by simp [step, inDeadJoin, evStack, requestOf, batchKey, evJids, evOwner, deadJid, dropEv, waitVisit, hasRecords, cfgOf1, cfgEnd, findEv, evm, tasks, qF1, Cfg.handler, Cfg.vol, Cfg.withVol, Cfg.act, rpm, onReply, advance, fuelOf, removeFirst])
          (by simp [mu1, cfgOf1, cfgEnd, evm, tasks, skLen])
      | succ m =>
        exact key .tick (cfgOf1 (id + 1) (m + 1) false false false sent running .fresh) (by simp) (by simp [nextOp, cfgOf1, evm, rpm])
          (by simp [step, inDeadJoin, evStack, requestOf, batchKey, evJids, evOwner, deadJid, dropEv, waitVisit, hasRecords, cfgOf1, findEv, evm, tasks, qF1, Cfg.handler, Cfg.vol, Cfg.withVol, Cfg.act, rpm, onReply, advance, fuelOf, removeFirst])
          (by simp [mu1, cfgOf1, evm, tasks, skLen, skLen_tasks]; omega)

theorem inv1_nodiv (c : Cfg) (h : Inv1 N c) : c.diverged = false := by
  cases h with
  | ended => rfl
  | run id m start red rr sent running p => cases p <;> rfl

theorem drain1_ends (fuel : Nat) (c : Cfg) (h : Inv1 N c) (hf : mu1 c ≤ fuel) :
    ∃ nextId sent running, drain qF1 fuel c = cfgEnd nextId sent running ∧ sent.Nodup ∧ sent.length = N := by
  induction fuel generalizing c with
  | zero =>
    rcases inv1_progress c h with ⟨nextId, sent, running, rfl, hnd, hlen⟩ | ⟨op, c', _, _, _, _, hlt⟩
    · exact ⟨nextId, sent, running, rfl, hnd, hlen⟩
    · omega
  | succ fuel ih =>
    rcases inv1_progress c h with ⟨nextId, sent, running, rfl, hnd, hlen⟩ | ⟨op, c', hn, _, hs, hi, hlt⟩
    · exact ⟨nextId, sent, running, by simp [drain, nextOp, cfgEnd], hnd, hlen⟩
    · simp only [drain, hn, hs, inv1_nodiv c h, Bool.false_eq_true, if_false]
      exact ih c' hi (by omega)

theorem inv1_run (c c' : Cfg) (ops : List Op) (h : Inv1 N c) (hr : runW qF1 c ops = some c') : Inv1 N c' := by
  induction ops generalizing c with
  | nil => simp [runW] at hr; exact hr ▸ h
  | cons op rest ih =>
    simp only [runW] at hr
    split at hr
    · rename_i c1 h1
      exact ih c1 (inv1_step c c1 op h h1) hr
    · cases hr
end
end Asl.Crash
