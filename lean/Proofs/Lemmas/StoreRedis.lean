import Proofs.Lemmas.Store
namespace Asl.Store
open Asl

/-! projections of the world-building helpers -/

@[simp] theorem touch_srv (w : RWorld) (fk : Str) : (touch w fk).srv = w.srv := rfl
@[simp] theorem touch_ttl (w : RWorld) (fk : Str) : (touch w fk).ttl = w.ttl := rfl
@[simp] theorem touch_cl (w : RWorld) (fk : Str) (c : Nat) : (touch w fk).cl c = notify fk (w.cl c) := rfl
@[simp] theorem setCl_srv (w : RWorld) (c : Nat) (x : Client) : (setCl w c x).srv = w.srv := rfl
@[simp] theorem setCl_ttl (w : RWorld) (c : Nat) (x : Client) : (setCl w c x).ttl = w.ttl := rfl
theorem setCl_cl (w : RWorld) (c c' : Nat) (x : Client) :
    (setCl w c x).cl c' = if c' = c then x else w.cl c' := rfl
@[simp] theorem srvPut_srv (w : RWorld) (fk : Str) (v : Json) : (srvPut w fk v).srv = aSet w.srv fk v := rfl
@[simp] theorem srvPut_ttl (w : RWorld) (fk : Str) (v : Json) : (srvPut w fk v).ttl = w.ttl := rfl

theorem srvDel_get (w : RWorld) (fk k' : Str) :
    aGet (srvDel w fk).srv k' = if k' = fk then none else aGet w.srv k' := by
  unfold srvDel
  cases h : (aGet w.srv fk).isSome
  · by_cases e : k' = fk
    · subst e; simpa using h
    · simp [e]
  · simp [aGet_aDel]

theorem srvDel_nodup (w : RWorld) (fk : Str) (h : (aKeys w.srv).Nodup) :
    (aKeys (srvDel w fk).srv).Nodup := by
  unfold srvDel
  cases h2 : (aGet w.srv fk).isSome
  · simpa using h
  · simpa using aKeys_aDel_nodup _ _ h

@[simp] theorem notify_cache (fk : Str) (x : Client) : (notify fk x).cache = x.cache := by
  unfold notify; split <;> rfl

@[simp] theorem notify_on (fk : Str) (x : Client) : (notify fk x).on = x.on := by
  unfold notify; split <;> rfl

theorem mem_notify_pending (fk a : Str) (x : Client) (h : a ∈ x.pending) : a ∈ (notify fk x).pending := by
  unfold notify; split
  · simp [h]
  · exact h

@[simp] theorem remember_cache (fk : Str) (x : Client) : (remember fk x).cache = x.cache := by
  unfold remember; split <;> rfl

@[simp] theorem remember_pending (fk : Str) (x : Client) : (remember fk x).pending = x.pending := by
  unfold remember; split <;> rfl

@[simp] theorem remember_on (fk : Str) (x : Client) : (remember fk x).on = x.on := by
  unfold remember; split <;> rfl

theorem mem_remember_tracked (fk a : Str) (x : Client) (h : a ∈ x.tracked) : a ∈ (remember fk x).tracked := by
  unfold remember; split
  · simp [h]
  · exact h

theorem remember_tracks (fk : Str) (x : Client) (h : x.on = true) : fk ∈ (remember fk x).tracked := by
  unfold remember
  by_cases e : fk ∈ x.tracked
  · simp [e]
  · simp [h, e]

/-! the mapping presented by a namespace -/

theorem spec_set_del (m : Spec) (k : Str) (v : Json) : (m.del k).set k v = m.set k v := by
  funext k'; by_cases e : k' = k <;> simp [Spec.set, Spec.del, e]

theorem rabs_put (w : RWorld) (p k : Str) (v : Json) :
    rabs (srvPut w (pk p k) v) p = (rabs w p).set k v := by
  funext k'; simp [rabs, aGet_aSet, Spec.set, pk_inj]

theorem rabs_del (w : RWorld) (p k : Str) : rabs (srvDel w (pk p k)) p = (rabs w p).del k := by
  funext k'; simp [rabs, srvDel_get, Spec.del, pk_inj]

theorem rabs_srv_eq (w w' : RWorld) (p : Str) (h : w'.srv = w.srv) : rabs w' p = rabs w p := by
  funext k; simp [rabs, h]

theorem scanKeys_mem (p : Str) (srv : List (Str × Json)) (k : Str) :
    k ∈ scanKeys p srv ↔ (aGet srv (pk p k)).isSome = true := by
  rw [aGet_isSome_iff]
  unfold scanKeys
  simp only [List.mem_map, List.mem_filter]
  constructor
  · rintro ⟨fk, ⟨hm, hp⟩, rfl⟩
    rw [pk_of_prefix p fk hp]; exact hm
  · intro hm
    refine ⟨pk p k, ⟨hm, ?_⟩, rmPrefix_pk p k⟩
    rw [List.isPrefixOf_iff_prefix]
    exact ⟨k, by simp [pk]⟩

theorem nodup_map_on {α β : Type} (f : α → β) (l : List α)
    (hf : ∀ a ∈ l, ∀ b ∈ l, f a = f b → a = b) (h : l.Nodup) : (l.map f).Nodup := by
  induction l with
  | nil => simp
  | cons a r ih =>
    simp only [List.map_cons, List.nodup_cons] at h ⊢
    refine ⟨?_, ih (fun x hx y hy => hf x (List.mem_cons_of_mem _ hx) y (List.mem_cons_of_mem _ hy)) h.2⟩
    intro hm
    obtain ⟨b, hb, hfb⟩ := List.mem_map.1 hm
    have e : b = a := hf b (List.mem_cons_of_mem _ hb) a (by simp) hfb
    exact h.1 (e ▸ hb)

theorem scanKeys_nodup (p : Str) (srv : List (Str × Json)) (h : (aKeys srv).Nodup) :
    (scanKeys p srv).Nodup := by
  unfold scanKeys
  apply nodup_map_on
  · intro a ha b hb hab
    simp only [List.mem_filter] at ha hb
    rw [← pk_of_prefix p a ha.2, ← pk_of_prefix p b hb.2, hab]
  · exact h.sublist List.filter_sublist

/-! cache coherence and capacity -/

/-- every cached entry is either awaiting an invalidation already sent, or is tracked by the server
and equal to what the server holds -/
def CohC (srv : List (Str × Json)) (cfg : Cfg) (x : Client) : Prop :=
  ∀ k v, (k, v) ∈ x.cache →
    pk cfg.pre k ∈ x.pending ∨
    (pk cfg.pre k ∈ x.tracked ∧ view cfg.isList (aGet srv (pk cfg.pre k)) = v)

def Coh (cfgs : Nat → Cfg) (w : RWorld) : Prop := ∀ c, CohC w.srv (cfgs c) (w.cl c)

def CapOK (cfgs : Nat → Cfg) (w : RWorld) : Prop := ∀ c, (w.cl c).cache.length ≤ (cfgs c).cap

theorem cohC_write (srv srv' : List (Str × Json)) (cfg : Cfg) (x : Client) (fk : Str)
    (hs : ∀ k', k' ≠ fk → aGet srv' k' = aGet srv k') (h : CohC srv cfg x) :
    CohC srv' cfg (notify fk x) := by
  intro k v hm
  rw [notify_cache] at hm
  rcases h k v hm with hp | ⟨ht, hv⟩
  · exact Or.inl (mem_notify_pending _ _ _ hp)
  · by_cases e : pk cfg.pre k = fk
    · left
      rw [e] at ht ⊢
      simp [notify, ht]
    · right
      refine ⟨?_, by rw [hs _ e]; exact hv⟩
      unfold notify
      split
      · simp [ht, e]
      · exact ht

theorem coh_write (cfgs : Nat → Cfg) (w : RWorld) (srv' : List (Str × Json)) (ttl' : List (Str × Nat))
    (fk : Str) (hs : ∀ k', k' ≠ fk → aGet srv' k' = aGet w.srv k') (h : Coh cfgs w) :
    Coh cfgs (touch { w with srv := srv', ttl := ttl' } fk) := by
  intro c
  exact cohC_write w.srv srv' (cfgs c) (w.cl c) fk hs (h c)

theorem coh_srvDel (cfgs : Nat → Cfg) (w : RWorld) (fk : Str) (h : Coh cfgs w) :
    Coh cfgs (srvDel w fk) := by
  unfold srvDel
  split
  · exact coh_write cfgs w _ _ fk (fun k' e => by simp [aGet_aDel, e]) h
  · exact h

theorem coh_srvPut (cfgs : Nat → Cfg) (w : RWorld) (fk : Str) (v : Json) (h : Coh cfgs w) :
    Coh cfgs (srvPut w fk v) := by
  have := coh_write cfgs w (aSet w.srv fk v) w.ttl fk (fun k' e => by simp [aGet_aSet, e]) h
  exact this

theorem coh_setCl (cfgs : Nat → Cfg) (w : RWorld) (c : Nat) (x : Client) (h : Coh cfgs w)
    (hx : CohC w.srv (cfgs c) x) : Coh cfgs (setCl w c x) := by
  intro c'
  rw [setCl_cl]
  by_cases e : c' = c
  · subst e; simpa using hx
  · simpa [e] using h c'

theorem cohC_remember (srv : List (Str × Json)) (cfg : Cfg) (x : Client) (fk : Str)
    (h : CohC srv cfg x) : CohC srv cfg (remember fk x) := by
  intro k v hm
  rw [remember_cache] at hm
  rcases h k v hm with hp | ⟨ht, hv⟩
  · exact Or.inl (by simpa using hp)
  · exact Or.inr ⟨mem_remember_tracked _ _ _ ht, hv⟩

theorem cohC_sub (srv : List (Str × Json)) (cfg : Cfg) (x x' : Client)
    (hc : ∀ e, e ∈ x'.cache → e ∈ x.cache) (hp : x'.pending = x.pending) (ht : x'.tracked = x.tracked)
    (h : CohC srv cfg x) : CohC srv cfg x' := by
  intro k v hm
  rw [hp, ht]
  exact h k v (hc _ hm)

theorem mem_lruInsert (cap : Nat) (cache : List (Str × Json)) (k : Str) (v : Json) (e : Str × Json)
    (h : e ∈ lruInsert cap cache k v) : e ∈ cache ∨ e = (k, v) := by
  unfold lruInsert at h
  simp only at h
  split at h
  · have := List.mem_of_mem_tail h
    simpa using this
  · simpa using h

theorem lruInsert_length (cap : Nat) (cache : List (Str × Json)) (k : Str) (v : Json)
    (hc : cache.length ≤ cap) : (lruInsert cap cache k v).length ≤ cap := by
  unfold lruInsert
  simp only
  split
  · simp; omega
  · rename_i h; simp at h ⊢; omega

end Asl.Store
