/-
Helper lemmas about the fan-out protocol model (`AslModel/FanProto.lean`): what `checkPending`, the lookup and the
result walk `bubble` preserve, and the invariant of the repaired protocol (`Quirks.none`) every reachable state satisfies.
-/
import AslModel.FanProto
namespace Asl.FanProto

/-! ### slots -/

theorem cancel_not_cancellable (s : Slot) : s.cancel.cancellable = false := by
  cases s <;> rfl

theorem cancellable_unresolved (s : Slot) (h : s.cancellable = true) : s.unresolved = true := by
  cases s <;> simp_all [Slot.cancellable, Slot.unresolved]

/-- no seen attempt has a cancellable (task / wait outstanding) slot -/
def NoTask (atts : List Attempt) : Prop :=
  ∀ x ∈ atts, x.seen = true → ∀ sl ∈ x.slots, sl.cancellable = false

/-- some seen attempt still waits for a result -/
def SomePending (atts : List Attempt) : Prop :=
  ∃ x ∈ atts, x.seen = true ∧ x.waits = true

/-- what every operation keeps of an attempt: identity, position in the forest; `terminated` and `joined` only get set -/
def Keeps (x x' : Attempt) : Prop :=
  x'.id = x.id ∧ x'.parent = x.parent ∧ (x.terminated = true → x'.terminated = true) ∧
    (x.joined = true → x'.joined = true)

theorem Keeps.refl (x : Attempt) : Keeps x x := ⟨rfl, rfl, id, id⟩

theorem Keeps.trans {x y z : Attempt} (h1 : Keeps x y) (h2 : Keeps y z) : Keeps x z :=
  ⟨h2.1.trans h1.1, h2.2.1.trans h1.2.1, fun h => h2.2.2.1 (h1.2.2.1 h), fun h => h2.2.2.2 (h1.2.2.2 h)⟩

/-- positionwise relation between two lists -/
inductive All2 (R : Attempt → Attempt → Prop) : List Attempt → List Attempt → Prop where
  | nil : All2 R [] []
  | cons {a b : Attempt} {as bs : List Attempt} (h : R a b) (t : All2 R as bs) : All2 R (a :: as) (b :: bs)

theorem All2.refl {R : Attempt → Attempt → Prop} (hr : ∀ x, R x x) : ∀ l, All2 R l l
  | [] => .nil
  | x :: l => .cons (hr x) (All2.refl hr l)

theorem All2.trans {R : Attempt → Attempt → Prop} (ht : ∀ x y z, R x y → R y z → R x z) :
    ∀ {l1 l2 l3}, All2 R l1 l2 → All2 R l2 l3 → All2 R l1 l3
  | _, _, _, .nil, .nil => .nil
  | _, _, _, .cons h t, .cons h' t' => .cons (ht _ _ _ h h') (All2.trans ht t t')

theorem All2.map {R : Attempt → Attempt → Prop} (f : Attempt → Attempt) (hf : ∀ x, R x (f x)) :
    ∀ l, All2 R l (l.map f)
  | [] => .nil
  | x :: l => .cons (hf x) (All2.map f hf l)

theorem All2.mem_right {R : Attempt → Attempt → Prop} : ∀ {l l'}, All2 R l l' → ∀ x' ∈ l', ∃ x ∈ l, R x x'
  | _, _, .nil, x', h => by cases h
  | _, _, .cons h t, x', hm => by
    rcases List.mem_cons.mp hm with rfl | hm
    · exact ⟨_, List.mem_cons_self, h⟩
    · obtain ⟨x, hx, hr⟩ := All2.mem_right t x' hm
      exact ⟨x, List.mem_cons_of_mem _ hx, hr⟩

theorem All2.mem_left {R : Attempt → Attempt → Prop} : ∀ {l l'}, All2 R l l' → ∀ x ∈ l, ∃ x' ∈ l', R x x'
  | _, _, .nil, x, h => by cases h
  | _, _, .cons h t, x, hm => by
    rcases List.mem_cons.mp hm with rfl | hm
    · exact ⟨_, List.mem_cons_self, h⟩
    · obtain ⟨x', hx, hr⟩ := All2.mem_left t x hm
      exact ⟨x', List.mem_cons_of_mem _ hx, hr⟩

theorem All2.ids : ∀ {l l'}, All2 Keeps l l' → l'.map (·.id) = l.map (·.id)
  | _, _, .nil => rfl
  | _, _, .cons h t => by simp [h.1, All2.ids t]

abbrev KeepsAll := All2 Keeps

theorem KeepsAll.rfl' (l : List Attempt) : KeepsAll l l := All2.refl Keeps.refl l

theorem KeepsAll.trans' {l1 l2 l3 : List Attempt} (h1 : KeepsAll l1 l2) (h2 : KeepsAll l2 l3) : KeepsAll l1 l3 :=
  All2.trans (R := Keeps) (fun _ _ _ a b => Keeps.trans a b) h1 h2

theorem upd_keeps (atts : List Attempt) (a : Nat) (f : Attempt → Attempt) (hf : ∀ x, Keeps x (f x)) :
    KeepsAll atts (upd atts a f) := by
  unfold upd
  apply All2.map
  intro x
  by_cases h : (x.id == a) = true
  · simp [h, hf x]
  · simp [h, Keeps.refl]

theorem setSlot_keeps (i : Nat) (f : Slot → Slot) (x : Attempt) : Keeps x (setSlot i f x) := by
  unfold setSlot
  split
  · exact ⟨rfl, rfl, id, id⟩
  · exact Keeps.refl x

/-! ### `checkPending` -/

theorem cp_ended (q : Quirks) (s : Proto) : (checkPending q s).1.ended = s.ended := by
  unfold checkPending
  simp only
  split <;> rfl

theorem cp_fresh (q : Quirks) (s : Proto) : (checkPending q s).1.fresh = s.fresh := by
  unfold checkPending
  simp only
  split <;> rfl

theorem cancelsOf_quiet (x : Attempt) : ∀ o ∈ cancelsOf x, o.quiet = true := by
  intro o ho
  unfold cancelsOf at ho
  rw [List.mem_filterMap] at ho
  obtain ⟨i, _, hi⟩ := ho
  split at hi
  · split at hi
    · cases hi; rfl
    · cases hi
  · cases hi

theorem cp_quiet (q : Quirks) (s : Proto) : ∀ o ∈ (checkPending q s).2, o.quiet = true := by
  intro o ho
  unfold checkPending at ho
  simp only at ho
  have hc : ∀ o ∈ (s.atts.filter (visited (cpDead q s.atts) (s.atts.any fun x => x.seen && x.terminated) s.ended.isSome)).flatMap cancelsOf,
      o.quiet = true := by
    intro o ho
    obtain ⟨x, _, hx⟩ := List.mem_flatMap.mp ho
    exact cancelsOf_quiet x o hx
  split at ho
  · rcases List.mem_append.mp ho with h | h
    · exact hc o h
    · simp at h; subst h; rfl
  · exact hc o ho

theorem cp_noEnd (q : Quirks) (s : Proto) : ∀ o ∈ (checkPending q s).2, isEnd o = false := by
  intro o ho
  have := cp_quiet _ s o ho
  cases o <;> simp_all [Out.quiet, isEnd]

/-- the attempts after `checkPending`: none, or the same with some slots cancelled -/
theorem cp_atts (q : Quirks) (s : Proto) :
    ((checkPending q s).1.atts = [] ∧ (checkPending q s).1.hasMeta = false) ∨
    ((checkPending q s).1.hasMeta = s.hasMeta ∧
      (checkPending q s).1.atts = s.atts.map (fun x =>
        if visited (cpDead q s.atts) (s.atts.any fun x => x.seen && x.terminated) s.ended.isSome x
        then { x with slots := x.slots.map Slot.cancel } else x)) := by
  unfold checkPending
  simp only
  split
  · exact Or.inl ⟨rfl, rfl⟩
  · exact Or.inr ⟨rfl, rfl⟩

theorem cp_keeps (q : Quirks) (s : Proto) : (checkPending q s).1.atts = [] ∨ KeepsAll s.atts (checkPending q s).1.atts := by
  rcases cp_atts _ s with h | h
  · exact Or.inl h.1
  · right
    rw [h.2]
    apply All2.map
    intro x
    split
    · exact ⟨rfl, rfl, id, id⟩
    · exact Keeps.refl x

theorem cp_seen (q : Quirks) (s : Proto) : ∀ x' ∈ (checkPending q s).1.atts, ∃ x ∈ s.atts, x'.seen = x.seen ∧ x'.id = x.id ∧
    x'.terminated = x.terminated ∧ (∀ sl' ∈ x'.slots, ∃ sl ∈ x.slots, sl' = sl ∨ sl' = sl.cancel) := by
  intro x' hx'
  rcases cp_atts _ s with h | h
  · rw [h.1] at hx'; cases hx'
  · rw [h.2] at hx'
    obtain ⟨x, hx, rfl⟩ := List.mem_map.mp hx'
    refine ⟨x, hx, ?_⟩
    split
    · refine ⟨rfl, rfl, rfl, ?_⟩
      intro sl' hsl'
      obtain ⟨sl, hsl, rfl⟩ := List.mem_map.mp hsl'
      exact ⟨sl, hsl, Or.inr rfl⟩
    · exact ⟨rfl, rfl, rfl, fun sl' h => ⟨sl', h, Or.inl rfl⟩⟩

theorem cp_noTask_pres (q : Quirks) (s : Proto) (h : NoTask s.atts) : NoTask (checkPending q s).1.atts := by
  intro x' hx' hseen sl' hsl'
  obtain ⟨x, hx, hs, _, _, hsl⟩ := cp_seen _ s x' hx'
  obtain ⟨sl, hslm, hor⟩ := hsl sl' hsl'
  rcases hor with rfl | rfl
  · exact h x hx (hs ▸ hseen) _ hslm
  · exact cancel_not_cancellable sl

def cpHasTerm (s : Proto) : Bool := s.atts.any fun x => x.seen && x.terminated

def cpAtts (q : Quirks) (s : Proto) : List Attempt :=
  s.atts.map (fun x => if visited (cpDead q s.atts) (cpHasTerm s) s.ended.isSome x then { x with slots := x.slots.map Slot.cancel } else x)

def cpPending (q : Quirks) (s : Proto) : Bool :=
  (cpAtts q s).any (fun x => visited (cpDead q s.atts) (cpHasTerm s) s.ended.isSome x && x.waits)

theorem cp_state (q : Quirks) (s : Proto) :
    (checkPending q s).1 = if s.ended.isSome && !cpPending q s then { s with atts := [], hasMeta := false }
                         else { s with atts := cpAtts q s } := by
  unfold checkPending cpPending cpAtts cpHasTerm
  simp only
  split <;> rfl

/-- once the execution has ended `checkPending` leaves no cancellable slot in any seen attempt -/
theorem cp_noTask (q : Quirks) (s : Proto) (he : s.ended.isSome = true) : NoTask (checkPending q s).1.atts := by
  rw [cp_state]
  by_cases hp : cpPending q s = true
  · simp only [he, hp, Bool.not_true, Bool.and_false, Bool.false_eq_true, if_false]
    intro x' hx' hseen sl' hsl'
    -- something is pending, so some attempt is visited, so some seen attempt is terminated
    obtain ⟨y, hy, hyv⟩ := List.any_eq_true.mp hp
    have hterm : cpHasTerm s = true := by
      simp only [visited, Bool.and_eq_true] at hyv
      exact hyv.1.1.2
    obtain ⟨x, hx, rfl⟩ := List.mem_map.mp hx'
    by_cases hv : visited (cpDead q s.atts) (cpHasTerm s) s.ended.isSome x = true
    · simp only [hv, if_true] at hsl'
      obtain ⟨sl, _, rfl⟩ := List.mem_map.mp hsl'
      exact cancel_not_cancellable sl
    · simp only [hv, Bool.false_eq_true, if_false] at hseen
      exfalso
      apply hv
      simp [visited, hseen, hterm, he]
  · simp only [he, hp, Bool.true_and, Bool.not_false, if_true]
    intro x' hx'
    cases hx'

/-- once the execution has ended the metadata survives `checkPending` only while a result is pending -/
theorem cp_pending (q : Quirks) (s : Proto) (he : s.ended.isSome = true) (hm : (checkPending q s).1.hasMeta = true) :
    SomePending (checkPending q s).1.atts := by
  rw [cp_state] at hm ⊢
  by_cases hp : cpPending q s = true
  · simp only [he, hp, Bool.not_true, Bool.and_false, Bool.false_eq_true, if_false] at hm ⊢
    obtain ⟨y, hy, hyv⟩ := List.any_eq_true.mp hp
    simp only [Bool.and_eq_true] at hyv
    refine ⟨y, hy, ?_, hyv.2⟩
    have := hyv.1
    simp only [visited, Bool.and_eq_true] at this
    exact this.1.1
  · simp [he, hp] at hm

/-! ### the result walk `bubble` -/

theorem mem_modify {α : Type} (f : α → α) : ∀ (l : List α) (i : Nat) (y : α), y ∈ l.modify i f → y ∈ l ∨ ∃ z ∈ l, y = f z
  | [], _, y, h => by rw [List.modify_nil] at h; cases h
  | z :: l, 0, y, h => by
    simp only [List.modify_zero_cons, List.mem_cons] at h
    rcases h with rfl | h
    · exact Or.inr ⟨z, List.mem_cons_self, rfl⟩
    · exact Or.inl (List.mem_cons_of_mem _ h)
  | z :: l, i + 1, y, h => by
    simp only [List.modify_succ_cons, List.mem_cons] at h
    rcases h with rfl | h
    · exact Or.inl List.mem_cons_self
    · rcases mem_modify f l i y h with h | ⟨w, hw, rfl⟩
      · exact Or.inl (List.mem_cons_of_mem _ h)
      · exact Or.inr ⟨w, List.mem_cons_of_mem _ hw, rfl⟩

theorem upd_forall (P : Attempt → Prop) (atts : List Attempt) (a : Nat) (f : Attempt → Attempt)
    (hf : ∀ x, P x → P (f x)) (h : ∀ x ∈ atts, P x) : ∀ x ∈ upd atts a f, P x := by
  intro x hx
  unfold upd at hx
  obtain ⟨y, hy, rfl⟩ := List.mem_map.mp hx
  split
  · exact hf y (h y hy)
  · exact h y hy

theorem markCaught_keeps (atts : List Attempt) (par : Option (Nat × Nat)) : KeepsAll atts (markCaught atts par) := by
  unfold markCaught
  split
  · exact upd_keeps _ _ _ (fun y => setSlot_keeps _ _ y)
  · exact KeepsAll.rfl' _

theorem bub_keeps (q : Quirks) (e : Bool) : ∀ atts a i r, KeepsAll atts (bubble q e atts a i r).atts := by
  intro atts
  induction atts with
  | nil => intro a i r; simp only [bubble]; exact .nil
  | cons x rest ih =>
    intro a i r
    simp only [bubble]
    repeat' split
    all_goals first
      | exact .cons (Keeps.refl _) (KeepsAll.rfl' _)
      | exact .cons ⟨rfl, rfl, id, id⟩ (KeepsAll.rfl' _)
      | exact .cons ⟨rfl, rfl, fun _ => rfl, id⟩ (KeepsAll.rfl' _)
      | exact .cons ⟨rfl, rfl, id, fun _ => rfl⟩ (KeepsAll.rfl' _)
      | exact .cons ⟨rfl, rfl, id, fun _ => rfl⟩ (ih _ _ _)
      | exact .cons ⟨rfl, rfl, fun _ => rfl, id⟩ (ih _ _ _)
      | exact .cons (Keeps.refl _) (ih _ _ _)
      | exact .cons ⟨rfl, rfl, fun _ => rfl, id⟩ (markCaught_keeps _ _)
      | exact .cons ⟨rfl, rfl, id, fun _ => rfl⟩ (markCaught_keeps _ _)

/-- an elementwise property kept by the four kinds of change `bubble` makes is kept by `bubble` -/
theorem bub_forall (P : Attempt → Prop)
    (h1 : ∀ x i v, P x → P { x with seen := true, slots := x.slots.modify i (fun _ => .done v) })
    (h2 : ∀ x, x.seen = true → P x → P { x with terminated := true })
    (h3 : ∀ x, P x → P { x with joined := true })
    (h4 : ∀ x i, P x → P (setSlot i (fun _ => .caught) x))
    (q : Quirks) (e : Bool) :
    ∀ atts a i r, (∀ x ∈ atts, P x) → ∀ x ∈ (bubble q e atts a i r).atts, P x := by
  intro atts
  induction atts with
  | nil => intro a i r _ x hx; simp [bubble] at hx
  | cons x rest ih =>
    intro a i r h
    have hx := h x List.mem_cons_self
    have hr : ∀ y ∈ rest, P y := fun y hy => h y (List.mem_cons_of_mem _ hy)
    have hc : ∀ par, ∀ y ∈ markCaught rest par, P y := by
      intro par
      unfold markCaught
      split
      · exact upd_forall P rest _ _ (fun y hy => h4 y _ hy) hr
      · exact hr
    simp only [bubble]
    repeat' split
    all_goals (simp only [Walk.under, List.mem_cons, forall_eq_or_imp])
    all_goals first
      | exact ⟨hx, hr⟩
      | exact ⟨h1 _ _ _ hx, hr⟩
      | exact ⟨h3 _ (h1 _ _ _ hx), hr⟩
      | exact ⟨h2 _ rfl (h1 _ _ _ hx), hr⟩
      | exact ⟨h3 _ (h1 _ _ _ hx), ih _ _ _ hr⟩
      | exact ⟨h2 _ rfl (h1 _ _ _ hx), ih _ _ _ hr⟩
      | exact ⟨hx, ih _ _ _ hr⟩
      | exact ⟨h2 _ rfl (h1 _ _ _ hx), hc _⟩
      | exact ⟨h3 _ (h1 _ _ _ hx), hc _⟩

/-- an attempt whose results entry does not exist yet has nothing but PENDING slots; one whose entry exists has no
cancellable slot -/
def UnseenOK (x : Attempt) : Prop := x.seen = false → ∀ sl ∈ x.slots, sl = Slot.pending ∨ sl = Slot.unlaunched
def SlotsOK (x : Attempt) : Prop := x.seen = true → ∀ sl ∈ x.slots, sl.cancellable = false

def UnseenPending (atts : List Attempt) : Prop := ∀ x ∈ atts, UnseenOK x

theorem noTask_iff (atts : List Attempt) : NoTask atts ↔ ∀ x ∈ atts, SlotsOK x := Iff.rfl

theorem setSlot_unseenOK (i : Nat) (f : Slot → Slot) (x : Attempt) (h : UnseenOK x) : UnseenOK (setSlot i f x) := by
  unfold setSlot
  split
  · intro hs; simp_all
  · exact h

theorem setRange_keeps (lo hi : Nat) (f : Slot → Slot) (x : Attempt) : Keeps x (setRange lo hi f x) := by
  unfold setRange
  split
  · exact ⟨rfl, rfl, id, id⟩
  · exact Keeps.refl x

theorem setRange_seen (lo hi : Nat) (f : Slot → Slot) (x : Attempt) : (setRange lo hi f x).seen = x.seen := by
  unfold setRange; split <;> rfl

theorem setRange_unseenOK (lo hi : Nat) (f : Slot → Slot) (x : Attempt) (h : UnseenOK x) : UnseenOK (setRange lo hi f x) := by
  unfold setRange
  split
  · intro hs; simp_all
  · exact h

theorem bub_unseen (q : Quirks) (e : Bool) (atts : List Attempt) (a i : Nat) (r : Res) (h : UnseenPending atts) :
    UnseenPending (bubble q e atts a i r).atts := by
  apply bub_forall UnseenOK _ _ _ _ q e atts a i r h
  · intro x i v _ hs; simp at hs
  · intro x _ hx; exact hx
  · intro x hx; exact hx
  · intro x i hx; exact setSlot_unseenOK _ _ _ hx

theorem bub_noTask (q : Quirks) (e : Bool) (atts : List Attempt) (a i : Nat) (r : Res) (hu : UnseenPending atts)
    (h : NoTask atts) : NoTask (bubble q e atts a i r).atts := by
  have := bub_forall (fun x => UnseenOK x ∧ SlotsOK x) ?_ ?_ ?_ ?_ q e atts a i r (fun x hx => ⟨hu x hx, h x hx⟩)
  · exact fun x hx => (this x hx).2
  · intro x i v ⟨hu, hs⟩
    refine ⟨fun h => by simp at h, ?_⟩
    intro _ sl hsl
    rcases mem_modify _ _ _ _ hsl with hm | ⟨_, _, rfl⟩
    · cases hseen : x.seen
      · rcases hu hseen sl hm with h | h <;> rw [h] <;> rfl
      · exact hs hseen sl hm
    · rfl
  · intro x _ hx; exact hx
  · intro x hx; exact hx
  · intro x i ⟨hu, hs⟩
    refine ⟨setSlot_unseenOK _ _ _ hu, ?_⟩
    unfold setSlot
    split
    · intro _ sl hsl
      rcases mem_modify _ _ _ _ hsl with hm | ⟨_, _, rfl⟩
      · exact hs (by assumption) sl hm
      · rfl
    · exact hs

theorem effective_tt (hs : List Handled) : effective .taskTerminated hs = .uncaught := by
  cases hs <;> rfl

theorem bub_tt (q : Quirks) (e : Bool) : ∀ atts a i hs,
    (∀ o ∈ (bubble q e atts a i (.fail .taskTerminated hs)).outs, o.quiet = true) ∧
      (bubble q e atts a i (.fail .taskTerminated hs)).endNow = none := by
  intro atts
  induction atts with
  | nil => intro a i hs; simp [bubble, Out.quiet]
  | cons x rest ih =>
    intro a i hs
    simp only [bubble, effective_tt]
    repeat' split
    all_goals (simp only [Walk.under])
    all_goals first
      | exact ih _ _ _
      | (refine ⟨?_, (ih _ _ _).2⟩
         intro o ho
         simp only [List.mem_append, List.mem_cons, List.not_mem_nil, or_false] at ho
         rcases ho with rfl | ho
         · rfl
         · exact (ih _ _ _).1 o ho)
      | (refine ⟨?_, (ih _ _ _).2⟩
         intro o ho
         simp only [List.nil_append] at ho
         exact (ih _ _ _).1 o ho)
      | simp_all [Out.quiet]

theorem bub_noend (q : Quirks) (e : Bool) : ∀ atts a i r,
    (bubble q e atts a i r).endNow = none → ∀ o ∈ (bubble q e atts a i r).outs, isEnd o = false := by
  intro atts
  induction atts with
  | nil => intro a i r; simp [bubble, isEnd]
  | cons x rest ih =>
    intro a i r
    simp only [bubble]
    repeat' split
    all_goals (simp only [Walk.under])
    all_goals first
      | (intro h o ho
         simp only [List.nil_append] at ho
         exact ih _ _ _ h o ho)
      | (intro h o ho
         simp only [List.mem_append, List.mem_cons, List.not_mem_nil, or_false] at ho
         rcases ho with rfl | ho
         · first | rfl | (split <;> rfl)
         · exact ih _ _ _ h o ho)
      | (intro h; simp at h)
      | (intro _ o ho; simp at ho; rcases ho with rfl | rfl <;> first | rfl | (split <;> rfl))
      | (intro _ o ho; simp at ho; subst ho; first | rfl | (split <;> rfl))
      | (intro _ o ho; simp at ho)

theorem bub_atmost (q : Quirks) (e : Bool) : ∀ atts a i r,
    ((bubble q e atts a i r).outs.filter isEnd).length ≤ 1 := by
  intro atts
  induction atts with
  | nil => intro a i r; simp [bubble, isEnd]
  | cons x rest ih =>
    intro a i r
    simp only [bubble]
    repeat' split
    all_goals (simp only [Walk.under])
    all_goals first
      | (simp only [List.nil_append]; exact ih _ _ _)
      | (simp only [List.filter_append, List.length_append]
         have := ih ‹_› ‹_› ‹_›
         simp_all [isEnd, List.filter])
      | simp [isEnd, List.filter]
      | (split <;> simp [isEnd, List.filter])

/-- under an ended execution the walk of a Task.Terminated callback always ends in `checkPending` -/
theorem bub_tt_cpr (q : Quirks) : ∀ atts a i hs, (bubble q true atts a i (.fail .taskTerminated hs)).cpr = true := by
  intro atts
  induction atts with
  | nil => intro a i hs; simp [bubble]
  | cons x rest ih =>
    intro a i hs
    simp only [bubble, effective_tt]
    repeat' split
    all_goals (simp only [Walk.under])
    all_goals first
      | exact ih _ _ _
      | simp_all

theorem cp_unseen (q : Quirks) (s : Proto) (h : UnseenPending s.atts) : UnseenPending (checkPending q s).1.atts := by
  intro x' hx' hs sl' hsl'
  rcases cp_atts _ s with hh | hh
  · rw [hh.1] at hx'; cases hx'
  · rw [hh.2] at hx'
    obtain ⟨x, hx, rfl⟩ := List.mem_map.mp hx'
    by_cases hv : visited (cpDead q s.atts) (s.atts.any fun x => x.seen && x.terminated) s.ended.isSome x = true
    · simp only [hv, if_true] at hs
      simp [visited, hs] at hv
    · simp only [hv, Bool.false_eq_true, if_false] at hs hsl'
      exact h x hx hs sl' hsl'

theorem markOwn_keeps (i : Nat) (x : Attempt) : Keeps x (markOwn i x) := ⟨rfl, rfl, fun _ => rfl, id⟩

theorem markEnclosing_keeps (i : Nat) (x : Attempt) : Keeps x (markEnclosing i x) := by
  unfold markEnclosing
  split
  · exact ⟨rfl, rfl, fun _ => rfl, id⟩
  · exact Keeps.refl x

theorem markUp_forall (P : Attempt → Prop) (hown : ∀ x i, P x → P (markOwn i x)) (henc : ∀ x i, P x → P (markEnclosing i x))
    (e : Bool) : ∀ atts a i own, (∀ x ∈ atts, P x) → ∀ x ∈ markUp e atts a i own, P x := by
  intro atts
  induction atts with
  | nil => intro a i own _ x hx; simp [markUp] at hx
  | cons x rest ih =>
    intro a i own h
    have hx := h x List.mem_cons_self
    have hr : ∀ y ∈ rest, P y := fun y hy => h y (List.mem_cons_of_mem _ hy)
    simp only [markUp]
    repeat' split
    all_goals (simp only [List.mem_cons, forall_eq_or_imp])
    all_goals first
      | exact ⟨hown _ _ hx, ih _ _ _ hr⟩
      | exact ⟨henc _ _ hx, ih _ _ _ hr⟩
      | exact ⟨hown _ _ hx, hr⟩
      | exact ⟨henc _ _ hx, hr⟩
      | exact ⟨hx, ih _ _ _ hr⟩

theorem markUp_keeps (e : Bool) : ∀ atts a i own, KeepsAll atts (markUp e atts a i own) := by
  intro atts
  induction atts with
  | nil => intro a i own; simp only [markUp]; exact .nil
  | cons x rest ih =>
    intro a i own
    simp only [markUp]
    repeat' split
    all_goals first
      | exact .cons (markOwn_keeps _ _) (ih _ _ _)
      | exact .cons (markEnclosing_keeps _ _) (ih _ _ _)
      | exact .cons (markOwn_keeps _ _) (KeepsAll.rfl' _)
      | exact .cons (markEnclosing_keeps _ _) (KeepsAll.rfl' _)
      | exact .cons (Keeps.refl _) (ih _ _ _)

theorem markOwn_unseenOK (i : Nat) (x : Attempt) : UnseenOK (markOwn i x) := by
  intro h; simp [markOwn] at h

theorem markEnclosing_unseenOK (i : Nat) (x : Attempt) (h : UnseenOK x) : UnseenOK (markEnclosing i x) := by
  unfold markEnclosing
  split
  · intro hs; simp_all
  · exact h

/-- the invariant of the repaired protocol -/
structure Inv (s : Proto) : Prop where
  noTask : s.ended.isSome = true → NoTask s.atts
  pending : s.ended.isSome = true → s.hasMeta = true → SomePending s.atts
  noMeta : s.hasMeta = false → ∀ x ∈ s.atts, x.seen = false
  unseen : UnseenPending s.atts

theorem inv_init : Inv init := by
  constructor <;> simp [init, NoTask, UnseenPending]

/-- a state that has just been through `checkPending` -/
theorem inv_cp (q : Quirks) (s : Proto) (hm : s.hasMeta = true) (hu : UnseenPending s.atts) : Inv (checkPending q s).1 := by
  constructor
  · intro he; rw [cp_ended] at he; exact cp_noTask _ s he
  · intro he hmm; rw [cp_ended] at he; exact cp_pending _ s he hmm
  · intro hmm x hx
    rcases cp_atts _ s with h | h
    · rw [h.1] at hx; cases hx
    · rw [h.1, hm] at hmm; cases hmm
  · exact cp_unseen _ s hu

theorem upd_unseen (atts : List Attempt) (a : Nat) (f : Attempt → Attempt) (hf : ∀ x, UnseenOK x → UnseenOK (f x))
    (h : UnseenPending atts) : UnseenPending (upd atts a f) :=
  upd_forall UnseenOK atts a f hf h

def seenAtts (s : Proto) (a : Nat) : List Attempt := upd s.atts a (fun y => { y with seen := true })

def marked (q : Quirks) (s : Proto) (a i : Nat) : List Attempt :=
  if q.oneLevel then markOne (seenAtts s a) a i else markUp s.ended.isSome (seenAtts s a) a i true

def isDead (q : Quirks) (s : Proto) (a : Nat) (x : Attempt) : Bool :=
  if q.oneLevel then x.terminated || parentTerminated s.atts x else s.ended.isSome || deadChain s.atts a

/-- the four ways the lookup can go -/
theorem lookup_cases (q : Quirks) (s : Proto) (a i : Nat) :
    (lookup q s a i = (.dropped, s, [.drop a i]) ∧ s.hasMeta = false ∧ s.ended.isSome = true) ∨
    (lookup q s a i = (.lost, s, [.unknown a])) ∨
    (∃ x, find s.atts a = some x ∧ isDead q s a x = true ∧
      lookup q s a i = (.dropped, (checkPending q { s with hasMeta := true, atts := marked q s a i }).1,
                         .drop a i :: (checkPending q { s with hasMeta := true, atts := marked q s a i }).2)) ∨
    (∃ x, find s.atts a = some x ∧ isDead q s a x = false ∧
      lookup q s a i = (.accept, { s with hasMeta := true, atts := seenAtts s a }, [])) := by
  unfold lookup
  by_cases h1 : (!s.hasMeta && s.ended.isSome) = true
  · left
    simp only [h1, if_true, true_and]
    simpa using h1
  · right
    simp only [h1, Bool.false_eq_true, if_false]
    cases hf : find s.atts a with
    | none => left; rfl
    | some x =>
      right
      simp only
      by_cases hd : isDead q s a x = true
      · left
        refine ⟨x, rfl, hd, ?_⟩
        unfold isDead at hd
        simp only [hd, if_true]
        rfl
      · right
        simp only [Bool.not_eq_true] at hd
        refine ⟨x, rfl, hd, ?_⟩
        unfold isDead at hd
        simp only [hd, Bool.false_eq_true, if_false]
        rfl

theorem lookup_ended (q : Quirks) (s : Proto) (a i : Nat) : (lookup q s a i).2.1.ended = s.ended := by
  rcases lookup_cases q s a i with h | h | ⟨x, _, _, h⟩ | ⟨x, _, _, h⟩ <;> first | rw [h.1] | rw [h]
  rw [cp_ended]

theorem lookup_fresh (q : Quirks) (s : Proto) (a i : Nat) : (lookup q s a i).2.1.fresh = s.fresh := by
  rcases lookup_cases q s a i with h | h | ⟨x, _, _, h⟩ | ⟨x, _, _, h⟩ <;> first | rw [h.1] | rw [h]
  rw [cp_fresh]

/-- the repaired lookup never accepts an event once the execution has ended -/
theorem lookup_none_ended (s : Proto) (a i : Nat) (he : s.ended.isSome = true) : (lookup Quirks.none s a i).1 ≠ .accept := by
  rcases lookup_cases Quirks.none s a i with h | h | ⟨x, _, _, h⟩ | ⟨x, _, hd, h⟩
  · rw [h.1]; simp
  · rw [h]; simp
  · rw [h]; simp
  · simp [isDead, Quirks.none, he] at hd

theorem lookup_quiet (q : Quirks) (s : Proto) (a i : Nat) : ∀ o ∈ (lookup q s a i).2.2, o.quiet = true := by
  intro o ho
  rcases lookup_cases q s a i with h | h | ⟨x, _, _, h⟩ | ⟨x, _, _, h⟩
  · rw [h.1] at ho; simp at ho; subst ho; rfl
  · rw [h] at ho; simp at ho; subst ho; rfl
  · rw [h] at ho
    simp only [List.mem_cons] at ho
    rcases ho with rfl | ho
    · rfl
    · exact cp_quiet _ _ o ho
  · rw [h] at ho; simp at ho

theorem seenAtts_unseen (s : Proto) (a : Nat) (h : UnseenPending s.atts) : UnseenPending (seenAtts s a) :=
  upd_unseen _ _ _ (fun x _ hs => by simp at hs) h

theorem marked_none_unseen (s : Proto) (a i : Nat) (h : UnseenPending s.atts) : UnseenPending (marked Quirks.none s a i) := by
  unfold marked
  simp only [Quirks.none, Bool.false_eq_true, if_false]
  exact markUp_forall UnseenOK (fun x i _ => markOwn_unseenOK i x) (fun x i hx => markEnclosing_unseenOK i x hx) _ _ _ _ _
    (seenAtts_unseen s a h)

theorem lookup_inv (s : Proto) (a i : Nat) (h : Inv s) : Inv (lookup Quirks.none s a i).2.1 := by
  rcases lookup_cases Quirks.none s a i with hh | hh | ⟨x, _, _, hh⟩ | ⟨x, _, hd, hh⟩
  · rw [hh.1]; exact h
  · rw [hh]; exact h
  · rw [hh]
    exact inv_cp _ _ rfl (marked_none_unseen s a i h.unseen)
  · rw [hh]
    have hne : s.ended.isSome = false := by
      cases hq : s.ended.isSome
      · rfl
      · simp [isDead, Quirks.none, hq] at hd
    constructor
    · intro he; simp [hne] at he
    · intro he; simp [hne] at he
    · intro hm; simp at hm
    · exact seenAtts_unseen s a h.unseen


theorem finish_ended (q : Quirks) (s : Proto) (w : Walk) :
    (finish q s w).1.ended = if w.endNow.isSome then w.endNow else s.ended := by
  unfold finish
  simp only
  split
  · rw [cp_ended]
  · rfl

theorem finish_fresh (q : Quirks) (s : Proto) (w : Walk) : (finish q s w).1.fresh = s.fresh := by
  unfold finish
  simp only
  split
  · rw [cp_fresh]
  · rfl

theorem finish_inv (q : Quirks) (s : Proto) (w : Walk) (hu : UnseenPending w.atts) (hc : s.ended.isSome = true → w.cpr = true) :
    Inv (finish q s w).1 := by
  unfold finish
  simp only
  split
  · exact inv_cp _ _ rfl hu
  · rename_i hcond
    simp only [Bool.or_eq_true, not_or, Bool.not_eq_true] at hcond
    have hne : s.ended.isSome = false := by
      cases hq : s.ended.isSome
      · rfl
      · have := hc hq; simp [this] at hcond
    have hen : w.endNow.isSome = false := hcond.2
    constructor
    · intro he; simp [hen, hne] at he
    · intro he; simp [hen, hne] at he
    · intro hm; simp at hm
    · exact hu

theorem finish_outs (q : Quirks) (s : Proto) (w : Walk) :
    (finish q s w).2 = w.outs ∨ ∃ os, (finish q s w).2 = w.outs ++ os ∧ ∀ o ∈ os, o.quiet = true := by
  unfold finish
  simp only
  split
  · exact Or.inr ⟨_, rfl, cp_quiet _ _⟩
  · exact Or.inl rfl

theorem quiet_not_end (o : Out) (h : o.quiet = true) : isEnd o = false := by
  cases o <;> simp_all [Out.quiet, isEnd]

theorem finish_endcount (q : Quirks) (s : Proto) (w : Walk) :
    ((finish q s w).2.filter isEnd).length = (w.outs.filter isEnd).length := by
  rcases finish_outs _ s w with h | ⟨os, h, hq⟩
  · rw [h]
  · rw [h, List.filter_append, List.length_append]
    have : os.filter isEnd = [] := by
      rw [List.filter_eq_nil_iff]
      intro o ho
      simp [quiet_not_end o (hq o ho)]
    simp [this]

theorem finish_quiet (q : Quirks) (s : Proto) (w : Walk) (h : ∀ o ∈ w.outs, o.quiet = true) : ∀ o ∈ (finish q s w).2, o.quiet = true := by
  intro o ho
  rcases finish_outs _ s w with hh | ⟨os, hh, hq⟩
  · rw [hh] at ho; exact h o ho
  · rw [hh] at ho
    rcases List.mem_append.mp ho with ho | ho
    · exact h o ho
    · exact hq o ho

theorem setSlot_seen (i : Nat) (f : Slot → Slot) (x : Attempt) : (setSlot i f x).seen = x.seen := by
  unfold setSlot; split <;> rfl

theorem upd_seen_forall (atts : List Attempt) (a : Nat) (f : Attempt → Attempt) (hf : ∀ x, (f x).seen = x.seen)
    (h : ∀ x ∈ atts, x.seen = false) : ∀ x ∈ upd atts a f, x.seen = false :=
  upd_forall (fun x => x.seen = false) atts a f (fun x hx => by rw [hf x]; exact hx) h

/-- a running execution: three of the four clauses hold trivially -/
theorem inv_running (s : Proto) (hne : s.ended.isSome = false) (hm : s.hasMeta = false → ∀ x ∈ s.atts, x.seen = false)
    (hu : UnseenPending s.atts) : Inv s := by
  constructor
  · intro he; simp [hne] at he
  · intro he; simp [hne] at he
  · exact hm
  · exact hu

theorem continue_inv (s : Proto) (a i : Nat) (k : Kont) (h : Inv s) (hne : s.ended.isSome = false) :
    Inv (continue_ Quirks.none s a i k).1 := by
  cases k with
  | goesOn => exact h
  | arm =>
    refine inv_running _ hne ?_ ?_
    · intro hm; exact upd_seen_forall _ _ _ (setSlot_seen _ _) (h.noMeta hm)
    · exact upd_unseen _ _ _ (fun x hx => setSlot_unseenOK _ _ _ hx) h.unseen
  | caughtOn =>
    refine inv_running _ hne ?_ ?_
    · intro hm; exact upd_seen_forall _ _ _ (setSlot_seen _ _) (h.noMeta hm)
    · exact upd_unseen _ _ _ (fun x hx => setSlot_unseenOK _ _ _ hx) h.unseen
  | done v ups =>
    simp only [continue_]
    exact finish_inv _ _ _ (bub_unseen _ _ _ _ _ _ h.unseen) (fun he => by simp [hne] at he)
  | fail e hs =>
    simp only [continue_]
    exact finish_inv _ _ _ (bub_unseen _ _ _ _ _ _ h.unseen) (fun he => by simp [hne] at he)
  | doneFail v e hs =>
    simp only [continue_]
    exact finish_inv _ _ _ (bub_unseen _ _ _ _ _ _ h.unseen) (fun he => by simp [hne] at he)

theorem find_mem (atts : List Attempt) (a : Nat) (x : Attempt) (h : find atts a = some x) : x ∈ atts ∧ x.id = a := by
  unfold find at h
  have := List.find?_some h
  exact ⟨List.mem_of_find?_eq_some h, by simpa using this⟩

theorem getElem?_mem' {α : Type} (l : List α) (i : Nat) (x : α) (h : l[i]? = some x) : x ∈ l :=
  List.mem_of_getElem? h

/-- the repaired protocol keeps its invariant -/
theorem inv_step (s : Proto) (inp : Inp) (h : Inv s) : Inv (step Quirks.none s inp).1 := by
  cases inp with
  | launch a n hi par k =>
    simp only [step]
    split
    · exact h
    · cases par with
      | none =>
        simp only [Quirks.none, Bool.not_false, Bool.and_true]
        split
        · exact h
        · rename_i hne
          simp only [Bool.not_eq_true] at hne
          refine inv_running _ hne ?_ ?_
          · intro hm x hx
            rcases List.mem_cons.mp hx with rfl | hx
            · rfl
            · exact h.noMeta hm x hx
          · intro x hx
            rcases List.mem_cons.mp hx with rfl | hx
            · intro _ sl hsl
              obtain ⟨j, _, rfl⟩ := List.mem_map.mp hsl
              split
              · exact Or.inl rfl
              · exact Or.inr rfl
            · exact h.unseen x hx
      | some pi =>
        obtain ⟨p, i⟩ := pi
        simp only
        have hi := lookup_inv s p i h
        have he := lookup_ended Quirks.none s p i
        rcases hl : lookup Quirks.none s p i with ⟨v, s1, outs⟩
        rw [hl] at hi he
        simp only at hi he
        cases v with
        | accept =>
          simp only
          have hne : s.ended.isSome = false := by
            cases hq : s.ended.isSome
            · rfl
            · have := lookup_none_ended s p i hq
              rw [hl] at this
              simp at this
          have hne1 : s1.ended.isSome = false := by rw [he]; exact hne
          refine inv_running _ hne1 ?_ ?_
          · intro hm x hx
            rcases List.mem_cons.mp hx with rfl | hx
            · rfl
            · exact hi.noMeta hm x hx
          · intro x hx
            rcases List.mem_cons.mp hx with rfl | hx
            · intro _ sl hsl
              obtain ⟨j, _, rfl⟩ := List.mem_map.mp hsl
              split
              · exact Or.inl rfl
              · exact Or.inr rfl
            · exact hi.unseen x hx
        | dropped => exact hi
        | lost => exact hi
  | batch a lo hi launch =>
    simp only [step]
    have hi' := lookup_inv s a lo h
    have he := lookup_ended Quirks.none s a lo
    rcases hl : lookup Quirks.none s a lo with ⟨v, s1, outs⟩
    rw [hl] at hi' he
    simp only at hi' he
    cases v with
    | accept =>
      simp only
      have hne : s.ended.isSome = false := by
        cases hq : s.ended.isSome
        · rfl
        · have := lookup_none_ended s a lo hq
          rw [hl] at this
          simp at this
      split
      · refine inv_running _ (by rw [he]; exact hne) ?_ ?_
        · intro hm; exact upd_seen_forall _ _ _ (setRange_seen _ _ _) (hi'.noMeta hm)
        · exact upd_unseen _ _ _ (fun x hx => setRange_unseenOK _ _ _ _ hx) hi'.unseen
      · exact hi'
    | dropped =>
      simp only
      split
      · rename_i hm
        exact inv_cp _ _ hm (upd_unseen _ _ _ (fun x hx => setRange_unseenOK _ _ _ _ hx) hi'.unseen)
      · exact hi'
    | lost => exact hi'
  | event a i k =>
    simp only [step, viaLookup]
    have hi := lookup_inv s a i h
    have he := lookup_ended Quirks.none s a i
    rcases hl : lookup Quirks.none s a i with ⟨v, s1, outs⟩
    rw [hl] at hi he
    simp only at hi he
    cases v with
    | accept =>
      simp only
      have hne : s.ended.isSome = false := by
        cases hq : s.ended.isSome
        · rfl
        · have := lookup_none_ended s a i hq
          rw [hl] at this
          simp at this
      exact continue_inv s1 a i k hi (by rw [he]; exact hne)
    | dropped => exact hi
    | lost => exact hi
  | deferred a i k =>
    simp only [step, viaLookup]
    have hi := lookup_inv s a i h
    have he := lookup_ended Quirks.none s a i
    rcases hl : lookup Quirks.none s a i with ⟨v, s1, outs⟩
    rw [hl] at hi he
    simp only at hi he
    cases v with
    | accept =>
      simp only
      have hne : s.ended.isSome = false := by
        cases hq : s.ended.isSome
        · rfl
        · have := lookup_none_ended s a i hq
          rw [hl] at this
          simp at this
      exact continue_inv s1 a i k hi (by rw [he]; exact hne)
    | dropped => exact hi
    | lost => exact hi
  | reply a i k =>
    simp only [step]
    cases hf : find s.atts a with
    | none => exact h
    | some x =>
      simp only
      cases hs : x.slots[i]? with
      | none => exact h
      | some sl =>
        simp only
        split
        · rename_i hg
          simp only [Bool.and_eq_true] at hg
          have hxm := find_mem _ _ _ hf
          have hne : s.ended.isSome = false := by
            cases hq : s.ended.isSome
            · rfl
            · have := h.noTask hq x hxm.1 hg.1 sl (getElem?_mem' _ _ _ hs)
              rw [this] at hg
              simp at hg
          have h1 : Inv { s with atts := upd s.atts a (setSlot i Slot.disarm) } := by
            refine inv_running _ hne ?_ ?_
            · intro hm; exact upd_seen_forall _ _ _ (setSlot_seen _ _) (h.noMeta hm)
            · exact upd_unseen _ _ _ (fun x hx => setSlot_unseenOK _ _ _ hx) h.unseen
          split
          · exact finish_inv _ _ _ (bub_unseen _ _ _ _ _ _ h1.unseen) (fun he => by simp [hne] at he)
          · exact continue_inv _ a i k h1 hne
        · exact h
  | echo a i =>
    simp only [step]
    cases hf : find s.atts a with
    | none => exact h
    | some x =>
      simp only
      split
      · apply finish_inv _ _ _ (bub_unseen _ _ _ _ _ _ h.unseen)
        intro he; rw [he]; exact bub_tt_cpr _ _ _ _ _
      · exact h
  | topEnd ok =>
    simp only [step, Quirks.none, Bool.not_false, Bool.and_true]
    split
    · exact h
    · split
      · rename_i hm
        exact inv_cp _ _ hm h.unseen
      · rename_i hm
        simp only [Bool.not_eq_true] at hm
        constructor
        · intro _ x hx hs
          rw [h.noMeta hm x hx] at hs
          cases hs
        · intro _ hmm; simp [hm] at hmm
        · exact h.noMeta
        · exact h.unseen
  | backstop =>
    simp only [step]
    split
    · exact h
    · split
      · constructor <;> simp [NoTask, UnseenPending]
      · rename_i hm _
        simp only [Bool.not_eq_true] at hm
        apply inv_cp
        · simpa using hm
        · intro x' hx' hs sl hsl
          obtain ⟨x, hx, rfl⟩ := List.mem_map.mp hx'
          cases hxs : x.seen
          · simp only [hxs, Bool.false_eq_true, if_false] at hsl
            exact h.unseen x hx hxs sl hsl
          · simp [hxs] at hs


theorem continue_ended_mono (q : Quirks) (s : Proto) (a i : Nat) (k : Kont) (h : s.ended.isSome = true) :
    (continue_ q s a i k).1.ended.isSome = true := by
  cases k <;> simp only [continue_] <;> try exact h
  all_goals (rw [finish_ended]; split <;> simp_all)

/-- an execution that has ended stays ended (whatever the switches) -/
theorem step_ended_mono (q : Quirks) (s : Proto) (inp : Inp) (h : s.ended.isSome = true) :
    (step q s inp).1.ended.isSome = true := by
  cases inp with
  | launch a n hi par k =>
    simp only [step]
    split
    · exact h
    · cases par with
      | none => simp only; split <;> exact h
      | some pi =>
        obtain ⟨p, i⟩ := pi
        simp only
        have he := lookup_ended q s p i
        rcases hl : lookup q s p i with ⟨v, s1, outs⟩
        rw [hl] at he
        simp only at he
        cases v <;> simp only <;> rw [he] <;> exact h
  | batch a lo hi launch =>
    simp only [step]
    have he := lookup_ended q s a lo
    rcases hl : lookup q s a lo with ⟨v, s1, outs⟩
    rw [hl] at he
    simp only at he
    cases v <;> simp only
    · split <;> (rw [he]; exact h)
    · split
      · rw [cp_ended]; rw [he]; exact h
      · rw [he]; exact h
    · rw [he]; exact h
  | event a i k =>
    simp only [step, viaLookup]
    have he := lookup_ended q s a i
    rcases hl : lookup q s a i with ⟨v, s1, outs⟩
    rw [hl] at he
    simp only at he
    cases v <;> simp only
    · exact continue_ended_mono q s1 a i k (by rw [he]; exact h)
    · rw [he]; exact h
    · rw [he]; exact h
  | deferred a i k =>
    simp only [step, viaLookup]
    have he := lookup_ended q s a i
    rcases hl : lookup q s a i with ⟨v, s1, outs⟩
    rw [hl] at he
    simp only at he
    cases v <;> simp only
    · exact continue_ended_mono q s1 a i k (by rw [he]; exact h)
    · rw [he]; exact h
    · rw [he]; exact h
  | reply a i k =>
    simp only [step]
    repeat' split
    all_goals first
      | exact h
      | (rw [finish_ended]; split <;> simp_all)
      | exact continue_ended_mono _ _ _ _ _ h
  | echo a i =>
    simp only [step]
    repeat' split
    all_goals first
      | exact h
      | (rw [finish_ended]; split <;> simp_all)
  | topEnd ok =>
    simp only [step]
    repeat' split
    all_goals first
      | exact h
      | (rw [cp_ended]; rfl)
      | rfl
  | backstop =>
    simp only [step]
    repeat' split
    all_goals first
      | exact h
      | (rw [cp_ended]; rfl)

theorem continue_quiet_or (q : Quirks) (s : Proto) (a i : Nat) (k : Kont) :
    ((continue_ q s a i k).2.filter isEnd).length ≤ 1 ∧
    ((∃ o ∈ (continue_ q s a i k).2, isEnd o = true) → (continue_ q s a i k).1.ended.isSome = true) := by
  have key : ∀ r, ((Out.progress a i :: (finish q s (bubble q s.ended.isSome s.atts a i r)).2).filter isEnd).length ≤ 1 ∧
      ((∃ o ∈ Out.progress a i :: (finish q s (bubble q s.ended.isSome s.atts a i r)).2, isEnd o = true) →
        (finish q s (bubble q s.ended.isSome s.atts a i r)).1.ended.isSome = true) := by
    intro r
    constructor
    · simp only [List.filter_cons, isEnd, Bool.false_eq_true, if_false]
      rw [finish_endcount]
      exact bub_atmost _ _ _ _ _ _
    · rintro ⟨o, ho, hoe⟩
      rcases List.mem_cons.mp ho with rfl | ho
      · cases hoe
      · rw [finish_ended]
        cases hn : (bubble q s.ended.isSome s.atts a i r).endNow with
        | some b => simp
        | none =>
          exfalso
          rcases finish_outs _ s (bubble q s.ended.isSome s.atts a i r) with hh | ⟨os, hh, hq⟩
          · rw [hh] at ho
            have := bub_noend _ _ _ _ _ _ hn o ho
            rw [this] at hoe; cases hoe
          · rw [hh] at ho
            rcases List.mem_append.mp ho with ho | ho
            · have := bub_noend _ _ _ _ _ _ hn o ho
              rw [this] at hoe; cases hoe
            · have := quiet_not_end o (hq o ho)
              rw [this] at hoe; cases hoe
  cases k with
  | goesOn => simp [continue_, isEnd]
  | arm => simp [continue_, isEnd]
  | caughtOn => simp [continue_, isEnd]
  | done v ups => simp only [continue_]; exact key _
  | fail e hs => simp only [continue_]; exact key _
  | doneFail v e hs => simp only [continue_]; exact key _


theorem quiet_filter_nil (os : List Out) (h : ∀ o ∈ os, o.quiet = true) : os.filter isEnd = [] := by
  rw [List.filter_eq_nil_iff]
  intro o ho
  simp [quiet_not_end o (h o ho)]

/-- after the end of the execution every output of the repaired protocol only tidies up -/
theorem step_quiet_after_end (s : Proto) (inp : Inp) (h : Inv s) (he : s.ended.isSome = true) :
    ∀ o ∈ (step Quirks.none s inp).2, o.quiet = true := by
  cases inp with
  | launch a n hi par k =>
    simp only [step]
    split
    · intro o ho; simp at ho; subst ho; rfl
    · cases par with
      | none =>
        simp only [Quirks.none, he, Bool.not_false, Bool.and_true, if_true]
        intro o ho; simp at ho; subst ho; rfl
      | some pi =>
        obtain ⟨p, i⟩ := pi
        simp only
        have hq := lookup_quiet Quirks.none s p i
        have hn := lookup_none_ended s p i he
        rcases hl : lookup Quirks.none s p i with ⟨v, s1, outs⟩
        rw [hl] at hq hn
        cases v with
        | accept => simp at hn
        | dropped => exact hq
        | lost => exact hq
  | batch a lo hi launch =>
    simp only [step]
    have hq := lookup_quiet Quirks.none s a lo
    have hn := lookup_none_ended s a lo he
    rcases hl : lookup Quirks.none s a lo with ⟨v, s1, outs⟩
    rw [hl] at hq hn
    cases v with
    | accept => simp at hn
    | dropped =>
      simp only
      split
      · intro o ho
        rcases List.mem_append.mp ho with ho | ho
        · exact hq o ho
        · exact cp_quiet _ _ o ho
      · exact hq
    | lost => exact hq
  | event a i k =>
    simp only [step, viaLookup]
    have hq := lookup_quiet Quirks.none s a i
    have hn := lookup_none_ended s a i he
    rcases hl : lookup Quirks.none s a i with ⟨v, s1, outs⟩
    rw [hl] at hq hn
    cases v with
    | accept => simp at hn
    | dropped => exact hq
    | lost => exact hq
  | deferred a i k =>
    simp only [step, viaLookup]
    have hq := lookup_quiet Quirks.none s a i
    have hn := lookup_none_ended s a i he
    rcases hl : lookup Quirks.none s a i with ⟨v, s1, outs⟩
    rw [hl] at hq hn
    cases v with
    | accept => simp at hn
    | dropped => exact hq
    | lost => exact hq
  | reply a i k =>
    simp only [step]
    cases hf : find s.atts a with
    | none => intro o ho; simp at ho; subst ho; rfl
    | some x =>
      simp only
      cases hs : x.slots[i]? with
      | none => intro o ho; simp at ho; subst ho; rfl
      | some sl =>
        simp only
        split
        · rename_i hg
          exfalso
          simp only [Bool.and_eq_true] at hg
          have hxm := find_mem _ _ _ hf
          have := h.noTask he x hxm.1 hg.1 sl (getElem?_mem' _ _ _ hs)
          rw [this] at hg
          simp at hg
        · intro o ho; simp at ho; subst ho; rfl
  | echo a i =>
    simp only [step]
    cases hf : find s.atts a with
    | none => intro o ho; simp at ho; subst ho; rfl
    | some x =>
      simp only
      split
      · exact finish_quiet _ _ _ (bub_tt _ _ _ _ _ _).1
      · intro o ho; simp at ho; subst ho; rfl
  | topEnd ok =>
    simp only [step, Quirks.none, he, Bool.not_false, Bool.and_true, if_true]
    intro o ho; simp at ho; subst ho; rfl
  | backstop =>
    simp only [step, he, if_true]
    split
    · intro o ho; simp at ho
    · intro o ho; simp at ho; subst ho; rfl

/-- a step of a running execution ends it at most once, and if it does the execution is ended afterwards -/
theorem step_ends (s : Proto) (inp : Inp) :
    ((step Quirks.none s inp).2.filter isEnd).length ≤ 1 ∧
    ((∃ o ∈ (step Quirks.none s inp).2, isEnd o = true) → (step Quirks.none s inp).1.ended.isSome = true) := by
  have quiet_case : ∀ (st : Proto) (os : List Out), (∀ o ∈ os, o.quiet = true) →
      (os.filter isEnd).length ≤ 1 ∧ ((∃ o ∈ os, isEnd o = true) → st.ended.isSome = true) := by
    intro st os hq
    refine ⟨by simp [quiet_filter_nil os hq], ?_⟩
    rintro ⟨o, ho, hoe⟩
    rw [quiet_not_end o (hq o ho)] at hoe
    cases hoe
  cases inp with
  | launch a n hi par k =>
    simp only [step]
    split
    · exact quiet_case _ _ (by intro o ho; simp at ho; subst ho; rfl)
    · cases par with
      | none =>
        simp only
        split
        · exact quiet_case _ _ (by intro o ho; simp at ho; subst ho; rfl)
        · simp [isEnd]
      | some pi =>
        obtain ⟨p, i⟩ := pi
        simp only
        have hq := lookup_quiet Quirks.none s p i
        rcases hl : lookup Quirks.none s p i with ⟨v, s1, outs⟩
        rw [hl] at hq
        cases v with
        | accept => simp [isEnd]
        | dropped => exact quiet_case _ _ hq
        | lost => exact quiet_case _ _ hq
  | batch a lo hi launch =>
    simp only [step]
    have hq := lookup_quiet Quirks.none s a lo
    rcases hl : lookup Quirks.none s a lo with ⟨v, s1, outs⟩
    rw [hl] at hq
    cases v with
    | accept => simp [isEnd]
    | dropped =>
      simp only
      split
      · apply quiet_case
        intro o ho
        rcases List.mem_append.mp ho with ho | ho
        · exact hq o ho
        · exact cp_quiet _ _ o ho
      · exact quiet_case _ _ hq
    | lost => exact quiet_case _ _ hq
  | event a i k =>
    simp only [step, viaLookup]
    have hq := lookup_quiet Quirks.none s a i
    rcases hl : lookup Quirks.none s a i with ⟨v, s1, outs⟩
    rw [hl] at hq
    cases v with
    | accept => exact continue_quiet_or _ _ _ _ _
    | dropped => exact quiet_case _ _ hq
    | lost => exact quiet_case _ _ hq
  | deferred a i k =>
    simp only [step, viaLookup]
    have hq := lookup_quiet Quirks.none s a i
    rcases hl : lookup Quirks.none s a i with ⟨v, s1, outs⟩
    rw [hl] at hq
    cases v with
    | accept => exact continue_quiet_or _ _ _ _ _
    | dropped => exact quiet_case _ _ hq
    | lost => exact quiet_case _ _ hq
  | reply a i k =>
    simp only [step]
    cases hf : find s.atts a with
    | none => exact quiet_case _ _ (by intro o ho; simp at ho; subst ho; rfl)
    | some x =>
      simp only
      cases hs : x.slots[i]? with
      | none => exact quiet_case _ _ (by intro o ho; simp at ho; subst ho; rfl)
      | some sl =>
        simp only
        split
        · split
          · exact quiet_case _ _ (finish_quiet _ _ _ (bub_tt _ _ _ _ _ _).1)
          · exact continue_quiet_or _ _ _ _ _
        · exact quiet_case _ _ (by intro o ho; simp at ho; subst ho; rfl)
  | echo a i =>
    simp only [step]
    cases hf : find s.atts a with
    | none => exact quiet_case _ _ (by intro o ho; simp at ho; subst ho; rfl)
    | some x =>
      simp only
      split
      · exact quiet_case _ _ (finish_quiet _ _ _ (bub_tt _ _ _ _ _ _).1)
      · exact quiet_case _ _ (by intro o ho; simp at ho; subst ho; rfl)
  | topEnd ok =>
    simp only [step]
    split
    · exact quiet_case _ _ (by intro o ho; simp at ho; subst ho; rfl)
    · split
      · refine ⟨?_, fun _ => by rw [cp_ended]; rfl⟩
        simp [List.filter_cons, isEnd, quiet_filter_nil _ (cp_quiet _ _)]
      · exact ⟨by simp [List.filter_cons, isEnd], fun _ => rfl⟩
  | backstop =>
    simp only [step]
    split
    · exact quiet_case _ _ (by intro o ho; simp at ho)
    · split
      · exact quiet_case _ _ (by intro o ho; simp at ho; subst ho; rfl)
      · refine ⟨?_, fun _ => by rw [cp_ended]; rfl⟩
        simp [List.filter_cons, isEnd, quiet_filter_nil _ (cp_quiet _ _)]

theorem run_inv (s : Proto) (is : List Inp) (h : Inv s) : Inv (run Quirks.none s is).1 := by
  induction is generalizing s with
  | nil => exact h
  | cons i is ih => simp only [run]; exact ih _ (inv_step s i h)

theorem run_ended_mono (q : Quirks) (s : Proto) (is : List Inp) (h : s.ended.isSome = true) :
    (run q s is).1.ended.isSome = true := by
  induction is generalizing s with
  | nil => exact h
  | cons i is ih => simp only [run]; exact ih _ (step_ended_mono q s i h)

theorem run_quiet_after_end (s : Proto) (is : List Inp) (h : Inv s) (he : s.ended.isSome = true) :
    ∀ o ∈ (run Quirks.none s is).2, o.quiet = true := by
  induction is generalizing s with
  | nil => intro o ho; simp [run] at ho
  | cons i is ih =>
    intro o ho
    simp only [run] at ho
    rcases List.mem_append.mp ho with ho | ho
    · exact step_quiet_after_end s i h he o ho
    · exact ih _ (inv_step s i h) (step_ended_mono _ s i he) o ho

theorem run_ends (s : Proto) (is : List Inp) (h : Inv s) :
    ((run Quirks.none s is).2.filter isEnd).length ≤ if s.ended.isSome then 0 else 1 := by
  induction is generalizing s with
  | nil => simp [run]
  | cons i is ih =>
    simp only [run, List.filter_append, List.length_append]
    have hi := inv_step s i h
    have hrest := ih _ hi
    cases he : s.ended.isSome with
    | true =>
      have h0 : (step Quirks.none s i).2.filter isEnd = [] := quiet_filter_nil _ (step_quiet_after_end s i h he)
      have he' := step_ended_mono Quirks.none s i he
      simp only [he', if_true] at hrest
      simp only [h0, List.length_nil, if_true]
      omega
    | false =>
      simp only [Bool.false_eq_true, if_false]
      obtain ⟨h1, h2⟩ := step_ends s i
      by_cases hz : ((step Quirks.none s i).2.filter isEnd).length = 0
      · have : (if (step Quirks.none s i).1.ended.isSome = true then 0 else 1) ≤ 1 := by split <;> omega
        omega
      · have hex : ∃ o ∈ (step Quirks.none s i).2, isEnd o = true := by
          have : (step Quirks.none s i).2.filter isEnd ≠ [] := by
            intro hh; rw [hh] at hz; simp at hz
          obtain ⟨o, ho⟩ := List.exists_mem_of_ne_nil _ this
          have := List.mem_filter.mp ho
          exact ⟨o, this.1, this.2⟩
        have he' := h2 hex
        simp only [he', if_true] at hrest
        omega


/-! ### identities: attempts are never re-created, `terminated` is never taken back -/

/-- the attempts are the same ones (each `Keeps`), or all gone -/
def Same (s s' : Proto) : Prop := s.fresh ≤ s'.fresh ∧ (s'.atts = [] ∨ KeepsAll s.atts s'.atts)

theorem Same.rfl' (s : Proto) : Same s s := ⟨Nat.le_refl _, Or.inr (KeepsAll.rfl' _)⟩

theorem keepsAll_nil_left {l : List Attempt} (h : KeepsAll [] l) : l = [] := by
  cases h; rfl

theorem Same.trans' {s s1 s2 : Proto} (h1 : Same s s1) (h2 : Same s1 s2) : Same s s2 := by
  refine ⟨Nat.le_trans h1.1 h2.1, ?_⟩
  rcases h2.2 with h | h
  · exact Or.inl h
  · rcases h1.2 with h' | h'
    · rw [h'] at h
      exact Or.inl (keepsAll_nil_left h)
    · exact Or.inr (h'.trans' h)

theorem same_of_atts (s : Proto) (atts : List Attempt) (m : Bool) (e : Option Bool) (h : KeepsAll s.atts atts) :
    Same s { s with atts := atts, hasMeta := m, ended := e } := ⟨Nat.le_refl _, Or.inr h⟩

theorem cp_same (q : Quirks) (s : Proto) : Same s (checkPending q s).1 := ⟨by rw [cp_fresh]; exact Nat.le_refl _, cp_keeps _ s⟩

theorem markOne_keeps (atts : List Attempt) (a i : Nat) : KeepsAll atts (markOne atts a i) := by
  unfold markOne
  repeat' split
  all_goals first
    | exact KeepsAll.rfl' _
    | exact (upd_keeps _ _ _ (markOwn_keeps _)).trans' (upd_keeps _ _ _ (markEnclosing_keeps _))
    | exact upd_keeps _ _ _ (markOwn_keeps _)

theorem seenAtts_keeps (s : Proto) (a : Nat) : KeepsAll s.atts (seenAtts s a) :=
  upd_keeps _ _ _ (fun _ => ⟨rfl, rfl, id, id⟩)

theorem marked_keeps (q : Quirks) (s : Proto) (a i : Nat) : KeepsAll s.atts (marked q s a i) := by
  unfold marked
  split
  · exact (seenAtts_keeps s a).trans' (markOne_keeps _ _ _)
  · exact (seenAtts_keeps s a).trans' (markUp_keeps _ _ _ _ _)

theorem lookup_same (q : Quirks) (s : Proto) (a i : Nat) : Same s (lookup q s a i).2.1 := by
  rcases lookup_cases q s a i with h | h | ⟨x, _, _, h⟩ | ⟨x, _, _, h⟩
  · rw [h.1]; exact Same.rfl' s
  · rw [h]; exact Same.rfl' s
  · rw [h]
    exact (same_of_atts s _ true s.ended (marked_keeps q s a i)).trans' (cp_same _ _)
  · rw [h]
    exact same_of_atts s _ true s.ended (seenAtts_keeps s a)

theorem finish_same (q : Quirks) (s : Proto) (w : Walk) (h : KeepsAll s.atts w.atts) : Same s (finish q s w).1 := by
  unfold finish
  simp only
  split
  · exact (same_of_atts s _ true _ h).trans' (cp_same _ _)
  · exact same_of_atts s _ true _ h

theorem continue_same (q : Quirks) (s : Proto) (a i : Nat) (k : Kont) : Same s (continue_ q s a i k).1 := by
  cases k with
  | goesOn => exact Same.rfl' s
  | arm => exact ⟨Nat.le_refl _, Or.inr (upd_keeps _ _ _ (setSlot_keeps _ _))⟩
  | caughtOn => exact ⟨Nat.le_refl _, Or.inr (upd_keeps _ _ _ (setSlot_keeps _ _))⟩
  | done v ups => simp only [continue_]; exact finish_same _ _ _ (bub_keeps _ _ _ _ _ _)
  | fail e hs => simp only [continue_]; exact finish_same _ _ _ (bub_keeps _ _ _ _ _ _)
  | doneFail v e hs => simp only [continue_]; exact finish_same _ _ _ (bub_keeps _ _ _ _ _ _)

/-- one step: the same attempts (or none), or those and a newly launched one with a fresh id -/
inductive Evolves (s s' : Proto) : Prop where
  | same (h : Same s s')
  | more (att : Attempt) (rest : List Attempt) (h : s'.atts = att :: rest) (hk : KeepsAll s.atts rest)
      (hid : s.fresh ≤ att.id) (hf : att.id < s'.fresh)

theorem step_evolves (q : Quirks) (s : Proto) (inp : Inp) : Evolves s (step q s inp).1 := by
  cases inp with
  | launch a n hi par k =>
    simp only [step]
    split
    · exact .same (Same.rfl' s)
    · rename_i hlt
      cases par with
      | none =>
        simp only
        split
        · exact .same (Same.rfl' s)
        · exact .more _ _ rfl (KeepsAll.rfl' _) (by simpa using hlt) (by simp)
      | some pi =>
        obtain ⟨p, i⟩ := pi
        simp only
        have hs := lookup_same q s p i
        have hfr := lookup_fresh q s p i
        rcases lookup_cases q s p i with h | h | ⟨x, _, _, h⟩ | ⟨x, _, _, h⟩
        · rw [h.1]; exact .same (Same.rfl' s)
        · rw [h]; exact .same (Same.rfl' s)
        · rw [h] at hs ⊢; exact .same hs
        · rw [h]
          exact .more _ _ rfl (seenAtts_keeps s p) (by simpa using hlt) (by simp)
  | batch a lo hi launch =>
    simp only [step]
    have hs := lookup_same q s a lo
    rcases hl : lookup q s a lo with ⟨v, s1, outs⟩
    rw [hl] at hs
    cases v with
    | accept =>
      simp only
      split
      · exact .same (hs.trans' ⟨Nat.le_refl _, Or.inr (upd_keeps _ _ _ (setRange_keeps _ _ _))⟩)
      · exact .same hs
    | dropped =>
      simp only
      split
      · exact .same (hs.trans' (Same.trans' (s1 := { s1 with atts := upd s1.atts a (setRange lo hi (fun sl => if sl == .unlaunched || sl == .pending then .terminated else sl)) })
          ⟨Nat.le_refl _, Or.inr (upd_keeps _ _ _ (setRange_keeps _ _ _))⟩ (cp_same _ _)))
      · exact .same hs
    | lost => exact .same hs
  | event a i k =>
    simp only [step, viaLookup]
    have hs := lookup_same q s a i
    rcases hl : lookup q s a i with ⟨v, s1, outs⟩
    rw [hl] at hs
    cases v with
    | accept => exact .same (hs.trans' (continue_same q s1 a i k))
    | dropped => exact .same hs
    | lost => exact .same hs
  | deferred a i k =>
    simp only [step, viaLookup]
    have hs := lookup_same q s a i
    rcases hl : lookup q s a i with ⟨v, s1, outs⟩
    rw [hl] at hs
    cases v with
    | accept => exact .same (hs.trans' (continue_same q s1 a i k))
    | dropped => exact .same hs
    | lost => exact .same hs
  | reply a i k =>
    simp only [step]
    have h1 : Same s { s with atts := upd s.atts a (setSlot i Slot.disarm) } :=
      ⟨Nat.le_refl _, Or.inr (upd_keeps _ _ _ (setSlot_keeps _ _))⟩
    repeat' split
    all_goals first
      | exact .same (Same.rfl' s)
      | exact .same (h1.trans' (finish_same _ _ _ (bub_keeps _ _ _ _ _ _)))
      | exact .same (h1.trans' (continue_same _ _ _ _ _))
  | echo a i =>
    simp only [step]
    repeat' split
    all_goals first
      | exact .same (Same.rfl' s)
      | exact .same (finish_same _ _ _ (bub_keeps _ _ _ _ _ _))
  | topEnd ok =>
    simp only [step]
    repeat' split
    all_goals first
      | exact .same (Same.rfl' s)
      | exact .same ((same_of_atts s s.atts s.hasMeta (some ok) (KeepsAll.rfl' _)).trans' (cp_same _ _))
      | exact .same (same_of_atts s s.atts s.hasMeta (some ok) (KeepsAll.rfl' _))
  | backstop =>
    simp only [step]
    repeat' split
    all_goals first
      | exact .same (Same.rfl' s)
      | exact .same ⟨Nat.le_refl _, Or.inl rfl⟩
      | (refine .same (Same.trans' (s1 := { s with ended := some false, atts := s.atts.map (fun x => if x.seen then { x with terminated := true, fullRange := true } else x) }) ⟨Nat.le_refl _, Or.inr ?_⟩ (cp_same _ _))
         apply All2.map
         intro x
         split
         · exact ⟨rfl, rfl, fun _ => rfl, id⟩
         · exact Keeps.refl x)

/-- attempt `a` will never hand over a result: its id is used up and its record, if it is still there, is terminated -/
def Dead (s : Proto) (a : Nat) : Prop := a < s.fresh ∧ ∀ x ∈ s.atts, x.id = a → x.terminated = true

theorem dead_keepsAll {l l' : List Attempt} (h : KeepsAll l l') (a : Nat) (hd : ∀ x ∈ l, x.id = a → x.terminated = true) :
    ∀ x' ∈ l', x'.id = a → x'.terminated = true := by
  intro x' hx' hid
  obtain ⟨x, hx, hk⟩ := All2.mem_right h x' hx'
  exact hk.2.2.1 (hd x hx (hk.1 ▸ hid))

theorem dead_same {s s' : Proto} (h : Same s s') (a : Nat) (hd : Dead s a) : Dead s' a := by
  refine ⟨Nat.lt_of_lt_of_le hd.1 h.1, ?_⟩
  rcases h.2 with hh | hh
  · rw [hh]; intro x hx; cases hx
  · exact dead_keepsAll hh a hd.2

theorem dead_evolves {s s' : Proto} (h : Evolves s s') (a : Nat) (hd : Dead s a) : Dead s' a := by
  cases h with
  | same h => exact dead_same h a hd
  | more att rest h hk hid hf =>
    refine ⟨by have := hd.1; omega, ?_⟩
    rw [h]
    intro x hx hxa
    rcases List.mem_cons.mp hx with rfl | hx
    · have := hd.1; omega
    · exact dead_keepsAll hk a hd.2 x hx hxa

/-- ids strictly decrease along the list (newest first) and are below `fresh` -/
def WF (s : Proto) : Prop := (s.atts.map (·.id)).Pairwise (· > ·) ∧ ∀ x ∈ s.atts, x.id < s.fresh

theorem wf_init : WF init := by simp [WF, init]

theorem below_keepsAll {l l' : List Attempt} (h : KeepsAll l l') (n : Nat) (hb : ∀ x ∈ l, x.id < n) : ∀ x' ∈ l', x'.id < n := by
  intro x' hx'
  obtain ⟨x, hx, hk⟩ := All2.mem_right h x' hx'
  rw [hk.1]; exact hb x hx

theorem wf_evolves {s s' : Proto} (h : Evolves s s') (hw : WF s) : WF s' := by
  cases h with
  | same h =>
    rcases h.2 with hh | hh
    · simp [WF, hh]
    · refine ⟨by rw [All2.ids hh]; exact hw.1, ?_⟩
      intro x' hx'
      exact Nat.lt_of_lt_of_le (below_keepsAll hh _ hw.2 x' hx') h.1
  | more att rest h hk hid hf =>
    refine ⟨?_, ?_⟩
    · rw [h, List.map_cons, List.pairwise_cons, All2.ids hk]
      refine ⟨?_, hw.1⟩
      intro b hb
      obtain ⟨x, hx, rfl⟩ := List.mem_map.mp hb
      have := hw.2 x hx
      omega
    · rw [h]
      intro x hx
      rcases List.mem_cons.mp hx with rfl | hx
      · exact hf
      · have := below_keepsAll hk _ hw.2 x hx
        omega

theorem run_wf (q : Quirks) (s : Proto) (is : List Inp) (h : WF s) : WF (run q s is).1 := by
  induction is generalizing s with
  | nil => exact h
  | cons i is ih => simp only [run]; exact ih _ (wf_evolves (step_evolves q s i) h)

theorem run_dead (q : Quirks) (s : Proto) (is : List Inp) (a : Nat) (h : Dead s a) : Dead (run q s is).1 a := by
  induction is generalizing s with
  | nil => exact h
  | cons i is ih => simp only [run]; exact ih _ (dead_evolves (step_evolves q s i) a h)


/-- what an output of the walk says about the attempts it started from -/
def OutOK (atts : List Attempt) (refail : Bool) : Out → Prop
  | .succeed a _ => ∃ x ∈ atts, x.id = a ∧ x.terminated = false
  | .failAttempt a _ => refail = false → ∃ x ∈ atts, x.id = a ∧ x.terminated = false
  | .aborted a => ∃ x ∈ atts, x.id = a ∧ x.terminated = false
  | _ => True

theorem OutOK.mono (x : Attempt) (rest : List Attempt) (rf : Bool) (o : Out) (h : OutOK rest rf o) : OutOK (x :: rest) rf o := by
  cases o <;> simp only [OutOK] at h ⊢
  · obtain ⟨y, hy, h1, h2⟩ := h; exact ⟨y, List.mem_cons_of_mem _ hy, h1, h2⟩
  · intro hr; obtain ⟨y, hy, h1, h2⟩ := h hr; exact ⟨y, List.mem_cons_of_mem _ hy, h1, h2⟩
  · obtain ⟨y, hy, h1, h2⟩ := h; exact ⟨y, List.mem_cons_of_mem _ hy, h1, h2⟩

theorem bub_outOK (q : Quirks) (e : Bool) : ∀ atts a i r, ∀ o ∈ (bubble q e atts a i r).outs, OutOK atts q.refail o := by
  intro atts
  induction atts with
  | nil => intro a i r o ho; simp [bubble] at ho; subst ho; simp [OutOK]
  | cons x rest ih =>
    intro a i r
    have mono : ∀ b j r', ∀ o ∈ (bubble q e rest b j r').outs, OutOK (x :: rest) q.refail o :=
      fun b j r' o ho => OutOK.mono _ _ _ _ (ih b j r' o ho)
    simp only [bubble]
    repeat' split
    all_goals (simp only [Walk.under, List.forall_mem_append, List.forall_mem_cons, List.nil_append])
    all_goals (repeat' apply And.intro)
    all_goals first
      | exact mono _ _ _
      | (intro o ho; cases ho)
      | (simp only [OutOK]; done)
      | (have hid : x.id = a := by simpa using ‹(x.id == a) = true›
         simp only [OutOK]
         first
           | exact ⟨x, List.mem_cons_self, hid, by simp_all⟩
           | (intro hr; exact ⟨x, List.mem_cons_self, hid, by simp_all⟩))

/-- what a failure output of the walk says about the attempts it leaves -/
def AfterOK (atts : List Attempt) : Out → Prop
  | .failAttempt a _ => ∃ x ∈ atts, x.id = a ∧ x.terminated = true
  | .aborted a => ∃ x ∈ atts, x.id = a ∧ x.terminated = true
  | _ => True

theorem AfterOK.mono (x : Attempt) (rest : List Attempt) (o : Out) (h : AfterOK rest o) : AfterOK (x :: rest) o := by
  cases o <;> simp only [AfterOK] at h ⊢
  · obtain ⟨y, hy, h1, h2⟩ := h; exact ⟨y, List.mem_cons_of_mem _ hy, h1, h2⟩
  · obtain ⟨y, hy, h1, h2⟩ := h; exact ⟨y, List.mem_cons_of_mem _ hy, h1, h2⟩

theorem bub_afterOK (q : Quirks) (e : Bool) : ∀ atts a i r, ∀ o ∈ (bubble q e atts a i r).outs,
    AfterOK (bubble q e atts a i r).atts o := by
  intro atts
  induction atts with
  | nil => intro a i r o ho; simp [bubble] at ho; subst ho; simp [AfterOK]
  | cons x rest ih =>
    intro a i r
    have mono : ∀ (y : Attempt) b j r', ∀ o ∈ (bubble q e rest b j r').outs, AfterOK (y :: (bubble q e rest b j r').atts) o :=
      fun y b j r' o ho => AfterOK.mono _ _ _ (ih b j r' o ho)
    simp only [bubble]
    repeat' split
    all_goals (simp only [Walk.under, List.forall_mem_append, List.forall_mem_cons, List.nil_append])
    all_goals (repeat' apply And.intro)
    all_goals first
      | exact mono _ _ _ _
      | (intro o ho; cases ho)
      | (simp only [AfterOK]; done)
      | (have hid : x.id = a := by simpa using ‹(x.id == a) = true›
         simp only [AfterOK]
         exact ⟨_, List.mem_cons_self, hid, rfl⟩)

/-- a result reports no failure -/
theorem bub_done_nofail (q : Quirks) (e : Bool) : ∀ atts a i v ups, ∀ b e', Out.failAttempt b e' ∉ (bubble q e atts a i (.done v ups)).outs := by
  intro atts
  induction atts with
  | nil => intro a i v ups b e' ho; simp [bubble] at ho
  | cons x rest ih =>
    intro a i v ups b e'
    simp only [bubble]
    repeat' split
    all_goals (simp only [Walk.under, List.mem_append, List.mem_cons, List.not_mem_nil, or_false, List.nil_append])
    all_goals first
      | exact ih _ _ _ _ _ _
      | (intro ho; cases ho; done)
      | (intro ho
         rcases ho with ho | ho
         · cases ho
         · first | cases ho | exact ih _ _ _ _ _ _ ho)

/-- every failure the walk of a failed branch reports carries that branch's error -/
theorem bub_fail_error (q : Quirks) (e : Bool) : ∀ atts a i e0 hs, ∀ b e', Out.failAttempt b e' ∈ (bubble q e atts a i (.fail e0 hs)).outs →
    e' = e0 := by
  intro atts
  induction atts with
  | nil => intro a i e0 hs b e' ho; simp [bubble] at ho
  | cons x rest ih =>
    intro a i e0 hs b e'
    simp only [bubble]
    repeat' split
    all_goals (simp only [Walk.under, List.mem_append, List.mem_cons, List.not_mem_nil, or_false, List.nil_append])
    all_goals first
      | exact ih _ _ _ _ _ _
      | (intro ho; cases ho; done)
      | (intro ho; injection ho with h1 h2; exact h2)
      | (intro ho
         rcases ho with ho | ho
         · first | (cases ho; done) | (cases ho; rfl) | (injection ho with h1 h2; exact h2)
         · first | (cases ho; done) | exact ih _ _ _ _ _ _ ho)


/-- outputs that are not the outcome of an attempt -/
def Out.simple : Out → Bool
  | .succeed _ _ | .failAttempt _ _ | .aborted _ | .retry _ _ | .caughtTo _ | .joinFailed _ _ => false
  | _ => true

theorem cancelsOf_simple (x : Attempt) : ∀ o ∈ cancelsOf x, o.simple = true := by
  intro o ho
  unfold cancelsOf at ho
  rw [List.mem_filterMap] at ho
  obtain ⟨i, _, hi⟩ := ho
  split at hi
  · split at hi
    · cases hi; rfl
    · cases hi
  · cases hi

theorem cp_simple (q : Quirks) (s : Proto) : ∀ o ∈ (checkPending q s).2, o.simple = true := by
  intro o ho
  unfold checkPending at ho
  simp only at ho
  have hc : ∀ o ∈ (s.atts.filter (visited (cpDead q s.atts) (s.atts.any fun x => x.seen && x.terminated) s.ended.isSome)).flatMap cancelsOf,
      o.simple = true := by
    intro o ho
    obtain ⟨x, _, hx⟩ := List.mem_flatMap.mp ho
    exact cancelsOf_simple x o hx
  split at ho
  · rcases List.mem_append.mp ho with h | h
    · exact hc o h
    · simp at h; subst h; rfl
  · exact hc o ho

theorem lookup_simple (q : Quirks) (s : Proto) (a i : Nat) : ∀ o ∈ (lookup q s a i).2.2, o.simple = true := by
  intro o ho
  rcases lookup_cases q s a i with h | h | ⟨x, _, _, h⟩ | ⟨x, _, _, h⟩
  · rw [h.1] at ho; simp at ho; subst ho; rfl
  · rw [h] at ho; simp at ho; subst ho; rfl
  · rw [h] at ho
    simp only [List.mem_cons] at ho
    rcases ho with rfl | ho
    · rfl
    · exact cp_simple _ _ o ho
  · rw [h] at ho; simp at ho

theorem finish_mem (q : Quirks) (s : Proto) (w : Walk) : ∀ o ∈ (finish q s w).2, o ∈ w.outs ∨ o.simple = true := by
  intro o ho
  unfold finish at ho
  simp only at ho
  split at ho
  · rcases List.mem_append.mp ho with h | h
    · exact Or.inl h
    · exact Or.inr (cp_simple _ _ o h)
  · exact Or.inl ho

/-- the outcome outputs of a step come from one walk over (a `Keeps` variant of) the step's attempts, which also
gives the state after the step -/
def FromWalk (q : Quirks) (s : Proto) (res : Proto × List Out) : Prop :=
  ∃ s1 b i r, KeepsAll s.atts s1.atts ∧ s1.fresh = s.fresh ∧
    res.1 = (finish q s1 (bubble q s1.ended.isSome s1.atts b i r)).1 ∧
    ∀ o ∈ res.2, o.simple = true ∨ o ∈ (bubble q s1.ended.isSome s1.atts b i r).outs

theorem continue_walk (q : Quirks) (s0 s : Proto) (a i : Nat) (k : Kont) (hk : KeepsAll s0.atts s.atts) (hf : s.fresh = s0.fresh) :
    (∀ o ∈ (continue_ q s a i k).2, o.simple = true) ∨ FromWalk q s0 (continue_ q s a i k) := by
  cases k with
  | goesOn => left; intro o ho; simp [continue_] at ho; subst ho; rfl
  | arm => left; intro o ho; simp [continue_] at ho; subst ho; rfl
  | caughtOn => left; intro o ho; simp [continue_] at ho; subst ho; rfl
  | done v ups =>
    right
    refine ⟨s, a, i, .done v ups, hk, hf, rfl, ?_⟩
    intro o ho
    simp only [continue_, List.mem_cons] at ho
    rcases ho with rfl | ho
    · exact Or.inl rfl
    · rcases finish_mem _ _ _ o ho with h | h
      · exact Or.inr h
      · exact Or.inl h
  | fail e hs =>
    right
    refine ⟨s, a, i, .fail e hs, hk, hf, rfl, ?_⟩
    intro o ho
    simp only [continue_, List.mem_cons] at ho
    rcases ho with rfl | ho
    · exact Or.inl rfl
    · rcases finish_mem _ _ _ o ho with h | h
      · exact Or.inr h
      · exact Or.inl h
  | doneFail v e hs =>
    right
    refine ⟨s, a, i, .doneFail v e hs, hk, hf, rfl, ?_⟩
    intro o ho
    simp only [continue_, List.mem_cons] at ho
    rcases ho with rfl | ho
    · exact Or.inl rfl
    · rcases finish_mem _ _ _ o ho with h | h
      · exact Or.inr h
      · exact Or.inl h

theorem step_walk (q : Quirks) (s : Proto) (inp : Inp) :
    (∀ o ∈ (step q s inp).2, o.simple = true) ∨ FromWalk q s (step q s inp) := by
  have one : ∀ (st : Proto) (o : Out), o.simple = true → ∀ o' ∈ (st, [o]).2, o'.simple = true := by
    intro st o h o' ho'; simp at ho'; subst ho'; exact h
  cases inp with
  | launch a n hi par k =>
    left
    simp only [step]
    split
    · exact one _ _ rfl
    · cases par with
      | none => simp only; split <;> exact one _ _ rfl
      | some pi =>
        obtain ⟨p, i⟩ := pi
        simp only
        have hq := lookup_simple q s p i
        rcases hl : lookup q s p i with ⟨v, s1, outs⟩
        rw [hl] at hq
        cases v with
        | accept => exact one _ _ rfl
        | dropped => exact hq
        | lost => exact hq
  | batch a lo hi launch =>
    left
    simp only [step]
    have hq := lookup_simple q s a lo
    rcases hl : lookup q s a lo with ⟨v, s1, outs⟩
    rw [hl] at hq
    cases v with
    | accept => exact one _ _ rfl
    | dropped =>
      simp only
      split
      · intro o ho
        rcases List.mem_append.mp ho with ho | ho
        · exact hq o ho
        · exact cp_simple _ _ o ho
      · exact hq
    | lost => exact hq
  | event a i k =>
    simp only [step, viaLookup]
    have hq := lookup_simple q s a i
    have hs := lookup_same q s a i
    have hfr := lookup_fresh q s a i
    rcases lookup_cases q s a i with h | h | ⟨x, _, _, h⟩ | ⟨x, _, _, h⟩
    · rw [h.1] at hq ⊢; exact Or.inl hq
    · rw [h] at hq ⊢; exact Or.inl hq
    · rw [h] at hq ⊢; exact Or.inl hq
    · rw [h]
      exact continue_walk q s _ a i k (seenAtts_keeps s a) rfl
  | deferred a i k =>
    simp only [step, viaLookup]
    have hq := lookup_simple q s a i
    rcases lookup_cases q s a i with h | h | ⟨x, _, _, h⟩ | ⟨x, _, _, h⟩
    · rw [h.1] at hq ⊢; exact Or.inl hq
    · rw [h] at hq ⊢; exact Or.inl hq
    · rw [h] at hq ⊢; exact Or.inl hq
    · rw [h]
      exact continue_walk q s _ a i k (seenAtts_keeps s a) rfl
  | reply a i k =>
    simp only [step]
    cases hf : find s.atts a with
    | none => exact Or.inl (one _ _ rfl)
    | some x =>
      simp only
      cases hs : x.slots[i]? with
      | none => exact Or.inl (one _ _ rfl)
      | some sl =>
        simp only
        split
        · split
          · right
            refine ⟨{ s with atts := upd s.atts a (setSlot i Slot.disarm) }, a, i, .fail .taskTerminated [],
              upd_keeps _ _ _ (setSlot_keeps _ _), rfl, rfl, ?_⟩
            intro o ho
            rcases finish_mem _ _ _ o ho with h | h
            · exact Or.inr h
            · exact Or.inl h
          · exact continue_walk q s _ a i k (upd_keeps _ _ _ (setSlot_keeps _ _)) rfl
        · exact Or.inl (one _ _ rfl)
  | echo a i =>
    simp only [step]
    cases hf : find s.atts a with
    | none => exact Or.inl (one _ _ rfl)
    | some x =>
      simp only
      split
      · right
        refine ⟨s, a, i, .fail .taskTerminated [], KeepsAll.rfl' _, rfl, rfl, ?_⟩
        intro o ho
        rcases finish_mem _ _ _ o ho with h | h
        · exact Or.inr h
        · exact Or.inl h
      · exact Or.inl (one _ _ rfl)
  | topEnd ok =>
    left
    simp only [step]
    split
    · exact one _ _ rfl
    · split
      · intro o ho
        simp only [List.mem_cons] at ho
        rcases ho with rfl | ho
        · rfl
        · exact cp_simple _ _ o ho
      · exact one _ _ rfl
  | backstop =>
    left
    simp only [step]
    split
    · intro o ho; simp at ho
    · split
      · exact one _ _ rfl
      · intro o ho
        simp only [List.mem_cons] at ho
        rcases ho with rfl | ho
        · rfl
        · exact cp_simple _ _ o ho


theorem live_back {l l' : List Attempt} (h : KeepsAll l l') (a : Nat) :
    (∃ x' ∈ l', x'.id = a ∧ x'.terminated = false) → ∃ x ∈ l, x.id = a ∧ x.terminated = false := by
  rintro ⟨x', hx', hid, ht⟩
  obtain ⟨x, hx, hk⟩ := All2.mem_right h x' hx'
  refine ⟨x, hx, hk.1 ▸ hid, ?_⟩
  cases hxt : x.terminated
  · rfl
  · rw [hk.2.2.1 hxt] at ht; cases ht

theorem dead_no_live (s : Proto) (a : Nat) (hd : Dead s a) : ¬ ∃ x ∈ s.atts, x.id = a ∧ x.terminated = false := by
  rintro ⟨x, hx, hid, ht⟩
  rw [hd.2 x hx hid] at ht
  cases ht

/-- a dead attempt's join never hands over, whatever the switches -/
theorem step_no_succeed_dead (q : Quirks) (s : Proto) (inp : Inp) (a : Nat) (vs : List Nat) (hd : Dead s a) :
    Out.succeed a vs ∉ (step q s inp).2 := by
  intro ho
  rcases step_walk q s inp with h | ⟨s1, b, i, r, hk, _, _, hw⟩
  · have := h _ ho; cases this
  · rcases hw _ ho with h | h
    · cases h
    · have := bub_outOK q _ _ _ _ _ _ h
      simp only [OutOK] at this
      exact dead_no_live s a hd (live_back hk a this)

/-- the repaired protocol never fails a dead attempt again -/
theorem step_no_fail_dead (q : Quirks) (hq : q.refail = false) (s : Proto) (inp : Inp) (a : Nat) (e : Err) (hd : Dead s a) :
    Out.failAttempt a e ∉ (step q s inp).2 := by
  intro ho
  rcases step_walk q s inp with h | ⟨s1, b, i, r, hk, _, _, hw⟩
  · have := h _ ho; cases this
  · rcases hw _ ho with h | h
    · cases h
    · have := bub_outOK q _ _ _ _ _ _ h
      simp only [OutOK] at this
      exact dead_no_live s a hd (live_back hk a (this hq))

theorem step_no_abort_dead (q : Quirks) (s : Proto) (inp : Inp) (a : Nat) (hd : Dead s a) :
    Out.aborted a ∉ (step q s inp).2 := by
  intro ho
  rcases step_walk q s inp with h | ⟨s1, b, i, r, hk, _, _, hw⟩
  · have := h _ ho; cases this
  · rcases hw _ ho with h | h
    · cases h
    · have := bub_outOK q _ _ _ _ _ _ h
      simp only [OutOK] at this
      exact dead_no_live s a hd (live_back hk a this)

theorem unique_of_sorted : ∀ (l : List Attempt), (l.map (·.id)).Pairwise (· > ·) → ∀ x ∈ l, ∀ y ∈ l, x.id = y.id → x = y
  | [], _, x, hx, _, _, _ => by cases hx
  | z :: l, h, x, hx, y, hy, hxy => by
    rw [List.map_cons, List.pairwise_cons] at h
    rcases List.mem_cons.mp hx with hxz | hxl
    · rcases List.mem_cons.mp hy with hyz | hyl
      · rw [hxz, hyz]
      · have := h.1 y.id (List.mem_map.mpr ⟨y, hyl, rfl⟩)
        rw [hxz] at hxy
        omega
    · rcases List.mem_cons.mp hy with hyz | hyl
      · have := h.1 x.id (List.mem_map.mpr ⟨x, hxl, rfl⟩)
        rw [hyz] at hxy
        omega
      · exact unique_of_sorted l h.2 x hxl y hyl hxy

theorem finish_atts (q : Quirks) (s : Proto) (w : Walk) : (finish q s w).1.atts = [] ∨ KeepsAll w.atts (finish q s w).1.atts := by
  unfold finish
  simp only
  split
  · exact cp_keeps _ _
  · exact Or.inr (KeepsAll.rfl' _)

/-- the step in which an attempt fails (or is torn down) leaves it dead -/
theorem step_fail_dead (q : Quirks) (s : Proto) (inp : Inp) (a : Nat) (hw : WF s)
    (ho : (∃ e, Out.failAttempt a e ∈ (step q s inp).2) ∨ Out.aborted a ∈ (step q s inp).2) :
    Dead (step q s inp).1 a := by
  have key : ∀ o ∈ (step q s inp).2, (match o with | .failAttempt b _ => b = a | .aborted b => b = a | _ => False) →
      Dead (step q s inp).1 a := by
    intro o ho hm
    rcases step_walk q s inp with h | ⟨s1, b, i, r, hk, hfr, hres, hwk⟩
    · have := h _ ho
      cases o <;> simp_all [Out.simple]
    · have hin : o ∈ (bubble q s1.ended.isSome s1.atts b i r).outs := by
        rcases hwk _ ho with h | h
        · cases o <;> simp_all [Out.simple]
        · exact h
      have haft := bub_afterOK q _ _ _ _ _ _ hin
      have hx : ∃ x' ∈ (bubble q s1.ended.isSome s1.atts b i r).atts, x'.id = a ∧ x'.terminated = true := by
        cases o <;> simp_all [AfterOK]
      obtain ⟨x', hx', hid, ht⟩ := hx
      have hk2 : KeepsAll s.atts (bubble q s1.ended.isSome s1.atts b i r).atts := hk.trans' (bub_keeps _ _ _ _ _ _)
      have hsorted : ((bubble q s1.ended.isSome s1.atts b i r).atts.map (·.id)).Pairwise (· > ·) := by
        rw [All2.ids hk2]; exact hw.1
      have hall : ∀ y ∈ (bubble q s1.ended.isSome s1.atts b i r).atts, y.id = a → y.terminated = true := by
        intro y hy hya
        have := unique_of_sorted _ hsorted y hy x' hx' (hya.trans hid.symm)
        rw [this]; exact ht
      have halt : a < s.fresh := by
        have := below_keepsAll hk2 _ hw.2 x' hx'
        omega
      rw [hres]
      refine ⟨by rw [finish_fresh, hfr]; exact halt, ?_⟩
      rcases finish_atts _ s1 (bubble q s1.ended.isSome s1.atts b i r) with h | h
      · rw [h]; intro y hy; cases hy
      · exact dead_keepsAll h a hall
  rcases ho with ⟨e, ho⟩ | ho
  · exact key _ ho rfl
  · exact key _ ho rfl

theorem run_dead_no_succeed (q : Quirks) (s : Proto) (is : List Inp) (a : Nat) (vs : List Nat) (hd : Dead s a) :
    Out.succeed a vs ∉ (run q s is).2 := by
  induction is generalizing s with
  | nil => simp [run]
  | cons i is ih =>
    simp only [run, List.mem_append, not_or]
    exact ⟨step_no_succeed_dead q s i a vs hd, ih _ (dead_evolves (step_evolves q s i) a hd)⟩

theorem run_dead_no_fail (q : Quirks) (hq : q.refail = false) (s : Proto) (is : List Inp) (a : Nat) (e : Err) (hd : Dead s a) :
    Out.failAttempt a e ∉ (run q s is).2 ∧ Out.aborted a ∉ (run q s is).2 := by
  induction is generalizing s with
  | nil => simp [run]
  | cons i is ih =>
    simp only [run, List.mem_append, not_or]
    have := ih _ (dead_evolves (step_evolves q s i) a hd)
    exact ⟨⟨step_no_fail_dead q hq s i a e hd, this.1⟩, ⟨step_no_abort_dead q s i a hd, this.2⟩⟩

theorem run_fail_dead (q : Quirks) (s : Proto) (is : List Inp) (a : Nat) (hw : WF s)
    (ho : (∃ e, Out.failAttempt a e ∈ (run q s is).2) ∨ Out.aborted a ∈ (run q s is).2) : Dead (run q s is).1 a := by
  induction is generalizing s with
  | nil => simp [run] at ho
  | cons i is ih =>
    simp only [run] at ho ⊢
    have hev := step_evolves q s i
    by_cases hstep : (∃ e, Out.failAttempt a e ∈ (step q s i).2) ∨ Out.aborted a ∈ (step q s i).2
    · exact run_dead q _ is a (step_fail_dead q s i a hw hstep)
    · apply ih _ (wf_evolves hev hw)
      rcases ho with ⟨e, ho⟩ | ho
      · rcases List.mem_append.mp ho with h | h
        · exact absurd (Or.inl ⟨e, h⟩) hstep
        · exact Or.inl ⟨e, h⟩
      · rcases List.mem_append.mp ho with h | h
        · exact absurd (Or.inr h) hstep
        · exact Or.inr h


/-! ### results addressed to an old attempt leave every other live attempt alone -/

theorem find_cons (x : Attempt) (rest : List Attempt) (b : Nat) :
    find (x :: rest) b = if x.id == b then some x else find rest b := by
  unfold find
  rw [List.find?_cons]
  split <;> simp_all

theorem find_map_id (f : Attempt → Attempt) (hf : ∀ x, (f x).id = x.id) (l : List Attempt) (b : Nat) :
    find (l.map f) b = (find l b).map f := by
  induction l with
  | nil => rfl
  | cons x rest ih =>
    rw [List.map_cons, find_cons, find_cons, hf x]
    split
    · rfl
    · exact ih

theorem find_upd_ne (l : List Attempt) (a b : Nat) (f : Attempt → Attempt) (hf : ∀ x, (f x).id = x.id) (hne : b ≠ a) :
    find (upd l a f) b = find l b := by
  induction l with
  | nil => rfl
  | cons x rest ih =>
    unfold upd at ih ⊢
    rw [List.map_cons, find_cons, find_cons]
    by_cases hxa : (x.id == a) = true
    · simp only [hxa, if_true, hf x]
      have : (x.id == b) = false := by
        have : x.id = a := by simpa using hxa
        simp [this, Ne.symm hne]
      simp only [this, Bool.false_eq_true, if_false]
      exact ih
    · simp only [hxa, Bool.false_eq_true, if_false]
      split
      · rfl
      · exact ih

theorem find_upd_eq (l : List Attempt) (a : Nat) (f : Attempt → Attempt) (hf : ∀ x, (f x).id = x.id) :
    find (upd l a f) a = (find l a).map f := by
  induction l with
  | nil => rfl
  | cons x rest ih =>
    unfold upd at ih ⊢
    rw [List.map_cons, find_cons, find_cons]
    by_cases hxa : (x.id == a) = true
    · simp [hxa, hf x]
    · simp only [hxa, Bool.false_eq_true, if_false]
      exact ih

theorem deadChain_map (f : Attempt → Attempt) (hf : ∀ x, (f x).id = x.id ∧ (f x).terminated = x.terminated ∧ (f x).parent = x.parent) :
    ∀ (l : List Attempt) (b : Nat), deadChain (l.map f) b = deadChain l b := by
  intro l
  induction l with
  | nil => intro b; rfl
  | cons x rest ih =>
    intro b
    simp only [List.map_cons, deadChain, (hf x).1, (hf x).2.1, (hf x).2.2]
    split
    · cases x.parent with
      | none => rfl
      | some pi => simp only [ih]
    · exact ih b

theorem deadChain_found (l : List Attempt) (b : Nat) (y : Attempt) (hf : find l b = some y) (hd : deadChain l b = false) :
    y.terminated = false := by
  induction l with
  | nil => cases hf
  | cons x rest ih =>
    rw [find_cons] at hf
    simp only [deadChain] at hd
    split at hf
    · rename_i hxb
      cases hf
      simp only [hxb, if_true, Bool.or_eq_false_iff] at hd
      exact hd.1
    · rename_i hxb
      simp only [hxb, Bool.false_eq_true, if_false] at hd
      exact ih hf hd

theorem deadChain_of_found (l : List Attempt) (a : Nat) (x : Attempt) (hf : find l a = some x) (ht : x.terminated = true) :
    deadChain l a = true := by
  induction l with
  | nil => cases hf
  | cons y rest ih =>
    rw [find_cons] at hf
    simp only [deadChain]
    split at hf
    · rename_i hya
      cases hf
      simp [hya, ht]
    · rename_i hya
      simp only [hya, Bool.false_eq_true, if_false]
      exact ih hf

theorem markOwn_id (i : Nat) (x : Attempt) : (markOwn i x).id = x.id := rfl
theorem markEnclosing_id (i : Nat) (x : Attempt) : (markEnclosing i x).id = x.id := by
  unfold markEnclosing; split <;> rfl

/-- marking up the chain of a dropped event leaves alone every attempt that is neither the event's nor dead -/
theorem find_markUp : ∀ (l : List Attempt) (a i : Nat) (own : Bool) (b : Nat), b ≠ a → deadChain l b = false →
    find (markUp false l a i own) b = find l b := by
  intro l
  induction l with
  | nil => intro a i own b _ _; rfl
  | cons x rest ih =>
    intro a i own b hne hd
    simp only [markUp, Bool.false_or]
    by_cases hxa : (x.id == a) = true
    · have hxb : (x.id == b) = false := by
        have : x.id = a := by simpa using hxa
        simp [this, Ne.symm hne]
      have hdr : deadChain rest b = false := by simpa [deadChain, hxb] using hd
      simp only [hxa, if_true]
      have hid : ∀ own', ((if own' = true then markOwn i x else markEnclosing i x).id == b) = false := by
        intro own'
        split
        · rw [markOwn_id]; exact hxb
        · rw [markEnclosing_id]; exact hxb
      cases hp : x.parent with
      | none =>
        simp only
        rw [find_cons, find_cons, hid, hxb]
        rfl
      | some pi =>
        obtain ⟨p, pj⟩ := pi
        simp only
        split
        · rename_i hdp
          rw [find_cons, find_cons, hid, hxb]
          simp only [Bool.false_eq_true, if_false]
          apply ih
          · intro hbp; rw [hbp, hdp] at hdr; cases hdr
          · exact hdr
        · rw [find_cons, find_cons, hid, hxb]
          rfl
    · simp only [hxa, Bool.false_eq_true, if_false]
      rw [find_cons, find_cons]
      split
      · rfl
      · rename_i hxb
        apply ih _ _ _ _ hne
        simpa [deadChain, hxb] using hd

/-- `checkPending` of a running execution leaves alone every attempt it does not count as dead -/
theorem find_cp (q : Quirks) (s : Proto) (b : Nat) (hrun : s.ended = none)
    (hb : ∀ y, find s.atts b = some y → cpDead q s.atts y = false) :
    find (checkPending q s).1.atts b = find s.atts b := by
  rw [cp_state]
  simp only [hrun, Option.isSome_none, Bool.false_and, Bool.false_eq_true, if_false]
  unfold cpAtts
  rw [find_map_id _ (by intro x; split <;> rfl)]
  cases hf : find s.atts b with
  | none => rfl
  | some y =>
    have := hb y hf
    simp [visited, this, hrun]

theorem cpDead_none_found (l : List Attempt) (b : Nat) (hd : deadChain l b = false) :
    ∀ y, find l b = some y → cpDead Quirks.none l y = false := by
  intro y hy
  have hid : y.id = b := by
    unfold find at hy
    simpa using List.find?_some hy
  simp [cpDead, Quirks.none, hid, hd]

/-- marking up the chain of a dropped event of a dead attempt makes no attempt dead that was not -/
theorem deadChain_markUp : ∀ (l : List Attempt) (a i : Nat) (own : Bool) (b : Nat), deadChain l a = true →
    deadChain l b = false → deadChain (markUp false l a i own) b = false := by
  intro l
  induction l with
  | nil => intro a i own b _ _; rfl
  | cons x rest ih =>
    intro a i own b ha hd
    simp only [markUp, Bool.false_or]
    by_cases hxa : (x.id == a) = true
    · have hne : (x.id == b) = false := by
        cases hxb : (x.id == b)
        · rfl
        · exfalso
          have h1 : x.id = a := by simpa using hxa
          have h2 : x.id = b := by simpa using hxb
          rw [← h1, h2, hd] at ha
          cases ha
      have hdr : deadChain rest b = false := by simpa [deadChain, hne] using hd
      simp only [hxa, if_true]
      have hid : ∀ own', ((if own' = true then markOwn i x else markEnclosing i x).id == b) = false := by
        intro own'
        split
        · rw [markOwn_id]; exact hne
        · rw [markEnclosing_id]; exact hne
      cases hp : x.parent with
      | none =>
        simp only
        simp only [deadChain, hid, Bool.false_eq_true, if_false]
        exact hdr
      | some pi =>
        obtain ⟨p, pj⟩ := pi
        simp only
        split
        · rename_i hdp
          simp only [deadChain, hid, Bool.false_eq_true, if_false]
          exact ih _ _ _ _ hdp hdr
        · simp only [deadChain, hid, Bool.false_eq_true, if_false]
          exact hdr
    · simp only [hxa, Bool.false_eq_true, if_false]
      have har : deadChain rest a = true := by simpa [deadChain, hxa] using ha
      simp only [deadChain] at hd ⊢
      split
      · rename_i hxb
        simp only [hxb, if_true, Bool.or_eq_false_iff] at hd
        simp only [Bool.or_eq_false_iff]
        refine ⟨hd.1, ?_⟩
        cases hp : x.parent with
        | none => rfl
        | some pi =>
          simp only [hp] at hd ⊢
          exact ih _ _ _ _ har hd.2
      · rename_i hxb
        simp only [hxb, Bool.false_eq_true, if_false] at hd
        exact ih _ _ _ _ har hd

/-- a Task.Terminated callback arriving at a terminated attempt makes no attempt dead that was not -/
theorem deadChain_bubble_tt (e : Bool) : ∀ (l : List Attempt) (a i : Nat) (hs : List Handled) (x : Attempt),
    find l a = some x → x.terminated = true →
    ∀ b, deadChain (bubble Quirks.none e l a i (.fail .taskTerminated hs)).atts b = deadChain l b := by
  intro l
  induction l with
  | nil => intro a i hs x hf; cases hf
  | cons y rest ih =>
    intro a i hs x hf ht b
    rw [find_cons] at hf
    simp only [bubble]
    by_cases hya : (y.id == a) = true
    · simp only [hya, if_true] at hf ⊢
      cases hf
      split
      · rfl
      · simp only [ht, Quirks.none, Bool.not_false, Bool.or_true, Bool.and_self, if_true]
        simp only [deadChain, ht]
    · simp only [hya, Bool.false_eq_true, if_false] at hf ⊢
      simp only [Walk.under, deadChain]
      split
      · cases y.parent with
        | none => rfl
        | some pi => simp only [ih _ _ _ _ hf ht]
      · exact ih _ _ _ _ hf ht b

/-- a Task.Terminated callback arriving at a terminated attempt changes nothing but that attempt's slot -/
theorem find_bubble_tt (e : Bool) : ∀ (l : List Attempt) (a i : Nat) (hs : List Handled) (x : Attempt) (b : Nat),
    find l a = some x → x.terminated = true → b ≠ a →
    find (bubble Quirks.none e l a i (.fail .taskTerminated hs)).atts b = find l b := by
  intro l
  induction l with
  | nil => intro a i hs x b hf; cases hf
  | cons y rest ih =>
    intro a i hs x b hf ht hne
    rw [find_cons] at hf
    simp only [bubble]
    by_cases hya : (y.id == a) = true
    · simp only [hya, if_true] at hf ⊢
      cases hf
      have hyb : (y.id == b) = false := by
        have : y.id = a := by simpa using hya
        simp [this, Ne.symm hne]
      split
      · rfl
      · simp only [ht, Quirks.none, Bool.not_false, Bool.or_true, Bool.and_self, if_true]
        rw [find_cons, find_cons]
        simp [hyb]
    · simp only [hya, Bool.false_eq_true, if_false] at hf ⊢
      simp only [Walk.under]
      rw [find_cons, find_cons]
      split
      · rfl
      · exact ih _ _ _ _ _ hf ht hne

theorem finish_find (q : Quirks) (s : Proto) (w : Walk) (b : Nat) (hrun : s.ended = none) (hend : w.endNow = none)
    (hb : ∀ y, find w.atts b = some y → cpDead q w.atts y = false) : find (finish q s w).1.atts b = find w.atts b := by
  unfold finish
  simp only [hend, Option.isSome_none, Bool.false_eq_true, if_false, Bool.or_false]
  split
  · exact find_cp q _ b hrun hb
  · rfl

/-- (vi) in the repaired protocol an input addressed to a terminated attempt `a` — a late event, deferred handler, reply or
cancellation callback of one of its branches — changes no other attempt `b` that is alive (neither it nor an attempt
enclosing it is terminated), e.g. the fresh attempt a Retry launched, and produces nothing but tidy-up outputs -/
theorem old_attempt_inputs_inert (s : Proto) (a b i : Nat) (x : Attempt) (inp : Inp)
    (hrun : s.ended = none) (hx : find s.atts a = some x) (ht : x.terminated = true)
    (hne : b ≠ a) (hb : deadChain s.atts b = false)
    (hinp : (∃ k, inp = .event a i k) ∨ (∃ k, inp = .deferred a i k) ∨ (∃ k, inp = .reply a i k) ∨ inp = .echo a i) :
    find (step Quirks.none s inp).1.atts b = find s.atts b ∧ ∀ o ∈ (step Quirks.none s inp).2, o.quiet = true := by
  have via : find (viaLookup Quirks.none s a i Kont.goesOn).1.atts b = find s.atts b ∧
      (∀ k, viaLookup Quirks.none s a i k = viaLookup Quirks.none s a i Kont.goesOn) ∧
      ∀ o ∈ (viaLookup Quirks.none s a i Kont.goesOn).2, o.quiet = true := by
    unfold viaLookup
    have hq := lookup_quiet Quirks.none s a i
    rcases lookup_cases Quirks.none s a i with h | h | ⟨x', hx', _, h⟩ | ⟨x', hx', hd, h⟩
    · rw [h.1] at hq ⊢; exact ⟨rfl, fun _ => rfl, hq⟩
    · rw [h] at hq ⊢; exact ⟨rfl, fun _ => rfl, hq⟩
    · rw [h] at hq ⊢
      refine ⟨?_, fun _ => rfl, hq⟩
      simp only
      have hseen : find (seenAtts s a) b = find s.atts b := find_upd_ne _ _ _ _ (fun _ => rfl) hne
      have hdc : deadChain (seenAtts s a) b = false := by
        unfold seenAtts upd
        rw [deadChain_map _ (by intro y; split <;> exact ⟨rfl, rfl, rfl⟩)]
        exact hb
      have hmk : find (marked Quirks.none s a i) b = find s.atts b := by
        unfold marked
        simp only [Quirks.none, Bool.false_eq_true, if_false, hrun, Option.isSome_none]
        rw [find_markUp _ _ _ _ _ hne hdc, hseen]
      have hdm : deadChain (marked Quirks.none s a i) b = false := by
        unfold marked
        simp only [Quirks.none, Bool.false_eq_true, if_false, hrun, Option.isSome_none]
        apply deadChain_markUp _ _ _ _ _ _ hdc
        unfold seenAtts upd
        rw [deadChain_map _ (by intro y; split <;> exact ⟨rfl, rfl, rfl⟩)]
        exact deadChain_of_found _ _ _ hx ht
      exact (find_cp Quirks.none { s with hasMeta := true, atts := marked Quirks.none s a i } b hrun
        (cpDead_none_found _ b hdm)).trans hmk
    · exfalso
      rw [hx] at hx'
      cases hx'
      simp [isDead, Quirks.none, deadChain_of_found _ _ _ hx ht] at hd
  rcases hinp with ⟨k, rfl⟩ | ⟨k, rfl⟩ | ⟨k, rfl⟩ | rfl
  · simp only [step]; rw [via.2.1 k]; exact ⟨via.1, via.2.2⟩
  · simp only [step]; rw [via.2.1 k]; exact ⟨via.1, via.2.2⟩
  · simp only [step, hx]
    cases hs : x.slots[i]? with
    | none => exact ⟨rfl, by intro o ho; simp at ho; subst ho; rfl⟩
    | some sl =>
      by_cases hg : (x.seen && sl.cancellable) = true
      · simp only [hg, ht, if_true]
        have hfa : find (upd s.atts a (setSlot i Slot.disarm)) a = some (setSlot i Slot.disarm x) := by
          rw [find_upd_eq _ _ _ (by intro y; unfold setSlot; split <;> rfl), hx]; rfl
        have hta : (setSlot i Slot.disarm x).terminated = true := by
          unfold setSlot; split <;> exact ht
        have hfb : find (upd s.atts a (setSlot i Slot.disarm)) b = find s.atts b :=
          find_upd_ne _ _ _ _ (by intro y; unfold setSlot; split <;> rfl) hne
        have hw := find_bubble_tt s.ended.isSome _ a i [] _ b hfa hta hne
        have hdu : deadChain (upd s.atts a (setSlot i Slot.disarm)) b = false := by
          unfold upd
          rw [deadChain_map _ (by intro y; split <;> (try unfold setSlot) <;> (try split) <;> exact ⟨rfl, rfl, rfl⟩)]
          exact hb
        have hdw := (deadChain_bubble_tt s.ended.isSome _ a i [] _ hfa hta b).trans hdu
        refine ⟨?_, finish_quiet _ _ _ (bub_tt _ _ _ _ _ _).1⟩
        exact (finish_find Quirks.none { s with atts := upd s.atts a (setSlot i Slot.disarm) } _ b hrun (bub_tt _ _ _ _ _ _).2
          (cpDead_none_found _ b hdw)).trans (hw.trans hfb)
      · simp only [hg, Bool.false_eq_true, if_false]
        exact ⟨trivial, by intro o ho; simp at ho; subst ho; rfl⟩
  · simp only [step, hx]
    split
    · have hw := find_bubble_tt s.ended.isSome _ a i [] _ b hx ht hne
      have hdw := (deadChain_bubble_tt s.ended.isSome _ a i [] _ hx ht b).trans hb
      refine ⟨?_, finish_quiet _ _ _ (bub_tt _ _ _ _ _ _).1⟩
      exact (finish_find Quirks.none s _ b hrun (bub_tt _ _ _ _ _ _).2 (cpDead_none_found _ b hdw)).trans hw
    · exact ⟨rfl, by intro o ho; simp at ho; subst ho; rfl⟩


/-- once an ending has been output the execution is ended -/
theorem run_end_ended (s : Proto) (is : List Inp) (ok : Bool) (h : Out.endExecution ok ∈ (run Quirks.none s is).2) :
    (run Quirks.none s is).1.ended.isSome = true := by
  induction is generalizing s with
  | nil => simp [run] at h
  | cons i is ih =>
    simp only [run] at h ⊢
    rcases List.mem_append.mp h with h | h
    · exact run_ended_mono _ _ is ((step_ends s i).2 ⟨_, h, rfl⟩)
    · exact ih _ h

/-- the failure a failing branch's event reports for any attempt carries that branch's error -/
theorem event_fail_error (q : Quirks) (s : Proto) (a i b : Nat) (e e' : Err) (hs : List Handled)
    (h : Out.failAttempt b e' ∈ (step q s (.event a i (.fail e hs))).2) : e' = e := by
  simp only [step, viaLookup] at h
  have hq := lookup_simple q s a i
  rcases hl : lookup q s a i with ⟨v, s1, outs⟩
  rw [hl] at h hq
  cases v with
  | accept =>
    simp only [continue_, List.mem_cons] at h
    rcases h with h | h
    · cases h
    · rcases finish_mem _ _ _ _ h with h | h
      · exact bub_fail_error _ _ _ _ _ _ _ _ _ h
      · cases h
  | dropped => have := hq _ h; cases this
  | lost => have := hq _ h; cases this

/-- the walk of a failure hands over no join -/
theorem bub_fail_nosucceed (q : Quirks) (e : Bool) : ∀ atts a i e0 hs, ∀ b vs, Out.succeed b vs ∉ (bubble q e atts a i (.fail e0 hs)).outs := by
  intro atts
  induction atts with
  | nil => intro a i e0 hs b vs ho; simp [bubble] at ho
  | cons x rest ih =>
    intro a i e0 hs b vs
    simp only [bubble]
    repeat' split
    all_goals (simp only [Walk.under, List.mem_append, List.mem_cons, List.not_mem_nil, or_false, List.nil_append])
    all_goals first
      | exact ih _ _ _ _ _ _
      | (intro ho; cases ho; done)
      | (intro ho
         rcases ho with ho | ho
         · cases ho
         · first | (cases ho; done) | exact ih _ _ _ _ _ _ ho)

/-- nor does the walk of a join that completes and then fails -/
theorem bub_doneFail_nosucceed (q : Quirks) (e : Bool) : ∀ atts a i v e0 hs, ∀ b vs,
    Out.succeed b vs ∉ (bubble q e atts a i (.doneFail v e0 hs)).outs := by
  intro atts
  induction atts with
  | nil => intro a i v e0 hs b vs ho; simp [bubble] at ho
  | cons x rest ih =>
    intro a i v e0 hs b vs
    simp only [bubble]
    repeat' split
    all_goals (simp only [Walk.under, List.mem_append, List.mem_cons, List.not_mem_nil, or_false, List.nil_append])
    all_goals first
      | exact ih _ _ _ _ _ _ _
      | (intro ho; cases ho; done)
      | (intro ho
         rcases ho with ho | ho
         · cases ho
         · first | (cases ho; done) | exact bub_fail_nosucceed _ _ _ _ _ _ _ _ _ ho)

/-- within one step an attempt does not both fail and hand over -/
theorem step_fail_excludes_succeed (q : Quirks) (s : Proto) (inp : Inp) (a b : Nat) (e : Err) (vs : List Nat)
    (h : Out.failAttempt a e ∈ (step q s inp).2) : Out.succeed b vs ∉ (step q s inp).2 := by
  intro hs
  rcases step_walk q s inp with hh | ⟨s1, c, i, r, _, _, _, hw⟩
  · have := hh _ h; cases this
  · have h1 : Out.failAttempt a e ∈ (bubble q s1.ended.isSome s1.atts c i r).outs := by
      rcases hw _ h with x | x
      · cases x
      · exact x
    have h2 : Out.succeed b vs ∈ (bubble q s1.ended.isSome s1.atts c i r).outs := by
      rcases hw _ hs with x | x
      · cases x
      · exact x
    cases r with
    | done v ups => exact bub_done_nofail _ _ _ _ _ _ _ _ _ h1
    | fail e0 hs0 => exact bub_fail_nosucceed _ _ _ _ _ _ _ _ _ h2
    | doneFail v e0 hs0 => exact bub_doneFail_nosucceed _ _ _ _ _ _ _ _ _ _ h2


/-- in the output sequence of any run no hand-over of attempt `a` comes after a failure of `a` -/
theorem run_no_succeed_after_fail (q : Quirks) (s : Proto) (is : List Inp) (hw : WF s) (a : Nat) (e : Err) (vs : List Nat)
    (pre post : List Out) (h : (run q s is).2 = pre ++ Out.failAttempt a e :: post) : Out.succeed a vs ∉ post := by
  induction is generalizing s pre with
  | nil => simp [run] at h
  | cons i is ih =>
    simp only [run] at h
    rcases List.append_eq_append_iff.mp h with ⟨mid, h1, h2⟩ | ⟨mid, h1, h2⟩
    · -- the failure is output by a later step
      exact ih _ (wf_evolves (step_evolves q s i) hw) mid h2
    · -- … or by this step, possibly followed by more outputs of this step
      cases mid with
      | nil =>
        simp only [List.append_nil, List.nil_append] at h1 h2
        exact ih _ (wf_evolves (step_evolves q s i) hw) [] (by simpa using h2.symm)
      | cons m mid =>
        simp only [List.cons_append, List.cons.injEq] at h2
        obtain ⟨rfl, h2⟩ := h2
        have hin : Out.failAttempt a e ∈ (step q s i).2 := by rw [h1]; simp
        rw [h2]
        intro hs
        rcases List.mem_append.mp hs with hs | hs
        · exact step_fail_excludes_succeed q s i a a e vs hin (by rw [h1]; simp [hs])
        · exact run_dead_no_succeed q _ is a vs (step_fail_dead q s i a hw (Or.inl ⟨e, hin⟩)) hs


/-! ### the failure of an attempt cancels what is pending in every attempt nested under it -/

/-- a terminated attempt's results entry exists -/
def TermSeenOK (x : Attempt) : Prop := x.terminated = true → x.seen = true
def TermSeen (atts : List Attempt) : Prop := ∀ x ∈ atts, TermSeenOK x

theorem ts_setSlot (i : Nat) (f : Slot → Slot) (x : Attempt) (h : TermSeenOK x) : TermSeenOK (setSlot i f x) := by
  unfold setSlot; split
  · exact h
  · exact h

theorem ts_markEnclosing (i : Nat) (x : Attempt) (h : TermSeenOK x) : TermSeenOK (markEnclosing i x) := by
  unfold markEnclosing; split
  · intro _; assumption
  · exact h

theorem ts_markOne (atts : List Attempt) (a i : Nat) (h : TermSeen atts) : TermSeen (markOne atts a i) := by
  unfold markOne
  repeat' split
  all_goals first
    | exact h
    | exact upd_forall TermSeenOK _ _ _ (fun x hx => ts_markEnclosing _ x hx) (upd_forall TermSeenOK _ _ _ (fun x _ _ => rfl) h)
    | exact upd_forall TermSeenOK _ _ _ (fun x _ _ => rfl) h

theorem ts_seenAtts (s : Proto) (a : Nat) (h : TermSeen s.atts) : TermSeen (seenAtts s a) :=
  upd_forall TermSeenOK _ _ _ (fun x _ _ => rfl) h

theorem ts_marked (q : Quirks) (s : Proto) (a i : Nat) (h : TermSeen s.atts) : TermSeen (marked q s a i) := by
  unfold marked
  split
  · exact ts_markOne _ _ _ (ts_seenAtts s a h)
  · exact markUp_forall TermSeenOK (fun x i _ _ => rfl) (fun x i hx => ts_markEnclosing i x hx) _ _ _ _ _ (ts_seenAtts s a h)

theorem ts_cp (q : Quirks) (s : Proto) (h : TermSeen s.atts) : TermSeen (checkPending q s).1.atts := by
  intro x' hx' ht
  obtain ⟨x, hx, hs, _, hte, _⟩ := cp_seen q s x' hx'
  rw [hs]; exact h x hx (hte ▸ ht)

theorem ts_bubble (q : Quirks) (e : Bool) (atts : List Attempt) (a i : Nat) (r : Res) (h : TermSeen atts) :
    TermSeen (bubble q e atts a i r).atts := by
  apply bub_forall TermSeenOK _ _ _ _ q e atts a i r h
  · intro x i v _ _; rfl
  · intro x hs _ _; exact hs
  · intro x hx; exact hx
  · intro x i hx; exact ts_setSlot _ _ _ hx

theorem ts_lookup (q : Quirks) (s : Proto) (a i : Nat) (h : TermSeen s.atts) : TermSeen (lookup q s a i).2.1.atts := by
  rcases lookup_cases q s a i with hh | hh | ⟨x, _, _, hh⟩ | ⟨x, _, _, hh⟩
  · rw [hh.1]; exact h
  · rw [hh]; exact h
  · rw [hh]; exact ts_cp q _ (ts_marked q s a i h)
  · rw [hh]; exact ts_seenAtts s a h

theorem ts_finish (q : Quirks) (s : Proto) (w : Walk) (h : TermSeen w.atts) : TermSeen (finish q s w).1.atts := by
  unfold finish
  simp only
  split
  · exact ts_cp q _ h
  · exact h

theorem ts_continue (q : Quirks) (s : Proto) (a i : Nat) (k : Kont) (h : TermSeen s.atts) :
    TermSeen (continue_ q s a i k).1.atts := by
  cases k with
  | goesOn => exact h
  | arm => exact upd_forall TermSeenOK _ _ _ (fun x hx => ts_setSlot _ _ x hx) h
  | caughtOn => exact upd_forall TermSeenOK _ _ _ (fun x hx => ts_setSlot _ _ x hx) h
  | done v ups => simp only [continue_]; exact ts_finish _ _ _ (ts_bubble _ _ _ _ _ _ h)
  | fail e hs => simp only [continue_]; exact ts_finish _ _ _ (ts_bubble _ _ _ _ _ _ h)
  | doneFail v e hs => simp only [continue_]; exact ts_finish _ _ _ (ts_bubble _ _ _ _ _ _ h)

theorem ts_step (q : Quirks) (s : Proto) (inp : Inp) (h : TermSeen s.atts) : TermSeen (step q s inp).1.atts := by
  have hcons : ∀ (att : Attempt) (l : List Attempt), att.terminated = false → TermSeen l → TermSeen (att :: l) := by
    intro att l ht hl x hx
    rcases List.mem_cons.mp hx with rfl | hx
    · intro hh; rw [ht] at hh; cases hh
    · exact hl x hx
  cases inp with
  | launch a n hi par k =>
    simp only [step]
    split
    · exact h
    · cases par with
      | none => simp only; split; exact h; exact hcons _ _ rfl h
      | some pi =>
        obtain ⟨p, i⟩ := pi
        simp only
        have hl := ts_lookup q s p i h
        rcases hlk : lookup q s p i with ⟨v, s1, outs⟩
        rw [hlk] at hl
        cases v with
        | accept => exact hcons _ _ rfl hl
        | dropped => exact hl
        | lost => exact hl
  | batch a lo hi launch =>
    simp only [step]
    have hl := ts_lookup q s a lo h
    rcases hlk : lookup q s a lo with ⟨v, s1, outs⟩
    rw [hlk] at hl
    have hset : ∀ f, TermSeen (upd s1.atts a (setRange lo hi f)) := fun f =>
      upd_forall TermSeenOK _ _ _ (fun x hx => by unfold setRange; split <;> exact hx) hl
    cases v with
    | accept => simp only; split; exact hset _; exact hl
    | dropped => simp only; split; exact ts_cp q _ (hset _); exact hl
    | lost => exact hl
  | event a i k =>
    simp only [step, viaLookup]
    have hl := ts_lookup q s a i h
    rcases hlk : lookup q s a i with ⟨v, s1, outs⟩
    rw [hlk] at hl
    cases v with
    | accept => exact ts_continue q s1 a i k hl
    | dropped => exact hl
    | lost => exact hl
  | deferred a i k =>
    simp only [step, viaLookup]
    have hl := ts_lookup q s a i h
    rcases hlk : lookup q s a i with ⟨v, s1, outs⟩
    rw [hlk] at hl
    cases v with
    | accept => exact ts_continue q s1 a i k hl
    | dropped => exact hl
    | lost => exact hl
  | reply a i k =>
    simp only [step]
    have h1 : TermSeen (upd s.atts a (setSlot i Slot.disarm)) := upd_forall TermSeenOK _ _ _ (fun x hx => ts_setSlot _ _ x hx) h
    repeat' split
    all_goals first
      | exact h
      | exact ts_finish _ _ _ (ts_bubble _ _ _ _ _ _ h1)
      | exact ts_continue q { s with atts := upd s.atts a (setSlot i Slot.disarm) } a i k h1
  | echo a i =>
    simp only [step]
    repeat' split
    all_goals first
      | exact h
      | exact ts_finish _ _ _ (ts_bubble _ _ _ _ _ _ h)
  | topEnd ok =>
    simp only [step]
    repeat' split
    all_goals first
      | exact h
      | exact ts_cp q { s with ended := some ok } h
  | backstop =>
    simp only [step]
    repeat' split
    all_goals first
      | exact h
      | (intro x hx; cases hx; done)
      | (apply ts_cp
         intro x' hx'
         obtain ⟨x, hx, rfl⟩ := List.mem_map.mp hx'
         split
         · intro _; assumption
         · exact h x hx)

theorem run_ts (q : Quirks) (s : Proto) (is : List Inp) (h : TermSeen s.atts) : TermSeen (run q s is).1.atts := by
  induction is generalizing s with
  | nil => exact h
  | cons i is ih => simp only [run]; exact ih _ (ts_step q s i h)

theorem deadChain_exists_term : ∀ (l : List Attempt) (b : Nat), deadChain l b = true → ∃ y ∈ l, y.terminated = true := by
  intro l
  induction l with
  | nil => intro b h; cases h
  | cons x rest ih =>
    intro b h
    simp only [deadChain] at h
    split at h
    · rcases Bool.or_eq_true_iff.mp h with h | h
      · exact ⟨x, List.mem_cons_self, h⟩
      · cases hp : x.parent with
        | none => simp [hp] at h
        | some pi =>
          simp only [hp] at h
          obtain ⟨y, hy, hyt⟩ := ih _ h
          exact ⟨y, List.mem_cons_of_mem _ hy, hyt⟩
    · obtain ⟨y, hy, hyt⟩ := ih _ h
      exact ⟨y, List.mem_cons_of_mem _ hy, hyt⟩

/-- after `checkPending` in the repaired protocol no task or wait is outstanding in an attempt that is dead -/
theorem cp_cancels_dead (s : Proto) (hts : TermSeen (checkPending Quirks.none s).1.atts) :
    ∀ x ∈ (checkPending Quirks.none s).1.atts, x.seen = true → deadChain (checkPending Quirks.none s).1.atts x.id = true →
      ∀ sl ∈ x.slots, sl.cancellable = false := by
  intro x' hx' hseen hdead sl hsl
  rcases cp_atts Quirks.none s with h | h
  · rw [h.1] at hx'; cases hx'
  · rw [h.2] at hx' hdead
    rw [deadChain_map _ (by intro y; split <;> exact ⟨rfl, rfl, rfl⟩)] at hdead
    obtain ⟨x, hx, rfl⟩ := List.mem_map.mp hx'
    have hid : (if visited (cpDead Quirks.none s.atts) (s.atts.any fun x => x.seen && x.terminated) s.ended.isSome x = true
        then { x with slots := x.slots.map Slot.cancel } else x).id = x.id := by split <;> rfl
    rw [hid] at hdead
    obtain ⟨y, hy, hyt⟩ := deadChain_exists_term _ _ hdead
    have hys : y.seen = true := by
      have hm := hts _ (h.2 ▸ List.mem_map.mpr ⟨y, hy, rfl⟩)
      have : (if visited (cpDead Quirks.none s.atts) (s.atts.any fun x => x.seen && x.terminated) s.ended.isSome y = true
          then { y with slots := y.slots.map Slot.cancel } else y).terminated = true := by split <;> exact hyt
      have := hm this
      revert this; split <;> exact id
    have hterm : (s.atts.any fun x => x.seen && x.terminated) = true :=
      List.any_eq_true.mpr ⟨y, hy, by simp [hyt, hys]⟩
    have hxs : x.seen = true := by
      revert hseen; split <;> exact id
    have hv : visited (cpDead Quirks.none s.atts) (s.atts.any fun x => x.seen && x.terminated) s.ended.isSome x = true := by
      simp [visited, hxs, hterm, cpDead, Quirks.none, hdead]
    simp only [hv, if_true] at hsl
    obtain ⟨sl0, _, rfl⟩ := List.mem_map.mp hsl
    exact cancel_not_cancellable sl0

/-- the walk of a genuine failure always ends in `checkPending` (possibly through `end_execution`) -/
theorem bub_genuine_flags (q : Quirks) (e : Bool) : ∀ atts a i e0 hs, e0 ≠ Err.taskTerminated →
    (bubble q e atts a i (.fail e0 hs)).cpr = true ∨ (bubble q e atts a i (.fail e0 hs)).endNow.isSome = true := by
  intro atts
  induction atts with
  | nil => intro a i e0 hs _; simp [bubble]
  | cons x rest ih =>
    intro a i e0 hs hne
    have hb : (e0 == Err.taskTerminated) = false := by simpa using hne
    simp only [bubble, hb]
    repeat' split
    all_goals (simp only [Walk.under])
    all_goals first
      | exact ih _ _ _ _ hne
      | (simp; done)
      | (simp; exact Or.inl hne)

/-- a Task.Terminated callback is never reported as the failure of an attempt -/
theorem bub_no_fail_tt (q : Quirks) (e : Bool) : ∀ atts a i r b, Out.failAttempt b Err.taskTerminated ∉ (bubble q e atts a i r).outs := by
  intro atts
  induction atts with
  | nil => intro a i r b ho; simp [bubble] at ho
  | cons x rest ih =>
    intro a i r b
    simp only [bubble]
    repeat' split
    all_goals (simp only [Walk.under, List.mem_append, List.mem_cons, List.not_mem_nil, or_false, List.nil_append])
    all_goals first
      | exact ih _ _ _ _
      | (intro ho; cases ho; done)
      | (intro ho
         rcases ho with ho | ho
         · first | (cases ho; done) | (injection ho with h1 h2; subst h2; simp_all)
         · first | (cases ho; done) | exact ih _ _ _ _ ho)
      | (intro ho; injection ho with h1 h2; subst h2; simp_all)


/-- the walk of a join that completes and then fails, if it reports a failed attempt, ends in `checkPending` too -/
theorem bub_doneFail_flags (q : Quirks) (e : Bool) : ∀ atts a i v e0 hs b e', Out.failAttempt b e' ∈ (bubble q e atts a i (.doneFail v e0 hs)).outs →
    (bubble q e atts a i (.doneFail v e0 hs)).cpr = true ∨ (bubble q e atts a i (.doneFail v e0 hs)).endNow.isSome = true := by
  intro atts
  induction atts with
  | nil => intro a i v e0 hs b e' ho; simp [bubble] at ho
  | cons x rest ih =>
    intro a i v e0 hs b e'
    simp only [bubble]
    repeat' split
    all_goals (simp only [Walk.under, List.mem_append, List.mem_cons, List.not_mem_nil, or_false, List.nil_append])
    all_goals first
      | exact ih _ _ _ _ _ _ _
      | (intro ho; cases ho; done)
      | (intro _; simp; done)
      | (intro ho
         rcases ho with ho | ho
         · cases ho
         · first
             | (cases ho; done)
             | (have he := bub_fail_error _ _ _ _ _ _ _ _ _ ho
                have hne : e0 ≠ Err.taskTerminated := by
                  intro hc
                  rw [he, hc] at ho
                  exact bub_no_fail_tt _ _ _ _ _ _ _ ho
                exact bub_genuine_flags _ _ _ _ _ _ _ hne))

/-- the direct law, in the model: in the repaired protocol the step in which an attempt fails leaves no task or wait
outstanding in any attempt that is dead — the failed attempt itself and every attempt nested, at any depth, in its branches -/
theorem step_failure_cancels_nested (s : Proto) (inp : Inp) (a : Nat) (e : Err) (hts : TermSeen s.atts)
    (h : Out.failAttempt a e ∈ (step Quirks.none s inp).2) :
    ∀ x ∈ (step Quirks.none s inp).1.atts, x.seen = true → deadChain (step Quirks.none s inp).1.atts x.id = true →
      ∀ sl ∈ x.slots, sl.cancellable = false := by
  have hres := ts_step Quirks.none s inp hts
  rcases step_walk Quirks.none s inp with hh | ⟨s1, b, i, r, _, _, heq, hw⟩
  · have := hh _ h; cases this
  · have hin : Out.failAttempt a e ∈ (bubble Quirks.none s1.ended.isSome s1.atts b i r).outs := by
      rcases hw _ h with x | x
      · cases x
      · exact x
    cases r with
    | done v ups => exact absurd hin (bub_done_nofail _ _ _ _ _ _ _ _ _)
    | fail e0 hs =>
      have he : e = e0 := bub_fail_error _ _ _ _ _ _ _ _ _ hin
      have hne : e0 ≠ Err.taskTerminated := by
        intro hc
        rw [he, hc] at hin
        exact bub_no_fail_tt _ _ _ _ _ _ _ hin
      have hfl := bub_genuine_flags Quirks.none s1.ended.isSome s1.atts b i e0 hs hne
      rw [heq] at hres ⊢
      unfold finish at hres ⊢
      have hc : ((bubble Quirks.none s1.ended.isSome s1.atts b i (Res.fail e0 hs)).cpr ||
          (bubble Quirks.none s1.ended.isSome s1.atts b i (Res.fail e0 hs)).endNow.isSome) = true := by
        rcases hfl with x | x <;> simp [x]
      simp only [hc, if_true] at hres ⊢
      exact cp_cancels_dead _ hres
    | doneFail v e0 hs =>
      have hfl := bub_doneFail_flags _ _ _ _ _ _ _ _ _ _ hin
      rw [heq] at hres ⊢
      unfold finish at hres ⊢
      have hc : ((bubble Quirks.none s1.ended.isSome s1.atts b i (Res.doneFail v e0 hs)).cpr ||
          (bubble Quirks.none s1.ended.isSome s1.atts b i (Res.doneFail v e0 hs)).endNow.isSome) = true := by
        rcases hfl with x | x <;> simp [x]
      simp only [hc, if_true] at hres ⊢
      exact cp_cancels_dead _ hres


/-- the walk of a Task.Terminated callback does not depend on the Retry / Catch decisions the input lists -/
theorem bub_tt_handlers_irrelevant (q : Quirks) (e : Bool) : ∀ atts a i hs hs',
    bubble q e atts a i (.fail .taskTerminated hs) = bubble q e atts a i (.fail .taskTerminated hs') := by
  intro atts
  induction atts with
  | nil => intro a i hs hs'; rfl
  | cons x rest ih =>
    intro a i hs hs'
    simp only [bubble, effective_tt]
    repeat' split
    all_goals first
      | rfl
      | (rw [ih _ _ hs hs'])
      | (rw [ih _ _ hs.tail hs'.tail])

/-- the callback of a cancel produces nothing but tidy-up outputs, whatever the switches and the state -/
theorem echo_quiet (q : Quirks) (s : Proto) (a i : Nat) : ∀ o ∈ (step q s (.echo a i)).2, o.quiet = true := by
  simp only [step]
  cases hf : find s.atts a with
  | none => intro o ho; simp at ho; subst ho; rfl
  | some x =>
    simp only
    split
    · exact finish_quiet _ _ _ (bub_tt _ _ _ _ _ _).1
    · intro o ho; simp at ho; subst ho; rfl

/-- … and so does the reply of a task whose attempt is terminated, whatever continuation the reply would have had -/
theorem reply_terminated_quiet (q : Quirks) (s : Proto) (a i : Nat) (k : Kont) (x : Attempt)
    (hf : find s.atts a = some x) (ht : x.terminated = true) :
    (∀ o ∈ (step q s (.reply a i k)).2, o.quiet = true) ∧ step q s (.reply a i k) = step q s (.reply a i .goesOn) := by
  simp only [step, hf]
  cases hs : x.slots[i]? with
  | none => exact ⟨by intro o ho; simp at ho; subst ho; rfl, rfl⟩
  | some sl =>
    simp only [ht, if_true]
    split
    · exact ⟨finish_quiet _ _ _ (bub_tt _ _ _ _ _ _).1, trivial⟩
    · exact ⟨by intro o ho; simp at ho; subst ho; rfl, trivial⟩


end Asl.FanProto
