/-
Helper lemmas about the fan-out protocol model (`AslModel/FanProto.lean`): what `checkPending`, the lookup and the
result walk `bubble` preserve, and the invariant of the repaired protocol (`Quirks.none`) every reachable state satisfies.
-/
import AslModel.FanProto
namespace Asl.FanProto

/-! ### slots -/

theorem cancel_not_cancellable (s : Slot) : s.cancel.cancellable = false := by
  cases s <;> rfl

theorem cancellable_unresolved (s : Slot) (h : s.cancellable = true) : s.unresolved = true := by
  cases s <;> simp_all [Slot.cancellable, Slot.unresolved]

/-- no seen attempt has a cancellable (task / wait outstanding) slot -/
def NoTask (atts : List Attempt) : Prop :=
  ∀ x ∈ atts, x.seen = true → ∀ sl ∈ x.slots, sl.cancellable = false

/-- some seen attempt still waits for a result -/
def SomePending (atts : List Attempt) : Prop :=
  ∃ x ∈ atts, x.seen = true ∧ x.slots.any Slot.unresolved = true

/-- what every operation keeps of an attempt: identity, position in the forest; `terminated` and `joined` only get set -/
def Keeps (x x' : Attempt) : Prop :=
  x'.id = x.id ∧ x'.parent = x.parent ∧ (x.terminated = true → x'.terminated = true) ∧
    (x.joined = true → x'.joined = true)

theorem Keeps.refl (x : Attempt) : Keeps x x := ⟨rfl, rfl, id, id⟩

theorem Keeps.trans {x y z : Attempt} (h1 : Keeps x y) (h2 : Keeps y z) : Keeps x z :=
  ⟨h2.1.trans h1.1, h2.2.1.trans h1.2.1, fun h => h2.2.2.1 (h1.2.2.1 h), fun h => h2.2.2.2 (h1.2.2.2 h)⟩

/-- positionwise relation between two lists -/
inductive All2 (R : Attempt → Attempt → Prop) : List Attempt → List Attempt → Prop where
  | nil : All2 R [] []
  | cons {a b : Attempt} {as bs : List Attempt} (h : R a b) (t : All2 R as bs) : All2 R (a :: as) (b :: bs)

theorem All2.refl {R : Attempt → Attempt → Prop} (hr : ∀ x, R x x) : ∀ l, All2 R l l
  | [] => .nil
  | x :: l => .cons (hr x) (All2.refl hr l)

theorem All2.trans {R : Attempt → Attempt → Prop} (ht : ∀ x y z, R x y → R y z → R x z) :
    ∀ {l1 l2 l3}, All2 R l1 l2 → All2 R l2 l3 → All2 R l1 l3
  | _, _, _, .nil, .nil => .nil
  | _, _, _, .cons h t, .cons h' t' => .cons (ht _ _ _ h h') (All2.trans ht t t')

theorem All2.map {R : Attempt → Attempt → Prop} (f : Attempt → Attempt) (hf : ∀ x, R x (f x)) :
    ∀ l, All2 R l (l.map f)
  | [] => .nil
  | x :: l => .cons (hf x) (All2.map f hf l)

theorem All2.mem_right {R : Attempt → Attempt → Prop} : ∀ {l l'}, All2 R l l' → ∀ x' ∈ l', ∃ x ∈ l, R x x'
  | _, _, .nil, x', h => by cases h
  | _, _, .cons h t, x', hm => by
    rcases List.mem_cons.mp hm with rfl | hm
    · exact ⟨_, List.mem_cons_self, h⟩
    · obtain ⟨x, hx, hr⟩ := All2.mem_right t x' hm
      exact ⟨x, List.mem_cons_of_mem _ hx, hr⟩

theorem All2.mem_left {R : Attempt → Attempt → Prop} : ∀ {l l'}, All2 R l l' → ∀ x ∈ l, ∃ x' ∈ l', R x x'
  | _, _, .nil, x, h => by cases h
  | _, _, .cons h t, x, hm => by
    rcases List.mem_cons.mp hm with rfl | hm
    · exact ⟨_, List.mem_cons_self, h⟩
    · obtain ⟨x', hx, hr⟩ := All2.mem_left t x hm
      exact ⟨x', List.mem_cons_of_mem _ hx, hr⟩

theorem All2.ids : ∀ {l l'}, All2 Keeps l l' → l'.map (·.id) = l.map (·.id)
  | _, _, .nil => rfl
  | _, _, .cons h t => by simp [h.1, All2.ids t]

abbrev KeepsAll := All2 Keeps

theorem KeepsAll.rfl' (l : List Attempt) : KeepsAll l l := All2.refl Keeps.refl l

theorem KeepsAll.trans' {l1 l2 l3 : List Attempt} (h1 : KeepsAll l1 l2) (h2 : KeepsAll l2 l3) : KeepsAll l1 l3 :=
  All2.trans (R := Keeps) (fun _ _ _ a b => Keeps.trans a b) h1 h2

theorem upd_keeps (atts : List Attempt) (a : Nat) (f : Attempt → Attempt) (hf : ∀ x, Keeps x (f x)) :
    KeepsAll atts (upd atts a f) := by
  unfold upd
  apply All2.map
  intro x
  by_cases h : (x.id == a) = true
  · simp [h, hf x]
  · simp [h, Keeps.refl]

theorem setSlot_keeps (i : Nat) (f : Slot → Slot) (x : Attempt) : Keeps x (setSlot i f x) := by
  unfold setSlot
  split
  · exact ⟨rfl, rfl, id, id⟩
  · exact Keeps.refl x

/-! ### `checkPending` -/

theorem cp_ended (s : Proto) : (checkPending s).1.ended = s.ended := by
  unfold checkPending
  simp only
  split <;> rfl

theorem cp_fresh (s : Proto) : (checkPending s).1.fresh = s.fresh := by
  unfold checkPending
  simp only
  split <;> rfl

theorem cancelsOf_quiet (x : Attempt) : ∀ o ∈ cancelsOf x, o.quiet = true := by
  intro o ho
  unfold cancelsOf at ho
  rw [List.mem_filterMap] at ho
  obtain ⟨i, _, hi⟩ := ho
  split at hi
  · split at hi
    · cases hi; rfl
    · cases hi
  · cases hi

theorem cp_quiet (s : Proto) : ∀ o ∈ (checkPending s).2, o.quiet = true := by
  intro o ho
  unfold checkPending at ho
  simp only at ho
  have hc : ∀ o ∈ (s.atts.filter (visited (s.atts.any fun x => x.seen && x.terminated) s.ended.isSome)).flatMap cancelsOf,
      o.quiet = true := by
    intro o ho
    obtain ⟨x, _, hx⟩ := List.mem_flatMap.mp ho
    exact cancelsOf_quiet x o hx
  split at ho
  · rcases List.mem_append.mp ho with h | h
    · exact hc o h
    · simp at h; subst h; rfl
  · exact hc o ho

theorem cp_noEnd (s : Proto) : ∀ o ∈ (checkPending s).2, isEnd o = false := by
  intro o ho
  have := cp_quiet s o ho
  cases o <;> simp_all [Out.quiet, isEnd]

/-- the attempts after `checkPending`: none, or the same with some slots cancelled -/
theorem cp_atts (s : Proto) :
    ((checkPending s).1.atts = [] ∧ (checkPending s).1.hasMeta = false) ∨
    ((checkPending s).1.hasMeta = s.hasMeta ∧
      (checkPending s).1.atts = s.atts.map (fun x =>
        if visited (s.atts.any fun x => x.seen && x.terminated) s.ended.isSome x
        then { x with slots := x.slots.map Slot.cancel } else x)) := by
  unfold checkPending
  simp only
  split
  · exact Or.inl ⟨rfl, rfl⟩
  · exact Or.inr ⟨rfl, rfl⟩

theorem cp_keeps (s : Proto) : (checkPending s).1.atts = [] ∨ KeepsAll s.atts (checkPending s).1.atts := by
  rcases cp_atts s with h | h
  · exact Or.inl h.1
  · right
    rw [h.2]
    apply All2.map
    intro x
    split
    · exact ⟨rfl, rfl, id, id⟩
    · exact Keeps.refl x

theorem cp_seen (s : Proto) : ∀ x' ∈ (checkPending s).1.atts, ∃ x ∈ s.atts, x'.seen = x.seen ∧ x'.id = x.id ∧
    x'.terminated = x.terminated ∧ (∀ sl' ∈ x'.slots, ∃ sl ∈ x.slots, sl' = sl ∨ sl' = sl.cancel) := by
  intro x' hx'
  rcases cp_atts s with h | h
  · rw [h.1] at hx'; cases hx'
  · rw [h.2] at hx'
    obtain ⟨x, hx, rfl⟩ := List.mem_map.mp hx'
    refine ⟨x, hx, ?_⟩
    split
    · refine ⟨rfl, rfl, rfl, ?_⟩
      intro sl' hsl'
      obtain ⟨sl, hsl, rfl⟩ := List.mem_map.mp hsl'
      exact ⟨sl, hsl, Or.inr rfl⟩
    · exact ⟨rfl, rfl, rfl, fun sl' h => ⟨sl', h, Or.inl rfl⟩⟩

theorem cp_noTask_pres (s : Proto) (h : NoTask s.atts) : NoTask (checkPending s).1.atts := by
  intro x' hx' hseen sl' hsl'
  obtain ⟨x, hx, hs, _, _, hsl⟩ := cp_seen s x' hx'
  obtain ⟨sl, hslm, hor⟩ := hsl sl' hsl'
  rcases hor with rfl | rfl
  · exact h x hx (hs ▸ hseen) _ hslm
  · exact cancel_not_cancellable sl

def cpHasTerm (s : Proto) : Bool := s.atts.any fun x => x.seen && x.terminated

def cpAtts (s : Proto) : List Attempt :=
  s.atts.map (fun x => if visited (cpHasTerm s) s.ended.isSome x then { x with slots := x.slots.map Slot.cancel } else x)

def cpPending (s : Proto) : Bool :=
  (cpAtts s).any (fun x => visited (cpHasTerm s) s.ended.isSome x && x.slots.any Slot.unresolved)

theorem cp_state (s : Proto) :
    (checkPending s).1 = if s.ended.isSome && !cpPending s then { s with atts := [], hasMeta := false }
                         else { s with atts := cpAtts s } := by
  unfold checkPending cpPending cpAtts cpHasTerm
  simp only
  split <;> rfl

/-- once the execution has ended `checkPending` leaves no cancellable slot in any seen attempt -/
theorem cp_noTask (s : Proto) (he : s.ended.isSome = true) : NoTask (checkPending s).1.atts := by
  rw [cp_state]
  by_cases hp : cpPending s = true
  · simp only [he, hp, Bool.not_true, Bool.and_false, Bool.false_eq_true, if_false]
    intro x' hx' hseen sl' hsl'
    -- something is pending, so some attempt is visited, so some seen attempt is terminated
    obtain ⟨y, hy, hyv⟩ := List.any_eq_true.mp hp
    have hterm : cpHasTerm s = true := by
      simp only [visited, Bool.and_eq_true] at hyv
      exact hyv.1.1.2
    obtain ⟨x, hx, rfl⟩ := List.mem_map.mp hx'
    by_cases hv : visited (cpHasTerm s) s.ended.isSome x = true
    · simp only [hv, if_true] at hsl'
      obtain ⟨sl, _, rfl⟩ := List.mem_map.mp hsl'
      exact cancel_not_cancellable sl
    · simp only [hv, Bool.false_eq_true, if_false] at hseen
      exfalso
      apply hv
      simp [visited, hseen, hterm, he]
  · simp only [he, hp, Bool.true_and, Bool.not_false, if_true]
    intro x' hx'
    cases hx'

/-- once the execution has ended the metadata survives `checkPending` only while a result is pending -/
theorem cp_pending (s : Proto) (he : s.ended.isSome = true) (hm : (checkPending s).1.hasMeta = true) :
    SomePending (checkPending s).1.atts := by
  rw [cp_state] at hm ⊢
  by_cases hp : cpPending s = true
  · simp only [he, hp, Bool.not_true, Bool.and_false, Bool.false_eq_true, if_false] at hm ⊢
    obtain ⟨y, hy, hyv⟩ := List.any_eq_true.mp hp
    simp only [Bool.and_eq_true] at hyv
    refine ⟨y, hy, ?_, hyv.2⟩
    have := hyv.1
    simp only [visited, Bool.and_eq_true] at this
    exact this.1.1
  · simp [he, hp] at hm

/-! ### the result walk `bubble` -/

theorem mem_modify {α : Type} (f : α → α) : ∀ (l : List α) (i : Nat) (y : α), y ∈ l.modify i f → y ∈ l ∨ ∃ z ∈ l, y = f z
  | [], _, y, h => by rw [List.modify_nil] at h; cases h
  | z :: l, 0, y, h => by
    simp only [List.modify_zero_cons, List.mem_cons] at h
    rcases h with rfl | h
    · exact Or.inr ⟨z, List.mem_cons_self, rfl⟩
    · exact Or.inl (List.mem_cons_of_mem _ h)
  | z :: l, i + 1, y, h => by
    simp only [List.modify_succ_cons, List.mem_cons] at h
    rcases h with rfl | h
    · exact Or.inl List.mem_cons_self
    · rcases mem_modify f l i y h with h | ⟨w, hw, rfl⟩
      · exact Or.inl (List.mem_cons_of_mem _ h)
      · exact Or.inr ⟨w, List.mem_cons_of_mem _ hw, rfl⟩

theorem upd_forall (P : Attempt → Prop) (atts : List Attempt) (a : Nat) (f : Attempt → Attempt)
    (hf : ∀ x, P x → P (f x)) (h : ∀ x ∈ atts, P x) : ∀ x ∈ upd atts a f, P x := by
  intro x hx
  unfold upd at hx
  obtain ⟨y, hy, rfl⟩ := List.mem_map.mp hx
  split
  · exact hf y (h y hy)
  · exact h y hy

theorem markCaught_keeps (atts : List Attempt) (par : Option (Nat × Nat)) : KeepsAll atts (markCaught atts par) := by
  unfold markCaught
  split
  · exact upd_keeps _ _ _ (fun y => setSlot_keeps _ _ y)
  · exact KeepsAll.rfl' _

theorem bub_keeps (q : Quirks) (e : Bool) : ∀ atts a i r, KeepsAll atts (bubble q e atts a i r).atts := by
  intro atts
  induction atts with
  | nil => intro a i r; simp only [bubble]; exact .nil
  | cons x rest ih =>
    intro a i r
    simp only [bubble]
    repeat' split
    all_goals first
      | exact .cons (Keeps.refl _) (KeepsAll.rfl' _)
      | exact .cons ⟨rfl, rfl, id, id⟩ (KeepsAll.rfl' _)
      | exact .cons ⟨rfl, rfl, fun _ => rfl, id⟩ (KeepsAll.rfl' _)
      | exact .cons ⟨rfl, rfl, id, fun _ => rfl⟩ (KeepsAll.rfl' _)
      | exact .cons ⟨rfl, rfl, id, fun _ => rfl⟩ (ih _ _ _)
      | exact .cons ⟨rfl, rfl, fun _ => rfl, id⟩ (ih _ _ _)
      | exact .cons (Keeps.refl _) (ih _ _ _)
      | exact .cons ⟨rfl, rfl, fun _ => rfl, id⟩ (markCaught_keeps _ _)

/-- an elementwise property kept by the four kinds of change `bubble` makes is kept by `bubble` -/
theorem bub_forall (P : Attempt → Prop)
    (h1 : ∀ x i v, P x → P { x with seen := true, slots := x.slots.modify i (fun _ => .done v) })
    (h2 : ∀ x, P x → P { x with terminated := true })
    (h3 : ∀ x, P x → P { x with joined := true })
    (h4 : ∀ x i, P x → P (setSlot i (fun _ => .caught) x))
    (q : Quirks) (e : Bool) :
    ∀ atts a i r, (∀ x ∈ atts, P x) → ∀ x ∈ (bubble q e atts a i r).atts, P x := by
  intro atts
  induction atts with
  | nil => intro a i r _ x hx; simp [bubble] at hx
  | cons x rest ih =>
    intro a i r h
    have hx := h x List.mem_cons_self
    have hr : ∀ y ∈ rest, P y := fun y hy => h y (List.mem_cons_of_mem _ hy)
    have hc : ∀ par, ∀ y ∈ markCaught rest par, P y := by
      intro par
      unfold markCaught
      split
      · exact upd_forall P rest _ _ (fun y hy => h4 y _ hy) hr
      · exact hr
    simp only [bubble]
    repeat' split
    all_goals (simp only [Walk.under, List.mem_cons, forall_eq_or_imp])
    all_goals first
      | exact ⟨hx, hr⟩
      | exact ⟨h1 _ _ _ hx, hr⟩
      | exact ⟨h3 _ (h1 _ _ _ hx), hr⟩
      | exact ⟨h2 _ (h1 _ _ _ hx), hr⟩
      | exact ⟨h3 _ (h1 _ _ _ hx), ih _ _ _ hr⟩
      | exact ⟨h2 _ (h1 _ _ _ hx), ih _ _ _ hr⟩
      | exact ⟨hx, ih _ _ _ hr⟩
      | exact ⟨h2 _ (h1 _ _ _ hx), hc _⟩

/-- an attempt whose results entry does not exist yet has nothing but PENDING slots; one whose entry exists has no
cancellable slot -/
def UnseenOK (x : Attempt) : Prop := x.seen = false → ∀ sl ∈ x.slots, sl = Slot.pending
def SlotsOK (x : Attempt) : Prop := x.seen = true → ∀ sl ∈ x.slots, sl.cancellable = false

def UnseenPending (atts : List Attempt) : Prop := ∀ x ∈ atts, UnseenOK x

theorem noTask_iff (atts : List Attempt) : NoTask atts ↔ ∀ x ∈ atts, SlotsOK x := Iff.rfl

theorem setSlot_unseenOK (i : Nat) (f : Slot → Slot) (x : Attempt) (h : UnseenOK x) : UnseenOK (setSlot i f x) := by
  unfold setSlot
  split
  · intro hs; simp_all
  · exact h

theorem bub_unseen (q : Quirks) (e : Bool) (atts : List Attempt) (a i : Nat) (r : Res) (h : UnseenPending atts) :
    UnseenPending (bubble q e atts a i r).atts := by
  apply bub_forall UnseenOK _ _ _ _ q e atts a i r h
  · intro x i v _ hs; simp at hs
  · intro x hx; exact hx
  · intro x hx; exact hx
  · intro x i hx; exact setSlot_unseenOK _ _ _ hx

theorem bub_noTask (q : Quirks) (e : Bool) (atts : List Attempt) (a i : Nat) (r : Res) (hu : UnseenPending atts)
    (h : NoTask atts) : NoTask (bubble q e atts a i r).atts := by
  have := bub_forall (fun x => UnseenOK x ∧ SlotsOK x) ?_ ?_ ?_ ?_ q e atts a i r (fun x hx => ⟨hu x hx, h x hx⟩)
  · exact fun x hx => (this x hx).2
  · intro x i v ⟨hu, hs⟩
    refine ⟨fun h => by simp at h, ?_⟩
    intro _ sl hsl
    rcases mem_modify _ _ _ _ hsl with hm | ⟨_, _, rfl⟩
    · cases hseen : x.seen
      · rw [hu hseen sl hm]; rfl
      · exact hs hseen sl hm
    · rfl
  · intro x hx; exact hx
  · intro x hx; exact hx
  · intro x i ⟨hu, hs⟩
    refine ⟨setSlot_unseenOK _ _ _ hu, ?_⟩
    unfold setSlot
    split
    · intro _ sl hsl
      rcases mem_modify _ _ _ _ hsl with hm | ⟨_, _, rfl⟩
      · exact hs (by assumption) sl hm
      · rfl
    · exact hs

theorem effective_tt (hs : List Handled) : effective .taskTerminated hs = .uncaught := by
  cases hs <;> rfl

theorem bub_tt (q : Quirks) (e : Bool) : ∀ atts a i hs,
    (∀ o ∈ (bubble q e atts a i (.fail .taskTerminated hs)).outs, o.quiet = true) ∧
      (bubble q e atts a i (.fail .taskTerminated hs)).endNow = none := by
  intro atts
  induction atts with
  | nil => intro a i hs; simp [bubble, Out.quiet]
  | cons x rest ih =>
    intro a i hs
    simp only [bubble, effective_tt]
    repeat' split
    all_goals (simp only [Walk.under])
    all_goals first
      | exact ih _ _ _
      | (refine ⟨?_, (ih _ _ _).2⟩
         intro o ho
         simp only [List.mem_append, List.mem_cons, List.not_mem_nil, or_false] at ho
         rcases ho with rfl | ho
         · rfl
         · exact (ih _ _ _).1 o ho)
      | (refine ⟨?_, (ih _ _ _).2⟩
         intro o ho
         simp only [List.nil_append] at ho
         exact (ih _ _ _).1 o ho)
      | simp_all [Out.quiet]

theorem bub_noend (q : Quirks) (e : Bool) : ∀ atts a i r,
    (bubble q e atts a i r).endNow = none → ∀ o ∈ (bubble q e atts a i r).outs, isEnd o = false := by
  intro atts
  induction atts with
  | nil => intro a i r; simp [bubble, isEnd]
  | cons x rest ih =>
    intro a i r
    simp only [bubble]
    repeat' split
    all_goals (simp only [Walk.under])
    all_goals first
      | (intro h o ho
         simp only [List.nil_append] at ho
         exact ih _ _ _ h o ho)
      | (intro h o ho
         simp only [List.mem_append, List.mem_cons, List.not_mem_nil, or_false] at ho
         rcases ho with rfl | ho
         · first | rfl | (split <;> rfl)
         · exact ih _ _ _ h o ho)
      | (intro h; simp at h)
      | (intro _ o ho; simp at ho; rcases ho with rfl | rfl <;> first | rfl | (split <;> rfl))
      | (intro _ o ho; simp at ho; subst ho; first | rfl | (split <;> rfl))
      | (intro _ o ho; simp at ho)

theorem bub_atmost (q : Quirks) (e : Bool) : ∀ atts a i r,
    ((bubble q e atts a i r).outs.filter isEnd).length ≤ 1 := by
  intro atts
  induction atts with
  | nil => intro a i r; simp [bubble, isEnd]
  | cons x rest ih =>
    intro a i r
    simp only [bubble]
    repeat' split
    all_goals (simp only [Walk.under])
    all_goals first
      | (simp only [List.nil_append]; exact ih _ _ _)
      | (simp only [List.filter_append, List.length_append]
         have := ih ‹_› ‹_› ‹_›
         simp_all [isEnd, List.filter])
      | simp [isEnd, List.filter]
      | (split <;> simp [isEnd, List.filter])

/-- under an ended execution the walk of a Task.Terminated callback always ends in `checkPending` -/
theorem bub_tt_cpr (q : Quirks) : ∀ atts a i hs, (bubble q true atts a i (.fail .taskTerminated hs)).cpr = true := by
  intro atts
  induction atts with
  | nil => intro a i hs; simp [bubble]
  | cons x rest ih =>
    intro a i hs
    simp only [bubble, effective_tt]
    repeat' split
    all_goals (simp only [Walk.under])
    all_goals first
      | exact ih _ _ _
      | simp_all

theorem cp_unseen (s : Proto) (h : UnseenPending s.atts) : UnseenPending (checkPending s).1.atts := by
  intro x' hx' hs sl' hsl'
  rcases cp_atts s with hh | hh
  · rw [hh.1] at hx'; cases hx'
  · rw [hh.2] at hx'
    obtain ⟨x, hx, rfl⟩ := List.mem_map.mp hx'
    by_cases hv : visited (s.atts.any fun x => x.seen && x.terminated) s.ended.isSome x = true
    · simp only [hv, if_true] at hs
      simp [visited, hs] at hv
    · simp only [hv, Bool.false_eq_true, if_false] at hs hsl'
      exact h x hx hs sl' hsl'

theorem markOwn_keeps (i : Nat) (x : Attempt) : Keeps x (markOwn i x) := ⟨rfl, rfl, fun _ => rfl, id⟩

theorem markEnclosing_keeps (i : Nat) (x : Attempt) : Keeps x (markEnclosing i x) := by
  unfold markEnclosing
  split
  · exact ⟨rfl, rfl, fun _ => rfl, id⟩
  · exact Keeps.refl x

theorem markUp_forall (P : Attempt → Prop) (hown : ∀ x i, P x → P (markOwn i x)) (henc : ∀ x i, P x → P (markEnclosing i x))
    (e : Bool) : ∀ atts a i own, (∀ x ∈ atts, P x) → ∀ x ∈ markUp e atts a i own, P x := by
  intro atts
  induction atts with
  | nil => intro a i own _ x hx; simp [markUp] at hx
  | cons x rest ih =>
    intro a i own h
    have hx := h x List.mem_cons_self
    have hr : ∀ y ∈ rest, P y := fun y hy => h y (List.mem_cons_of_mem _ hy)
    simp only [markUp]
    repeat' split
    all_goals (simp only [List.mem_cons, forall_eq_or_imp])
    all_goals first
      | exact ⟨hown _ _ hx, ih _ _ _ hr⟩
      | exact ⟨henc _ _ hx, ih _ _ _ hr⟩
      | exact ⟨hown _ _ hx, hr⟩
      | exact ⟨henc _ _ hx, hr⟩
      | exact ⟨hx, ih _ _ _ hr⟩

theorem markUp_keeps (e : Bool) : ∀ atts a i own, KeepsAll atts (markUp e atts a i own) := by
  intro atts
  induction atts with
  | nil => intro a i own; simp only [markUp]; exact .nil
  | cons x rest ih =>
    intro a i own
    simp only [markUp]
    repeat' split
    all_goals first
      | exact .cons (markOwn_keeps _ _) (ih _ _ _)
      | exact .cons (markEnclosing_keeps _ _) (ih _ _ _)
      | exact .cons (markOwn_keeps _ _) (KeepsAll.rfl' _)
      | exact .cons (markEnclosing_keeps _ _) (KeepsAll.rfl' _)
      | exact .cons (Keeps.refl _) (ih _ _ _)

theorem markOwn_unseenOK (i : Nat) (x : Attempt) : UnseenOK (markOwn i x) := by
  intro h; simp [markOwn] at h

theorem markEnclosing_unseenOK (i : Nat) (x : Attempt) (h : UnseenOK x) : UnseenOK (markEnclosing i x) := by
  unfold markEnclosing
  split
  · intro hs; simp_all
  · exact h

/-- the invariant of the repaired protocol -/
structure Inv (s : Proto) : Prop where
  noTask : s.ended.isSome = true → NoTask s.atts
  pending : s.ended.isSome = true → s.hasMeta = true → SomePending s.atts
  noMeta : s.hasMeta = false → ∀ x ∈ s.atts, x.seen = false
  unseen : UnseenPending s.atts

theorem inv_init : Inv init := by
  constructor <;> simp [init, NoTask, UnseenPending]

/-- a state that has just been through `checkPending` -/
theorem inv_cp (s : Proto) (hm : s.hasMeta = true) (hu : UnseenPending s.atts) : Inv (checkPending s).1 := by
  constructor
  · intro he; rw [cp_ended] at he; exact cp_noTask s he
  · intro he hmm; rw [cp_ended] at he; exact cp_pending s he hmm
  · intro hmm x hx
    rcases cp_atts s with h | h
    · rw [h.1] at hx; cases hx
    · rw [h.1, hm] at hmm; cases hmm
  · exact cp_unseen s hu

theorem upd_unseen (atts : List Attempt) (a : Nat) (f : Attempt → Attempt) (hf : ∀ x, UnseenOK x → UnseenOK (f x))
    (h : UnseenPending atts) : UnseenPending (upd atts a f) :=
  upd_forall UnseenOK atts a f hf h

def seenAtts (s : Proto) (a : Nat) : List Attempt := upd s.atts a (fun y => { y with seen := true })

def marked (q : Quirks) (s : Proto) (a i : Nat) : List Attempt :=
  if q.oneLevel then markOne (seenAtts s a) a i else markUp s.ended.isSome (seenAtts s a) a i true

def isDead (q : Quirks) (s : Proto) (a : Nat) (x : Attempt) : Bool :=
  if q.oneLevel then x.terminated || parentTerminated s.atts x else s.ended.isSome || deadChain s.atts a

/-- the four ways the lookup can go -/
theorem lookup_cases (q : Quirks) (s : Proto) (a i : Nat) :
    (lookup q s a i = (.dropped, s, [.drop a i]) ∧ s.hasMeta = false ∧ s.ended.isSome = true) ∨
    (lookup q s a i = (.lost, s, [.unknown a])) ∨
    (∃ x, find s.atts a = some x ∧ isDead q s a x = true ∧
      lookup q s a i = (.dropped, (checkPending { s with hasMeta := true, atts := marked q s a i }).1,
                         .drop a i :: (checkPending { s with hasMeta := true, atts := marked q s a i }).2)) ∨
    (∃ x, find s.atts a = some x ∧ isDead q s a x = false ∧
      lookup q s a i = (.accept, { s with hasMeta := true, atts := seenAtts s a }, [])) := by
  unfold lookup
  by_cases h1 : (!s.hasMeta && s.ended.isSome) = true
  · left
    simp only [h1, if_true, true_and]
    simpa using h1
  · right
    simp only [h1, Bool.false_eq_true, if_false]
    cases hf : find s.atts a with
    | none => left; rfl
    | some x =>
      right
      simp only
      by_cases hd : isDead q s a x = true
      · left
        refine ⟨x, rfl, hd, ?_⟩
        unfold isDead at hd
        simp only [hd, if_true]
        rfl
      · right
        simp only [Bool.not_eq_true] at hd
        refine ⟨x, rfl, hd, ?_⟩
        unfold isDead at hd
        simp only [hd, Bool.false_eq_true, if_false]
        rfl

theorem lookup_ended (q : Quirks) (s : Proto) (a i : Nat) : (lookup q s a i).2.1.ended = s.ended := by
  rcases lookup_cases q s a i with h | h | ⟨x, _, _, h⟩ | ⟨x, _, _, h⟩ <;> first | rw [h.1] | rw [h]
  rw [cp_ended]

theorem lookup_fresh (q : Quirks) (s : Proto) (a i : Nat) : (lookup q s a i).2.1.fresh = s.fresh := by
  rcases lookup_cases q s a i with h | h | ⟨x, _, _, h⟩ | ⟨x, _, _, h⟩ <;> first | rw [h.1] | rw [h]
  rw [cp_fresh]

/-- the repaired lookup never accepts an event once the execution has ended -/
theorem lookup_none_ended (s : Proto) (a i : Nat) (he : s.ended.isSome = true) : (lookup Quirks.none s a i).1 ≠ .accept := by
  rcases lookup_cases Quirks.none s a i with h | h | ⟨x, _, _, h⟩ | ⟨x, _, hd, h⟩
  · rw [h.1]; simp
  · rw [h]; simp
  · rw [h]; simp
  · simp [isDead, Quirks.none, he] at hd

theorem lookup_quiet (q : Quirks) (s : Proto) (a i : Nat) : ∀ o ∈ (lookup q s a i).2.2, o.quiet = true := by
  intro o ho
  rcases lookup_cases q s a i with h | h | ⟨x, _, _, h⟩ | ⟨x, _, _, h⟩
  · rw [h.1] at ho; simp at ho; subst ho; rfl
  · rw [h] at ho; simp at ho; subst ho; rfl
  · rw [h] at ho
    simp only [List.mem_cons] at ho
    rcases ho with rfl | ho
    · rfl
    · exact cp_quiet _ o ho
  · rw [h] at ho; simp at ho

theorem seenAtts_unseen (s : Proto) (a : Nat) (h : UnseenPending s.atts) : UnseenPending (seenAtts s a) :=
  upd_unseen _ _ _ (fun x _ hs => by simp at hs) h

theorem marked_none_unseen (s : Proto) (a i : Nat) (h : UnseenPending s.atts) : UnseenPending (marked Quirks.none s a i) := by
  unfold marked
  simp only [Quirks.none, Bool.false_eq_true, if_false]
  exact markUp_forall UnseenOK (fun x i _ => markOwn_unseenOK i x) (fun x i hx => markEnclosing_unseenOK i x hx) _ _ _ _ _
    (seenAtts_unseen s a h)

theorem lookup_inv (s : Proto) (a i : Nat) (h : Inv s) : Inv (lookup Quirks.none s a i).2.1 := by
  rcases lookup_cases Quirks.none s a i with hh | hh | ⟨x, _, _, hh⟩ | ⟨x, _, hd, hh⟩
  · rw [hh.1]; exact h
  · rw [hh]; exact h
  · rw [hh]
    exact inv_cp _ rfl (marked_none_unseen s a i h.unseen)
  · rw [hh]
    have hne : s.ended.isSome = false := by
      cases hq : s.ended.isSome
      · rfl
      · simp [isDead, Quirks.none, hq] at hd
    constructor
    · intro he; simp [hne] at he
    · intro he; simp [hne] at he
    · intro hm; simp at hm
    · exact seenAtts_unseen s a h.unseen


theorem finish_ended (s : Proto) (w : Walk) :
    (finish s w).1.ended = if w.endNow.isSome then w.endNow else s.ended := by
  unfold finish
  simp only
  split
  · rw [cp_ended]
  · rfl

theorem finish_fresh (s : Proto) (w : Walk) : (finish s w).1.fresh = s.fresh := by
  unfold finish
  simp only
  split
  · rw [cp_fresh]
  · rfl

theorem finish_inv (s : Proto) (w : Walk) (hu : UnseenPending w.atts) (hc : s.ended.isSome = true → w.cpr = true) :
    Inv (finish s w).1 := by
  unfold finish
  simp only
  split
  · exact inv_cp _ rfl hu
  · rename_i hcond
    simp only [Bool.or_eq_true, not_or, Bool.not_eq_true] at hcond
    have hne : s.ended.isSome = false := by
      cases hq : s.ended.isSome
      · rfl
      · have := hc hq; simp [this] at hcond
    have hen : w.endNow.isSome = false := hcond.2
    constructor
    · intro he; simp [hen, hne] at he
    · intro he; simp [hen, hne] at he
    · intro hm; simp at hm
    · exact hu

theorem finish_outs (s : Proto) (w : Walk) :
    (finish s w).2 = w.outs ∨ ∃ os, (finish s w).2 = w.outs ++ os ∧ ∀ o ∈ os, o.quiet = true := by
  unfold finish
  simp only
  split
  · exact Or.inr ⟨_, rfl, cp_quiet _⟩
  · exact Or.inl rfl

theorem quiet_not_end (o : Out) (h : o.quiet = true) : isEnd o = false := by
  cases o <;> simp_all [Out.quiet, isEnd]

theorem finish_endcount (s : Proto) (w : Walk) :
    ((finish s w).2.filter isEnd).length = (w.outs.filter isEnd).length := by
  rcases finish_outs s w with h | ⟨os, h, hq⟩
  · rw [h]
  · rw [h, List.filter_append, List.length_append]
    have : os.filter isEnd = [] := by
      rw [List.filter_eq_nil_iff]
      intro o ho
      simp [quiet_not_end o (hq o ho)]
    simp [this]

theorem finish_quiet (s : Proto) (w : Walk) (h : ∀ o ∈ w.outs, o.quiet = true) : ∀ o ∈ (finish s w).2, o.quiet = true := by
  intro o ho
  rcases finish_outs s w with hh | ⟨os, hh, hq⟩
  · rw [hh] at ho; exact h o ho
  · rw [hh] at ho
    rcases List.mem_append.mp ho with ho | ho
    · exact h o ho
    · exact hq o ho

theorem setSlot_seen (i : Nat) (f : Slot → Slot) (x : Attempt) : (setSlot i f x).seen = x.seen := by
  unfold setSlot; split <;> rfl

theorem upd_seen_forall (atts : List Attempt) (a : Nat) (f : Attempt → Attempt) (hf : ∀ x, (f x).seen = x.seen)
    (h : ∀ x ∈ atts, x.seen = false) : ∀ x ∈ upd atts a f, x.seen = false :=
  upd_forall (fun x => x.seen = false) atts a f (fun x hx => by rw [hf x]; exact hx) h

/-- a running execution: three of the four clauses hold trivially -/
theorem inv_running (s : Proto) (hne : s.ended.isSome = false) (hm : s.hasMeta = false → ∀ x ∈ s.atts, x.seen = false)
    (hu : UnseenPending s.atts) : Inv s := by
  constructor
  · intro he; simp [hne] at he
  · intro he; simp [hne] at he
  · exact hm
  · exact hu

theorem continue_inv (s : Proto) (a i : Nat) (k : Kont) (h : Inv s) (hne : s.ended.isSome = false) :
    Inv (continue_ Quirks.none s a i k).1 := by
  cases k with
  | goesOn => exact h
  | arm =>
    refine inv_running _ hne ?_ ?_
    · intro hm; exact upd_seen_forall _ _ _ (setSlot_seen _ _) (h.noMeta hm)
    · exact upd_unseen _ _ _ (fun x hx => setSlot_unseenOK _ _ _ hx) h.unseen
  | caughtOn =>
    refine inv_running _ hne ?_ ?_
    · intro hm; exact upd_seen_forall _ _ _ (setSlot_seen _ _) (h.noMeta hm)
    · exact upd_unseen _ _ _ (fun x hx => setSlot_unseenOK _ _ _ hx) h.unseen
  | done v ups =>
    simp only [continue_]
    exact finish_inv _ _ (bub_unseen _ _ _ _ _ _ h.unseen) (fun he => by simp [hne] at he)
  | fail e hs =>
    simp only [continue_]
    exact finish_inv _ _ (bub_unseen _ _ _ _ _ _ h.unseen) (fun he => by simp [hne] at he)

theorem find_mem (atts : List Attempt) (a : Nat) (x : Attempt) (h : find atts a = some x) : x ∈ atts ∧ x.id = a := by
  unfold find at h
  have := List.find?_some h
  exact ⟨List.mem_of_find?_eq_some h, by simpa using this⟩

theorem getElem?_mem' {α : Type} (l : List α) (i : Nat) (x : α) (h : l[i]? = some x) : x ∈ l :=
  List.mem_of_getElem? h

/-- the repaired protocol keeps its invariant -/
theorem inv_step (s : Proto) (inp : Inp) (h : Inv s) : Inv (step Quirks.none s inp).1 := by
  cases inp with
  | launch a n par k =>
    simp only [step]
    split
    · exact h
    · cases par with
      | none =>
        simp only [Quirks.none, Bool.not_false, Bool.and_true]
        split
        · exact h
        · rename_i hne
          simp only [Bool.not_eq_true] at hne
          refine inv_running _ hne ?_ ?_
          · intro hm x hx
            rcases List.mem_cons.mp hx with rfl | hx
            · rfl
            · exact h.noMeta hm x hx
          · intro x hx
            rcases List.mem_cons.mp hx with rfl | hx
            · intro _ sl hsl
              exact (List.mem_replicate.mp hsl).2
            · exact h.unseen x hx
      | some pi =>
        obtain ⟨p, i⟩ := pi
        simp only
        have hi := lookup_inv s p i h
        have he := lookup_ended Quirks.none s p i
        rcases hl : lookup Quirks.none s p i with ⟨v, s1, outs⟩
        rw [hl] at hi he
        simp only at hi he
        cases v with
        | accept =>
          simp only
          have hne : s.ended.isSome = false := by
            cases hq : s.ended.isSome
            · rfl
            · have := lookup_none_ended s p i hq
              rw [hl] at this
              simp at this
          have hne1 : s1.ended.isSome = false := by rw [he]; exact hne
          refine inv_running _ hne1 ?_ ?_
          · intro hm x hx
            rcases List.mem_cons.mp hx with rfl | hx
            · rfl
            · exact hi.noMeta hm x hx
          · intro x hx
            rcases List.mem_cons.mp hx with rfl | hx
            · intro _ sl hsl
              exact (List.mem_replicate.mp hsl).2
            · exact hi.unseen x hx
        | dropped => exact hi
        | lost => exact hi
  | event a i k =>
    simp only [step, viaLookup]
    have hi := lookup_inv s a i h
    have he := lookup_ended Quirks.none s a i
    rcases hl : lookup Quirks.none s a i with ⟨v, s1, outs⟩
    rw [hl] at hi he
    simp only at hi he
    cases v with
    | accept =>
      simp only
      have hne : s.ended.isSome = false := by
        cases hq : s.ended.isSome
        · rfl
        · have := lookup_none_ended s a i hq
          rw [hl] at this
          simp at this
      exact continue_inv s1 a i k hi (by rw [he]; exact hne)
    | dropped => exact hi
    | lost => exact hi
  | deferred a i k =>
    simp only [step, viaLookup]
    have hi := lookup_inv s a i h
    have he := lookup_ended Quirks.none s a i
    rcases hl : lookup Quirks.none s a i with ⟨v, s1, outs⟩
    rw [hl] at hi he
    simp only at hi he
    cases v with
    | accept =>
      simp only
      have hne : s.ended.isSome = false := by
        cases hq : s.ended.isSome
        · rfl
        · have := lookup_none_ended s a i hq
          rw [hl] at this
          simp at this
      exact continue_inv s1 a i k hi (by rw [he]; exact hne)
    | dropped => exact hi
    | lost => exact hi
  | reply a i k =>
    simp only [step]
    cases hf : find s.atts a with
    | none => exact h
    | some x =>
      simp only
      cases hs : x.slots[i]? with
      | none => exact h
      | some sl =>
        simp only
        split
        · rename_i hg
          simp only [Bool.and_eq_true] at hg
          have hxm := find_mem _ _ _ hf
          have hne : s.ended.isSome = false := by
            cases hq : s.ended.isSome
            · rfl
            · have := h.noTask hq x hxm.1 hg.1 sl (getElem?_mem' _ _ _ hs)
              rw [this] at hg
              simp at hg
          have h1 : Inv { s with atts := upd s.atts a (setSlot i Slot.disarm) } := by
            refine inv_running _ hne ?_ ?_
            · intro hm; exact upd_seen_forall _ _ _ (setSlot_seen _ _) (h.noMeta hm)
            · exact upd_unseen _ _ _ (fun x hx => setSlot_unseenOK _ _ _ hx) h.unseen
          split
          · exact finish_inv _ _ (bub_unseen _ _ _ _ _ _ h1.unseen) (fun he => by simp [hne] at he)
          · exact continue_inv _ a i k h1 hne
        · exact h
  | echo a i =>
    simp only [step]
    cases hf : find s.atts a with
    | none => exact h
    | some x =>
      simp only
      split
      · apply finish_inv _ _ (bub_unseen _ _ _ _ _ _ h.unseen)
        intro he; rw [he]; exact bub_tt_cpr _ _ _ _ _
      · exact h
  | topEnd ok =>
    simp only [step, Quirks.none, Bool.not_false, Bool.and_true]
    split
    · exact h
    · split
      · rename_i hm
        exact inv_cp _ hm h.unseen
      · rename_i hm
        simp only [Bool.not_eq_true] at hm
        constructor
        · intro _ x hx hs
          rw [h.noMeta hm x hx] at hs
          cases hs
        · intro _ hmm; simp [hm] at hmm
        · exact h.noMeta
        · exact h.unseen
  | backstop =>
    simp only [step]
    split
    · exact h
    · split
      · constructor <;> simp [NoTask, UnseenPending]
      · rename_i hm _
        simp only [Bool.not_eq_true] at hm
        apply inv_cp
        · simpa using hm
        · intro x' hx' hs sl hsl
          obtain ⟨x, hx, rfl⟩ := List.mem_map.mp hx'
          cases hxs : x.seen
          · simp only [hxs, Bool.false_eq_true, if_false] at hsl
            exact h.unseen x hx hxs sl hsl
          · simp [hxs] at hs


theorem continue_ended_mono (q : Quirks) (s : Proto) (a i : Nat) (k : Kont) (h : s.ended.isSome = true) :
    (continue_ q s a i k).1.ended.isSome = true := by
  cases k <;> simp only [continue_] <;> try exact h
  all_goals (rw [finish_ended]; split <;> simp_all)

/-- an execution that has ended stays ended (whatever the switches) -/
theorem step_ended_mono (q : Quirks) (s : Proto) (inp : Inp) (h : s.ended.isSome = true) :
    (step q s inp).1.ended.isSome = true := by
  cases inp with
  | launch a n par k =>
    simp only [step]
    split
    · exact h
    · cases par with
      | none => simp only; split <;> exact h
      | some pi =>
        obtain ⟨p, i⟩ := pi
        simp only
        have he := lookup_ended q s p i
        rcases hl : lookup q s p i with ⟨v, s1, outs⟩
        rw [hl] at he
        simp only at he
        cases v <;> simp only <;> rw [he] <;> exact h
  | event a i k =>
    simp only [step, viaLookup]
    have he := lookup_ended q s a i
    rcases hl : lookup q s a i with ⟨v, s1, outs⟩
    rw [hl] at he
    simp only at he
    cases v <;> simp only
    · exact continue_ended_mono q s1 a i k (by rw [he]; exact h)
    · rw [he]; exact h
    · rw [he]; exact h
  | deferred a i k =>
    simp only [step, viaLookup]
    have he := lookup_ended q s a i
    rcases hl : lookup q s a i with ⟨v, s1, outs⟩
    rw [hl] at he
    simp only at he
    cases v <;> simp only
    · exact continue_ended_mono q s1 a i k (by rw [he]; exact h)
    · rw [he]; exact h
    · rw [he]; exact h
  | reply a i k =>
    simp only [step]
    repeat' split
    all_goals first
      | exact h
      | (rw [finish_ended]; split <;> simp_all)
      | exact continue_ended_mono _ _ _ _ _ h
  | echo a i =>
    simp only [step]
    repeat' split
    all_goals first
      | exact h
      | (rw [finish_ended]; split <;> simp_all)
  | topEnd ok =>
    simp only [step]
    repeat' split
    all_goals first
      | exact h
      | (rw [cp_ended]; rfl)
      | rfl
  | backstop =>
    simp only [step]
    repeat' split
    all_goals first
      | exact h
      | (rw [cp_ended]; rfl)

theorem continue_quiet_or (q : Quirks) (s : Proto) (a i : Nat) (k : Kont) :
    ((continue_ q s a i k).2.filter isEnd).length ≤ 1 ∧
    ((∃ o ∈ (continue_ q s a i k).2, isEnd o = true) → (continue_ q s a i k).1.ended.isSome = true) := by
  have key : ∀ r, ((Out.progress a i :: (finish s (bubble q s.ended.isSome s.atts a i r)).2).filter isEnd).length ≤ 1 ∧
      ((∃ o ∈ Out.progress a i :: (finish s (bubble q s.ended.isSome s.atts a i r)).2, isEnd o = true) →
        (finish s (bubble q s.ended.isSome s.atts a i r)).1.ended.isSome = true) := by
    intro r
    constructor
    · simp only [List.filter_cons, isEnd, Bool.false_eq_true, if_false]
      rw [finish_endcount]
      exact bub_atmost _ _ _ _ _ _
    · rintro ⟨o, ho, hoe⟩
      rcases List.mem_cons.mp ho with rfl | ho
      · cases hoe
      · rw [finish_ended]
        cases hn : (bubble q s.ended.isSome s.atts a i r).endNow with
        | some b => simp
        | none =>
          exfalso
          rcases finish_outs s (bubble q s.ended.isSome s.atts a i r) with hh | ⟨os, hh, hq⟩
          · rw [hh] at ho
            have := bub_noend _ _ _ _ _ _ hn o ho
            rw [this] at hoe; cases hoe
          · rw [hh] at ho
            rcases List.mem_append.mp ho with ho | ho
            · have := bub_noend _ _ _ _ _ _ hn o ho
              rw [this] at hoe; cases hoe
            · have := quiet_not_end o (hq o ho)
              rw [this] at hoe; cases hoe
  cases k with
  | goesOn => simp [continue_, isEnd]
  | arm => simp [continue_, isEnd]
  | caughtOn => simp [continue_, isEnd]
  | done v ups => simp only [continue_]; exact key _
  | fail e hs => simp only [continue_]; exact key _


theorem quiet_filter_nil (os : List Out) (h : ∀ o ∈ os, o.quiet = true) : os.filter isEnd = [] := by
  rw [List.filter_eq_nil_iff]
  intro o ho
  simp [quiet_not_end o (h o ho)]

/-- after the end of the execution every output of the repaired protocol only tidies up -/
theorem step_quiet_after_end (s : Proto) (inp : Inp) (h : Inv s) (he : s.ended.isSome = true) :
    ∀ o ∈ (step Quirks.none s inp).2, o.quiet = true := by
  cases inp with
  | launch a n par k =>
    simp only [step]
    split
    · intro o ho; simp at ho; subst ho; rfl
    · cases par with
      | none =>
        simp only [Quirks.none, he, Bool.not_false, Bool.and_true, if_true]
        intro o ho; simp at ho; subst ho; rfl
      | some pi =>
        obtain ⟨p, i⟩ := pi
        simp only
        have hq := lookup_quiet Quirks.none s p i
        have hn := lookup_none_ended s p i he
        rcases hl : lookup Quirks.none s p i with ⟨v, s1, outs⟩
        rw [hl] at hq hn
        cases v with
        | accept => simp at hn
        | dropped => exact hq
        | lost => exact hq
  | event a i k =>
    simp only [step, viaLookup]
    have hq := lookup_quiet Quirks.none s a i
    have hn := lookup_none_ended s a i he
    rcases hl : lookup Quirks.none s a i with ⟨v, s1, outs⟩
    rw [hl] at hq hn
    cases v with
    | accept => simp at hn
    | dropped => exact hq
    | lost => exact hq
  | deferred a i k =>
    simp only [step, viaLookup]
    have hq := lookup_quiet Quirks.none s a i
    have hn := lookup_none_ended s a i he
    rcases hl : lookup Quirks.none s a i with ⟨v, s1, outs⟩
    rw [hl] at hq hn
    cases v with
    | accept => simp at hn
    | dropped => exact hq
    | lost => exact hq
  | reply a i k =>
    simp only [step]
    cases hf : find s.atts a with
    | none => intro o ho; simp at ho; subst ho; rfl
    | some x =>
      simp only
      cases hs : x.slots[i]? with
      | none => intro o ho; simp at ho; subst ho; rfl
      | some sl =>
        simp only
        split
        · rename_i hg
          exfalso
          simp only [Bool.and_eq_true] at hg
          have hxm := find_mem _ _ _ hf
          have := h.noTask he x hxm.1 hg.1 sl (getElem?_mem' _ _ _ hs)
          rw [this] at hg
          simp at hg
        · intro o ho; simp at ho; subst ho; rfl
  | echo a i =>
    simp only [step]
    cases hf : find s.atts a with
    | none => intro o ho; simp at ho; subst ho; rfl
    | some x =>
      simp only
      split
      · exact finish_quiet _ _ (bub_tt _ _ _ _ _ _).1
      · intro o ho; simp at ho; subst ho; rfl
  | topEnd ok =>
    simp only [step, Quirks.none, he, Bool.not_false, Bool.and_true, if_true]
    intro o ho; simp at ho; subst ho; rfl
  | backstop =>
    simp only [step, he, if_true]
    split
    · intro o ho; simp at ho
    · intro o ho; simp at ho; subst ho; rfl

/-- a step of a running execution ends it at most once, and if it does the execution is ended afterwards -/
theorem step_ends (s : Proto) (inp : Inp) :
    ((step Quirks.none s inp).2.filter isEnd).length ≤ 1 ∧
    ((∃ o ∈ (step Quirks.none s inp).2, isEnd o = true) → (step Quirks.none s inp).1.ended.isSome = true) := by
  have quiet_case : ∀ (st : Proto) (os : List Out), (∀ o ∈ os, o.quiet = true) →
      (os.filter isEnd).length ≤ 1 ∧ ((∃ o ∈ os, isEnd o = true) → st.ended.isSome = true) := by
    intro st os hq
    refine ⟨by simp [quiet_filter_nil os hq], ?_⟩
    rintro ⟨o, ho, hoe⟩
    rw [quiet_not_end o (hq o ho)] at hoe
    cases hoe
  cases inp with
  | launch a n par k =>
    simp only [step]
    split
    · exact quiet_case _ _ (by intro o ho; simp at ho; subst ho; rfl)
    · cases par with
      | none =>
        simp only
        split
        · exact quiet_case _ _ (by intro o ho; simp at ho; subst ho; rfl)
        · simp [isEnd]
      | some pi =>
        obtain ⟨p, i⟩ := pi
        simp only
        have hq := lookup_quiet Quirks.none s p i
        rcases hl : lookup Quirks.none s p i with ⟨v, s1, outs⟩
        rw [hl] at hq
        cases v with
        | accept => simp [isEnd]
        | dropped => exact quiet_case _ _ hq
        | lost => exact quiet_case _ _ hq
  | event a i k =>
    simp only [step, viaLookup]
    have hq := lookup_quiet Quirks.none s a i
    rcases hl : lookup Quirks.none s a i with ⟨v, s1, outs⟩
    rw [hl] at hq
    cases v with
    | accept => exact continue_quiet_or _ _ _ _ _
    | dropped => exact quiet_case _ _ hq
    | lost => exact quiet_case _ _ hq
  | deferred a i k =>
    simp only [step, viaLookup]
    have hq := lookup_quiet Quirks.none s a i
    rcases hl : lookup Quirks.none s a i with ⟨v, s1, outs⟩
    rw [hl] at hq
    cases v with
    | accept => exact continue_quiet_or _ _ _ _ _
    | dropped => exact quiet_case _ _ hq
    | lost => exact quiet_case _ _ hq
  | reply a i k =>
    simp only [step]
    cases hf : find s.atts a with
    | none => exact quiet_case _ _ (by intro o ho; simp at ho; subst ho; rfl)
    | some x =>
      simp only
      cases hs : x.slots[i]? with
      | none => exact quiet_case _ _ (by intro o ho; simp at ho; subst ho; rfl)
      | some sl =>
        simp only
        split
        · split
          · exact quiet_case _ _ (finish_quiet _ _ (bub_tt _ _ _ _ _ _).1)
          · exact continue_quiet_or _ _ _ _ _
        · exact quiet_case _ _ (by intro o ho; simp at ho; subst ho; rfl)
  | echo a i =>
    simp only [step]
    cases hf : find s.atts a with
    | none => exact quiet_case _ _ (by intro o ho; simp at ho; subst ho; rfl)
    | some x =>
      simp only
      split
      · exact quiet_case _ _ (finish_quiet _ _ (bub_tt _ _ _ _ _ _).1)
      · exact quiet_case _ _ (by intro o ho; simp at ho; subst ho; rfl)
  | topEnd ok =>
    simp only [step]
    split
    · exact quiet_case _ _ (by intro o ho; simp at ho; subst ho; rfl)
    · split
      · refine ⟨?_, fun _ => by rw [cp_ended]; rfl⟩
        simp [List.filter_cons, isEnd, quiet_filter_nil _ (cp_quiet _)]
      · exact ⟨by simp [List.filter_cons, isEnd], fun _ => rfl⟩
  | backstop =>
    simp only [step]
    split
    · exact quiet_case _ _ (by intro o ho; simp at ho)
    · split
      · exact quiet_case _ _ (by intro o ho; simp at ho; subst ho; rfl)
      · refine ⟨?_, fun _ => by rw [cp_ended]; rfl⟩
        simp [List.filter_cons, isEnd, quiet_filter_nil _ (cp_quiet _)]

theorem run_inv (s : Proto) (is : List Inp) (h : Inv s) : Inv (run Quirks.none s is).1 := by
  induction is generalizing s with
  | nil => exact h
  | cons i is ih => simp only [run]; exact ih _ (inv_step s i h)

theorem run_ended_mono (q : Quirks) (s : Proto) (is : List Inp) (h : s.ended.isSome = true) :
    (run q s is).1.ended.isSome = true := by
  induction is generalizing s with
  | nil => exact h
  | cons i is ih => simp only [run]; exact ih _ (step_ended_mono q s i h)

theorem run_quiet_after_end (s : Proto) (is : List Inp) (h : Inv s) (he : s.ended.isSome = true) :
    ∀ o ∈ (run Quirks.none s is).2, o.quiet = true := by
  induction is generalizing s with
  | nil => intro o ho; simp [run] at ho
  | cons i is ih =>
    intro o ho
    simp only [run] at ho
    rcases List.mem_append.mp ho with ho | ho
    · exact step_quiet_after_end s i h he o ho
    · exact ih _ (inv_step s i h) (step_ended_mono _ s i he) o ho

theorem run_ends (s : Proto) (is : List Inp) (h : Inv s) :
    ((run Quirks.none s is).2.filter isEnd).length ≤ if s.ended.isSome then 0 else 1 := by
  induction is generalizing s with
  | nil => simp [run]
  | cons i is ih =>
    simp only [run, List.filter_append, List.length_append]
    have hi := inv_step s i h
    have hrest := ih _ hi
    cases he : s.ended.isSome with
    | true =>
      have h0 : (step Quirks.none s i).2.filter isEnd = [] := quiet_filter_nil _ (step_quiet_after_end s i h he)
      have he' := step_ended_mono Quirks.none s i he
      simp only [he', if_true] at hrest
      simp only [h0, List.length_nil, if_true]
      omega
    | false =>
      simp only [Bool.false_eq_true, if_false]
      obtain ⟨h1, h2⟩ := step_ends s i
      by_cases hz : ((step Quirks.none s i).2.filter isEnd).length = 0
      · have : (if (step Quirks.none s i).1.ended.isSome = true then 0 else 1) ≤ 1 := by split <;> omega
        omega
      · have hex : ∃ o ∈ (step Quirks.none s i).2, isEnd o = true := by
          have : (step Quirks.none s i).2.filter isEnd ≠ [] := by
            intro hh; rw [hh] at hz; simp at hz
          obtain ⟨o, ho⟩ := List.exists_mem_of_ne_nil _ this
          have := List.mem_filter.mp ho
          exact ⟨o, this.1, this.2⟩
        have he' := h2 hex
        simp only [he', if_true] at hrest
        omega


end Asl.FanProto
