/-
Helper lemmas for C17: the two character scanners (`breakAt`, `rbreakAt`) and how `parseArn`
reads a text that `createArn` wrote.
-/
import AslModel.Names
namespace Asl

theorem breakAt_append (c : Char) (a b : Str) (h : c ∉ a) :
    breakAt c (a ++ c :: b) = some (a, b) := by
  induction a with
  | nil => simp [breakAt]
  | cons x xs ih =>
    have hx : x ≠ c := fun e => h (by simp [e])
    have hxs : c ∉ xs := fun e => h (by simp [e])
    simp [breakAt, hx, ih hxs]

theorem breakAt_none (c : Char) (s : Str) (h : c ∉ s) : breakAt c s = none := by
  induction s with
  | nil => simp [breakAt]
  | cons x xs ih =>
    have hx : x ≠ c := fun e => h (by simp [e])
    have hxs : c ∉ xs := fun e => h (by simp [e])
    simp [breakAt, hx, ih hxs]

theorem breakAt_some (c : Char) (s a b : Str) (h : breakAt c s = some (a, b)) :
    s = a ++ c :: b ∧ c ∉ a := by
  induction s generalizing a with
  | nil => simp [breakAt] at h
  | cons x xs ih =>
    simp only [breakAt] at h
    split at h
    · rename_i hx
      cases h
      simp [hx]
    · rename_i hx
      split at h
      · rename_i a' b' hb
        cases h
        have := ih a' hb
        refine ⟨by simp [this.1.symm], ?_⟩
        intro hm
        rcases List.mem_cons.mp hm with e | e
        · exact hx e.symm
        · exact this.2 e
      · cases h

theorem rbreakAt_append (c : Char) (a b : Str) (h : c ∉ b) :
    rbreakAt c (a ++ c :: b) = some (a, b) := by
  have hr : c ∉ b.reverse := by simpa using h
  have : (a ++ c :: b).reverse = b.reverse ++ c :: a.reverse := by simp
  simp [rbreakAt, this, breakAt_append c _ _ hr]

theorem rbreakAt_some (c : Char) (s a b : Str) (h : rbreakAt c s = some (a, b)) :
    s = a ++ c :: b ∧ c ∉ b := by
  simp only [rbreakAt] at h
  split at h
  · rename_i x y hb
    cases h
    have := breakAt_some c _ _ _ hb
    refine ⟨?_, by simpa using this.2⟩
    have h2 := congrArg List.reverse this.1
    simpa using h2
  · cases h

/-- reading the five leading fields of a written ARN needs only that they are ':'-free -/
theorem parseArn_createArn_fields (p : Arn) (h1 : ':' ∉ p.arn) (h2 : ':' ∉ p.partition)
    (h3 : ':' ∉ p.service) (h4 : ':' ∉ p.region) (h5 : ':' ∉ p.account) :
    parseArn (createArn p) = some ⟨p.arn, p.partition, p.service, p.region, p.account,
      (splitResource (resourceText p.resourceType p.resource)).1,
      (splitResource (resourceText p.resourceType p.resource)).2⟩ := by
  simp [parseArn, createArn, breakAt_append, h1, h2, h3, h4, h5]

theorem splitResource_none (r : Str) (hc : ':' ∉ r) (hs : '/' ∉ r) :
    splitResource r = (none, r) := by
  simp [splitResource, breakAt_none, hc, hs]

theorem splitResource_typed (t r : Str) (htc : ':' ∉ t) (hts : '/' ∉ t) (hrs : '/' ∉ r) :
    splitResource (t ++ ':' :: r) = (some t, r) := by
  have hs : '/' ∉ t ++ ':' :: r := by
    intro hm
    rcases List.mem_append.mp hm with e | e
    · exact hts e
    · rcases List.mem_cons.mp e with e | e
      · exact absurd e (by decide)
      · exact hrs e
  simp [splitResource, breakAt_none _ _ hs, breakAt_append _ _ _ htc]

theorem sArn_nocolon : ':' ∉ sArn := by decide
theorem sAws_nocolon : ':' ∉ sAws := by decide
theorem sStates_nocolon : ':' ∉ sStates := by decide

theorem nameCharOk_of_validName (s : Str) (h : validName s = true) : ∀ c ∈ s, nameCharOk c = true := by
  simp only [validName, Bool.and_eq_true, List.all_eq_true] at h
  exact h.2

end Asl
