import AslModel.Join
import Proofs.Lemmas.Join
namespace Asl

theorem mem_rangeFrom (a b i : Nat) : i ∈ rangeFrom a b ↔ a ≤ i ∧ i < b := by
  simp [rangeFrom]
  constructor
  · rintro ⟨k, hk, rfl⟩; omega
  · intro h; exact ⟨i - a, by omega, by omega⟩

theorem rangeFrom_nodup (a b : Nat) : (rangeFrom a b).Nodup := by
  unfold rangeFrom
  rw [List.nodup_iff_pairwise_ne]
  apply List.Pairwise.map (R := (· ≠ ·))
  · intro x y h; simp; omega
  · exact List.nodup_iff_pairwise_ne.mp List.nodup_range

@[simp] theorem rangeFrom_length (a b : Nat) : (rangeFrom a b).length = b - a := by simp [rangeFrom]

theorem rangeFrom_append (a b c : Nat) (h1 : a ≤ b) (h2 : b ≤ c) :
    rangeFrom a b ++ rangeFrom b c = rangeFrom a c := by
  apply List.ext_getElem?
  intro i
  simp only [rangeFrom, List.getElem?_append, List.length_map, List.length_range, List.getElem?_map,
    List.getElem?_range]
  by_cases hi : i < b - a
  · have : i < c - a := by omega
    simp [hi, this, List.getElem?_range]
  · by_cases hj : i - (b - a) < c - b
    · have : i < c - a := by omega
      simp [hi, hj, this, List.getElem?_range]; omega
    · have : ¬ i < c - a := by omega
      simp [hi, hj, this, List.getElem?_range]

theorem batchEnd_ge (n m start : Nat) (h : start ≤ n) : start ≤ batchEnd n m start ∧ batchEnd n m start ≤ n := by
  unfold batchEnd; split <;> omega

theorem batchEnd_sub (n m start : Nat) (hm : 0 < m) : batchEnd n m start - start ≤ m := by
  unfold batchEnd; split <;> omega

/-- the invariant of the launch protocol -/
structure MapInv (st : MapSt) : Prop where
  start_le : st.start ≤ st.n
  launched_eq : st.launched = rangeFrom 0 (batchEnd st.n st.m st.start)
  before_filled : ∀ i, i < st.start → ∃ w, st.slots[i]? = some (some w)
  len : st.slots.length = st.n

theorem MapInv.init (n m : Nat) : MapInv (MapSt.init n m) where
  start_le := by simp [MapSt.init]
  launched_eq := by simp [MapSt.init]
  before_filled := by intro i hi; simp [MapSt.init] at hi
  len := by simp [MapSt.init]

theorem filledIn_spec (s : Slots) (a b : Nat) (h : filledIn s a b = true) (i : Nat) (h1 : a ≤ i) (h2 : i < b) :
    ∃ w, s[i]? = some (some w) := by
  unfold filledIn at h
  rw [List.all_eq_true] at h
  have := h i ((mem_rangeFrom a b i).mpr ⟨h1, h2⟩)
  cases hs : s[i]? with
  | none => simp [hs] at this
  | some x =>
    cases x with
    | none => simp [hs] at this
    | some w => exact ⟨w, rfl⟩

theorem MapInv.complete (st : MapSt) (i : Nat) (v : Json) (h : MapInv st) : MapInv (st.complete i v) := by
  have hkeep : ∀ j : Nat, (∃ w : Json, st.slots[j]? = some (some w)) → ∃ w : Json, (Join.record st.slots i v)[j]? = some (some w) := by
    intro j ⟨w, hw⟩
    rw [Join.record_get]
    split
    · exact ⟨v, rfl⟩
    · exact ⟨w, hw⟩
  unfold MapSt.complete
  simp only
  split
  · rename_i hc
    rw [Bool.and_eq_true] at hc
    obtain ⟨hf, hlt⟩ := hc
    have hlt' : batchEnd st.n st.m st.start < st.n := by simpa using hlt
    have hb := batchEnd_ge st.n st.m st.start h.start_le
    have hb2 := batchEnd_ge st.n st.m (batchEnd st.n st.m st.start) (by omega)
    exact {
      start_le := by simp; omega
      launched_eq := by
        simp only [h.launched_eq]
        exact rangeFrom_append 0 _ _ (by omega) hb2.1
      before_filled := by
        intro j hj
        simp only at hj ⊢
        by_cases hjs : j < st.start
        · exact hkeep j (h.before_filled j hjs)
        · exact filledIn_spec _ _ _ hf j (by omega) hj
      len := by simp [h.len] }
  · exact {
      start_le := h.start_le
      launched_eq := h.launched_eq
      before_filled := fun j hj => hkeep j (h.before_filled j hj)
      len := by simp [h.len] }

theorem MapInv.fold (n m : Nat) (cs : List (Nat × Json)) :
    MapInv (cs.foldl (fun st c => st.complete c.1 c.2) (MapSt.init n m)) := by
  have : ∀ st, MapInv st → MapInv (cs.foldl (fun st c => st.complete c.1 c.2) st) := by
    induction cs with
    | nil => intro st h; simpa
    | cons c cs ih => intro st h; simp only [List.foldl_cons]; exact ih _ (MapInv.complete st c.1 c.2 h)
  exact this _ (MapInv.init n m)

theorem MapInv.fold_params (n m : Nat) (cs : List (Nat × Json)) :
    (cs.foldl (fun st c => st.complete c.1 c.2) (MapSt.init n m)).n = n ∧
    (cs.foldl (fun st c => st.complete c.1 c.2) (MapSt.init n m)).m = m := by
  have : ∀ st : MapSt, (cs.foldl (fun st c => st.complete c.1 c.2) st).n = st.n ∧
      (cs.foldl (fun st c => st.complete c.1 c.2) st).m = st.m := by
    induction cs with
    | nil => intro st; simp
    | cons c cs ih =>
      intro st
      simp only [List.foldl_cons]
      have := ih (st.complete c.1 c.2)
      have h2 : (st.complete c.1 c.2).n = st.n ∧ (st.complete c.1 c.2).m = st.m := by
        unfold MapSt.complete; simp only; split <;> simp
      rw [this.1, this.2, h2.1, h2.2]; exact ⟨rfl, rfl⟩
  simpa [MapSt.init] using this (MapSt.init n m)

theorem MapInv.inflight_le (st : MapSt) (h : MapInv st) (hm : 0 < st.m) : st.inFlight ≤ st.m := by
  unfold MapSt.inFlight
  have hb := batchEnd_ge st.n st.m st.start h.start_le
  rw [h.launched_eq, ← rangeFrom_append 0 st.start _ (by omega) hb.1, List.filter_append, List.length_append]
  have h1 : (List.filter (fun i => (st.slots[i]?).join.isNone) (rangeFrom 0 st.start)) = [] := by
    rw [List.filter_eq_nil_iff]
    intro i hi
    obtain ⟨w, hw⟩ := h.before_filled i ((mem_rangeFrom 0 st.start i).mp hi).2
    simp [hw]
  rw [h1]
  have h2 := List.length_filter_le (fun i => (st.slots[i]?).join.isNone) (rangeFrom st.start (batchEnd st.n st.m st.start))
  have h3 := batchEnd_sub st.n st.m st.start hm
  simp at h2 ⊢
  omega

theorem MapSt.inflight_le (n m : Nat) (hm : 0 < m) (cs : List (Nat × Json)) :
    (cs.foldl (fun st c => st.complete c.1 c.2) (MapSt.init n m)).inFlight ≤ m := by
  have hp := MapInv.fold_params n m cs
  have := MapInv.inflight_le _ (MapInv.fold n m cs) (by rw [hp.2]; exact hm)
  rw [hp.2] at this
  exact this

theorem MapSt.launched_nodup (n m : Nat) (cs : List (Nat × Json)) :
    (cs.foldl (fun st c => st.complete c.1 c.2) (MapSt.init n m)).launched.Nodup := by
  rw [(MapInv.fold n m cs).launched_eq]
  exact rangeFrom_nodup _ _

theorem MapSt.launched_lt (n m : Nat) (cs : List (Nat × Json)) :
    ∀ i ∈ (cs.foldl (fun st c => st.complete c.1 c.2) (MapSt.init n m)).launched, i < n := by
  intro i hi
  have inv := MapInv.fold n m cs
  have hp := MapInv.fold_params n m cs
  rw [inv.launched_eq] at hi
  have := (mem_rangeFrom _ _ i).mp hi
  have hb := batchEnd_ge (List.foldl (fun st c => st.complete c.1 c.2) (MapSt.init n m) cs).n
    (List.foldl (fun st c => st.complete c.1 c.2) (MapSt.init n m) cs).m _ inv.start_le
  have hn := hp.1
  omega

end Asl
