/-
C06 — a failing branch fails its Parallel/Map once; siblings cannot disturb the result.
-/
import AslModel.Fan
import AslModel.Retry
import Proofs.Lemmas.FanProto
namespace Asl.C06
open Asl

/-- once the fan-out is over, any input from any sibling is inert: no state change, no effect -/
theorem late_sibling_inert (f : Fan) (i : FanIn) (h : f.over = true) : f.step i = f := by
  cases i <;> simp [Fan.step, h]

theorem late_siblings_inert (f : Fan) (is : List FanIn) (h : f.over = true) : is.foldl Fan.step f = f := by
  induction is with
  | nil => rfl
  | cons i is ih => simp only [List.foldl_cons, late_sibling_inert f i h, ih]

/-- number of terminal effects (success or failure hand-over) -/
def terminals (f : Fan) : Nat := (f.effects.filter isTerminalEff).length

theorem terminals_append (f : Fan) (es : List FanEff) :
    ((f.effects ++ es).filter isTerminalEff).length = terminals f + (es.filter isTerminalEff).length := by
  simp [terminals, List.filter_append]

theorem step_terminals (f : Fan) (i : FanIn) (h : terminals f = if f.over then 1 else 0) :
    terminals (f.step i) = if (f.step i).over then 1 else 0 := by
  cases ho : f.over with
  | true => rw [late_sibling_inert f i ho]; exact h
  | false =>
    rw [ho] at h
    simp only [Bool.false_eq_true, if_false] at h
    cases i with
    | done k v =>
      simp only [Fan.step, ho, Bool.false_eq_true, if_false]
      cases hr : Join.result (Join.record f.slots k v) with
      | some vs =>
        simp only [terminals, if_true]
        rw [terminals_append, h]
        rfl
      | none =>
        simp only [ho, Bool.false_eq_true, if_false]
        exact h
    | fail k e =>
      simp only [Fan.step, ho, Bool.false_eq_true, if_false, terminals, if_true]
      rw [terminals_append, h]
      have hc : ((pendingExcept f.slots k).map FanEff.cancel).filter isTerminalEff = [] := by
        rw [List.filter_eq_nil_iff]
        intro x hx
        obtain ⟨j, _, rfl⟩ := List.mem_map.mp hx
        simp [isTerminalEff]
      simp [List.filter_cons, isTerminalEff, hc]

/-- exactly once: for every sequence of branch completions and failures, in any order and with
any repetitions, the fan-out hands over at most one outcome — and exactly one once it is over -/
theorem fanout_ends_once (n : Nat) (is : List FanIn) :
    terminals (Fan.run n is) = if (Fan.run n is).over then 1 else 0 := by
  have : ∀ f, terminals f = (if f.over then 1 else 0) →
      terminals (is.foldl Fan.step f) = if (is.foldl Fan.step f).over then 1 else 0 := by
    induction is with
    | nil => intro f h; exact h
    | cons i is ih => intro f h; exact ih _ (step_terminals f i h)
  exact this _ (by simp [terminals, Fan.init])

/-- the fan-out fails with the error of the first failing branch: if no branch failed and the
join did not complete before, the hand-over is `failWith e` and nothing later changes that -/
theorem fanout_fails_with_branch_error (f : Fan) (i : Nat) (e : Str) (post : List FanIn)
    (h : f.over = false) :
    (post.foldl Fan.step (f.step (.fail i e))).effects =
      f.effects ++ (.failWith e :: (pendingExcept f.slots i).map .cancel) := by
  have hs : (f.step (.fail i e)).over = true := by simp [Fan.step, h]
  rw [late_siblings_inert _ post hs]
  simp [Fan.step, h]

/-- siblings cancelled: at the failure every sibling that has not finished is cancelled -/
theorem siblings_cancelled (f : Fan) (i j : Nat) (e : Str) (h : f.over = false)
    (hj : j < f.slots.length) (hne : j ≠ i) (hp : f.slots[j]? = some none) :
    FanEff.cancel j ∈ (f.step (.fail i e)).effects := by
  simp only [Fan.step, h]
  apply List.mem_append_right
  apply List.mem_cons_of_mem
  apply List.mem_map.mpr
  refine ⟨j, ?_, rfl⟩
  simp only [pendingExcept, List.mem_filter, List.mem_range]
  refine ⟨hj, ?_⟩
  simp [hne, hp]

/-- … and only those: a finished sibling is not cancelled, nor is the failing branch itself -/
theorem only_pending_cancelled (f : Fan) (i j : Nat) (e : Str) (h : f.over = false)
    (hm : FanEff.cancel j ∈ (f.step (.fail i e)).effects) (hold : FanEff.cancel j ∉ f.effects) :
    j ≠ i ∧ (f.slots[j]?).join = none := by
  simp only [Fan.step, h] at hm
  rcases List.mem_append.mp hm with h1 | h1
  · exact absurd h1 hold
  · rcases List.mem_cons.mp h1 with h2 | h2
    · cases h2
    · obtain ⟨k, hk, hkj⟩ := List.mem_map.mp h2
      cases hkj
      simp only [pendingExcept, List.mem_filter, List.mem_range, Bool.and_eq_true, bne_iff_ne, ne_eq,
        Option.isNone_iff_eq_none] at hk
      exact ⟨hk.2.1, hk.2.2⟩

/-! non-vacuity -/
example : (Fan.run 3 [.done 1 (.num 1), .fail 0 (S "E"), .done 2 (.num 2), .fail 2 (S "F"), .done 0 .null]).effects
    = [.failWith (S "E"), .cancel 2] := by decide
example : (Fan.run 2 [.done 1 (.num 1), .done 0 (.num 0), .fail 1 (S "late")]).effects
    = [.succeed [.num 0, .num 1]] := by decide

/-! ## nested fan-outs under arbitrary interleavings: the protocol model `AslModel/FanProto.lean`

`run q init is` runs the model on ANY sequence `is` of launches, branch events, deferred handlers, task replies / wait
expiries, cancellation callbacks, top-level endings and back-stop ticks (attempt ids, branch indices, continuations and
Retry / Catch decisions arbitrary); `Quirks.none` is the repaired protocol, `Quirks.asCode` the code as it is
(findings C06-F3 … C06-F6: each switch has its negation witness below). -/
section FanProto
open Asl.FanProto

/-- (ii) in the output sequence of ANY run, under any switches, no hand-over of attempt `a` comes after a failure of `a`:
once an attempt has failed its join never hands over a result, whatever arrives afterwards — results of its own branches,
of attempts nested in them, late events, replies, deferred handlers, in any order -/
theorem terminated_attempt_never_succeeds (q : Quirks) (is : List Inp) (a : Nat) (e : Err) (vs : List Nat)
    (pre post : List Out) (h : (run q init is).2 = pre ++ Out.failAttempt a e :: post) : Out.succeed a vs ∉ post :=
  run_no_succeed_after_fail q init is wf_init a e vs pre post h

/-- … in particular not in answer to anything that arrives later -/
theorem terminated_attempt_never_succeeds_later (q : Quirks) (is1 is2 : List Inp) (a : Nat) (e : Err) (vs : List Nat)
    (h : Out.failAttempt a e ∈ (run q init is1).2) : Out.succeed a vs ∉ (run q (run q init is1).1 is2).2 :=
  run_dead_no_succeed q _ is2 a vs (run_fail_dead q init is1 a wf_init (Or.inl ⟨e, h⟩))

/-- (iii) the first failure wins: in the repaired protocol an attempt that has failed is never failed (nor torn down) again,
so its state's Retry / Catch runs at most once per attempt … -/
theorem first_failure_wins (is1 is2 : List Inp) (a : Nat) (e e' : Err)
    (h : Out.failAttempt a e ∈ (run Quirks.none init is1).2) :
    Out.failAttempt a e' ∉ (run Quirks.none (run Quirks.none init is1).1 is2).2 ∧
    Out.aborted a ∉ (run Quirks.none (run Quirks.none init is1).1 is2).2 :=
  run_dead_no_fail Quirks.none rfl _ is2 a e' (run_fail_dead Quirks.none init is1 a wf_init (Or.inl ⟨e, h⟩))

/-- … and every attempt the failure of a branch fails, up the chain of enclosing attempts, fails with that branch's error -/
theorem failure_carries_branch_error (q : Quirks) (s : Proto) (a i b : Nat) (e e' : Err) (hs : List Handled)
    (h : Out.failAttempt b e' ∈ (step q s (.event a i (.fail e hs))).2) : e' = e :=
  event_fail_error q s a i b e e' hs h

/-- (iv) after the execution has ended nothing that arrives — in any order, any number of times — produces anything but
acknowledgements / drops, cancels, tear-downs and the deletion of the retained metadata: no progress, no result, no
failure hand-over, no retry, no catch transition, no second ending -/
theorem late_inputs_inert_after_end (is1 is2 : List Inp) (ok : Bool)
    (h : Out.endExecution ok ∈ (run Quirks.none init is1).2) :
    ∀ o ∈ (run Quirks.none (run Quirks.none init is1).1 is2).2, o.quiet = true :=
  run_quiet_after_end _ is2 (run_inv init is1 inv_init) (run_end_ended init is1 ok h)

/-- (v) drained when quiet: in every reachable state of an ended execution the metadata is retained only while some
results entry still waits for a result — when no slot is unresolved any more (every outstanding event has been consumed:
delivered or dropped) it is gone … -/
theorem drained_when_quiet (is : List Inp) (he : (run Quirks.none init is).1.ended.isSome = true)
    (hq : ∀ x ∈ (run Quirks.none init is).1.atts, x.seen = true → x.waits = false) :
    (run Quirks.none init is).1.hasMeta = false := by
  cases hm : (run Quirks.none init is).1.hasMeta with
  | false => rfl
  | true =>
    obtain ⟨x, hx, hs, hu⟩ := (run_inv init is inv_init).pending he hm
    rw [hq x hx hs] at hu
    cases hu

/-- … and whatever is still retained then is discarded by the next back-stop tick, without another ending -/
theorem backstop_discards_retained (s : Proto) (he : s.ended.isSome = true) :
    (step Quirks.none s .backstop).1.hasMeta = false ∧ ∀ o ∈ (step Quirks.none s .backstop).2, o = Out.discard := by
  simp only [step, he, if_true]
  split
  · rename_i h
    simp only [Bool.not_eq_true'] at h
    exact ⟨h, by intro o ho; cases ho⟩
  · exact ⟨rfl, by intro o ho; simpa using ho⟩

/-- (vi) a Retry launches a fresh attempt: in the repaired protocol whatever is addressed to the old, terminated attempt `a`
(a late event, deferred handler, reply or cancellation callback of any of its branches) changes no other attempt that is
alive — in particular not the new attempt — and produces nothing but tidy-up outputs -/
theorem retry_launches_fresh_attempt (s : Proto) (a b i : Nat) (x : Attempt) (inp : Inp)
    (hrun : s.ended = none) (hx : find s.atts a = some x) (ht : x.terminated = true)
    (hne : b ≠ a) (hb : deadChain s.atts b = false)
    (hinp : (∃ k, inp = .event a i k) ∨ (∃ k, inp = .deferred a i k) ∨ (∃ k, inp = .reply a i k) ∨ inp = .echo a i) :
    find (step Quirks.none s inp).1.atts b = find s.atts b ∧ ∀ o ∈ (step Quirks.none s inp).2, o.quiet = true :=
  old_attempt_inputs_inert s a b i x inp hrun hx ht hne hb hinp

/-- (vii) siblings make no further progress: in the repaired protocol the step in which an attempt fails — whether the
failure is then retried, caught or ends the execution — leaves no task or wait outstanding in any attempt that is dead:
the failed attempt itself and every attempt nested, at any depth, in one of its branches (each is cancelled in that step) -/
theorem failure_cancels_nested (is : List Inp) (inp : Inp) (a : Nat) (e : Err)
    (h : Out.failAttempt a e ∈ (step Quirks.none (run Quirks.none init is).1 inp).2) :
    ∀ x ∈ (step Quirks.none (run Quirks.none init is).1 inp).1.atts, x.seen = true →
      deadChain (step Quirks.none (run Quirks.none init is).1 inp).1.atts x.id = true →
      ∀ sl ∈ x.slots, sl.cancellable = false :=
  step_failure_cancels_nested _ inp a e (run_ts Quirks.none init is (by intro x hx; cases hx)) h

/-- (viii) a cancellation is silent: the Task.Terminated callback of a cancelled task or wait goes through no Retry or
Catch — neither the cancelled state's own nor that of a fan-out around it: whatever the state, the switches and the
decisions an input might list for it, it produces nothing but tidy-up outputs (no progress, no retry, no catch transition) … -/
theorem cancellation_is_silent (q : Quirks) (s : Proto) (a i : Nat) :
    (∀ o ∈ (step q s (.echo a i)).2, o.quiet = true) ∧
    ∀ atts b j hs hs', bubble q s.ended.isSome atts b j (.fail .taskTerminated hs) = bubble q s.ended.isSome atts b j (.fail .taskTerminated hs') :=
  ⟨echo_quiet q s a i, fun atts b j hs hs' => bub_tt_handlers_irrelevant q _ atts b j hs hs'⟩

/-- … and the same holds for the reply of a task whose attempt is terminated, whatever continuation it carries -/
theorem late_reply_of_terminated_attempt_is_silent (q : Quirks) (s : Proto) (a i : Nat) (k : Kont) (x : Attempt)
    (hf : find s.atts a = some x) (ht : x.terminated = true) :
    (∀ o ∈ (step q s (.reply a i k)).2, o.quiet = true) ∧ step q s (.reply a i k) = step q s (.reply a i .goesOn) :=
  reply_terminated_quiet q s a i k x hf ht

/-! ### the switches of the open findings break exactly these statements (negations, proved on concrete witnesses) -/

/-- the outer attempt 0 (two branches) fails and is retried while attempt 1, nested in its branch 1, has a task out -/
def nestedRetried : List Inp :=
  [.launch 0 2 2 none 0, .event 0 1 .goesOn, .launch 1 1 1 (some (0, 1)) 0, .event 1 0 .arm,
   .event 0 0 (.fail (.plain 1) [.retried])]
/-- … then the nested attempt's task fails too -/
def nestedFailsLater : List Inp := [.reply 1 0 (.fail (.plain 2) [.uncaught, .retried])]

/-- the code as it was when C06-F3 was found: the nested task survives the enclosing failure (C06-F6) and its failure … -/
def asFoundF3 : Quirks := { refail := true, nestedSurvive := true }

/-- C06-F3 (`refail`): … fails the terminated attempt 0 again, with the other error, and retries it a second time -/
theorem refail_breaks_first_failure_wins :
    Out.failAttempt 0 (.plain 1) ∈ (run asFoundF3 init nestedRetried).2 ∧
    Out.failAttempt 0 (.plain 2) ∈ (run asFoundF3 (run asFoundF3 init nestedRetried).1 nestedFailsLater).2 ∧
    Out.retry 0 1 ∈ (run asFoundF3 (run asFoundF3 init nestedRetried).1 nestedFailsLater).2 := by decide

/-- … then the nested attempt's task answers after all -/
def nestedRepliesLater : List Inp := [.reply 1 0 (.done 3 [true])]

/-- C06-F6 (`nestedSurvive`): the task of the nested attempt 1 is still outstanding after attempt 0 failed (nothing cancelled
it), its late reply is accepted and the abandoned join hands over -/
theorem nested_survive_breaks_cancellation :
    Out.failAttempt 0 (.plain 1) ∈ (run { nestedSurvive := true } init nestedRetried).2 ∧
    Out.cancel 1 0 ∉ (run { nestedSurvive := true } init nestedRetried).2 ∧
    slotOf (run { nestedSurvive := true } init nestedRetried).1.atts 1 0 = some .task ∧
    (run { nestedSurvive := true } (run { nestedSurvive := true } init nestedRetried).1 nestedRepliesLater).2 =
      [.progress 1 0, .succeed 1 [3]] := by decide

/-- three levels: attempt 2 in attempt 1 in branch 1 of attempt 0; branch 0 of attempt 0 fails unhandled: the execution ends -/
def deepThenOuterFails : List Inp :=
  [.launch 0 2 2 none 0, .event 0 1 .goesOn, .launch 1 1 1 (some (0, 1)) 0, .event 1 0 .goesOn,
   .launch 2 1 1 (some (1, 0)) 0, .event 2 0 .goesOn, .event 0 0 (.fail (.plain 1) [])]
/-- … then the queued event of the innermost branch is delivered -/
def deepEventLater : List Inp := [.event 2 0 (.done 7 [true, true, true])]

/-- C06-F4 (`oneLevel`): after the end the innermost event is accepted and two joins hand over -/
theorem one_level_lookup_breaks_inertness :
    Out.endExecution false ∈ (run { oneLevel := true } init deepThenOuterFails).2 ∧
    Out.progress 2 0 ∈ (run { oneLevel := true } (run { oneLevel := true } init deepThenOuterFails).1 deepEventLater).2 ∧
    Out.succeed 1 [7] ∈ (run { oneLevel := true } (run { oneLevel := true } init deepThenOuterFails).1 deepEventLater).2 := by decide

/-! non-vacuity: the hypotheses of the theorems above are met by these runs, and the repaired protocol does what they say -/
example : Out.failAttempt 0 (.plain 1) ∈ (run Quirks.none init nestedRetried).2 := by decide
example : (run Quirks.none init nestedRetried).2 =
    [.launched 0, .progress 0 1, .launched 1, .progress 1 0, .progress 0 0] ++ Out.failAttempt 0 (.plain 1) :: [.retry 0 1, .cancel 1 0] := by
  decide
/-- the repaired protocol cancels the nested task in the step of the failure; what arrives for it later is an orphan -/
example : slotOf (run Quirks.none init nestedRetried).1.atts 1 0 = some .cancelling ∧
    (run Quirks.none (run Quirks.none init nestedRetried).1 nestedFailsLater).2 = [.orphan 1 0] ∧
    (run Quirks.none (run Quirks.none init nestedRetried).1 ([.echo 1 0] ++ nestedRepliesLater)).2 = [.aborted 1, .orphan 1 0] := by decide
example : Out.endExecution false ∈ (run Quirks.none init deepThenOuterFails).2 := by decide
example : (run Quirks.none (run Quirks.none init deepThenOuterFails).1 deepEventLater).2 = [.drop 2 0, .discard] := by decide
example : (run Quirks.none init deepThenOuterFails).1.ended.isSome = true ∧ (run Quirks.none init deepThenOuterFails).1.hasMeta = true ∧
    (run Quirks.none init (deepThenOuterFails ++ deepEventLater)).1.hasMeta = false := by decide
example : (step Quirks.none (run Quirks.none init deepThenOuterFails).1 .backstop).2 = [.discard] := by decide
/-- (vi): attempt 0 retried, attempt 3 launched in its place; a late reply for the old nested attempt 1 … -/
example : (run Quirks.none init (nestedRetried ++ [.launch 3 2 2 none 1, .event 3 0 .goesOn])).1.ended = none ∧
    deadChain (run Quirks.none init (nestedRetried ++ [.launch 3 2 2 none 1, .event 3 0 .goesOn])).1.atts 3 = false ∧
    (find (run Quirks.none init (nestedRetried ++ [.launch 3 2 2 none 1, .event 3 0 .goesOn])).1.atts 0).map (·.terminated) = some true := by
  decide
example : (step Quirks.none (run Quirks.none init nestedRetried).1 (.event 0 0 (.fail (.plain 5) []))).2 = [.drop 0 0] := by
  decide
/-- an unhandled failure of the innermost branch fails all three attempts of the chain with the same error -/
example : (step Quirks.none (run Quirks.none init (deepThenOuterFails.take 6)).1 (.event 2 0 (.fail (.plain 9) []))).2 =
    [.progress 2 0, .failAttempt 2 (.plain 9), .failAttempt 1 (.plain 9), .failAttempt 0 (.plain 9), .endExecution false] := by
  decide

/-- a Map of three items using MaxConcurrency 1: the join waits for the batches not launched yet and hands over once -/
example : (run Quirks.none init [.launch 0 3 1 none 0, .event 0 0 (.done 5 [true]), .batch 0 1 2 false, .batch 0 1 2 true,
    .event 0 1 (.done 6 [true]), .batch 0 2 3 false, .batch 0 2 3 true, .event 0 2 (.done 7 [true])]).2.filter (fun o => !o.quiet && o != .progress 0 0
      && o != .progress 0 1 && o != .progress 0 2) = [.launched 0, .succeed 0 [5, 6, 7], .endExecution true] := by decide
/-- … and the re-entry event of a nested Map that arrives after the enclosing attempt failed is dropped: its batch is never launched -/
example : (run Quirks.none init [.launch 0 2 2 none 0, .event 0 1 .goesOn, .launch 1 3 1 (some (0, 1)) 0, .event 1 0 (.done 5 [true]),
    .event 0 0 (.fail (.plain 1) []), .batch 1 1 2 false]).2 =
    [.launched 0, .progress 0 1, .launched 1, .progress 1 0, .progress 0 0, .failAttempt 0 (.plain 1), .endExecution false,
     .drop 1 1, .discard] := by decide

/-- the last result completes the join of the nested attempt 1, whose state then fails (its ResultPath, say) and is not
handled: the enclosing attempt 0 fails with that error, is retried, and its other branch is cancelled -/
example : (run Quirks.none init [.launch 0 2 2 none 0, .event 0 0 .arm, .event 0 1 .goesOn, .launch 1 1 1 (some (0, 1)) 0,
    .event 1 0 (.doneFail 4 (.plain 3) [.uncaught, .retried])]).2 =
    [.launched 0, .progress 0 0, .progress 0 1, .launched 1, .progress 1 0, .joinFailed 1 (.plain 3), .failAttempt 0 (.plain 3),
     .retry 0 1, .cancel 0 0] := by decide

/-- attempt 0 is terminated with a task of its branch 1 still registered: its late reply, whatever it would have led to -/
example : (find (run { nestedSurvive := true } init [.launch 0 2 2 none 0, .event 0 1 .arm, .event 0 0 (.fail (.plain 1) [.caught])]).1.atts 0).map
    (fun x => (x.terminated, x.slots)) = some (true, [.done 0, .cancelling]) := by decide

end FanProto

end Asl.C06
