/-
C06 — a failing branch fails its Parallel/Map once; siblings cannot disturb the result.
-/
import AslModel.Fan
import AslModel.Retry
namespace Asl.C06
open Asl

/-- once the fan-out is over, any input from any sibling is inert: no state change, no effect -/
theorem late_sibling_inert (f : Fan) (i : FanIn) (h : f.over = true) : f.step i = f := by
  cases i <;> simp [Fan.step, h]

theorem late_siblings_inert (f : Fan) (is : List FanIn) (h : f.over = true) : is.foldl Fan.step f = f := by
  induction is with
  | nil => rfl
  | cons i is ih => simp only [List.foldl_cons, late_sibling_inert f i h, ih]

/-- number of terminal effects (success or failure hand-over) -/
def terminals (f : Fan) : Nat := (f.effects.filter isTerminalEff).length

theorem terminals_append (f : Fan) (es : List FanEff) :
    ((f.effects ++ es).filter isTerminalEff).length = terminals f + (es.filter isTerminalEff).length := by
  simp [terminals, List.filter_append]

theorem step_terminals (f : Fan) (i : FanIn) (h : terminals f = if f.over then 1 else 0) :
    terminals (f.step i) = if (f.step i).over then 1 else 0 := by
  cases ho : f.over with
  | true => rw [late_sibling_inert f i ho]; exact h
  | false =>
    rw [ho] at h
    simp only [Bool.false_eq_true, if_false] at h
    cases i with
    | done k v =>
      simp only [Fan.step, ho, Bool.false_eq_true, if_false]
      cases hr : Join.result (Join.record f.slots k v) with
      | some vs =>
        simp only [terminals, if_true]
        rw [terminals_append, h]
        rfl
      | none =>
        simp only [ho, Bool.false_eq_true, if_false]
        exact h
    | fail k e =>
      simp only [Fan.step, ho, Bool.false_eq_true, if_false, terminals, if_true]
      rw [terminals_append, h]
      have hc : ((pendingExcept f.slots k).map FanEff.cancel).filter isTerminalEff = [] := by
        rw [List.filter_eq_nil_iff]
        intro x hx
        obtain ⟨j, _, rfl⟩ := List.mem_map.mp hx
        simp [isTerminalEff]
      simp [List.filter_cons, isTerminalEff, hc]

/-- exactly once: for every sequence of branch completions and failures, in any order and with
any repetitions, the fan-out hands over at most one outcome — and exactly one once it is over -/
theorem fanout_ends_once (n : Nat) (is : List FanIn) :
    terminals (Fan.run n is) = if (Fan.run n is).over then 1 else 0 := by
  have : ∀ f, terminals f = (if f.over then 1 else 0) →
      terminals (is.foldl Fan.step f) = if (is.foldl Fan.step f).over then 1 else 0 := by
    induction is with
    | nil => intro f h; exact h
    | cons i is ih => intro f h; exact ih _ (step_terminals f i h)
  exact this _ (by simp [terminals, Fan.init])

/-- the fan-out fails with the error of the first failing branch: if no branch failed and the
join did not complete before, the hand-over is `failWith e` and nothing later changes that -/
theorem fanout_fails_with_branch_error (f : Fan) (i : Nat) (e : Str) (post : List FanIn)
    (h : f.over = false) :
    (post.foldl Fan.step (f.step (.fail i e))).effects =
      f.effects ++ (.failWith e :: (pendingExcept f.slots i).map .cancel) := by
  have hs : (f.step (.fail i e)).over = true := by simp [Fan.step, h]
  rw [late_siblings_inert _ post hs]
  simp [Fan.step, h]

/-- siblings cancelled: at the failure every sibling that has not finished is cancelled -/
theorem siblings_cancelled (f : Fan) (i j : Nat) (e : Str) (h : f.over = false)
    (hj : j < f.slots.length) (hne : j ≠ i) (hp : f.slots[j]? = some none) :
    FanEff.cancel j ∈ (f.step (.fail i e)).effects := by
  simp only [Fan.step, h]
  apply List.mem_append_right
  apply List.mem_cons_of_mem
  apply List.mem_map.mpr
  refine ⟨j, ?_, rfl⟩
  simp only [pendingExcept, List.mem_filter, List.mem_range]
  refine ⟨hj, ?_⟩
  simp [hne, hp]

/-- … and only those: a finished sibling is not cancelled, nor is the failing branch itself -/
theorem only_pending_cancelled (f : Fan) (i j : Nat) (e : Str) (h : f.over = false)
    (hm : FanEff.cancel j ∈ (f.step (.fail i e)).effects) (hold : FanEff.cancel j ∉ f.effects) :
    j ≠ i ∧ (f.slots[j]?).join = none := by
  simp only [Fan.step, h] at hm
  rcases List.mem_append.mp hm with h1 | h1
  · exact absurd h1 hold
  · rcases List.mem_cons.mp h1 with h2 | h2
    · cases h2
    · obtain ⟨k, hk, hkj⟩ := List.mem_map.mp h2
      cases hkj
      simp only [pendingExcept, List.mem_filter, List.mem_range, Bool.and_eq_true, bne_iff_ne, ne_eq,
        Option.isNone_iff_eq_none] at hk
      exact ⟨hk.2.1, hk.2.2⟩

/-! non-vacuity -/
example : (Fan.run 3 [.done 1 (.num 1), .fail 0 (S "E"), .done 2 (.num 2), .fail 2 (S "F"), .done 0 .null]).effects
    = [.failWith (S "E"), .cancel 2] := by decide
example : (Fan.run 2 [.done 1 (.num 1), .done 0 (.num 0), .fail 1 (S "late")]).effects
    = [.succeed [.num 0, .num 1]] := by decide

end Asl.C06
