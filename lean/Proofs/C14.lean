/-
C14 — Choice rules compare by type and combine like Boolean logic.
Property theorems and non-vacuity examples only; helper lemmas live in Proofs/Lemmas
(the RFC 3339 theorems `parse_print_rfc3339` / `instant_offset` are in
Proofs/Lemmas/Timestamp.lean because C08 re-exports them).
-/
import AslModel.Choice
import Proofs.Lemmas.Timestamp
import Proofs.Lemmas.Choice
namespace Asl.C14
open Asl Asl.ChoiceLemmas

/-! ### value comparisons -/

/-- For each of the 16 value comparisons and StringMatches (`c` ranges over all of them):
the rule matches **exactly when** the Variable exists, both operands have the operator's
type and the relation holds (`Matches` is the declarative relation: numbers numerically,
strings by code point, booleans by identity, timestamps by instant, `GlobMatch`). -/
theorem cmp_sound_complete (e : CEnv) (c : Cmp) (var : Str) (k : Json) :
    evalRule e (.cmp c var k) = true ↔
      ∃ x, e.lookup var = some x ∧ HasType c x ∧ HasType c k ∧ Matches c x k := by
  simp only [evalRule]
  constructor
  · intro h
    split at h
    · rename_i x hx
      have hm := (evalCmp_iff c x k).mp h
      exact ⟨x, hx, (matches_hasType c x k hm).1, (matches_hasType c x k hm).2, hm⟩
    · cases h
  · rintro ⟨x, hx, _, _, hm⟩
    simp [hx, (evalCmp_iff c x k).mpr hm]

/-- a missing Variable never matches a value comparison -/
theorem cmp_missing_never_matches (e : CEnv) (c : Cmp) (var : Str) (k : Json)
    (h : e.lookup var = none) : evalRule e (.cmp c var k) = false := by
  simp [evalRule, h]

/-- a value of the wrong type never matches a value comparison -/
theorem cmp_wrong_type_never_matches (e : CEnv) (c : Cmp) (var : Str) (k x : Json)
    (hx : e.lookup var = some x) (h : ¬ HasType c x) : evalRule e (.cmp c var k) = false := by
  cases hr : evalRule e (.cmp c var k) with
  | false => rfl
  | true =>
    obtain ⟨x', hx', ht, _⟩ := (cmp_sound_complete e c var k).mp hr
    rw [hx] at hx'; cases hx'; exact absurd ht h

/-- a constant of the wrong type never matches either -/
theorem cmp_wrong_constant_never_matches (e : CEnv) (c : Cmp) (var : Str) (k : Json)
    (h : ¬ HasType c k) : evalRule e (.cmp c var k) = false := by
  cases hr : evalRule e (.cmp c var k) with
  | false => rfl
  | true =>
    obtain ⟨_, _, _, hk, _⟩ := (cmp_sound_complete e c var k).mp hr
    exact absurd hk h

/-- the `…Path` variants compare against the value the path references (and do not match
when it references nothing) -/
theorem path_variant (e : CEnv) (c : Cmp) (var p : Str) :
    evalRule e (.cmpPath c var p) = true ↔
      ∃ k, e.lookup p = some k ∧ evalRule e (.cmp c var k) = true := by
  simp only [evalRule]
  constructor
  · intro h
    split at h
    · rename_i x k hx hk
      exact ⟨k, hk, by simp [hx, h]⟩
    · cases h
  · rintro ⟨k, hk, h⟩
    split at h
    · rename_i x hx; simp [hx, hk, h]
    · cases h

/-- IsPresent reports whether the Variable selects anything; the other five type tests
report the type fact of the selected value, and say nothing (match neither `true` nor
`false`) when there is no value. -/
theorem is_tests (e : CEnv) (t : IsOp) (var : Str) (b : Bool) :
    evalRule e (.is t var b) = true ↔
      (t = .present ∧ ((∃ x, e.lookup var = some x) ↔ b = true)) ∨
      (t ≠ .present ∧ ∃ x, e.lookup var = some x ∧ (TypeFact t x ↔ b = true)) := by
  cases t with
  | present =>
    simp only [evalRule, ne_eq, not_true_eq_false, false_and, or_false, true_and]
    cases hl : e.lookup var <;> cases b <;> simp
  | null | numeric | string | boolean | timestamp =>
    simp only [evalRule, reduceCtorEq, false_and, false_or, ne_eq, not_false_eq_true, true_and]
    cases hl : e.lookup var with
    | none => simp
    | some x =>
      simp only [Option.some.injEq, exists_eq_left', ← isType_iff]
      cases isType _ x <;> cases b <;> simp

/-! ### And / Or / Not over arbitrary rule trees -/

theorem and_all (e : CEnv) (rs : List Rule) :
    evalRule e (.and rs) = true ↔ ∀ r ∈ rs, evalRule e r = true := by
  simp [evalRule, evalAll_iff]

theorem or_any (e : CEnv) (rs : List Rule) :
    evalRule e (.or rs) = true ↔ ∃ r ∈ rs, evalRule e r = true := by
  simp [evalRule, evalAny_iff]

theorem not_neg (e : CEnv) (r : Rule) : evalRule e (.not r) = !evalRule e r := by
  simp [evalRule]

theorem double_negation (e : CEnv) (r : Rule) : evalRule e (.not (.not r)) = evalRule e r := by
  simp [evalRule]

theorem de_morgan_and (e : CEnv) (rs : List Rule) :
    evalRule e (.not (.and rs)) = evalRule e (.or (rs.map .not)) := by
  simp [evalRule, evalAny_map_not]

theorem de_morgan_or (e : CEnv) (rs : List Rule) :
    evalRule e (.not (.or rs)) = evalRule e (.and (rs.map .not)) := by
  simp [evalRule, evalAll_map_not]

/-! ### StringMatches -/

/-- the matcher decides exactly the `*`-wildcard-with-backslash-escape relation -/
theorem glob_iff (p s : Str) : glob p s = true ↔ GlobMatch p s :=
  ⟨glob_sound p.length p (Nat.le_refl _) s, glob_complete p s⟩

/-- no other metacharacters: a pattern without `*` and `\` matches only itself -/
theorem glob_no_other_meta (p s : Str) (h1 : '*' ∉ p) (h2 : '\\' ∉ p) :
    glob p s = true ↔ s = p := by
  induction p generalizing s with
  | nil => simp [glob_nil]
  | cons c p ih =>
    simp at h1 h2
    have hc1 : c ≠ '*' := fun h => h1.1 h.symm
    have hesc : ¬ IsEsc c p := fun h => h2.1 h.1.symm
    rw [glob_lit c p s hc1 hesc]
    cases s with
    | nil => simp
    | cons d s' => simp [ih s' h1.2 h2.2]

/-! ### orders -/

/-- String comparisons are by code point: StringLessThan matches exactly when the value
precedes the constant in the lexicographic order of code points. -/
theorem strings_by_codepoint (e : CEnv) (r : Rel) (var : Str) (b : Str) :
    evalRule e (.cmp (.str r) var (.str b)) = true ↔
      ∃ a, e.lookup var = some (.str a) ∧ r.Holds CodeLt a b := by
  simp only [evalRule]
  constructor
  · intro h
    split at h
    · rename_i x hx
      cases x <;> simp [evalCmp] at h
      rename_i a
      exact ⟨a, hx, (evalStr_iff r a b).mp h⟩
    · cases h
  · rintro ⟨a, ha, hr⟩
    simp [ha, evalCmp, (evalStr_iff r a b).mpr hr]

/-- Timestamp comparisons are by the instant denoted, whatever the offset notation. -/
theorem timestamps_by_instant (e : CEnv) (r : Rel) (var : Str) (b : Str) :
    evalRule e (.cmp (.ts r) var (.str b)) = true ↔
      ∃ a ta tb, e.lookup var = some (.str a) ∧ parseTs a = some ta ∧ parseTs b = some tb ∧
        r.Holds (· < ·) ta.instant tb.instant := by
  rw [cmp_sound_complete]
  constructor
  · rintro ⟨x, hx, _, _, hm⟩
    cases hm with
    | ts _ a _ ta tb ha hb hr => exact ⟨a, ta, tb, hx, ha, hb, hr⟩
  · rintro ⟨a, ta, tb, hx, ha, hb, hr⟩
    exact ⟨.str a, hx, ⟨a, ta, rfl, ha⟩, ⟨b, tb, rfl, hb⟩, Matches.ts r a b ta tb ha hb hr⟩

/-! ### rule order, Default, States.NoChoiceMatched -/

/-- rules are tried in array order and the first match wins -/
theorem first_match_wins (e : CEnv) (pre post : List (Rule × Str)) (r : Rule) (n : Str)
    (d : Option Str) (hpre : ∀ c ∈ pre, evalRule e c.1 = false) (hr : evalRule e r = true) :
    choose e (pre ++ (r, n) :: post) d = .ok n := by
  have : firstMatch e (pre ++ (r, n) :: post) = some n :=
    (firstMatch_some_iff e _ n).mpr ⟨pre, r, post, rfl, hpre, hr⟩
  simp [choose, this]

/-- with no match the Default is taken -/
theorem default_taken (e : CEnv) (cs : List (Rule × Str)) (d : Str)
    (h : ∀ c ∈ cs, evalRule e c.1 = false) : choose e cs (some d) = .ok d := by
  simp [choose, (firstMatch_none_iff e cs).mpr h]

/-- with no match and no Default the state fails with States.NoChoiceMatched -/
theorem no_choice_matched (e : CEnv) (cs : List (Rule × Str))
    (h : ∀ c ∈ cs, evalRule e c.1 = false) :
    choose e cs none = .error .noChoiceMatched ∧
      ChoiceErr.noChoiceMatched.name = "States.NoChoiceMatched" := by
  simp [choose, (firstMatch_none_iff e cs).mpr h, ChoiceErr.name]

/-- and nothing else can happen: every transition a Choice state takes is the first
matching rule's `Next`, or the Default when no rule matches. -/
theorem choose_ok_only_if (e : CEnv) (cs : List (Rule × Str)) (d : Option Str) (n : Str)
    (h : choose e cs d = .ok n) :
    (∃ pre r post, cs = pre ++ (r, n) :: post ∧ (∀ c ∈ pre, evalRule e c.1 = false) ∧
        evalRule e r = true) ∨
    ((∀ c ∈ cs, evalRule e c.1 = false) ∧ d = some n) := by
  simp only [choose] at h
  split at h
  · rename_i m hm
    cases h
    exact Or.inl ((firstMatch_some_iff e cs n).mp hm)
  · rename_i hm
    split at h
    · cases h; exact Or.inr ⟨(firstMatch_none_iff e cs).mp hm, rfl⟩
    · cases h

/-! ### non-vacuity: concrete instances of every hypothesis set -/

def exInput : Json := .obj [("v".toList, .num 5), ("s".toList, .str "abc".toList),
  ("t".toList, .str "2020-01-01T05:30:00+05:30".toList)]
def exEnv : CEnv := { input := exInput, ctx := .obj [] }

/-- cmp_sound_complete is not vacuous: a numeric comparison that matches … -/
example : evalRule exEnv (.cmp (.num .lt) "$.v".toList (.num 7)) = true := by decide
/-- … and the declarative side holds of the same instance -/
example : Matches (.num .lt) (.num 5) (.num 7) := Matches.num .lt 5 7 (by simp [Rel.Holds])
/-- cmp_missing_never_matches: a Variable that selects nothing -/
example : exEnv.lookup "$.q".toList = none := by decide
/-- cmp_wrong_type_never_matches: a string where a number is required -/
example : exEnv.lookup "$.s".toList = some (.str "abc".toList) ∧
    ¬ HasType (.num .eq) (.str "abc".toList) := by
  refine ⟨by decide, ?_⟩
  rintro ⟨n, hn⟩; cases hn
/-- cmp_wrong_constant_never_matches -/
example : ¬ HasType .boolEq (.num 0) := by rintro ⟨b, hb⟩; cases hb
/-- glob_no_other_meta: `?`, `[` and `]` are ordinary characters -/
example : '*' ∉ "a?[c]".toList ∧ '\\' ∉ "a?[c]".toList := by decide
example : glob "a?[c]".toList "ab[c]".toList = false ∧ glob "a?[c]".toList "a?[c]".toList = true := by
  decide
/-- glob: the escapes and the wildcard on a concrete subject -/
example : glob "foo\\*[x]*.l\\\\g".toList "foo*[x]bar.l\\g".toList = true := by decide
/-- timestamps_by_instant: two notations of one instant are equal, and the value parses -/
example : evalRule exEnv (.cmp (.ts .eq) "$.t".toList (.str "2020-01-01T00:00:00Z".toList)) = true := by
  decide
/-- parse_print_rfc3339: a record with a fraction and a non-zero minute offset is `ok` -/
example : (⟨2024, 2, 29, 23, 59, 59, [0, 0, 1], -1439, false⟩ : Ts).ok = true := by decide
/-- days_next_month: February of a leap year to March -/
example : 1 ≤ 2 ∧ 2 < 12 ∧ daysFromCivil 2024 3 1 = daysFromCivil 2024 2 29 + 1 := by decide
/-- first_match_wins: a failing rule before a matching one -/
example : (∀ c ∈ [((Rule.is .null "$.v".toList true), "A".toList)], evalRule exEnv c.1 = false) ∧
    evalRule exEnv (.cmp (.str .ge) "$.s".toList (.str "abc".toList)) = true := by decide
/-- default_taken / no_choice_matched: a non-empty rule list none of whose rules matches -/
example : ∀ c ∈ [((Rule.cmp .boolEq "$.q".toList (.bool false)), "A".toList),
    ((Rule.not (.and [])), "B".toList)], evalRule exEnv c.1 = false := by decide
/-- choose_ok_only_if -/
example : choose exEnv [((Rule.or []), "A".toList)] (some "D".toList) = .ok "D".toList := rfl

end Asl.C14
