/-
C15 — child executions and task-token callbacks complete exactly their launching task.
Model: AslModel/Tasks.lean.  Helper lemmas: Proofs/Lemmas/Tasks.lean.
All theorems are stated for `Quirks.none` (the property's reading).
-/
import Proofs.Lemmas.Tasks
import Proofs.Lemmas.Base64RoundTrip
namespace Asl.C15
open Asl Asl.Tasks

/-! ### tokens -/

/-- decode (encode c r) = some (c, r), on the raw token text, for event ids and reply queue names
free of the separator -/
theorem token_roundtrip_partial (e q : Str) (he : ':' ∉ e) (hq : ':' ∉ q) (hf : isPrefix replyFamily q = true) :
    decodeRaw (rawToken (tokenCid e) q) = some (tokenCid e, q) := by
  have hs : ':' ∉ e ++ wfttSuffix := by
    intro h
    rcases List.mem_append.mp h with h | h
    · exact he h
    · revert h; decide
  have hc : q.contains ':' = false := by
    cases hcq : q.contains ':' with
    | false => rfl
    | true => exact absurd (List.contains_iff_mem.mp hcq) hq
  unfold decodeRaw rawToken tokenCid
  rw [breakAt_append ':' _ _ hs]
  simp only [hc, endsWith_append, hf]
  rfl

/-- decode (encode c r) = some (c, r): the opaque token (base64 of the UTF-8 text) presented back to
SendTaskSuccess / SendTaskFailure decodes to exactly the correlation id and reply queue it was
minted from — for every event id and every reply queue name free of the separator. -/
theorem token_roundtrip (e q : Str) (he : ':' ∉ e) (hq : ':' ∉ q) (hf : isPrefix replyFamily q = true) :
    decodeToken (encodeToken (tokenCid e) q) = some (tokenCid e, q) := by
  unfold decodeToken encodeToken
  rw [b64_roundtrip _ (utf8Str_lt _)]
  simp only [utf8Dec_utf8Str]
  exact token_roundtrip_partial e q he hq hf

example : decodeRaw (rawToken (tokenCid ['e', '1']) (replyFamily ++ ['-', 'i'])) =
    some (tokenCid ['e', '1'], replyFamily ++ ['-', 'i']) :=
  token_roundtrip_partial _ _ (by decide) (by decide) (by decide)

/-- a raw token naming any queue outside the engine's reply queue family is not a token -/
theorem foreign_queue_rejected (c q : Str) (hq : isPrefix replyFamily q = false) (hc : ':' ∉ c) :
    decodeRaw (rawToken c q) = none := by
  unfold decodeRaw rawToken
  rw [breakAt_append ':' _ _ hc]
  simp [hq]

example : decodeRaw (rawToken (tokenCid ['e']) "asl_workflow_events".toList) = none := by decide

/-! ### callbacks -/

/-- A message carrying the task's own token (correlation id) completes it, with exactly the supplied
output / error; what else the step logs are cancellations, and the request is gone afterwards. -/
theorem callback_completes_once (d : Disp) (cid : Str) (r : Req) (s : Bool) (body : Json)
    (hp : aGet d.pending cid = some r) :
    (∃ extra, (onReply Quirks.none d cid (some s) body).log =
        d.log ++ ⟨r.owner, cid, .callback, callbackOutcome Quirks.none s body⟩ :: extra ∧
        ∀ x ∈ extra, x.via = .cancel ∨ x.via = .waitCancel) ∧
    aGet (onReply Quirks.none d cid (some s) body).pending cid = none ∧
    callbackOutcome Quirks.none true body = .ok body := by
  have hcond : (endsWith cid wfttSuffix && (some s).isNone && !isErrorBody body) = false := by simp
  unfold onReply
  rw [hcond]
  simp only [Bool.false_eq_true, if_false, hp]
  have sp := complete_spec { d with pending := aDel d.pending cid }
    ⟨r.owner, cid, .callback, callbackOutcome Quirks.none s body⟩
  exact ⟨sp.1, sp.2 cid (aGet_aDel_self _ _), rfl⟩

/-- … at most once: over any sequence of later operations (callbacks, duplicates, replies, timeouts,
cancellations, other launches) that does not register the same correlation id again, the number of
completions logged under it plus "still pending" never grows. -/
theorem completes_at_most_once (cid : Str) (ops : List Op) (d : Disp)
    (h : ∀ op ∈ ops, op.registers cid = false) :
    countKey cid (run Quirks.none d ops).log + hasKey (run Quirks.none d ops).pending cid
      ≤ countKey cid d.log + hasKey d.pending cid :=
  phi_run cid ops d h

/-- duplicates are inert: once the request is gone nothing is ever completed under its id again -/
theorem duplicates_inert (cid : Str) (ops : List Op) (d : Disp)
    (h : ∀ op ∈ ops, op.registers cid = false) (hgone : aGet d.pending cid = none) :
    countKey cid (run Quirks.none d ops).log ≤ countKey cid d.log := by
  have := completes_at_most_once cid ops d h
  rw [hasKey_none _ _ hgone] at this
  omega

def exDisp : Disp :=
  launchRpc { replyQueue := replyFamily } .token ['e'] ['X']

example : aGet exDisp.pending (tokenCid ['e']) = some ⟨['e'], ['X'], .token⟩ := by decide
example : ∀ op ∈ [Op.reply (tokenCid ['e']) (some true) (.num 1), Op.reply (tokenCid ['e']) (some true) (.num 2),
    Op.timeout (tokenCid ['e'])], op.registers (tokenCid ['e']) = false := by decide
example : (run Quirks.none exDisp [Op.reply (tokenCid ['e']) (some true) (.num 1),
    Op.reply (tokenCid ['e']) (some true) (.num 2)]).log =
    [⟨['e'], tokenCid ['e'], .callback, .ok (.num 1)⟩] := by decide

/-- any other token — one that does not decode, or that names a correlation id no task of this
instance is waiting under — is answered InvalidToken and changes nothing -/
theorem other_token_inert (d : Disp) (tok : Str) (s : Bool) (body : Json)
    (h : ∀ cid q, decodeToken tok = some (cid, q) → q = d.replyQueue → aGet d.pending cid = none) :
    sendTask Quirks.none d tok s body = (.invalidToken, d, none) := by
  unfold sendTask
  split
  · rfl
  · rename_i cid queue hdec
    have hno : ¬ (queue = d.replyQueue ∧ (aGet d.pending cid).isSome = true) := by
      intro ⟨h1, h2⟩
      rw [h cid queue hdec h1] at h2
      cases h2
    rw [if_neg hno]
    rfl

example : ∀ cid q, decodeToken ['%'] = some (cid, q) → q = exDisp.replyQueue → aGet exDisp.pending cid = none := by
  intro cid q h
  have hn : decodeToken ['%'] = none := by decide
  rw [hn] at h; cases h

/-- the recorded deviation C15-F3, as a proved negation: with the switch on, a forged token is answered ok -/
example : (sendTask { statelessTokens := true } { replyQueue := replyFamily }
    (encodeToken (tokenCid ['z']) replyFamily) true .null).1 = .ok := by decide

/-- the recorded deviation C15-F2: with the switch on, a successful callback whose output has an
`Error` member fails the task -/
example : callbackOutcome { inBandCallbackError := true } true (.obj [(sError, .str ['E'])]) =
    .err sTaskFailed (.obj [(sError, .str ['E'])]) := by decide

/-! ### child executions -/

/-- an asynchronous child: the task completes in its own launch step with the start information
(the child's ARN), nothing stays pending, the child is published to the shared queue -/
theorem async_child_returns_at_once (d : Disp) (l : Launch) (si : Json)
    (hv : validate l = none) (hf : l.form = .async) :
    (launch d l si).log = d.log ++ [⟨l.eventId, l.childArn, .launch, .ok si⟩] ∧
    (launch d l si).pending = d.pending ∧
    (launch d l si).started = d.started ++ [(l.childArn, true)] := by
  unfold launch
  rw [hv]
  simp only [hf, if_true]
  unfold complete
  exact ⟨rfl, rfl, rfl⟩

def exLaunch (f : Form) (p : MType) (c : Option MType) : Launch := ⟨['e'], ['P'], p, f, c, ['C']⟩

example : validate (exLaunch .async .standard (some .standard)) = none := by decide

/-- invalid combinations fail the task in its launch step: nothing is registered, no child is started -/
theorem invalid_combinations_fail_task (d : Disp) (l : Launch) (si : Json)
    (hfresh : aGet d.cancellers l.eventId = none)
    (h : l.childMachine = none ∨ ((l.form = .sync ∨ l.form = .sync2) ∧ l.parentType = .express) ∨
         (l.form = .sdkSync ∧ l.childMachine = some .standard)) :
    ∃ e, (launch d l si).log = d.log ++ [⟨l.eventId, corrId l, .launch, .err e (.str [])⟩] ∧
      (launch d l si).pending = d.pending ∧ (launch d l si).started = d.started := by
  have hv : ∃ e, validate l = some e := by
    unfold validate
    rcases h with h | ⟨h1, h2⟩ | ⟨h1, h2⟩
    · rw [h]; split <;> exact ⟨_, rfl⟩
    · have : (l.form = .sync || l.form = .sync2) = true := by
        rcases h1 with h1 | h1 <;> simp [h1]
      simp [this, h2]
    · rw [h2]
      split
      · exact ⟨_, rfl⟩
      · simp [h1]
  obtain ⟨e, he⟩ := hv
  refine ⟨e, ?_⟩
  unfold launch
  rw [he]
  simp only
  rw [complete_err_fresh _ _ _ _ _ _ hfresh]
  exact ⟨rfl, rfl, rfl⟩

example : aGet exDisp.cancellers (exLaunch .sync .express (some .standard)).eventId = some ⟨.function, tokenCid ['e'], ['X']⟩ := by decide
example : aGet ({ replyQueue := [] } : Disp).cancellers (exLaunch .sync .express none).eventId = none := by decide
example : validate (exLaunch .sync .express (some .standard)) = some "InvalidResourceArn".toList ∧
    validate (exLaunch .sdkSync .standard (some .standard)) = some "InvalidResourceArn".toList ∧
    validate (exLaunch .sync2 .standard none) = some "StateMachineDoesNotExist".toList := by decide

/-- the result of a synchronous child: the DescribeExecution fields under their documented names;
`Output` (and `Input`) as JSON for `.sync:2`, as text otherwise; a failed child fails the task with
`States.TaskFailed` whose cause carries the child's `Error` and `Cause` -/
theorem sync_result_shape (f : Form) (d : Detail) (inJ outJ : Json) :
    ∃ kvs, shape f d inJ outJ = .obj kvs ∧
      objGet kvs kExecutionArn = some (.str d.executionArn) ∧
      objGet kvs kStateMachineArn = some (.str d.stateMachineArn) ∧
      objGet kvs kName = some (.str d.name) ∧
      objGet kvs kStatus = some (.str d.status) ∧
      objGet kvs kStartDate = some (.num d.startDate) ∧
      objGet kvs kStopDate = some (.num d.stopDate) ∧
      objGet kvs kOutput = some (if f = .sync2 then outJ else optText d.output) ∧
      objGet kvs kInput = some (if f = .sync2 then inJ else .str d.input) ∧
      (∀ e c, d.failure = some (e, c) →
        objGet kvs sError = some e ∧ objGet kvs sCause = some c ∧
        childOutcome f d inJ outJ = .err sTaskFailed (.obj kvs)) ∧
      (d.failure = none → childOutcome f d inJ outJ = .ok (.obj kvs)) := by
  refine ⟨_, rfl, ?_, ?_, ?_, ?_, ?_, ?_, ?_, ?_, ?_, ?_⟩
  all_goals try (simp [objGet, kExecutionArn, kInput, kName, kOutput, kStartDate, kStateMachineArn, kStatus, kStopDate]; done)
  · intro e c hf
    unfold childOutcome
    simp [hf, objGet, kExecutionArn, kInput, kName, kOutput, kStartDate, kStateMachineArn, kStatus, kStopDate, sError, sCause, shape]
  · intro hf
    unfold childOutcome
    simp [hf, shape]

/-- For every interleaving: `pre` and `post` are arbitrary operation sequences (events of the parent,
of the child, of other executions, callbacks, timeouts of other tasks, cancellations) that do not
launch under the same child ARN again.  If the parent's request is still pending when the child
becomes terminal, then nothing was completed under it before, the child's terminal step emits the
completion (with the shaped result), and nothing is completed under it afterwards. -/
theorem sync_child_completes_exactly_at_child_end
    (d0 : Disp) (pre post : List Op) (arn : Str) (r : Req) (f : Form) (det : Detail) (inJ outJ : Json)
    (hfresh : countKey arn d0.log + hasKey d0.pending arn ≤ 1)
    (hpre : ∀ op ∈ pre, op.registers arn = false) (hpost : ∀ op ∈ post, op.registers arn = false)
    (hp : aGet (run Quirks.none d0 pre).pending arn = some r) (hk : r.kind = .child f) :
    countKey arn (run Quirks.none d0 pre).log = 0 ∧
    (∃ extra, (step Quirks.none (run Quirks.none d0 pre) (.childEnd arn det inJ outJ)).log =
        (run Quirks.none d0 pre).log ++ ⟨r.owner, arn, .childEnd, childOutcome f det inJ outJ⟩ :: extra ∧
        ∀ x ∈ extra, x.via = .cancel ∨ x.via = .waitCancel) ∧
    countKey arn (run Quirks.none (step Quirks.none (run Quirks.none d0 pre) (.childEnd arn det inJ outJ)) post).log ≤ 1 := by
  have h1 := phi_run arn pre d0 hpre
  have h2 := phi_step arn (run Quirks.none d0 pre) (.childEnd arn det inJ outJ) rfl
  have h3 := phi_run arn post (step Quirks.none (run Quirks.none d0 pre) (.childEnd arn det inJ outJ)) hpost
  unfold phi at h1 h2 h3
  rw [hasKey_some _ _ _ hp] at h1 h2
  refine ⟨by omega, ?_, by omega⟩
  show ∃ extra, (onChildEnd (run Quirks.none d0 pre) arn det inJ outJ).log = _ ∧ _
  unfold onChildEnd
  rw [hp]
  simp only [hk]
  exact (complete_spec _ _).1

def exParent : Disp :=
  launch { replyQueue := replyFamily } (exLaunch .sync2 .standard (some .express)) .null

example : countKey ['C'] exParent.log + hasKey exParent.pending ['C'] ≤ 1 := by decide
example : aGet (run Quirks.none exParent [Op.rpc .fn ['t'] ['C'], Op.reply ['t'] none (.num 1)]).pending ['C'] =
    some ⟨['e'], ['P'], .child .sync2⟩ := by decide

/-- When the parent's StepFunction task is cancelled (its branch was terminated, or — through the
Task state's error path — it timed out), every canceller registered under the child's ARN at that
moment is consumed, the requests of those that are tasks are no longer pending, and neither is the
parent's own request. -/
theorem parent_cancel_cascades (n : Nat) (d : Disp) (e : Str) (c : Canc)
    (hc : aGet d.cancellers e = some c) (hs : c.type = .stepFunction)
    (k : Str) (kc : Canc) (hk : aGet d.cancellers k = some kc) (hx : kc.exec = c.taskId) :
    aGet (cancelTask (n + 2) d e).cancellers k = none ∧
    (kc.type ≠ .timeout → aGet (cancelTask (n + 2) d e).pending kc.taskId = none) ∧
    aGet (cancelTask (n + 2) d e).pending c.taskId = none := by
  have hrem : aGet (cancelTask (n + 2) d e).cancellers k = none := by
    by_cases hke : k = e
    · subst hke; exact cancelTask_removes (n + 1) d k
    · unfold cancelTask
      rw [hc]
      simp only [hs, if_true]
      apply foldl_removes n k
      have : aGet (cancelOne d e c).cancellers k = some kc := by
        rw [cancelOne_cancellers, aGet_aDel_ne _ _ _ (fun h => hke h.symm)]; exact hk
      rw [← hx]
      exact mem_keysFor _ _ _ this
  have hsh := cancelTask_shrinks (n + 2) d e
  refine ⟨hrem, ?_, ?_⟩
  · intro ht
    rcases hsh.2.2.2 k kc hk ht with h | ⟨_, h⟩
    · rw [hrem] at h; cases h
    · exact h
  · have ht : c.type ≠ .timeout := by rw [hs]; decide
    rcases hsh.2.2.2 e c hc ht with h | ⟨_, h⟩
    · rw [cancelTask_removes (n + 1) d e] at h; cases h
    · exact h

/-- … and the timeout of the parent's task is such a cancellation: `on_response` cancels the task -/
theorem parent_timeout_cascades (d : Disp) (cid : Str) (r : Req) (c : Canc)
    (hp : aGet d.pending cid = some r) (hc : aGet d.cancellers r.owner = some c) (hs : c.type = .stepFunction)
    (k : Str) (kc : Canc) (hk : aGet d.cancellers k = some kc) (hx : kc.exec = c.taskId) :
    aGet (onTimeout d cid).cancellers k = none ∧
    (kc.type ≠ .timeout → aGet (onTimeout d cid).pending kc.taskId = none) := by
  rw [onTimeout_some d cid r hp]
  have hl := length_pos_of_aGet _ _ _ hc
  obtain ⟨m, hm⟩ : ∃ m, d.cancellers.length + 1 = m + 2 := ⟨d.cancellers.length - 1, by omega⟩
  rw [hm]
  have := parent_cancel_cascades m (timedOut d cid r) r.owner c hc hs k kc hk hx
  exact ⟨this.1, this.2.1⟩

/-- a parent blocked on child `C`, the child blocked on a task `t` and a wait `w` -/
def exCascade : Disp :=
  launchWait (launchRpc exParent .fn ['t'] ['C']) ['w'] ['C']

example : aGet exCascade.cancellers ['e'] = some ⟨.stepFunction, ['C'], ['P']⟩ ∧
    aGet exCascade.cancellers ['t'] = some ⟨.function, ['t'], ['C']⟩ ∧
    aGet exCascade.cancellers ['w'] = some ⟨.timeout, ['w'], ['C']⟩ ∧
    aGet exCascade.pending ['C'] = some ⟨['e'], ['P'], .child .sync2⟩ := by decide
example : (onTimeout exCascade ['C']).cancellers = [] ∧ (onTimeout exCascade ['C']).pending = [] := by decide

end Asl.C15
