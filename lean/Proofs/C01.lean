/-
C01 — executions compute what the States Language prescribes.
`Asl.run` is the specification the implementation is compared with; these theorems state the
laws the property names *about that specification*, for every machine, input, environment
(task behaviour, template evaluator, Choice evaluator) and fuel.
-/
import AslModel.Interp
import AslModel.Lite
import Proofs.Lemmas.FuelMono
namespace Asl.C01
open Asl

/-- Fail reports its Error/Cause (defaults `Unspecified`), whatever the input. -/
theorem fail_reports_error (env : Env) (fuel : Nat) (states : Json) (name : Str) (state data ctx : Json)
    (retries : Nat) (st : St) (h : stateType state = S "Fail") :
    runState env (fuel + 1) states name state data ctx retries st =
      (.failed ((fldStr state "Error").getD (S "Unspecified"))
               (some ((fld state "Cause").getD (.str (S "Unspecified")))) true, st) := by
  have h1 : (S "Fail" = S "Pass") = False := by decide
  have h2 : (S "Fail" = S "Succeed") = False := by decide
  simp [runState, h, h1, h2]

/-- a state with `End: true` whose output is within the size limit ends the scope successfully with
that output — whatever it contains (in particular an `Error` member does not turn success into failure) -/
theorem end_reached_succeeds (env : Env) (fuel : Nat) (states : Json) (name : Str) (state raw out ctx : Json)
    (retries : Nat) (st : St) (h : isTrue (fld state "End") = true)
    (hL : (render out).length ≤ env.maxData) :
    leave env (fuel + 1) states name state raw out ctx retries st = (.done out, st.exit (stateType state) name out) := by
  have : ¬ (render out).length > env.maxData := by omega
  simp [leave, h, this]

/-- … and when the output of the terminal state is longer than the limit the state fails with
`States.DataLimitExceeded`, subject to its Retry/Catch on its raw input (like a refused transition) -/
theorem end_over_limit_is_data_limit_error (env : Env) (fuel : Nat) (states : Json) (name : Str)
    (state raw out ctx : Json) (retries : Nat) (st : St) (h : isTrue (fld state "End") = true)
    (hL : (render out).length > env.maxData) :
    leave env (fuel + 1) states name state raw out ctx retries st =
      handleErr env fuel states name state raw ctx retries (S "States.DataLimitExceeded") (S "m") st := by
  simp [leave, h, hL]

/-- without End the successor is exactly `Next`, entered with the state's output as its input (and the
state is recorded as exited with that output) -/
theorem next_followed (env : Env) (fuel : Nat) (states : Json) (name next : Str) (state raw out ctx : Json)
    (retries : Nat) (st : St) (hE : isTrue (fld state "End") = false) (hN : fldStr state "Next" = some next)
    (hL : (render out).length ≤ env.maxData) :
    leave env (fuel + 1) states name state raw out ctx retries st =
      runFrom env fuel states next out ctx 0 ((st.exit (stateType state) name out).handover next) := by
  have : ¬ (render out).length > env.maxData := by omega
  simp [leave, hE, hN, this]

/-- a missing `Next` (and no End) is the runtime error, subject to the state's Retry/Catch — which
work on the state's raw input `raw`, not on the output `out` it could not hand on -/
theorem missing_next_is_runtime_error (env : Env) (fuel : Nat) (states : Json) (name : Str)
    (state raw out ctx : Json) (retries : Nat) (st : St)
    (hE : isTrue (fld state "End") = false) (hN : fldStr state "Next" = none) :
    leave env (fuel + 1) states name state raw out ctx retries st =
      handleErr env fuel states name state raw ctx retries (S "States.Runtime") (S "m") st := by
  simp [leave, hE, hN]

/-- the Succeed state: InputPath then OutputPath, then success (the output being within the size limit) -/
theorem succeed_state (env : Env) (fuel : Nat) (states : Json) (name : Str) (state data ctx input out : Json)
    (retries : Nat) (st : St) (h : stateType state = S "Succeed")
    (hi : applyPath data ctx (pathArg state "InputPath") = .ok input)
    (ho : applyPath input ctx (pathArg state "OutputPath") = .ok out)
    (hL : (render out).length ≤ env.maxData) :
    runState env (fuel + 1) states name state data ctx retries st = (.done out, st.exit (stateType state) name out) := by
  have h1 : (S "Succeed" = S "Pass") = False := by decide
  have : ¬ (render out).length > env.maxData := by omega
  simp [runState, h, h1, hi, ho, this]

/-- a Succeed state whose output is over the limit fails with `States.DataLimitExceeded` (raw input) -/
theorem succeed_over_limit_is_data_limit_error (env : Env) (fuel : Nat) (states : Json) (name : Str)
    (state data ctx input out : Json) (retries : Nat) (st : St) (h : stateType state = S "Succeed")
    (hi : applyPath data ctx (pathArg state "InputPath") = .ok input)
    (ho : applyPath input ctx (pathArg state "OutputPath") = .ok out)
    (hL : (render out).length > env.maxData) :
    runState env (fuel + 1) states name state data ctx retries st =
      handleErr env fuel states name state data ctx retries (S "States.DataLimitExceeded") (S "m") st := by
  have h1 : (S "Succeed" = S "Pass") = False := by decide
  simp [runState, h, h1, hi, ho, hL]

/-- Pass: InputPath, Parameters, Result (default: the effective input), ResultPath into the *raw*
input, OutputPath — in that order; then Next/End. -/
theorem pass_pipeline (env : Env) (fuel : Nat) (states : Json) (name : Str)
    (state data ctx input params out : Json) (retries : Nat) (st : St)
    (h : stateType state = S "Pass")
    (hi : applyPath data ctx (pathArg state "InputPath") = .ok input)
    (hp : tmplOpt env input ctx (fld state "Parameters") = .ok params)
    (hm : mergeResult data ctx ((fld state "Result").getD params) state = .ok out) :
    runState env (fuel + 1) states name state data ctx retries st =
      leave env fuel states name state data out ctx retries st := by
  simp [runState, h, hi, hp, hm]

/-- `mergeResult` is ResultPath (placing into the raw input) followed by OutputPath -/
theorem merge_is_resultpath_then_outputpath (data ctx result state placed : Json)
    (h : applyResultPath data result (pathArg state "ResultPath") = .ok placed) :
    mergeResult data ctx result state = applyPath placed ctx (pathArg state "OutputPath") := by
  simp [mergeResult, h]

/-- Task: InputPath, Parameters, the task, ResultSelector, ResultPath (raw input), OutputPath.  (`ha`: the worker
answers at `tEnd`, before the time limit in force — the earlier of the Task's own, `own`: from `TimeoutSeconds` or
`TimeoutSecondsPath`, and the execution's.) -/
theorem task_pipeline (env : Env) (fuel : Nat) (states : Json) (name fn : Str)
    (state data ctx input params v result out : Json) (retries : Nat) (st : St)
    (h : stateType state = S "Task")
    (hr : rpcFunction ((fldStr state "Resource").getD []) = some fn)
    (hi : applyPath data ctx (pathArg state "InputPath") = .ok input)
    (hp : tmplOpt env input ctx (fld state "Parameters") = .ok params)
    (tEnd : Rat)
    (own : Option Rat) (hown : taskOwnDeadline state data ctx st.clock = .ok own)
    (ha : taskArrival (env.delay fn params (bump st.counts (fn, params)).1)
        ((taskLimit own env.deadline st.clock).map (·.t)) st.clock
      = some (tEnd, false))
    (hv : taskReply env.maxData (env.task fn params (bump st.counts (fn, params)).1) = .ok v)
    (hs : tmplOpt env v ctx (fld state "ResultSelector") = .ok result)
    (hm : mergeResult data ctx result state = .ok out) :
    runState env (fuel + 1) states name state data ctx retries st =
      leave env fuel states name state data out ctx retries
        ((st.closeKeep.request false).taskCall (bump st.counts (fn, params)).2 ((fldStr state "Resource").getD []) params
          (replyEv env.maxData (env.task fn params (bump st.counts (fn, params)).1)) tEnd) := by
  have h1 : (S "Task" = S "Pass") = False := by decide
  have h2 : (S "Task" = S "Succeed") = False := by decide
  have h3 : (S "Task" = S "Fail") = False := by decide
  have h4 : (S "Task" = S "Wait") = False := by decide
  have h5 : (S "Task" = S "Choice") = False := by decide
  simp [runState, h, h1, h2, h3, h4, h5, hr, hi, hp, hown, ha, taskOutcome, taskEv, hv, hs, hm]

/-- a worker's reply whose text is longer than the size limit is the error `States.DataLimitExceeded`,
whatever it says; a reply within the limit is read by `decodeReply` -/
theorem oversize_reply_is_data_limit_error (maxData : Nat) (r : Json) (h : (render r).length > maxData) :
    taskReply maxData r = .err (S "States.DataLimitExceeded") (S "m") := by
  simp [taskReply, h]

theorem reply_within_limit_is_decoded (maxData : Nat) (r : Json) (h : (render r).length ≤ maxData) :
    taskReply maxData r = decodeReply r := by
  have : ¬ (render r).length > maxData := by omega
  simp [taskReply, this]

/-- a failing task hands its error to the state's Retry/Catch with the state's raw input -/
theorem task_error_goes_to_handler (env : Env) (fuel : Nat) (states : Json) (name fn : Str)
    (state data ctx input params : Json) (e msg : Str) (retries : Nat) (st : St)
    (h : stateType state = S "Task")
    (hr : rpcFunction ((fldStr state "Resource").getD []) = some fn)
    (hi : applyPath data ctx (pathArg state "InputPath") = .ok input)
    (hp : tmplOpt env input ctx (fld state "Parameters") = .ok params)
    (tEnd : Rat)
    (own : Option Rat) (hown : taskOwnDeadline state data ctx st.clock = .ok own)
    (ha : taskArrival (env.delay fn params (bump st.counts (fn, params)).1)
        ((taskLimit own env.deadline st.clock).map (·.t)) st.clock
      = some (tEnd, false))
    (hv : taskReply env.maxData (env.task fn params (bump st.counts (fn, params)).1) = .err e msg) :
    runState env (fuel + 1) states name state data ctx retries st =
      handleErr env fuel states name state data ctx retries e msg
        ((st.closeKeep.request false).taskCall (bump st.counts (fn, params)).2 ((fldStr state "Resource").getD []) params
          (replyEv env.maxData (env.task fn params (bump st.counts (fn, params)).1)) tEnd) := by
  have h1 : (S "Task" = S "Pass") = False := by decide
  have h2 : (S "Task" = S "Succeed") = False := by decide
  have h3 : (S "Task" = S "Fail") = False := by decide
  have h4 : (S "Task" = S "Wait") = False := by decide
  have h5 : (S "Task" = S "Choice") = False := by decide
  simp [runState, h, h1, h2, h3, h4, h5, hr, hi, hp, hown, ha, taskOutcome, taskEv, hv]

/-- after a successful fan-out: ResultSelector on the array of results, ResultPath into the
fan-out state's *raw* input (not its effective input), OutputPath, then Next/End -/
theorem fanout_join_pipeline (env : Env) (fuel : Nat) (states : Json) (name : Str)
    (state data ctx result out : Json) (results : List Json) (retries : Nat) (st : St)
    (hs : tmplOpt env (.arr results) ctx (fld state "ResultSelector") = .ok result)
    (hm : mergeResult data ctx result state = .ok out) :
    joinAndLeave env (fuel + 1) states name state data ctx retries (.ok results) st =
      leave env fuel states name state data out ctx retries st := by
  simp [joinAndLeave, hs, hm]

/-- a failed branch fails the fan-out state with the branch's error name, subject to the fan-out
state's own Retry/Catch, with the fan-out state's raw input -/
theorem fanout_failure_goes_to_handler (env : Env) (fuel : Nat) (states : Json) (name : Str)
    (state data ctx : Json) (e : Str) (c : Option Json) (f : Bool) (retries : Nat) (st : St) :
    ∃ msg, joinAndLeave env (fuel + 1) states name state data ctx retries (.error (.failed e c f)) st =
      handleErr env fuel states name state data ctx retries e msg
        { st with fanFail := st.fanFail || decide (e ≠ execTimeoutName) } := by
  cases h : isTrue c with
  | false => exact ⟨[], by simp [joinAndLeave, h]⟩
  | true => exact ⟨S "m", by simp [joinAndLeave, h]⟩

/-- branch `b`, started at its StartAt on `params`, ran to completion with output `v` -/
def BranchRan (env : Env) (params ctx b v : Json) : Prop :=
  ∃ f s1 s2 start states, fldStr b "StartAt" = some start ∧ fld b "States" = some states ∧
    runFrom env f states start params ctx 0 s1 = (.done v, s2)

/-- Parallel yields the branch outputs in branch order: when the branches all finish, the result
has one entry per branch and entry k is the output of branch k (run from its StartAt on the
Parallel state's effective input). -/
theorem parallel_results_in_branch_order (env : Env) (fuel : Nat) (bs : List Json) (params ctx : Json)
    (st st' : St) (vs : List Json) (h : runBranches env fuel bs params ctx st = (.ok vs, st')) :
    vs.length = bs.length ∧
    ∀ k (hk : k < bs.length), ∃ v, vs[k]? = some v ∧ BranchRan env params ctx bs[k] v := by
  induction bs generalizing fuel st st' vs with
  | nil =>
    cases fuel with
    | zero => simp [runBranches] at h
    | succ n =>
      simp [runBranches] at h
      obtain ⟨h1, _⟩ := h
      subst h1; simp
  | cons b bs ih =>
    cases fuel with
    | zero => simp [runBranches] at h
    | succ n =>
      simp only [runBranches] at h
      split at h
      · rename_i start states hs hst
        generalize hr : runFrom env n states start params ctx 0 st.startBranch = r at h
        obtain ⟨r1, s1⟩ := r
        simp only at h
        generalize hrest : runBranches env n bs params ctx ((s1.endBranch (isFailed r1)).at st.clock) = rr at h
        obtain ⟨rest, s2⟩ := rr
        simp only at h
        obtain ⟨v, vs', e1, e2, e3, _⟩ := fanCombine_ok h
        subst e1 e2 e3
        have := ih n _ s2 vs' hrest
        refine ⟨by simp [this.1], ?_⟩
        intro k hk
        cases k with
        | zero => exact ⟨v, by simp, n, st.startBranch, s1, start, states, hs, hst, hr⟩
        | succ k =>
          obtain ⟨v', q1, q2⟩ := this.2 k (by simpa using hk)
          exact ⟨v', by simpa using q1, by simpa using q2⟩
      · simp at h

/-- Map yields the iteration outputs in item order, iteration k seeing item k (through the
ItemSelector when there is one, with `$$.Map.Item.Index = k`).  (`false`: no iteration has failed when
the Map state starts its iterations — the flag `runItems` carries since it stops launching batches after a
failure.) -/
theorem map_results_in_item_order (env : Env) (fuel : Nat) (proc : Json) (sel : Option Json) (input : Json)
    (items : List Json) (i0 mc : Nat) (be : Rat) (ctx : Json) (st st' : St) (vs : List Json)
    (h : runItems env fuel proc sel input items i0 mc be ctx false st = (.ok vs, st')) :
    vs.length = items.length ∧
    ∀ k (hk : k < items.length), ∃ f s1 s2 start states params v,
      fldStr proc "StartAt" = some start ∧ fld proc "States" = some states ∧
      (if isTrue sel then tmplOpt env input (ctxWithMapItem ctx (i0 + k) items[k]) sel else .ok items[k]) = .ok params ∧
      runFrom env f states start params ctx 0 s1 = (.done v, s2) ∧ vs[k]? = some v := by
  induction items generalizing fuel st st' vs i0 be with
  | nil =>
    cases fuel with
    | zero => simp [runItems] at h
    | succ n =>
      simp [runItems] at h
      obtain ⟨h1, _⟩ := h
      subst h1; simp
  | cons item items ih =>
    cases fuel with
    | zero => simp [runItems] at h
    | succ n =>
      simp only [runItems, Bool.false_eq_true, and_false, if_false, Bool.false_or] at h
      generalize (if mc ≠ 0 ∧ i0 ≠ 0 ∧ i0 % mc = 0 then
          (st.waitUntil be).batch (ctxStateName ctx) (List.replicate (min mc (items.length + 1)) ((fldStr proc "StartAt").getD []))
        else st) = st0 at h
      split at h
      · simp at h
      · rename_i params hp
        split at h
        · rename_i start states hs hst
          generalize hr : runFrom env n states start params ctx 0 ((st0.push (.iterStarted (ctxStateName ctx) i0)).startBranch) = r at h
          obtain ⟨r1, s1⟩ := r
          simp only at h
          generalize hrest : runItems env n proc sel input items (i0 + 1) mc (rmax be s1.clock) ctx (isFailed r1)
            (((s1.iterEnd (ctxStateName ctx) i0 r1).endBranch (isFailed r1)).at st0.clock) = rr at h
          obtain ⟨rest, s2⟩ := rr
          simp only at h
          obtain ⟨v, vs', e1, e2, e3, _⟩ := fanCombine_ok h
          subst e1 e2 e3
          have := ih n (i0 + 1) _ _ s2 vs' (by simpa [isFailed] using hrest)
          refine ⟨by simp [this.1], ?_⟩
          intro k hk
          cases k with
          | zero =>
            exact ⟨n, _, s1, start, states, params, v, hs, hst, by simpa using hp, hr, by simp⟩
          | succ k =>
            obtain ⟨f, a, b, start', states', params', v', q1, q2, q3, q4, q5⟩ :=
              this.2 k (by simpa using hk)
            refine ⟨f, a, b, start', states', params', v', q1, q2, ?_, q4, by simpa using q5⟩
            have : i0 + 1 + k = i0 + (k + 1) := by omega
            simpa [this] using q3
        · simp at h

/-- Choice (with the comparison fragment of `Lite`): the rules are tried in array order and the
first one that holds decides. -/
theorem choice_first_match (input ctx : Json) (pre : List Json) (r : Json) (post : List Json) (next : Str)
    (hpre : ∀ p ∈ pre, Lite.evalRule input ctx 50 p ≠ some true)
    (hr : Lite.evalRule input ctx 50 r = some true) (hn : r.get "Next" = some (.str next)) :
    Lite.choose.go input ctx (pre ++ r :: post) = some next := by
  induction pre with
  | nil => simp [Lite.choose.go, hr, hn]
  | cons p ps ih =>
    have hp := hpre p (by simp)
    have := ih (fun q hq => hpre q (by simp [hq]))
    simp only [List.cons_append, Lite.choose.go]
    first
      | exact this
      | (split
         · rename_i heq; exact absurd heq hp
         · exact this)

/-- no rule holds → the Default is taken, and without one the state fails with
`States.NoChoiceMatched` (data-independent: stated on the scan) -/
theorem choice_no_match (input ctx : Json) (rs : List Json)
    (h : ∀ p ∈ rs, Lite.evalRule input ctx 50 p ≠ some true) :
    Lite.choose.go input ctx rs = none := by
  induction rs with
  | nil => simp [Lite.choose.go]
  | cons p ps ih =>
    have hp := h p (by simp)
    have ih' := ih (fun q hq => h q (by simp [hq]))
    simp only [Lite.choose.go]
    first
      | exact ih'
      | (split
         · rename_i heq; exact absurd heq hp
         · exact ih')

/-- the reported status is a function of how the run ended -/
theorem status_succeeded_iff_done (env : Env) (fuel : Nat) (asl input ctx : Json) (start : Str) (states : Json)
    (h1 : fldStr asl "StartAt" = some start) (h2 : fld asl "States" = some states) :
    (run env fuel asl input ctx).status = S "SUCCEEDED" ↔
      ∃ d, (runFrom (env.forMachine asl) fuel states start input ctx 0 {}).1 = .done d := by
  unfold run runCore Outcome.ofRun
  simp only [h1, h2]
  generalize runFrom (env.forMachine asl) fuel states start input ctx 0 {} = r
  obtain ⟨r1, s1⟩ := r
  cases r1 <;> simp <;> decide

theorem status_failed_iff_failed (env : Env) (fuel : Nat) (asl input ctx : Json) (start : Str) (states : Json)
    (h1 : fldStr asl "StartAt" = some start) (h2 : fld asl "States" = some states) :
    (run env fuel asl input ctx).status = S "FAILED" ↔
      ∃ e c f, (runFrom (env.forMachine asl) fuel states start input ctx 0 {}).1 = .failed e c f := by
  unfold run runCore Outcome.ofRun
  simp only [h1, h2]
  generalize runFrom (env.forMachine asl) fuel states start input ctx 0 {} = r
  obtain ⟨r1, s1⟩ := r
  cases r1 <;> simp <;> decide

/-- The outcome does not depend on the fuel: a run that ends with anything but fuel exhaustion gives
exactly the same result (status, output, error, trace, oracle consumption) with every larger fuel.
(Proved in Proofs/Lemmas/FuelMono.lean for all seven mutually recursive functions; proving it exposed
a flaw of the first version of the model, where a fuel-exhausted sibling branch was swallowed by an
earlier branch's failure.) -/
theorem run_fuel_independent (env : Env) (n m : Nat) (h : n ≤ m) (asl input ctx : Json) :
    (run env n asl input ctx).status ≠ S "FUEL" → run env m asl input ctx = run env n asl input ctx :=
  Asl.run_fuel_independent env n m h asl input ctx

/-! ### non-vacuity -/

private def envK : Env := { tmpl := Lite.tmpl, choose := Lite.choose, task := fun _ p _ => p }

private def k (s : String) : Str := s.toList
private def passEnd : Json := .obj [(k "Type", .str (k "Pass")), (k "Result", .obj [(k "Error", .str (k "x"))]), (k "End", .bool true)]
private def aslPass : Json := .obj [(k "StartAt", .str (k "P")), (k "States", .obj [(k "P", passEnd)])]

/-- data-blindness, concretely: a Pass state ending with output `{"Error": "x"}` SUCCEEDS -/
example : (run envK 10 aslPass (.obj []) (.obj [])).status = S "SUCCEEDED" ∧
    (run envK 10 aslPass (.obj []) (.obj [])).output = some (.obj [(k "Error", .str (k "x"))]) := by
  constructor <;> rfl

private def failSt : Json := .obj [(k "Type", .str (k "Fail")), (k "Error", .str (k "E1"))]
example : stateType failSt = S "Fail" := by decide
example : (render (.str (k "0123456789"))).length > 10 ∧ (render (.num 5)).length ≤ 10 := by decide
example : isTrue (fld passEnd "End") = true := by decide

private def par : Json := .obj [(k "StartAt", .str (k "A")), (k "States", .obj [(k "A",
  .obj [(k "Type", .str (k "Pass")), (k "Result", .num 1), (k "End", .bool true)])])]
private def par2 : Json := .obj [(k "StartAt", .str (k "B")), (k "States", .obj [(k "B",
  .obj [(k "Type", .str (k "Pass")), (k "Result", .num 2), (k "End", .bool true)])])]
example : (runBranches envK 10 [par, par2] (.obj []) (.obj []) {}).1 = .ok [.num 1, .num 2] := by rfl

example : (runItems envK 10 par none (.obj []) [.num 7, .num 8] 0 0 0 (.obj []) false {}).1 = .ok [.num 1, .num 1] := by rfl

example : Lite.choose.go (.obj [(k "n", .num 3)]) (.obj [])
    [.obj [(k "Variable", .str (k "$.n")), (k "NumericEquals", .num 1), (k "Next", .str (k "X"))],
     .obj [(k "Variable", .str (k "$.n")), (k "NumericGreaterThan", .num 2), (k "Next", .str (k "Y"))]]
    = some (k "Y") := by rfl

end Asl.C01
