/-
C07 — Retry and Catch follow the States Language error-handling policy.
-/
import AslModel.Retry
import AslModel.Interp
namespace Asl.C07
open Asl

/-- the retriers are scanned in order and the first whose ErrorEquals matches decides — whether or
not it has attempts left -/
theorem first_matching_retrier_decides (pre post : List Retrier) (r : Retrier) (e : Str) (n : Nat)
    (hpre : ∀ p ∈ pre, errMatches p.errorEquals e = false) (hr : errMatches r.errorEquals e = true) :
    scanRetriers (pre ++ r :: post) e n =
      if n < r.maxAttempts then .retry (retryDelay r n) (n + 1) else .exhausted := by
  induction pre with
  | nil => simp [scanRetriers, hr]
  | cons p ps ih =>
    have hp := hpre p (by simp)
    simp only [List.cons_append, scanRetriers, hp]
    exact ih (fun q hq => hpre q (by simp [hq]))

theorem no_retrier_applies (rs : List Retrier) (e : Str) (n : Nat)
    (h : ∀ p ∈ rs, errMatches p.errorEquals e = false) : scanRetriers rs e n = .noMatch := by
  induction rs with
  | nil => rfl
  | cons p ps ih =>
    simp only [scanRetriers, h p (by simp)]
    exact ih (fun q hq => h q (by simp [hq]))

/-- the k-th retry (k = number of earlier retries) waits IntervalSeconds × BackoffRate^k seconds -/
theorem kth_retry_delay (r : Retrier) (k : Nat) : retryDelay r k = r.interval * r.backoff ^ k := rfl

/-- BackoffRate is clamped to at least 1 and the defaults are 1 s / 3 attempts / 2.0 -/
theorem backoff_at_least_one (j : Json) : 1 ≤ (retrierOf j).backoff := by
  unfold retrierOf
  split
  · simp only
    split
    · exact Rat.le_refl
    · rename_i h; exact Rat.not_lt.mp h
  · decide

theorem retrier_defaults : (retrierOf (.obj [(S "ErrorEquals", .arr [.str (S "States.ALL")])])).interval = 1 ∧
    (retrierOf (.obj [(S "ErrorEquals", .arr [.str (S "States.ALL")])])).maxAttempts = 3 ∧
    (retrierOf (.obj [(S "ErrorEquals", .arr [.str (S "States.ALL")])])).backoff = 2 := by decide

/-- MaxAttempts 0 means never -/
theorem maxAttempts_zero_never (pre post : List Retrier) (r : Retrier) (e : Str) (n : Nat)
    (hpre : ∀ p ∈ pre, errMatches p.errorEquals e = false) (hr : errMatches r.errorEquals e = true)
    (h0 : r.maxAttempts = 0) : scanRetriers (pre ++ r :: post) e n = .exhausted := by
  rw [first_matching_retrier_decides pre post r e n hpre hr, h0]; simp

/-- run of one state visit over a sequence of failures: the retry count after each decision, and how
many re-runs were granted (the run stops at the first failure that is not retried) -/
def retriesGranted (rs : List Retrier) : List Str → Nat → Nat
  | [], _ => 0
  | e :: es, n => match scanRetriers rs e n with
    | .retry _ n' => 1 + retriesGranted rs es n'
    | _ => 0

def maxOfAttempts (rs : List Retrier) : Nat := rs.foldr (fun r m => max r.maxAttempts m) 0

theorem scan_retry_bound (rs : List Retrier) (e : Str) (n : Nat) (d : Rat) (n' : Nat)
    (h : scanRetriers rs e n = .retry d n') : n' = n + 1 ∧ n < maxOfAttempts rs := by
  induction rs with
  | nil => simp [scanRetriers] at h
  | cons r rs ih =>
    simp only [scanRetriers] at h
    split at h
    · split at h
      · rename_i hlt
        simp only [RetryScan.retry.injEq] at h
        exact ⟨h.2.symm, by simp only [maxOfAttempts, List.foldr_cons]; omega⟩
      · cases h
    · have := ih h
      refine ⟨this.1, ?_⟩
      have h2 := this.2
      simp only [maxOfAttempts, List.foldr_cons] at h2 ⊢
      omega

/-- over **every** sequence of failures (any errors, any length) a state is re-run at most
`MaxAttempts` times (the largest MaxAttempts of its retriers bounds the shared retry counter) -/
theorem retries_le_maxAttempts (rs : List Retrier) (es : List Str) (n : Nat) :
    retriesGranted rs es n ≤ maxOfAttempts rs - n := by
  induction es generalizing n with
  | nil => simp [retriesGranted]
  | cons e es ih =>
    simp only [retriesGranted]
    split
    · rename_i d n' h
      have hb := scan_retry_bound rs e n d n' h
      have := ih n'
      omega
    · omega

/-- in the interpreter: whenever `handle_error` decides to re-run a state, the retry count it passes
on is at most the largest MaxAttempts of the state's retriers — so no state visit is ever re-run
more often than that, whatever the task behaviour -/
theorem rerun_count_bounded (rs : List Retrier) (cs : List Catcher) (e : Str) (n : Nat) (d : Rat) (k : Nat)
    (h : decideError rs cs e n = .retry d k) : k = n + 1 ∧ k ≤ maxOfAttempts rs := by
  unfold decideError at h
  split at h
  · cases h
  · split at h
    · rename_i d' k' hs
      cases h
      have := scan_retry_bound rs e n d k hs
      exact ⟨this.1, by omega⟩
    · split at h <;> cases h

/-- with a single retrier: at most its MaxAttempts -/
theorem single_retrier_bound (r : Retrier) (es : List Str) : retriesGranted [r] es 0 ≤ r.maxAttempts := by
  have := retries_le_maxAttempts [r] es 0
  simpa [maxOfAttempts] using this

/-- catchers are consulted iff the error is recoverable and no retrier re-runs the state (none
matches, or the first matching one is exhausted); the first matching catcher wins -/
theorem catch_after_retries (rs : List Retrier) (cs : List Catcher) (e : Str) (n : Nat) (c : Catcher) :
    decideError rs cs e n = .caught c ↔
      unrecoverable e = false ∧ (∀ d k, scanRetriers rs e n ≠ .retry d k) ∧ scanCatchers cs e = some c := by
  unfold decideError
  cases hu : unrecoverable e
  · simp only [Bool.false_eq_true, if_false]
    cases hs : scanRetriers rs e n with
    | retry d k => simp
    | noMatch =>
      simp only
      cases hc : scanCatchers cs e <;> simp
    | exhausted =>
      simp only
      cases hc : scanCatchers cs e <;> simp
  · simp

theorem first_matching_catcher_wins (pre post : List Catcher) (c : Catcher) (e : Str)
    (hpre : ∀ p ∈ pre, errMatches p.errorEquals e = false) (hc : errMatches c.errorEquals e = true) :
    scanCatchers (pre ++ c :: post) e = some c := by
  induction pre with
  | nil => simp [scanCatchers, hc]
  | cons p ps ih =>
    simp only [List.cons_append, scanCatchers, hpre p (by simp)]
    exact ih (fun q hq => hpre q (by simp [hq]))

/-- runtime errors, the execution timeout and termination are never retried or caught, whatever the
lists say — in particular `States.ALL` does not match them -/
theorem states_all_excludes_unrecoverable (rs : List Retrier) (cs : List Catcher) (e : Str) (n : Nat)
    (h : unrecoverable e = true) : decideError rs cs e n = .uncaught := by
  simp [decideError, h]

/-- `States.ALL` (alone) matches every error name -/
theorem states_all_matches (e : Str) : errMatches [S "States.ALL"] e = true := by
  simp [errMatches]

/-- otherwise the execution fails with E: nothing matched ⇒ uncaught -/
theorem unhandled_is_uncaught (rs : List Retrier) (cs : List Catcher) (e : Str) (n : Nat)
    (hr : ∀ p ∈ rs, errMatches p.errorEquals e = false) (hc : ∀ p ∈ cs, errMatches p.errorEquals e = false) :
    decideError rs cs e n = .uncaught := by
  have h1 := no_retrier_applies rs e n hr
  have h2 : scanCatchers cs e = none := by
    induction cs with
    | nil => rfl
    | cons p ps ih =>
      simp only [scanCatchers, hc p (by simp)]
      exact ih (fun q hq => hc q (by simp [hq]))
  unfold decideError
  split
  · rfl
  · simp [h1, h2]

/-- in the interpreter: an uncaught error fails the scope with exactly that error name -/
theorem unhandled_fails_with_E (env : Env) (fuel : Nat) (states : Json) (name : Str) (state data ctx : Json)
    (retries : Nat) (e msg : Str) (st : St)
    (h : decideError ((listOf (fld state "Retry")).map retrierOf) ((listOf (fld state "Catch")).map catcherOf) e retries = .uncaught) :
    handleErr env (fuel + 1) states name state data ctx retries e msg st = (.failed e (causeOf msg) false, st) := by
  simp [handleErr, h]

/-- a retried state is re-run on its *original raw input* with the incremented retry count -/
theorem retry_reruns_same_input (env : Env) (fuel : Nat) (states : Json) (name : Str) (state data ctx : Json)
    (retries : Nat) (e msg : Str) (st : St) (d : Rat) (k : Nat)
    (h : decideError ((listOf (fld state "Retry")).map retrierOf) ((listOf (fld state "Catch")).map catcherOf) e retries = .retry d k) :
    handleErr env (fuel + 1) states name state data ctx retries e msg st = runFrom env fuel states name data ctx k st := by
  simp [handleErr, h]

/-- a caught error transfers to the catcher's Next with the Error Output {Error, Cause} placed by the
catcher's ResultPath into the state's original raw input, and the successor starts with retry count 0 -/
theorem error_output_placed (env : Env) (fuel : Nat) (states : Json) (name next : Str) (state data data' ctx : Json)
    (retries : Nat) (e msg : Str) (st : St) (c : Catcher)
    (h : decideError ((listOf (fld state "Retry")).map retrierOf) ((listOf (fld state "Catch")).map catcherOf) e retries = .caught c)
    (hn : c.next = some next)
    (hp : applyResultPath data (errorOutput e (causeOf msg)) (match c.resultPath with | none => some ['$'] | some p => p) = .ok data')
    (hl : (render data').length ≤ env.maxData) :
    handleErr env (fuel + 1) states name state data ctx retries e msg st = runFrom env fuel states next data' ctx 0 st := by
  have : ¬ env.maxData < (render data').length := by omega
  cases hrp : c.resultPath with
  | none => simp only [hrp] at hp; simp [handleErr, h, hn, hrp, hp, this]
  | some q => simp only [hrp] at hp; simp [handleErr, h, hn, hrp, hp, this]

/-- retry counters do not leak: the state entered after any transition starts with count 0
(see also C01.next_followed) -/
theorem retry_count_reset (env : Env) (fuel : Nat) (states : Json) (name next : Str) (state out ctx : Json)
    (retries : Nat) (st : St) (hE : isTrue (fld state "End") = false) (hN : fldStr state "Next" = some next)
    (hL : (render out).length ≤ env.maxData) :
    leave env (fuel + 1) states name state out ctx retries st = runFrom env fuel states next out ctx 0 st := by
  have : ¬ (render out).length > env.maxData := by omega
  simp [leave, hE, hN, this]

/-! ### non-vacuity -/
private def r1 : Retrier := { errorEquals := [S "A"], interval := 2, maxAttempts := 2, backoff := 3/2 }
private def r2 : Retrier := { errorEquals := [S "States.ALL"], maxAttempts := 0 }
example : scanRetriers [r1, r2] (S "A") 1 = .retry (2 * (3/2) ^ 1) 2 := by rfl
example : scanRetriers [r1, r2] (S "B") 0 = .exhausted := by rfl
example : retriesGranted [r1] [S "A", S "A", S "A", S "A"] 0 = 2 := by decide
example : decideError [r2] [{ errorEquals := [S "States.ALL"], next := some (S "N"), resultPath := none }] (S "States.Runtime") 0
    = .uncaught := by rfl
example : ∃ c, decideError [r2] [{ errorEquals := [S "States.ALL"], next := some (S "N"), resultPath := none }] (S "X") 0
    = .caught c := ⟨_, rfl⟩

end Asl.C07
