/-
C07 — Retry and Catch follow the States Language error-handling policy.
-/
import AslModel.Retry
import AslModel.Interp
import AslModel.Lite
namespace Asl.C07
open Asl

/-- the retriers are scanned in order and the first whose ErrorEquals matches decides — whether or
not it has attempts left -/
theorem first_matching_retrier_decides (pre post : List Retrier) (r : Retrier) (e : Str) (n : Nat)
    (hpre : ∀ p ∈ pre, errMatches p.errorEquals e = false) (hr : errMatches r.errorEquals e = true) :
    scanRetriers (pre ++ r :: post) e n =
      if n < r.maxAttempts then .retry (retryDelay r n) (n + 1) else .exhausted := by
  induction pre with
  | nil => simp [scanRetriers, hr]
  | cons p ps ih =>
    have hp := hpre p (by simp)
    simp only [List.cons_append, scanRetriers, hp]
    exact ih (fun q hq => hpre q (by simp [hq]))

theorem no_retrier_applies (rs : List Retrier) (e : Str) (n : Nat)
    (h : ∀ p ∈ rs, errMatches p.errorEquals e = false) : scanRetriers rs e n = .noMatch := by
  induction rs with
  | nil => rfl
  | cons p ps ih =>
    simp only [scanRetriers, h p (by simp)]
    exact ih (fun q hq => h q (by simp [hq]))

/-- the k-th retry (k = number of earlier retries) waits IntervalSeconds × BackoffRate^k seconds -/
theorem kth_retry_delay (r : Retrier) (k : Nat) : retryDelay r k = r.interval * r.backoff ^ k := rfl

/-- BackoffRate is clamped to at least 1 and the defaults are 1 s / 3 attempts / 2.0 -/
theorem backoff_at_least_one (j : Json) : 1 ≤ (retrierOf j).backoff := by
  unfold retrierOf
  split
  · simp only
    split
    · exact Rat.le_refl
    · rename_i h; exact Rat.not_lt.mp h
  · decide

theorem retrier_defaults : (retrierOf (.obj [(S "ErrorEquals", .arr [.str (S "States.ALL")])])).interval = 1 ∧
    (retrierOf (.obj [(S "ErrorEquals", .arr [.str (S "States.ALL")])])).maxAttempts = 3 ∧
    (retrierOf (.obj [(S "ErrorEquals", .arr [.str (S "States.ALL")])])).backoff = 2 := by decide

/-- MaxAttempts 0 means never -/
theorem maxAttempts_zero_never (pre post : List Retrier) (r : Retrier) (e : Str) (n : Nat)
    (hpre : ∀ p ∈ pre, errMatches p.errorEquals e = false) (hr : errMatches r.errorEquals e = true)
    (h0 : r.maxAttempts = 0) : scanRetriers (pre ++ r :: post) e n = .exhausted := by
  rw [first_matching_retrier_decides pre post r e n hpre hr, h0]; simp

/-- run of one state visit over a sequence of failures: the retry count after each decision, and how
many re-runs were granted (the run stops at the first failure that is not retried) -/
def retriesGranted (rs : List Retrier) : List Str → Nat → Nat
  | [], _ => 0
  | e :: es, n => match scanRetriers rs e n with
    | .retry _ n' => 1 + retriesGranted rs es n'
    | _ => 0

def maxOfAttempts (rs : List Retrier) : Nat := rs.foldr (fun r m => max r.maxAttempts m) 0

theorem scan_retry_bound (rs : List Retrier) (e : Str) (n : Nat) (d : Rat) (n' : Nat)
    (h : scanRetriers rs e n = .retry d n') : n' = n + 1 ∧ n < maxOfAttempts rs := by
  induction rs with
  | nil => simp [scanRetriers] at h
  | cons r rs ih =>
    simp only [scanRetriers] at h
    split at h
    · split at h
      · rename_i hlt
        simp only [RetryScan.retry.injEq] at h
        exact ⟨h.2.symm, by simp only [maxOfAttempts, List.foldr_cons]; omega⟩
      · cases h
    · have := ih h
      refine ⟨this.1, ?_⟩
      have h2 := this.2
      simp only [maxOfAttempts, List.foldr_cons] at h2 ⊢
      omega

/-- over **every** sequence of failures (any errors, any length) a state is re-run at most
`MaxAttempts` times (the largest MaxAttempts of its retriers bounds the shared retry counter) -/
theorem retries_le_maxAttempts (rs : List Retrier) (es : List Str) (n : Nat) :
    retriesGranted rs es n ≤ maxOfAttempts rs - n := by
  induction es generalizing n with
  | nil => simp [retriesGranted]
  | cons e es ih =>
    simp only [retriesGranted]
    split
    · rename_i d n' h
      have hb := scan_retry_bound rs e n d n' h
      have := ih n'
      omega
    · omega

/-- in the interpreter: whenever `handle_error` decides to re-run a state, the retry count it passes
on is at most the largest MaxAttempts of the state's retriers — so no state visit is ever re-run
more often than that, whatever the task behaviour -/
theorem rerun_count_bounded (rs : List Retrier) (cs : List Catcher) (e : Str) (n : Nat) (d : Rat) (k : Nat)
    (h : decideError rs cs e n = .retry d k) : k = n + 1 ∧ k ≤ maxOfAttempts rs := by
  unfold decideError at h
  split at h
  · cases h
  · split at h
    · rename_i d' k' hs
      cases h
      have := scan_retry_bound rs e n d k hs
      exact ⟨this.1, by omega⟩
    · split at h <;> cases h

/-- with a single retrier: at most its MaxAttempts -/
theorem single_retrier_bound (r : Retrier) (es : List Str) : retriesGranted [r] es 0 ≤ r.maxAttempts := by
  have := retries_le_maxAttempts [r] es 0
  simpa [maxOfAttempts] using this

/-- catchers are consulted iff the error is recoverable and no retrier re-runs the state (none
matches, or the first matching one is exhausted); the first matching catcher wins -/
theorem catch_after_retries (rs : List Retrier) (cs : List Catcher) (e : Str) (n : Nat) (c : Catcher) :
    decideError rs cs e n = .caught c ↔
      unrecoverable e = false ∧ (∀ d k, scanRetriers rs e n ≠ .retry d k) ∧ scanCatchers cs e = some c := by
  unfold decideError
  cases hu : unrecoverable e
  · simp only [Bool.false_eq_true, if_false]
    cases hs : scanRetriers rs e n with
    | retry d k => simp
    | noMatch =>
      simp only
      cases hc : scanCatchers cs e <;> simp
    | exhausted =>
      simp only
      cases hc : scanCatchers cs e <;> simp
  · simp

theorem first_matching_catcher_wins (pre post : List Catcher) (c : Catcher) (e : Str)
    (hpre : ∀ p ∈ pre, errMatches p.errorEquals e = false) (hc : errMatches c.errorEquals e = true) :
    scanCatchers (pre ++ c :: post) e = some c := by
  induction pre with
  | nil => simp [scanCatchers, hc]
  | cons p ps ih =>
    simp only [List.cons_append, scanCatchers, hpre p (by simp)]
    exact ih (fun q hq => hpre q (by simp [hq]))

/-- runtime errors, the execution timeout and termination are never retried or caught, whatever the
lists say — in particular `States.ALL` does not match them -/
theorem states_all_excludes_unrecoverable (rs : List Retrier) (cs : List Catcher) (e : Str) (n : Nat)
    (h : unrecoverable e = true) : decideError rs cs e n = .uncaught := by
  simp [decideError, h]

/-- `States.ALL` (alone) matches every error name -/
theorem states_all_matches (e : Str) : errMatches [S "States.ALL"] e = true := by
  simp [errMatches]

/-- otherwise the execution fails with E: nothing matched ⇒ uncaught -/
theorem unhandled_is_uncaught (rs : List Retrier) (cs : List Catcher) (e : Str) (n : Nat)
    (hr : ∀ p ∈ rs, errMatches p.errorEquals e = false) (hc : ∀ p ∈ cs, errMatches p.errorEquals e = false) :
    decideError rs cs e n = .uncaught := by
  have h1 := no_retrier_applies rs e n hr
  have h2 : scanCatchers cs e = none := by
    induction cs with
    | nil => rfl
    | cons p ps ih =>
      simp only [scanCatchers, hc p (by simp)]
      exact ih (fun q hq => hc q (by simp [hq]))
  unfold decideError
  split
  · rfl
  · simp [h1, h2]

/-- in the interpreter: an uncaught error fails the scope with exactly that error name (a Parallel / Map state is
filed as failed — unless the error is the execution's time-out, for which the engine files nothing) -/
theorem unhandled_fails_with_E (env : Env) (fuel : Nat) (states : Json) (name : Str) (state data ctx : Json)
    (retries : Nat) (e msg : Str) (st : St)
    (h : decideError ((listOf (fld state "Retry")).map retrierOf) ((listOf (fld state "Catch")).map catcherOf) e retries = .uncaught) :
    handleErr env (fuel + 1) states name state data ctx retries e msg st =
      (.failed e (causeOf msg) false, (if e = execTimeoutName then st else st.fanFailedIf state).failTok) := by
  simp [handleErr, h]

/-- a retried state is re-run on its *original raw input* with the incremented retry count (`hD`: the re-run starts
before the execution's time limit, if there is one — `Env.retryCut`; without a limit: `Env.retryCut_no_deadline`) -/
theorem retry_reruns_same_input (env : Env) (fuel : Nat) (states : Json) (name : Str) (state data ctx : Json)
    (retries : Nat) (e msg : Str) (st : St) (d : Rat) (k : Nat)
    (h : decideError ((listOf (fld state "Retry")).map retrierOf) ((listOf (fld state "Catch")).map catcherOf) e retries = .retry d k)
    (hD : env.retryCut (st.retryAfter name d).clock = none) :
    handleErr env (fuel + 1) states name state data ctx retries e msg st =
      runFrom env fuel states name data ctx k (st.retryAfter name d) := by
  simp only [handleErr, h, hD]

/-- a caught error transfers to the catcher's Next with the Error Output {Error, Cause} placed by the
catcher's ResultPath into the state's original raw input, and the successor starts with retry count 0 -/
theorem error_output_placed (env : Env) (fuel : Nat) (states : Json) (name next : Str) (state data data' ctx : Json)
    (retries : Nat) (e msg : Str) (st : St) (c : Catcher)
    (h : decideError ((listOf (fld state "Retry")).map retrierOf) ((listOf (fld state "Catch")).map catcherOf) e retries = .caught c)
    (hn : c.next = some next)
    (hp : applyResultPath data (errorOutput e (causeOf msg)) (match c.resultPath with | none => some ['$'] | some p => p) = .ok data')
    (hl : (render data').length ≤ env.maxData) :
    handleErr env (fuel + 1) states name state data ctx retries e msg st =
      runFrom env fuel states next data' ctx 0 (((st.fanFailedIf state).exit (stateType state) name data').handover next) := by
  have : ¬ env.maxData < (render data').length := by omega
  cases hrp : c.resultPath with
  | none => simp only [hrp] at hp; simp [handleErr, h, hn, hrp, hp, this]
  | some q => simp only [hrp] at hp; simp [handleErr, h, hn, hrp, hp, this]

/-- retry counters do not leak: the state entered after any transition starts with count 0
(see also C01.next_followed) -/
theorem retry_count_reset (env : Env) (fuel : Nat) (states : Json) (name next : Str) (state raw out ctx : Json)
    (retries : Nat) (st : St) (hE : isTrue (fld state "End") = false) (hN : fldStr state "Next" = some next)
    (hL : (render out).length ≤ env.maxData) :
    leave env (fuel + 1) states name state raw out ctx retries st =
      runFrom env fuel states next out ctx 0 ((st.exit (stateType state) name out).handover next) := by
  have : ¬ (render out).length > env.maxData := by omega
  simp [leave, hE, hN, this]

/-! ### a refused transition is an error of the state, handled on its raw input

`change_state` refuses the transition out of a state whose result has already been placed when the
output text is longer than the size limit (`States.DataLimitExceeded`) or when there is no `Next`
(`States.Runtime`).  The state's Retry / Catch then work on the data the state was *entered* with
(`raw`), never on the output `out` that could not be handed on, and the retry count is the one the
state was entered with. -/

/-- oversize output: for every state, output and raw input, the error goes to the state's handler
with the raw input and the unchanged retry count -/
theorem refused_transition_handled_on_raw_input (env : Env) (fuel : Nat) (states : Json) (name next : Str)
    (state raw out ctx : Json) (retries : Nat) (st : St)
    (hE : isTrue (fld state "End") = false) (hN : fldStr state "Next" = some next)
    (hL : (render out).length > env.maxData) :
    leave env (fuel + 1) states name state raw out ctx retries st =
      handleErr env fuel states name state raw ctx retries (S "States.DataLimitExceeded") (S "m") st := by
  simp [leave, hE, hN, hL]

/-- missing `Next`: the same with `States.Runtime` -/
theorem missing_next_handled_on_raw_input (env : Env) (fuel : Nat) (states : Json) (name : Str)
    (state raw out ctx : Json) (retries : Nat) (st : St)
    (hE : isTrue (fld state "End") = false) (hN : fldStr state "Next" = none) :
    leave env (fuel + 1) states name state raw out ctx retries st =
      handleErr env fuel states name state raw ctx retries (S "States.Runtime") (S "m") st := by
  simp [leave, hE, hN]

/-- a terminal state (`End: true`) whose output is longer than the size limit: the same — the error
goes to the state's handler with its raw input and unchanged retry count (`handle_terminal_state`; the
join of a Parallel / Map that ends its scope) -/
theorem terminal_output_over_limit_handled_on_raw_input (env : Env) (fuel : Nat) (states : Json) (name : Str)
    (state raw out ctx : Json) (retries : Nat) (st : St)
    (hE : isTrue (fld state "End") = true) (hL : (render out).length > env.maxData) :
    leave env (fuel + 1) states name state raw out ctx retries st =
      handleErr env fuel states name state raw ctx retries (S "States.DataLimitExceeded") (S "m") st := by
  simp [leave, hE, hL]

/-- … so a terminal state with a matching retrier is re-run on its raw input -/
theorem terminal_output_over_limit_retried_on_raw_input (env : Env) (fuel : Nat) (states : Json) (name : Str)
    (state raw out ctx : Json) (retries : Nat) (st : St) (d : Rat) (k : Nat)
    (hE : isTrue (fld state "End") = true) (hL : (render out).length > env.maxData)
    (h : decideError ((listOf (fld state "Retry")).map retrierOf) ((listOf (fld state "Catch")).map catcherOf)
      (S "States.DataLimitExceeded") retries = .retry d k)
    (hD : env.retryCut (st.retryAfter name d).clock = none) :
    leave env (fuel + 2) states name state raw out ctx retries st =
      runFrom env fuel states name raw ctx k (st.retryAfter name d) ∧
      k = retries + 1 := by
  rw [terminal_output_over_limit_handled_on_raw_input env (fuel + 1) states name state raw out ctx retries st hE hL]
  exact ⟨retry_reruns_same_input env fuel states name state raw ctx retries _ _ st d k h hD,
    (rerun_count_bounded _ _ _ _ _ _ h).1⟩

/-- … and since `States.Runtime` is unrecoverable, a missing `Next` fails the scope whatever the
state's Retry / Catch say -/
theorem missing_next_fails (env : Env) (fuel : Nat) (states : Json) (name : Str)
    (state raw out ctx : Json) (retries : Nat) (st : St)
    (hE : isTrue (fld state "End") = false) (hN : fldStr state "Next" = none) :
    leave env (fuel + 2) states name state raw out ctx retries st =
      (.failed (S "States.Runtime") (some (.str (S "<cause>"))) false, (st.fanFailedIf state).failTok) := by
  rw [missing_next_handled_on_raw_input env (fuel + 1) states name state raw out ctx retries st hE hN]
  exact unhandled_fails_with_E env fuel states name state raw ctx retries (S "States.Runtime") (S "m") st
    (states_all_excludes_unrecoverable _ _ (S "States.Runtime") _ (by decide))

/-- a state whose oversize output is refused and whose Retry grants a re-run is re-run on its **raw
input** with the retry count incremented from the count it was entered with -/
theorem refused_transition_retried_on_raw_input (env : Env) (fuel : Nat) (states : Json) (name next : Str)
    (state raw out ctx : Json) (retries : Nat) (st : St) (d : Rat) (k : Nat)
    (hE : isTrue (fld state "End") = false) (hN : fldStr state "Next" = some next)
    (hL : (render out).length > env.maxData)
    (h : decideError ((listOf (fld state "Retry")).map retrierOf) ((listOf (fld state "Catch")).map catcherOf)
      (S "States.DataLimitExceeded") retries = .retry d k)
    (hD : env.retryCut (st.retryAfter name d).clock = none) :
    leave env (fuel + 2) states name state raw out ctx retries st =
      runFrom env fuel states name raw ctx k (st.retryAfter name d) ∧
      k = retries + 1 := by
  rw [refused_transition_handled_on_raw_input env (fuel + 1) states name next state raw out ctx retries st hE hN hL]
  exact ⟨retry_reruns_same_input env fuel states name state raw ctx retries _ _ st d k h hD,
    (rerun_count_bounded _ _ _ _ _ _ h).1⟩

/-- a state whose oversize output is refused and is caught: the successor is the catcher's `Next`,
entered with the Error Output placed by the catcher's ResultPath into the state's **raw input** -/
theorem refused_transition_caught_on_raw_input (env : Env) (fuel : Nat) (states : Json) (name next cnext : Str)
    (state raw out raw' ctx : Json) (retries : Nat) (st : St) (c : Catcher)
    (hE : isTrue (fld state "End") = false) (hN : fldStr state "Next" = some next)
    (hL : (render out).length > env.maxData)
    (h : decideError ((listOf (fld state "Retry")).map retrierOf) ((listOf (fld state "Catch")).map catcherOf)
      (S "States.DataLimitExceeded") retries = .caught c)
    (hn : c.next = some cnext)
    (hp : applyResultPath raw (errorOutput (S "States.DataLimitExceeded") (causeOf (S "m")))
      (match c.resultPath with | none => some ['$'] | some p => p) = .ok raw')
    (hl : (render raw').length ≤ env.maxData) :
    leave env (fuel + 2) states name state raw out ctx retries st =
      runFrom env fuel states cnext raw' ctx 0 (((st.fanFailedIf state).exit (stateType state) name raw').handover cnext) := by
  rw [refused_transition_handled_on_raw_input env (fuel + 1) states name next state raw out ctx retries st hE hN hL]
  exact error_output_placed env fuel states name cnext state raw raw' ctx retries _ _ st c h hn hp hl

/-- the catch case with `ResultPath: null`: the Error Output is discarded and the successor is entered
with **exactly the raw input** (not the oversize output, nor anything derived from it) -/
theorem refused_transition_caught_null_resultpath (env : Env) (fuel : Nat) (states : Json) (name next cnext : Str)
    (state raw out ctx : Json) (retries : Nat) (st : St) (c : Catcher)
    (hE : isTrue (fld state "End") = false) (hN : fldStr state "Next" = some next)
    (hL : (render out).length > env.maxData)
    (h : decideError ((listOf (fld state "Retry")).map retrierOf) ((listOf (fld state "Catch")).map catcherOf)
      (S "States.DataLimitExceeded") retries = .caught c)
    (hn : c.next = some cnext) (hrp : c.resultPath = some none)
    (hraw : raw ≠ .null) (hl : (render raw).length ≤ env.maxData) :
    leave env (fuel + 2) states name state raw out ctx retries st =
      runFrom env fuel states cnext raw ctx 0 (((st.fanFailedIf state).exit (stateType state) name raw).handover cnext) := by
  refine refused_transition_caught_on_raw_input env fuel states name next cnext state raw out raw ctx retries st c
    hE hN hL h hn ?_ hl
  simp [hrp, applyResultPath, hraw]

/-- Parallel / Map: the join whose output is refused hands the error to the fan-out state's handler
with the fan-out state's raw input and the retry count it was entered with (it is *kept*, so
`MaxAttempts` still bounds the re-runs of a fan-out state whose output is too large) -/
theorem fanout_refused_transition_keeps_retry_count (env : Env) (fuel : Nat) (states : Json) (name next : Str)
    (state data ctx result out : Json) (results : List Json) (retries : Nat) (st : St) (d : Rat) (k : Nat)
    (hs : tmplOpt env (.arr results) ctx (fld state "ResultSelector") = .ok result)
    (hm : mergeResult data ctx result state = .ok out)
    (hE : isTrue (fld state "End") = false) (hN : fldStr state "Next" = some next)
    (hL : (render out).length > env.maxData)
    (h : decideError ((listOf (fld state "Retry")).map retrierOf) ((listOf (fld state "Catch")).map catcherOf)
      (S "States.DataLimitExceeded") retries = .retry d k)
    (hD : env.retryCut (st.retryAfter name d).clock = none) :
    joinAndLeave env (fuel + 3) states name state data ctx retries (.ok results) st =
      runFrom env fuel states name data ctx (retries + 1) (st.retryAfter name d) := by
  have h2 := refused_transition_retried_on_raw_input env fuel states name next state data out ctx retries st d k
    hE hN hL h hD
  rw [← h2.2, ← h2.1]
  simp [joinAndLeave, hs, hm]

/-- Task: a successful reply whose placed result is too large is retried on the Task's raw input -/
theorem task_refused_transition_retried_on_raw_input (env : Env) (fuel : Nat) (states : Json) (name fn next : Str)
    (state data ctx input params v result out : Json) (retries : Nat) (st : St) (d : Rat) (k : Nat) (tEnd : Rat)
    (h : stateType state = S "Task")
    (hr : rpcFunction ((fldStr state "Resource").getD []) = some fn)
    (hi : applyPath data ctx (pathArg state "InputPath") = .ok input)
    (hp : tmplOpt env input ctx (fld state "Parameters") = .ok params)
    (own : Option Rat) (hown : taskOwnDeadline state data ctx st.clock = .ok own)
    (ha : taskArrival (env.delay fn params (bump st.counts (fn, params)).1)
        ((taskLimit own env.deadline st.clock).map (·.t)) st.clock
      = some (tEnd, false))
    (hv : taskReply env.maxData (env.task fn params (bump st.counts (fn, params)).1) = .ok v)
    (hs : tmplOpt env v ctx (fld state "ResultSelector") = .ok result)
    (hm : mergeResult data ctx result state = .ok out)
    (hE : isTrue (fld state "End") = false) (hN : fldStr state "Next" = some next)
    (hL : (render out).length > env.maxData)
    (hd : decideError ((listOf (fld state "Retry")).map retrierOf) ((listOf (fld state "Catch")).map catcherOf)
      (S "States.DataLimitExceeded") retries = .retry d k)
    (hD : env.retryCut (((st.closeKeep.request false).taskCall (bump st.counts (fn, params)).2 ((fldStr state "Resource").getD []) params
          (replyEv env.maxData (env.task fn params (bump st.counts (fn, params)).1)) tEnd).retryAfter name d).clock = none) :
    runState env (fuel + 3) states name state data ctx retries st =
      runFrom env fuel states name data ctx (retries + 1)
        (((st.closeKeep.request false).taskCall (bump st.counts (fn, params)).2 ((fldStr state "Resource").getD []) params
          (replyEv env.maxData (env.task fn params (bump st.counts (fn, params)).1)) tEnd).retryAfter name d) := by
  have h2 := refused_transition_retried_on_raw_input env fuel states name next state data out ctx retries
    ((st.closeKeep.request false).taskCall (bump st.counts (fn, params)).2 ((fldStr state "Resource").getD []) params
          (replyEv env.maxData (env.task fn params (bump st.counts (fn, params)).1)) tEnd) d k hE hN hL hd hD
  rw [← h2.2, ← h2.1]
  have h1 : (S "Task" = S "Pass") = False := by decide
  have h2 : (S "Task" = S "Succeed") = False := by decide
  have h3 : (S "Task" = S "Fail") = False := by decide
  have h4 : (S "Task" = S "Wait") = False := by decide
  have h5 : (S "Task" = S "Choice") = False := by decide
  simp [runState, h, h1, h2, h3, h4, h5, hr, hi, hp, hown, ha, taskOutcome, taskEv, hv, hs, hm]

/-! ### non-vacuity -/
private def r1 : Retrier := { errorEquals := [S "A"], interval := 2, maxAttempts := 2, backoff := 3/2 }
private def r2 : Retrier := { errorEquals := [S "States.ALL"], maxAttempts := 0 }
example : scanRetriers [r1, r2] (S "A") 1 = .retry (2 * (3/2) ^ 1) 2 := by rfl
example : scanRetriers [r1, r2] (S "B") 0 = .exhausted := by rfl
example : retriesGranted [r1] [S "A", S "A", S "A", S "A"] 0 = 2 := by decide
example : decideError [r2] [{ errorEquals := [S "States.ALL"], next := some (S "N"), resultPath := none }] (S "States.Runtime") 0
    = .uncaught := by rfl
example : ∃ c, decideError [r2] [{ errorEquals := [S "States.ALL"], next := some (S "N"), resultPath := none }] (S "X") 0
    = .caught c := ⟨_, rfl⟩

/-! refused transitions, on a concrete Task state: limit 50 characters, a worker whose reply is 42
characters long (accepted) and makes the output 57 characters long (refused), Retry once on `States.DataLimitExceeded`, then Catch with `ResultPath: null` -/
private def reply : Json := .str (S "0123456789012345678901234567890123456789")
private def envS : Env :=
  { tmpl := Lite.tmpl, choose := Lite.choose, maxData := 50, task := fun _ _ _ => reply }
private def tState : Json := .obj [
  (S "Type", .str (S "Task")), (S "Resource", .str (S "arn:aws:rpcmessage:local::function:f")),
  (S "ResultPath", .str (S "$.r")), (S "Next", .str (S "N")),
  (S "Retry", .arr [.obj [(S "ErrorEquals", .arr [.str (S "States.DataLimitExceeded")]), (S "MaxAttempts", .num 1)]]),
  (S "Catch", .arr [.obj [(S "ErrorEquals", .arr [.str (S "States.ALL")]), (S "ResultPath", .null),
    (S "Next", .str (S "C"))]])]
private def succeedSt : Json := .obj [(S "Type", .str (S "Succeed"))]
private def aslT : Json := .obj [(S "StartAt", .str (S "T")), (S "States", .obj [
  (S "T", tState), (S "N", succeedSt), (S "C", succeedSt)])]
private def rawIn : Json := .obj [(S "a", .num 1)]
private def bigOut : Json := .obj [(S "a", .num 1), (S "r", reply)]
private def theCatcher : Catcher :=
  { errorEquals := [S "States.ALL"], next := some (S "C"), resultPath := some none }

-- the hypotheses of `refused_transition_handled_on_raw_input` and its corollaries, on `tState`
private theorem hEnd : isTrue (fld tState "End") = false := by rfl
private theorem hNext : fldStr tState "Next" = some (S "N") := by rfl
private theorem hBig : (render bigOut).length > envS.maxData := by decide
private theorem hRetry0 : ∃ d, decideError ((listOf (fld tState "Retry")).map retrierOf)
    ((listOf (fld tState "Catch")).map catcherOf) (S "States.DataLimitExceeded") 0 = .retry d 1 := ⟨_, rfl⟩
private theorem hCaught1 : decideError ((listOf (fld tState "Retry")).map retrierOf)
    ((listOf (fld tState "Catch")).map catcherOf) (S "States.DataLimitExceeded") 1 = .caught theCatcher := by rfl

/-- the output `bigOut` is what the Task's ResultPath makes of the reply and the raw input `rawIn` -/
example : mergeResult rawIn (.obj []) reply tState = .ok bigOut := by rfl
/-- refused at retry count 0: handled on `rawIn` … -/
example (fuel : Nat) (states ctx : Json) (st : St) :
    leave envS (fuel + 1) states (S "T") tState rawIn bigOut ctx 0 st =
      handleErr envS fuel states (S "T") tState rawIn ctx 0 (S "States.DataLimitExceeded") (S "m") st :=
  refused_transition_handled_on_raw_input envS fuel states (S "T") (S "N") tState rawIn bigOut ctx 0 st hEnd hNext hBig
/-- … which re-runs `T` on `rawIn` with retry count 1 … -/
example (fuel : Nat) (states ctx : Json) (st : St) :
    ∃ d, leave envS (fuel + 2) states (S "T") tState rawIn bigOut ctx 0 st =
      runFrom envS fuel states (S "T") rawIn ctx 1 (st.retryAfter (S "T") d) := by
  obtain ⟨d, hd⟩ := hRetry0
  exact ⟨d, (refused_transition_retried_on_raw_input envS fuel states (S "T") (S "N") tState rawIn bigOut ctx 0 st d 1
    hEnd hNext hBig hd (Env.retryCut_no_deadline _ _ rfl)).1⟩
/-- … and refused again at retry count 1: caught, `C` is entered with exactly `rawIn` -/
example (fuel : Nat) (states ctx : Json) (st : St) :
    leave envS (fuel + 2) states (S "T") tState rawIn bigOut ctx 1 st =
      runFrom envS fuel states (S "C") rawIn ctx 0 ((st.exit (S "Task") (S "T") rawIn).handover (S "C")) :=
  refused_transition_caught_null_resultpath envS fuel states (S "T") (S "N") (S "C") tState rawIn bigOut ctx 1 st
    theCatcher hEnd hNext hBig hCaught1 rfl rfl (by decide) (by decide)
/-- the whole state, from `runState` (hypotheses of `task_refused_transition_retried_on_raw_input`): the reply
arrives after the worker's 10 ms, the re-run starts the Retrier's interval later -/
example (fuel : Nat) (states : Json) :
    ∃ d, runState envS (fuel + 3) states (S "T") tState rawIn (.obj []) 0 {} =
      runFrom envS fuel states (S "T") rawIn (.obj []) 1
        (((({ } : St).closeKeep.request false).taskCall [((S "f", rawIn), 1)] (S "arn:aws:rpcmessage:local::function:f") rawIn
          (.lambdaSucceeded reply) 10).retryAfter (S "T") d) := by
  obtain ⟨d, hd⟩ := hRetry0
  exact ⟨d, task_refused_transition_retried_on_raw_input envS fuel states (S "T") (S "f") (S "N") tState rawIn (.obj [])
    rawIn rawIn reply reply bigOut 0 {} d 1 10 (by rfl) (by rfl) (by rfl) (by rfl) none (by rfl) (by decide +kernel) (by rfl) (by rfl) (by rfl)
    hEnd hNext hBig hd (Env.retryCut_no_deadline _ _ rfl)⟩
/-- a fan-out state with the same Retry, entered with retry count 0 (hypotheses of
`fanout_refused_transition_keeps_retry_count`; `tState`'s Type plays no part in the join) -/
example (fuel : Nat) (states : Json) (st : St) :
    ∃ d, joinAndLeave envS (fuel + 3) states (S "T") tState rawIn (.obj []) 0 (.ok [reply]) st =
      runFrom envS fuel states (S "T") rawIn (.obj []) 1 (st.retryAfter (S "T") d) := by
  obtain ⟨d, hd⟩ := hRetry0
  have hb : (render (.obj [(S "a", .num 1), (S "r", .arr [reply])])).length > envS.maxData := by decide
  exact ⟨d, fanout_refused_transition_keeps_retry_count envS fuel states (S "T") (S "N") tState rawIn (.obj [])
    (.arr [reply]) _ [reply] 0 st d 1 (by rfl) (by rfl) hEnd hNext hb hd (Env.retryCut_no_deadline _ _ rfl)⟩
/-- the whole run: T is entered on `rawIn`, its output is refused, it is re-run once on `rawIn`, refused
again, caught, and `C` is entered with exactly `rawIn` — which is the execution's output -/
example : (run envS 20 aslT rawIn (.obj [])).status = S "SUCCEEDED" ∧
    (run envS 20 aslT rawIn (.obj [])).output = some rawIn ∧
    (run envS 20 aslT rawIn (.obj [])).trace = [S "T", S "C"] := by decide +kernel
/-- a terminal Task state with the same Retry (hypotheses of `terminal_output_over_limit_…`): refused at
retry count 0, re-run on `rawIn` with count 1 -/
private def tEnd : Json := .obj [
  (S "Type", .str (S "Task")), (S "Resource", .str (S "arn:aws:rpcmessage:local::function:f")),
  (S "ResultPath", .str (S "$.r")), (S "End", .bool true),
  (S "Retry", .arr [.obj [(S "ErrorEquals", .arr [.str (S "States.DataLimitExceeded")]), (S "MaxAttempts", .num 1)]])]
example (fuel : Nat) (states ctx : Json) (st : St) :
    ∃ d, leave envS (fuel + 2) states (S "T") tEnd rawIn bigOut ctx 0 st =
      runFrom envS fuel states (S "T") rawIn ctx 1 (st.retryAfter (S "T") d) :=
  ⟨_, (terminal_output_over_limit_retried_on_raw_input envS fuel states (S "T") tEnd rawIn bigOut ctx 0 st _ 1
    (by rfl) hBig rfl (Env.retryCut_no_deadline _ _ rfl)).1⟩
/-- the whole run of the one-state machine: two attempts, then FAILED with States.DataLimitExceeded -/
example : (run envS 20 (.obj [(S "StartAt", .str (S "T")), (S "States", .obj [(S "T", tEnd)])]) rawIn (.obj [])).status
      = S "FAILED" ∧
    (run envS 20 (.obj [(S "StartAt", .str (S "T")), (S "States", .obj [(S "T", tEnd)])]) rawIn (.obj [])).error
      = some (S "States.DataLimitExceeded") := by decide +kernel
/-- a missing `Next` (hypotheses of `missing_next_handled_on_raw_input` / `missing_next_fails`) -/
example : isTrue (fld succeedSt "End") = false ∧ fldStr succeedSt "Next" = none := ⟨by rfl, by rfl⟩

end Asl.C07
