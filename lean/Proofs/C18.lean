/-
C18 — validator-accepted machines run; uninterpretable ones hurt only themselves.

`Machine.WF` is the property's reading of "a definition without problems"; the interpreter's
"Illegal State Machine" failures are the five sites (a)–(e) listed in `AslModel/Machine.lean`,
whose reachability is the predicate `illRun` (it follows `Asl.run` clause by clause and takes
every datum from the real interpreter functions; the `site_*` theorems tie each site of the real
functions to the predicate).  Main theorem: for a well-formed definition no run — whatever the
input, the task behaviour, the template evaluator, the fuel — reaches any of those sites.
The second sentence of the property (poison events) is checked on the real engine only (see
harness/props/c18.py); there is no theorem for it here.
-/
import Proofs.Lemmas.Machine
namespace Asl.C18
open Asl Asl.Machine

/-- **Main theorem.**  A well-formed definition never reaches an "Illegal State Machine" site:
not (a) an undefined state name, (b) a missing `Next`, (c) an unknown `Type`, (d) a Catcher without
`Next`, nor (e) a branch / iterator without `StartAt`/`States` — for every input, context, task
behaviour, template evaluator and fuel, and every Choice evaluator that answers the `Next` of one
of the state's rules.  (Invariant: the current state name is defined in the current scope, and the
current scope is well-formed; mutual induction on the fuel over
runFrom / runState / leave / handleErr / joinAndLeave / runBranches / runItems, all state types,
arbitrary nesting.) -/
theorem wf_no_illegal_machine (env : Env) (hch : ChooseOK env) (fuel : Nat) (m input ctx : Json)
    (h : WF m = true) : illRun env fuel m input ctx = false := by
  simp only [WF, Bool.and_eq_true] at h
  obtain ⟨s, kvs, hs, hk, hdef, hw⟩ := wfBranch_inv h.1.1.1
  simp only [illRun, hs, hk]
  exact (safe_all env hch fuel).from_ _ _ _ _ _ _ ⟨_, hw⟩ hdef

/-- the same inside any well-formed scope (a branch, an iterator), from any of its states -/
theorem wf_scope_no_illegal (env : Env) (hch : ChooseOK env) (fuel d : Nat) (kvs : List (Str × Json))
    (name : Str) (data ctx : Json) (retries : Nat) (st : St)
    (hw : wfScope d kvs = true) (hn : defined kvs name = true) :
    illFrom env fuel (.obj kvs) name data ctx retries st = false :=
  (safe_all env hch fuel).from_ _ _ _ _ _ _ ⟨d, hw⟩ hn

/-- the hypothesis on the Choice evaluator holds for the evaluator the driver runs -/
theorem lite_chooseOK (tmpl : Json → Json → Json → Except PErr Json) (task : TaskFn) :
    ChooseOK { tmpl := tmpl, choose := Lite.choose, task := task } := by
  intro state input raw ctx n h
  exact lite_go_mem input ctx _ n h

/-! ### the sites of the real interpreter are the sites of the predicate -/

/-- (a) an undefined name: the real `runFrom` answers the Illegal-State-Machine failure and the
predicate flags it -/
theorem site_a (env : Env) (fuel : Nat) (kvs : List (Str × Json)) (name : Str) (data ctx : Json) (r : Nat) (st : St)
    (h : objGet kvs name = none) :
    runFrom env (fuel + 1) (.obj kvs) name data ctx r st =
      (.failed (S "States.Runtime") (some (.str (S "<cause>"))) false, st) ∧
    illFrom env (fuel + 1) (.obj kvs) name data ctx r st = true := by
  simp [runFrom, illFrom, h]

/-- (b) neither End nor Next: the real `leave` raises States.Runtime (handled on the state's raw
input) and the predicate flags it -/
theorem site_b (env : Env) (fuel : Nat) (states : Json) (name : Str) (state raw data ctx : Json) (r : Nat) (st : St)
    (hE : isTrue (fld state "End") = false) (hN : fldStr state "Next" = none) :
    leave env (fuel + 1) states name state raw data ctx r st =
      handleErr env fuel states name state raw ctx r (S "States.Runtime") (S "m") st ∧
    illLeave env (fuel + 1) states name state raw data ctx r st = true := by
  simp [leave, illLeave, hE, hN]

/-- (c) a Type that is none of the eight -/
theorem site_c (env : Env) (fuel : Nat) (states : Json) (name : Str) (state data ctx : Json) (r : Nat) (st : St)
    (h : stateType state ∉ knownTypes) :
    runState env (fuel + 1) states name state data ctx r st =
      (.failed (S "States.Runtime") (some (.str (S "<cause>"))) false, st) ∧
    illState env (fuel + 1) states name state data ctx r st = true := by
  simp only [knownTypes, List.mem_cons, List.not_mem_nil, or_false, not_or] at h
  obtain ⟨h1, h2, h3, h4, h5, h6, h7, h8⟩ := h
  simp [runState, illState, h1, h2, h3, h4, h5, h6, h7, h8]

/-- (e) a branch without `States` -/
theorem site_e (env : Env) (fuel : Nat) (b : Json) (bs : List Json) (params ctx : Json) (st : St)
    (h : fld b "States" = none) :
    runBranches env (fuel + 1) (b :: bs) params ctx st =
      (.error (.failed (S "States.Runtime") (some (.str (S "<cause>"))) false), st) ∧
    illBranches env (fuel + 1) (b :: bs) params ctx st = true := by
  constructor
  · simp only [runBranches, h]
    split <;> simp_all
  · simp only [illBranches, h]
    split <;> simp_all

/-- in a well-formed scope the real `runFrom` finds its state (site (a) is not taken) -/
theorem wf_runFrom_finds (env : Env) (fuel d : Nat) (kvs : List (Str × Json)) (name : Str) (data ctx : Json)
    (r : Nat) (st : St) (hw : wfScope d kvs = true) (hn : defined kvs name = true) :
    ∃ state, objGet kvs name = some state ∧ wfState d kvs state = true ∧
      runFrom env (fuel + 1) (.obj kvs) name data ctx r st =
        runState env fuel (.obj kvs) name state data (ctxFor ctx name r) r
          ((st.enter (stateType state) name data r).visit (stateType state)) := by
  obtain ⟨state, hs⟩ := defined_get hn
  exact ⟨state, hs, wfScope_get hw hs, by simp [runFrom, hs]⟩

/-- in a well-formed scope the real `leave` ends, reports the data limit, or continues at a state
defined in the same scope (site (b) is not taken) -/
theorem wf_leave_continues (env : Env) (fuel : Nat) (kvs : List (Str × Json)) (name : Str) (state raw data ctx : Json)
    (r : Nat) (st : St) (hl : leaveOk kvs state = true) :
    leave env (fuel + 1) (.obj kvs) name state raw data ctx r st = (.done data, st.exit (stateType state) name data) ∨
    leave env (fuel + 1) (.obj kvs) name state raw data ctx r st =
      handleErr env fuel (.obj kvs) name state raw ctx r (S "States.DataLimitExceeded") (S "m") st ∨
    ∃ next, defined kvs next = true ∧
      leave env (fuel + 1) (.obj kvs) name state raw data ctx r st =
        runFrom env fuel (.obj kvs) next data ctx 0 ((st.exit (stateType state) name data).handover next) := by
  by_cases hlen : (render data).length > env.maxData
  · right; left
    by_cases hE : isTrue (fld state "End") = true
    · simp [leave, hE, hlen]
    · have hE' : isTrue (fld state "End") = false := by simpa using hE
      obtain ⟨n, hn, hdn⟩ := leaveOk_next hl hE'
      simp [leave, hE', hn, hlen]
  · by_cases hE : isTrue (fld state "End") = true
    · left; simp [leave, hE, hlen]
    · have hE' : isTrue (fld state "End") = false := by simpa using hE
      obtain ⟨n, hn, hdn⟩ := leaveOk_next hl hE'
      right; right; exact ⟨n, hdn, by simp [leave, hE', hn, hlen]⟩

/-- every state of a well-formed definition's top scope has one of the eight Types, and the
definition's `StartAt` is one of them (the real `run` enters the interpreter) -/
theorem wf_start_defined (m : Json) (h : WF m = true) :
    ∃ start kvs state, fldStr m "StartAt" = some start ∧ fld m "States" = some (.obj kvs) ∧
      objGet kvs start = some state ∧ stateType state ∈ knownTypes := by
  simp only [WF, Bool.and_eq_true] at h
  obtain ⟨s, kvs, hs, hk, hdef, hw⟩ := wfBranch_inv h.1.1.1
  obtain ⟨state, hst⟩ := defined_get hdef
  have hws := wfScope_get hw hst
  cases hsz : m.size with
  | zero => rw [hsz] at hws; simp [wfState_zero] at hws
  | succ d => rw [hsz] at hws; exact ⟨s, kvs, state, hs, hk, hst, (wfState_inv hws).known⟩

/-! ### the linter is total and decides WF -/

/-- every JSON value gets a verdict: no problem exactly when it is well-formed, otherwise a
non-empty problem list (never an exception, never divergence — `lint` is a total function) -/
theorem decode_total (j : Json) : (lint j = [] ∧ WF j = true) ∨ (lint j ≠ [] ∧ WF j = false) := by
  unfold lint
  cases h : WF j
  · right
    simp only [Bool.false_eq_true, if_false]
    constructor
    · split <;> simp_all
    · trivial
  · left; simp

/-- a JSON value that is not an object is never accepted -/
theorem nonobject_rejected (j : Json) (h : ∀ kvs, j ≠ .obj kvs) : WF j = false ∧ lint j = [.notAnObject] := by
  have hw : WF j = false := by
    cases j <;> first | (exfalso; exact h _ rfl) | simp [WF, wfBranch, fldStr, fld, Json.get]
  refine ⟨hw, ?_⟩
  cases j <;> first | (exfalso; exact h _ rfl) | simp [lint, hw, diagnose]

/-- well-formed definitions have no two states of the same name, at any nesting level -/
theorem wf_unique_names (m : Json) (h : WF m = true) : nodup (namesIn m.size m) = true := by
  simp only [WF, Bool.and_eq_true] at h
  exact h.1.1.2

/-- a well-formed definition's execution time limit, when given, is a number, and the `MaxConcurrency` of each
of its Map states a non-negative integer (what the engine refuses to interpret otherwise) -/
theorem wf_time_limit_is_number (m : Json) (h : WF m = true) : timeoutOk m = true := by
  simp only [WF, Bool.and_eq_true] at h
  exact h.1.2

/-- no state of a well-formed definition, at any nesting level, has the empty string for its name (the engine takes an
event whose state name is empty for the start of a new execution) -/
theorem wf_names_nonempty (m : Json) (h : WF m = true) : [] ∉ namesIn m.size m := by
  simp only [WF, Bool.and_eq_true, namesOk, Bool.not_eq_true'] at h
  intro hc
  have := h.2
  simp [List.contains_iff_mem] at this
  exact this hc

/-! ### non-vacuity -/

def P (next : Option String) : Json :=
  .obj ([(S "Type", .str (S "Pass"))] ++ match next with
    | some n => [(S "Next", .str (S n))]
    | none => [(S "End", .bool true)])

/-- Task with a Catcher → Choice → Parallel (one branch) / Map (an iterator) → Succeed -/
def good : Json :=
  .obj [(S "StartAt", .str (S "T")),
        (S "States", .obj [
          (S "T", .obj [(S "Type", .str (S "Task")), (S "Resource", .str (S "arn:aws:rpcmessage:local::function:f")),
                        (S "Catch", .arr [.obj [(S "ErrorEquals", .arr [.str (S "States.ALL")]), (S "Next", .str (S "Z"))]]),
                        (S "Next", .str (S "C"))]),
          (S "C", .obj [(S "Type", .str (S "Choice")),
                        (S "Choices", .arr [.obj [(S "Variable", .str (S "$.a")), (S "IsPresent", .bool true),
                                                  (S "Next", .str (S "Q"))]]),
                        (S "Default", .str (S "M"))]),
          (S "Q", .obj [(S "Type", .str (S "Parallel")), (S "End", .bool true),
                        (S "Branches", .arr [.obj [(S "StartAt", .str (S "B1")), (S "States", .obj [(S "B1", P none)])]])]),
          (S "M", .obj [(S "Type", .str (S "Map")), (S "Next", .str (S "Z")),
                        (S "Iterator", .obj [(S "StartAt", .str (S "I1")),
                                             (S "States", .obj [(S "I1", P (some "I2")), (S "I2", P none)])])]),
          (S "Z", .obj [(S "Type", .str (S "Succeed"))])])]

def dangling : Json :=
  .obj [(S "StartAt", .str (S "A")), (S "States", .obj [(S "A", P (some "Nowhere"))])]

def dupNames : Json :=
  .obj [(S "StartAt", .str (S "A")),
        (S "States", .obj [(S "A", .obj [(S "Type", .str (S "Parallel")), (S "End", .bool true),
          (S "Branches", .arr [.obj [(S "StartAt", .str (S "A")), (S "States", .obj [(S "A", P none)])]])])])]

def emptyBranches : Json :=
  .obj [(S "StartAt", .str (S "A")),
        (S "States", .obj [(S "A", .obj [(S "Type", .str (S "Parallel")), (S "End", .bool true), (S "Branches", .arr [])])])]

def liteEnv : Env := { tmpl := Lite.tmpl, choose := Lite.choose, task := fun _ _ _ => .obj [] }

/-- the hypothesis of the main theorem is met by a machine using every structural feature -/
example : WF good = true := by decide
example : lint good = [] := by decide
/-- … and by the driver's environment -/
example : ChooseOK liteEnv := lite_chooseOK _ _
/-- the predicate is not constantly false: a dangling `Next` is reached and flagged … -/
example : WF dangling = false ∧ illRun liteEnv 10 dangling (.obj []) (.obj []) = true := by decide
/-- … duplicate names across nesting levels and an empty `Branches` are refused -/
example : lint dupNames = [.duplicateNames] := by decide
example : WF emptyBranches = false := by decide
/-- … and so is a branch whose only state is named by the empty string (what the engine fails as an Illegal State
Machine although every transition target is defined) -/
def emptyName : Json := .obj [(S "StartAt", .str (S "P")), (S "States", .obj [(S "P", .obj [(S "Type", .str (S "Parallel")),
  (S "End", .bool true), (S "Branches", .arr [.obj [(S "StartAt", .str []), (S "States", .obj [([], .obj [(S "Type", .str (S "Pass")), (S "End", .bool true)])])]])])])]
example : WF emptyName = false ∧ namesOk emptyName = false ∧ wfBranch emptyName.size emptyName = true := by decide
/-- `decode_total` on values that are no definitions at all -/
example : lint (.num 3) = [.notAnObject] ∧ lint (.arr []) = [.notAnObject] ∧ lint (.obj []) = [.noStates] := by decide
/-- hypotheses of `site_a` / `site_c`: a scope without the name; a state with an unknown Type -/
example : objGet [(S "A", P none)] (S "B") = none := by decide
example : stateType (.obj [(S "Type", .str (S "Foo"))]) ∉ knownTypes := by decide

end Asl.C18
