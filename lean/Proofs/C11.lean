/-
C11 — all observability surfaces tell the same story about an execution.
-/
import AslModel.Notify
import AslModel.History
import Proofs.C02
namespace Asl.C11
open Asl

/-- the notification detail reports the record's status, input, output, error and cause -/
theorem surfaces_agree (r : ExecRec) :
    (detailOf r).status = r.status ∧ (detailOf r).input = r.input ∧ (detailOf r).output = r.output ∧
    (detailOf r).error = r.error ∧ (detailOf r).cause = r.cause ∧ (detailOf r).executionArn = r.executionArn ∧
    (detailOf r).stateMachineArn = r.stateMachineArn := by
  simp [detailOf]

/-- dates are published in whole milliseconds: ⌊seconds·1000⌋, i.e. within one millisecond below the
stored instant -/
theorem ms_conversion (r : ExecRec) :
    (detailOf r).startMs * 1000 ≤ r.startMicros ∧ r.startMicros < ((detailOf r).startMs + 1) * 1000 := by
  simp only [detailOf, toMs]
  constructor
  · exact Int.ediv_mul_le _ (by decide)
  · have := Int.lt_ediv_add_one_mul_self r.startMicros (show (0 : Int) < 1000 by decide)
    simpa using this

theorem ms_conversion_stop (r : ExecRec) (s : Int) (h : r.stopMicros = some s) :
    ∃ m, (detailOf r).stopMs = some m ∧ m * 1000 ≤ s ∧ s < (m + 1) * 1000 := by
  refine ⟨toMs s, by simp [detailOf, h], ?_, ?_⟩
  · exact Int.ediv_mul_le _ (by decide)
  · have := Int.lt_ediv_add_one_mul_self s (show (0 : Int) < 1000 by decide)
    simpa [toMs] using this

/-- stopDate is published iff it is stored -/
theorem stop_iff (r : ExecRec) : (detailOf r).stopMs.isSome = r.stopMicros.isSome := by
  cases h : r.stopMicros <;> simp [detailOf, h]

/-- publishing a status change does not alter the stored record (which keeps its own units) -/
theorem publish_does_not_alter_record (r : ExecRec) : (publish r).2 = r := rfl

/-- the subject is `<stateMachineArn>.<status>` -/
theorem subject_shape (r : ExecRec) : (publish r).1.1 = r.stateMachineArn ++ ('.' :: r.status) := rfl

/-- each status change is published exactly once: with C02's lifecycle the statuses published for
one execution are pairwise distinct -/
theorem each_status_published_once (is : List LInput) : (Life.run is).notes.Nodup := by
  have h := C02.shape_run is
  unfold C02.Shape at h
  cases hp : (Life.run is).phase with
  | new => rw [hp] at h; simp [h]
  | running => rw [hp] at h; simp [h]
  | done ok => rw [hp] at h; cases ok <;> simp [h, statusName] <;> decide

/-! non-vacuity -/
private def r0 : ExecRec :=
  { executionArn := S "arn:e", stateMachineArn := S "arn:m", name := S "e", status := S "SUCCEEDED",
    input := some (S "i"), output := some (S "1"), error := none, cause := none,
    startMicros := 1700000000123456, stopMicros := some 1700000005999999 }
example : (detailOf r0).startMs = 1700000000123 ∧ (detailOf r0).stopMs = some 1700000005999 := by
  constructor <;> rfl
example : (publish r0).1.1 = S "arn:m.SUCCEEDED" := by decide

end Asl.C11
