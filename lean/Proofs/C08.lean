/-
C08 — waits and timeouts fire at the right instant, never early.
(The RFC 3339 theorems — parse ∘ print = id for every legal notation, and the offset law
`instant ts = instant {ts with off := 0} − 60·10⁶·off` for all offsets — are proved in
Proofs/Lemmas/Timestamp.lean and re-exported here.)
-/
import AslModel.Timers
import Proofs.Lemmas.Timestamp
namespace Asl.C08
open Asl

/-- every legal notation parses back to the record it prints -/
theorem parse_print_rfc3339 (t : Ts) (h : t.ok = true) : parseTs (printTs t) = some t :=
  TsLemmas.parse_print_rfc3339 t h

/-- every offset notation denotes its true instant -/
theorem instant_offset (t : Ts) :
    t.instant = ({ t with off := 0 } : Ts).instant - 60 * 10 ^ 6 * t.off := TsLemmas.instant_offset t

/-- never early: a wait armed at `now` for `target` fires at or after `target`, whenever its event
is delivered (late delivery, redelivery: any `now`) -/
theorem wait_not_early (target now : Int) : target ≤ fireAt target now := by
  unfold fireAt clampDelay; split <;> omega

/-- on time: delivered before the target it fires exactly at the target; delivered late it fires at
once -/
theorem wait_on_time (target now : Int) : fireAt target now = max target now := by
  unfold fireAt clampDelay; split <;> omega

/-- the deadline in force is the earlier of the execution's and the state's -/
theorem deadline_is_min (e s now : Int) :
    fireAt (effectiveDeadline e s) now = min (fireAt e now) (fireAt s now) := by
  unfold fireAt clampDelay effectiveDeadline
  split <;> split <;> split <;> omega

/-- the execution deadline wins exactly when it comes strictly first -/
theorem exec_timeout_wins_iff (e s now : Int) :
    execTimeoutWins e s now = true ↔ clampDelay e now < clampDelay s now := by
  simp [execTimeoutWins]

def firedIds (s : TimerSt) : List Nat := s.fired.map (·.1)

theorem step_armed_ids (s : TimerSt) (op : TOp) (i : Nat) (h : ∀ x ∈ s.armed, x.id ≠ i)
    (hop : ∀ d, op ≠ .set i d) : ∀ x ∈ (s.step op).armed, x.id ≠ i := by
  cases op with
  | set j d =>
    intro x hx
    simp only [TimerSt.step, List.mem_cons, List.mem_filter] at hx
    rcases hx with rfl | ⟨hx, _⟩
    · intro hji; exact hop d (by simp at hji; rw [hji])
    · exact h x hx
  | clear j =>
    intro x hx
    simp only [TimerSt.step, List.mem_filter] at hx
    exact h x hx.1
  | advance t =>
    intro x hx
    simp only [TimerSt.step, List.mem_filter] at hx
    exact h x hx.1

theorem step_fired_new (s : TimerSt) (op : TOp) (i : Nat) (h : ∀ x ∈ s.armed, x.id ≠ i) :
    (firedIds (s.step op)).count i = (firedIds s).count i := by
  cases op with
  | set j d => simp [TimerSt.step, firedIds]
  | clear j => simp [TimerSt.step, firedIds]
  | advance t =>
    simp only [TimerSt.step, firedIds, List.map_append, List.map_map, List.count_append]
    have : List.count i (List.map ((fun x => x.1) ∘ fun x => (x.id, max x.deadline s.now))
        (List.filter (fun x => decide (x.deadline ≤ max t s.now)) s.armed)) = 0 := by
      rw [List.count_eq_zero]
      intro hm
      obtain ⟨x, hx, hxi⟩ := List.mem_map.mp hm
      simp only [List.mem_filter] at hx
      exact h x hx.1 (by simpa using hxi)
    omega

/-- a cleared (cancelled) timer never fires: after `clear i`, whatever happens next — as long as
nobody arms `i` again — the number of times `i` has fired does not change -/
theorem cleared_timer_never_fires (s : TimerSt) (i : Nat) (ops : List TOp)
    (hops : ∀ op ∈ ops, ∀ d, op ≠ .set i d) :
    (firedIds (ops.foldl TimerSt.step (s.step (.clear i)))).count i = (firedIds s).count i := by
  have hclear : ∀ x ∈ (s.step (.clear i)).armed, x.id ≠ i := by
    intro x hx
    simp only [TimerSt.step, List.mem_filter, bne_iff_ne, ne_eq] at hx
    exact hx.2
  have hf0 : (firedIds (s.step (.clear i))).count i = (firedIds s).count i := by simp [TimerSt.step, firedIds]
  rw [← hf0]
  generalize s.step (.clear i) = s1 at hclear
  induction ops generalizing s1 with
  | nil => rfl
  | cons op ops ih =>
    simp only [List.foldl_cons]
    have h1 := step_armed_ids s1 op i hclear (hops op (by simp))
    rw [ih (fun o ho => hops o (by simp [ho])) (s1.step op) h1]
    exact step_fired_new s1 op i hclear

/-- a superseded timer never fires: arming `i` again replaces the old deadline, at most one timer
per id is ever armed -/
theorem superseded_single (s : TimerSt) (i : Nat) (d : Int) :
    ((s.step (.set i d)).armed.filter (·.id == i)).length = 1 := by
  simp only [TimerSt.step, List.filter_cons, beq_self_eq_true, if_true, List.length_cons]
  have : List.filter (fun x => x.id == i) (List.filter (fun x => x.id != i) s.armed) = [] := by
    rw [List.filter_eq_nil_iff]
    intro x hx
    simp only [List.mem_filter, bne_iff_ne, ne_eq] at hx
    simp [hx.2]
  simp [this]

/-- whatever fires, fires at or after its deadline -/
theorem fires_not_early (s : TimerSt) (t : Int) (p : Nat × Int)
    (hp : p ∈ (s.step (.advance t)).fired) (hold : p ∉ s.fired) :
    ∃ x ∈ s.armed, x.id = p.1 ∧ x.deadline ≤ p.2 := by
  simp only [TimerSt.step, List.mem_append, List.mem_map, List.mem_filter] at hp
  rcases hp with h | ⟨x, ⟨hx, _⟩, rfl⟩
  · exact absurd h hold
  · exact ⟨x, hx, rfl, by simp; omega⟩

/-! non-vacuity -/
example : (TimerSt.run [.set 1 100, .set 2 50, .clear 2, .advance 60, .set 1 200, .advance 150, .advance 250]).fired
    = [(1, 200)] := by decide
example : fireAt 5000 7000 = 7000 ∧ fireAt 5000 1000 = 5000 := by decide

end Asl.C08
