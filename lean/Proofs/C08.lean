/-
C08 — waits and timeouts fire at the right instant, never early.
(The RFC 3339 theorems — parse ∘ print = id for every legal notation, and the offset law
`instant ts = instant {ts with off := 0} − 60·10⁶·off` for all offsets — are proved in
Proofs/Lemmas/Timestamp.lean and re-exported here.)
-/
import AslModel.Timers
import AslModel.Lite
import Proofs.Lemmas.Timestamp
import Proofs.Lemmas.Log
import Proofs.Lemmas.FuelMono
import Proofs.Lemmas.Deadline
namespace Asl.C08
open Asl

/-- every legal notation parses back to the record it prints -/
theorem parse_print_rfc3339 (t : Ts) (h : t.ok = true) : parseTs (printTs t) = some t :=
  TsLemmas.parse_print_rfc3339 t h

/-- every offset notation denotes its true instant -/
theorem instant_offset (t : Ts) :
    t.instant = ({ t with off := 0 } : Ts).instant - 60 * 10 ^ 6 * t.off := TsLemmas.instant_offset t

/-- never early: a wait armed at `now` for `target` fires at or after `target`, whenever its event
is delivered (late delivery, redelivery: any `now`) -/
theorem wait_not_early (target now : Int) : target ≤ fireAt target now := by
  unfold fireAt clampDelay; split <;> omega

/-- on time: delivered before the target it fires exactly at the target; delivered late it fires at
once -/
theorem wait_on_time (target now : Int) : fireAt target now = max target now := by
  unfold fireAt clampDelay; split <;> omega

/-- the deadline in force is the earlier of the execution's and the state's -/
theorem deadline_is_min (e s now : Int) :
    fireAt (effectiveDeadline e s) now = min (fireAt e now) (fireAt s now) := by
  unfold fireAt clampDelay effectiveDeadline
  split <;> split <;> split <;> omega

/-- the execution deadline wins exactly when it comes strictly first -/
theorem exec_timeout_wins_iff (e s now : Int) :
    execTimeoutWins e s now = true ↔ clampDelay e now < clampDelay s now := by
  simp [execTimeoutWins]

def firedIds (s : TimerSt) : List Nat := s.fired.map (·.1)

theorem step_armed_ids (s : TimerSt) (op : TOp) (i : Nat) (h : ∀ x ∈ s.armed, x.id ≠ i)
    (hop : ∀ d, op ≠ .set i d) : ∀ x ∈ (s.step op).armed, x.id ≠ i := by
  cases op with
  | set j d =>
    intro x hx
    simp only [TimerSt.step, List.mem_cons, List.mem_filter] at hx
    rcases hx with rfl | ⟨hx, _⟩
    · intro hji; exact hop d (by simp at hji; rw [hji])
    · exact h x hx
  | clear j =>
    intro x hx
    simp only [TimerSt.step, List.mem_filter] at hx
    exact h x hx.1
  | advance t =>
    intro x hx
    simp only [TimerSt.step, List.mem_filter] at hx
    exact h x hx.1

theorem step_fired_new (s : TimerSt) (op : TOp) (i : Nat) (h : ∀ x ∈ s.armed, x.id ≠ i) :
    (firedIds (s.step op)).count i = (firedIds s).count i := by
  cases op with
  | set j d => simp [TimerSt.step, firedIds]
  | clear j => simp [TimerSt.step, firedIds]
  | advance t =>
    simp only [TimerSt.step, firedIds, List.map_append, List.map_map, List.count_append]
    have : List.count i (List.map ((fun x => x.1) ∘ fun x => (x.id, max x.deadline s.now))
        (List.filter (fun x => decide (x.deadline ≤ max t s.now)) s.armed)) = 0 := by
      rw [List.count_eq_zero]
      intro hm
      obtain ⟨x, hx, hxi⟩ := List.mem_map.mp hm
      simp only [List.mem_filter] at hx
      exact h x hx.1 (by simpa using hxi)
    omega

/-- a cleared (cancelled) timer never fires: after `clear i`, whatever happens next — as long as
nobody arms `i` again — the number of times `i` has fired does not change -/
theorem cleared_timer_never_fires (s : TimerSt) (i : Nat) (ops : List TOp)
    (hops : ∀ op ∈ ops, ∀ d, op ≠ .set i d) :
    (firedIds (ops.foldl TimerSt.step (s.step (.clear i)))).count i = (firedIds s).count i := by
  have hclear : ∀ x ∈ (s.step (.clear i)).armed, x.id ≠ i := by
    intro x hx
    simp only [TimerSt.step, List.mem_filter, bne_iff_ne, ne_eq] at hx
    exact hx.2
  have hf0 : (firedIds (s.step (.clear i))).count i = (firedIds s).count i := by simp [TimerSt.step, firedIds]
  rw [← hf0]
  generalize s.step (.clear i) = s1 at hclear
  induction ops generalizing s1 with
  | nil => rfl
  | cons op ops ih =>
    simp only [List.foldl_cons]
    have h1 := step_armed_ids s1 op i hclear (hops op (by simp))
    rw [ih (fun o ho => hops o (by simp [ho])) (s1.step op) h1]
    exact step_fired_new s1 op i hclear

/-- a superseded timer never fires: arming `i` again replaces the old deadline, at most one timer
per id is ever armed -/
theorem superseded_single (s : TimerSt) (i : Nat) (d : Int) :
    ((s.step (.set i d)).armed.filter (·.id == i)).length = 1 := by
  simp only [TimerSt.step, List.filter_cons, beq_self_eq_true, if_true, List.length_cons]
  have : List.filter (fun x => x.id == i) (List.filter (fun x => x.id != i) s.armed) = [] := by
    rw [List.filter_eq_nil_iff]
    intro x hx
    simp only [List.mem_filter, bne_iff_ne, ne_eq] at hx
    simp [hx.2]
  simp [this]

/-- whatever fires, fires at or after its deadline -/
theorem fires_not_early (s : TimerSt) (t : Int) (p : Nat × Int)
    (hp : p ∈ (s.step (.advance t)).fired) (hold : p ∉ s.fired) :
    ∃ x ∈ s.armed, x.id = p.1 ∧ x.deadline ≤ p.2 := by
  simp only [TimerSt.step, List.mem_append, List.mem_map, List.mem_filter] at hp
  rcases hp with h | ⟨x, ⟨hx, _⟩, rfl⟩
  · exact absurd h hold
  · exact ⟨x, hx, rfl, by simp; omega⟩

/-! ### the timed reference semantics (`St.clock`, `St.times`: milliseconds since the start event)

Handling an event takes no time; time passes while a worker works, a Wait state waits, a Retrier's interval
runs, a Task's `TimeoutSeconds` runs out; the branches of a fan-out all start at the fan-out's instant. -/

/-- no time passes backwards -/
theorem rmax_of_le {a b : Rat} (h : a ≤ b) : rmax a b = b := by simp [rmax, h]

theorem add_nonneg_ge (c x : Rat) (h : 0 ≤ x) : c ≤ c + x := by
  have := (Rat.add_le_add_left (c := c)).mpr h
  simpa [Rat.add_zero] using this

/-- (i) for every machine, input, oracle and fuel, from every state of every scope: the clock never goes
back, and every event a run files is stamped with an instant that is not before the clock it started
from (one instant per event: the `times` grow in step with the `log`) -/
theorem clock_monotone (env : Env) (fuel : Nat) (states : Json) (name : Str) (data ctx : Json) (r : Nat) (st : St) :
    st.clock ≤ (runFrom env fuel states name data ctx r st).2.clock ∧
    ∃ evs ts, (runFrom env fuel states name data ctx r st).2.log = evs ++ st.log ∧
      (runFrom env fuel states name data ctx r st).2.times = ts ++ st.times ∧ ts.length = evs.length ∧
      ∀ t ∈ ts, st.clock ≤ t := by
  obtain ⟨evs, ts, hl, _, _, _, hm, hn, hg, hc⟩ := (growsAll env fuel).runFrom states name data ctx r st
  exact ⟨hc, evs, ts, hl, hm, hn, hg⟩

/-- … the same for the branches of a Parallel state and the iterations of a Map state taken together -/
theorem clock_monotone_fanout (env : Env) (fuel : Nat) (bs : List Json) (params ctx : Json) (st : St)
    (proc : Json) (sel : Option Json) (input : Json) (items : List Json) (i mc : Nat) (be : Rat) (bad : Bool) :
    st.clock ≤ (runBranches env fuel bs params ctx st).2.clock ∧
    st.clock ≤ (runItems env fuel proc sel input items i mc be ctx bad st).2.clock :=
  ⟨((growsAll env fuel).runBranches bs params ctx st).clock_le,
   ((growsAll env fuel).runItems proc sel input items i mc be ctx bad st).clock_le⟩

/-- … and of the whole predicted history: every event has its instant, none is negative, and the
instant the run ended is not before the start -/
theorem history_instants (env : Env) (fuel : Nat) (asl input ctx : Json) :
    (run env fuel asl input ctx).times.length = (run env fuel asl input ctx).history.length ∧
    (∀ t ∈ (run env fuel asl input ctx).times, 0 ≤ t) ∧ 0 ≤ (run env fuel asl input ctx).endTime := by
  have G : Grows {} (runCore env fuel asl input ctx).2 := by
    unfold runCore
    split
    · exact (growsAll (env.forMachine asl) fuel).runFrom _ _ _ _ _ _
    · exact Grows.refl _
  obtain ⟨evs, ts, hl, _, _, _, hm, hn, hg, hc⟩ := G
  have hl' : (runCore env fuel asl input ctx).2.log = evs := by simpa using hl
  have hm' : (runCore env fuel asl input ctx).2.times = ts := by simpa using hm
  have hc' : (0 : Rat) ≤ (runCore env fuel asl input ctx).2.clock := hc
  have hg' : ∀ t ∈ ts, (0 : Rat) ≤ t := hg
  refine ⟨?_, ?_, hc'⟩
  · simp only [run, Outcome.ofRun, timesOf, historyOf, hl', hm', List.length_cons, List.length_append,
      List.length_reverse, hn]
    cases terminalOf (runCore env fuel asl input ctx).1 <;> simp
  · intro t ht
    simp only [run, Outcome.ofRun, timesOf, hm', List.mem_cons, List.mem_append, List.mem_reverse] at ht
    rcases ht with h | h | h
    · rw [h]; exact Rat.le_refl
    · exact hg' t h
    · cases hT : terminalOf (runCore env fuel asl input ctx).1 with
      | none => simp [hT] at h
      | some x => simp [hT] at h; rw [h]; exact hc'

/-- (ii) a Wait state is over at its target instant — `Seconds` / `SecondsPath` after it was entered, or the
`Timestamp` / `TimestampPath` instant — and never before it: it goes on (OutputPath, then Next / End) at
max(target, the instant it was entered).  (`hD`: the execution's time limit, if there is one, is later than that
instant; otherwise see `execution_timeout_exact_wait`.) -/
theorem wait_state_not_early (env : Env) (fuel : Nat) (states : Json) (name : Str) (state data ctx input out : Json)
    (target : Rat) (retries : Nat) (st : St)
    (h : stateType state = S "Wait")
    (hi : applyPath data ctx (pathArg state "InputPath") = .ok input)
    (ht : waitTarget env state input ctx st.clock = .ok target)
    (hD : execCut env.deadline (rmax st.clock target) = none)
    (ho : applyPath input ctx (pathArg state "OutputPath") = .ok out) :
    runState env (fuel + 1) states name state data ctx retries st =
      leave env fuel states name state data out ctx retries (st.closeKeep.waitUntil target) ∧
    (st.closeKeep.waitUntil target).clock = rmax st.clock target ∧
    target ≤ (st.closeKeep.waitUntil target).clock ∧ st.clock ≤ (st.closeKeep.waitUntil target).clock := by
  have h1 : (S "Wait" = S "Pass") = False := by decide
  have h2 : (S "Wait" = S "Succeed") = False := by decide
  have h3 : (S "Wait" = S "Fail") = False := by decide
  exact ⟨by simp [runState, h, h1, h2, h3, hi, ht, hD, ho], rfl, le_rmax_right _ _, le_rmax_left _ _⟩

/-- … so the `WaitStateExited` event of a Wait state that ends its scope carries exactly that instant -/
theorem wait_exit_instant (env : Env) (fuel : Nat) (states : Json) (name : Str) (state data ctx input out : Json)
    (target : Rat) (retries : Nat) (st : St)
    (h : stateType state = S "Wait")
    (hi : applyPath data ctx (pathArg state "InputPath") = .ok input)
    (ht : waitTarget env state input ctx st.clock = .ok target)
    (hD : execCut env.deadline (rmax st.clock target) = none)
    (ho : applyPath input ctx (pathArg state "OutputPath") = .ok out)
    (hE : isTrue (fld state "End") = true) (hL : (render out).length ≤ env.maxData) :
    (runState env (fuel + 2) states name state data ctx retries st).2.log = .exited (S "Wait") name out :: st.log ∧
    (runState env (fuel + 2) states name state data ctx retries st).2.times = rmax st.clock target :: st.times := by
  have hw := (wait_state_not_early env (fuel + 1) states name state data ctx input out target retries st h hi ht hD ho).1
  have : ¬ (render out).length > env.maxData := by omega
  rw [hw]
  simp [leave, hE, this, St.exit, St.waitUntil, h]

/-- `Seconds: n` on a Wait state entered at `t`: the target is `t + 1000 n` ms -/
theorem wait_seconds_target (env : Env) (state input ctx : Json) (entered : Rat) (n : Int)
    (hs : fld state "Seconds" = some (.num n)) (hn : n ≠ 0) :
    waitTarget env state input ctx entered = .ok (entered + (n : Rat) * 1000) := by
  have : isTrue (fld state "Seconds") = true := by simp [hs, isTrue, Json.truthy, hn]
  rw [hs] at this
  unfold waitTarget
  simp only [hs, this, if_true, Option.getD_some]

/-- the Task's own deadline: `TimeoutSeconds: n` (no `TimeoutSecondsPath`) is `n` seconds after the entry … -/
theorem own_deadline_seconds (state data ctx : Json) (entered : Rat) (n : Int)
    (hnp : isTrue (fld state "TimeoutSecondsPath") = false) (hT : fld state "TimeoutSeconds" = some (.num n)) :
    taskOwnDeadline state data ctx entered = .ok (some (entered + (n : Rat) * 1000)) := by
  simp [taskOwnDeadline, hnp, taskDeadline, hT]

/-- … `TimeoutSecondsPath: p` selecting the integer `n` in the state's **raw input** likewise (whatever
`TimeoutSeconds` says), `true` counts as 1, any other value as 0 seconds, and a path that matches nothing is the
runtime error -/
theorem own_deadline_path (state data ctx : Json) (entered : Rat) (p : Str) (hne : p ≠ [])
    (hP : fld state "TimeoutSecondsPath" = some (.str p)) :
    (∀ n : Int, applyPath data ctx (some p) = .ok (.num n) →
      taskOwnDeadline state data ctx entered = .ok (some (entered + (n : Rat) * 1000))) ∧
    (applyPath data ctx (some p) = .ok (.bool true) → taskOwnDeadline state data ctx entered = .ok (some (entered + 1000))) ∧
    (∀ v, applyPath data ctx (some p) = .ok v → (∀ n : Int, v ≠ .num n) → v ≠ .bool true →
      taskOwnDeadline state data ctx entered = .ok (some entered)) ∧
    (∀ e, applyPath data ctx (some p) = .error e → taskOwnDeadline state data ctx entered = .error e) := by
  have ht : isTrue (fld state "TimeoutSecondsPath") = true := by
    cases p with
    | nil => exact absurd rfl hne
    | cons c cs => simp [hP, isTrue, Json.truthy]
  have hs : fldStr state "TimeoutSecondsPath" = some p := by
    unfold fldStr; unfold fld at hP; rw [hP]
  refine ⟨fun n hv => by simp [taskOwnDeadline, ht, hs, hv], fun hv => by simp [taskOwnDeadline, ht, hs, hv],
    fun v hv h1 h2 => ?_, fun e hv => by simp [taskOwnDeadline, ht, hs, hv]⟩
  cases v with
  | num n => exact absurd rfl (h1 n)
  | bool b => cases b with
    | true => exact absurd rfl h2
    | false => simp [taskOwnDeadline, ht, hs, hv]
  | null => simp [taskOwnDeadline, ht, hs, hv]
  | str x => simp [taskOwnDeadline, ht, hs, hv]
  | arr x => simp [taskOwnDeadline, ht, hs, hv]
  | obj x => simp [taskOwnDeadline, ht, hs, hv]

/-- (iii) a Task whose own deadline is `n` seconds after the instant this attempt was entered (`hown`: by
`TimeoutSeconds` or `TimeoutSecondsPath`, see `own_deadline_seconds` / `own_deadline_path`) and whose worker does not
answer strictly before it fails with `States.Timeout` (handed to its Retry / Catch
like any error), and `LambdaFunctionTimedOut` is filed at the deadline exactly: `n` seconds after the request.
(`hD`: the execution's time limit, if there is one, is later than the Task's deadline; the other cases:
`task_deadline_is_min`, `execution_timeout_exact_task`.) -/
theorem task_timeout_exact (env : Env) (fuel : Nat) (states : Json) (name fn : Str)
    (state data ctx input params : Json) (retries : Nat) (st : St) (n : Int)
    (h : stateType state = S "Task")
    (hr : rpcFunction ((fldStr state "Resource").getD []) = some fn)
    (hi : applyPath data ctx (pathArg state "InputPath") = .ok input)
    (hp : tmplOpt env input ctx (fld state "Parameters") = .ok params)
    (hown : taskOwnDeadline state data ctx st.clock = .ok (some (st.clock + (n : Rat) * 1000))) (hn : 0 ≤ (n : Rat) * 1000)
    (hD : ∀ dl, env.deadline = some dl → st.clock + (n : Rat) * 1000 < dl)
    (hlate : ∀ d, env.delay fn params (bump st.counts (fn, params)).1 = some d →
      ¬ st.clock + d < st.clock + (n : Rat) * 1000) :
    runState env (fuel + 1) states name state data ctx retries st =
      handleErr env fuel states name state data ctx retries (S "States.Timeout") (S "m")
        ((st.closeKeep.request true).taskCall (bump st.counts (fn, params)).2 ((fldStr state "Resource").getD []) params .lambdaTimedOut
          (st.clock + (n : Rat) * 1000)) ∧
    ((st.closeKeep.request true).taskCall (bump st.counts (fn, params)).2 ((fldStr state "Resource").getD []) params .lambdaTimedOut
        (st.clock + (n : Rat) * 1000)).times = (st.clock + (n : Rat) * 1000) :: st.clock :: st.times ∧
    ((st.closeKeep.request true).taskCall (bump st.counts (fn, params)).2 ((fldStr state "Resource").getD []) params .lambdaTimedOut
        (st.clock + (n : Rat) * 1000)).clock = st.clock + (n : Rat) * 1000 := by
  have h1 : (S "Task" = S "Pass") = False := by decide
  have h2 : (S "Task" = S "Succeed") = False := by decide
  have h3 : (S "Task" = S "Fail") = False := by decide
  have h4 : (S "Task" = S "Wait") = False := by decide
  have h5 : (S "Task" = S "Choice") = False := by decide
  have hm : rmax st.clock (st.clock + (n : Rat) * 1000) = st.clock + (n : Rat) * 1000 :=
    rmax_of_le (add_nonneg_ge _ _ hn)
  have hlim : taskLimit (some (st.clock + (n : Rat) * 1000)) env.deadline st.clock =
      some { t := st.clock + (n : Rat) * 1000, task := true, exec := false } := by
    cases hdl : env.deadline with
    | none => simp [taskLimit, hm]
    | some dl =>
      have h1 := hD dl hdl
      have h2 : rmax st.clock dl = dl := rmax_of_le (by grind)
      have h3 : ¬ dl < st.clock + (n : Rat) * 1000 := by grind
      simp [taskLimit, hm, h2, h1, h3]
  have ha : taskArrival (env.delay fn params (bump st.counts (fn, params)).1)
      (some (st.clock + (n : Rat) * 1000)) st.clock
      = some (st.clock + (n : Rat) * 1000, true) := by
    cases hdl : env.delay fn params (bump st.counts (fn, params)).1 with
    | none => simp [taskArrival]
    | some d => simp [taskArrival, hlate d hdl]
  refine ⟨by simp [runState, h, h1, h2, h3, h4, h5, hr, hi, hp, hown, ha, hlim, taskOutcome, taskEv], ?_, ?_⟩
  · simp [St.taskCall, St.push, St.waitUntil, hm]
  · simp [St.taskCall, St.push, St.waitUntil, hm]

/-- … and a worker that answers strictly before the deadline (after `d` ms) is heard at `d` ms after the request -/
theorem task_reply_instant (delay deadline : Rat) (now : Rat) (h : now + delay < deadline) :
    taskArrival (some delay) (some deadline) now = some (now + delay, false) ∧
    taskArrival (some delay) none now = some (now + delay, false) := by
  simp [taskArrival, h]

/-- (iv) a retried state is re-run exactly the Retrier's delay — `IntervalSeconds × BackoffRate^k` for the k-th
retry (C07.kth_retry_delay) — after the failure (`hD`: that instant is before the execution's time limit, if there
is one: `Env.retryCut`; otherwise see `execution_timeout_exact_retry`) -/
theorem retry_delay_exact (env : Env) (fuel : Nat) (states : Json) (name : Str) (state data ctx : Json)
    (retries : Nat) (e msg : Str) (st : St) (d : Rat) (k : Nat)
    (h : decideError ((listOf (fld state "Retry")).map retrierOf) ((listOf (fld state "Catch")).map catcherOf) e retries = .retry d k)
    (hd : 0 ≤ d * 1000)
    (hD : env.retryCut (st.retryAfter name d).clock = none) :
    handleErr env (fuel + 1) states name state data ctx retries e msg st =
      runFrom env fuel states name data ctx k (st.retryAfter name d) ∧
    (st.retryAfter name d).clock = st.clock + d * 1000 ∧
    (st.retryAfter name d).log = st.log := by
  refine ⟨by simp only [handleErr, h, hD], ?_, rfl⟩
  simp [St.after, St.waitUntil, rmax_of_le (add_nonneg_ge _ _ hd)]

/-- (v) the join of a fan-out all of whose branches succeed is at the latest instant a branch ended: one more
branch in front moves it to the max of that branch's end and the join of the others (which all start at the
instant the fan-out is at) -/
theorem join_time_is_max (env : Env) (fuel : Nat) (b : Json) (bs : List Json) (params ctx : Json) (st s1 s2 : St)
    (start : Str) (states v : Json) (vs : List Json)
    (hs : fldStr b "StartAt" = some start) (hst : fld b "States" = some states)
    (hr : runFrom env fuel states start params ctx 0 st.startBranch = (.done v, s1))
    (hrest : runBranches env fuel bs params ctx ((s1.endBranch false).at st.clock) = (.ok vs, s2)) :
    runBranches env (fuel + 1) (b :: bs) params ctx st = (.ok (v :: vs), s2.at (rmax s1.clock s2.clock)) ∧
    s1.clock ≤ rmax s1.clock s2.clock ∧ s2.clock ≤ rmax s1.clock s2.clock ∧ st.clock ≤ s1.clock := by
  refine ⟨by simp [runBranches, hs, hst, hr, hrest, fanCombine, isFailed], le_rmax_left _ _, le_rmax_right _ _, ?_⟩
  have := ((growsAll env fuel).runFrom states start params ctx 0 st.startBranch).clock_le
  rw [hr] at this
  exact this

/-- … no branches: the join is at once -/
theorem join_time_no_branches (env : Env) (fuel : Nat) (params ctx : Json) (st : St) :
    runBranches env (fuel + 1) [] params ctx st = (.ok [], st) := by simp [runBranches]

/-- … and a fan-out one of whose branches fails, fails at the instant of the earliest failure, with that
branch's error: this branch failed at `t1`, the others at a later instant -/
theorem earliest_failure_wins (e e' : Str) (c c' : Option Json) (f f' : Bool) (t1 : Rat) (st2 : St) (tOk : Rat) :
    (t1 < st2.clock → fanCombine (.failed e c f) t1 (.error (.failed e' c' f')) st2 tOk =
      (.error (.failed e c f), { st2 with multiFail := true, clock := t1 })) ∧
    (st2.clock < t1 → fanCombine (.failed e c f) t1 (.error (.failed e' c' f')) st2 tOk =
      (.error (.failed e' c' f'), { st2 with multiFail := true })) := by
  constructor
  · intro h; simp [fanCombine, h]
  · intro h
    have : ¬ t1 < st2.clock := Rat.not_lt.mpr (Rat.le_of_lt h)
    simp [fanCombine, h, this]

/-- (vi) the instants, like the whole outcome, do not depend on the fuel -/
theorem instants_fuel_independent (env : Env) (n m : Nat) (h : n ≤ m) (asl input ctx : Json)
    (hs : (run env n asl input ctx).status ≠ S "FUEL") :
    (run env m asl input ctx).times = (run env n asl input ctx).times ∧
    (run env m asl input ctx).endTime = (run env n asl input ctx).endTime ∧
    (run env m asl input ctx).history = (run env n asl input ctx).history := by
  rw [Asl.run_fuel_independent env n m h asl input ctx hs]
  exact ⟨rfl, rfl, rfl⟩

/-! ### the execution's time limit (the machine's top-level `TimeoutSeconds`)

`Asl.run` takes the limit from the definition (`Env.forMachine`): `Env.deadline` is the instant `start +
TimeoutSeconds` on the run's clock.  A Task or Wait that would go on until that instant or beyond fails the execution
there with `States.Timeout` (internally `States.ExecutionTimeout`, which `handle_error` treats as unrecoverable);
states that take no time do not look at it.  The theorems hold for every machine, input, oracle, environment and
fuel; those about whole runs are stated for the switch of the open finding C08-F1 off (`Env.retryPastDeadline =
false`: a Retrier's interval is cut at the limit too), which is the property's reading — the code's deviation is
`late_retry_breaks_no_event_after_deadline`. -/

/-- (vii) the time limit in force for a task invocation made at `now` is the earlier of the Task's own deadline `o`
(entry + `TimeoutSeconds`) and the execution's `d`, both not before `now`; when the execution's comes first **or at
the same instant** the time-out is the execution's (`exec`), and `LambdaFunctionTimedOut` is filed exactly when the
Task's own is not later (`task`).  With only one of the two, that one; with neither, none. -/
theorem task_deadline_is_min (o d now : Rat) :
    (∃ l, taskLimit (some o) (some d) now = some l ∧
      l.t = (if rmax now d ≤ rmax now o then rmax now d else rmax now o) ∧
      l.t ≤ rmax now d ∧ l.t ≤ rmax now o ∧
      (l.exec = true ↔ rmax now d ≤ rmax now o) ∧ (l.task = true ↔ rmax now o ≤ rmax now d)) ∧
    taskLimit (some o) none now = some { t := rmax now o, task := true, exec := false } ∧
    taskLimit none (some d) now = some { t := rmax now d, task := false, exec := true } ∧
    taskLimit none none now = none := by
  refine ⟨?_, rfl, rfl, rfl⟩
  unfold taskLimit
  simp only
  split
  · rename_i h
    refine ⟨_, rfl, ?_, Rat.le_refl, Rat.le_of_lt h, ?_, ?_⟩
    · simp [Rat.le_of_lt h]
    · simp [Rat.le_of_lt h]
    · simp [Rat.not_le.mpr h]
  · split
    · rename_i h1 h
      refine ⟨_, rfl, ?_, Rat.le_of_lt h, Rat.le_refl, ?_, ?_⟩
      · simp [Rat.not_le.mpr h]
      · simp [Rat.not_le.mpr h]
      · simp [Rat.le_of_lt h]
    · rename_i h1 h2
      have e : rmax now o = rmax now d := Rat.le_antisymm (Rat.not_lt.mp h1) (Rat.not_lt.mp h2)
      refine ⟨_, rfl, ?_, by rw [e]; exact Rat.le_refl, Rat.le_refl, ?_, ?_⟩
      · simp [e, Rat.le_refl]
      · simp [e, Rat.le_refl]
      · simp [e, Rat.le_refl]

/-- (viii) the instant: whichever pending state runs into the execution's deadline `D` — a Wait whose end
(`max(target, now)`), a Task whose limit in force, a Retrier's interval whose end is not before `D` — entered / decided at
an instant `now ≤ D`, the instant at which it is cut is `D` exactly (the three cases below tie this to the interpreter:
`execution_timeout_exact_wait` / `_task` / `_retry`) -/
theorem execution_timeout_exact (D now : Rat) (hnow : now ≤ D) :
    (∀ t d, execCut (some D) t = some d → d = D ∧ rmax now d = D) ∧
    (∀ own l, taskLimit own (some D) now = some l → l.exec = true → l.t = D) := by
  refine ⟨fun t d h => ?_, fun own l h hx => ?_⟩
  · have := (execCut_some h).1
    simp only [Option.some.injEq] at this
    subst this
    exact ⟨rfl, rmax_of_le hnow⟩
  · rw [taskLimit_exec_t h hx]; exact rmax_of_le hnow

/-- (viii-a) a Wait state that would be over at or after the execution's deadline `D` (`max(target, entry) ≥ D`)
does not go on: at the instant `max(D, entry)` — `D` exactly when it was entered before — it hands the execution's
time-out to `handle_error`; nothing is filed for the state (no `WaitStateExited`) -/
theorem execution_timeout_exact_wait (env : Env) (fuel : Nat) (states : Json) (name : Str) (state data ctx input : Json)
    (target D : Rat) (retries : Nat) (st : St)
    (h : stateType state = S "Wait")
    (hi : applyPath data ctx (pathArg state "InputPath") = .ok input)
    (ht : waitTarget env state input ctx st.clock = .ok target)
    (hdl : env.deadline = some D) (hover : D ≤ rmax st.clock target) :
    runState env (fuel + 1) states name state data ctx retries st =
      handleErr env fuel states name state data ctx retries execTimeoutName (S "m") (st.closeKeep.waitUntil D) ∧
    (st.closeKeep.waitUntil D).clock = rmax st.clock D ∧
    (st.clock ≤ D → (st.closeKeep.waitUntil D).clock = D) ∧
    (st.closeKeep.waitUntil D).log = st.log := by
  have h1 : (S "Wait" = S "Pass") = False := by decide
  have h2 : (S "Wait" = S "Succeed") = False := by decide
  have h3 : (S "Wait" = S "Fail") = False := by decide
  have hc : execCut env.deadline (rmax st.clock target) = some D := by rw [hdl]; exact execCut_of_le hover
  exact ⟨by simp [runState, h, h1, h2, h3, hi, ht, hc], rfl, fun hle => rmax_of_le hle, rfl⟩

/-- (viii-b) a Task whose worker has not answered strictly before the limit in force `l`, that limit being (also) the
execution's (`l.exec`: the execution's deadline is not after the Task's own): at the instant `l.t = max(D, now)` the
execution's time-out is handed to `handle_error` — `LambdaFunctionTimedOut` is filed only if the Task's own deadline
(`own`: by `TimeoutSeconds` or `TimeoutSecondsPath`) is that same instant (`l.task`), otherwise nothing but the request is -/
theorem execution_timeout_exact_task (env : Env) (fuel : Nat) (states : Json) (name fn : Str)
    (state data ctx input params : Json) (retries : Nat) (st : St) (D : Rat) (l : Limit)
    (h : stateType state = S "Task")
    (hr : rpcFunction ((fldStr state "Resource").getD []) = some fn)
    (hi : applyPath data ctx (pathArg state "InputPath") = .ok input)
    (hp : tmplOpt env input ctx (fld state "Parameters") = .ok params)
    (hdl : env.deadline = some D)
    (own : Option Rat) (hown : taskOwnDeadline state data ctx st.clock = .ok own)
    (hl : taskLimit own (some D) st.clock = some l) (hx : l.exec = true)
    (hlate : ∀ d, env.delay fn params (bump st.counts (fn, params)).1 = some d → ¬ st.clock + d < l.t) :
    runState env (fuel + 1) states name state data ctx retries st =
      handleErr env fuel states name state data ctx retries execTimeoutName (S "m")
        (if l.task then (st.closeKeep.request true).taskCall (bump st.counts (fn, params)).2
            ((fldStr state "Resource").getD []) params .lambdaTimedOut l.t
         else (st.closeKeep.request true).taskSilent (bump st.counts (fn, params)).2
            ((fldStr state "Resource").getD []) params l.t) ∧
    l.t = rmax st.clock D ∧ (st.clock ≤ D → l.t = D) := by
  have h1 : (S "Task" = S "Pass") = False := by decide
  have h2 : (S "Task" = S "Succeed") = False := by decide
  have h3 : (S "Task" = S "Fail") = False := by decide
  have h4 : (S "Task" = S "Wait") = False := by decide
  have h5 : (S "Task" = S "Choice") = False := by decide
  have hl' : taskLimit own env.deadline st.clock = some l := by rw [hdl]; exact hl
  have ha : taskArrival (env.delay fn params (bump st.counts (fn, params)).1) (some l.t) st.clock = some (l.t, true) := by
    cases hd : env.delay fn params (bump st.counts (fn, params)).1 with
    | none => simp [taskArrival]
    | some d => simp [taskArrival, hlate d hd]
  have ht := taskLimit_exec_t hl hx
  refine ⟨?_, ht, fun hle => by rw [ht]; exact rmax_of_le hle⟩
  cases htask : l.task with
  | true => simp [runState, h, h1, h2, h3, h4, h5, hr, hi, hp, hown, hl', ha, hx, htask, taskOutcome, taskEv]
  | false => simp [runState, h, h1, h2, h3, h4, h5, hr, hi, hp, hown, hl', ha, hx, htask, taskOutcome, taskEv]

/-- (viii-c) a Retrier grants a re-run that would start at or after the execution's deadline `D`: the state is not
re-run; the execution fails at `max(D, now)` — nothing is filed, the retry count plays no part any more -/
theorem execution_timeout_exact_retry (env : Env) (fuel : Nat) (states : Json) (name : Str) (state data ctx : Json)
    (retries : Nat) (e msg : Str) (st : St) (d : Rat) (k : Nat) (D : Rat)
    (h : decideError ((listOf (fld state "Retry")).map retrierOf) ((listOf (fld state "Catch")).map catcherOf) e retries = .retry d k)
    (hq : env.retryPastDeadline = false) (hdl : env.deadline = some D) (hover : D ≤ (st.retryAfter name d).clock) :
    handleErr env (fuel + 1) states name state data ctx retries e msg st =
      (.failed execTimeoutName (some (.str (S "<cause>"))) false, (((st.handover name).closeKeep).waitUntil D).failTok) ∧
    ((((st.handover name).closeKeep).waitUntil D).failTok).clock = rmax st.clock D ∧
    ((((st.handover name).closeKeep).waitUntil D).failTok).log = st.log := by
  have hc : env.retryCut (st.retryAfter name d).clock = some D := by
    unfold Env.retryCut; rw [hq, hdl]; simp only [Bool.false_eq_true, if_false]; exact execCut_of_le hover
  exact ⟨by simp only [handleErr, h, hc], rfl, rfl⟩

/-- (ix) the execution's time-out is not interceptable, whatever `Retry` / `Catch` the pending state has (`state` is
any state definition): `handle_error` fails the scope with it, files nothing and runs nothing else … -/
theorem execution_timeout_not_interceptable (env : Env) (fuel : Nat) (states : Json) (name : Str) (state data ctx : Json)
    (retries : Nat) (msg : Str) (st : St) :
    handleErr env (fuel + 1) states name state data ctx retries execTimeoutName msg st =
      (.failed execTimeoutName (causeOf msg) false, st.failTok) ∧
    st.failTok.log = st.log ∧ st.failTok.clock = st.clock ∧ st.failTok.counts = st.counts := by
  have hd : decideError ((listOf (fld state "Retry")).map retrierOf) ((listOf (fld state "Catch")).map catcherOf)
      execTimeoutName retries = .uncaught := by
    unfold decideError
    have : unrecoverable execTimeoutName = true := by decide
    simp [this]
  exact ⟨by simp [handleErr, hd], rfl, rfl, rfl⟩

/-- … and whatever `Retry` / `Catch` every enclosing Parallel / Map state has (`state` is any state definition): a
fan-out one of whose branches ended with the execution's time-out fails with it in turn — no `…StateFailed`, no exit,
no retry, no Catcher's successor —, so it reaches the top of the execution through any nesting … -/
theorem execution_timeout_passes_every_fanout (env : Env) (fuel : Nat) (states : Json) (name : Str) (state data ctx : Json)
    (retries : Nat) (c : Option Json) (f : Bool) (st : St) :
    ∃ c', (joinAndLeave env (fuel + 2) states name state data ctx retries (.error (.failed execTimeoutName c f)) st).1 =
        .failed execTimeoutName c' false ∧
      (joinAndLeave env (fuel + 2) states name state data ctx retries (.error (.failed execTimeoutName c f)) st).2.log = st.log ∧
      (joinAndLeave env (fuel + 2) states name state data ctx retries (.error (.failed execTimeoutName c f)) st).2.clock = st.clock ∧
      (joinAndLeave env (fuel + 2) states name state data ctx retries (.error (.failed execTimeoutName c f)) st).2.fanFail = st.fanFail := by
  simp only [joinAndLeave]
  have := fun msg st' => (execution_timeout_not_interceptable env fuel states name state data ctx retries msg st').1
  rw [this]
  exact ⟨_, rfl, rfl, rfl, by simp⟩

/-- … where it is reported as `States.Timeout`: the run is FAILED, the terminal history event and the terminal
notification carry `States.Timeout` -/
theorem execution_timeout_reported_as_timeout (env : Env) (fuel : Nat) (asl input ctx : Json) (c : Option Json) (f : Bool)
    (h : (runCore env fuel asl input ctx).1 = .failed execTimeoutName c f) :
    (run env fuel asl input ctx).status = S "FAILED" ∧
    (run env fuel asl input ctx).error = some (S "States.Timeout") ∧
    (run env fuel asl input ctx).execTimeout = true ∧
    (run env fuel asl input ctx).history.getLast? = some (.execFailed (S "States.Timeout") c) ∧
    (run env fuel asl input ctx).notifications =
      [(S "RUNNING", .null), (S "FAILED", errorOutput (S "States.Timeout") c)] := by
  have hp : publicError execTimeoutName = S "States.Timeout" := by decide
  unfold run Outcome.ofRun
  rw [h]
  refine ⟨rfl, by simp [hp], by simp, ?_, by simp [notificationsOf, terminalOf, hp]⟩
  simp only [historyOf, terminalOf, hp]
  rw [← List.cons_append, List.getLast?_append]
  simp

/-- (x) no logged event has an instant beyond the execution's deadline, and the run does not end beyond it: from any
state whose clock is not beyond `B ≥ D`, for each of the interpreter's functions (here: a scope run from a state) -/
theorem no_event_after_deadline_from (env : Env) (fuel : Nat) (D B : Rat) (states : Json) (name : Str) (data ctx : Json)
    (r : Nat) (st : St)
    (hdl : env.deadline = some D) (hq : env.retryPastDeadline = false) (hst : st.clock ≤ B) (hB : D ≤ B) :
    (runFrom env fuel states name data ctx r st).2.clock ≤ B ∧
    ∃ ts, (runFrom env fuel states name data ctx r st).2.times = ts ++ st.times ∧ ∀ t ∈ ts, t ≤ B :=
  (capAll env D hdl hq fuel).runFrom states name data ctx r st B hst hB

/-- … and for whole runs: a machine with `TimeoutSeconds: n` (n ≥ 0) — every event of the predicted history, the
terminal one included, has an instant ≤ n s after the start, and so has the end of the run -/
theorem no_event_after_deadline (env : Env) (fuel : Nat) (asl input ctx : Json) (n : Int)
    (hT : fld asl "TimeoutSeconds" = some (.num n)) (hn : 0 ≤ (n : Rat) * 1000) (hq : env.retryPastDeadline = false) :
    (∀ t ∈ (run env fuel asl input ctx).times, t ≤ (n : Rat) * 1000) ∧
    (run env fuel asl input ctx).endTime ≤ (n : Rat) * 1000 := by
  have hdl : (env.forMachine asl).deadline = some ((n : Rat) * 1000) := by simp [Env.forMachine, execDeadline, hT]
  have hq' : (env.forMachine asl).retryPastDeadline = false := hq
  have C : Capped ((n : Rat) * 1000) {} (runCore env fuel asl input ctx).2 := by
    unfold runCore
    split
    · exact (capAll _ _ hdl hq' fuel).runFrom _ _ _ _ _ _ _ hn Rat.le_refl
    · exact Capped.refl hn
  obtain ⟨hc, ts, hts, hg⟩ := C
  have hts' : (runCore env fuel asl input ctx).2.times = ts := by simpa using hts
  refine ⟨?_, hc⟩
  intro t ht
  simp only [run, Outcome.ofRun, timesOf, hts', List.mem_cons, List.mem_append, List.mem_reverse] at ht
  rcases ht with h | h | h
  · rw [h]; exact hn
  · exact hg t h
  · cases hT' : terminalOf (runCore env fuel asl input ctx).1 with
    | none => simp [hT'] at h
    | some x => simp [hT'] at h; rw [h]; exact hc

/-! non-vacuity -/
example : (TimerSt.run [.set 1 100, .set 2 50, .clear 2, .advance 60, .set 1 200, .advance 150, .advance 250]).fired
    = [(1, 200)] := by decide
example : fireAt 5000 7000 = 7000 ∧ fireAt 5000 1000 = 5000 := by decide

/-! the timed semantics, concretely -/
private def k (s : String) : Str := s.toList
private def arnF : Str := k "arn:aws:rpcmessage:local::function:f"
/-- the worker takes 1500 ms for its first answer, 10 ms afterwards -/
private def envT : Env :=
  { tmpl := Lite.tmpl, choose := Lite.choose, task := fun _ _ _ => .obj [(k "ok", .num 1)],
    delay := fun _ _ n => if n = 0 then some 1500 else some 10 }
private def inT : Json := .obj [(k "a", .num 1)]
private def waitSt (secs : Int) (next : Option String) : Json :=
  .obj ([(k "Type", .str (k "Wait")), (k "Seconds", .num secs)] ++
    (match next with | some n => [(k "Next", .str (k n))] | none => [(k "End", .bool true)]))
/-- Wait 2 s, then a Pass state: entered at 0, over at 2000 ms exactly (hypotheses of `wait_state_not_early`,
`wait_exit_instant`, `wait_seconds_target`) -/
private def aslW : Json := .obj [(k "StartAt", .str (k "W")), (k "States", .obj [
  (k "W", waitSt 2 (some "P")), (k "P", .obj [(k "Type", .str (k "Pass")), (k "End", .bool true)])])]
example : (run envT 20 aslW inT (.obj [])).times = [0, 0, 2000, 2000, 2000, 2000] ∧
    (run envT 20 aslW inT (.obj [])).endTime = 2000 ∧
    (run envT 20 aslW inT (.obj [])).history.length = 6 := by decide +kernel
example : stateType (waitSt 2 none) = S "Wait" ∧ fld (waitSt 2 none) "Seconds" = some (.num 2) ∧
    isTrue (fld (waitSt 2 none) "End") = true := by decide
/-- a Task with TimeoutSeconds 1 and a Retrier (interval 2 s): the first answer would take 1500 ms — timed out at
1000 ms exactly, re-run at 3000 ms, answered at 3010 ms (hypotheses of `task_timeout_exact`, `retry_delay_exact`,
`task_reply_instant`) -/
private def tT : Json := .obj [
  (k "Type", .str (k "Task")), (k "Resource", .str arnF), (k "TimeoutSeconds", .num 1), (k "End", .bool true),
  (k "Retry", .arr [.obj [(k "ErrorEquals", .arr [.str (k "States.Timeout")]), (k "IntervalSeconds", .num 2)]])]
private def aslT : Json := .obj [(k "StartAt", .str (k "T")), (k "States", .obj [(k "T", tT)])]
example : (run envT 20 aslT inT (.obj [])).history =
    [.execStarted inT, .entered (k "Task") (k "T") inT, .lambdaScheduled inT arnF, .lambdaTimedOut,
     .lambdaScheduled inT arnF, .lambdaSucceeded (.obj [(k "ok", .num 1)]),
     .exited (k "Task") (k "T") (.obj [(k "ok", .num 1)]), .execSucceeded (.obj [(k "ok", .num 1)])] ∧
    (run envT 20 aslT inT (.obj [])).times = [0, 0, 0, 1000, 3000, 3010, 3010, 3010] ∧
    (run envT 20 aslT inT (.obj [])).requests = 2 := by decide +kernel
example : fld tT "TimeoutSeconds" = some (.num 1) ∧ ¬ ((0 : Rat) + 1500 < 0 + (1 : Int) * 1000) ∧
    (0 : Rat) + 10 < 3000 + (1 : Int) * 1000 := by decide +kernel
example : ∃ d, decideError ((listOf (fld tT "Retry")).map retrierOf) ((listOf (fld tT "Catch")).map catcherOf)
    (S "States.Timeout") 0 = .retry d 1 := ⟨_, rfl⟩
/-- a Parallel state whose branches wait 1 s and 3 s: the join is at 3000 ms (`join_time_is_max`) -/
private def br (name : String) (st : Json) : Json :=
  .obj [(k "StartAt", .str (k name)), (k "States", .obj [(k name, st)])]
private def aslP : Json := .obj [(k "StartAt", .str (k "P")), (k "States", .obj [
  (k "P", .obj [(k "Type", .str (k "Parallel")), (k "End", .bool true),
    (k "Branches", .arr [br "A" (waitSt 1 none), br "B" (waitSt 3 none)])])])]
example : (run envT 20 aslP inT (.obj [])).endTime = 3000 ∧
    (run envT 20 aslP inT (.obj [])).times = [0, 0, 0, 0, 1000, 0, 3000, 3000, 3000] := by decide +kernel
/-- … and when both branches fail, after 2 s with E1 and after 1 s with E2, the Parallel state fails at 1000 ms
with E2: the earliest failure, not the lowest index (`earliest_failure_wins`); several failed (`multiFail`) but not at
the same instant (`tieFail` is false) -/
private def failAfter (w f e : String) (secs : Int) : Json :=
  .obj [(k "StartAt", .str (k w)), (k "States", .obj [
    (k w, waitSt secs (some f)), (k f, .obj [(k "Type", .str (k "Fail")), (k "Error", .str (k e))])])]
private def aslE : Json := .obj [(k "StartAt", .str (k "P")), (k "States", .obj [
  (k "P", .obj [(k "Type", .str (k "Parallel")), (k "End", .bool true),
    (k "Branches", .arr [failAfter "W1" "F1" "E1" 2, failAfter "W2" "F2" "E2" 1])])])]
example : (run envT 20 aslE inT (.obj [])).error = some (k "E2") ∧ (run envT 20 aslE inT (.obj [])).endTime = 1000 ∧
    (run envT 20 aslE inT (.obj [])).multiFail = true ∧ (run envT 20 aslE inT (.obj [])).tieFail = false ∧
    (run envT 20 aslE inT (.obj [])).fanFail = true := by
  decide +kernel
/-- a Map over three items with MaxConcurrency 2, each iteration waiting 1 s: two batches, over at 2000 ms -/
private def aslM : Json := .obj [(k "StartAt", .str (k "M")), (k "States", .obj [
  (k "M", .obj [(k "Type", .str (k "Map")), (k "End", .bool true), (k "ItemsPath", .str (k "$.xs")),
    (k "MaxConcurrency", .num 2), (k "Iterator", br "W" (waitSt 1 none))])])]
example : (run envT 30 aslM (.obj [(k "xs", .arr [.num 5, .num 6, .num 7])]) (.obj [(k "State", .obj [])])).endTime = 2000 ∧
    (run envT 30 aslM (.obj [(k "xs", .arr [.num 5, .num 6, .num 7])]) (.obj [(k "State", .obj [])])).status = S "SUCCEEDED" := by
  decide +kernel
/-- hypothesis of `instants_fuel_independent` -/
example : (run envT 20 aslT inT (.obj [])).status ≠ S "FUEL" := by decide +kernel

/-! the execution's time limit, concretely (`envT`: the worker takes 1500 ms for its first answer, 10 ms afterwards) -/
private def withLimit (n : Int) (asl : Json) : Json :=
  match asl with
  | .obj kvs => .obj ((k "TimeoutSeconds", .num n) :: kvs)
  | j => j
private def catchAll (next : String) : (Str × Json) :=
  (k "Catch", .arr [.obj [(k "ErrorEquals", .arr [.str (k "States.ALL")]), (k "Next", .str (k next))]])
private def passEnd : Json := .obj [(k "Type", .str (k "Pass")), (k "End", .bool true)]
/-- a Wait of 5 s under a limit of 2 s: FAILED with States.Timeout at 2000 ms exactly, the Wait state is not exited
(hypotheses of `execution_timeout_exact_wait`, `no_event_after_deadline`, `execution_timeout_reported_as_timeout`) -/
private def aslXW : Json := withLimit 2 (.obj [(k "StartAt", .str (k "W")), (k "States", .obj [(k "W", waitSt 5 none)])])
example : (run envT 20 aslXW inT (.obj [])).history =
      [.execStarted inT, .entered (k "Wait") (k "W") inT, .execFailed (k "States.Timeout") (some (.str (k "<cause>")))] ∧
    (run envT 20 aslXW inT (.obj [])).times = [0, 0, 2000] ∧ (run envT 20 aslXW inT (.obj [])).execTimeout = true := by
  decide +kernel
example : fld aslXW "TimeoutSeconds" = some (.num 2) ∧ (0 : Rat) ≤ ((2 : Int) : Rat) * 1000 ∧ envT.retryPastDeadline = false ∧
    (envT.forMachine aslXW).deadline = some 2000 ∧ (2000 : Rat) ≤ rmax 0 5000 := by decide +kernel
example : (match (runCore envT 20 aslXW inT (.obj [])).1 with
    | .failed e c _ => decide (e = execTimeoutName) && decide (c = some (.str (k "<cause>")))
    | _ => false) = true := by decide +kernel
/-- a Task with `TimeoutSeconds: 2` and a Catcher for everything under a limit of 2 s (a tie): `LambdaFunctionTimedOut` is
filed at 2000 ms, and the execution FAILS there — the Catcher is not consulted (hypotheses of
`execution_timeout_exact_task` with `l.task`, `execution_timeout_not_interceptable`, `task_deadline_is_min`) -/
private def tC (n : Int) : Json := .obj [
  (k "Type", .str (k "Task")), (k "Resource", .str arnF), (k "TimeoutSeconds", .num n), (k "Next", .str (k "Z")), catchAll "Z"]
private def slowEnv : Env := { envT with delay := fun _ _ _ => some 9000 }
private def aslXT (lim tmo : Int) : Json :=
  withLimit lim (.obj [(k "StartAt", .str (k "T")), (k "States", .obj [(k "T", tC tmo), (k "Z", passEnd)])])
example : (run slowEnv 20 (aslXT 2 2) inT (.obj [])).history =
      [.execStarted inT, .entered (k "Task") (k "T") inT, .lambdaScheduled inT arnF, .lambdaTimedOut,
       .execFailed (k "States.Timeout") (some (.str (k "<cause>")))] ∧
    (run slowEnv 20 (aslXT 2 2) inT (.obj [])).times = [0, 0, 0, 2000, 2000] := by decide +kernel
example : taskLimit (taskDeadline (tC 2) 0) (some 2000) 0 = some { t := 2000, task := true, exec := true } := by decide +kernel
/-- … the execution's limit first (2 s against the Task's 3 s): no `LambdaFunctionTimedOut`, FAILED at 2000 ms -/
example : (run slowEnv 20 (aslXT 2 3) inT (.obj [])).history =
      [.execStarted inT, .entered (k "Task") (k "T") inT, .lambdaScheduled inT arnF,
       .execFailed (k "States.Timeout") (some (.str (k "<cause>")))] ∧
    (run slowEnv 20 (aslXT 2 3) inT (.obj [])).times = [0, 0, 0, 2000] := by decide +kernel
example : taskLimit (taskDeadline (tC 3) 0) (some 2000) 0 = some { t := 2000, task := false, exec := true } := by decide +kernel
/-- … the Task's own limit first (1 s against 3 s): it is the Task's time-out, the Catcher takes it and the execution
SUCCEEDS at 1000 ms (`task_timeout_exact` with its hypothesis `hD`) -/
example : (run slowEnv 20 (aslXT 3 1) inT (.obj [])).status = S "SUCCEEDED" ∧
    (run slowEnv 20 (aslXT 3 1) inT (.obj [])).endTime = 1000 := by decide +kernel
example : taskLimit (taskDeadline (tC 1) 0) (some 3000) 0 = some { t := 1000, task := true, exec := false } := by decide +kernel
/-- a Parallel state with a Catcher for everything whose branches wait 5 s and 1 s, under a limit of 2 s: the first
branch runs into the limit, the Parallel state's Catcher is not consulted, nothing is filed for the Parallel state
(hypotheses of `execution_timeout_passes_every_fanout`) -/
private def aslXP : Json := withLimit 2 (.obj [(k "StartAt", .str (k "P")), (k "States", .obj [
  (k "P", .obj [(k "Type", .str (k "Parallel")), (k "Next", .str (k "Z")), catchAll "Z",
    (k "Branches", .arr [br "A" (waitSt 5 none), br "B" (waitSt 1 none)])]), (k "Z", passEnd)])])
example : (run envT 30 aslXP inT (.obj [])).error = some (k "States.Timeout") ∧ (run envT 30 aslXP inT (.obj [])).endTime = 2000 ∧
    (run envT 30 aslXP inT (.obj [])).fanFail = false ∧ (run envT 30 aslXP inT (.obj [])).tieFail = false ∧
    (run envT 30 aslXP inT (.obj [])).log =
      [.entered (k "Parallel") (k "P") inT, .fanStarted (k "Parallel") none, .entered (k "Wait") (k "A") inT,
       .entered (k "Wait") (k "B") inT, .exited (k "Wait") (k "B") inT] := by decide +kernel
/-- a Task that fails at once and is retried after 2 s (back-off 2), under a limit of 3 s: the second re-run would start
at 6020 ms — the execution ends at 3000 ms instead (hypotheses of `execution_timeout_exact_retry`) -/
private def failEnv : Env := { envT with task := fun _ _ _ => .obj [(k "errorType", .str (k "Boom"))], delay := fun _ _ _ => some 10 }
private def tR : Json := .obj [
  (k "Type", .str (k "Task")), (k "Resource", .str arnF), (k "End", .bool true),
  (k "Retry", .arr [.obj [(k "ErrorEquals", .arr [.str (k "States.ALL")]), (k "IntervalSeconds", .num 2)]])]
private def aslXR : Json := withLimit 3 (.obj [(k "StartAt", .str (k "T")), (k "States", .obj [(k "T", tR)])])
example : (run failEnv 30 aslXR inT (.obj [])).times = [0, 0, 0, 10, 2010, 2020, 3000] ∧
    (run failEnv 30 aslXR inT (.obj [])).error = some (k "States.Timeout") := by decide +kernel

/-- C08-F1, the formal counterpart (`Env.retryPastDeadline`, the code's behaviour): the same run with the switch on
goes on after the limit — a request is filed at 6020 ms and the execution ends there, 3020 ms after its limit of
3000 ms: `no_event_after_deadline` fails for the code -/
theorem late_retry_breaks_no_event_after_deadline :
    (run { failEnv with retryPastDeadline := true } 30 aslXR inT (.obj [])).times = [0, 0, 0, 10, 2010, 2020, 6020, 6020] ∧
    (run { failEnv with retryPastDeadline := true } 30 aslXR inT (.obj [])).endTime = 6020 ∧
    ¬ (run { failEnv with retryPastDeadline := true } 30 aslXR inT (.obj [])).endTime ≤ 3000 ∧
    (run failEnv 30 aslXR inT (.obj [])).endTime = 3000 := by decide +kernel

/-! `TimeoutSecondsPath`, `HeartbeatSeconds` -/
/-- a Task with `TimeoutSecondsPath: "$.a"` on the raw input `{"a": 1}` (and a `TimeoutSeconds: 9` that does not count):
the worker's first answer would take 1500 ms — timed out at 1000 ms exactly (hypotheses of `own_deadline_path`,
`task_timeout_exact` through `hown`) -/
private def tPath : Json := .obj [
  (k "Type", .str (k "Task")), (k "Resource", .str arnF), (k "TimeoutSecondsPath", .str (k "$.a")), (k "TimeoutSeconds", .num 9),
  (k "End", .bool true)]
example : (run envT 20 (.obj [(k "StartAt", .str (k "T")), (k "States", .obj [(k "T", tPath)])]) inT (.obj [])).history =
      [.execStarted inT, .entered (k "Task") (k "T") inT, .lambdaScheduled inT arnF, .lambdaTimedOut,
       .execFailed (k "States.Timeout") (some (.str (k "<cause>")))] ∧
    (run envT 20 (.obj [(k "StartAt", .str (k "T")), (k "States", .obj [(k "T", tPath)])]) inT (.obj [])).times = [0, 0, 0, 1000, 1000] := by
  decide +kernel
example : fld tPath "TimeoutSecondsPath" = some (.str (k "$.a")) ∧ applyPath inT (.obj []) (some (k "$.a")) = .ok (.num 1) ∧
    (match taskOwnDeadline tPath inT (.obj []) 0 with | .ok (some t) => decide (t = 1000) | _ => false) = true :=
  ⟨by decide, by rfl, by decide +kernel⟩
/-- … a path that matches nothing is the runtime error, which no Retry / Catch intercepts -/
example : (match taskOwnDeadline tPath (.obj []) (.obj []) 0 with | .error .pathMatch => true | _ => false) = true := by
  decide +kernel
/-- `HeartbeatSeconds` is not implemented by the engine, so it is no part of the semantics: with `HeartbeatSeconds: 1`
and no `TimeoutSeconds` the worker's 1500 ms are waited for -/
private def tHb : Json := .obj [
  (k "Type", .str (k "Task")), (k "Resource", .str arnF), (k "HeartbeatSeconds", .num 1), (k "End", .bool true)]
example : (run envT 20 (.obj [(k "StartAt", .str (k "T")), (k "States", .obj [(k "T", tHb)])]) inT (.obj [])).status = S "SUCCEEDED" ∧
    (run envT 20 (.obj [(k "StartAt", .str (k "T")), (k "States", .obj [(k "T", tHb)])]) inT (.obj [])).endTime = 1500 := by
  decide +kernel

end Asl.C08
