/-
C03 — events are acked once, after their consequences are issued; nothing leaks.
Statements about the acknowledgement ledger replayed over *any* frame log.
-/
import AslModel.Ledger
import Proofs.Lemmas.FramesRun
import Proofs.Lemmas.FuelMono
namespace Asl.C03
open Asl

def acks (t : Nat) (fs : List Fr) : Nat := fs.count (.ack t)
def delivers (t : Nat) (fs : List Fr) : Nat := fs.count (.deliver t)

/-- the counting invariant of the ledger -/
theorem ledger_count (fs : List Fr) (l : Ledger) (t : Nat) (hb : (fs.foldl Ledger.step l).bad = false) :
    (fs.foldl Ledger.step l).unacked.count t + acks t fs = l.unacked.count t + delivers t fs ∧ l.bad = false := by
  induction fs generalizing l with
  | nil => simp [acks, delivers] at *; exact hb
  | cons f fs ih =>
    simp only [List.foldl_cons] at hb ⊢
    have := ih (l.step f) hb
    obtain ⟨h1, h2⟩ := this
    cases f with
    | deliver u =>
      simp only [Ledger.step] at h1 h2 ⊢
      refine ⟨?_, h2⟩
      simp only [acks, delivers, List.count_cons] at h1 ⊢
      by_cases hu : u = t
      · subst hu; simp at h1 ⊢; omega
      · have : (Fr.deliver u == Fr.deliver t) = false := by simp [hu]
        simp [this, hu] at h1 ⊢; omega
    | ack u =>
      by_cases hc : l.unacked.contains u = true
      · have hs : l.step (.ack u) = { l with unacked := l.unacked.erase u, acked := u :: l.acked } := by
          have hm0 : u ∈ l.unacked := by simpa using hc
          simp [Ledger.step, hm0]
        rw [hs] at h1 h2
        simp only at h1 h2
        refine ⟨?_, h2⟩
        rw [hs]
        simp only [acks, delivers, List.count_cons] at h1 ⊢
        by_cases hu : u = t
        · subst hu
          have hm : u ∈ l.unacked := by simpa using hc
          have he := List.count_erase_self (a := u) (l := l.unacked)
          have hpos : 0 < l.unacked.count u := List.count_pos_iff.mpr hm
          simp at h1 ⊢; omega
        · have h3 : (l.unacked.erase u).count t = l.unacked.count t := by
            rw [List.count_erase_of_ne]; exact fun h => hu h.symm
          have : (Fr.ack u == Fr.ack t) = false := by simp [hu]
          simp [this, h3] at h1 ⊢; omega
      · have hm0 : ¬ u ∈ l.unacked := by simpa using hc
        have hs : l.step (.ack u) = { l with bad := true } := by simp [Ledger.step, hm0]
        rw [hs] at h2
        simp at h2
    | pub => simpa [Ledger.step, acks, delivers] using ⟨h1, h2⟩
    | recw => simpa [Ledger.step, acks, delivers] using ⟨h1, h2⟩

/-- acknowledged at most once: in a log the ledger accepts, a delivery tag is never acknowledged
more often than it was delivered — and tags are delivered once -/
theorem ack_at_most_once (fs : List Fr) (t : Nat) (hb : (Ledger.run fs).bad = false)
    (hd : delivers t fs ≤ 1) : acks t fs ≤ 1 := by
  have := (ledger_count fs {} t hb).1
  simp at this
  omega

/-- drained: when nothing is left unacknowledged every delivery was acknowledged exactly as often
as it was delivered (exactly once) -/
theorem drained_all_acked (fs : List Fr) (t : Nat) (hb : (Ledger.run fs).bad = false)
    (hd : (Ledger.run fs).unacked = []) : acks t fs = delivers t fs := by
  have := (ledger_count fs {} t hb).1
  unfold Ledger.run at hd
  rw [hd] at this
  simpa using this

/-- the ordering rule of one handler step, spelled out: after an acknowledgement nothing more is
published and no record is written in that step -/
theorem stepOrdered_spec (fs : List Fr) (h : stepOrdered fs = true) :
    ∀ pre a post, fs = pre ++ a :: post → isAck a = true → ∀ f ∈ post, isOut f = false := by
  induction fs with
  | nil => intro pre a post he; simp at he
  | cons f fs ih =>
    intro pre a post he ha g hg
    cases pre with
    | nil =>
      simp at he
      obtain ⟨h1, h2⟩ := he
      subst h1; subst h2
      simp [stepOrdered, ha] at h
      have := h.1 g hg
      simpa using this
    | cons p pre =>
      simp at he
      obtain ⟨h1, h2⟩ := he
      have hfs : stepOrdered fs = true := by
        simp only [stepOrdered] at h
        split at h
        · simp at h; exact h.2
        · exact h
      exact ih hfs pre a post h2 ha g hg

/-! non-vacuity -/
example : (Ledger.run [.deliver 1, .pub, .ack 1, .deliver 2, .pub, .recw, .ack 2]).bad = false ∧
    (Ledger.run [.deliver 1, .pub, .ack 1, .deliver 2, .pub, .recw, .ack 2]).unacked = [] := by decide
example : (Ledger.run [.deliver 1, .ack 1, .ack 1]).bad = true := by decide
example : stepOrdered [.deliver 1, .pub, .ack 1] = true ∧ stepOrdered [.deliver 1, .ack 1, .pub] = false := by decide

/-! ### the frames `Asl.run` predicts

`Asl.run` emits, for every machine, input, behaviour of the workers and fuel, the handler steps of the engine
with their broker frames (`Outcome.steps`, AslModel/Frames.lean).  What follows holds for every such run. -/

/-- the predicted frames of a run, in the order of its steps, as ledger frames -/
def predictedFrames (o : Outcome) : List Fr := (o.steps.flatMap (·.frames)).map toFr

/-- the frame state of a run is well-formed at every fuel -/
theorem run_fs_wf (env : Env) (fuel : Nat) (asl input ctx : Json) : (runCore env fuel asl input ctx).2.fs.WF := by
  unfold runCore
  split
  · exact (presAll wfOps (env.forMachine asl) fuel).runFrom _ _ _ _ _ _ wf_init
  · exact wf_init

theorem endFS_wf (r : Res) (st : St) (h : st.fs.WF) : (endFS r st).WF := by
  unfold endFS
  split
  · exact h.terminal _ _
  · exact h.terminal _ _
  · exact h

theorem steps_eq (env : Env) (fuel : Nat) (asl input ctx : Json) :
    (run env fuel asl input ctx).steps =
      (endFS (runCore env fuel asl input ctx).1 (runCore env fuel asl input ctx).2).steps.reverse := rfl

/-- (i) every predicted step is ordered: nothing is published after an acknowledgement within a step -/
theorem predicted_steps_ordered (env : Env) (fuel : Nat) (asl input ctx : Json) :
    ∀ s ∈ (run env fuel asl input ctx).steps, stepOrdered (s.frames.map toFr) = true := by
  intro s hs
  rw [steps_eq] at hs
  exact (endFS_wf _ _ (run_fs_wf env fuel asl input ctx)).ordered s (List.mem_reverse.mp hs)

/-- … spelled out on the predicted frames themselves: after an acknowledgement nothing more is published in that step -/
theorem predicted_nothing_published_after_ack (env : Env) (fuel : Nat) (asl input ctx : Json) :
    ∀ s ∈ (run env fuel asl input ctx).steps, ∀ pre a post, s.frames = pre ++ a :: post → a.isAck = true →
      ∀ f ∈ post, f.isPub = false := by
  intro s hs pre a post he ha f hf
  have ho := predicted_steps_ordered env fuel asl input ctx s hs
  have := stepOrdered_spec (s.frames.map toFr) ho (pre.map toFr) (toFr a) (post.map toFr)
    (by rw [he]; simp) (by cases a <;> simp_all [toFr, isAck, BFr.isAck]) (toFr f) (List.mem_map_of_mem hf)
  cases f <;> simp_all [toFr, isOut, BFr.isPub]

theorem count_zero_nil {l : List Nat} (h : ∀ t, l.count t = 0) : l = [] := by
  cases l with
  | nil => rfl
  | cons a l => have := h a; simp at this

theorem ended_cases (env : Env) (fuel : Nat) (asl input ctx : Json)
    (h : (run env fuel asl input ctx).status = S "SUCCEEDED" ∨ (run env fuel asl input ctx).status = S "FAILED") :
    (∃ d, (runCore env fuel asl input ctx).1 = .done d) ∨ (∃ e c f, (runCore env fuel asl input ctx).1 = .failed e c f) := by
  unfold run Outcome.ofRun at h
  cases hr : (runCore env fuel asl input ctx).1 with
  | done d => exact Or.inl ⟨d, rfl⟩
  | failed e c f => exact Or.inr ⟨e, c, f, rfl⟩
  | fuel => rw [hr] at h; simp at h; rcases h with h | h <;> exact absurd h (by decide)
  | unsupported w => rw [hr] at h; simp at h; rcases h with h | h <;> exact absurd h (by decide)

/-- (ii) in a run that ended (SUCCEEDED / FAILED) the ledger replayed over the predicted frames is sound — no
acknowledgement of a message that is not outstanding — and nothing is left unacknowledged -/
theorem predicted_ledger_drained (env : Env) (fuel : Nat) (asl input ctx : Json)
    (h : (run env fuel asl input ctx).status = S "SUCCEEDED" ∨ (run env fuel asl input ctx).status = S "FAILED") :
    (Ledger.run (predictedFrames (run env fuel asl input ctx))).bad = false ∧
    (Ledger.run (predictedFrames (run env fuel asl input ctx))).unacked = [] := by
  have hw := run_fs_wf env fuel asl input ctx
  have hb := (balAll (env.forMachine asl) fuel)
  -- the levels are as at the start: none
  have hbal : (runCore env fuel asl input ctx).2.fs.lvl.fins = [] ∧ (runCore env fuel asl input ctx).2.fs.outer = [] := by
    unfold runCore
    split
    · rename_i start states _ _
      have h1 := (hb.runFrom states start input ctx 0 ({} : St))
      exact ⟨by rw [h1.1], by rw [h1.2]⟩
    · exact ⟨rfl, rfl⟩
  -- the terminal step acknowledges what is left
  have key : ∀ st : St, st.fs.WF → st.fs.lvl.fins = [] → st.fs.outer = [] → ∀ status,
      (Ledger.run ((framesOf (st.fs.terminal st.clock status).steps).map toFr)).bad = false ∧
      (Ledger.run ((framesOf (st.fs.terminal st.clock status).steps).map toFr)).unacked = [] := by
    intro st hw h1 h2 status
    have ht := hw.terminal st.clock status
    refine ⟨ht.sound, count_zero_nil ?_⟩
    intro t
    have := ht.owes t
    have ha : (st.fs.terminal st.clock status).allTails = [] := by
      show st.fs.lvl.fins ++ st.fs.outer.flatMap (·.fins) = []
      rw [h1, h2]; rfl
    rw [ha] at this
    simpa [FS.terminal, FS.closeAck] using this
  have hpf : predictedFrames (run env fuel asl input ctx) =
      (framesOf (endFS (runCore env fuel asl input ctx).1 (runCore env fuel asl input ctx).2).steps).map toFr := by
    unfold predictedFrames
    rw [steps_eq]
    rfl
  rw [hpf]
  rcases ended_cases env fuel asl input ctx h with ⟨d, hd⟩ | ⟨e, c, f, hf⟩
  · rw [hd]; exact key _ hw hbal.1 hbal.2 _
  · rw [hf]; exact key _ hw hbal.1 hbal.2 _

/-- … so every message the predicted frames deliver is acknowledged exactly as often as it is delivered (once) -/
theorem predicted_every_delivery_acked (env : Env) (fuel : Nat) (asl input ctx : Json)
    (h : (run env fuel asl input ctx).status = S "SUCCEEDED" ∨ (run env fuel asl input ctx).status = S "FAILED")
    (t : Nat) :
    acks t (predictedFrames (run env fuel asl input ctx)) = delivers t (predictedFrames (run env fuel asl input ctx)) :=
  drained_all_acked _ t (predicted_ledger_drained env fuel asl input ctx h).1
    (predicted_ledger_drained env fuel asl input ctx h).2

/-- (iii) an acknowledgement does not precede the publication of what it stands for: in every predicted step that
is not the last step of a branch waiting for its join (`early`: C04-F2 / C04-F4), a step that acknowledges anything
has published something — a successor event, a task request's…, the terminal notification — and, by (i), before
the acknowledgement -/
theorem predicted_ack_after_consequence (env : Env) (fuel : Nat) (asl input ctx : Json) :
    ∀ s ∈ (run env fuel asl input ctx).steps, s.early = false → s.frames.any BFr.isAck = true →
      s.frames.any BFr.isPub = true := by
  intro s hs
  rw [steps_eq] at hs
  exact (endFS_wf _ _ (run_fs_wf env fuel asl input ctx)).consequence s (List.mem_reverse.mp hs)

/-- … the transition of a sequential state: the successor's event is published in the same step as, and before,
the acknowledgements of that step (the state's own event, the reply that completed it), and is the next delivery -/
theorem handover_publishes_then_acks (fs : FS) (t : Rat) (name : Str) :
    (fs.handover t name).steps =
      { t := t, frames := fs.open_.reverse ++ [.pubEv fs.next name fs.path] ++ (fs.hold ++ fs.now).map .ack, early := false }
        :: fs.steps ∧
    (fs.handover t name).open_ = [.deliver fs.next] ∧ (fs.handover t name).hold = [fs.next] := by
  simp [FS.handover, FS.closeAck, FS.pub, FS.deliverHold, FS.mkStep]

/-- (iv) fuel independence covers the predicted steps too: with more fuel a run that did not run out of fuel
predicts the same steps -/
theorem predicted_steps_fuel_independent (env : Env) (n m : Nat) (h : n ≤ m) (asl input ctx : Json)
    (hs : (run env n asl input ctx).status ≠ S "FUEL") :
    (run env m asl input ctx).steps = (run env n asl input ctx).steps := by
  rw [run_fuel_independent env n m h asl input ctx hs]

/-! non-vacuity: the predicted steps of three small machines -/
private def envX : Env := { tmpl := fun i _ _ => .ok i, choose := fun _ _ _ _ => none, task := fun _ _ _ => .obj [] }
private def passM : Json := .obj [(S "StartAt", .str (S "A")), (S "States", .obj [
  (S "A", .obj [(S "Type", .str (S "Pass")), (S "Next", .str (S "B"))]),
  (S "B", .obj [(S "Type", .str (S "Pass")), (S "End", .bool true)])])]
private def taskSt (fn : String) : Json :=
  .obj [(S "Type", .str (S "Task")), (S "Resource", .str (S ("arn:aws:rpcmessage:local::function:" ++ fn))), (S "End", .bool true)]
private def taskM : Json := .obj [(S "StartAt", .str (S "T")), (S "States", .obj [(S "T", taskSt "f")])]
private def parM : Json := .obj [(S "StartAt", .str (S "P")), (S "States", .obj [
  (S "P", .obj [(S "Type", .str (S "Parallel")), (S "End", .bool true), (S "Branches", .arr [
    .obj [(S "StartAt", .str (S "X")), (S "States", .obj [(S "X", taskSt "f")])],
    .obj [(S "StartAt", .str (S "Y")), (S "States", .obj [(S "Y", .obj [(S "Type", .str (S "Pass")), (S "End", .bool true)])])]])])])]

/-- Pass, Pass: the start event's step publishes the successor's event before acknowledging; the terminal step
notifies before acknowledging -/
example : ((run envX 20 passM (.obj []) (.obj [])).steps.map (·.frames)) =
    [[.deliver 0, .pubNote (S "RUNNING"), .pubEv 1 (S "B") [], .ack 0],
     [.deliver 1, .pubNote (S "SUCCEEDED"), .ack 1]] := by decide +kernel
/-- a Task: the event's step, the delegate's request, the reply's step (after the worker's 10 ms) -/
example : ((run envX 20 taskM (.obj []) (.obj [])).steps.map (fun s => (s.t, s.frames))) =
    [(0, [.deliver 0, .pubNote (S "RUNNING")]), (0, [.pubReq 1 0]),
     (10, [.deliver 1, .pubNote (S "SUCCEEDED"), .ack 0, .ack 1])] := by decide +kernel
/-- a Parallel state whose second branch ends first: its event is held; the reply of the first completes the join -/
example : ((run envX 20 parM (.obj []) (.obj [])).steps.map (fun s => (s.t, s.early, s.frames))) =
    [(0, false, [.deliver 0, .pubNote (S "RUNNING")]),
     (0, false, [.pubEv 1 (S "X") [0], .pubEv 2 (S "Y") [1], .ack 0]),
     (0, false, [.deliver 1]), (0, false, [.pubReq 3 1]),
     (0, true, [.deliver 2]),
     (10, false, [.deliver 3, .pubNote (S "SUCCEEDED"), .ack 1, .ack 2, .ack 3])] := by decide +kernel
example : (Ledger.run (predictedFrames (run envX 20 parM (.obj []) (.obj [])))).unacked = [] := by decide +kernel

end Asl.C03
