/-
C03 — events are acked once, after their consequences are issued; nothing leaks.
Statements about the acknowledgement ledger replayed over *any* frame log.
-/
import AslModel.Ledger
namespace Asl.C03
open Asl

def acks (t : Nat) (fs : List Fr) : Nat := fs.count (.ack t)
def delivers (t : Nat) (fs : List Fr) : Nat := fs.count (.deliver t)

/-- the counting invariant of the ledger -/
theorem ledger_count (fs : List Fr) (l : Ledger) (t : Nat) (hb : (fs.foldl Ledger.step l).bad = false) :
    (fs.foldl Ledger.step l).unacked.count t + acks t fs = l.unacked.count t + delivers t fs ∧ l.bad = false := by
  induction fs generalizing l with
  | nil => simp [acks, delivers] at *; exact hb
  | cons f fs ih =>
    simp only [List.foldl_cons] at hb ⊢
    have := ih (l.step f) hb
    obtain ⟨h1, h2⟩ := this
    cases f with
    | deliver u =>
      simp only [Ledger.step] at h1 h2 ⊢
      refine ⟨?_, h2⟩
      simp only [acks, delivers, List.count_cons] at h1 ⊢
      by_cases hu : u = t
      · subst hu; simp at h1 ⊢; omega
      · have : (Fr.deliver u == Fr.deliver t) = false := by simp [hu]
        simp [this, hu] at h1 ⊢; omega
    | ack u =>
      by_cases hc : l.unacked.contains u = true
      · have hs : l.step (.ack u) = { l with unacked := l.unacked.erase u, acked := u :: l.acked } := by
          have hm0 : u ∈ l.unacked := by simpa using hc
          simp [Ledger.step, hm0]
        rw [hs] at h1 h2
        simp only at h1 h2
        refine ⟨?_, h2⟩
        rw [hs]
        simp only [acks, delivers, List.count_cons] at h1 ⊢
        by_cases hu : u = t
        · subst hu
          have hm : u ∈ l.unacked := by simpa using hc
          have he := List.count_erase_self (a := u) (l := l.unacked)
          have hpos : 0 < l.unacked.count u := List.count_pos_iff.mpr hm
          simp at h1 ⊢; omega
        · have h3 : (l.unacked.erase u).count t = l.unacked.count t := by
            rw [List.count_erase_of_ne]; exact fun h => hu h.symm
          have : (Fr.ack u == Fr.ack t) = false := by simp [hu]
          simp [this, h3] at h1 ⊢; omega
      · have hm0 : ¬ u ∈ l.unacked := by simpa using hc
        have hs : l.step (.ack u) = { l with bad := true } := by simp [Ledger.step, hm0]
        rw [hs] at h2
        simp at h2
    | pub => simpa [Ledger.step, acks, delivers] using ⟨h1, h2⟩
    | recw => simpa [Ledger.step, acks, delivers] using ⟨h1, h2⟩

/-- acknowledged at most once: in a log the ledger accepts, a delivery tag is never acknowledged
more often than it was delivered — and tags are delivered once -/
theorem ack_at_most_once (fs : List Fr) (t : Nat) (hb : (Ledger.run fs).bad = false)
    (hd : delivers t fs ≤ 1) : acks t fs ≤ 1 := by
  have := (ledger_count fs {} t hb).1
  simp at this
  omega

/-- drained: when nothing is left unacknowledged every delivery was acknowledged exactly as often
as it was delivered (exactly once) -/
theorem drained_all_acked (fs : List Fr) (t : Nat) (hb : (Ledger.run fs).bad = false)
    (hd : (Ledger.run fs).unacked = []) : acks t fs = delivers t fs := by
  have := (ledger_count fs {} t hb).1
  unfold Ledger.run at hd
  rw [hd] at this
  simpa using this

/-- the ordering rule of one handler step, spelled out: after an acknowledgement nothing more is
published and no record is written in that step -/
theorem stepOrdered_spec (fs : List Fr) (h : stepOrdered fs = true) :
    ∀ pre a post, fs = pre ++ a :: post → isAck a = true → ∀ f ∈ post, isOut f = false := by
  induction fs with
  | nil => intro pre a post he; simp at he
  | cons f fs ih =>
    intro pre a post he ha g hg
    cases pre with
    | nil =>
      simp at he
      obtain ⟨h1, h2⟩ := he
      subst h1; subst h2
      simp [stepOrdered, ha] at h
      have := h.1 g hg
      simpa using this
    | cons p pre =>
      simp at he
      obtain ⟨h1, h2⟩ := he
      have hfs : stepOrdered fs = true := by
        simp only [stepOrdered] at h
        split at h
        · simp at h; exact h.2
        · exact h
      exact ih hfs pre a post h2 ha g hg

/-! non-vacuity -/
example : (Ledger.run [.deliver 1, .pub, .ack 1, .deliver 2, .pub, .recw, .ack 2]).bad = false ∧
    (Ledger.run [.deliver 1, .pub, .ack 1, .deliver 2, .pub, .recw, .ack 2]).unacked = [] := by decide
example : (Ledger.run [.deliver 1, .ack 1, .ack 1]).bad = true := by decide
example : stepOrdered [.deliver 1, .pub, .ack 1] = true ∧ stepOrdered [.deliver 1, .ack 1, .pub] = false := by decide

end Asl.C03
