/-
C12 — InputPath/OutputPath/ResultPath obey the filter laws and never corrupt data.
Property theorems and non-vacuity examples only; helper lemmas live in Proofs/Lemmas.
-/
import AslModel.Path
import Proofs.Lemmas.Obj
import Proofs.Lemmas.PathText
namespace Asl.C12
open Asl

/-- Placing then reading the same path returns the placed value — for every document,
every definite path and every value (including the document itself). -/
theorem put_get (d : Json) (p : List Str) (v d' : Json) (h : put d p v = .ok d') :
    get? d' p = some v := by
  induction p generalizing d d' with
  | nil => simp [put] at h; simp [get?, h]
  | cons k ks ih =>
    cases d with
    | arr xs =>
      simp only [put] at h
      split at h
      · rename_i hd
        split at h
        · rename_i sub hsub
          split at h
          · rename_i sub' hput
            have := ih sub sub' hput
            cases h
            have hlt : digitsVal k < xs.length := by
              rcases List.getElem?_eq_some_iff.mp hsub with ⟨hl, _⟩; exact hl
            simp [get?, getStep, hd, listSet_get_same xs _ sub' hlt, this]
          · cases h
        · cases h
      · cases h
    | obj kvs =>
      simp only [put] at h
      split at h
      · cases h
      · split at h
        · rename_i sub' hput
          have := ih _ sub' hput
          cases h
          simp [get?, getStep, this]
        · cases h
    | null => simp [put] at h
    | bool b => simp [put] at h
    | num n => simp [put] at h
    | str s => simp [put] at h

/-- value semantics of placing a document inside itself: the result is an ordinary finite
tree whose `p` holds the *old* document. -/
theorem put_self (d : Json) (p : List Str) (d' : Json) (h : put d p d = .ok d') :
    get? d' p = some d := put_get d p d d' h

/-- two segments that can never address the same member of any container -/
def SegDiff (a b : Str) : Prop :=
  a ≠ b ∧ (isDigits a = true → isDigits b = true → digitsVal a ≠ digitsVal b)

theorem get_empty_obj_cons (k : Str) (ks : List Str) : get? (.obj []) (k :: ks) = none := by
  simp [get?, getStep, objGet]

/-- frame law, diverging paths: placing at `c ++ a :: p` leaves what any path
`c ++ b :: q` (with `b` a different member than `a`) reads unchanged. -/
theorem put_frame (d : Json) (c : List Str) (a b : Str) (p q : List Str) (v d' : Json)
    (hab : SegDiff a b) (h : put d (c ++ a :: p) v = .ok d') :
    get? d' (c ++ b :: q) = get? d (c ++ b :: q) := by
  induction c generalizing d d' with
  | nil =>
    simp only [List.nil_append] at *
    cases d with
    | arr xs =>
      simp only [put] at h
      split at h
      · rename_i hd
        split at h
        · split at h
          · cases h
            simp only [get?, getStep]
            by_cases hb : isDigits b = true
            · simp [hb, listSet_get_ne xs _ _ _ (hab.2 hd hb)]
            · simp [hb]
          · cases h
        · cases h
      · cases h
    | obj kvs =>
      simp only [put] at h
      split at h
      · cases h
      · split at h
        · cases h
          simp [get?, getStep, objGet_objSet_ne _ _ _ _ hab.1]
        · cases h
    | null => simp [put] at h
    | bool b => simp [put] at h
    | num n => simp [put] at h
    | str s => simp [put] at h
  | cons k ks ih =>
    simp only [List.cons_append] at *
    cases d with
    | arr xs =>
      simp only [put] at h
      split at h
      · rename_i hd
        split at h
        · rename_i sub hsub
          split at h
          · rename_i sub' hput
            cases h
            have hlt : digitsVal k < xs.length := by
              rcases List.getElem?_eq_some_iff.mp hsub with ⟨hl, _⟩; exact hl
            simp [get?, getStep, hd, listSet_get_same xs _ sub' hlt, hsub, ih sub sub' hput]
          · cases h
        · cases h
      · cases h
    | obj kvs =>
      simp only [put] at h
      split at h
      · cases h
      · split at h
        · rename_i sub' hput
          cases h
          have := ih _ sub' hput
          cases hg : objGet kvs k with
          | some sub =>
            simp [hg] at this
            simp [get?, getStep, hg, this]
          | none =>
            simp [hg] at this
            simp only [get?, getStep, objGet_objSet_same, hg, this]
            cases ks <;> simp [get?, getStep, objGet]
        · cases h
    | null => simp [put] at h
    | bool b => simp [put] at h
    | num n => simp [put] at h
    | str s => simp [put] at h

/-- `$` replaces: placing at the root returns the result -/
theorem put_root (d v : Json) : applyResultPath d v (some ['$']) = .ok v := by
  simp [applyResultPath]

/-- a null ResultPath discards the result and keeps the input -/
theorem put_null (d v : Json) (h : d ≠ .null) : applyResultPath d v none = .ok d := by
  simp [applyResultPath, h]

/-- `$` selects the whole input -/
theorem get_root (d : Json) (h : d ≠ .null) : applyJsonPathText d ['$'] = .ok d := by
  simp [applyJsonPathText, h]

/-- a null path selects `{}` -/
theorem get_null_is_empty_object (d ctx : Json) : applyPath d ctx none = .ok (.obj []) := rfl

/-- compositionality: a definite path returns exactly the addressed value -/
theorem get_append (d : Json) (p q : List Str) :
    get? d (p ++ q) = (get? d p).bind (fun t => get? t q) := by
  induction p generalizing d with
  | nil => simp [get?]
  | cons k ks ih =>
    simp only [List.cons_append, get?]
    cases getStep d k with
    | none => simp
    | some t => simp [ih]

/-- a path that matches nothing fails with the path-match failure: no value is invented -/
theorem get_missing_fails (d : Json) (text : Str) (segs : List Str)
    (hd : d ≠ .null) (ht : text ≠ ['$']) (hp : parseRef text = some segs)
    (hm : get? d segs = none) :
    applyJsonPathText d text = .error .pathMatch := by
  simp [applyJsonPathText, hd, ht, hp, hm]

/-- and a path that matches returns exactly the addressed value -/
theorem get_hit (d : Json) (text : Str) (segs : List Str) (v : Json)
    (hp : parseRef text = some segs) (hm : get? d segs = some v) (hs : segs ≠ []) :
    applyJsonPathText d text = .ok v := by
  have ht : text ≠ ['$'] := by
    intro h; subst h; simp [parseRef, parseSegs] at hp; exact hs hp
  have hd : d ≠ .null := by
    intro h; subst h
    cases segs with
    | nil => exact hs rfl
    | cons k ks => simp [get?, getStep] at hm
  have htr : d.truthy = true := by
    cases segs with
    | nil => exact absurd rfl hs
    | cons k ks =>
      cases d with
      | obj kvs =>
        cases kvs with
        | nil => simp [get?, getStep, objGet] at hm
        | cons _ _ => simp [Json.truthy]
      | arr xs =>
        cases xs with
        | nil => simp [get?, getStep] at hm
        | cons _ _ => simp [Json.truthy]
      | null => simp [get?, getStep] at hm
      | bool b => simp [get?, getStep] at hm
      | num n => simp [get?, getStep] at hm
      | str s => simp [get?, getStep] at hm
  simp [applyJsonPathText, hd, ht, hp, hm, htr]

/-- a `$$` path reads the context object, whatever the input -/
theorem ctx_routing (d ctx : Json) (rest : Str) :
    applyPath d ctx (some ('$' :: '$' :: rest)) = applyJsonPathText ctx ('$' :: rest) := rfl

/-- dot, bracket-quoted and index notation denote the same segment list: printing any
admissible segment list in any mixture of notations and parsing it back yields the names. -/
theorem parse_print_refpath (ss : List Seg) (h : ∀ s ∈ ss, s.ok = true) :
    parseRef (printRef ss) = some (ss.map Seg.name) :=
  parseRef_printRef ss h

/-- "alike": two spellings of the same names are the same path -/
theorem notation_irrelevant (ss ts : List Seg) (hs : ∀ s ∈ ss, s.ok = true)
    (ht : ∀ s ∈ ts, s.ok = true) (hn : ss.map Seg.name = ts.map Seg.name) :
    parseRef (printRef ss) = parseRef (printRef ts) := by
  rw [parse_print_refpath ss hs, parse_print_refpath ts ht, hn]

theorem put_error_kind (d : Json) (p : List Str) (v : Json) (e : PErr)
    (h : put d p v = .error e) : e = .resultPath := by
  induction p generalizing d with
  | nil => simp [put] at h
  | cons k ks ih =>
    cases d with
    | arr xs =>
      simp only [put] at h
      split at h
      · split at h
        · rename_i sub _
          split at h
          · cases h
          · rename_i e' hput; cases h; exact ih sub hput
        · cases h; rfl
      · cases h; rfl
    | obj kvs =>
      simp only [put] at h
      split at h
      · cases h; rfl
      · split at h
        · cases h
        · rename_i e' hput; cases h; exact ih _ hput
    | null => simp [put] at h; exact h.symm
    | bool b => simp [put] at h; exact h.symm
    | num n => simp [put] at h; exact h.symm
    | str s => simp [put] at h; exact h.symm

/-- every failure of ResultPath placement is the ResultPath failure, never another error -/
theorem put_unplaceable_is_resultpath_failure (d v : Json) (path : Option Str) (e : PErr)
    (h : applyResultPath d v path = .error e) : e = .resultPath := by
  cases path with
  | none => simp [applyResultPath] at h
  | some p =>
    simp only [applyResultPath] at h
    split at h
    · cases h
    · split at h
      · cases h; rfl
      · split at h
        · cases h; rfl
        · exact put_error_kind _ _ _ _ h

/-- text-level round trip: placing with a Reference Path text and selecting with the same
text returns the result (engine entry points, both notations). -/
theorem resultpath_then_path (d v d' : Json) (text : Str) (segs : List Str)
    (hp : parseRef text = some segs) (hs : segs ≠ [])
    (h : applyResultPath d v (some text) = .ok d') :
    applyJsonPathText d' text = .ok v := by
  have ht : text ≠ ['$'] := by
    intro h; subst h; simp [parseRef, parseSegs] at hp; exact hs hp
  have hnd : ∀ rest, text ≠ '$' :: '$' :: rest := by
    intro rest h; subst h; simp [parseRef] at hp
    cases rest <;> simp [parseSegs] at hp
  have hput : put (if d = .null then .obj [] else d) segs v = .ok d' := by
    unfold applyResultPath at h
    simp only [ht, if_false] at h
    split at h
    · rename_i heq; rw [hp] at heq; cases heq
    · rename_i heq; rw [hp] at heq; cases heq; exact h
  exact get_hit d' text segs v hp (put_get _ _ _ _ hput) hs

/-! ### non-vacuity: the hypotheses are met by concrete, non-trivial states -/

private def k (s : String) : Str := s.toList
private def doc : Json :=
  .obj [(k "a", .obj [(k "b", .num 1), (k "c", .arr [.num 7, .num 8])]), (k "z", .str (k "keep"))]

example : ∃ d', put doc [k "a", k "c", k "1"] (.str (k "new")) = .ok d' ∧
    get? d' [k "a", k "c", k "1"] = some (.str (k "new")) ∧
    get? d' [k "a", k "c", k "0"] = some (.num 7) ∧ get? d' [k "z"] = some (.str (k "keep")) :=
  ⟨_, rfl, by decide, by decide, by decide⟩

example : ∃ d', put doc [k "a", k "self"] doc = .ok d' ∧ get? d' [k "a", k "self"] = some doc :=
  ⟨_, rfl, by decide⟩

example : SegDiff (k "b") (k "c") := ⟨by decide, by decide⟩
example : SegDiff (k "0") (k "1") := ⟨by decide, by decide⟩

example : parseRef (printRef [.dot (k "a"), .brq (k "b c"), .idx (k "12")]) =
    parseRef (printRef [.brq (k "a"), .dot (k "b c"), .idx (k "12")]) := by decide

example : put doc [k "z", k "x"] .null = .error .resultPath := by rfl

example : applyResultPath doc (.num 5) (some "$['a'].b".toList) =
    applyResultPath doc (.num 5) (some "$.a['b']".toList) := by rfl

end Asl.C12
