/-
C10 — the state-machine and execution API behaves like a simple keyed store.

Property theorems and non-vacuity examples only; helper lemmas live in Proofs/Lemmas.
The statements are about `Api.step` (the reference model the implementation's answers are
compared with on every run): all configurations, environments (clock, uuid, lint verdict),
states, actions and raw JSON arguments — no bound on the store or on the history.
-/
import Proofs.Lemmas.ApiStep
namespace Asl.C10
open Asl Asl.Api

/-- a request with an object body -/
abbrev req (action : String) (p : Params) : Call := ⟨S action, some (.obj p)⟩

/-! ### an error answer leaves every stored record as it was; no internal error -/

theorem error_leaves_state (cfg : Cfg) (env : Env) (s : State) (c : Call)
    (h : (step cfg env s c).2.isError = true) : (step cfg env s c).1 = s := by
  unfold step at h ⊢
  split
  · split <;> simp_all [Response.isError]
  · rfl

/-- an error answer also hands nothing to the event dispatcher -/
theorem error_publishes_nothing (cfg : Cfg) (env : Env) (s : State) (c : Call)
    (h : (step cfg env s c).2.isError = true) : published env s c = none := by
  obtain ⟨a, ps⟩ := c
  unfold published
  split
  · rename_i p hp
    simp only at hp
    subst hp
    split
    · rename_i ha
      simp only at ha
      subst ha
      rw [step_obj, handle_start] at h
      split
      · rename_i x hx
        rw [hx] at h
        obtain ⟨earn, rest⟩ := x
        simp [finish, Response.isError] at h
      · rfl
    · rfl
  · rfl

theorem no_internal_error (cfg : Cfg) (env : Env) (s : State) (c : Call) :
    (step cfg env s c).2 ≠ .internalError ∧ (step cfg env s c).2.status < 500 := by
  unfold step
  split
  · split <;> simp [Response.status]
  · simp [Response.status]

/-- the same over whole histories: no request of any history is answered 5xx, and the
stores after a history are those after its successful requests and engine writes only -/
theorem history_errors_are_noops (cfg : Cfg) (s : State) (env : Env) (c : Call) (rest : List Event)
    (h : (step cfg env s c).2.isError = true) :
    run cfg s (.call env c :: rest) = run cfg s rest := by
  simp [run, apply, error_leaves_state cfg env s c h]

/-! ### a created definition is described back unchanged -/

/-- what a successful CreateStateMachine stores is what was sent: the decoded definition
text, the name, the role; both dates are the clock; the ARN was free -/
theorem create_stores_arguments (cfg : Cfg) (env : Env) (s : State) (p : Params) (arn : Str) (m : Machine)
    (h : validateCreate cfg env s p = .ok (arn, m)) :
    ∃ t, arg p "definition" = some (.str t) ∧ parseJson t = some m.definition ∧
      arg p "name" = some (.str m.name) ∧ arg p "roleArn" = some (.str m.roleArn) ∧
      m.creationDate = env.now ∧ m.updateDate = env.now ∧ lookup s.machines arn = none := by
  obtain ⟨hk, hl, hd, _, _, hc, hu⟩ := validateCreate_ok cfg env s p arn m h
  obtain ⟨hn, _, hr, _, _, _⟩ := createKey_ok cfg p arn m.name m.roleArn m.type hk
  obtain ⟨t, ht, hp, hne, _⟩ := decodeDefinition_ok cfg env _ _ hd
  refine ⟨t, ?_, hp, hn, hr, hc, hu, hl⟩
  cases hga : arg p "definition" with
  | none => simp [hga] at ht; exact absurd ht hne
  | some j => simp [hga] at ht; rw [ht]

/-- CreateStateMachine answered 200: the record is in the store under the returned ARN, and
DescribeStateMachine of that ARN (when it is an ARN the API accepts) answers the record with
the definition as the `json.dumps` text of exactly the value the sent text denotes.

PARTIAL.  Full statement ("described back unchanged"): additionally
  `parseJson (render m.definition) = some m.definition`,
i.e. decoding the described text gives the value the sent text denotes.  That is the
printer/parser round trip of AslModel/JsonText.lean (for values whose objects have distinct
member names, which `parseJson` guarantees by `normalise`); it is not proved in this file.
The correspondence check evaluates it on the implementation for every successful
DescribeStateMachine (`json.loads(body.definition)` = the stored definition = `json.loads`
of the text sent) and compares the described text itself with `render`. -/
theorem create_then_describe_partial (cfg : Cfg) (env env' : Env) (s : State) (p q : Params) (body : Json)
    (h : (step cfg env s (req "CreateStateMachine" p)).2 = .ok body) :
    ∃ arn m t, body = .obj [(S "creationDate", .num env.now), (S "stateMachineArn", .str arn)] ∧
      arg p "definition" = some (.str t) ∧ parseJson t = some m.definition ∧
      lookup (step cfg env s (req "CreateStateMachine" p)).1.machines arn = some m ∧
      (arg q "stateMachineArn" = some (.str arn) → validSmArn arn = true →
        step cfg env' (step cfg env s (req "CreateStateMachine" p)).1 (req "DescribeStateMachine" q) =
          ((step cfg env s (req "CreateStateMachine" p)).1, .ok (m.describe arn)) ∧
        objGet (match m.describe arn with | .obj kvs => kvs | _ => []) (S "definition") =
          some (.str (render m.definition))) := by
  simp only [req, step_obj, handle_create] at h ⊢
  cases hv : validateCreate cfg env s p with
  | error e => simp [hv, finish] at h
  | ok x =>
    obtain ⟨arn, m⟩ := x
    simp only [hv, finish] at h ⊢
    obtain ⟨t, ht, hp, _, _, hc, _, _⟩ := create_stores_arguments cfg env s p arn m hv
    refine ⟨arn, m, t, ?_, ht, hp, lookup_insert_same _ _ _, ?_⟩
    · cases h; rw [hc]
    · intro hq hva
      have hne : arn ≠ [] := by
        intro e; subst e; simp [validSmArn, validResArn] at hva
      constructor
      · rw [handle_describe, hq, arnArg_ok validSmArn arn hva hne]
        simp [lookup_insert_same]
      · cases hlg : m.logging <;> simp [Machine.describe, Machine.toJson, hlg, objGet, S]

/-! ### duplicates are refused -/

/-- a machine with that ARN exists: CreateStateMachine is refused with the documented type
and nothing changes -/
theorem duplicate_refused (cfg : Cfg) (env : Env) (s : State) (p : Params) (arn name role ty : Str)
    (hk : createKey cfg p = .ok (arn, name, role, ty)) (hl : (lookup s.machines arn).isSome = true) :
    step cfg env s (req "CreateStateMachine" p) = (s, .error (S "StateMachineAlreadyExists")) := by
  simp only [req, step_obj, handle_create, validateCreate_dup cfg env s p arn name role ty hk hl, finish]

/-- in particular the same request twice: the second is refused whatever the clock says -/
theorem create_twice_refused (cfg : Cfg) (env env' : Env) (s : State) (p : Params) (body : Json)
    (h : (step cfg env s (req "CreateStateMachine" p)).2 = .ok body) :
    step cfg env' (step cfg env s (req "CreateStateMachine" p)).1 (req "CreateStateMachine" p) =
      ((step cfg env s (req "CreateStateMachine" p)).1, .error (S "StateMachineAlreadyExists")) := by
  simp only [req, step_obj, handle_create] at h
  cases hv : validateCreate cfg env s p with
  | error e => simp [hv, finish] at h
  | ok x =>
    obtain ⟨arn, m⟩ := x
    obtain ⟨hk, _⟩ := validateCreate_ok cfg env s p arn m hv
    have : (step cfg env s (req "CreateStateMachine" p)).1 = { s with machines := insert s.machines arn m } := by
      simp only [req, step_obj, handle_create, hv, finish]
    rw [this]
    exact duplicate_refused cfg env' _ p arn _ _ _ hk (by simp [lookup_insert_same])

/-! ### unknown ARNs are refused with the documented type -/

/-- a well-formed state-machine ARN that is not in the store: Update, Delete, Describe and
ListExecutions answer StateMachineDoesNotExist and change nothing -/
theorem unknown_refused (cfg : Cfg) (env : Env) (s : State) (p : Params) (arn : Str)
    (ha : arnArg validSmArn (arg p "stateMachineArn") = .ok arn) (hl : lookup s.machines arn = none) :
    step cfg env s (req "UpdateStateMachine" p) = (s, .error (S "StateMachineDoesNotExist")) ∧
    step cfg env s (req "DeleteStateMachine" p) = (s, .error (S "StateMachineDoesNotExist")) ∧
    step cfg env s (req "DescribeStateMachine" p) = (s, .error (S "StateMachineDoesNotExist")) ∧
    step cfg env s (req "ListExecutions" p) = (s, .error (S "StateMachineDoesNotExist")) := by
  refine ⟨?_, ?_, ?_, ?_⟩
  · simp only [req, step_obj, handle_update, validateUpdate_unknown cfg env s p arn ha hl, finish]
  · simp only [req, step_obj, handle_delete, ha, hl, finish]
  · simp only [req, step_obj, handle_describe, ha, hl, finish]
  · simp only [req, step_obj, handle_list_executions, ha, hl, finish]

/-- StartExecution of a machine that is not in the store is never accepted and publishes nothing
(the type is StateMachineDoesNotExist once name and input are acceptable) -/
theorem unknown_start_refused (cfg : Cfg) (env : Env) (s : State) (p : Params) (arn : Str)
    (ha : arnArg validSmArn (arg p "stateMachineArn") = .ok arn) (hl : lookup s.machines arn = none) :
    (step cfg env s (req "StartExecution" p)).2.isError = true ∧
    (step cfg env s (req "StartExecution" p)).1 = s ∧
    published env s (req "StartExecution" p) = none ∧
    (∀ name input, startArgs env p = .ok (arn, name, input) →
      (step cfg env s (req "StartExecution" p)).2 = .error (S "StateMachineDoesNotExist")) := by
  have key : ∀ x, validateStart env s p ≠ .ok x := by
    intro x hx
    unfold validateStart at hx
    split at hx
    · cases hx
    · rename_i arn' name input hs
      have : arn' = arn := by
        unfold startArgs at hs
        rw [ha] at hs
        simp only at hs
        repeat' split at hs
        all_goals first | cases hs | skip
        rfl
      subst this
      rw [hl] at hx
      cases hx
  have herr : (step cfg env s (req "StartExecution" p)).2.isError = true := by
    simp only [req, step_obj, handle_start]
    cases hv : validateStart env s p with
    | error e => simp [finish, Response.isError]
    | ok x => exact absurd hv (key x)
  refine ⟨herr, error_leaves_state cfg env s _ herr, error_publishes_nothing cfg env s _ herr, ?_⟩
  intro name input hs
  simp only [req, step_obj, handle_start, validateStart, hs, hl, finish]

/-- an execution ARN that is not in the executions store -/
theorem unknown_execution_refused (cfg : Cfg) (env : Env) (s : State) (p : Params) (earn : Str)
    (ha : arnArg validExecArn (arg p "executionArn") = .ok earn) (hl : lookup s.executions earn = none) :
    step cfg env s (req "DescribeExecution" p) = (s, .error (S "ExecutionDoesNotExist")) ∧
    step cfg env s (req "DescribeStateMachineForExecution" p) = (s, .error (S "ExecutionDoesNotExist")) := by
  constructor
  · simp only [req, step_obj, handle_describe_execution, ha, hl, finish]
  · simp only [req, step_obj, handle_describe_for_execution, ha, hl, finish]

/-! ### updates change only the fields supplied and advance updateDate -/

/-- UpdateStateMachine answered 200: the stored record differs from the old one only in the
fields supplied (a supplied role is stored verbatim, a supplied definition text is stored
decoded), `updateDate` is the clock, the answer carries it; every other record of either
store is untouched -/
theorem update_only_supplied (cfg : Cfg) (env : Env) (s : State) (p : Params) (body : Json)
    (h : (step cfg env s (req "UpdateStateMachine" p)).2 = .ok body) :
    ∃ arn m m', lookup s.machines arn = some m ∧
      lookup (step cfg env s (req "UpdateStateMachine" p)).1.machines arn = some m' ∧
      body = .obj [(S "updateDate", .num env.now)] ∧
      m'.name = m.name ∧ m'.type = m.type ∧ m'.creationDate = m.creationDate ∧
      m'.updateDate = env.now ∧
      (truthyArg (arg p "roleArn") = false → m'.roleArn = m.roleArn) ∧
      (truthyArg (arg p "roleArn") = true → arg p "roleArn" = some (.str m'.roleArn)) ∧
      (truthyArg (arg p "definition") = false → m'.definition = m.definition) ∧
      (truthyArg (arg p "definition") = true →
        ∃ t, arg p "definition" = some (.str t) ∧ parseJson t = some m'.definition) ∧
      ((cfg.logging && truthyArg (arg p "loggingConfiguration")) = false → m'.logging = m.logging) ∧
      (∀ k, k ≠ arn → lookup (step cfg env s (req "UpdateStateMachine" p)).1.machines k =
        lookup s.machines k) ∧
      (step cfg env s (req "UpdateStateMachine" p)).1.executions = s.executions := by
  simp only [req, step_obj, handle_update] at h ⊢
  cases hv : validateUpdate cfg env s p with
  | error e => simp [hv, finish] at h
  | ok x =>
    obtain ⟨arn, m'⟩ := x
    simp only [hv, finish] at h ⊢
    obtain ⟨m, role, d, lc, _, hm, hr, hd, hlc, hm'⟩ := validateUpdate_ok cfg env s p arn m' hv
    obtain ⟨hr0, hr1⟩ := updRole_ok p role hr
    obtain ⟨hd0, hd1⟩ := updDefinition_ok cfg env p d hd
    obtain ⟨hl0, _⟩ := updLogging_ok cfg p lc hlc
    refine ⟨arn, m, m', hm, lookup_insert_same _ _ _, ?_, ?_, ?_, ?_, ?_, ?_, ?_, ?_, ?_, ?_, ?_, ?_⟩
    · cases h; rw [hm']
    · rw [hm']
    · rw [hm']
    · rw [hm']
    · rw [hm']
    · intro hf; rw [hm', hr0 hf]; rfl
    · intro ht
      obtain ⟨x, hx, hax, _⟩ := hr1 ht
      rw [hm', hx, hax]; rfl
    · intro hf; rw [hm', hd0 hf]; rfl
    · intro ht
      obtain ⟨t, x, hx, hat, hp⟩ := hd1 ht
      exact ⟨t, hat, by rw [hm', hx]; exact hp⟩
    · intro hf; rw [hm', hl0 hf]
    · intro k hk
      exact lookup_insert_ne _ _ _ _ (fun e => hk e.symm)
    · trivial

/-- with a clock that has moved on, `updateDate` advances -/
theorem update_advances_updateDate (cfg : Cfg) (env : Env) (s : State) (p : Params) (body : Json)
    (h : (step cfg env s (req "UpdateStateMachine" p)).2 = .ok body) :
    ∃ arn m m', lookup s.machines arn = some m ∧
      lookup (step cfg env s (req "UpdateStateMachine" p)).1.machines arn = some m' ∧
      (m.updateDate < env.now → m.updateDate < m'.updateDate) := by
  obtain ⟨arn, m, m', h1, h2, _, _, _, _, hu, _⟩ := update_only_supplied cfg env s p body h
  exact ⟨arn, m, m', h1, h2, fun hlt => by rw [hu]; exact hlt⟩

/-! ### deletes are visible at once -/

/-- DeleteStateMachine answered 200: the ARN is gone for every later lookup — Describe, Update,
a second Delete and ListExecutions answer StateMachineDoesNotExist, Create of it is no
duplicate — and every other record is untouched -/
theorem delete_visible (cfg : Cfg) (env env' : Env) (s : State) (p : Params)
    (h : (step cfg env s (req "DeleteStateMachine" p)).2 = .okEmpty) :
    ∃ arn, arnArg validSmArn (arg p "stateMachineArn") = .ok arn ∧
      (lookup s.machines arn).isSome = true ∧
      lookup (step cfg env s (req "DeleteStateMachine" p)).1.machines arn = none ∧
      step cfg env' (step cfg env s (req "DeleteStateMachine" p)).1 (req "DescribeStateMachine" p) =
        ((step cfg env s (req "DeleteStateMachine" p)).1, .error (S "StateMachineDoesNotExist")) ∧
      (∀ k, k ≠ arn → lookup (step cfg env s (req "DeleteStateMachine" p)).1.machines k =
        lookup s.machines k) ∧
      (step cfg env s (req "DeleteStateMachine" p)).1.executions = s.executions := by
  cases ha : arnArg validSmArn (arg p "stateMachineArn") with
  | error e => simp [req, step_obj, handle_delete, ha, finish] at h
  | ok arn =>
    cases hl : lookup s.machines arn with
    | none => simp [req, step_obj, handle_delete, ha, hl, finish] at h
    | some m =>
      have hstep : step cfg env s (req "DeleteStateMachine" p) =
          ({ s with machines := erase s.machines arn }, .okEmpty) := by
        simp only [req, step_obj, handle_delete, ha, hl, finish]
      rw [hstep]
      refine ⟨arn, rfl, by simp [hl], lookup_erase_same _ _, ?_, ?_, rfl⟩
      · simp only [req, step_obj, handle_describe, ha, lookup_erase_same, finish]
      · intro k hk
        exact lookup_erase_ne _ _ _ (fun e => hk e.symm)

/-! ### lists enumerate exactly the live set -/

/-- store keys are distinct -/
def WF (s : State) : Prop := (keys s.machines).Nodup ∧ (keys s.executions).Nodup

theorem wf_empty : WF State.empty := by simp [WF, State.empty, keys]

/-- every request and every engine write keeps the keys distinct -/
theorem wf_apply (cfg : Cfg) (s : State) (ev : Event) (h : WF s) : WF (apply cfg s ev) := by
  cases ev with
  | engine arn e => exact ⟨h.1, nodup_keys_insert _ _ _ h.2⟩
  | call env c =>
    obtain ⟨a, ps⟩ := c
    cases ps with
    | none => exact h
    | some j =>
      cases j with
      | obj p =>
        show WF (step cfg env s ⟨a, some (.obj p)⟩).1
        rw [step_obj]
        cases hh : handle cfg env s a p with
        | none => exact h
        | some r =>
          cases r with
          | error e => exact h
          | ok x =>
            obtain ⟨s', rep⟩ := x
            have hs' : WF s' := by
              unfold handle at hh
              repeat' split at hh
              all_goals first | cases hh | skip
              all_goals first
                | exact h
                | exact ⟨nodup_keys_insert _ _ _ h.1, h.2⟩
                | exact ⟨nodup_keys_erase _ _ h.1, h.2⟩
            cases rep <;> exact hs'
      | _ => exact h

theorem wf_run (cfg : Cfg) (s : State) (evs : List Event) (h : WF s) : WF (run cfg s evs) := by
  induction evs generalizing s with
  | nil => exact h
  | cons ev rest ih => exact ih _ (wf_apply cfg s ev h)

/-- ListStateMachines never fails, changes nothing, and lists one summary per stored record:
an ARN is listed iff a lookup finds it, and — keys being distinct after any history from
the empty store — it is listed once -/
theorem list_is_live_set (cfg : Cfg) (env : Env) (s : State) (p : Params) :
    step cfg env s (req "ListStateMachines" p) =
      (s, .ok (.obj [(S "stateMachines", .arr (s.machines.map (fun kv => Machine.summary kv.1 kv.2)))])) ∧
    (∀ arn, arn ∈ keys s.machines ↔ (lookup s.machines arn).isSome = true) ∧
    (WF s → (keys s.machines).Nodup ∧
      ∀ arn m, (arn, m) ∈ s.machines ↔ lookup s.machines arn = some m) := by
  refine ⟨?_, fun arn => mem_keys_iff_lookup _ _, fun h => ⟨h.1, fun arn m => mem_iff_lookup_of_nodup _ h.1 _ _⟩⟩
  simp only [req, step_obj, handle_list, finish]

/-- the states reachable by any history from the empty store have distinct keys -/
theorem reachable_wf (cfg : Cfg) (evs : List Event) : WF (run cfg State.empty evs) :=
  wf_run cfg _ evs wf_empty

/-- ListExecutions of an existing machine lists exactly the execution records of that machine
whose status passes the filter: a record is listed iff the store holds it under its ARN,
it belongs to the machine, and (filter given and recognised) its status is the filter -/
theorem list_executions_is_live_set (cfg : Cfg) (env : Env) (s : State) (p : Params) (arn : Str) (m : Machine)
    (ha : arnArg validSmArn (arg p "stateMachineArn") = .ok arn) (hl : lookup s.machines arn = some m) :
    step cfg env s (req "ListExecutions" p) =
      (s, .ok (.obj [(S "executions", .arr (listExecutions s arn (statusFilter (arg p "statusFilter"))))])) ∧
    (∀ j, j ∈ listExecutions s arn (statusFilter (arg p "statusFilter")) ↔
      ∃ k e, (k, e) ∈ s.executions ∧ e.stateMachineArn = arn ∧
        (∀ f, statusFilter (arg p "statusFilter") = some f → f = .str e.status) ∧
        j = Exec.summary k e) ∧
    (WF s → ∀ k e, (k, e) ∈ s.executions ↔ lookup s.executions k = some e) := by
  refine ⟨?_, ?_, fun h k e => mem_iff_lookup_of_nodup _ h.2 _ _⟩
  · simp only [req, step_obj, handle_list_executions, ha, hl, finish]
  · intro j
    simp only [listExecutions, List.mem_map, List.mem_filter, execMatches]
    constructor
    · rintro ⟨⟨k, e⟩, ⟨hmem, hm⟩, rfl⟩
      simp only [Bool.and_eq_true, decide_eq_true_eq] at hm
      refine ⟨k, e, hmem, hm.1, ?_, rfl⟩
      intro f hf
      rw [hf] at hm
      simpa using hm.2
    · rintro ⟨k, e, hmem, hsm, hf, rfl⟩
      refine ⟨(k, e), ⟨hmem, ?_⟩, rfl⟩
      simp only [Bool.and_eq_true, decide_eq_true_eq]
      refine ⟨hsm, ?_⟩
      cases hsf : statusFilter (arg p "statusFilter") with
      | none => rfl
      | some f => simp [hf f hsf]

/-- the recognised filters: a status name selects that status, nothing / null / an
unrecognised value selects every status -/
theorem status_filter_cases (a : Option Json) :
    (∀ f, f ∈ statusNames → statusFilter (some (.str f)) = some (.str f)) ∧
    statusFilter none = none ∧ statusFilter (some .null) = none ∧
    (∀ f, f ∉ statusNames → f ≠ [] → statusFilter (some (.str f)) = none) := by
  refine ⟨?_, rfl, rfl, ?_⟩
  · intro f hf
    have hne : f ≠ [] := by
      intro e; subst e; simp [statusNames, S] at hf
    cases f with
    | nil => exact absurd rfl hne
    | cons c cs => simp [statusFilter, Json.truthy, hf]
  · intro f hf hne
    cases f with
    | nil => exact absurd rfl hne
    | cons c cs => simp [statusFilter, Json.truthy, hf]

/-! ### DescribeStateMachineForExecution follows the link of the execution record -/

theorem describe_for_execution_links (cfg : Cfg) (env : Env) (s : State) (p : Params)
    (earn : Str) (e : Exec) (m : Machine)
    (ha : arnArg validExecArn (arg p "executionArn") = .ok earn)
    (he : lookup s.executions earn = some e) (hv : validSmArn e.stateMachineArn = true)
    (hm : lookup s.machines e.stateMachineArn = some m) :
    step cfg env s (req "DescribeStateMachineForExecution" p) =
      (s, .ok (m.forExecution e.stateMachineArn)) ∧
    step cfg env s (req "DescribeExecution" p) = (s, .ok (e.toJson earn)) := by
  constructor
  · simp only [req, step_obj, handle_describe_for_execution, ha, he, hv, hm, finish]
    simp
  · simp only [req, step_obj, handle_describe_execution, ha, he, finish]

/-! ### non-vacuity: the hypotheses above are met by concrete, non-trivial requests -/

private def cfg0 : Cfg := ⟨S "local", false, true⟩
private def env0 : Env := ⟨1000, S "uuid-0", false⟩
private def env1 : Env := ⟨1007, S "uuid-1", false⟩
private def role0 : Str := S "arn:aws:iam::0123456789:role/r"
private def role1 : Str := S "arn:aws:iam::42:role/x"
private def arn0 : Str := S "arn:aws:states:local:0123456789:stateMachine:m1"
private def earn0 : Str := S "arn:aws:states:local:0123456789:execution:m1:e1"
private def defText : Str := S "{\"StartAt\": \"S\", \"States\": {\"S\": {\"Type\": \"Succeed\"}}}"
private def pCreate : Params :=
  [(S "name", .str (S "m1")), (S "roleArn", .str role0), (S "definition", .str defText)]
private def pArn : Params := [(S "stateMachineArn", .str arn0)]
private def pExec : Params := [(S "executionArn", .str earn0)]
/-- the store after one successful CreateStateMachine -/
private def s1 : State := (step cfg0 env0 State.empty (req "CreateStateMachine" pCreate)).1
/-- … and after the engine recorded a finished execution of it -/
private def s2 : State :=
  engineWrite s1 earn0 ⟨S "e1", arn0, S "SUCCEEDED", jstr "{}", jstr "{}", 1003, .num 1004, []⟩
/-- the witness of the repaired defect: a valid role next to an undecodable definition -/
private def pBadUpdate : Params :=
  [(S "stateMachineArn", .str arn0), (S "roleArn", .str role1), (S "definition", .str (S "{bad"))]

private def okIs {α : Type} [DecidableEq α] (x : Except Str α) (v : α) : Bool :=
  match x with
  | .ok a => a = v
  | .error _ => false
private theorem okIs_eq {α : Type} [DecidableEq α] (x : Except Str α) (v : α) (h : okIs x v = true) :
    x = .ok v := by
  cases x <;> simp_all [okIs]
private theorem ex_of_any {α : Type} (o : Option α) (P : α → Bool) (h : o.any P = true) :
    ∃ a, o = some a ∧ P a = true := by
  cases o <;> simp_all
private def okAny {α : Type} (x : Except Str α) (P : α → Bool) : Bool :=
  match x with
  | .ok a => P a
  | .error _ => false
private theorem ex_of_okAny {α : Type} (x : Except Str α) (P : α → Bool) (h : okAny x P = true) :
    ∃ a, x = .ok a ∧ P a = true := by
  cases x <;> simp_all [okAny]

-- create_then_describe / create_twice_refused: the create is accepted, its ARN is describable
example : (step cfg0 env0 State.empty (req "CreateStateMachine" pCreate)).2 =
    .ok (.obj [(S "creationDate", .num 1000), (S "stateMachineArn", .str arn0)]) ∧
    validSmArn arn0 = true ∧ arg pArn "stateMachineArn" = some (.str arn0) := by decide +kernel

-- create_stores_arguments
example : ∃ x, validateCreate cfg0 env0 State.empty pCreate = .ok x ∧
    (x.1 = arn0 && x.2.definition.truthy) = true :=
  ex_of_okAny _ _ (by decide +kernel)

-- duplicate_refused
example : (∃ x, createKey cfg0 pCreate = .ok x ∧ decide (x.1 = arn0) = true) ∧
    (lookup s1.machines arn0).isSome = true :=
  ⟨ex_of_okAny (createKey cfg0 pCreate) (fun x => decide (x.1 = arn0)) (by decide +kernel), by decide +kernel⟩

-- error_leaves_state / error_publishes_nothing / history_errors_are_noops, on a store that has
-- something to lose: the update is refused (InvalidDefinition) although its role is valid
example : step cfg0 env1 s1 (req "UpdateStateMachine" pBadUpdate) = (s1, .error (S "InvalidDefinition")) ∧
    (step cfg0 env1 s1 (req "UpdateStateMachine" pBadUpdate)).2.isError = true ∧
    s1.machines ≠ [] := by decide +kernel

-- unknown_refused / unknown_start_refused (empty store), unknown_execution_refused (s1)
example : arnArg validSmArn (arg pArn "stateMachineArn") = .ok arn0 ∧
    lookup State.empty.machines arn0 = none ∧
    arnArg validExecArn (arg pExec "executionArn") = .ok earn0 ∧ lookup s1.executions earn0 = none ∧
    startArgs env1 pArn = .ok (arn0, S "uuid-1", .obj []) :=
  ⟨okIs_eq _ _ (by decide +kernel), by decide +kernel, okIs_eq _ _ (by decide +kernel), by decide +kernel,
   okIs_eq _ _ (by decide +kernel)⟩

-- update_only_supplied / update_advances_updateDate: only the role is supplied, the clock moved
example : (step cfg0 env1 s1 (req "UpdateStateMachine"
      [(S "stateMachineArn", .str arn0), (S "roleArn", .str role1)])).2 =
    .ok (.obj [(S "updateDate", .num 1007)]) ∧
    truthyArg (arg [(S "stateMachineArn", .str arn0), (S "roleArn", .str role1)] "definition") = false ∧
    (∃ m, lookup s1.machines arn0 = some m ∧ decide (m.updateDate < env1.now) = true) :=
  ⟨by decide +kernel, by decide +kernel, ex_of_any _ _ (by decide +kernel)⟩

-- delete_visible
example : (step cfg0 env1 s1 (req "DeleteStateMachine" pArn)).2 = .okEmpty := by decide +kernel

-- list_is_live_set / list_executions_is_live_set / describe_for_execution_links on s2
example : WF s2 ∧ keys s2.machines = [arn0] ∧
    arnArg validSmArn (arg pArn "stateMachineArn") = .ok arn0 ∧ (lookup s2.machines arn0).isSome = true ∧
    (listExecutions s2 arn0 (statusFilter (some (jstr "SUCCEEDED")))).length = 1 ∧
    listExecutions s2 arn0 (statusFilter (some (jstr "FAILED"))) = [] ∧
    arnArg validExecArn (arg pExec "executionArn") = .ok earn0 ∧
    (∃ e, lookup s2.executions earn0 = some e ∧
      (validSmArn e.stateMachineArn && (lookup s2.machines e.stateMachineArn).isSome) = true) :=
  ⟨wf_apply cfg0 _ (.engine _ _) (wf_apply cfg0 _ (.call env0 _) wf_empty),
   by decide +kernel, okIs_eq _ _ (by decide +kernel), by decide +kernel, by decide +kernel,
   by decide +kernel, okIs_eq _ _ (by decide +kernel), ex_of_any _ _ (by decide +kernel)⟩

-- no_internal_error speaks about every request; the one a front end used to answer 500:
example : (step cfg0 env1 s1 ⟨S "DescribeExecution", some (.num 5)⟩).2 =
    .error (S "SerializationException") := by decide +kernel

end Asl.C10
