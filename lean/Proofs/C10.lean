/-
C10 — the state-machine and execution API behaves like a simple keyed store.

Property theorems and non-vacuity examples only; helper lemmas live in Proofs/Lemmas.
The statements are about `Api.step` (the reference model the implementation's answers are
compared with on every run): all configurations, environments (clock, uuid, lint verdict,
broker verdict, engine answer), states, actions and raw JSON arguments — no bound on the store
or on the history.  `api_refines_keyed_store` ties `Api.step` to the specification
`Api.Spec.step` over plain finite maps (AslModel/ApiSpec.lean) for every history.
-/
import Proofs.Lemmas.ApiRefine
import Proofs.Lemmas.JsonParseWf
namespace Asl.C10
open Asl Asl.Api

/-- a request with an object body -/
abbrev req (action : String) (p : Params) : Call := ⟨S action, some (.obj p)⟩

/-! ### an error answer leaves every stored record as it was; no internal error -/

/-- every action (the thirteen and the unknown ones), every argument, every environment:
an answer that is an error — a refusal, the 500 of a refused publish, the 408 of a
synchronous execution the engine did not finish — leaves all three stores as they were -/
theorem error_leaves_state (cfg : Cfg) (env : Env) (s : State) (c : Call)
    (h : (step cfg env s c).2.isError = true) : (step cfg env s c).1 = s := by
  rcases step_cases cfg env s c with ⟨hs, _⟩ | ⟨p, _, _, hs, _⟩ | ⟨p, e, _, _, hs, _⟩ | ⟨p, v, _, hh, hs, _⟩
  · rw [hs]
  · rw [hs]
  · rw [hs]
  · rw [hs] at h ⊢
    simp only at h ⊢
    rcases verdict_shape cfg env _ _ _ _ p v hh with ⟨_, hp⟩ | ⟨he, _⟩ | ⟨he, _⟩
    · rw [(answer_plain env s v.reply hp).1] at h; cases h
    · rw [he]; rfl
    · rw [he]; rfl

/-- a request that is turned away hands nothing to the event dispatcher -/
theorem error_publishes_nothing (cfg : Cfg) (env : Env) (s : State) (c : Call)
    (h : (step cfg env s c).2.isRefusal = true) : published cfg env s c = none := by
  rcases step_cases cfg env s c with ⟨_, hp⟩ | ⟨p, _, _, _, hp⟩ | ⟨p, e, _, _, _, hp⟩ | ⟨p, v, _, hh, hs, hp⟩
  · exact hp
  · exact hp
  · exact hp
  · rw [hp]
    rw [hs] at h
    simp only at h
    rcases verdict_shape cfg env _ _ _ _ p v hh with ⟨hn, _⟩ | ⟨_, _, hn, _⟩ | ⟨_, _, _, hr⟩
    · exact hn
    · exact hn
    · rcases hr with ⟨_, j, hj⟩ | ⟨_, hj⟩
      · rw [hj] at h; simp [State.answer, Response.isRefusal] at h
      · rw [hj] at h
        rcases answer_sync env s with ⟨ha, _⟩ | ⟨d, ha, _⟩ <;> rw [ha] at h <;>
          simp [Response.isRefusal] at h

/-- the one error answer that is not a refusal: 408, given only by an accepted
StartSyncExecution (which did publish its start event) when the engine handed nothing back -/
theorem timed_out_only_sync (cfg : Cfg) (env : Env) (s : State) (c : Call)
    (h : (step cfg env s c).2 = .timedOut) :
    c.action = S "StartSyncExecution" ∧ env.syncOutcome = none ∧ env.publishFails = false ∧
    (published cfg env s c).isSome = true ∧ (step cfg env s c).1 = s := by
  have hst := error_leaves_state cfg env s c (by rw [h]; rfl)
  rcases step_cases cfg env s c with ⟨hs, _⟩ | ⟨p, _, _, hs, _⟩ | ⟨p, e, _, _, hs, _⟩ | ⟨p, v, _, hh, hs, hp⟩
  · rw [hs] at h; cases h
  · rw [hs] at h; cases h
  · rw [hs] at h; cases h
  · rw [hs] at h
    simp only at h
    rcases verdict_shape cfg env _ _ _ _ p v hh with ⟨_, hpl⟩ | ⟨_, hr, _⟩ | ⟨_, hf, hsome, hr⟩
    · have := (answer_plain env s v.reply hpl).1
      rw [h] at this; cases this
    · rw [hr] at h; cases h
    · rcases hr with ⟨_, j, hj⟩ | ⟨ha, hj⟩
      · rw [hj] at h; cases h
      · rw [hj] at h
        rcases answer_sync env s with ⟨_, ho⟩ | ⟨d, hd, _⟩
        · exact ⟨ha, ho, hf, by rw [hp]; exact hsome, hst⟩
        · rw [hd] at h; cases h

/-- with a broker that takes the start message no request of any kind is answered 5xx -/
theorem no_internal_error (cfg : Cfg) (env : Env) (s : State) (c : Call)
    (hb : env.publishFails = false) :
    (step cfg env s c).2 ≠ .internalError ∧ (step cfg env s c).2.status < 500 := by
  rcases step_cases cfg env s c with ⟨hs, _⟩ | ⟨p, _, _, hs, _⟩ | ⟨p, e, _, _, hs, _⟩ | ⟨p, v, _, hh, hs, _⟩
  · rw [hs]; simp [Response.status]
  · rw [hs]; simp [Response.status]
  · rw [hs]; simp [Response.status]
  · rw [hs]
    simp only
    rcases verdict_shape cfg env _ _ _ _ p v hh with ⟨_, hpl⟩ | ⟨_, _, _, hf, _⟩ | ⟨_, _, _, hr⟩
    · obtain ⟨h1, h2⟩ := answer_plain env s v.reply hpl
      refine ⟨fun e => ?_, by rw [h2]; decide⟩
      rw [e] at h1; cases h1
    · rw [hb] at hf; cases hf
    · rcases hr with ⟨_, j, hj⟩ | ⟨_, hj⟩
      · rw [hj]; simp [State.answer, Response.status]
      · rw [hj]
        rcases answer_sync env s with ⟨ha, _⟩ | ⟨d, ha, _⟩ <;> rw [ha] <;> simp [Response.status]

/-- the documented 500: only StartExecution / StartSyncExecution, only when the broker refused
the start message; nothing was stored and nothing published -/
theorem internal_error_only_failed_publish (cfg : Cfg) (env : Env) (s : State) (c : Call)
    (h : (step cfg env s c).2 = .internalError) :
    env.publishFails = true ∧ (c.action = S "StartExecution" ∨ c.action = S "StartSyncExecution") ∧
    (step cfg env s c).1 = s ∧ published cfg env s c = none := by
  have hst := error_leaves_state cfg env s c (by rw [h]; rfl)
  have hpn := error_publishes_nothing cfg env s c (by rw [h]; rfl)
  refine ⟨?_, ?_, hst, hpn⟩
  · cases hb : env.publishFails with
    | true => rfl
    | false => exact absurd h (no_internal_error cfg env s c hb).1
  · rcases step_cases cfg env s c with ⟨hs, _⟩ | ⟨p, _, _, hs, _⟩ | ⟨p, e, _, _, hs, _⟩ | ⟨p, v, _, hh, hs, _⟩
    · rw [hs] at h; cases h
    · rw [hs] at h; cases h
    · rw [hs] at h; cases h
    · rw [hs] at h
      simp only at h
      rcases verdict_shape cfg env _ _ _ _ p v hh with ⟨_, hpl⟩ | ⟨_, _, _, _, ha⟩ | ⟨_, _, _, hr⟩
      · have := (answer_plain env s v.reply hpl).1
        rw [h] at this; cases this
      · exact ha
      · rcases hr with ⟨_, j, hj⟩ | ⟨_, hj⟩
        · rw [hj] at h; cases h
        · rw [hj] at h
          rcases answer_sync env s with ⟨ha, _⟩ | ⟨d, ha, _⟩ <;> rw [ha] at h <;> cases h

/-- the same over whole histories: the stores after a history are those after its successful
requests and engine writes only -/
theorem history_errors_are_noops (cfg : Cfg) (s : State) (env : Env) (c : Call) (rest : List Event)
    (h : (step cfg env s c).2.isError = true) :
    run cfg s (.call env c :: rest) = run cfg s rest := by
  simp [run, apply, error_leaves_state cfg env s c h]

/-! ### a created definition is described back unchanged -/

/-- what a successful CreateStateMachine stores is what was sent: the decoded definition
text, the name, the role; both dates are the clock; the ARN was free -/
theorem create_stores_arguments (cfg : Cfg) (env : Env) (ms : Lk Machine) (p : Params) (arn : Str) (m : Machine)
    (h : validateCreate cfg env ms p = .ok (arn, m)) :
    ∃ t, arg p "definition" = some (.str t) ∧ parseJson t = some m.definition ∧
      arg p "name" = some (.str m.name) ∧ arg p "roleArn" = some (.str m.roleArn) ∧
      m.creationDate = env.now ∧ m.updateDate = env.now ∧ ms arn = none ∧
      (cfg.quirks.createUncheckedArn = false → validSmArn arn = true) := by
  obtain ⟨hk, hl, hd, _, _, hc, hu⟩ := validateCreate_ok cfg env ms p arn m h
  obtain ⟨hn, _, hr, _, _, hva, _⟩ := createKey_ok cfg p arn m.name m.roleArn m.type hk
  obtain ⟨t, ht, hp, hne, _⟩ := decodeDefinition_ok cfg env _ _ hd
  refine ⟨t, ?_, hp, hn, hr, hc, hu, hl, hva⟩
  cases hga : arg p "definition" with
  | none => simp [hga] at ht; exact absurd ht hne
  | some j => simp [hga] at ht; rw [ht]

/-- the definition described is the definition created, for every definition the create
accepted.  CreateStateMachine answered 200 (any configuration without the recorded deviation
C10-F5, any clock, store and arguments): its answer names an ARN; the sent `definition` is a
text `t` denoting a JSON value `d`; and DescribeStateMachine of that ARN — at any later clock —
answers 200 with the record, whose `definition` member is a text `t'` that denotes the same
value `d` (`json.loads(t') = json.loads(t)`), and whose name and role are the ones sent.
No hypothesis on the ARN: the create has checked that it is one Describe accepts. -/
theorem create_then_describe (cfg : Cfg) (env env' : Env) (s : State) (p q : Params) (body : Json)
    (hq : cfg.quirks.createUncheckedArn = false)
    (h : (step cfg env s (req "CreateStateMachine" p)).2 = .ok body) :
    ∃ arn t d name role,
      body = .obj [(S "creationDate", .num env.now), (S "stateMachineArn", .str arn)] ∧
      arg p "definition" = some (.str t) ∧ parseJson t = some d ∧
      arg p "name" = some (.str name) ∧ arg p "roleArn" = some (.str role) ∧
      (arg q "stateMachineArn" = some (.str arn) →
        ∃ kvs t',
          step cfg env' (step cfg env s (req "CreateStateMachine" p)).1 (req "DescribeStateMachine" q) =
            ((step cfg env s (req "CreateStateMachine" p)).1, .ok (.obj kvs)) ∧
          objGet kvs (S "definition") = some (.str t') ∧ parseJson t' = some d ∧
          objGet kvs (S "name") = some (.str name) ∧ objGet kvs (S "roleArn") = some (.str role) ∧
          objGet kvs (S "stateMachineArn") = some (.str arn) ∧
          objGet kvs (S "creationDate") = some (.num env.now)) := by
  cases hv : validateCreate cfg env (lookup s.machines) p with
  | error e => simp [req, step_obj, handle_create, hv, finish] at h
  | ok x =>
    obtain ⟨arn, m⟩ := x
    have hstep := step_create_ok cfg env s p arn m hv
    simp only [req] at h ⊢
    rw [hstep] at h ⊢
    obtain ⟨t, ht, hp, hn, hr, hc, _, _, hva⟩ := create_stores_arguments cfg env _ p arn m hv
    have hva := hva hq
    refine ⟨arn, t, m.definition, m.name, m.roleArn, ?_, ht, hp, hn, hr, ?_⟩
    · cases h; rw [hc]
    · intro hqa
      have hne : arn ≠ [] := by
        intro e; subst e; simp [validSmArn, validResArn] at hva
      obtain ⟨kvs, hk, h1, h2, h3, h4, h5, _⟩ := describe_members arn m
      refine ⟨kvs, render m.definition, ?_, h1, parseJson_render_of_parsed t m.definition hp,
        h2, h3, h4, by rw [h5, hc]⟩
      rw [step_describe_ok cfg env' _ q arn m (by rw [hqa]; exact arnArg_ok validSmArn arn hva hne)
        (lookup_insert_same _ _ _), hk]

/-- the recorded deviation (finding C10-F5), formally: with the switch on, a create is answered
200 with an ARN that DescribeStateMachine refuses — the statement above fails -/
theorem unchecked_arn_breaks_create_then_describe :
    ∃ (cfg : Cfg) (env : Env) (p : Params) (arn : Str),
      cfg.quirks.createUncheckedArn = true ∧
      (step cfg env State.empty (req "CreateStateMachine" p)).2 =
        .ok (.obj [(S "creationDate", .num env.now), (S "stateMachineArn", .str arn)]) ∧
      (step cfg env (step cfg env State.empty (req "CreateStateMachine" p)).1
        (req "DescribeStateMachine" [(S "stateMachineArn", .str arn)])).2 = .error (S "InvalidArn") := by
  refine ⟨⟨S "local", false, true, ⟨true⟩⟩, ⟨1000, S "u", false, false, none⟩,
    [(S "name", .str (S "m1")),
     (S "roleArn", .str (S "arn:aws:iam::" ++ List.replicate 230 '1' ++ S ":role/r")),
     (S "definition", .str (S "{\"StartAt\": \"S\", \"States\": {\"S\": {\"Type\": \"Succeed\"}}}"))],
    S "arn:aws:states:local:" ++ List.replicate 230 '1' ++ S ":stateMachine:m1", rfl, ?_, ?_⟩
  · decide +kernel
  · decide +kernel

/-! ### duplicates are refused -/

/-- a machine with that ARN exists: CreateStateMachine is refused with the documented type
and nothing changes -/
theorem duplicate_refused (cfg : Cfg) (env : Env) (s : State) (p : Params) (arn name role ty : Str)
    (hk : createKey cfg p = .ok (arn, name, role, ty)) (hl : (lookup s.machines arn).isSome = true) :
    step cfg env s (req "CreateStateMachine" p) = (s, .error (S "StateMachineAlreadyExists")) := by
  simp only [req, step_obj, handle_create, validateCreate_dup cfg env (lookup s.machines) p arn name role ty hk hl, finish]

/-- in particular the same request twice: the second is refused whatever the clock says -/
theorem create_twice_refused (cfg : Cfg) (env env' : Env) (s : State) (p : Params) (body : Json)
    (h : (step cfg env s (req "CreateStateMachine" p)).2 = .ok body) :
    step cfg env' (step cfg env s (req "CreateStateMachine" p)).1 (req "CreateStateMachine" p) =
      ((step cfg env s (req "CreateStateMachine" p)).1, .error (S "StateMachineAlreadyExists")) := by
  simp only [req, step_obj, handle_create] at h
  cases hv : validateCreate cfg env (lookup s.machines) p with
  | error e => simp [hv, finish] at h
  | ok x =>
    obtain ⟨arn, m⟩ := x
    obtain ⟨hk, _⟩ := validateCreate_ok cfg env (lookup s.machines) p arn m hv
    have : (step cfg env s (req "CreateStateMachine" p)).1 = { s with machines := insert s.machines arn m } := by
      simp only [req, step_obj, handle_create, hv, finish, State.apply]
    rw [this]
    exact duplicate_refused cfg env' _ p arn _ _ _ hk (by simp [lookup_insert_same])

/-! ### unknown ARNs are refused with the documented type -/

/-- a well-formed state-machine ARN that is not in the store: Update, Delete, Describe and
ListExecutions answer StateMachineDoesNotExist and change nothing -/
theorem unknown_refused (cfg : Cfg) (env : Env) (s : State) (p : Params) (arn : Str)
    (ha : arnArg validSmArn (arg p "stateMachineArn") = .ok arn) (hl : lookup s.machines arn = none) :
    step cfg env s (req "UpdateStateMachine" p) = (s, .error (S "StateMachineDoesNotExist")) ∧
    step cfg env s (req "DeleteStateMachine" p) = (s, .error (S "StateMachineDoesNotExist")) ∧
    step cfg env s (req "DescribeStateMachine" p) = (s, .error (S "StateMachineDoesNotExist")) ∧
    step cfg env s (req "ListExecutions" p) = (s, .error (S "StateMachineDoesNotExist")) := by
  refine ⟨?_, ?_, ?_, ?_⟩
  · simp only [req, step_obj, handle_update, validateUpdate_unknown cfg env (lookup s.machines) p arn ha hl, finish]
  · simp only [req, step_obj, handle_delete, ha, hl, finish]
  · simp only [req, step_obj, handle_describe, ha, hl, finish]
  · simp only [req, step_obj, handle_list_executions, ha, hl, finish]

/-- StartExecution of a machine that is not in the store is never accepted and publishes nothing
(the type is StateMachineDoesNotExist once name and input are acceptable) -/
theorem unknown_start_refused (cfg : Cfg) (env : Env) (s : State) (p : Params) (arn : Str)
    (ha : arnArg validSmArn (arg p "stateMachineArn") = .ok arn) (hl : lookup s.machines arn = none) :
    (step cfg env s (req "StartExecution" p)).2.isError = true ∧
    (step cfg env s (req "StartExecution" p)).1 = s ∧
    published cfg env s (req "StartExecution" p) = none ∧
    (∀ name input, startArgs env p = .ok (arn, name, input) →
      (step cfg env s (req "StartExecution" p)).2 = .error (S "StateMachineDoesNotExist")) := by
  have key : ∀ x, validateStart env (lookup s.machines) p ≠ .ok x := by
    intro x hx
    unfold validateStart at hx
    split at hx
    · cases hx
    · rename_i arn' name input hs
      have : arn' = arn := by
        unfold startArgs at hs
        rw [ha] at hs
        simp only at hs
        repeat' split at hs
        all_goals first | cases hs | skip
        rfl
      subst this
      rw [hl] at hx
      cases hx
  have herr : (step cfg env s (req "StartExecution" p)).2.isError = true := by
    simp only [req, step_obj, handle_start]
    cases hv : validateStart env (lookup s.machines) p with
    | error e => simp [finish, Response.isError]
    | ok x => exact absurd hv (key x)
  have href : (step cfg env s (req "StartExecution" p)).2.isRefusal = true := by
    simp only [req, step_obj, handle_start]
    cases hv : validateStart env (lookup s.machines) p with
    | error e => simp [finish, Response.isRefusal]
    | ok x => exact absurd hv (key x)
  refine ⟨herr, error_leaves_state cfg env s _ herr, error_publishes_nothing cfg env s _ href, ?_⟩
  intro name input hs
  simp only [req, step_obj, handle_start, validateStart, hs, hl, finish]

/-- an execution ARN that is not in the executions store -/
theorem unknown_execution_refused (cfg : Cfg) (env : Env) (s : State) (p : Params) (earn : Str)
    (ha : arnArg validExecArn (arg p "executionArn") = .ok earn) (hl : lookup s.executions earn = none) :
    step cfg env s (req "DescribeExecution" p) = (s, .error (S "ExecutionDoesNotExist")) ∧
    step cfg env s (req "DescribeStateMachineForExecution" p) = (s, .error (S "ExecutionDoesNotExist")) := by
  constructor
  · simp only [req, step_obj, handle_describe_execution, ha, hl, finish]
  · simp only [req, step_obj, handle_describe_for_execution, ha, hl, finish]

/-! ### updates change only the fields supplied and advance updateDate -/

/-- UpdateStateMachine answered 200: the stored record differs from the old one only in the
fields supplied (a supplied role is stored verbatim, a supplied definition text is stored
decoded), `updateDate` is the clock, the answer carries it; every other record of either
store is untouched -/
theorem update_only_supplied (cfg : Cfg) (env : Env) (s : State) (p : Params) (body : Json)
    (h : (step cfg env s (req "UpdateStateMachine" p)).2 = .ok body) :
    ∃ arn m m', lookup s.machines arn = some m ∧
      lookup (step cfg env s (req "UpdateStateMachine" p)).1.machines arn = some m' ∧
      body = .obj [(S "updateDate", .num env.now)] ∧
      m'.name = m.name ∧ m'.type = m.type ∧ m'.creationDate = m.creationDate ∧
      m'.updateDate = env.now ∧
      (truthyArg (arg p "roleArn") = false → m'.roleArn = m.roleArn) ∧
      (truthyArg (arg p "roleArn") = true → arg p "roleArn" = some (.str m'.roleArn)) ∧
      (truthyArg (arg p "definition") = false → m'.definition = m.definition) ∧
      (truthyArg (arg p "definition") = true →
        ∃ t, arg p "definition" = some (.str t) ∧ parseJson t = some m'.definition) ∧
      ((cfg.logging && truthyArg (arg p "loggingConfiguration")) = false → m'.logging = m.logging) ∧
      (∀ k, k ≠ arn → lookup (step cfg env s (req "UpdateStateMachine" p)).1.machines k =
        lookup s.machines k) ∧
      (step cfg env s (req "UpdateStateMachine" p)).1.executions = s.executions := by
  simp only [req, step_obj, handle_update] at h ⊢
  cases hv : validateUpdate cfg env (lookup s.machines) p with
  | error e => simp [hv, finish] at h
  | ok x =>
    obtain ⟨arn, m'⟩ := x
    simp only [hv, finish, State.apply, State.answer] at h ⊢
    obtain ⟨m, role, d, lc, _, hm, hr, hd, hlc, hm'⟩ := validateUpdate_ok cfg env (lookup s.machines) p arn m' hv
    obtain ⟨hr0, hr1⟩ := updRole_ok p role hr
    obtain ⟨hd0, hd1⟩ := updDefinition_ok cfg env p d hd
    obtain ⟨hl0, _⟩ := updLogging_ok cfg p lc hlc
    refine ⟨arn, m, m', hm, lookup_insert_same _ _ _, ?_, ?_, ?_, ?_, ?_, ?_, ?_, ?_, ?_, ?_, ?_, ?_⟩
    · cases h; rw [hm']
    · rw [hm']
    · rw [hm']
    · rw [hm']
    · rw [hm']
    · intro hf; rw [hm', hr0 hf]; rfl
    · intro ht
      obtain ⟨x, hx, hax, _⟩ := hr1 ht
      rw [hm', hx, hax]; rfl
    · intro hf; rw [hm', hd0 hf]; rfl
    · intro ht
      obtain ⟨t, x, hx, hat, hp⟩ := hd1 ht
      exact ⟨t, hat, by rw [hm', hx]; exact hp⟩
    · intro hf; rw [hm', hl0 hf]
    · intro k hk
      exact lookup_insert_ne _ _ _ _ (fun e => hk e.symm)
    · trivial

/-- with a clock that has moved on, `updateDate` advances -/
theorem update_advances_updateDate (cfg : Cfg) (env : Env) (s : State) (p : Params) (body : Json)
    (h : (step cfg env s (req "UpdateStateMachine" p)).2 = .ok body) :
    ∃ arn m m', lookup s.machines arn = some m ∧
      lookup (step cfg env s (req "UpdateStateMachine" p)).1.machines arn = some m' ∧
      (m.updateDate < env.now → m.updateDate < m'.updateDate) := by
  obtain ⟨arn, m, m', h1, h2, _, _, _, _, hu, _⟩ := update_only_supplied cfg env s p body h
  exact ⟨arn, m, m', h1, h2, fun hlt => by rw [hu]; exact hlt⟩

/-! ### deletes are visible at once -/

/-- DeleteStateMachine answered 200: the ARN is gone for every later lookup — Describe, Update,
a second Delete and ListExecutions answer StateMachineDoesNotExist, Create of it is no
duplicate — and every other record is untouched -/
theorem delete_visible (cfg : Cfg) (env env' : Env) (s : State) (p : Params)
    (h : (step cfg env s (req "DeleteStateMachine" p)).2 = .okEmpty) :
    ∃ arn, arnArg validSmArn (arg p "stateMachineArn") = .ok arn ∧
      (lookup s.machines arn).isSome = true ∧
      lookup (step cfg env s (req "DeleteStateMachine" p)).1.machines arn = none ∧
      step cfg env' (step cfg env s (req "DeleteStateMachine" p)).1 (req "DescribeStateMachine" p) =
        ((step cfg env s (req "DeleteStateMachine" p)).1, .error (S "StateMachineDoesNotExist")) ∧
      (∀ k, k ≠ arn → lookup (step cfg env s (req "DeleteStateMachine" p)).1.machines k =
        lookup s.machines k) ∧
      (step cfg env s (req "DeleteStateMachine" p)).1.executions = s.executions := by
  cases ha : arnArg validSmArn (arg p "stateMachineArn") with
  | error e => simp [req, step_obj, handle_delete, ha, finish] at h
  | ok arn =>
    cases hl : lookup s.machines arn with
    | none => simp [req, step_obj, handle_delete, ha, hl, finish] at h
    | some m =>
      have hstep : step cfg env s (req "DeleteStateMachine" p) =
          ({ s with machines := erase s.machines arn }, .okEmpty) := by
        simp only [req, step_obj, handle_delete, ha, hl, finish, State.apply, State.answer]
      rw [hstep]
      refine ⟨arn, rfl, by simp [hl], lookup_erase_same _ _, ?_, ?_, rfl⟩
      · simp only [req, step_obj, handle_describe, ha, lookup_erase_same, finish]
      · intro k hk
        exact lookup_erase_ne _ _ _ (fun e => hk e.symm)

/-! ### the API refines the keyed store, over every history -/

theorem wf_empty : WF State.empty := by simp [WF, State.empty, keys]

/-- every request and every engine write keeps the keys distinct -/
theorem wf_apply (cfg : Cfg) (s : State) (ev : Event) (h : WF s) : WF (apply cfg s ev) := by
  cases ev with
  | engine arn e => exact ⟨h.1, nodup_keys_insert _ _ _ h.2⟩
  | engineLog arn log => exact h
  | call env c => exact (step_refines cfg env s c h).2.2.2

theorem wf_run (cfg : Cfg) (s : State) (evs : List Event) (h : WF s) : WF (run cfg s evs) := by
  induction evs generalizing s with
  | nil => exact h
  | cons ev rest ih => exact ih _ (wf_apply cfg s ev h)

/-- the states reachable by any history from the empty store have distinct keys -/
theorem reachable_wf (cfg : Cfg) (evs : List Event) : WF (run cfg State.empty evs) :=
  wf_run cfg _ evs wf_empty

/-- REFINEMENT.  For every configuration, every store content `s` with distinct keys and every
history `evs` of requests (any action, any body, each with its own clock / uuid / lint verdict /
broker verdict / engine answer) and engine writes (execution records, event logs), run side by
side from `s` and from the finite maps `abs s` it denotes:
* every response of the reference model is the answer of the specification `Spec.step` over the
  three finite maps — equal, except that a list answer is an enumeration without repetition of
  exactly the set of records the specification names (`Spec.Matches`);
* the reference model publishes exactly what the specification publishes;
and the stores after the history denote the specification's maps after it. -/
theorem api_refines_keyed_store_from (cfg : Cfg) (evs : List Event) (s : State) (h : WF s) :
    Refines cfg s (abs s) evs ∧ abs (run cfg s evs) = Spec.run cfg (abs s) evs := by
  induction evs generalizing s with
  | nil => exact ⟨trivial, rfl⟩
  | cons ev rest ih =>
    cases ev with
    | call env c =>
      obtain ⟨hm, hp, ha, hw⟩ := step_refines cfg env s c h
      obtain ⟨ih1, ih2⟩ := ih _ hw
      refine ⟨⟨hm, hp, ?_⟩, ?_⟩
      · rw [← ha]; exact ih1
      · simp only [run, Spec.run, apply, Spec.apply]
        rw [← ha]; exact ih2
    | engine arn e =>
      have hw : WF (engineWrite s arn e) := ⟨h.1, nodup_keys_insert _ _ _ h.2⟩
      obtain ⟨ih1, ih2⟩ := ih _ hw
      have ha := abs_engineWrite s arn e
      refine ⟨?_, ?_⟩
      · show Refines cfg (engineWrite s arn e) _ rest
        simp only [Spec.apply]
        rw [← ha]; exact ih1
      · simp only [run, Spec.run, apply, Spec.apply]
        rw [← ha]; exact ih2
    | engineLog arn log =>
      have hw : WF (engineLog s arn log) := h
      obtain ⟨ih1, ih2⟩ := ih _ hw
      have ha := abs_engineLog s arn log
      refine ⟨?_, ?_⟩
      · show Refines cfg (engineLog s arn log) _ rest
        simp only [Spec.apply]
        rw [← ha]; exact ih1
      · simp only [run, Spec.run, apply, Spec.apply]
        rw [← ha]; exact ih2

/-- … in particular from the empty stores: every history the API can go through -/
theorem api_refines_keyed_store (cfg : Cfg) (evs : List Event) :
    Refines cfg State.empty Spec.State.empty evs ∧
    abs (run cfg State.empty evs) = Spec.run cfg Spec.State.empty evs :=
  api_refines_keyed_store_from cfg evs State.empty wf_empty

/-- the same at any point of any history: after `pre`, the next request is answered as the
specification answers it on the maps the stores denote (the form the corollaries below use) -/
theorem request_refines_after (cfg : Cfg) (pre : List Event) (env : Env) (c : Call) :
    let s := run cfg State.empty pre
    Spec.Matches (abs s) (step cfg env s c).2 (Spec.step cfg env (abs s) c).2.1 ∧
    published cfg env s c = (Spec.step cfg env (abs s) c).2.2 ∧
    abs (step cfg env s c).1 = (Spec.step cfg env (abs s) c).1 := by
  intro s
  obtain ⟨h1, h2, h3, _⟩ := step_refines cfg env s c (reachable_wf cfg pre)
  exact ⟨h1, h2, h3⟩

/-! ### lists enumerate exactly the live set -/

/-- COROLLARY of the refinement.  ListStateMachines — whatever `maxResults` / `nextToken` or
other arguments it is given — never fails, changes nothing, publishes nothing, and answers one
page holding one summary per stored record: the listed (ARN, record) pairs are exactly the
pairs a lookup finds, each ARN once; there is no `nextToken` member. -/
theorem list_is_live_set (cfg : Cfg) (env : Env) (s : State) (p : Params) (h : WF s) :
    ∃ l : List (Str × Machine),
      step cfg env s (req "ListStateMachines" p) =
        (s, .ok (.obj [(S "stateMachines", .arr (l.map (fun kv => Machine.summary kv.1 kv.2)))])) ∧
      published cfg env s (req "ListStateMachines" p) = none ∧
      (l.map (·.1)).Nodup ∧ ∀ arn m, (arn, m) ∈ l ↔ lookup s.machines arn = some m := by
  obtain ⟨hm, hp, _, _⟩ := step_refines cfg env s (req "ListStateMachines" p) h
  have hspec : Spec.step cfg env (abs s) (req "ListStateMachines" p) = (abs s, .machineSet, none) := rfl
  rw [hspec] at hm hp
  obtain ⟨l, hr, hnd, hmem⟩ := hm
  refine ⟨l, ?_, hp, hnd, hmem⟩
  have hst : (step cfg env s (req "ListStateMachines" p)).1 = s := by
    simp only [req, step_obj, handle_list, finish, State.apply]
  exact Prod.ext hst hr

/-- COROLLARY of the refinement.  ListExecutions of an existing machine — whatever `maxResults`
/ `nextToken` — answers one page listing exactly the execution records of that machine whose
status passes the filter: a record is listed iff a lookup finds it under its ARN, it belongs
to the machine, and (filter given and recognised) its status is the filter; each ARN once. -/
theorem list_executions_is_live_set (cfg : Cfg) (env : Env) (s : State) (p : Params) (arn : Str) (m : Machine)
    (h : WF s)
    (ha : arnArg validSmArn (arg p "stateMachineArn") = .ok arn) (hl : lookup s.machines arn = some m) :
    ∃ l : List (Str × Exec),
      step cfg env s (req "ListExecutions" p) =
        (s, .ok (.obj [(S "executions", .arr (l.map (fun kv => Exec.summary kv.1 kv.2)))])) ∧
      published cfg env s (req "ListExecutions" p) = none ∧
      (l.map (·.1)).Nodup ∧
      ∀ k e, (k, e) ∈ l ↔
        (lookup s.executions k = some e ∧ e.stateMachineArn = arn ∧
          ∀ f, statusFilter (arg p "statusFilter") = some f → f = .str e.status) := by
  obtain ⟨hm, hp, _, _⟩ := step_refines cfg env s (req "ListExecutions" p) h
  have hspec : Spec.step cfg env (abs s) (req "ListExecutions" p) =
      (abs s, .executionSet arn (statusFilter (arg p "statusFilter")), none) := by
    show (match decideAction cfg env (lookup s.machines) (lookup s.executions) (lookup s.histories)
      (S "ListExecutions") p with | none => _ | some (.error e) => _ | some (.ok v) => _) = _
    have := handle_list_executions cfg env s p
    simp only [handle, ha, hl] at this
    rw [this]
    rfl
  rw [hspec] at hm hp
  obtain ⟨l, hr, hnd, hmem⟩ := hm
  refine ⟨l, ?_, hp, hnd, ?_⟩
  · have hst : (step cfg env s (req "ListExecutions" p)).1 = s := by
      simp only [req, step_obj, handle_list_executions, ha, hl, finish, State.apply]
    exact Prod.ext hst hr
  · intro k e
    rw [hmem k e]
    simp only [abs, execMatches, Bool.and_eq_true, decide_eq_true_eq]
    constructor
    · rintro ⟨h1, h2, h3⟩
      refine ⟨h1, h2, ?_⟩
      intro f hf
      rw [hf] at h3
      simpa using h3
    · rintro ⟨h1, h2, h3⟩
      refine ⟨h1, h2, ?_⟩
      cases hsf : statusFilter (arg p "statusFilter") with
      | none => rfl
      | some f => simp [h3 f hsf]

/-- neither list action reads `maxResults` / `nextToken`: requests that agree on the
arguments that are read are answered alike -/
theorem list_ignores_paging (cfg : Cfg) (env : Env) (s : State) (p q : Params)
    (h1 : arg p "stateMachineArn" = arg q "stateMachineArn")
    (h2 : arg p "statusFilter" = arg q "statusFilter") :
    step cfg env s (req "ListStateMachines" p) = step cfg env s (req "ListStateMachines" q) ∧
    step cfg env s (req "ListExecutions" p) = step cfg env s (req "ListExecutions" q) := by
  constructor
  · simp only [req, step_obj, handle_list]
  · simp only [req, step_obj, handle_list_executions, h1, h2]

/-! ### reads do not change the stores; only the two starts publish -/

/-- a request that changes any stored record is a Create, Update or Delete that was answered 200;
every other request — all reads, both starts, every refusal — leaves all three stores as they were -/
theorem only_writes_change_state (cfg : Cfg) (env : Env) (s : State) (c : Call)
    (h : (step cfg env s c).1 ≠ s) :
    (c.action = S "CreateStateMachine" ∨ c.action = S "UpdateStateMachine" ∨
      c.action = S "DeleteStateMachine") ∧ (step cfg env s c).2.isError = false ∧
    (step cfg env s c).1.executions = s.executions ∧ (step cfg env s c).1.histories = s.histories := by
  have herr : (step cfg env s c).2.isError = false := by
    cases he : (step cfg env s c).2.isError with
    | false => rfl
    | true => exact absurd (error_leaves_state cfg env s c he) h
  rcases step_cases cfg env s c with ⟨hs, _⟩ | ⟨p, _, _, hs, _⟩ | ⟨p, e, _, _, hs, _⟩ | ⟨p, v, _, hh, hs, _⟩
  · rw [hs] at h; exact absurd rfl h
  · rw [hs] at h; exact absurd rfl h
  · rw [hs] at h; exact absurd rfl h
  · refine ⟨?_, herr, ?_, ?_⟩
    · apply verdict_writes cfg env _ _ _ _ p v hh
      intro he
      rw [hs, he] at h
      exact absurd rfl h
    · rw [hs]; cases v.effect <;> rfl
    · rw [hs]; cases v.effect <;> rfl

/-- the reads: DescribeStateMachine, DescribeStateMachineForExecution, ListStateMachines,
ListExecutions, DescribeExecution, GetExecutionHistory change nothing and publish nothing,
whatever they are given and whatever they answer -/
theorem reads_leave_state (cfg : Cfg) (env : Env) (s : State) (a : Str) (ps : Option Json)
    (ha : a ∈ [S "DescribeStateMachine", S "DescribeStateMachineForExecution", S "ListStateMachines",
               S "ListExecutions", S "DescribeExecution", S "GetExecutionHistory"]) :
    (step cfg env s ⟨a, ps⟩).1 = s ∧ published cfg env s ⟨a, ps⟩ = none := by
  constructor
  · apply Classical.byContradiction
    intro hne
    obtain ⟨hw, _⟩ := only_writes_change_state cfg env s ⟨a, ps⟩ hne
    simp only [List.mem_cons, List.not_mem_nil, or_false] at ha
    rcases ha with e | e | e | e | e | e <;> subst e <;> rcases hw with w | w | w <;>
      (simp only at w; exact absurd w (by decide))
  · rcases step_cases cfg env s ⟨a, ps⟩ with ⟨_, hp⟩ | ⟨p, _, _, _, hp⟩ | ⟨p, e, _, _, _, hp⟩ | ⟨p, v, _, hh, _, hp⟩
    · exact hp
    · exact hp
    · exact hp
    · rw [hp]
      rcases verdict_shape cfg env _ _ _ _ p v hh with ⟨hn, _⟩ | ⟨_, _, hn, _⟩ | ⟨_, _, _, hr⟩
      · exact hn
      · exact hn
      · simp only [List.mem_cons, List.not_mem_nil, or_false] at ha
        rcases hr with ⟨w, _⟩ | ⟨w, _⟩ <;> simp only at w <;> subst w <;>
          rcases ha with e | e | e | e | e | e <;> exact absurd e (by decide)

/-! ### GetExecutionHistory reads the stored event log -/

/-- an execution with a (non-empty) stored log: the answer is the log itself, first event
first — or, with a truthy `reverseOrder`, exactly its reverse; one page, no `nextToken` -/
theorem history_is_stored_log (cfg : Cfg) (env : Env) (s : State) (p : Params) (earn : Str)
    (ev : Json) (log : List Json)
    (ha : arnArg validExecArn (arg p "executionArn") = .ok earn)
    (hl : lookup s.histories earn = some (ev :: log)) :
    step cfg env s (req "GetExecutionHistory" p) =
      (s, .ok (.obj [(S "events",
        .arr (if truthyArg (arg p "reverseOrder") then (ev :: log).reverse else ev :: log))])) := by
  simp only [req, step_obj, handle_history, ha, hl, finish, Verdict.read, State.apply, State.answer]

/-- reverse = exact reverse of forward: two requests for the same execution, one without
(falsy) and one with (truthy) `reverseOrder`, at any two clocks on the same stores — when the
first is answered with events `l` the second is answered with `l.reverse`, and vice versa -/
theorem history_reverse_is_reverse (cfg : Cfg) (env env' : Env) (s : State) (p q : Params) (l : List Json)
    (hsame : arg p "executionArn" = arg q "executionArn")
    (hp : truthyArg (arg p "reverseOrder") = false) (hq : truthyArg (arg q "reverseOrder") = true) :
    ((step cfg env s (req "GetExecutionHistory" p)).2 = .ok (.obj [(S "events", .arr l)]) →
      step cfg env' s (req "GetExecutionHistory" q) = (s, .ok (.obj [(S "events", .arr l.reverse)]))) ∧
    ((step cfg env' s (req "GetExecutionHistory" q)).2 = .ok (.obj [(S "events", .arr l)]) →
      step cfg env s (req "GetExecutionHistory" p) = (s, .ok (.obj [(S "events", .arr l.reverse)]))) := by
  have hun := fun (env : Env) (r : Params) => history_refused cfg env s r
  cases ha : arnArg validExecArn (arg p "executionArn") with
  | error e =>
    have h1 := ((hun env p).2 e ha)
    have h2 := ((hun env' q).2 e (by rw [← hsame]; exact ha))
    rw [h1, h2]
    constructor <;> (intro h; simp at h)
  | ok earn =>
    have haq : arnArg validExecArn (arg q "executionArn") = .ok earn := by rw [← hsame]; exact ha
    cases hl : lookup s.histories earn with
    | none =>
      rw [(hun env p).1 earn ha (Or.inl hl), (hun env' q).1 earn haq (Or.inl hl)]
      constructor <;> (intro h; simp at h)
    | some log =>
      cases log with
      | nil =>
        rw [(hun env p).1 earn ha (Or.inr hl), (hun env' q).1 earn haq (Or.inr hl)]
        constructor <;> (intro h; simp at h)
      | cons ev log =>
        rw [history_is_stored_log cfg env s p earn ev log ha hl,
            history_is_stored_log cfg env' s q earn ev log haq hl, hp, hq]
        simp only [Bool.false_eq_true, if_false, if_true]
        constructor
        · intro h
          cases h
          rfl
        · intro h
          cases h
          simp

/-- an execution without a log (never started, EXPRESS, or — as the code reads it — an empty log)
is refused as ExecutionDoesNotExist; a missing / falsy ARN argument as MissingRequiredParameter,
any other value that is not an execution ARN as InvalidArn; the stores stay as they were -/
theorem history_unknown_refused (cfg : Cfg) (env : Env) (s : State) (p : Params) :
    (∀ earn, arnArg validExecArn (arg p "executionArn") = .ok earn →
      (lookup s.histories earn = none ∨ lookup s.histories earn = some []) →
      step cfg env s (req "GetExecutionHistory" p) = (s, .error (S "ExecutionDoesNotExist"))) ∧
    (∀ e, arnArg validExecArn (arg p "executionArn") = .error e →
      step cfg env s (req "GetExecutionHistory" p) = (s, .error e) ∧
      (e = S "MissingRequiredParameter" ∨ e = S "InvalidArn")) ∧
    (truthyArg (arg p "executionArn") = false →
      step cfg env s (req "GetExecutionHistory" p) = (s, .error (S "MissingRequiredParameter"))) := by
  refine ⟨?_, ?_, ?_⟩
  · intro earn ha hl
    rcases hl with hl | hl <;>
      simp only [req, step_obj, handle_history, ha, hl, finish]
  · intro e ha
    refine ⟨?_, arnArg_error _ _ _ ha⟩
    simp only [req, step_obj, handle_history, ha, finish]
  · intro hf
    have : arnArg validExecArn (arg p "executionArn") = .error (S "MissingRequiredParameter") := by
      simp [arnArg, hf]
    simp only [req, step_obj, handle_history, this, finish]

/-! ### StartSyncExecution: what it refuses, and that a refusal is a no-op -/

/-- every refusal of StartSyncExecution carries one of six documented types, leaves all stores
as they were and publishes nothing; on the blocking front end the action does not exist -/
theorem start_sync_refusal (cfg : Cfg) (env : Env) (s : State) (p : Params) :
    (∀ t, (step cfg env s (req "StartSyncExecution" p)).2 = .error t →
      t ∈ [S "MissingRequiredParameter", S "InvalidArn", S "InvalidName", S "InvalidExecutionInput",
           S "StateMachineDoesNotExist", S "StateMachineTypeNotSupported"]) ∧
    ((step cfg env s (req "StartSyncExecution" p)).2.isRefusal = true →
      (step cfg env s (req "StartSyncExecution" p)).1 = s ∧
      published cfg env s (req "StartSyncExecution" p) = none) ∧
    (cfg.logging = false → step cfg env s (req "StartSyncExecution" p) = (s, .invalidAction)) := by
  refine ⟨?_, ?_, ?_⟩
  · intro t h
    simp only [req, step_obj, handle_start_sync] at h
    cases hc : cfg.logging with
    | false => simp [hc, finish] at h
    | true =>
      simp only [hc, Bool.not_true, Bool.false_eq_true, if_false] at h
      cases hv : validateStartSync env (lookup s.machines) p with
      | error e =>
        simp only [hv, finish, Prod.mk.injEq, Response.error.injEq] at h
        rw [← h]
        exact validateStartSync_error env _ p e hv
      | ok x =>
        simp only [hv, finish, startVerdict] at h
        split at h
        · simp [State.answer] at h
        · rcases answer_sync env s with ⟨ha, _⟩ | ⟨d, ha, _⟩ <;> rw [ha] at h <;> cases h
  · intro h
    have he : (step cfg env s (req "StartSyncExecution" p)).2.isError = true := by
      cases hr : (step cfg env s (req "StartSyncExecution" p)).2 <;> simp_all [Response.isRefusal, Response.isError]
    exact ⟨error_leaves_state cfg env s _ he, error_publishes_nothing cfg env s _ h⟩
  · intro hc
    simp only [req, step_obj, handle_start_sync, hc, finish]
    rfl

/-- an existing machine that is not EXPRESS: refused with StateMachineTypeNotSupported (once
ARN, name and input are acceptable), nothing changes, nothing is published — while
StartExecution of the same arguments is accepted -/
theorem start_sync_needs_express (cfg : Cfg) (env : Env) (s : State) (p : Params)
    (x : Str × Str × Json × Str × Machine) (hc : cfg.logging = true)
    (hv : validateStart env (lookup s.machines) p = .ok x) (ht : x.2.2.2.2.type ≠ S "EXPRESS") :
    step cfg env s (req "StartSyncExecution" p) = (s, .error (S "StateMachineTypeNotSupported")) ∧
    published cfg env s (req "StartSyncExecution" p) = none ∧
    (env.publishFails = false → published cfg env s (req "StartExecution" p) = some (startEvent true x)) := by
  obtain ⟨earn, name, input, arn, m⟩ := x
  have hs : validateStartSync env (lookup s.machines) p = .error (S "StateMachineTypeNotSupported") := by
    simp only [validateStartSync, hv]
    simp only at ht
    simp [ht]
  have hstep : step cfg env s (req "StartSyncExecution" p) = (s, .error (S "StateMachineTypeNotSupported")) := by
    simp only [req, step_obj, handle_start_sync, hc, hs, finish]
    rfl
  refine ⟨hstep, error_publishes_nothing cfg env s _ (by rw [hstep]; rfl), ?_⟩
  intro hb
  simp only [req, published_obj, handle_start, hv, startVerdict, hb]
  rfl

/-- an accepted StartSyncExecution (asyncio front end, arguments acceptable, EXPRESS machine,
broker up): the stores stay as they were, the start event goes to this instance's own queue
(`shared = false`) and carries the execution ARN formed from the machine ARN and the name;
the answer is the engine's, or 408 when the timer fired first -/
theorem start_sync_accepted (cfg : Cfg) (env : Env) (s : State) (p : Params)
    (x : Str × Str × Json × Str × Machine) (hc : cfg.logging = true) (hb : env.publishFails = false)
    (hv : validateStartSync env (lookup s.machines) p = .ok x) :
    (step cfg env s (req "StartSyncExecution" p)).1 = s ∧
    published cfg env s (req "StartSyncExecution" p) = some (startEvent false x) ∧
    (∀ d, env.syncOutcome = some d → (step cfg env s (req "StartSyncExecution" p)).2 = .ok d) ∧
    (env.syncOutcome = none → (step cfg env s (req "StartSyncExecution" p)).2 = .timedOut) ∧
    validateStart env (lookup s.machines) p = .ok x ∧ x.2.2.2.2.type = S "EXPRESS" := by
  have hstart : validateStart env (lookup s.machines) p = .ok x ∧ x.2.2.2.2.type = S "EXPRESS" := by
    unfold validateStartSync at hv
    split at hv
    · cases hv
    · rename_i earn name input arn m hvs
      split at hv
      · rename_i hty
        cases hv
        exact ⟨hvs, hty⟩
      · cases hv
  refine ⟨?_, ?_, ?_, ?_, hstart⟩
  · simp only [req, step_obj, handle_start_sync, hc, hv, finish, startVerdict, hb]
    rfl
  · simp only [req, published_obj, handle_start_sync, hc, hv, startVerdict, hb]
    rfl
  · intro d hd
    simp only [req, step_obj, handle_start_sync, hc, hv, finish, startVerdict, hb]
    simp [State.answer, hd]
  · intro hd
    simp only [req, step_obj, handle_start_sync, hc, hv, finish, startVerdict, hb]
    simp [State.answer, hd]

/-- the recognised filters: a status name selects that status, nothing / null / an
unrecognised value selects every status -/
theorem status_filter_cases (a : Option Json) :
    (∀ f, f ∈ statusNames → statusFilter (some (.str f)) = some (.str f)) ∧
    statusFilter none = none ∧ statusFilter (some .null) = none ∧
    (∀ f, f ∉ statusNames → f ≠ [] → statusFilter (some (.str f)) = none) := by
  refine ⟨?_, rfl, rfl, ?_⟩
  · intro f hf
    have hne : f ≠ [] := by
      intro e; subst e; simp [statusNames, S] at hf
    cases f with
    | nil => exact absurd rfl hne
    | cons c cs => simp [statusFilter, Json.truthy, hf]
  · intro f hf hne
    cases f with
    | nil => exact absurd rfl hne
    | cons c cs => simp [statusFilter, Json.truthy, hf]

/-! ### DescribeStateMachineForExecution follows the link of the execution record -/

theorem describe_for_execution_links (cfg : Cfg) (env : Env) (s : State) (p : Params)
    (earn : Str) (e : Exec) (m : Machine)
    (ha : arnArg validExecArn (arg p "executionArn") = .ok earn)
    (he : lookup s.executions earn = some e) (hv : validSmArn e.stateMachineArn = true)
    (hm : lookup s.machines e.stateMachineArn = some m) :
    step cfg env s (req "DescribeStateMachineForExecution" p) =
      (s, .ok (m.forExecution e.stateMachineArn)) ∧
    step cfg env s (req "DescribeExecution" p) = (s, .ok (e.toJson earn)) := by
  constructor
  · simp only [req, step_obj, handle_describe_for_execution, ha, he, hv, hm, finish]
    simp [Verdict.read, State.apply, State.answer]
  · simp only [req, step_obj, handle_describe_execution, ha, he, finish, Verdict.read, State.apply, State.answer]

/-- … and when the link dangles: an execution record whose `stateMachineArn` is not a
state-machine ARN is answered InvalidArn, one whose machine is gone (deleted since, or never
there) StateMachineDoesNotExist — the stores stay as they were, and DescribeExecution still
answers the record -/
theorem describe_for_execution_dangling (cfg : Cfg) (env : Env) (s : State) (p : Params)
    (earn : Str) (e : Exec)
    (ha : arnArg validExecArn (arg p "executionArn") = .ok earn)
    (he : lookup s.executions earn = some e) :
    (validSmArn e.stateMachineArn = false →
      step cfg env s (req "DescribeStateMachineForExecution" p) = (s, .error (S "InvalidArn"))) ∧
    (validSmArn e.stateMachineArn = true → lookup s.machines e.stateMachineArn = none →
      step cfg env s (req "DescribeStateMachineForExecution" p) =
        (s, .error (S "StateMachineDoesNotExist"))) ∧
    step cfg env s (req "DescribeExecution" p) = (s, .ok (e.toJson earn)) := by
  refine ⟨?_, ?_, ?_⟩
  · intro hv
    simp only [req, step_obj, handle_describe_for_execution, ha, he, hv, finish]
    simp
  · intro hv hm
    simp only [req, step_obj, handle_describe_for_execution, ha, he, hv, hm, finish]
    simp
  · simp only [req, step_obj, handle_describe_execution, ha, he, finish, Verdict.read, State.apply, State.answer]

/-! ### non-vacuity: the hypotheses above are met by concrete, non-trivial requests -/

private def cfg0 : Cfg := { region := S "local", validateAsl := false, logging := true }
private def cfgB : Cfg := { region := S "local", validateAsl := false, logging := false }
private def env0 : Env := { now := 1000, fresh := S "uuid-0", lintBad := false }
private def env1 : Env := { now := 1007, fresh := S "uuid-1", lintBad := false }
/-- the broker refuses the start message -/
private def envDown : Env := { now := 1007, fresh := S "uuid-1", lintBad := false, publishFails := true }
/-- the engine hands an execution detail back to a synchronous start -/
private def envDone : Env :=
  { now := 1007, fresh := S "uuid-1", lintBad := false,
    syncOutcome := some (.obj [(S "status", jstr "SUCCEEDED"), (S "output", jstr "{}")]) }
private def role0 : Str := S "arn:aws:iam::0123456789:role/r"
private def role1 : Str := S "arn:aws:iam::42:role/x"
private def arn0 : Str := S "arn:aws:states:local:0123456789:stateMachine:m1"
private def arnX : Str := S "arn:aws:states:local:0123456789:stateMachine:x1"
private def earn0 : Str := S "arn:aws:states:local:0123456789:execution:m1:e1"
private def defText : Str := S "{\"StartAt\": \"S\", \"States\": {\"S\": {\"Type\": \"Succeed\"}}}"
private def pCreate : Params :=
  [(S "name", .str (S "m1")), (S "roleArn", .str role0), (S "definition", .str defText)]
private def pCreateX : Params :=
  [(S "name", .str (S "x1")), (S "roleArn", .str role0), (S "definition", .str defText),
   (S "type", jstr "EXPRESS")]
private def pArn : Params := [(S "stateMachineArn", .str arn0)]
private def pArnX : Params := [(S "stateMachineArn", .str arnX), (S "name", .str (S "e9"))]
private def pExec : Params := [(S "executionArn", .str earn0)]
private def pExecRev : Params := [(S "executionArn", .str earn0), (S "reverseOrder", .bool true)]
/-- the store after one successful CreateStateMachine -/
private def s1 : State := (step cfg0 env0 State.empty (req "CreateStateMachine" pCreate)).1
/-- … and after the engine recorded a finished execution of it and its event log -/
private def evs0 : List Json :=
  [.obj [(S "id", .num 1), (S "type", jstr "ExecutionStarted")],
   .obj [(S "id", .num 2), (S "type", jstr "SucceedStateEntered")],
   .obj [(S "id", .num 3), (S "type", jstr "ExecutionSucceeded")]]
private def s2 : State :=
  engineLog
    (engineWrite s1 earn0 ⟨S "e1", arn0, S "SUCCEEDED", jstr "{}", jstr "{}", 1003, .num 1004, []⟩)
    earn0 evs0
/-- … and with an EXPRESS machine next to the STANDARD one -/
private def s3 : State := (step cfg0 env1 s2 (req "CreateStateMachine" pCreateX)).1
/-- the witness of the repaired defect: a valid role next to an undecodable definition -/
private def pBadUpdate : Params :=
  [(S "stateMachineArn", .str arn0), (S "roleArn", .str role1), (S "definition", .str (S "{bad"))]

private def okIs {α : Type} [DecidableEq α] (x : Except Str α) (v : α) : Bool :=
  match x with
  | .ok a => a = v
  | .error _ => false
private theorem okIs_eq {α : Type} [DecidableEq α] (x : Except Str α) (v : α) (h : okIs x v = true) :
    x = .ok v := by
  cases x <;> simp_all [okIs]
private def errIs {α : Type} (x : Except Str α) (v : Str) : Bool :=
  match x with
  | .ok _ => false
  | .error e => e = v
private theorem errIs_eq {α : Type} (x : Except Str α) (v : Str) (h : errIs x v = true) :
    x = .error v := by
  cases x <;> simp_all [errIs]
private theorem ex_of_any {α : Type} (o : Option α) (P : α → Bool) (h : o.any P = true) :
    ∃ a, o = some a ∧ P a = true := by
  cases o <;> simp_all
private def okAny {α : Type} (x : Except Str α) (P : α → Bool) : Bool :=
  match x with
  | .ok a => P a
  | .error _ => false
private theorem ex_of_okAny {α : Type} (x : Except Str α) (P : α → Bool) (h : okAny x P = true) :
    ∃ a, x = .ok a ∧ P a = true := by
  cases x <;> simp_all [okAny]

-- create_then_describe / create_twice_refused: the switch is off, the create is accepted, and
-- the request that describes the returned ARN exists
example : cfg0.quirks.createUncheckedArn = false ∧
    (step cfg0 env0 State.empty (req "CreateStateMachine" pCreate)).2 =
      .ok (.obj [(S "creationDate", .num 1000), (S "stateMachineArn", .str arn0)]) ∧
    arg pArn "stateMachineArn" = some (.str arn0) := by decide +kernel

-- create_stores_arguments
example : ∃ x, validateCreate cfg0 env0 (lookup State.empty.machines) pCreate = .ok x ∧
    (x.1 = arn0 && x.2.definition.truthy) = true :=
  ex_of_okAny _ _ (by decide +kernel)

-- duplicate_refused
example : (∃ x, createKey cfg0 pCreate = .ok x ∧ decide (x.1 = arn0) = true) ∧
    (lookup s1.machines arn0).isSome = true :=
  ⟨ex_of_okAny (createKey cfg0 pCreate) (fun x => decide (x.1 = arn0)) (by decide +kernel), by decide +kernel⟩

-- error_leaves_state / error_publishes_nothing / history_errors_are_noops, on a store that has
-- something to lose: the update is refused (InvalidDefinition) although its role is valid
example : step cfg0 env1 s1 (req "UpdateStateMachine" pBadUpdate) = (s1, .error (S "InvalidDefinition")) ∧
    (step cfg0 env1 s1 (req "UpdateStateMachine" pBadUpdate)).2.isError = true ∧
    (step cfg0 env1 s1 (req "UpdateStateMachine" pBadUpdate)).2.isRefusal = true ∧
    s1.machines ≠ [] := by decide +kernel

-- timed_out_only_sync / start_sync_accepted: an EXPRESS machine, the engine silent / answering
example : (step cfg0 env1 s3 (req "StartSyncExecution" pArnX)).2 = .timedOut ∧
    (step cfg0 envDone s3 (req "StartSyncExecution" pArnX)).2 =
      .ok (.obj [(S "status", jstr "SUCCEEDED"), (S "output", jstr "{}")]) ∧
    cfg0.logging = true ∧ env1.publishFails = false ∧
    (∃ x, validateStartSync env1 (lookup s3.machines) pArnX = .ok x ∧
      decide (x.1 = S "arn:aws:states:local:0123456789:execution:x1:e9") = true) :=
  ⟨by decide +kernel, by decide +kernel, rfl, rfl, ex_of_okAny _ _ (by decide +kernel)⟩

-- internal_error_only_failed_publish (and the hypothesis of no_internal_error is what fails here)
example : (step cfg0 envDown s1 (req "StartExecution" pArn)).2 = .internalError ∧
    (step cfg0 env1 s1 (req "StartExecution" pArn)).2 ≠ .internalError ∧
    env1.publishFails = false := by decide +kernel

-- start_sync_refusal / start_sync_needs_express: the STANDARD machine m1; the blocking front end
example : (step cfg0 env1 s3 (req "StartSyncExecution" pArn)).2 = .error (S "StateMachineTypeNotSupported") ∧
    (step cfg0 env1 s3 (req "StartSyncExecution" pArn)).2.isRefusal = true ∧
    cfgB.logging = false ∧
    (∃ x, validateStart env1 (lookup s3.machines) pArn = .ok x ∧
      decide (x.2.2.2.2.type ≠ S "EXPRESS") = true) :=
  ⟨by decide +kernel, by decide +kernel, rfl, ex_of_okAny _ _ (by decide +kernel)⟩

-- only_writes_change_state: the accepted create did change the store
example : (step cfg0 env0 State.empty (req "CreateStateMachine" pCreate)).1 ≠ State.empty := by
  decide +kernel

-- reads_leave_state speaks about every body and state; its action list is what it says
example : S "GetExecutionHistory" ∈ [S "DescribeStateMachine", S "DescribeStateMachineForExecution",
    S "ListStateMachines", S "ListExecutions", S "DescribeExecution", S "GetExecutionHistory"] := by decide

-- history_is_stored_log / history_reverse_is_reverse on s2: three events, forward and reversed
example : arnArg validExecArn (arg pExec "executionArn") = .ok earn0 ∧
    lookup s2.histories earn0 = some evs0 ∧ evs0.length = 3 ∧
    arg pExec "executionArn" = arg pExecRev "executionArn" ∧
    truthyArg (arg pExec "reverseOrder") = false ∧ truthyArg (arg pExecRev "reverseOrder") = true ∧
    (step cfg0 env1 s2 (req "GetExecutionHistory" pExec)).2 = .ok (.obj [(S "events", .arr evs0)]) ∧
    (step cfg0 env1 s2 (req "GetExecutionHistory" pExecRev)).2 =
      .ok (.obj [(S "events", .arr evs0.reverse)]) ∧ evs0.reverse ≠ evs0 :=
  ⟨okIs_eq _ _ (by decide +kernel), by decide +kernel, rfl, by decide +kernel, by decide +kernel,
   by decide +kernel, by decide +kernel, by decide +kernel, by decide +kernel⟩

-- history_unknown_refused: a well-formed ARN without a log (s1), a malformed one, a missing one
example : arnArg validExecArn (arg pExec "executionArn") = .ok earn0 ∧ lookup s1.histories earn0 = none ∧
    arnArg validExecArn (arg [(S "executionArn", jstr "junk")] "executionArn") = .error (S "InvalidArn") ∧
    truthyArg (arg [] "executionArn") = false :=
  ⟨okIs_eq _ _ (by decide +kernel), by decide +kernel, errIs_eq _ _ (by decide +kernel), by decide +kernel⟩

-- unknown_refused / unknown_start_refused (empty store), unknown_execution_refused (s1)
example : arnArg validSmArn (arg pArn "stateMachineArn") = .ok arn0 ∧
    lookup State.empty.machines arn0 = none ∧
    arnArg validExecArn (arg pExec "executionArn") = .ok earn0 ∧ lookup s1.executions earn0 = none ∧
    startArgs env1 pArn = .ok (arn0, S "uuid-1", .obj []) :=
  ⟨okIs_eq _ _ (by decide +kernel), by decide +kernel, okIs_eq _ _ (by decide +kernel), by decide +kernel,
   okIs_eq _ _ (by decide +kernel)⟩

-- update_only_supplied / update_advances_updateDate: only the role is supplied, the clock moved
example : (step cfg0 env1 s1 (req "UpdateStateMachine"
      [(S "stateMachineArn", .str arn0), (S "roleArn", .str role1)])).2 =
    .ok (.obj [(S "updateDate", .num 1007)]) ∧
    truthyArg (arg [(S "stateMachineArn", .str arn0), (S "roleArn", .str role1)] "definition") = false ∧
    (∃ m, lookup s1.machines arn0 = some m ∧ decide (m.updateDate < env1.now) = true) :=
  ⟨by decide +kernel, by decide +kernel, ex_of_any _ _ (by decide +kernel)⟩

-- delete_visible
example : (step cfg0 env1 s1 (req "DeleteStateMachine" pArn)).2 = .okEmpty := by decide +kernel

-- api_refines_keyed_store(_from) / request_refines_after quantify over every history; a history
-- that exercises writes, engine writes, a refusal and both list answers, ending in a store that
-- holds two machines, one execution and its log
private def hist0 : List Event :=
  [.call env0 (req "CreateStateMachine" pCreate),
   .engine earn0 ⟨S "e1", arn0, S "SUCCEEDED", jstr "{}", jstr "{}", 1003, .num 1004, []⟩,
   .engineLog earn0 evs0,
   .call env1 (req "UpdateStateMachine" pBadUpdate),
   .call env1 (req "CreateStateMachine" pCreateX),
   .call env1 (req "ListStateMachines" []),
   .call env1 (req "ListExecutions" pArn)]
example : run cfg0 State.empty hist0 = s3 ∧ keys s3.machines = [arn0, arnX] ∧
    keys s3.executions = [earn0] ∧ WF (run cfg0 State.empty hist0) :=
  ⟨by decide +kernel, by decide +kernel, by decide +kernel, reachable_wf cfg0 hist0⟩

-- list_is_live_set / list_executions_is_live_set / list_ignores_paging / describe_for_execution_links on s2
example : WF s2 ∧ keys s2.machines = [arn0] ∧
    arnArg validSmArn (arg pArn "stateMachineArn") = .ok arn0 ∧ (lookup s2.machines arn0).isSome = true ∧
    (listExecutions s2 arn0 (statusFilter (some (jstr "SUCCEEDED")))).length = 1 ∧
    listExecutions s2 arn0 (statusFilter (some (jstr "FAILED"))) = [] ∧
    arg pArn "statusFilter" = arg ((S "maxResults", .num 1) :: (S "nextToken", jstr "t") :: pArn) "statusFilter" ∧
    arg pArn "stateMachineArn" =
      arg ((S "maxResults", .num 1) :: (S "nextToken", jstr "t") :: pArn) "stateMachineArn" ∧
    arnArg validExecArn (arg pExec "executionArn") = .ok earn0 ∧
    (∃ e, lookup s2.executions earn0 = some e ∧
      (validSmArn e.stateMachineArn && (lookup s2.machines e.stateMachineArn).isSome) = true) :=
  ⟨wf_apply cfg0 _ (.engineLog _ _) (wf_apply cfg0 _ (.engine _ _) (wf_apply cfg0 _ (.call env0 _) wf_empty)),
   by decide +kernel, okIs_eq _ _ (by decide +kernel), by decide +kernel, by decide +kernel,
   by decide +kernel, by decide +kernel, by decide +kernel, okIs_eq _ _ (by decide +kernel),
   ex_of_any _ _ (by decide +kernel)⟩

-- describe_for_execution_dangling: the machine of the recorded execution has been deleted
example : (∃ e, lookup (step cfg0 env1 s2 (req "DeleteStateMachine" pArn)).1.executions earn0 = some e ∧
      (validSmArn e.stateMachineArn &&
        (lookup (step cfg0 env1 s2 (req "DeleteStateMachine" pArn)).1.machines e.stateMachineArn).isNone) = true) ∧
    validSmArn (S "junk") = false :=
  ⟨ex_of_any _ _ (by decide +kernel), by decide +kernel⟩

-- no_internal_error speaks about every request; the one a front end used to answer 500:
example : (step cfg0 env1 s1 ⟨S "DescribeExecution", some (.num 5)⟩).2 =
    .error (S "SerializationException") ∧ env1.publishFails = false := by decide +kernel

end Asl.C10
