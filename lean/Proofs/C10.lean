/-
C10 — the state-machine and execution API behaves like a simple keyed store.

Property theorems and non-vacuity examples only; helper lemmas live in Proofs/Lemmas.
The statements are about `Api.step` (the reference model the implementation's answers are
compared with on every run): all configurations, environments (clock, uuid, lint verdict),
states, actions and raw JSON arguments — no bound on the store or on the history.
-/
import Proofs.Lemmas.ApiStep
namespace Asl.C10
open Asl Asl.Api

/-- a request with an object body -/
abbrev req (action : String) (p : Params) : Call := ⟨S action, some (.obj p)⟩

/-! ### an error answer leaves every stored record as it was; no internal error -/

theorem error_leaves_state (cfg : Cfg) (env : Env) (s : State) (c : Call)
    (h : (step cfg env s c).2.isError = true) : (step cfg env s c).1 = s := by
  unfold step at h ⊢
  split
  · split <;> simp_all [Response.isError]
  · rfl

/-- an error answer also hands nothing to the event dispatcher -/
theorem error_publishes_nothing (cfg : Cfg) (env : Env) (s : State) (c : Call)
    (h : (step cfg env s c).2.isError = true) : published env s c = none := by
  obtain ⟨a, ps⟩ := c
  unfold published
  split
  · rename_i p hp
    simp only at hp
    subst hp
    split
    · rename_i ha
      simp only at ha
      subst ha
      rw [step_obj, handle_start] at h
      split
      · rename_i x hx
        rw [hx] at h
        obtain ⟨earn, rest⟩ := x
        simp [finish, Response.isError] at h
      · rfl
    · rfl
  · rfl

theorem no_internal_error (cfg : Cfg) (env : Env) (s : State) (c : Call) :
    (step cfg env s c).2 ≠ .internalError ∧ (step cfg env s c).2.status < 500 := by
  unfold step
  split
  · split <;> simp [Response.status]
  · simp [Response.status]

/-- the same over whole histories: no request of any history is answered 5xx, and the
stores after a history are those after its successful requests and engine writes only -/
theorem history_errors_are_noops (cfg : Cfg) (s : State) (env : Env) (c : Call) (rest : List Event)
    (h : (step cfg env s c).2.isError = true) :
    run cfg s (.call env c :: rest) = run cfg s rest := by
  simp [run, apply, error_leaves_state cfg env s c h]

/-! ### a created definition is described back unchanged -/

/-- what a successful CreateStateMachine stores is what was sent: the decoded definition
text, the name, the role; both dates are the clock; the ARN was free -/
theorem create_stores_arguments (cfg : Cfg) (env : Env) (s : State) (p : Params) (arn : Str) (m : Machine)
    (h : validateCreate cfg env s p = .ok (arn, m)) :
    ∃ t, arg p "definition" = some (.str t) ∧ parseJson t = some m.definition ∧
      arg p "name" = some (.str m.name) ∧ arg p "roleArn" = some (.str m.roleArn) ∧
      m.creationDate = env.now ∧ m.updateDate = env.now ∧ lookup s.machines arn = none := by
  obtain ⟨hk, hl, hd, _, _, hc, hu⟩ := validateCreate_ok cfg env s p arn m h
  obtain ⟨hn, _, hr, _, _, _⟩ := createKey_ok cfg p arn m.name m.roleArn m.type hk
  obtain ⟨t, ht, hp, hne, _⟩ := decodeDefinition_ok cfg env _ _ hd
  refine ⟨t, ?_, hp, hn, hr, hc, hu, hl⟩
  cases hga : arg p "definition" with
  | none => simp [hga] at ht; exact absurd ht hne
  | some j => simp [hga] at ht; rw [ht]

/-- CreateStateMachine answered 200: the record is in the store under the returned ARN, and
DescribeStateMachine of that ARN (when it is an ARN the API accepts) answers the record with
the definition as the `json.dumps` text of exactly the value the sent text denotes -/
theorem create_then_describe (cfg : Cfg) (env env' : Env) (s : State) (p q : Params) (body : Json)
    (h : (step cfg env s (req "CreateStateMachine" p)).2 = .ok body) :
    ∃ arn m t, body = .obj [(S "creationDate", .num env.now), (S "stateMachineArn", .str arn)] ∧
      arg p "definition" = some (.str t) ∧ parseJson t = some m.definition ∧
      lookup (step cfg env s (req "CreateStateMachine" p)).1.machines arn = some m ∧
      (arg q "stateMachineArn" = some (.str arn) → validSmArn arn = true →
        step cfg env' (step cfg env s (req "CreateStateMachine" p)).1 (req "DescribeStateMachine" q) =
          ((step cfg env s (req "CreateStateMachine" p)).1, .ok (m.describe arn)) ∧
        objGet (match m.describe arn with | .obj kvs => kvs | _ => []) (S "definition") =
          some (.str (render m.definition))) := by
  simp only [req, step_obj, handle_create] at h ⊢
  cases hv : validateCreate cfg env s p with
  | error e => simp [hv, finish] at h
  | ok x =>
    obtain ⟨arn, m⟩ := x
    simp only [hv, finish] at h ⊢
    obtain ⟨t, ht, hp, _, _, hc, _, _⟩ := create_stores_arguments cfg env s p arn m hv
    refine ⟨arn, m, t, ?_, ht, hp, lookup_insert_same _ _ _, ?_⟩
    · cases h; rw [hc]
    · intro hq hva
      have hne : arn ≠ [] := by
        intro e; subst e; simp [validSmArn, validResArn] at hva
      constructor
      · rw [handle_describe, hq, arnArg_ok validSmArn arn hva hne]
        simp [lookup_insert_same]
      · cases hlg : m.logging <;> simp [Machine.describe, Machine.toJson, hlg, objGet, S]

/-! ### duplicates are refused -/

/-- a machine with that ARN exists: CreateStateMachine is refused with the documented type
and nothing changes -/
theorem duplicate_refused (cfg : Cfg) (env : Env) (s : State) (p : Params) (arn name role ty : Str)
    (hk : createKey cfg p = .ok (arn, name, role, ty)) (hl : (lookup s.machines arn).isSome = true) :
    step cfg env s (req "CreateStateMachine" p) = (s, .error (S "StateMachineAlreadyExists")) := by
  simp only [req, step_obj, handle_create, validateCreate_dup cfg env s p arn name role ty hk hl, finish]

/-- in particular the same request twice: the second is refused whatever the clock says -/
theorem create_twice_refused (cfg : Cfg) (env env' : Env) (s : State) (p : Params) (body : Json)
    (h : (step cfg env s (req "CreateStateMachine" p)).2 = .ok body) :
    step cfg env' (step cfg env s (req "CreateStateMachine" p)).1 (req "CreateStateMachine" p) =
      ((step cfg env s (req "CreateStateMachine" p)).1, .error (S "StateMachineAlreadyExists")) := by
  simp only [req, step_obj, handle_create] at h
  cases hv : validateCreate cfg env s p with
  | error e => simp [hv, finish] at h
  | ok x =>
    obtain ⟨arn, m⟩ := x
    obtain ⟨hk, _⟩ := validateCreate_ok cfg env s p arn m hv
    have : (step cfg env s (req "CreateStateMachine" p)).1 = { s with machines := insert s.machines arn m } := by
      simp only [req, step_obj, handle_create, hv, finish]
    rw [this]
    exact duplicate_refused cfg env' _ p arn _ _ _ hk (by simp [lookup_insert_same])

end Asl.C10
