/-
C20 — stores act as dictionaries, persist definitions, and caches are never stale.
Property theorems and non-vacuity examples only; helper lemmas live in Proofs/Lemmas/Store*.lean.
All theorems are for the model with no deviation switched on (`Quirks.none`) unless they hold for
every `Quirks` value, in which case `q` is universally quantified.
-/
import AslModel.Store
import Proofs.Lemmas.Store
import Proofs.Lemmas.StoreJson
import Proofs.Lemmas.StoreRedis
import Proofs.Lemmas.StoreSteps
import Proofs.Lemmas.StoreTtl
namespace Asl.C20
open Asl Asl.Store

/-! ### every store kind refines the mapping `Str → Option Json` -/

/-- SimpleStore: every operation (other than a restart, which empties process memory) commutes with
the abstraction to a mapping, answers what the mapping says, and keeps keys unique. -/
theorem store_refines_map_mem (s : Mem) (op : Op) (hk : (aKeys s).Nodup) (hop : op ≠ .reopen) :
    mabs (memStep s op).1 = specStep false (mabs s) op ∧
    specOut (mabs s) op (memStep s op).2 ∧ (aKeys (memStep s op).1).Nodup :=
  mem_refines s op hk hop

/-- JSONStore, seen by the client that operates it. -/
theorem store_refines_map_json (q : Quirks) (w : JWorld) (c : Nat) (op : Op)
    (hk : (aKeys (w.mem c)).Nodup) (hop : op ≠ .reopen) :
    jabs (jsonStep q w c op).1 c = specStep false (jabs w c) op ∧
    specOut (jabs w c) op (jsonStep q w c op).2 ∧ (aKeys ((jsonStep q w c op).1.mem c)).Nodup := by
  obtain ⟨h1, h2⟩ := jsonStep_mem q w c op hop
  have := mem_refines (w.mem c) op hk hop
  unfold jabs
  rw [h1, h2]
  exact this

/-- RedisDictStore / RedisListStore: the mapping a namespace presents is a function of the server
keyspace only (not of the client), and every accepted operation by any client commutes with it. -/
theorem store_refines_map_redis (cfgs : Nat → Cfg) (w : RWorld) (c : Nat) (op : Op)
    (hk : (aKeys w.srv).Nodup) (hok : opOk (cfgs c) op = true) :
    rabs (rstep Quirks.none cfgs w c op).1 (cfgs c).pre = specStep true (rabs w (cfgs c).pre) op ∧
    specOut (rabs w (cfgs c).pre) op (rstep Quirks.none cfgs w c op).2 ∧
    (aKeys (rstep Quirks.none cfgs w c op).1.srv).Nodup :=
  redis_refines cfgs w c op hk hok

/-- what one engine instance wrote is what any other instance of the same store reads, whatever
happened to either client's cache. -/
theorem last_write_read_by_any_client (q : Quirks) (cfgs : Nat → Cfg) (w : RWorld) (c c' : Nat)
    (k : Str) (v : Json) (hp : (cfgs c').pre = (cfgs c).pre)
    (hv : okVal (cfgs c).isList v = true) :
    (rstep q cfgs (rstep Quirks.none cfgs w c (.set k v)).1 c' (.get k)).2 = .val v := by
  simp [rstep, rread, hv, Quirks.none, hp, aGet_aSet, view]

/-- list values keep append order, whichever clients append. -/
theorem list_append_order (q : Quirks) (cfgs : Nat → Cfg) (p k : Str) (apps : List (Nat × Json))
    (w : RWorld) (xs : List Json)
    (hc : ∀ a ∈ apps, (cfgs a.1).pre = p ∧ (cfgs a.1).isList = true)
    (h0 : view true (rabs w p k) = .arr xs) :
    view true (rabs (rrun q cfgs w (apps.map (fun a => (a.1, Op.app k a.2)))).1 p k)
      = .arr (xs ++ apps.map (fun a => a.2)) := by
  induction apps generalizing w xs with
  | nil => simpa [rrun] using h0
  | cons a r ih =>
    obtain ⟨hp, hl⟩ := hc a (by simp)
    have step : view true (rabs (rstep q cfgs w a.1 (.app k a.2)).1 p k) = .arr (xs ++ [a.2]) := by
      simp only [rabs] at h0
      simp only [rstep, hl, hp, Bool.not_true, Bool.false_eq_true, if_false, h0, nestedApp]
      simp [rabs, aGet_aSet, view]
    have := ih (rstep q cfgs w a.1 (.app k a.2)).1 (xs ++ [a.2])
      (fun b hb => hc b (List.mem_cons_of_mem _ hb)) step
    simpa [rrun, List.append_assoc] using this

/-! ### persistence -/

/-- JSONStore: after any sequence of operations by an engine instance, restarting it — or starting
any other instance on the same file — finds exactly the mapping the first one had. -/
theorem reopen_keeps_definitions_json (f : FileC) (c c' : Nat) (ops : List Op) :
    jabs (jsonStep Quirks.none (jrun Quirks.none (jopen f) (ops.map (fun o => (c, o)))).1 c' .reopen).1 c'
      = jabs (jrun Quirks.none (jopen f) (ops.map (fun o => (c, o)))).1 c := by
  have h := synced_run (jopen f) c ops (synced_open f c)
  unfold Synced at h
  funext k
  simp [jabs, jsonStep, h]

/-- Redis stores: a restarting client loses only its cache; the mapping of every namespace stays. -/
theorem reopen_keeps_definitions_redis (q : Quirks) (cfgs : Nat → Cfg) (w : RWorld) (c : Nat) (p : Str) :
    rabs (rstep q cfgs w c .reopen).1 p = rabs w p := rfl

/-- a store file that is missing, is not JSON, or is JSON but not an object -/
def Unreadable : FileC → Prop
  | .doc (.obj _) => False
  | _ => True

/-- an unreadable store file starts empty, and the store then works (no crash): a write is accepted
and read back. -/
theorem unreadable_file_is_empty (f : FileC) (h : Unreadable f) (c : Nat) :
    (∀ k, jabs (jopen f) c k = none) ∧
    ∀ (q : Quirks) (k : Str) (v : Json),
      (jsonStep q (jopen f) c (.set k v)).2 = .done ∧
      jabs (jsonStep q (jopen f) c (.set k v)).1 c k = some v := by
  have hl : load f = [] := by
    cases f with
    | missing => rfl
    | garbage => rfl
    | doc j => cases j <;> first | rfl | exact absurd h (by simp [Unreadable])
  refine ⟨fun k => by simp [jabs, jopen, hl, aGet], fun q k v => ?_⟩
  simp [jsonStep, memStep, jabs, jopen, hl, aGet_aSet]

/-! ### the cache -/

/-- worlds reachable from a freshly started set of clients by any interleaving of client operations
and invalidation deliveries -/
inductive Reach (q : Quirks) (cfgs : Nat → Cfg) : RWorld → Prop
  | init (srv : List (Str × Json)) (ttl : List (Str × Nat)) : Reach q cfgs (ropen srv ttl)
  | step {w : RWorld} (c : Nat) (op : Op) : Reach q cfgs w → Reach q cfgs (rstep q cfgs w c op).1

theorem reach_inv (q : Quirks) (cfgs : Nat → Cfg) (w : RWorld) (h : Reach q cfgs w) :
    Coh cfgs w ∧ CapOK cfgs w := by
  induction h with
  | init srv ttl =>
    exact ⟨fun c k v hm => by simp [ropen, Client.fresh] at hm, fun c => by simp [ropen, Client.fresh]⟩
  | step c op _ ih => exact ⟨coh_step q cfgs _ c op ih.1, cap_step q cfgs _ c op ih.2⟩

/-- a cached view never holds more than its capacity — in every reachable world, for every client. -/
theorem cache_le_capacity (q : Quirks) (cfgs : Nat → Cfg) (w : RWorld) (h : Reach q cfgs w) (c : Nat) :
    (w.cl c).cache.length ≤ (cfgs c).cap :=
  (reach_inv q cfgs w h).2 c

/-- over all interleavings of operations and deliveries with any number of clients: whatever a client
has cached for a key is the value the server holds, unless an invalidation for that key has been sent
to this client and not yet delivered. -/
theorem cache_coherent (q : Quirks) (cfgs : Nat → Cfg) (w : RWorld) (h : Reach q cfgs w)
    (c : Nat) (k : Str) (v : Json) (hc : aGet (w.cl c).cache k = some v) :
    pk (cfgs c).pre k ∈ (w.cl c).pending ∨ view (cfgs c).isList (rabs w (cfgs c).pre k) = v := by
  rcases (reach_inv q cfgs w h).1 c k v (mem_of_aGet _ _ _ hc) with hp | ⟨_, hv⟩
  · exact Or.inl hp
  · exact Or.inr hv

/-- hence: once every invalidation sent to a client has been delivered, its cached view of any key
is the current value. -/
theorem cached_read_current_after_delivery (q : Quirks) (cfgs : Nat → Cfg) (w : RWorld)
    (h : Reach q cfgs w) (c : Nat) (k : Str) (hp : (w.cl c).pending = []) :
    (rstep q cfgs w c (.cget k)).2 = .val (view (cfgs c).isList (rabs w (cfgs c).pre k)) := by
  simp only [rstep]
  split
  · rfl
  · by_cases hon : (w.cl c).on = true
    · simp only [hon, if_true]
      split
      · rename_i v hv
        rcases cache_coherent q cfgs w h c k v hv with hq | hq
        · simp [hp] at hq
        · simp [hq]
      · rfl
    · simp [hon, aGet]; rfl

/-! ### time-to-live -/

/-- `set_ttl(k, n)` on a stored record gives exactly that record the time-to-live `n` and changes no
value. -/
theorem ttl_applied (q : Quirks) (cfgs : Nat → Cfg) (w : RWorld) (c : Nat) (k : Str) (n : Nat)
    (hp : (rabs w (cfgs c).pre k).isSome = true) (hn : n ≠ 0) :
    aGet (rstep q cfgs w c (.ttl k n)).1.ttl (pk (cfgs c).pre k) = some n ∧
    (rstep q cfgs w c (.ttl k n)).2 = .ttlv (some (some n)) ∧
    (rstep q cfgs w c (.ttl k n)).1.srv = w.srv := by
  simp only [rabs] at hp
  simp [rstep, hp, hn, aGet_aSet]

/-- nested updates and appends (how the engine grows a record and its history) keep every TTL. -/
theorem ttl_kept_by_nested_update (q : Quirks) (cfgs : Nat → Cfg) (w : RWorld) (c : Nat) (k f : Str)
    (v : Json) :
    (rstep q cfgs w c (.upd k f v)).1.ttl = w.ttl ∧ (rstep q cfgs w c (.app k v)).1.ttl = w.ttl := by
  constructor
  · simp only [rstep]; split
    · rfl
    · split <;> rfl
  · simp only [rstep]; split
    · rfl
    · split <;> rfl

/-- the engine's write pattern for an execution record (and, from its first event on, its history): the
whole record is written, `set_ttl` gives it the configured time-to-live `n`, and from then on the record
is only grown and read (member updates, appends, plain / cached reads, membership tests — `isGrow`) by
any clients in any order: at the end the record still carries exactly `n`.  (Without the `set_ttl`
step it carries none: `whole_key_set_drops_ttl`.) -/
theorem engine_written_record_keeps_ttl (q : Quirks) (cfgs : Nat → Cfg) (w : RWorld) (c : Nat) (k : Str)
    (v : Json) (n : Nat) (rest : List (Nat × Op))
    (hv : okVal (cfgs c).isList v = true) (hne : isEmptyVal v = false) (hn : n ≠ 0)
    (hrest : ∀ e ∈ rest, isGrow e.2 = true) :
    aGet (rrun q cfgs w ((c, .set k v) :: (c, .ttl k n) :: rest)).1.ttl (pk (cfgs c).pre k) = some n := by
  simp only [rrun]
  rw [grow_run_keeps_ttl q cfgs _ rest hrest]
  have hp : (rabs (rstep q cfgs w c (.set k v)).1 (cfgs c).pre k).isSome = true := by
    simp [rabs, set_makes_present q cfgs w c k v hv hne]
  exact (ttl_applied q cfgs _ c k n hp hn).1

/-- (the model copies the code here, the property is silent) replacing a whole record is DEL + HSET /
RPUSH, so the record comes back without a TTL: the engine must call `set_ttl` again. -/
theorem whole_key_set_drops_ttl (cfgs : Nat → Cfg) (w : RWorld) (c : Nat) (k : Str) (v : Json)
    (hp : (rabs w (cfgs c).pre k).isSome = true) (hv : okVal (cfgs c).isList v = true) :
    aGet (rstep Quirks.none cfgs w c (.set k v)).1.ttl (pk (cfgs c).pre k) = none := by
  simp only [rabs] at hp
  simp [rstep, hv, Quirks.none, srvDel, hp, aGet_aDel]

/-! ### non-vacuity: the hypotheses are met by concrete non-trivial states -/

private def s (x : String) : Str := x.toList
private def cfg2 : Nat → Cfg := fun _ => { pre := s "asl_store", isList := false, cap := 1, legacy := false }
private def cfgL : Nat → Cfg := fun _ => { pre := s "execution_history", isList := true, cap := 2, legacy := false }
private def mem0 : Mem := [(s "k1", .obj [(s "x", .num 1)]), (s "k2", .arr [.num 1])]
private def w0 : RWorld := ropen [(s "asl_store:k1", .obj [(s "x", .num 1)]), (s "other:k9", .obj [])] []

-- store_refines_map_mem / _json: a two-key store with unique keys and a nested update
example : (aKeys mem0).Nodup ∧ Op.upd (s "k1") (s "x") (.num 2) ≠ .reopen := ⟨by decide, by simp⟩
example : (aKeys ((jopen (.doc (.obj mem0))).mem 0)).Nodup := by decide
-- store_refines_map_redis: unique keys, an accepted write
example : (aKeys w0.srv).Nodup ∧ opOk (cfg2 0) (.set (s "k2") (.obj [(s "y", .null)])) = true :=
  ⟨by decide, rfl⟩
-- last_write_read_by_any_client: two clients of one namespace
example : (cfg2 1).pre = (cfg2 0).pre ∧ okVal (cfg2 0).isList (.obj []) = true := ⟨rfl, rfl⟩
-- list_append_order: a list store, an existing two-element history, appends by clients 0 and 1
example : (∀ a ∈ [((0 : Nat), Json.num 3), (1, .num 4)], (cfgL a.1).pre = s "execution_history" ∧ (cfgL a.1).isList = true) ∧
    view true (rabs (ropen [(s "execution_history:e", .arr [.num 1, .num 2])] []) (s "execution_history") (s "e"))
      = .arr [.num 1, .num 2] := ⟨by intro a _; exact ⟨rfl, rfl⟩, rfl⟩
-- unreadable_file_is_empty: garbage, a missing file, JSON that is not an object
example : Unreadable .garbage ∧ Unreadable .missing ∧ Unreadable (.doc (.arr [.num 1])) ∧ Unreadable (.doc .null) :=
  ⟨trivial, trivial, trivial, trivial⟩
/-- a reachable world in which client 1 holds a cached entry that is stale and awaiting delivery:
client 1 reads k1 through its cache, client 0 overwrites k1 -/
private def wStale : RWorld :=
  (rstep Quirks.none cfg2 (rstep Quirks.none cfg2 w0 1 (.cget (s "k1"))).1 0 (.set (s "k1") (.obj [(s "x", .num 2)]))).1
private theorem wStale_reach : Reach Quirks.none cfg2 wStale := Reach.step _ _ (Reach.step _ _ (Reach.init _ _))
-- cache_coherent / cache_le_capacity: that world has a cached entry, a pending invalidation, and the cached
-- value differs from the server's (so the first disjunct is really needed)
example : aGet (wStale.cl 1).cache (s "k1") = some (.obj [(s "x", .num 1)]) ∧
    (wStale.cl 1).pending = [s "asl_store:k1"] ∧
    rabs wStale (s "asl_store") (s "k1") = some (.obj [(s "x", .num 2)]) := ⟨by rfl, by rfl, by rfl⟩
-- cached_read_current_after_delivery: after the delivery step the queue is empty (and the read is current)
example : ((rstep Quirks.none cfg2 wStale 1 .deliver).1.cl 1).pending = [] ∧
    (rstep Quirks.none cfg2 (rstep Quirks.none cfg2 wStale 1 .deliver).1 1 (.cget (s "k1"))).2
      = .val (.obj [(s "x", .num 2)]) := ⟨by rfl, by rfl⟩
-- ttl_applied / whole_key_set_drops_ttl: a stored record, a positive TTL, a dict value
example : (rabs w0 (cfg2 0).pre (s "k1")).isSome = true ∧ (86400 : Nat) ≠ 0 ∧
    okVal (cfg2 0).isList (.obj [(s "x", .num 5)]) = true := ⟨by rfl, by decide, rfl⟩

-- engine_written_record_keeps_ttl: a record, the configured TTL, then a status update, a cached read by another
-- client and a membership test (all `isGrow`); the TTL is still there, and without the set_ttl step there is none
example : okVal (cfg2 0).isList (.obj [(s "status", .str (s "RUNNING"))]) = true ∧
    isEmptyVal (.obj [(s "status", .str (s "RUNNING"))]) = false ∧
    (∀ e ∈ [((0 : Nat), Op.upd (s "e1") (s "status") (.str (s "SUCCEEDED"))), (1, .cget (s "e1")), (1, .has (s "e1"))],
      isGrow e.2 = true) ∧
    aGet (rrun Quirks.none cfg2 w0 [(0, .set (s "e1") (.obj [(s "status", .str (s "RUNNING"))])),
      (0, .upd (s "e1") (s "status") (.str (s "SUCCEEDED")))]).1.ttl (pk (cfg2 0).pre (s "e1")) = none :=
  ⟨rfl, rfl, by decide, by rfl⟩

/-! ### the recorded deviations break the property in the model (witnesses replayed on the code) -/

/-- C20-F1: with `emptyAbsent`, a key whose last written value is `{}` is not a member -/
example : (rstep { emptyAbsent := true } cfg2
      (rstep { emptyAbsent := true } cfg2 w0 0 (.set (s "k2") (.obj []))).1 0 (.has (s "k2"))).2 = .flag false ∧
    (rstep Quirks.none cfg2 (rstep Quirks.none cfg2 w0 0 (.set (s "k2") (.obj []))).1 0 (.has (s "k2"))).2 = .flag true :=
  ⟨by rfl, by rfl⟩

/-- C20-F2: with `nestedMemOnly`, a nested update is lost by a restart -/
example :
    (jrun { nestedMemOnly := true } (jopen .missing)
      [(0, .set (s "k1") (.obj [(s "x", .num 1)])), (0, .upd (s "k1") (s "x") (.num 2)), (0, .reopen), (0, .get (s "k1"))]).2.getLast?
      = some (.val (.obj [(s "x", .num 1)])) ∧
    (jrun Quirks.none (jopen .missing)
      [(0, .set (s "k1") (.obj [(s "x", .num 1)])), (0, .upd (s "k1") (s "x") (.num 2)), (0, .reopen), (0, .get (s "k1"))]).2.getLast?
      = some (.val (.obj [(s "x", .num 2)])) := ⟨by rfl, by rfl⟩

/-- C20-F3: two JSONStore instances on one file: the second does not read what the first wrote
(each has a private memory image; this is the model of the code, no switch) -/
example : (jrun Quirks.none (jopen .missing)
      [(0, .set (s "k1") (.obj [])), (1, .get (s "k1"))]).2 = [.done, .keyError] := by rfl

end Asl.C20
