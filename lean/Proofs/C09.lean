/-
C09 — execution history is a gap-free, ordered, faithful log.
-/
import AslModel.History
import AslModel.Lite
import Proofs.Lemmas.Log
import Proofs.Lemmas.FuelMono
namespace Asl.C09
open Asl

theorem numbered_append (h : List HEvent) (k : Nat) (ts : Int) (ty nm : Str) (hn : numbered h k = true) :
    numbered (h ++ [{ id := k + h.length + 1, prev := k + h.length, ts := ts, type := ty, name := nm }]) k = true := by
  induction h generalizing k with
  | nil => simp [numbered]
  | cons e es ih =>
    simp only [numbered, Bool.and_eq_true] at hn
    simp only [List.cons_append, numbered, Bool.and_eq_true]
    refine ⟨hn.1, ?_⟩
    have := ih (k + 1) hn.2
    simpa [Nat.add_assoc, Nat.add_comm 1] using this

/-- appending keeps the numbering 1..n with previousEventId = id − 1 -/
theorem append_numbering (h : List HEvent) (ts : Int) (ty nm : Str) (hn : numbered h 0 = true) :
    numbered (History.append h ts ty nm) 0 = true := by
  have := numbered_append h 0 ts ty nm hn
  simpa [History.append] using this

/-- hence every history built by appends alone is gap-free -/
theorem appends_numbered (evs : List (Int × Str × Str)) :
    numbered (evs.foldl (fun h e => History.append h e.1 e.2.1 e.2.2) []) 0 = true := by
  have : ∀ h, numbered h 0 = true → numbered (evs.foldl (fun h e => History.append h e.1 e.2.1 e.2.2) h) 0 = true := by
    induction evs with
    | nil => intro h hn; simpa
    | cons e es ih => intro h hn; exact ih _ (append_numbering h _ _ _ hn)
  exact this [] rfl

/-- what `numbered` means: event i (0-based) has id i+1 and previousEventId i -/
theorem numbered_spec (h : List HEvent) (k : Nat) (hn : numbered h k = true) (i : Nat) (hi : i < h.length) :
    h[i].id = k + i + 1 ∧ h[i].prev = k + i := by
  induction h generalizing k i with
  | nil => simp at hi
  | cons e es ih =>
    simp only [numbered, Bool.and_eq_true, beq_iff_eq] at hn
    cases i with
    | zero => simp [hn.1.1, hn.1.2]
    | succ i =>
      have := ih (k + 1) hn.2 i (by simpa using hi)
      simp only [List.getElem_cons_succ]
      omega

/-- nothing is appended after the terminal event and there is only one -/
theorem terminalLast_spec (h : List HEvent) (ht : terminalLast h = true) (pre post : List HEvent) (e : HEvent)
    (he : h = pre ++ e :: post) (hterm : isTerminalType e.type = true)
    (hpre : ∀ p ∈ pre, isTerminalType p.type = false) : post = [] := by
  subst he
  induction pre with
  | nil => simpa [terminalLast, hterm] using ht
  | cons p ps ih =>
    have hp := hpre p (by simp)
    simp only [List.cons_append, terminalLast, hp] at ht
    exact ih (fun q hq => hpre q (by simp [hq])) (by simpa using ht)

/-- reverseOrder is exactly the reverse list -/
theorem reverse_is_reverse (h : List HEvent) : h.reverse.reverse = h := List.reverse_reverse h


/-! ### the reference semantics predicts the state events of the history

`Asl.run` records (`Outcome.log`, oldest first) an `entered` event where the engine writes
`…StateEntered` and an `exited` event where it writes `…StateExited` (see `St.log`). -/

/-- whatever a run does, the log only grows: the state after running from any state is the state
before with more events in front (the log is kept most recent first) -/
theorem log_only_grows (env : Env) (fuel : Nat) (states : Json) (name : Str) (data ctx : Json) (r : Nat) (st : St) :
    ∃ evs, (runFrom env fuel states name data ctx r st).2.log = evs ++ st.log :=
  let ⟨evs, h, _⟩ := (growsAll env fuel).runFrom states name data ctx r st
  ⟨evs, h⟩

/-- (i) for every machine, input, environment and fuel: the names of the `entered` events of the log
are exactly the `trace` -/
theorem entered_matches_trace (env : Env) (fuel : Nat) (asl input ctx : Json) :
    enteredNames (run env fuel asl input ctx).log = (run env fuel asl input ctx).trace := by
  unfold run
  split
  · rename_i start states h1 h2
    obtain ⟨evs, hl, ht⟩ := (growsAll env fuel).runFrom states start input ctx 0 {}
    generalize runFrom env fuel states start input ctx 0 {} = p at hl ht
    obtain ⟨r, st⟩ := p
    have hl' : st.log = evs := by simpa using hl
    have ht' : st.trace = enteredNames evs := by simpa using ht
    cases r <;> simp only [enteredNames_reverse, hl', ht']
  · rfl

/-- (ii) the log (like the whole outcome) does not depend on the fuel -/
theorem log_fuel_independent (env : Env) (n m : Nat) (h : n ≤ m) (asl input ctx : Json)
    (hs : (run env n asl input ctx).status ≠ S "FUEL") :
    (run env m asl input ctx).log = (run env n asl input ctx).log ∧
    (run env m asl input ctx).requests = (run env n asl input ctx).requests ∧
    (run env m asl input ctx).fanFail = (run env n asl input ctx).fanFail := by
  rw [Asl.run_fuel_independent env n m h asl input ctx hs]
  exact ⟨rfl, rfl, rfl⟩

/-- (iii) a successful `leave` — End reached with an output within the limit — appends exactly one
`exited` event carrying the output -/
theorem leave_logs_exit (env : Env) (fuel : Nat) (states : Json) (name : Str) (state raw out ctx : Json)
    (retries : Nat) (st : St) (hE : isTrue (fld state "End") = true) (hL : (render out).length ≤ env.maxData) :
    (leave env (fuel + 1) states name state raw out ctx retries st).2.log = .exited name out :: st.log := by
  have : ¬ (render out).length > env.maxData := by omega
  simp [leave, hE, this, St.exit]

/-- … and an accepted transition appends that one `exited` event *before* anything the successor (and
everything after it) logs -/
theorem leave_logs_exit_before_successor (env : Env) (fuel : Nat) (states : Json) (name next : Str)
    (state raw out ctx : Json) (retries : Nat) (st : St)
    (hE : isTrue (fld state "End") = false) (hN : fldStr state "Next" = some next)
    (hL : (render out).length ≤ env.maxData) :
    ∃ later, (leave env (fuel + 1) states name state raw out ctx retries st).2.log =
      later ++ .exited name out :: st.log := by
  have : ¬ (render out).length > env.maxData := by omega
  obtain ⟨evs, h⟩ := log_only_grows env fuel states next out ctx 0 (st.exit name out)
  exact ⟨evs, by simpa [leave, hE, hN, this, St.exit] using h⟩

/-- a refused transition / an over-limit terminal output logs no exit by itself: the state is handed to
its error handler with the log as it was -/
theorem refused_leave_logs_nothing (env : Env) (fuel : Nat) (states : Json) (name : Str) (state raw out ctx : Json)
    (retries : Nat) (st : St) (hL : (render out).length > env.maxData)
    (hN : isTrue (fld state "End") = true ∨ (fldStr state "Next").isSome) :
    leave env (fuel + 1) states name state raw out ctx retries st =
      handleErr env fuel states name state raw ctx retries (S "States.DataLimitExceeded") (S "m") st := by
  by_cases hE : isTrue (fld state "End") = true
  · simp [leave, hE, hL]
  · have hE' : isTrue (fld state "End") = false := by simpa using hE
    rcases hN with h | h
    · exact absurd h hE
    · obtain ⟨nx, hn⟩ := Option.isSome_iff_exists.mp h
      simp [leave, hE', hn, hL]

/-- (iv) a state whose error is neither retried nor caught logs no exit: the failure leaves the log
(and the rest of the state) exactly as it was -/
theorem failed_state_logs_no_exit (env : Env) (fuel : Nat) (states : Json) (name : Str) (state data ctx : Json)
    (retries : Nat) (e msg : Str) (st : St)
    (h : decideError ((listOf (fld state "Retry")).map retrierOf) ((listOf (fld state "Catch")).map catcherOf)
      e retries = .uncaught) :
    (handleErr env (fuel + 1) states name state data ctx retries e msg st).2 = st := by
  simp [handleErr, h]

/-- a caught state is exited (the engine files the Catcher's transition under the caught state's name)
with the data handed to the Catcher's `Next`, before anything the successor logs -/
theorem caught_state_logs_exit_with_handed_data (env : Env) (fuel : Nat) (states : Json) (name next : Str)
    (state data data' ctx : Json) (retries : Nat) (e msg : Str) (st : St) (c : Catcher)
    (h : decideError ((listOf (fld state "Retry")).map retrierOf) ((listOf (fld state "Catch")).map catcherOf)
      e retries = .caught c)
    (hn : c.next = some next)
    (hp : applyResultPath data (errorOutput e (causeOf msg)) (match c.resultPath with | none => some ['$'] | some p => p) = .ok data')
    (hl : (render data').length ≤ env.maxData) :
    ∃ later, (handleErr env (fuel + 1) states name state data ctx retries e msg st).2.log =
      later ++ .exited name data' :: st.log := by
  have : ¬ env.maxData < (render data').length := by omega
  obtain ⟨evs, hg⟩ := log_only_grows env fuel states next data' ctx 0 (st.exit name data')
  refine ⟨evs, ?_⟩
  cases hrp : c.resultPath with
  | none => simp only [hrp] at hp; simpa [handleErr, h, hn, hrp, hp, this, St.exit] using hg
  | some q => simp only [hrp] at hp; simpa [handleErr, h, hn, hrp, hp, this, St.exit] using hg

/-- entering a state for the first time logs `entered` with its raw input; a retry re-entry logs nothing -/
theorem enter_logs_raw_input (st : St) (name : Str) (data : Json) :
    (st.enter name data 0).log = .entered name data :: st.log ∧
    ∀ k, (st.enter name data (k + 1)).log = st.log := by
  constructor
  · simp [St.enter]
  · intro k; simp [St.enter]

/-! non-vacuity -/
private def ev (i : Nat) (t : String) (n : String) : HEvent := { id := i, prev := i - 1, ts := i, type := t.toList, name := n.toList }
example : WFHistory [ev 1 "ExecutionStarted" "", ev 2 "PassStateEntered" "P", ev 3 "PassStateExited" "P",
    ev 4 "ExecutionSucceeded" ""] = true := by decide
example : WFHistory [ev 1 "ExecutionStarted" "", ev 2 "PassStateExited" "P"] = false := by decide
/-- a state entered and never exited in a clean successful execution is rejected -/
example : WFHistory [ev 1 "ExecutionStarted" "", ev 2 "PassStateEntered" "P", ev 3 "PassStateExited" "P",
    ev 4 "PassStateEntered" "Q", ev 5 "ExecutionSucceeded" ""] = false := by decide
example : WFHistory [ev 1 "ExecutionStarted" "", ev 3 "PassStateEntered" "P"] = false := by decide

/-! the log, concretely: Task `T` (retried once after an error, then caught) → `C`; limit 262144 -/
private def k (s : String) : Str := s.toList
private def envL : Env :=
  { tmpl := Lite.tmpl, choose := Lite.choose
    task := fun _ _ n => if n = 0 then .obj [(k "errorType", .str (k "E")), (k "errorMessage", .str (k "m"))]
                          else .obj [(k "errorType", .str (k "F"))] }
private def tSt : Json := .obj [
  (k "Type", .str (k "Task")), (k "Resource", .str (k "arn:aws:rpcmessage:local::function:f")), (k "Next", .str (k "N")),
  (k "Retry", .arr [.obj [(k "ErrorEquals", .arr [.str (k "E")]), (k "MaxAttempts", .num 1)]]),
  (k "Catch", .arr [.obj [(k "ErrorEquals", .arr [.str (k "States.ALL")]), (k "ResultPath", .null), (k "Next", .str (k "C"))]])]
private def aslL : Json := .obj [(k "StartAt", .str (k "T")), (k "States", .obj [
  (k "T", tSt), (k "N", .obj [(k "Type", .str (k "Succeed"))]),
  (k "C", .obj [(k "Type", .str (k "Pass")), (k "Result", .num 7), (k "ResultPath", .str (k "$.r")), (k "End", .bool true)])])]
private def inL : Json := .obj [(k "a", .num 1)]
/-- entered T (once, although it ran twice), T exited through its Catcher with the raw input, C entered
with it and exited with its output; two task requests -/
example : (run envL 20 aslL inL (.obj [])).log =
    [.entered (k "T") inL, .exited (k "T") inL, .entered (k "C") inL,
     .exited (k "C") (.obj [(k "a", .num 1), (k "r", .num 7)])] ∧
    (run envL 20 aslL inL (.obj [])).requests = 2 ∧ (run envL 20 aslL inL (.obj [])).fanFail = false ∧
    (run envL 20 aslL inL (.obj [])).trace = [k "T", k "C"] := by decide +kernel
/-- hypothesis of `log_fuel_independent` -/
example : (run envL 20 aslL inL (.obj [])).status ≠ S "FUEL" := by decide +kernel
/-- a Fail state is entered and never exited; the failed fan-out around it sets `fanFail` -/
private def aslF : Json := .obj [(k "StartAt", .str (k "P")), (k "States", .obj [
  (k "P", .obj [(k "Type", .str (k "Parallel")), (k "End", .bool true), (k "Branches", .arr [
    .obj [(k "StartAt", .str (k "F")), (k "States", .obj [(k "F", .obj [(k "Type", .str (k "Fail")), (k "Error", .str (k "X"))])])]])])])]
example : (run envL 20 aslF inL (.obj [])).log = [.entered (k "P") inL, .entered (k "F") inL] ∧
    (run envL 20 aslF inL (.obj [])).fanFail = true ∧ (run envL 20 aslF inL (.obj [])).requests = 0 := by
  decide +kernel
/-- hypotheses of `leave_logs_exit` / `leave_logs_exit_before_successor` / `failed_state_logs_no_exit` /
`caught_state_logs_exit_with_handed_data` on `tSt` and a terminal state -/
example : isTrue (fld (.obj [(k "Type", .str (k "Pass")), (k "End", .bool true)]) "End") = true ∧
    (render inL).length ≤ envL.maxData ∧
    isTrue (fld tSt "End") = false ∧ fldStr tSt "Next" = some (k "N") := by
  refine ⟨by rfl, by decide, by rfl, by rfl⟩
example : decideError ((listOf (fld tSt "Retry")).map retrierOf) ((listOf (fld tSt "Catch")).map catcherOf)
    (S "States.Runtime") 0 = .uncaught := by rfl
example : ∃ c, decideError ((listOf (fld tSt "Retry")).map retrierOf) ((listOf (fld tSt "Catch")).map catcherOf)
    (k "F") 1 = .caught c ∧ c.next = some (k "C") ∧ c.resultPath = some none := ⟨_, rfl, rfl, rfl⟩

end Asl.C09
