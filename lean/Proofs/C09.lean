/-
C09 — execution history is a gap-free, ordered, faithful log.
-/
import AslModel.History
namespace Asl.C09
open Asl

theorem numbered_append (h : List HEvent) (k : Nat) (ts : Int) (ty nm : Str) (hn : numbered h k = true) :
    numbered (h ++ [{ id := k + h.length + 1, prev := k + h.length, ts := ts, type := ty, name := nm }]) k = true := by
  induction h generalizing k with
  | nil => simp [numbered]
  | cons e es ih =>
    simp only [numbered, Bool.and_eq_true] at hn
    simp only [List.cons_append, numbered, Bool.and_eq_true]
    refine ⟨hn.1, ?_⟩
    have := ih (k + 1) hn.2
    simpa [Nat.add_assoc, Nat.add_comm 1] using this

/-- appending keeps the numbering 1..n with previousEventId = id − 1 -/
theorem append_numbering (h : List HEvent) (ts : Int) (ty nm : Str) (hn : numbered h 0 = true) :
    numbered (History.append h ts ty nm) 0 = true := by
  have := numbered_append h 0 ts ty nm hn
  simpa [History.append] using this

/-- hence every history built by appends alone is gap-free -/
theorem appends_numbered (evs : List (Int × Str × Str)) :
    numbered (evs.foldl (fun h e => History.append h e.1 e.2.1 e.2.2) []) 0 = true := by
  have : ∀ h, numbered h 0 = true → numbered (evs.foldl (fun h e => History.append h e.1 e.2.1 e.2.2) h) 0 = true := by
    induction evs with
    | nil => intro h hn; simpa
    | cons e es ih => intro h hn; exact ih _ (append_numbering h _ _ _ hn)
  exact this [] rfl

/-- what `numbered` means: event i (0-based) has id i+1 and previousEventId i -/
theorem numbered_spec (h : List HEvent) (k : Nat) (hn : numbered h k = true) (i : Nat) (hi : i < h.length) :
    h[i].id = k + i + 1 ∧ h[i].prev = k + i := by
  induction h generalizing k i with
  | nil => simp at hi
  | cons e es ih =>
    simp only [numbered, Bool.and_eq_true, beq_iff_eq] at hn
    cases i with
    | zero => simp [hn.1.1, hn.1.2]
    | succ i =>
      have := ih (k + 1) hn.2 i (by simpa using hi)
      simp only [List.getElem_cons_succ]
      omega

/-- nothing is appended after the terminal event and there is only one -/
theorem terminalLast_spec (h : List HEvent) (ht : terminalLast h = true) (pre post : List HEvent) (e : HEvent)
    (he : h = pre ++ e :: post) (hterm : isTerminalType e.type = true)
    (hpre : ∀ p ∈ pre, isTerminalType p.type = false) : post = [] := by
  subst he
  induction pre with
  | nil => simpa [terminalLast, hterm] using ht
  | cons p ps ih =>
    have hp := hpre p (by simp)
    simp only [List.cons_append, terminalLast, hp] at ht
    exact ih (fun q hq => hpre q (by simp [hq])) (by simpa using ht)

/-- reverseOrder is exactly the reverse list -/
theorem reverse_is_reverse (h : List HEvent) : h.reverse.reverse = h := List.reverse_reverse h

/-! non-vacuity -/
private def ev (i : Nat) (t : String) (n : String) : HEvent := { id := i, prev := i - 1, ts := i, type := t.toList, name := n.toList }
example : WFHistory [ev 1 "ExecutionStarted" "", ev 2 "PassStateEntered" "P", ev 3 "PassStateExited" "P",
    ev 4 "ExecutionSucceeded" ""] = true := by decide
example : WFHistory [ev 1 "ExecutionStarted" "", ev 2 "PassStateExited" "P"] = false := by decide
/-- a state entered and never exited in a clean successful execution is rejected -/
example : WFHistory [ev 1 "ExecutionStarted" "", ev 2 "PassStateEntered" "P", ev 3 "PassStateExited" "P",
    ev 4 "PassStateEntered" "Q", ev 5 "ExecutionSucceeded" ""] = false := by decide
example : WFHistory [ev 1 "ExecutionStarted" "", ev 3 "PassStateEntered" "P"] = false := by decide

end Asl.C09
