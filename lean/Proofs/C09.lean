/-
C09 — execution history is a gap-free, ordered, faithful log.
-/
import AslModel.History
import AslModel.Lite
import Proofs.Lemmas.Log
import Proofs.Lemmas.FuelMono
import Proofs.Lemmas.MapBatches
namespace Asl.C09
open Asl

theorem numbered_append (h : List HEvent) (k : Nat) (ts : Int) (ty nm : Str) (hn : numbered h k = true) :
    numbered (h ++ [{ id := k + h.length + 1, prev := k + h.length, ts := ts, type := ty, name := nm }]) k = true := by
  induction h generalizing k with
  | nil => simp [numbered]
  | cons e es ih =>
    simp only [numbered, Bool.and_eq_true] at hn
    simp only [List.cons_append, numbered, Bool.and_eq_true]
    refine ⟨hn.1, ?_⟩
    have := ih (k + 1) hn.2
    simpa [Nat.add_assoc, Nat.add_comm 1] using this

/-- appending keeps the numbering 1..n with previousEventId = id − 1 -/
theorem append_numbering (h : List HEvent) (ts : Int) (ty nm : Str) (hn : numbered h 0 = true) :
    numbered (History.append h ts ty nm) 0 = true := by
  have := numbered_append h 0 ts ty nm hn
  simpa [History.append] using this

/-- hence every history built by appends alone is gap-free -/
theorem appends_numbered (evs : List (Int × Str × Str)) :
    numbered (evs.foldl (fun h e => History.append h e.1 e.2.1 e.2.2) []) 0 = true := by
  have : ∀ h, numbered h 0 = true → numbered (evs.foldl (fun h e => History.append h e.1 e.2.1 e.2.2) h) 0 = true := by
    induction evs with
    | nil => intro h hn; simpa
    | cons e es ih => intro h hn; exact ih _ (append_numbering h _ _ _ hn)
  exact this [] rfl

/-- what `numbered` means: event i (0-based) has id i+1 and previousEventId i -/
theorem numbered_spec (h : List HEvent) (k : Nat) (hn : numbered h k = true) (i : Nat) (hi : i < h.length) :
    h[i].id = k + i + 1 ∧ h[i].prev = k + i := by
  induction h generalizing k i with
  | nil => simp at hi
  | cons e es ih =>
    simp only [numbered, Bool.and_eq_true, beq_iff_eq] at hn
    cases i with
    | zero => simp [hn.1.1, hn.1.2]
    | succ i =>
      have := ih (k + 1) hn.2 i (by simpa using hi)
      simp only [List.getElem_cons_succ]
      omega

/-- nothing is appended after the terminal event and there is only one -/
theorem terminalLast_spec (h : List HEvent) (ht : terminalLast h = true) (pre post : List HEvent) (e : HEvent)
    (he : h = pre ++ e :: post) (hterm : isTerminalType e.type = true)
    (hpre : ∀ p ∈ pre, isTerminalType p.type = false) : post = [] := by
  subst he
  induction pre with
  | nil => simpa [terminalLast, hterm] using ht
  | cons p ps ih =>
    have hp := hpre p (by simp)
    simp only [List.cons_append, terminalLast, hp] at ht
    exact ih (fun q hq => hpre q (by simp [hq])) (by simpa using ht)

/-- reverseOrder is exactly the reverse list -/
theorem reverse_is_reverse (h : List HEvent) : h.reverse.reverse = h := List.reverse_reverse h


/-! ### the reference semantics predicts the history and the notifications

`Asl.run` records (`Outcome.history`, oldest first) every event the engine writes to the history of a
STANDARD execution of the modelled fragment (see `Ev`): `Outcome.log` are the events between
`ExecutionStarted` and the terminal event. -/

/-- whatever a run does, the log only grows: the state after running from any state is the state
before with more events in front (the log is kept most recent first) -/
theorem log_only_grows (env : Env) (fuel : Nat) (states : Json) (name : Str) (data ctx : Json) (r : Nat) (st : St) :
    ∃ evs, (runFrom env fuel states name data ctx r st).2.log = evs ++ st.log :=
  let ⟨evs, _, h, _⟩ := (growsAll env fuel).runFrom states name data ctx r st
  ⟨evs, h⟩

/-- what the run of the top scope leaves in the state: the log and the trace fit, no event opens or
closes the execution, every reply has its request -/
theorem run_state_facts (env : Env) (fuel : Nat) (asl input ctx : Json) :
    enteredNames (runCore env fuel asl input ctx).2.log.reverse = (runCore env fuel asl input ctx).2.trace.reverse ∧
    (∀ e ∈ (runCore env fuel asl input ctx).2.log.reverse, e.isExec = false) ∧
    bracketed (runCore env fuel asl input ctx).2.log = true := by
  have G : Grows {} (runCore env fuel asl input ctx).2 := by
    unfold runCore
    split
    · exact (growsAll (env.forMachine asl) fuel).runFrom _ _ _ _ _ _
    · exact Grows.refl _
  obtain ⟨evs, ts, hl, ht, hx, hb, _⟩ := G
  have hl' : (runCore env fuel asl input ctx).2.log = evs := by simpa using hl
  have ht' : (runCore env fuel asl input ctx).2.trace = enteredNames evs := by simpa using ht
  refine ⟨by rw [enteredNames_reverse, hl', ht'], ?_, by rw [hl']; exact hb⟩
  intro e he
  rw [hl'] at he
  exact hx e (by simpa using he)

/-- for every machine, input, environment and fuel: the names of the `…StateEntered` events of the log
are exactly the `trace` -/
theorem entered_matches_trace (env : Env) (fuel : Nat) (asl input ctx : Json) :
    enteredNames (run env fuel asl input ctx).log = (run env fuel asl input ctx).trace :=
  (run_state_facts env fuel asl input ctx).1

/-- (i) a run that ended: the predicted history begins with `ExecutionStarted` carrying the input, ends
with exactly one terminal event — `ExecutionSucceeded` with the output, or `ExecutionFailed` with the
error and cause, as the outcome says — and no other event of these three kinds occurs in it -/
theorem history_starts_and_ends (env : Env) (fuel : Nat) (asl input ctx : Json)
    (hs : (run env fuel asl input ctx).status = S "SUCCEEDED" ∨ (run env fuel asl input ctx).status = S "FAILED") :
    ∃ last, (run env fuel asl input ctx).history =
        .execStarted input :: ((run env fuel asl input ctx).log ++ [last]) ∧
      (∀ e ∈ (run env fuel asl input ctx).log, e.isExec = false) ∧
      (((run env fuel asl input ctx).status = S "SUCCEEDED" ∧
          ∃ d, (run env fuel asl input ctx).output = some d ∧ last = .execSucceeded d) ∨
       ((run env fuel asl input ctx).status = S "FAILED" ∧
          ∃ e, (run env fuel asl input ctx).error = some e ∧
            last = .execFailed e (run env fuel asl input ctx).cause)) := by
  have hx := (run_state_facts env fuel asl input ctx).2.1
  unfold run at hs ⊢
  generalize runCore env fuel asl input ctx = p at hs hx ⊢
  obtain ⟨r, st⟩ := p
  cases r with
  | done d => exact ⟨.execSucceeded d, rfl, hx, Or.inl ⟨rfl, d, rfl, rfl⟩⟩
  | failed e c f => exact ⟨.execFailed (publicError e) c, rfl, hx, Or.inr ⟨rfl, publicError e, rfl, rfl⟩⟩
  | fuel => rcases hs with h | h <;> (simp only [Outcome.ofRun] at h; exact absurd h (by decide))
  | unsupported w => rcases hs with h | h <;> (simp only [Outcome.ofRun] at h; exact absurd h (by decide))

/-- … and a run that did not end (out of fuel, unsupported resource) has no terminal event yet -/
theorem unfinished_history_has_no_terminal_event (env : Env) (fuel : Nat) (asl input ctx : Json)
    (hs : (run env fuel asl input ctx).status = S "FUEL" ∨ (run env fuel asl input ctx).status = S "UNSUPPORTED") :
    (run env fuel asl input ctx).history = .execStarted input :: (run env fuel asl input ctx).log ∧
    (run env fuel asl input ctx).notifications = [(S "RUNNING", .null)] := by
  unfold run at hs ⊢
  generalize runCore env fuel asl input ctx = p at hs ⊢
  obtain ⟨r, st⟩ := p
  cases r with
  | done d => rcases hs with h | h <;> (simp only [Outcome.ofRun] at h; exact absurd h (by decide))
  | failed e c f => rcases hs with h | h <;> (simp only [Outcome.ofRun] at h; exact absurd h (by decide))
  | fuel => exact ⟨by simp [Outcome.ofRun, historyOf, terminalOf], rfl⟩
  | unsupported w => exact ⟨by simp [Outcome.ofRun, historyOf, terminalOf], rfl⟩

/-- (ii) the history, the notifications (like the whole outcome) do not depend on the fuel -/
theorem history_fuel_independent (env : Env) (n m : Nat) (h : n ≤ m) (asl input ctx : Json)
    (hs : (run env n asl input ctx).status ≠ S "FUEL") :
    (run env m asl input ctx).history = (run env n asl input ctx).history ∧
    (run env m asl input ctx).notifications = (run env n asl input ctx).notifications ∧
    (run env m asl input ctx).log = (run env n asl input ctx).log ∧
    (run env m asl input ctx).requests = (run env n asl input ctx).requests ∧
    (run env m asl input ctx).fanFail = (run env n asl input ctx).fanFail := by
  rw [Asl.run_fuel_independent env n m h asl input ctx hs]
  exact ⟨rfl, rfl, rfl, rfl, rfl⟩

/-- (iii) one task invocation files `LambdaFunctionScheduled` with the request's payload and resource
and, directly after it, the reply's event — `LambdaFunctionSucceeded` or `LambdaFunctionFailed` -/
theorem taskCall_files_request_then_reply (st : St) (counts : List ((Str × Json) × Nat)) (res : Str) (p : Json)
    (ev : Ev) (tEnd : Rat) :
    (st.taskCall counts res p ev tEnd).log = ev :: .lambdaScheduled p res :: st.log ∧
    (st.taskCall counts res p ev tEnd).times = rmax st.clock tEnd :: st.clock :: st.times := ⟨rfl, rfl⟩

/-- … in the Task state (the worker answers, or the Task's own `TimeoutSeconds` runs out — `hT`: if the invocation
ends by a time limit, the limit in force is, or coincides with, the Task's own): the request, then directly the
outcome's event — a reply kind: `LambdaFunctionSucceeded`, `LambdaFunctionFailed` or `LambdaFunctionTimedOut` —;
whatever the state does afterwards (ResultSelector, ResultPath, transition, Retry, Catch) comes later.
(An invocation cut by the execution's time limit alone files the request and nothing else:
`C08.task_cut_by_execution_files_request_only`.) -/
theorem task_events_bracketed (env : Env) (fuel : Nat) (states : Json) (name fn : Str)
    (state data ctx input params : Json) (retries : Nat) (st : St) (tEnd : Rat) (timedOut : Bool)
    (h : stateType state = S "Task")
    (hr : rpcFunction ((fldStr state "Resource").getD []) = some fn)
    (hi : applyPath data ctx (pathArg state "InputPath") = .ok input)
    (hp : tmplOpt env input ctx (fld state "Parameters") = .ok params)
    (own : Option Rat) (hown : taskOwnDeadline state data ctx st.clock = .ok own)
    (ha : taskArrival (env.delay fn params (bump st.counts (fn, params)).1)
        ((taskLimit own env.deadline st.clock).map (·.t)) st.clock
      = some (tEnd, timedOut))
    (hT : timedOut = true → ∃ l, taskLimit own env.deadline st.clock = some l ∧ l.task = true) :
    (∃ later, (runState env (fuel + 1) states name state data ctx retries st).2.log =
      later ++ taskEv env.maxData (env.task fn params (bump st.counts (fn, params)).1) timedOut ::
        .lambdaScheduled params ((fldStr state "Resource").getD []) :: st.log) ∧
    (taskEv env.maxData (env.task fn params (bump st.counts (fn, params)).1) timedOut).isReply = true := by
  have h1 : (S "Task" = S "Pass") = False := by decide
  have h2 : (S "Task" = S "Succeed") = False := by decide
  have h3 : (S "Task" = S "Fail") = False := by decide
  have h4 : (S "Task" = S "Wait") = False := by decide
  have h5 : (S "Task" = S "Choice") = False := by decide
  have G := growsAll env fuel
  refine ⟨?_, (taskEv_plain _ _ _).2.2⟩
  have hbt : (timedOut && !(timedOut && (Option.map (·.task)
      (taskLimit own env.deadline st.clock)).getD true)) = false := by
    cases timedOut with
    | false => rfl
    | true => obtain ⟨l, hl, ht⟩ := hT rfl; simp [hl, ht]
  simp only [runState, h, h1, h2, h3, h4, h5, hr, hi, hp, St.closeKeep_counts, St.closeKeep_clock, hown, ha, if_false, if_true,
    hbt, Bool.false_eq_true]
  generalize hst : (st.closeKeep.request timedOut).taskCall (bump st.counts (fn, params)).2 ((fldStr state "Resource").getD []) params
    (taskEv env.maxData (env.task fn params (bump st.counts (fn, params)).1) timedOut) tEnd = st1
  have hl : st1.log = taskEv env.maxData (env.task fn params (bump st.counts (fn, params)).1) timedOut ::
      .lambdaScheduled params ((fldStr state "Resource").getD []) :: st.log := by rw [← hst]; rfl
  have fin : ∀ st2, Grows st1 st2 → ∃ later, st2.log = later ++
      taskEv env.maxData (env.task fn params (bump st.counts (fn, params)).1) timedOut ::
        .lambdaScheduled params ((fldStr state "Resource").getD []) :: st.log := by
    intro st2 ⟨evs, _, hg, _⟩
    exact ⟨evs, by rw [hg, hl]⟩
  split
  · exact fin _ (G.handleErr _ _ _ _ _ _ _ _ _)
  · split
    · exact fin _ (G.handleErr _ _ _ _ _ _ _ _ _)
    · split
      · exact fin _ (G.handleErr _ _ _ _ _ _ _ _ _)
      · exact fin _ (G.leave _ _ _ _ _ _ _ _)

/-- … and in every run: each `LambdaFunctionSucceeded` / `LambdaFunctionFailed` of the log has its
`LambdaFunctionScheduled` directly before it (the log reversed is most recent first, see `bracketed_spec`) -/
theorem every_reply_has_its_request (env : Env) (fuel : Nat) (asl input ctx : Json) :
    bracketed (run env fuel asl input ctx).log.reverse = true := by
  have := (run_state_facts env fuel asl input ctx).2.2
  simpa [run, Outcome.ofRun] using this

/-- (iv) the status notifications of a run that ended are exactly RUNNING and the terminal status, whose
payload is the outcome: the output, or the Error Output {Error, Cause} -/
theorem notifications_shape (env : Env) (fuel : Nat) (asl input ctx : Json)
    (hs : (run env fuel asl input ctx).status = S "SUCCEEDED" ∨ (run env fuel asl input ctx).status = S "FAILED") :
    ∃ payload, (run env fuel asl input ctx).notifications =
        [(S "RUNNING", .null), ((run env fuel asl input ctx).status, payload)] ∧
      (((run env fuel asl input ctx).status = S "SUCCEEDED" ∧ (run env fuel asl input ctx).output = some payload) ∨
       ((run env fuel asl input ctx).status = S "FAILED" ∧
          ∃ e, (run env fuel asl input ctx).error = some e ∧
            payload = errorOutput e (run env fuel asl input ctx).cause)) := by
  unfold run at hs ⊢
  generalize runCore env fuel asl input ctx = p at hs ⊢
  obtain ⟨r, st⟩ := p
  cases r with
  | done d => exact ⟨d, rfl, Or.inl ⟨rfl, rfl⟩⟩
  | failed e c f => exact ⟨errorOutput (publicError e) c, rfl, Or.inr ⟨rfl, publicError e, rfl, rfl⟩⟩
  | fuel => rcases hs with h | h <;> (simp only [Outcome.ofRun] at h; exact absurd h (by decide))
  | unsupported w => rcases hs with h | h <;> (simp only [Outcome.ofRun] at h; exact absurd h (by decide))

/-- a successful `leave` — End reached with an output within the limit — appends exactly one
`…StateExited` event carrying the output -/
theorem leave_logs_exit (env : Env) (fuel : Nat) (states : Json) (name : Str) (state raw out ctx : Json)
    (retries : Nat) (st : St) (hE : isTrue (fld state "End") = true) (hL : (render out).length ≤ env.maxData) :
    (leave env (fuel + 1) states name state raw out ctx retries st).2.log =
      .exited (stateType state) name out :: st.log := by
  have : ¬ (render out).length > env.maxData := by omega
  simp [leave, hE, this, St.exit]

/-- … and an accepted transition appends that one `…StateExited` event *before* anything the successor
(and everything after it) logs -/
theorem leave_logs_exit_before_successor (env : Env) (fuel : Nat) (states : Json) (name next : Str)
    (state raw out ctx : Json) (retries : Nat) (st : St)
    (hE : isTrue (fld state "End") = false) (hN : fldStr state "Next" = some next)
    (hL : (render out).length ≤ env.maxData) :
    ∃ later, (leave env (fuel + 1) states name state raw out ctx retries st).2.log =
      later ++ .exited (stateType state) name out :: st.log := by
  have : ¬ (render out).length > env.maxData := by omega
  obtain ⟨evs, h⟩ := log_only_grows env fuel states next out ctx 0 ((st.exit (stateType state) name out).handover next)
  exact ⟨evs, by simpa [leave, hE, hN, this, St.exit] using h⟩

/-- a refused transition / an over-limit terminal output logs no exit by itself: the state is handed to
its error handler with the log as it was -/
theorem refused_leave_logs_nothing (env : Env) (fuel : Nat) (states : Json) (name : Str) (state raw out ctx : Json)
    (retries : Nat) (st : St) (hL : (render out).length > env.maxData)
    (hN : isTrue (fld state "End") = true ∨ (fldStr state "Next").isSome) :
    leave env (fuel + 1) states name state raw out ctx retries st =
      handleErr env fuel states name state raw ctx retries (S "States.DataLimitExceeded") (S "m") st := by
  by_cases hE : isTrue (fld state "End") = true
  · simp [leave, hE, hL]
  · have hE' : isTrue (fld state "End") = false := by simpa using hE
    rcases hN with h | h
    · exact absurd h hE
    · obtain ⟨nx, hn⟩ := Option.isSome_iff_exists.mp h
      simp [leave, hE', hn, hL]

/-- a state whose error is neither retried nor caught logs no exit: a Task / Pass / … state leaves the
log exactly as it was, a Parallel / Map state files `<Type>StateFailed` and nothing else — and when the error is the
execution's time-out not even that (`handle_error` files no `…StateFailed` for it) -/
theorem failed_state_logs_no_exit (env : Env) (fuel : Nat) (states : Json) (name : Str) (state data ctx : Json)
    (retries : Nat) (e msg : Str) (st : St)
    (h : decideError ((listOf (fld state "Retry")).map retrierOf) ((listOf (fld state "Catch")).map catcherOf)
      e retries = .uncaught) :
    (handleErr env (fuel + 1) states name state data ctx retries e msg st).2 =
      (if e = execTimeoutName then st else st.fanFailedIf state).failTok ∧
    (isFanOut (stateType state) = false → st.fanFailedIf state = st) ∧
    (isFanOut (stateType state) = true → (st.fanFailedIf state).log = .fanFailed (stateType state) :: st.log) ∧
    (e = execTimeoutName → (handleErr env (fuel + 1) states name state data ctx retries e msg st).2.log = st.log) := by
  refine ⟨by simp [handleErr, h], ?_, ?_, ?_⟩
  · intro hf; simp [St.fanFailedIf, hf]
  · intro hf; simp [St.fanFailedIf, hf, St.push]
  · intro he; subst he; simp [handleErr, h, St.failTok]

/-- a caught state is exited (the engine files the Catcher's transition under the caught state's name)
with the data handed to the Catcher's `Next`, before anything the successor logs -/
theorem caught_state_logs_exit_with_handed_data (env : Env) (fuel : Nat) (states : Json) (name next : Str)
    (state data data' ctx : Json) (retries : Nat) (e msg : Str) (st : St) (c : Catcher)
    (h : decideError ((listOf (fld state "Retry")).map retrierOf) ((listOf (fld state "Catch")).map catcherOf)
      e retries = .caught c)
    (hn : c.next = some next)
    (hp : applyResultPath data (errorOutput e (causeOf msg)) (match c.resultPath with | none => some ['$'] | some p => p) = .ok data')
    (hl : (render data').length ≤ env.maxData) :
    ∃ later, (handleErr env (fuel + 1) states name state data ctx retries e msg st).2.log =
      later ++ .exited (stateType state) name data' :: (st.fanFailedIf state).log := by
  have : ¬ env.maxData < (render data').length := by omega
  obtain ⟨evs, hg⟩ := log_only_grows env fuel states next data' ctx 0
    (((st.fanFailedIf state).exit (stateType state) name data').handover next)
  refine ⟨evs, ?_⟩
  cases hrp : c.resultPath with
  | none => simp only [hrp] at hp; simpa [handleErr, h, hn, hrp, hp, this, St.exit] using hg
  | some q => simp only [hrp] at hp; simpa [handleErr, h, hn, hrp, hp, this, St.exit] using hg

/-- entering a state for the first time logs `…StateEntered` with its raw input; a retry re-entry logs nothing -/
theorem enter_logs_raw_input (st : St) (ty name : Str) (data : Json) :
    (st.enter ty name data 0).log = .entered ty name data :: st.log ∧
    ∀ k, (st.enter ty name data (k + 1)).log = st.log := by
  constructor
  · simp [St.enter]
  · intro k; simp [St.enter]

/-! non-vacuity -/
private def ev (i : Nat) (t : String) (n : String) : HEvent := { id := i, prev := i - 1, ts := i, type := t.toList, name := n.toList }
example : WFHistory [ev 1 "ExecutionStarted" "", ev 2 "PassStateEntered" "P", ev 3 "PassStateExited" "P",
    ev 4 "ExecutionSucceeded" ""] = true := by decide
example : WFHistory [ev 1 "ExecutionStarted" "", ev 2 "PassStateExited" "P"] = false := by decide
/-- a state entered and never exited in a clean successful execution is rejected -/
example : WFHistory [ev 1 "ExecutionStarted" "", ev 2 "PassStateEntered" "P", ev 3 "PassStateExited" "P",
    ev 4 "PassStateEntered" "Q", ev 5 "ExecutionSucceeded" ""] = false := by decide
example : WFHistory [ev 1 "ExecutionStarted" "", ev 3 "PassStateEntered" "P"] = false := by decide

/-! the history, concretely: Task `T` (retried once after an error, then caught) → `C`; limit 262144 -/
private def k (s : String) : Str := s.toList
private def rE : Json := .obj [(k "errorType", .str (k "E")), (k "errorMessage", .str (k "m"))]
private def rF : Json := .obj [(k "errorType", .str (k "F"))]
private def envL : Env :=
  { tmpl := Lite.tmpl, choose := Lite.choose, task := fun _ _ n => if n = 0 then rE else rF }
private def arnF : Str := k "arn:aws:rpcmessage:local::function:f"
private def tSt : Json := .obj [
  (k "Type", .str (k "Task")), (k "Resource", .str arnF), (k "Next", .str (k "N")),
  (k "Retry", .arr [.obj [(k "ErrorEquals", .arr [.str (k "E")]), (k "MaxAttempts", .num 1)]]),
  (k "Catch", .arr [.obj [(k "ErrorEquals", .arr [.str (k "States.ALL")]), (k "ResultPath", .null), (k "Next", .str (k "C"))]])]
private def aslL : Json := .obj [(k "StartAt", .str (k "T")), (k "States", .obj [
  (k "T", tSt), (k "N", .obj [(k "Type", .str (k "Succeed"))]),
  (k "C", .obj [(k "Type", .str (k "Pass")), (k "Result", .num 7), (k "ResultPath", .str (k "$.r")), (k "End", .bool true)])])]
private def inL : Json := .obj [(k "a", .num 1)]
private def outL : Json := .obj [(k "a", .num 1), (k "r", .num 7)]
/-- the complete history: T entered (once, although it ran twice), two requests each followed by its
failure, T exited through its Catcher with the raw input, C entered with it and exited with its output -/
example : (run envL 20 aslL inL (.obj [])).history =
    [.execStarted inL, .entered (k "Task") (k "T") inL,
     .lambdaScheduled inL arnF, .lambdaFailed (.str (k "E")) (.str (k "m")),
     .lambdaScheduled inL arnF, .lambdaFailed (.str (k "F")) (.str []),
     .exited (k "Task") (k "T") inL, .entered (k "Pass") (k "C") inL, .exited (k "Pass") (k "C") outL,
     .execSucceeded outL] ∧
    (run envL 20 aslL inL (.obj [])).notifications = [(S "RUNNING", .null), (S "SUCCEEDED", outL)] ∧
    (run envL 20 aslL inL (.obj [])).requests = 2 ∧ (run envL 20 aslL inL (.obj [])).fanFail = false ∧
    (run envL 20 aslL inL (.obj [])).trace = [k "T", k "C"] := by decide +kernel
/-- hypotheses of `history_starts_and_ends` / `notifications_shape` / `history_fuel_independent` -/
example : (run envL 20 aslL inL (.obj [])).status = S "SUCCEEDED" ∧
    (run envL 20 aslL inL (.obj [])).status ≠ S "FUEL" := by decide +kernel
/-- … and of `unfinished_history_has_no_terminal_event` -/
example : (run envL 3 aslL inL (.obj [])).status = S "FUEL" := by decide +kernel
/-- a failing Parallel: started, the Fail state entered and never exited, the Parallel filed as failed,
the execution failed with the branch's error; `fanFail` -/
private def aslF : Json := .obj [(k "StartAt", .str (k "P")), (k "States", .obj [
  (k "P", .obj [(k "Type", .str (k "Parallel")), (k "End", .bool true), (k "Branches", .arr [
    .obj [(k "StartAt", .str (k "F")), (k "States", .obj [(k "F", .obj [(k "Type", .str (k "Fail")), (k "Error", .str (k "X"))])])]])])])]
example : (run envL 20 aslF inL (.obj [])).history =
    [.execStarted inL, .entered (k "Parallel") (k "P") inL, .fanStarted (k "Parallel") none,
     .entered (k "Fail") (k "F") inL, .fanFailed (k "Parallel"),
     .execFailed (k "X") (some (.str (k "<cause>")))] ∧
    (run envL 20 aslF inL (.obj [])).notifications =
      [(S "RUNNING", .null), (S "FAILED", .obj [(S "Error", .str (k "X")), (S "Cause", .str (k "<cause>"))])] ∧
    (run envL 20 aslF inL (.obj [])).fanFail = true ∧ (run envL 20 aslF inL (.obj [])).requests = 0 := by
  decide +kernel
/-- a Map over two items: started with its length, each iteration started with its index -/
private def aslM : Json := .obj [(k "StartAt", .str (k "M")), (k "States", .obj [
  (k "M", .obj [(k "Type", .str (k "Map")), (k "End", .bool true), (k "ItemsPath", .str (k "$.xs")),
    (k "Iterator", .obj [(k "StartAt", .str (k "I")), (k "States", .obj [
      (k "I", .obj [(k "Type", .str (k "Pass")), (k "End", .bool true)])])])])])]
example : (run envL 20 aslM (.obj [(k "xs", .arr [.num 5, .num 6])]) (.obj [(k "State", .obj [])])).log =
    [.entered (k "Map") (k "M") (.obj [(k "xs", .arr [.num 5, .num 6])]), .fanStarted (k "Map") (some 2),
     .iterStarted (k "M") 0, .entered (k "Pass") (k "I") (.num 5), .exited (k "Pass") (k "I") (.num 5),
     .iterStarted (k "M") 1, .entered (k "Pass") (k "I") (.num 6), .exited (k "Pass") (k "I") (.num 6),
     .exited (k "Map") (k "M") (.arr [.num 5, .num 6])] := by decide +kernel
/-- hypotheses of `task_events_bracketed` on `tSt` -/
example : stateType tSt = S "Task" ∧ rpcFunction ((fldStr tSt "Resource").getD []) = some (k "f") ∧
    applyPath inL (.obj []) (pathArg tSt "InputPath") = .ok inL ∧
    tmplOpt envL inL (.obj []) (fld tSt "Parameters") = .ok inL := ⟨by rfl, by rfl, by rfl, by rfl⟩
/-- hypotheses of `leave_logs_exit` / `leave_logs_exit_before_successor` / `failed_state_logs_no_exit` /
`caught_state_logs_exit_with_handed_data` on `tSt` and a terminal state -/
example : isTrue (fld (.obj [(k "Type", .str (k "Pass")), (k "End", .bool true)]) "End") = true ∧
    (render inL).length ≤ envL.maxData ∧
    isTrue (fld tSt "End") = false ∧ fldStr tSt "Next" = some (k "N") := by
  refine ⟨by rfl, by decide, by rfl, by rfl⟩
example : decideError ((listOf (fld tSt "Retry")).map retrierOf) ((listOf (fld tSt "Catch")).map catcherOf)
    (S "States.Runtime") 0 = .uncaught := by rfl
example : ∃ c, decideError ((listOf (fld tSt "Retry")).map retrierOf) ((listOf (fld tSt "Catch")).map catcherOf)
    (k "F") 1 = .caught c ∧ c.next = some (k "C") ∧ c.resultPath = some none := ⟨_, rfl, rfl, rfl⟩
/-- `bracketed` is not constantly true: a reply without its request is rejected -/
example : bracketed [.lambdaSucceeded (.num 1), .entered (k "Task") (k "T") inL] = false ∧
    bracketed [.lambdaSucceeded (.num 1), .lambdaScheduled inL arnF] = true := by decide

/-! ### no further Map batch after a failure -/

/-- Map batches after a failure.  With `MaxConcurrency` mc > 0, let `done` be the items of the batches up to and
including one in which an iteration failed (complete batches: a multiple of mc items) and `rest` the items of the
later batches.  The later batches are never launched: the run over `done ++ rest` *is* the run over `done` — the
same result and the same state.  In particular no event of a later batch is logged (`log`, with its instants
`times`), no request of a later batch is counted (`requests`), and the clock and the predicted broker frames are
those of `done` alone.  For every iterator, ItemSelector, input, oracle, fuel and starting state. -/
theorem failed_batch_is_last (env : Env) (fuel : Nat) (proc : Json) (sel : Option Json) (input : Json)
    (done rest : List Json) (mc : Nat) (be : Rat) (ctx : Json) (st : St)
    (hmc : mc ≠ 0) (hlen : done.length % mc = 0)
    (hfail : isFailure (runItems env fuel proc sel input done 0 mc be ctx false st).1 = true) :
    runItems env fuel proc sel input (done ++ rest) 0 mc be ctx false st =
      runItems env fuel proc sel input done 0 mc be ctx false st ∧
    (runItems env fuel proc sel input (done ++ rest) 0 mc be ctx false st).2.log =
      (runItems env fuel proc sel input done 0 mc be ctx false st).2.log ∧
    (runItems env fuel proc sel input (done ++ rest) 0 mc be ctx false st).2.times =
      (runItems env fuel proc sel input done 0 mc be ctx false st).2.times ∧
    (runItems env fuel proc sel input (done ++ rest) 0 mc be ctx false st).2.requests =
      (runItems env fuel proc sel input done 0 mc be ctx false st).2.requests := by
  have h := runItems_failed_batches env fuel proc sel input done rest mc be ctx st hmc hlen hfail
  exact ⟨h, by rw [h], by rw [h], by rw [h]⟩

/-- … whatever the later items are: two item lists that agree up to the end of the failing batch run alike -/
theorem later_batches_irrelevant (env : Env) (fuel : Nat) (proc : Json) (sel : Option Json) (input : Json)
    (done rest rest' : List Json) (mc : Nat) (be : Rat) (ctx : Json) (st : St)
    (hmc : mc ≠ 0) (hlen : done.length % mc = 0)
    (hfail : isFailure (runItems env fuel proc sel input done 0 mc be ctx false st).1 = true) :
    runItems env fuel proc sel input (done ++ rest) 0 mc be ctx false st =
      runItems env fuel proc sel input (done ++ rest') 0 mc be ctx false st := by
  rw [runItems_failed_batches env fuel proc sel input done rest mc be ctx st hmc hlen hfail,
      runItems_failed_batches env fuel proc sel input done rest' mc be ctx st hmc hlen hfail]

/-! non-vacuity: a Map with MaxConcurrency 2 whose iterations are a Task; the worker fails on item 2 (the second of
the first batch).  Five items in three batches: two iterations are started, two requests made. -/
private def envB : Env :=
  { tmpl := Lite.tmpl, choose := Lite.choose,
    task := fun _ p _ => if p = .num 2 then .obj [(("errorType").toList, .str ("Boom").toList)] else p }
private def iterT : Json := .obj [(("StartAt").toList, .str ("T").toList), (("States").toList, .obj [(("T").toList,
  .obj [(("Type").toList, .str ("Task").toList), (("Resource").toList, .str ("arn:aws:rpcmessage:local::function:f").toList),
    (("End").toList, .bool true)])])]
example : isFailure (runItems envB 20 iterT none (.obj []) [.num 1, .num 2] 0 2 0 (.obj []) false {}).1 = true ∧
    [Json.num 1, .num 2].length % 2 = 0 := by decide +kernel
example : (runItems envB 20 iterT none (.obj []) ([.num 1, .num 2] ++ [.num 3, .num 4, .num 5]) 0 2 0 (.obj []) false {}).2.requests = 2 ∧
    ((runItems envB 20 iterT none (.obj []) ([.num 1, .num 2] ++ [.num 3, .num 4, .num 5]) 0 2 0 (.obj []) false {}).2.log.filter
      (fun e => match e with | .iterStarted _ _ => true | _ => false)).length = 2 := by decide +kernel
/-- without a failure every batch runs: five iterations, five requests -/
example : (runItems envB 30 iterT none (.obj []) [.num 1, .num 3, .num 4, .num 5, .num 6] 0 2 0 (.obj []) false {}).2.requests = 5 := by
  decide +kernel

end Asl.C09
