/-
C02 — every execution ends exactly once and its terminal record never changes.
The lifecycle automaton `Life` is the specification of what observers of one execution may see;
the theorems hold for every input sequence (all schedules of starts, terminal attempts and
late events).
-/
import AslModel.History
import Proofs.Lemmas.FanProto
namespace Asl.C02
open Asl

theorem step_frozen (l : Life) (ok : Bool) (i : LInput) (h : l.phase = .done ok) : l.step i = l := by
  cases i <;> simp [Life.step, h]

/-- once terminal, nothing an execution receives later changes its status or adds a notification -/
theorem terminal_frozen (l : Life) (ok : Bool) (is : List LInput) (h : l.phase = .done ok) :
    is.foldl Life.step l = l := by
  induction is with
  | nil => rfl
  | cons i is ih => simp only [List.foldl_cons, step_frozen l ok i h, ih]

/-- the shape invariant: new ↔ no notification, running ↔ [RUNNING], done T ↔ [RUNNING, T] -/
def Shape (l : Life) : Prop :=
  match l.phase with
  | .new => l.notes = []
  | .running => l.notes = [S "RUNNING"]
  | .done ok => l.notes = [S "RUNNING", statusName ok]

theorem shape_step (l : Life) (i : LInput) (h : Shape l) : Shape (l.step i) := by
  unfold Shape at *
  cases i with
  | start =>
    cases hp : l.phase <;> simp [Life.step, hp] at h ⊢ <;> simp [h]
  | finish ok =>
    cases hp : l.phase <;> simp [Life.step, hp] at h ⊢ <;> simp [h]
  | other => simpa [Life.step] using h

theorem shape_run (is : List LInput) : Shape (Life.run is) := by
  have : ∀ l, Shape l → Shape (is.foldl Life.step l) := by
    induction is with
    | nil => intro l h; simpa
    | cons i is ih => intro l h; exact ih _ (shape_step l i h)
  exact this {} (by simp [Shape])

/-- for **every** sequence of events an execution can receive, the notifications published for it
are a prefix of [RUNNING, T] with T ∈ {SUCCEEDED, FAILED}: one RUNNING, at most one terminal. -/
theorem notifications_at_most_once (is : List LInput) : notesOK (Life.run is).notes = true := by
  have h := shape_run is
  unfold Shape at h
  cases hp : (Life.run is).phase with
  | new => rw [hp] at h; simp [h, notesOK]
  | running => rw [hp] at h; simp [h, notesOK]
  | done ok => rw [hp] at h; cases ok <;> simp [h, notesOK, statusName] <;> decide

/-- exactly once: after a start and a terminal attempt the execution is terminal with the status
of the *first* attempt, whatever else arrives before, between or after -/
theorem ends_exactly_once (pre mid post : List LInput) (ok : Bool)
    (hpre : ∀ i ∈ pre, i = .other) (hmid : ∀ i ∈ mid, i = .other) :
    (Life.run (pre ++ (.start :: (mid ++ (.finish ok :: post))))).notes = [S "RUNNING", statusName ok] := by
  have hother : ∀ (xs : List LInput) (l : Life), (∀ i ∈ xs, i = .other) → xs.foldl Life.step l = l := by
    intro xs
    induction xs with
    | nil => intro l _; rfl
    | cons x xs ih =>
      intro l h
      have hx := h x (by simp)
      subst hx
      simpa [Life.step] using ih l (fun i hi => h i (by simp [hi]))
  unfold Life.run
  simp only [List.foldl_append, List.foldl_cons]
  rw [hother pre _ hpre]
  have h1 : Life.step {} .start = { phase := .running, notes := [S "RUNNING"] } := by simp [Life.step]
  rw [h1, hother mid _ hmid]
  have h2 : Life.step { phase := .running, notes := [S "RUNNING"] } (.finish ok)
      = { phase := .done ok, notes := [S "RUNNING", statusName ok] } := by simp [Life.step]
  rw [h2, terminal_frozen _ ok post rfl]

/-! non-vacuity -/
example : (Life.run [.other, .start, .other, .finish false, .finish true, .other, .start]).notes
    = [S "RUNNING", S "FAILED"] := by decide
example : notesOK [S "RUNNING", S "SUCCEEDED"] = true ∧ notesOK [S "RUNNING", S "FAILED", S "FAILED"] = false := by decide

/-! ## the execution ends at most once under nested fan-outs and arbitrary interleavings (`AslModel/FanProto.lean`) -/
section FanProto
open Asl.FanProto

/-- (i) for EVERY sequence of fan-out launches, branch events, deferred handlers, task replies, cancellation callbacks,
top-level endings and back-stop ticks, the repaired protocol (`Quirks.none`) outputs at most one `endExecution` -/
theorem execution_ends_at_most_once (is : List Inp) : ((run Quirks.none init is).2.filter isEnd).length ≤ 1 := by
  have := run_ends init is inv_init
  simpa [init] using this

/-- … and once it has ended it stays ended with nothing but tidy-up outputs, whatever the state it ended in -/
theorem ended_is_final (s : Proto) (is : List Inp) (hi : Inv s) (he : s.ended.isSome = true) :
    (run Quirks.none s is).1.ended.isSome = true ∧ (run Quirks.none s is).2.filter isEnd = [] :=
  ⟨run_ended_mono _ s is he, quiet_filter_nil _ (run_quiet_after_end s is hi he)⟩

/-- a fan-out whose failure is caught (metadata retained while the execution runs on at the top level), then the back
stop finds the metadata expired, then the stalled top-level continuation reaches its terminal state -/
def caughtThenBackstopThenTopEnd : List Inp :=
  [.launch 0 2 2 none 0, .event 0 1 .goesOn, .event 0 0 (.fail (.plain 1) [.caught]), .backstop, .topEnd true]

/-- C06-F5 (`topUnguarded`): the code as it is ends that execution twice (FAILED by the back stop, then SUCCEEDED) -/
theorem top_unguarded_ends_twice :
    (run { topUnguarded := true } init caughtThenBackstopThenTopEnd).2.filter isEnd = [.endExecution false, .endExecution true] := by
  decide

/-! non-vacuity -/
example : (run Quirks.none init caughtThenBackstopThenTopEnd).2.filter isEnd = [.endExecution false] := by decide
example : Inv (run Quirks.none init caughtThenBackstopThenTopEnd).1 ∧
    (run Quirks.none init caughtThenBackstopThenTopEnd).1.ended.isSome = true :=
  ⟨run_inv _ _ inv_init, by decide⟩

end FanProto

end Asl.C02
