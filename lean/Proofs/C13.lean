/-
C13 — payload templates and intrinsic functions evaluate as specified, fail cleanly.
Property theorems and non-vacuity examples only; helper lemmas live in Proofs/Lemmas.
-/
import AslModel.Template
import Proofs.Lemmas.Intrinsic
import Proofs.Lemmas.IntrinsicParse
import Proofs.Lemmas.Functions
import Proofs.Lemmas.Format
import Proofs.Lemmas.JsonRoundTrip
import Proofs.Lemmas.Base64RoundTrip
namespace Asl.C13
open Asl

/-! ## the template walk -/

/-- what happens to one object member, at any depth: it is evaluated and renamed exactly
when its name ends in `.$` (and its value is not an array/object); otherwise its name is
kept and its value is walked. -/
theorem template_member (o : Oracles) (input ctx : Json) (k : Str) (v : Json)
    (kvs : List (Str × Json)) :
    walkM o .none input ctx ((k, v) :: kvs) =
      (if endsDollar k = true ∧ isContainer v = false then
         (evalValue o input ctx v).bind fun r =>
           (walkM o .none input ctx kvs).map fun ms => (stripDollar k, r) :: ms
       else
         (walk o .none input ctx v).bind fun r =>
           (walkM o .none input ctx kvs).map fun ms => (k, r) :: ms) :=
  walkM_cons o input ctx k v kvs

/-- a template in which no member name ends in `.$`, at any depth, is copied verbatim
(array elements, whatever they look like, included). -/
theorem template_only_dollar_members (o : Oracles) (input ctx t : Json)
    (h : noDollar t = true) : walk o .none input ctx t = .ok t :=
  walk_noDollar o input ctx t h

/-- scalars are never touched: a scalar member whose name does not end in `.$` keeps name
and value whatever surrounds it. -/
theorem template_literal_member (o : Oracles) (input ctx : Json) (k : Str) (v : Json)
    (kvs ms : List (Str × Json)) (hk : endsDollar k = false) (hv : isContainer v = false)
    (h : walkM o .none input ctx kvs = .ok ms) :
    walkM o .none input ctx ((k, v) :: kvs) = .ok ((k, v) :: ms) := by
  rw [walkM_cons]
  cases v <;> simp_all [walk, isContainer, Except.bind, Except.map, Quirks.none]

example : noDollar (.obj [("a".toList, .arr [.str "$.x.$".toList, .obj [("b.c".toList, .num 1)]])]) = true := by
  decide

/-- a `.$` member is evaluated and renamed, its literal neighbour copied -/
example : walk ⟨fun _ _ => [], fun a _ => a, []⟩ .none (.obj [("x".toList, .num 7)]) (.obj [])
    (.obj [("k".toList, .num 1), ("v.$".toList, .str "$.x".toList)]) =
    .ok (.obj [("k".toList, .num 1), ("v".toList, .num 7)]) := by
  rfl

example : evalArg ⟨fun _ _ => [], fun a _ => a, []⟩ (.obj [("x".toList, .num 7)]) (.obj [])
    (.call "States.MathAdd".toList [.path "$.x".toList, .int 1]) = .ok (.num 8) := by
  rfl

/-! ## the text of an intrinsic call -/

/-- Every syntax tree — any function name, any number of arguments of every kind, any
nesting depth, strings containing `,` `(` `)` `'` `\` braces, brackets — is read back from
its printed text. -/
theorem parse_print_intrinsic (f : Str) (args : List Arg) (hw : (Arg.call f args).wf = true) :
    parseIntrinsic (printArg (.call f args)) = some (.call f args) :=
  parseIntrinsic_print f args hw

/-- the same for any argument in any context (`rest` = what follows: end, `,…` or `)…`) -/
theorem parse_print_arg (a : Arg) (hw : a.wf = true) (fuel : Nat) (rest : Str)
    (hf : a.size ≤ fuel) (hr : Follow rest) :
    parseArg fuel (printArg a ++ rest) = some (a, rest) :=
  parseArg_print a hw fuel rest hf hr

/-- a hostile instance of the hypotheses: nesting depth 4, a string with every delimiter -/
example : (Arg.call "States.Format".toList
    [.str "a,b) (c' \\ {} [x]^".toList, .call "States.Array".toList
      [.call "States.ArrayUnique".toList [.call "States.Array".toList [.int (-3), .null, .bool true,
        .path "$.a[0]['k']".toList]]]]).wf = true := by decide

example : Follow (", 2)".toList) := Or.inr ⟨" 2)".toList, Or.inl rfl⟩

/-- string literals: `\'` is an apostrophe, `\\` a backslash -/
theorem string_literal_escapes (s rest : Str) :
    parseQ false (escStr s ++ '\'' :: rest) = some (s, rest) := parseQ_escStr s rest

/-! ## the functions -/

theorem dispatch_Format (o : Oracles) (vs : List Json) :
    applyFn o "States.Format".toList vs = fnFormat vs := by simp [applyFn]

/-- `States.Format` of literal chunks `c₀ … cₙ` (written with braces escaped, `{}` between
them) and at least `n` arguments is the chunks and the arguments' texts in turn. -/
theorem format_in_order (o : Oracles) (cs : List Str) (args : List Json) (hne : cs ≠ [])
    (hb : ∀ c ∈ cs.dropLast, c.getLast? ≠ some '\\') (hn : cs.length ≤ args.length + 1) :
    applyFn o "States.Format".toList (.str (printTemplate cs) :: args) =
      .ok (.str (interleave cs (args.map argText))) := by
  rw [dispatch_Format]
  simp [fnFormat, fmtSplit_printTemplate cs hne hb,
    fmtJoin_interleave cs (args.map argText) hne (by simpa using hn)]

example : (["it's {".toList, "} and \\".toList] : List Str) ≠ [] ∧
    (∀ c ∈ (["it's {".toList, "} and \\".toList] : List Str).dropLast, c.getLast? ≠ some '\\') := by
  decide

/-- an unescaped brace that is not part of `{}` is an error, never an attribute access -/
theorem format_rejects_fields (args : List Json) :
    fnFormat (.str "{0.__class__}".toList :: args) = .error .intrinsic := by
  simp [fnFormat, fmtSplit]

/-- `States.ArrayPartition`: the chunks concatenate to the array … -/
theorem partition_flatten (xs : List Json) (n : Int) (hn : 0 < n) :
    ∃ cs : List (List Json), fnArrayPartition [.arr xs, .num n] = .ok (.arr (cs.map .arr)) ∧ cs.flatten = xs := by
  refine ⟨chunks n.toNat xs.length xs, ?_, chunks_flatten _ (by omega) _ _ (Nat.le_refl _)⟩
  have hn' : ¬ n ≤ 0 := by omega
  simp [fnArrayPartition, hn']

/-- … every chunk has between 1 and `n` elements and all but the last exactly `n`. -/
theorem partition_sizes (xs : List Json) (n : Int) (hn : 0 < n) :
    ∃ cs : List (List Json), fnArrayPartition [.arr xs, .num n] = .ok (.arr (cs.map .arr)) ∧
      (∀ c ∈ cs, 0 < c.length ∧ c.length ≤ n.toNat) ∧ (∀ c ∈ cs.dropLast, c.length = n.toNat) := by
  refine ⟨chunks n.toNat xs.length xs, ?_, chunks_sizes _ (by omega) _ _,
    chunks_full _ (by omega) _ _ (Nat.le_refl _)⟩
  have hn' : ¬ n ≤ 0 := by omega
  simp [fnArrayPartition, hn']

example : fnArrayPartition [.arr [.num 1, .num 2, .num 3, .num 4, .num 5], .num 2] =
    .ok (.arr [.arr [.num 1, .num 2], .arr [.num 3, .num 4], .arr [.num 5]]) := by rfl

/-- `States.ArrayRange(a, b, s)`, `s > 0`: the `i`-th element is `a + i·s`, every element is
`≤ b`, the next one would be `> b` (inclusive end), and more than 1000 elements is an error. -/
theorem range_spec_up (a b s : Int) (hs : 0 < s) :
    (fnArrayRange [.num a, .num b, .num s] = .error .intrinsic ∧ 1000 < (rangeUp b s 1001 a).length) ∨
    (∃ l : List Int, fnArrayRange [.num a, .num b, .num s] = .ok (.arr (l.map .num)) ∧ l.length ≤ 1000 ∧
      (∀ (i : Nat) (h : i < l.length), l[i] = a + i * s) ∧ (∀ y ∈ l, y ≤ b) ∧ b < a + l.length * s) := by
  have hne : s ≠ 0 := by omega
  by_cases hl : 1000 < (rangeUp b s 1001 a).length
  · exact Or.inl ⟨by simp [fnArrayRange, hne, rangeList, hs, hl], hl⟩
  · refine Or.inr ⟨rangeUp b s 1001 a, by simp [fnArrayRange, hne, rangeList, hs, hl], by omega,
      fun i h => rangeUp_get b s 1001 a i h, rangeUp_bound b s 1001 a,
      rangeUp_maximal b s 1001 a (by omega)⟩

/-- descending ranges (`s < 0`): elements `≥ b`, the next one would be `< b`. -/
theorem range_spec_down (a b s : Int) (hs : s < 0) :
    (fnArrayRange [.num a, .num b, .num s] = .error .intrinsic ∧ 1000 < (rangeDown b s 1001 a).length) ∨
    (∃ l : List Int, fnArrayRange [.num a, .num b, .num s] = .ok (.arr (l.map .num)) ∧ l.length ≤ 1000 ∧
      (∀ (i : Nat) (h : i < l.length), l[i] = a + i * s) ∧ (∀ y ∈ l, b ≤ y) ∧ a + l.length * s < b) := by
  have hne : s ≠ 0 := by omega
  have hns : ¬ 0 < s := by omega
  by_cases hl : 1000 < (rangeDown b s 1001 a).length
  · exact Or.inl ⟨by simp [fnArrayRange, hne, rangeList, hns, hl], hl⟩
  · refine Or.inr ⟨rangeDown b s 1001 a, by simp [fnArrayRange, hne, rangeList, hns, hl], by omega,
      fun i h => rangeDown_get b s 1001 a i h, rangeDown_bound b s 1001 a,
      rangeDown_maximal b s 1001 a (by omega)⟩

theorem range_zero_step (a b : Int) : fnArrayRange [.num a, .num b, .num 0] = .error .intrinsic := by
  simp [fnArrayRange]

example : fnArrayRange [.num 5, .num 1, .num (-2)] = .ok (.arr [.num 5, .num 3, .num 1]) := by rfl
example : fnArrayRange [.num 1, .num 9, .num 3] = .ok (.arr [.num 1, .num 4, .num 7]) := by rfl

/-- `States.ArrayUnique`: no two results are equal, every input element has an equal
representative, the result is a sub-list of the input in input order, and the element kept
is the first occurrence.  The function is a fixed structural recursion — nothing in it can
depend on a hash seed. -/
theorem unique (xs : List Json) :
    fnArrayUnique [.arr xs] = .ok (.arr (uniq xs)) ∧
    (uniq xs).Pairwise (fun a b => jeq a b = false) ∧
    (∀ y ∈ xs, ∃ z ∈ uniq xs, jeq z y = true) ∧
    (uniq xs).Sublist xs ∧
    (∀ pre y post, xs = pre ++ y :: post → (∀ p ∈ pre, jeq p y = false) → y ∈ uniq xs) :=
  ⟨rfl, uniq_pairwise xs, uniq_complete xs, uniq_sublist xs,
    fun pre y post h hp => h ▸ uniq_keeps_first pre y post hp⟩

example : uniq [.str "b".toList, .num 1, .str "a".toList, .str "b".toList, .bool true, .num 1] =
    [.str "b".toList, .num 1, .str "a".toList, .bool true] := by decide

/-- `States.ArrayContains` is membership up to JSON equality -/
theorem contains_iff_mem (xs : List Json) (v : Json) :
    ∃ b, fnArrayContains [.arr xs, v] = .ok (.bool b) ∧ (b = true ↔ ∃ x ∈ xs, jeq x v = true) :=
  ⟨xs.any (fun x => jeq x v), rfl, by simp [List.any_eq_true]⟩

/-- `States.ArrayGetItem` returns exactly the element at a valid index, and fails otherwise -/
theorem getItem_spec (xs : List Json) (i : Int) :
    fnArrayGetItem [.arr xs, .num i] =
      (if h : 0 ≤ i ∧ i.toNat < xs.length then .ok (xs[i.toNat]'h.2) else .error .intrinsic) := by
  by_cases h : 0 ≤ i ∧ i.toNat < xs.length
  · have h1 : ¬ i < 0 := by omega
    simp [fnArrayGetItem, h, h1]
  · by_cases h1 : i < 0
    · simp [fnArrayGetItem, h1, h]
    · have h2 : xs.length ≤ i.toNat := by omega
      simp [fnArrayGetItem, h1, h, List.getElem?_eq_none h2]

theorem length_spec (xs : List Json) : fnArrayLength [.arr xs] = .ok (.num xs.length) := rfl

/-- `States.JsonMerge(a, b, false)`: a member of the result is `b`'s (last) value for the
name when `b` has one — taken whole, not merged: shallow — and `a`'s otherwise. -/
theorem merge_shallow_right_biased (a b : List (Str × Json)) (k : Str) :
    ∃ m, fnJsonMerge [.obj a, .obj b, .bool false] = .ok (.obj m) ∧
      objGet m k = (objGetLast b k).or (objGet a k) :=
  ⟨mergeObj a b, rfl, mergeObj_get b a k⟩

/-- only the shallow mode exists -/
theorem merge_deep_refused (a b : Json) : fnJsonMerge [a, b, .bool true] = .error .intrinsic := by
  cases a <;> cases b <;> simp [fnJsonMerge]

example : fnJsonMerge [.obj [("a".toList, .obj [("x".toList, .num 1)]), ("b".toList, .num 2)],
    .obj [("a".toList, .obj [("y".toList, .num 3)])], .bool false] =
    .ok (.obj [("a".toList, .obj [("y".toList, .num 3)]), ("b".toList, .num 2)]) := by rfl

theorem mathAdd_spec (a b : Int) : fnMathAdd [.num a, .num b] = .ok (.num (a + b)) := rfl

/-- booleans are not integers -/
theorem mathAdd_bool (a : Int) (b : Bool) : fnMathAdd [.num a, .bool b] = .error .intrinsic := rfl

/-- `States.StringSplit` for *any* non-empty set of separator characters: no piece contains
a separator, there is one more piece than separators in the input, and pieces and
separators woven together are the input. -/
theorem split_spec (d seps : Str) (hs : seps ≠ []) :
    fnStringSplit [.str d, .str seps] = .ok (.arr ((splitOn seps d).map .str)) ∧
    (∀ p ∈ splitOn seps d, ∀ c ∈ p, seps.contains c = false) ∧
    (splitOn seps d).length = (sepsOf seps d).length + 1 ∧
    weave (splitOn seps d) (sepsOf seps d) = d :=
  ⟨by simp [fnStringSplit, hs], splitOn_pieces_clean seps d, splitOn_length seps d,
    splitOn_weave seps d⟩

example : splitOn "^]\\".toList "a^b]c\\d".toList = ["a".toList, "b".toList, "c".toList, "d".toList] := by
  decide

/-- `States.StringToJson(States.JsonToString(x)) = x` for every value whose object member
names are pairwise distinct at every level (`Json.wf`; true of everything `json.loads`
returns).  Strings and names may contain any characters: quotes, backslashes, control
characters, non-ASCII and astral code points all survive the `\uXXXX` escapes. -/
theorem json_roundtrip (o : Oracles) (x : Json) (h : x.wf = true) :
    applyFn o "States.JsonToString".toList [x] = .ok (.str (render x)) ∧
    applyFn o "States.StringToJson".toList [.str (render x)] = .ok x := by
  refine ⟨by simp [applyFn, fnJsonToString], ?_⟩
  simp [applyFn, fnStringToJson, leadingZero_render x, parseJson_render x h]

/-- the same as a nested call in a template -/
theorem json_roundtrip_call (o : Oracles) (input ctx : Json) (a : Arg) (x : Json)
    (ha : evalArg o input ctx a = .ok x) (h : x.wf = true) :
    evalArg o input ctx
      (.call "States.StringToJson".toList [.call "States.JsonToString".toList [a]]) = .ok x := by
  have ⟨h1, h2⟩ := json_roundtrip o x h
  simp only [evalArg, evalArgs, ha, h1, h2]

/-- without distinct names the result is the value with repeated names merged as a Python
`dict` does (last value, first position) -/
theorem json_roundtrip_dedup (o : Oracles) (x : Json) :
    applyFn o "States.StringToJson".toList [.str (render x)] = .ok (normalise x) := by
  simp [applyFn, fnStringToJson, leadingZero_render x, parseJson_render_any x]

/-- `States.Base64Decode(States.Base64Encode(s)) = s` for every string `s` — any length
(all three padding cases), any characters (all four UTF-8 length classes up to U+10FFFF) —
through the strict decoder (groups of four, alphabet check, padding only at the end, strict
UTF-8). -/
theorem base64_roundtrip (o : Oracles) (s : Str) :
    applyFn o "States.Base64Encode".toList [.str s] = .ok (.str (b64Enc (utf8Str s))) ∧
    applyFn o "States.Base64Decode".toList [.str (b64Enc (utf8Str s))] = .ok (.str s) := by
  have ⟨h1, h2⟩ := fnBase64_roundtrip s
  exact ⟨by simp [applyFn, h1], by simp [applyFn, h2]⟩

/-- the same as a nested call in a template -/
theorem base64_roundtrip_call (o : Oracles) (input ctx : Json) (a : Arg) (s : Str)
    (ha : evalArg o input ctx a = .ok (.str s)) :
    evalArg o input ctx
      (.call "States.Base64Decode".toList [.call "States.Base64Encode".toList [a]]) =
        .ok (.str s) := by
  have ⟨h1, h2⟩ := base64_roundtrip o s
  simp only [evalArg, evalArgs, ha, h1, h2]

/-! ## clean failure -/

/-- a `.$` member whose value is not a string fails with States.IntrinsicFailure -/
theorem illformed_value (o : Oracles) (input ctx v : Json) (h : ∀ s, v ≠ .str s) :
    evalValue o input ctx v = .error .intrinsic := by
  cases v <;> simp_all [evalValue]

/-- text that is not a call fails with States.IntrinsicFailure -/
theorem illformed_text (o : Oracles) (input ctx : Json) (t : Str) (h : parseIntrinsic t = none) :
    evalIntrinsicText o input ctx t = .error .intrinsic := by
  simp [evalIntrinsicText, h]

/-- a function, whatever it is given (wrong number or kind of arguments, unknown name),
either returns a value or fails with States.IntrinsicFailure -/
theorem illformed_is_intrinsic_failure (o : Oracles) (f : Str) (vs : List Json) (e : PErr)
    (h : applyFn o f vs = .error e) : e = .intrinsic :=
  applyFn_error o f vs e h

/-- evaluating a call fails only with States.IntrinsicFailure or one of the path failures -/
theorem eval_errors (o : Oracles) (input ctx : Json) (a : Arg) (e : PErr)
    (h : evalArg o input ctx a = .error e) : e = .intrinsic ∨ e = .pathMatch ∨ e = .paramPath :=
  evalArg_error o input ctx a e h

example : applyFn ⟨fun _ _ => [], fun a _ => a, []⟩ "locals".toList [] = .error .intrinsic := by rfl
example : fnMathAdd [.num 1] = .error .intrinsic := rfl

end Asl.C13
