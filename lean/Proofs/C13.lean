/-
C13 — payload templates and intrinsic functions evaluate as specified, fail cleanly.
Property theorems and non-vacuity examples only; helper lemmas live in Proofs/Lemmas.
-/
import AslModel.Template
import Proofs.Lemmas.Intrinsic
namespace Asl.C13
open Asl

/-! ## the template walk -/

/-- what happens to one object member, at any depth: it is evaluated and renamed exactly
when its name ends in `.$` (and its value is not an array/object); otherwise its name is
kept and its value is walked. -/
theorem template_member (o : Oracles) (input ctx : Json) (k : Str) (v : Json)
    (kvs : List (Str × Json)) :
    walkM o .none input ctx ((k, v) :: kvs) =
      (if endsDollar k = true ∧ isContainer v = false then
         (evalValue o input ctx v).bind fun r =>
           (walkM o .none input ctx kvs).map fun ms => (stripDollar k, r) :: ms
       else
         (walk o .none input ctx v).bind fun r =>
           (walkM o .none input ctx kvs).map fun ms => (k, r) :: ms) :=
  walkM_cons o input ctx k v kvs

/-- a template in which no member name ends in `.$`, at any depth, is copied verbatim
(array elements, whatever they look like, included). -/
theorem template_only_dollar_members (o : Oracles) (input ctx t : Json)
    (h : noDollar t = true) : walk o .none input ctx t = .ok t :=
  walk_noDollar o input ctx t h

/-- scalars are never touched: a scalar member whose name does not end in `.$` keeps name
and value whatever surrounds it. -/
theorem template_literal_member (o : Oracles) (input ctx : Json) (k : Str) (v : Json)
    (kvs ms : List (Str × Json)) (hk : endsDollar k = false) (hv : isContainer v = false)
    (h : walkM o .none input ctx kvs = .ok ms) :
    walkM o .none input ctx ((k, v) :: kvs) = .ok ((k, v) :: ms) := by
  rw [walkM_cons]
  cases v <;> simp_all [walk, isContainer, Except.bind, Except.map, Quirks.none]

example : noDollar (.obj [("a".toList, .arr [.str "$.x.$".toList, .obj [("b.c".toList, .num 1)]])]) = true := by
  decide

end Asl.C13
