/-
C04 — in-progress executions survive an engine crash and restart.
The protocol-level reasons: (1) the broker loses nothing on a connection loss; (2) because a
handler acknowledges its event only after it has handed over every consequence (C03's ordering
rule), cutting a handler short after *any* prefix of its broker operations either leaves the event
unacknowledged (it is redelivered) or has already issued all of its consequences.
-/
import AslModel.BrokerQ
import AslModel.Crash
import Proofs.C03
import Proofs.Lemmas.CrashSeq
import Proofs.Lemmas.CrashSeqF1
import Proofs.Lemmas.CrashFlatMain
import Proofs.Lemmas.CrashSent
import Proofs.Lemmas.CrashBatchInv
namespace Asl.C04
open Asl

/-- a message that was delivered and not acknowledged is back in the queue after a crash, marked
redelivered, ahead of everything that was still waiting -/
theorem crash_requeues_unacked (q : BQ) (m : QMsg) (h : m ∈ q.unacked) :
    { m with redelivered := true } ∈ (q.step .crash).ready ∧ (q.step .crash).unacked = [] := by
  simp only [BQ.step]
  refine ⟨List.mem_append_left _ (List.mem_map.mpr ⟨m, h, rfl⟩), ?_⟩
  trivial

/-- nothing that was waiting is lost or reordered by a crash -/
theorem crash_keeps_ready (q : BQ) : ∃ pre, (q.step .crash).ready = pre ++ q.ready := ⟨_, rfl⟩

/-- conservation: crash and deliver neither lose nor invent a message -/
theorem crash_conserves_ids (q : BQ) : (q.step .crash).ids.Perm q.ids := by
  simp only [BQ.step, BQ.ids, List.map_append, List.map_map, List.map_nil, List.append_nil]
  have : (List.map ((fun m => m.id) ∘ fun m => ({ m with redelivered := true } : QMsg)) q.unacked) = q.unacked.map (·.id) := by
    apply List.map_congr_left; intro m _; rfl
  rw [this]
  exact (List.perm_append_comm).append_right _

theorem deliver_conserves_ids (q : BQ) : (q.step .deliver).ids.Perm q.ids := by
  simp only [BQ.step, BQ.ids]
  cases hr : q.ready with
  | nil => simp [hr]
  | cons m rest =>
    simp only [List.map_cons, List.map_append, List.map_nil]
    rw [List.append_assoc, List.append_assoc]
    simp only [List.cons_append, List.nil_append]
    have h1 : (List.map (fun x => x.id) rest ++ (List.map (fun x => x.id) q.unacked ++ (m.id :: q.acked))).Perm
        (List.map (fun x => x.id) rest ++ (m.id :: (List.map (fun x => x.id) q.unacked ++ q.acked))) :=
      List.Perm.append_left _ List.perm_middle
    have h2 : (List.map (fun x => x.id) rest ++ (m.id :: (List.map (fun x => x.id) q.unacked ++ q.acked))).Perm
        (m.id :: (List.map (fun x => x.id) rest ++ (List.map (fun x => x.id) q.unacked ++ q.acked))) :=
      List.perm_middle
    have h3 := h1.trans h2
    simpa [List.append_assoc] using h3

/-- no loss inside a handler: if the handler step is ordered (C03) and the crash comes after any
prefix of its broker operations, then either the event's acknowledgement is not in the prefix (the
broker will redeliver the event) or every publish / record write of the step is already in it -/
theorem no_loss_mid_handler (fs : List Fr) (h : stepOrdered fs = true) (k : Nat) :
    (∀ f ∈ cutStep fs k, isAck f = false) ∨ (∀ f ∈ fs.drop k, isOut f = false) := by
  by_cases hk : ∀ f ∈ cutStep fs k, isAck f = false
  · exact Or.inl hk
  · right
    have hk' : ∃ f, f ∈ fs.take k ∧ isAck f = true := by
      apply Classical.byContradiction
      intro hcon
      apply hk
      intro f hf
      cases ha : isAck f with
      | false => rfl
      | true => exact absurd ⟨f, hf, ha⟩ hcon
    obtain ⟨a, hmem, ha⟩ := hk'
    obtain ⟨pre, post, hsplit⟩ := List.append_of_mem hmem
    intro g hg
    have hfs : fs = pre ++ a :: (post ++ fs.drop k) := by
      have := List.take_append_drop k fs
      rw [hsplit] at this
      simpa [List.append_assoc] using this.symm
    exact C03.stepOrdered_spec fs h pre a (post ++ fs.drop k) hfs ha g (List.mem_append_right _ hg)

/-- …and a crash strictly between two handler steps cuts nothing: the prefix is the whole step -/
theorem between_handlers_nothing_cut (fs : List Fr) : cutStep fs fs.length = fs := by
  simp [cutStep]

/-! ### the crash / redelivery protocol of one execution (`AslModel/Crash.lean`)

With all quirks off, and the engine dying between two handler invocations (any number of times, anywhere), a
sequence of Task visits always completes as the crash-free run does. -/

open Asl.Crash in
theorem count_le_one_of_nodup (xs : List Nat) (x : Nat) (h : xs.Nodup) : count xs x ≤ 1 := by
  induction xs with
  | nil => simp [count]
  | cons y ys ih =>
    simp only [List.nodup_cons] at h
    have ih' := ih h.2
    unfold count at ih' ⊢
    by_cases hy : y = x
    · subst hy
      have h0 : (ys.filter (fun z => z == y)).length = 0 := by
        rw [List.length_eq_zero_iff, List.filter_eq_nil_iff]
        intro z hz hzy
        exact h.1 ((beq_iff_eq.mp hzy) ▸ hz)
      simp [List.filter_cons, h0]
    · have : (y == x) = false := by simpa using hy
      simp [List.filter_cons, this]
      exact ih'

open Asl.Crash in
/-- what the harness would see of an execution that has ended (`Ended`): terminal, one notification, no request sent
twice, nothing pending, nothing left to do -/
theorem observe_ended (N : Nat) (c : Cfg) (h : Ended N c) :
    observe c = { terminal := true, notes := 1, resent := [], pendingUnsent := [], pendingLost := [], quiet := true } := by
  have hr : (c.sent.eraseDups).filter (fun x => decide (count c.sent x > 1)) = [] := by
    rw [List.filter_eq_nil_iff]
    intro x _
    have := count_le_one_of_nodup c.sent x h.sentnd
    simp; omega
  simp [observe, nextOp, hr, h.evq, h.rpq, h.notes, h.timers, h.pending, h.orphans]

/-! #### (i) sequences of Task visits (first attempts and retries), plain steps and Waits -/

open Asl.Crash in
/-- **Exactly once.**  For every sequence `sk` of Task visits — each event carrying any RetryCount: the event of a retry
sends its request from the back-off timer —, plain steps and Waits, and every schedule — any operations in any order
that the protocol has enabled, the engine dying and restarting between two handler invocations any number of times, at
any points —, letting the engine run on crash-free ends the execution (`Ended`): exactly one terminal notification, each
of the `tasksIn sk` requests sent exactly once (none twice: a redelivered event, first attempt or retry, whose request
is on record as sent does not send it again; none missing), and nothing is left in the event queue, the reply queue or
the engine's memory.  (Invariant over the operation list, no bound on its length: `Proofs/Lemmas/CrashSeq.lean`.) -/
theorem crash_safe_sequences (sk : Sk) (hsk : sk.seq = true) (ops : List Op) (c : Cfg)
    (hr : Crash.run Quirks.none (init sk) (ops.map (fun o => (o, none))) = some c) :
    Ended (tasksIn sk) (drain Quirks.none (mu c) c) ∧
      observe (drain Quirks.none (mu c) c) =
        { terminal := true, notes := 1, resent := [], pendingUnsent := [], pendingLost := [], quiet := true } := by
  have hi := sinv_run _ c _ (sinv_init sk hsk) hr
  have hc := cons_run (tasksIn sk) _ c ops (sinv_init sk hsk) (cons_init sk) hr
  obtain ⟨hi', hq⟩ := sdrain (mu c) c hi (Nat.le_refl _)
  have he := ended_of_quiet hi' (sdrain_cons (tasksIn sk) (mu c) c hi hc) hq
  exact ⟨he, observe_ended _ _ he⟩

open Asl.Crash in
/-- **No loss at any cut.**  The same sequences under every schedule whose handler invocations may, each, be cut short
by a crash after any number of their broker operations (and crashes between invocations, any number of both): the
execution is not lost — the crash-free run that follows comes to rest with the terminal notification sent (at least
once: a handler cut after the notification and before the acknowledgement repeats it, which is why the property asks
for less here), no event left, no timer or request pending, and still no correlation id requested twice; what may be
left in the reply queue are replies to requests that were sent (their event acknowledged, their own acknowledgement
cut off). -/
theorem no_loss_under_cuts_sequences (sk : Sk) (hsk : sk.seq = true) (sched : Sched) (c : Cfg)
    (hr : Crash.run Quirks.none (init sk) sched = some c) :
    let c' := drain Quirks.none (mu c) c
    c'.evq = [] ∧ 1 ≤ c'.notes ∧ c'.sent.Nodup ∧ c'.timers = [] ∧ c'.pending = [] ∧ nextOp c' = none ∧
      (∀ r ∈ c'.rpq, r.corr ∈ c'.sent) := by
  have hi := sinv_run _ c _ (sinv_init sk hsk) hr
  obtain ⟨hi', hq⟩ := sdrain (mu c) c hi (Nat.le_refl _)
  have hev := quiet_empty _ hi' hq
  refine ⟨hev, ?_, hi'.dur.sentnd, ?_, ?_, hq, ?_⟩
  · rcases hi'.dur.alive with h | h
    · simp [evK, hev] at h
    · exact h
  · apply List.eq_nil_iff_forall_not_mem.mpr
    intro t ht; have := hi'.vol.t_sub t ht; rw [hev] at this; cases this
  · apply List.eq_nil_iff_forall_not_mem.mpr
    intro t ht; have := (hi'.vol.p_sub t ht).1; rw [hev] at this; cases this
  · intro r hr'; exact hi'.dur.corrsent _ (List.mem_map.mpr ⟨r, hr', rfl⟩)

open Asl.Crash in
theorem tasks_seq (N : Nat) : (tasks N).seq = true ∧ tasksIn (tasks N) = N := by
  induction N with
  | zero => exact ⟨rfl, rfl⟩
  | succ n ih => exact ⟨ih.1, by simp [tasks, tasksIn, ih.2]⟩

open Asl.Crash in
/-- the special case of `N` Task visits in a row (the statement this file started with) -/
theorem crash_safe_task_sequences (N : Nat) (ops : List Op) (c : Cfg)
    (hr : Crash.run Quirks.none (init (tasks N)) (ops.map (fun o => (o, none))) = some c) :
    Ended N (drain Quirks.none (mu c) c) ∧
      observe (drain Quirks.none (mu c) c) =
        { terminal := true, notes := 1, resent := [], pendingUnsent := [], pendingLost := [], quiet := true } := by
  have := crash_safe_sequences (tasks N) (tasks_seq N).1 ops c hr
  rwa [(tasks_seq N).2] at this

open Asl.Crash in
/-- … which is the outcome of the crash-free run (the empty schedule) -/
theorem crash_free_task_sequences (N : Nat) :
    Ended N (drain Quirks.none (mu (init (tasks N))) (init (tasks N))) :=
  (crash_safe_task_sequences N [] (init (tasks N)) (by simp [Crash.run])).1

/-! #### (i') fan-outs: Parallel and Map states whose branches are such sequences -/

open Asl.Crash in
/-- **Exactly once, with fan-outs.**  For every *flat* skeleton `sk` — Task visits (first attempts and retries), plain steps
and Waits, and any number of Parallel / Map states (without MaxConcurrency, or with one that is at least the number of
branches: one batch), one after the other, each with any number of
branches that are sequences of Task visits, steps and Waits — and every schedule — any interleaving of the branches'
operations that the protocol has enabled, the engine dying and restarting between two handler invocations any number of
times, at any points (before the launch, between the branches' visits, with any part of the join filled) —, letting the
engine run on crash-free ends the execution: exactly one terminal notification, each of the `tasksIn sk` requests (of the
top level and of every branch) sent exactly once, and nothing left in the event queue, the reply queue or the engine's
memory (timers, pending requests, orphans, joins).  The join a crash wiped is rebuilt from the redelivered held events and
held replies; nothing is requested again.  (`Proofs/Lemmas/CrashFlat*.lean`: the invariant `PInv` over the operation list,
no bound on its length, on the number of branches or on the number of fan-out states.) -/
theorem crash_safe_flat (sk : Sk) (hsk : sk.flat = true) (ops : List Op) (c : Cfg)
    (hr : Crash.run Quirks.none (init sk) (ops.map (fun o => (o, none))) = some c) :
    Ended (tasksIn sk) (drain Quirks.none (mu2 c) c) ∧
      observe (drain Quirks.none (mu2 c) c) =
        { terminal := true, notes := 1, resent := [], pendingUnsent := [], pendingLost := [], quiet := true } := by
  have hi := prun _ c ops (pinv_init sk hsk) hr
  obtain ⟨hi', hq⟩ := pdrain (mu2 c) c hi (Nat.le_refl _)
  have he := pended hi' hq
  exact ⟨he, observe_ended _ _ he⟩

/-! #### (i'') every skeleton: no request is sent twice -/

open Asl.Crash in
/-- **Never twice, on every skeleton.**  For EVERY skeleton `sk` the model can express — Task visits and retries, steps,
Waits, Parallel / Map states with any MaxConcurrency (batches and their re-entry events), fan-outs nested to any depth,
synchronous child executions, failure points caught at any level or failing the execution — and EVERY schedule of the
quirk-free protocol — any interleaving, the engine dying between handler invocations or inside them (each handler cut
short after any number of its broker operations) —, and however long the engine then runs on crash-free (`fuel`): the
correlation ids of the requests sent are pairwise different, so `observe` reports no request as sent again.  This is the
property's clause "a Task whose request went out before the crash is not requested again" at full generality (per
correlation id; that the *count* of requests is the crash-free one is `crash_safe_flat`, on the class proved there —
the re-launched batch of C04-F7 sends under fresh ids).  With `requestFromTimer` (C04-F1) on it fails:
`redelivered_retry_not_resent`.  (`Proofs/Lemmas/CrashSent.lean`: no handler's operation list has a request except the one
the delivery / deferred handler of a Task visit puts first, and that one is guarded by the durable record.) -/
theorem never_requested_twice (sk : Sk) (sched : Sched) (c : Cfg)
    (hr : Crash.run Quirks.none (init sk) sched = some c) (fuel : Nat) :
    c.sent.Nodup ∧ (drain Quirks.none fuel c).sent.Nodup ∧ (observe (drain Quirks.none fuel c)).resent = [] := by
  have h0 : (init sk).sent.Nodup := List.nodup_nil
  have h1 := run_sent_nodup sched _ c hr h0
  have h2 := drain_sent_nodup fuel c h1
  exact ⟨h1, h2, resent_nil_of_nodup _ h2⟩

open Asl.Crash in
/-- The full-strength statement: the quirk-free protocol is crash-safe on skeleton `sk` — every schedule with crashes
between handler invocations anywhere ends, after a crash-free run, with one terminal notification, every request (Task
visits of all levels, child executions started) sent exactly once and nothing left behind. -/
def CrashSafe (sk : Sk) : Prop :=
  ∀ (ops : List Op) (c : Cfg), Crash.run Quirks.none (init sk) (ops.map (fun o => (o, none))) = some c →
    ∃ fuel, Ended (tasksIn sk) (drain Quirks.none fuel c)

open Asl.Crash in
/-- `CrashSafe` is proved for flat skeletons: sequences, and fan-out states whose branches are sequences, without
MaxConcurrency or with a MaxConcurrency of at least the number of branches (one batch).  What is missing for
`∀ sk, CrashSafe sk` (on skeletons without `fail` / `opaque`):
* Map states whose MaxConcurrency `mc` is smaller than the number of items.  The model has the batches, their re-entry events
  and the durable record of started batches (the quirk-free protocol re-enters only for a batch that exists,
  `from_ + mc < width` — the example "no re-entry event beyond the last batch" below), the `decide` examples below run them,
  and `never_requested_twice` covers them for the "not again" clause.  Proved so far, as lemmas of their own
  (`Proofs/Lemmas/CrashBatch.lean`, `CrashBatchInv.lean`; not yet part of `PInv`):
  (a) the facts about the record and the re-entry events, `BShape` — the batch-mates of a launched slot are launched, slot 0
      is, a batch on record has its re-entry event queued or is launched, a slot beyond the first batch is launched only if
      its batch is on record, the record is closed downwards, a queued re-entry event is on record and every launched slot is
      below its batch, at most one is queued — and that they survive the steps: `BShape.first` (the fan-out state is launched),
      `BShape.replace` (a visit follows a visit), `BShape.publish` (the branch that completes a batch publishes the re-entry
      event), `BShape.launch` (its deferred handler launches the batch), `BShape.top`, `BShape.congr`;
  (b) the liveness fact `BJoin` — a batch that is full in the join in memory, with a successor, has the successor on record —
      along the steps (`BJoin.hold`, `BJoin.mono`, `BJoin.nil`, `BJoin.crash`), and what it is for: `all_slots_launched` (by
      induction on the batch number) and `batched_quiet_complete` — no re-entry event queued and every branch event held ⇒ the
      join is complete (the step of `pquiet`);
  (c) the accounting of the slots not launched yet: `unl` (by the record, to the event of slot 0) and `bat` (what a re-entry
      event stands for), with `unl_publish`, `unl_first`, `unl_none`, `launch_map`;
  (d) of the handlers: what the end of a branch does (`advance_hold_publish`: the batch is full, a next one exists and is not
      on record ⇒ exactly the re-entry event is published; `advance_hold_quiet`: otherwise nothing).
  Still missing for `crash_safe_batched`: `flatKind` / `Sk.flat` / `Frame.wf` admitting re-entry events and any `mc`;
  `Shape.top` exempting re-entry events and `Shape.same` (one event per slot) across `BShape.launch`; `BShape` and `BJoin` as
  fields of `PInv` / `Mid`, re-established in every handler lemma of `CrashFlat*.lean` (by the lemmas of (a), (b)); `unl` / `bat`
  inside `restT` / `restW` (so in `Cons2.phi` and `mu2`; `brVisits` must allow 16 units per branch for the re-entry event's own
  handlers); the three handler lemmas at the level of `PInv` — `fin_hold` with the publication, the delivery of the re-entry
  event, its deferred handler (`flat_launch` for a later batch) —; `complete_of` with "no re-entry event is queued when the join
  is complete" and `pquiet` through `batched_quiet_complete`.
* fan-out states nested in branches (the crash-safe hand-over of a nested join's held events to the enclosing join), and
* synchronous child executions (a second execution whose terminal answer is a message of the reply queue). -/
theorem crash_safe_partial (sk : Sk) (hsk : sk.flat = true) : CrashSafe sk :=
  fun ops c hr => ⟨mu2 c, (crash_safe_flat sk hsk ops c hr).1⟩

open Asl.Crash in
/-- sequences are flat: `crash_safe_sequences` is the instance without fan-out states -/
theorem crash_safe_sequences_flat (sk : Sk) (hsk : sk.seq = true) : CrashSafe sk :=
  crash_safe_partial sk (flat_of_seq hsk)

namespace Witness
open Asl.Crash
/-- a Task whose first attempt fails and is retried (the retry's event carries RetryCount 1), then a step -/
def retried : Sk := .task 0 (.task 1 (.step .done))
/-- the retry's request is out (sent from its back-off timer), the engine dies, the retry's event is redelivered and its
deferred handler runs again -/
def schedRetry : Sched :=
  [(.ev 0, none), (.tm 0, none), (.rp 0, none), (.ev 1, none), (.tm 1, none), (.crash, none), (.ev 1, none), (.tm 1, none)]
/-- the last handler of one Task visit cut short after its first broker operation (the terminal notification) -/
def schedCutNote : Sched := [(.ev 0, none), (.rp 0, some 1)]
end Witness

open Asl.Crash Witness in
/-- the path the seeded change S-C04-4 breaks, concretely: a redelivered *retry* event whose request is out does not send it
again — in the crash-safe protocol (the request is on record) and in the engine's (a redelivered event is taken to have
been requested) -/
theorem redelivered_retry_not_resent :
    (Crash.run Quirks.none (init retried) schedRetry).map (fun c => (c.sent, (observe (drain Quirks.none 200 c)).resent, (observe (drain Quirks.none 200 c)).terminal)) =
      some ([0, 1], [], true) ∧
    (Crash.run Quirks.engine (init retried) schedRetry).map (fun c => (c.sent, (observe (drain Quirks.engine 200 c)).resent, (observe (drain Quirks.engine 200 c)).terminal)) =
      some ([0, 1], [], true) := by decide +kernel

open Asl.Crash Witness in
/-- why `no_loss_under_cuts_sequences` says "at least once": a cut after the terminal notification repeats it -/
theorem cut_repeats_terminal_notification :
    (Crash.run Quirks.none (init (tasks 1)) schedCutNote).map (fun c => (drain Quirks.none 200 c).notes) = some 2 := by
  decide +kernel

/-! ### (ii) each quirk breaks it: the formal counterparts of the open findings C04-F1, C04-F2, C04-F4

A skeleton and a schedule with ONE crash after which nothing is enabled and the execution has not ended —
and the same schedule with the quirk off completes. -/

namespace Witness
open Asl.Crash
def nc (op : Op) : Op × Option Nat := (op, none)
/-- does the run get stuck? (`none`: the schedule is not executable) -/
def stuckAfter (q : Quirks) (sk : Sk) (sched : Sched) : Option Bool :=
  (Crash.run q (init sk) sched).map (fun c => stuck (drain q 200 c))
def par2 : Sk := .par 0 (.cons (.task 0 .done) (.cons (.task 0 .done) .nil)) (.step .done)
def nested : Sk := .par 0 (.cons (.par 0 (.cons (.step .done) .nil) .done) (.cons (.task 0 .done) .nil)) .done
/-- the Task's event is delivered, the engine dies before the deferred handler sends the request -/
def schedF1 : Sched := [nc (.ev 0), nc .crash]
/-- both branches' requests are out, the first reply is handled (and acknowledged), the engine dies -/
def schedF2 : Sched := [nc (.ev 0), nc (.tm 0), nc (.ev 1), nc (.tm 1), nc (.ev 2), nc (.tm 2), nc (.rp 1), nc .crash]
/-- the nested fan-out has completed and ended its branch, the engine dies before the other branch is done -/
def schedF4 : Sched := [nc (.ev 0), nc (.tm 0), nc (.ev 1), nc (.tm 1), nc (.ev 3), nc .crash]
end Witness

open Asl.Crash Witness in
/-- C04-F1 -/
theorem requestFromTimer_gets_stuck :
    stuckAfter { requestFromTimer := true } (tasks 1) schedF1 = some true ∧
    stuckAfter Quirks.none (tasks 1) schedF1 = some false := by decide +kernel

open Asl.Crash Witness in
/-- C04-F2 -/
theorem replyAckedBeforeJoin_gets_stuck :
    stuckAfter { replyAckedBeforeJoin := true } par2 schedF2 = some true ∧
    stuckAfter Quirks.none par2 schedF2 = some false := by decide +kernel

open Asl.Crash Witness in
/-- C04-F4 -/
theorem nestedJoinAcksEarly_gets_stuck :
    stuckAfter { nestedJoinAcksEarly := true } nested schedF4 = some true ∧
    stuckAfter Quirks.none nested schedF4 = some false := by decide +kernel

open Asl.Crash Witness in
/-- … and the engine as it is (all three on) is stuck on all three -/
theorem engine_quirks_get_stuck :
    stuckAfter Quirks.engine (tasks 1) schedF1 = some true ∧ stuckAfter Quirks.engine par2 schedF2 = some true ∧
    stuckAfter Quirks.engine nested schedF4 = some true := by decide +kernel

/-! ### (iii) a quirk only hurts in its window

With `requestFromTimer` (C04-F1) on, the window is: *some Task event has been delivered and its request is
not sent yet* — formally `inWindow c`: a deferred handler is armed for an event whose correlation id is not
among the requests sent.  Crashes anywhere else, any number of them, still let a sequence of Task visits
complete with every request sent exactly once. -/

open Asl.Crash in
theorem quirks_only_hurt_at_their_window (N : Nat) (ops : List Op) (c : Cfg)
    (hr : runW qF1 (init (tasks N)) ops = some c) :
    ∃ nextId sent running, drain qF1 (mu1 c) c = cfgEnd nextId sent running ∧ sent.Nodup ∧ sent.length = N ∧
      observe (drain qF1 (mu1 c) c) =
        { terminal := true, notes := 1, resent := [], pendingUnsent := [], pendingLost := [], quiet := true } := by
  have hi := inv1_run (N := N) _ c ops (inv1_init N) hr
  obtain ⟨nextId, sent, running, hd, hnd, hlen⟩ := drain1_ends (N := N) (mu1 c) c hi (Nat.le_refl _)
  refine ⟨nextId, sent, running, hd, hnd, hlen, ?_⟩
  rw [hd]
  exact observe_ended N _ ⟨rfl, rfl, rfl, hnd, hlen, rfl, rfl, rfl, rfl⟩

open Asl.Crash Witness in
/-- the window is exactly where the witness of (ii) crashes, and a crash one operation later (the request is out)
is harmless: `runW` refuses the first schedule and accepts the second -/
theorem window_is_tight :
    runW qF1 (init (tasks 1)) [.ev 0, .crash] = none ∧
    (runW qF1 (init (tasks 1)) [.ev 0, .tm 0, .crash]).isSome = true ∧
    (Crash.run qF1 (init (tasks 1)) [nc (.ev 0)]).map inWindow = some true := by decide +kernel

/-! non-vacuity -/
example : ((BQ.run [.publish 1, .publish 2, .deliver, .deliver, .ack 1, .publish 3]).step .crash).ready
    = [{ id := 2, redelivered := true }, { id := 3 }] := by decide
example : stepOrdered [.deliver 1, .pub, .pub, .ack 1] = true := by decide

/-- hypothesis of `crash_safe_sequences`: a sequence with a retried Task, a Wait and a step, a schedule with three
crashes that is executable -/
example : (Asl.Crash.Sk.task 0 (.task 1 (.wait (.step .done)))).seq = true ∧
    (Asl.Crash.run Asl.Crash.Quirks.none (Asl.Crash.init (.task 0 (.task 1 (.wait (.step .done)))))
      ([Asl.Crash.Op.ev 0, .crash, .ev 0, .rp 0, .ev 1, .crash, .ev 1, .tm 1, .crash, .rp 1, .ev 1, .tm 1, .tick, .ev 2, .tm 2].map
        (fun o => (o, none)))).isSome = true := by
  decide +kernel
/-- … of `no_loss_under_cuts_sequences`: handlers cut after 0, 1 and 2 broker operations -/
example : (Asl.Crash.run Asl.Crash.Quirks.none (Asl.Crash.init (.task 0 (.step .done)))
    [(.ev 0, some 0), (.ev 0, some 1), (.ev 0, none), (.rp 0, some 1), (.ev 0, none), (.rp 0, some 2), (.ev 1, none)]).isSome = true := by
  decide +kernel
/-- … and of `quirks_only_hurt_at_their_window`: crashes outside the window -/
example : (Asl.Crash.runW Asl.Crash.qF1 (Asl.Crash.init (Asl.Crash.tasks 2))
    [.ev 0, .tm 0, .crash, .rp 0, .ev 0, .tm 0, .tick, .crash, .ev 1]).isSome = true := by decide +kernel
/-- hypothesis of `crash_safe_flat`: a Task, then a Parallel with three branches (a retried Task and a step; a Wait; a Task), then
a step; a schedule with four crashes (before the launch, between the branches' visits, with part of the join filled) that is
executable -/
example : (Asl.Crash.Sk.task 0 (.par 0 (.cons (.task 0 (.task 1 (.step .done))) (.cons (.wait .done) (.cons (.task 0 .done) .nil)))
      (.step .done))).flat = true ∧
    (Asl.Crash.run Asl.Crash.Quirks.none (Asl.Crash.init (.task 0 (.par 0 (.cons (.task 0 (.task 1 (.step .done)))
        (.cons (.wait .done) (.cons (.task 0 .done) .nil))) (.step .done))))
      ([Asl.Crash.Op.ev 0, .rp 0, .ev 1, .crash, .ev 1, .tm 1, .ev 2, .ev 4, .crash, .ev 3, .tm 3, .rp 4, .ev 4, .ev 2, .tick,
        .crash, .ev 2, .rp 2, .ev 3, .tm 3].map (fun o => (o, none)))).isSome = true := by
  decide +kernel
/-- … with a MaxConcurrency: a Map over two items, three at a time, with a crash while the join is half full -/
example : (Asl.Crash.Sk.par 3 (.cons (.task 0 (.step .done)) (.cons (.task 0 (.step .done)) .nil)) (.step .done)).flat = true ∧
    (Asl.Crash.run Asl.Crash.Quirks.none (Asl.Crash.init (.par 3 (.cons (.task 0 (.step .done)) (.cons (.task 0 (.step .done)) .nil)) (.step .done)))
      ([Asl.Crash.Op.ev 0, .tm 0, .ev 1, .rp 1, .ev 3, .crash, .ev 2, .ev 3].map (fun o => (o, none)))).isSome = true := by
  decide +kernel
/-- hypothesis of `never_requested_twice`: a Map with MaxConcurrency 1 over a Task and a nested Parallel (a child execution and
a Wait), then a failure point; the launch cut short after its first broker operation, a Task's delivery cut before its
request, the engine dying once more between handlers -/
example : (Asl.Crash.run Asl.Crash.Quirks.none
      (Asl.Crash.init (.par 1 (.cons (.task 0 (.step .done))
        (.cons (.par 0 (.cons (.child 0 (.task 0 .done) .done) (.cons (.wait .done) .nil)) .done) .nil)) (.fail none .done)))
      [(.ev 0, none), (.tm 0, some 1), (.ev 0, none), (.tm 0, none), (.ev 1, some 0), (.ev 1, none), (.crash, none),
       (.ev 2, none), (.ev 1, none)]).isSome = true := by
  decide +kernel
/-- no re-entry event beyond the last batch: a Map with MaxConcurrency 1 over two items, the engine dies once the second item is
launched, the second item ends first (the LAST batch is full while the join is not): the crash-safe protocol publishes
nothing (`from_ + mc < width` fails), and when the first item's event has been redelivered the execution has ended with an
empty event queue; the engine's rule (`batchRelaunched`, C04-F7) re-enters for slot 2 of 2 and ends with that event queued -/
example :
    ((Asl.Crash.run Asl.Crash.Quirks.none (Asl.Crash.init (.par 1 (.cons (.step .done) (.cons (.step .done) .nil)) .done))
      ([Asl.Crash.Op.ev 0, .tm 0, .ev 1, .ev 2, .tm 2, .crash, .ev 3, .ev 1].map (fun o => (o, none)))).map
        (fun c => (c.evq.map (fun m => match m.kind with | .reenter _ s _ _ => some s | _ => none), c.notes))) =
      some ([], 1) ∧
    ((Asl.Crash.run { batchRelaunched := true } (Asl.Crash.init (.par 1 (.cons (.step .done) (.cons (.step .done) .nil)) .done))
      ([Asl.Crash.Op.ev 0, .tm 0, .ev 1, .ev 2, .tm 2, .crash, .ev 3, .ev 1].map (fun o => (o, none)))).map
        (fun c => (c.evq.map (fun m => match m.kind with | .reenter _ s _ _ => some s | _ => none), c.notes))) =
      some ([some 2], 1) := by
  decide +kernel
/-- beyond the proved class, by computation: a Map with MaxConcurrency 1 over two items (Task, then step) with a crash
after the second batch was started — the crash-safe protocol does not start the batch again (two requests), the engine's
does (three: the open finding C04-F7) -/
example :
    ((Asl.Crash.run Asl.Crash.Quirks.none (Asl.Crash.init (.par 1 (.cons (.task 0 (.step .done)) (.cons (.task 0 (.step .done)) .nil)) .done))
      ([Asl.Crash.Op.ev 0, .tm 0, .ev 1, .rp 1, .ev 2, .ev 3, .tm 3, .crash, .ev 2].map (fun o => (o, none)))).map
        (fun c => ((Asl.Crash.drain Asl.Crash.Quirks.none 200 c).sent.length, (Asl.Crash.drain Asl.Crash.Quirks.none 200 c).notes))) = some (2, 1) ∧
    ((Asl.Crash.run { batchRelaunched := true } (Asl.Crash.init (.par 1 (.cons (.task 0 (.step .done)) (.cons (.task 0 (.step .done)) .nil)) .done))
      ([Asl.Crash.Op.ev 0, .tm 0, .ev 1, .rp 1, .ev 2, .ev 3, .tm 3, .crash, .ev 2].map (fun o => (o, none)))).map
        (fun c => ((Asl.Crash.drain { batchRelaunched := true } 200 c).sent.length, (Asl.Crash.drain { batchRelaunched := true } 200 c).notes))) = some (3, 1) := by
  decide +kernel
/-- the crash-safe protocol on the fan-out witnesses: the reply is held by the join / the nested join's events by the
enclosing one, and the runs complete with every request sent once -/
example : (Asl.Crash.run Asl.Crash.Quirks.none (Asl.Crash.init Witness.par2) Witness.schedF2).map
    (fun c => Asl.Crash.observe (Asl.Crash.drain Asl.Crash.Quirks.none 200 c)) =
    some { terminal := true, notes := 1, resent := [], pendingUnsent := [], pendingLost := [], quiet := true } := by
  decide +kernel

end Asl.C04
