/-
C04 — in-progress executions survive an engine crash and restart.
The protocol-level reasons: (1) the broker loses nothing on a connection loss; (2) because a
handler acknowledges its event only after it has handed over every consequence (C03's ordering
rule), cutting a handler short after *any* prefix of its broker operations either leaves the event
unacknowledged (it is redelivered) or has already issued all of its consequences.
-/
import AslModel.BrokerQ
import AslModel.Crash
import Proofs.C03
namespace Asl.C04
open Asl

/-- a message that was delivered and not acknowledged is back in the queue after a crash, marked
redelivered, ahead of everything that was still waiting -/
theorem crash_requeues_unacked (q : BQ) (m : QMsg) (h : m ∈ q.unacked) :
    { m with redelivered := true } ∈ (q.step .crash).ready ∧ (q.step .crash).unacked = [] := by
  simp only [BQ.step]
  refine ⟨List.mem_append_left _ (List.mem_map.mpr ⟨m, h, rfl⟩), ?_⟩
  trivial

/-- nothing that was waiting is lost or reordered by a crash -/
theorem crash_keeps_ready (q : BQ) : ∃ pre, (q.step .crash).ready = pre ++ q.ready := ⟨_, rfl⟩

/-- conservation: crash and deliver neither lose nor invent a message -/
theorem crash_conserves_ids (q : BQ) : (q.step .crash).ids.Perm q.ids := by
  simp only [BQ.step, BQ.ids, List.map_append, List.map_map, List.map_nil, List.append_nil]
  have : (List.map ((fun m => m.id) ∘ fun m => ({ m with redelivered := true } : QMsg)) q.unacked) = q.unacked.map (·.id) := by
    apply List.map_congr_left; intro m _; rfl
  rw [this]
  exact (List.perm_append_comm).append_right _

theorem deliver_conserves_ids (q : BQ) : (q.step .deliver).ids.Perm q.ids := by
  simp only [BQ.step, BQ.ids]
  cases hr : q.ready with
  | nil => simp [hr]
  | cons m rest =>
    simp only [List.map_cons, List.map_append, List.map_nil]
    rw [List.append_assoc, List.append_assoc]
    simp only [List.cons_append, List.nil_append]
    have h1 : (List.map (fun x => x.id) rest ++ (List.map (fun x => x.id) q.unacked ++ (m.id :: q.acked))).Perm
        (List.map (fun x => x.id) rest ++ (m.id :: (List.map (fun x => x.id) q.unacked ++ q.acked))) :=
      List.Perm.append_left _ List.perm_middle
    have h2 : (List.map (fun x => x.id) rest ++ (m.id :: (List.map (fun x => x.id) q.unacked ++ q.acked))).Perm
        (m.id :: (List.map (fun x => x.id) rest ++ (List.map (fun x => x.id) q.unacked ++ q.acked))) :=
      List.perm_middle
    have h3 := h1.trans h2
    simpa [List.append_assoc] using h3

/-- no loss inside a handler: if the handler step is ordered (C03) and the crash comes after any
prefix of its broker operations, then either the event's acknowledgement is not in the prefix (the
broker will redeliver the event) or every publish / record write of the step is already in it -/
theorem no_loss_mid_handler (fs : List Fr) (h : stepOrdered fs = true) (k : Nat) :
    (∀ f ∈ cutStep fs k, isAck f = false) ∨ (∀ f ∈ fs.drop k, isOut f = false) := by
  by_cases hk : ∀ f ∈ cutStep fs k, isAck f = false
  · exact Or.inl hk
  · right
    have hk' : ∃ f, f ∈ fs.take k ∧ isAck f = true := by
      apply Classical.byContradiction
      intro hcon
      apply hk
      intro f hf
      cases ha : isAck f with
      | false => rfl
      | true => exact absurd ⟨f, hf, ha⟩ hcon
    obtain ⟨a, hmem, ha⟩ := hk'
    obtain ⟨pre, post, hsplit⟩ := List.append_of_mem hmem
    intro g hg
    have hfs : fs = pre ++ a :: (post ++ fs.drop k) := by
      have := List.take_append_drop k fs
      rw [hsplit] at this
      simpa [List.append_assoc] using this.symm
    exact C03.stepOrdered_spec fs h pre a (post ++ fs.drop k) hfs ha g (List.mem_append_right _ hg)

/-- …and a crash strictly between two handler steps cuts nothing: the prefix is the whole step -/
theorem between_handlers_nothing_cut (fs : List Fr) : cutStep fs fs.length = fs := by
  simp [cutStep]

/-! ### the crash / redelivery protocol of one execution (`AslModel/Crash.lean`)

With all quirks off, and the engine dying between two handler invocations (any number of times, anywhere), a
sequence of Task visits always completes as the crash-free run does. -/

def _root_.Asl.Crash.tasks : Nat → Asl.Crash.Sk
  | 0 => .done
  | n + 1 => .task 0 (Asl.Crash.tasks n)

/-! ### (ii) each quirk breaks it: the formal counterparts of the open findings C04-F1, C04-F2, C04-F4

A skeleton and a schedule with ONE crash after which nothing is enabled and the execution has not ended —
and the same schedule with the quirk off completes. -/

namespace Witness
open Asl.Crash
def nc (op : Op) : Op × Option Nat := (op, none)
/-- does the run get stuck? (`none`: the schedule is not executable) -/
def stuckAfter (q : Quirks) (sk : Sk) (sched : Sched) : Option Bool :=
  (run q (init sk) sched).map (fun c => stuck (drain q 200 c))
def par2 : Sk := .par 0 (.cons (.task 0 .done) (.cons (.task 0 .done) .nil)) (.step .done)
def nested : Sk := .par 0 (.cons (.par 0 (.cons (.step .done) .nil) .done) (.cons (.task 0 .done) .nil)) .done
/-- the Task's event is delivered, the engine dies before the deferred handler sends the request -/
def schedF1 : Sched := [nc (.ev 0), nc .crash]
/-- both branches' requests are out, the first reply is handled (and acknowledged), the engine dies -/
def schedF2 : Sched := [nc (.ev 0), nc (.tm 0), nc (.ev 1), nc (.tm 1), nc (.ev 2), nc (.tm 2), nc (.rp 1), nc .crash]
/-- the nested fan-out has completed and ended its branch, the engine dies before the other branch is done -/
def schedF4 : Sched := [nc (.ev 0), nc (.tm 0), nc (.ev 1), nc (.tm 1), nc (.ev 3), nc .crash]
end Witness

open Asl.Crash Witness in
/-- C04-F1 -/
theorem requestFromTimer_gets_stuck :
    stuckAfter { requestFromTimer := true } (tasks 1) schedF1 = some true ∧
    stuckAfter Quirks.none (tasks 1) schedF1 = some false := by decide +kernel

open Asl.Crash Witness in
/-- C04-F2 -/
theorem replyAckedBeforeJoin_gets_stuck :
    stuckAfter { replyAckedBeforeJoin := true } par2 schedF2 = some true ∧
    stuckAfter Quirks.none par2 schedF2 = some false := by decide +kernel

open Asl.Crash Witness in
/-- C04-F4 -/
theorem nestedJoinAcksEarly_gets_stuck :
    stuckAfter { nestedJoinAcksEarly := true } nested schedF4 = some true ∧
    stuckAfter Quirks.none nested schedF4 = some false := by decide +kernel

open Asl.Crash Witness in
/-- … and the engine as it is (all three on) is stuck on all three -/
theorem engine_quirks_get_stuck :
    stuckAfter Quirks.engine (tasks 1) schedF1 = some true ∧ stuckAfter Quirks.engine par2 schedF2 = some true ∧
    stuckAfter Quirks.engine nested schedF4 = some true := by decide +kernel

/-! non-vacuity -/
example : ((BQ.run [.publish 1, .publish 2, .deliver, .deliver, .ack 1, .publish 3]).step .crash).ready
    = [{ id := 2, redelivered := true }, { id := 3 }] := by decide
example : stepOrdered [.deliver 1, .pub, .pub, .ack 1] = true := by decide

/-- the crash-safe protocol on the fan-out witnesses: the reply is held by the join / the nested join's events by the
enclosing one, and the runs complete with every request sent once -/
example : (Asl.Crash.run Asl.Crash.Quirks.none (Asl.Crash.init Witness.par2) Witness.schedF2).map
    (fun c => Asl.Crash.observe (Asl.Crash.drain Asl.Crash.Quirks.none 200 c)) =
    some { terminal := true, notes := 1, resent := [], pendingUnsent := [], pendingLost := [], quiet := true } := by
  decide +kernel

end Asl.C04
