/-
C16 — service quotas are enforced at the exact boundary.
Property theorems and non-vacuity examples only; helper lemmas live in Proofs/Lemmas/Quota.lean.

The `gen_*` theorems are the obligations over `AslModel/Generated.lean`, the part of the model
that `harness/extract.py` regenerates from the live modules on every run: when a constant of the
code changes they stop checking, `lake build` fails, and the check goes on to find a concrete
failing input with its boundary probes.
-/
import AslModel.Quota
import Proofs.Lemmas.Quota
namespace Asl.C16
open Asl Asl.Quota

/-! ### obligations over the regenerated constants -/

/-- the state engine's data limit is the documented 262144 (256 * 1024) characters -/
theorem gen_max_data : Generated.maxDataLength = 262144 := by decide

/-- every copy of a limit constant (task dispatcher, the two REST front ends) equals the state
engine's -/
theorem gen_copies_agree :
    Generated.maxDataLengthTaskDispatcher = Generated.maxDataLength ∧
    Generated.maxDataLengthRestApiAsyncio = Generated.maxDataLength ∧
    Generated.maxDataLengthRestApi = Generated.maxDataLength ∧
    Generated.maxStateMachineLengthRestApiAsyncio = Generated.maxStateMachineLength ∧
    Generated.maxStateMachineLengthRestApi = Generated.maxStateMachineLength := by decide

theorem gen_max_definition : Generated.maxStateMachineLength = 1048576 := by decide

theorem gen_max_history : Generated.maxExecutionHistoryLength = 25000 := by decide

/-- the lengths (probed 0..100) on which each front end's `valid_name` answers true are exactly
1..80 -/
theorem gen_name_window :
    Generated.nameLengthsAccepted = List.range' 1 80 ∧
    Generated.nameLengthsAcceptedRestApi = List.range' 1 80 ∧
    80 < Generated.nameProbeMax := by decide

/-! ### the data limit -/

theorem dataLimit_eq (site : DataSite) : dataLimit site = 262144 := by
  cases site <;> decide

/-- **data_limit_iff**: every enforcement predicate — API input on both front ends,
StartSyncExecution, SendTaskSuccess, state output, task reply, callback output — accepts a
measured length iff it is at most 262144. -/
theorem data_limit_iff (site : DataSite) (len : Nat) :
    checkData site len = .accepted ↔ len ≤ 262144 := by
  rw [checkData, ite_verdict_iff]
  simp [acceptsData, dataLimit_eq]

/-- a refusal is reported the documented way: `InvalidExecutionInput` by StartExecution and
StartSyncExecution, `InvalidOutput` by SendTaskSuccess, `States.DataLimitExceeded` inside an
execution -/
theorem data_refusal (site : DataSite) (len : Nat) (h : 262144 < len) :
    checkData site len = .refused (dataError site) ∧
    (dataError .stateOutput = "States.DataLimitExceeded".toList ∧
      dataError .taskReply = "States.DataLimitExceeded".toList ∧
      dataError .callbackOutput = "States.DataLimitExceeded".toList ∧
      dataError .apiSendTaskSuccess = "InvalidOutput".toList ∧
      dataError .apiStartExecution = "InvalidExecutionInput".toList ∧
      dataError .apiStartExecutionFlask = "InvalidExecutionInput".toList ∧
      dataError .apiStartSyncExecution = "InvalidExecutionInput".toList) := by
  refine ⟨?_, rfl, rfl, rfl, rfl, rfl, rfl, rfl⟩
  apply ite_verdict_refused
  simp [acceptsData, dataLimit_eq]
  omega

/-- a state's output is measured on the engine's own JSON text of it -/
theorem state_output_iff (data : Json) :
    checkStateOutput data = .accepted ↔ (render data).length ≤ 262144 := by
  simp [checkStateOutput, serLen, data_limit_iff]

/-- a submitted text / a reply text is measured in characters -/
theorem text_iff (site : DataSite) (text : Str) :
    checkText site text = .accepted ↔ text.length ≤ 262144 := by
  simp [checkText, data_limit_iff]

/-! ### the definition limit -/

theorem defLimit_eq (site : DefSite) : defLimit site = 1048576 := by
  cases site <;> decide

/-- **definition_limit_iff**: Create/UpdateStateMachine on both front ends accept a definition
iff it is non-empty and at most 1048576 characters long -/
theorem definition_limit_iff (site : DefSite) (len : Nat) :
    checkDefinition site len = .accepted ↔ 1 ≤ len ∧ len ≤ 1048576 := by
  rw [checkDefinition, ite_verdict_iff]
  simp [acceptsDefinition, defLimit_eq]
  omega

/-! ### names -/

theorem nameLengths_eq (site : NameSite) : nameLengths site = List.range' 1 80 := by
  cases site
  · exact gen_name_window.1
  · exact gen_name_window.2.1

/-- **name_limit_iff**: a name is accepted iff it has 1..80 characters none of which is one of
the forbidden characters -/
theorem name_limit_iff (site : NameSite) (s : Str) :
    checkName site s = .accepted ↔
      1 ≤ s.length ∧ s.length ≤ 80 ∧ ∀ c ∈ s, c ∉ forbiddenNameChars := by
  rw [checkName, ite_verdict_iff, ← validName_iff]
  simp only [acceptsName, validName, nameLengths_eq, maxNameLength, range_window]
  exact Iff.rfl

/-- the quota's reading of a valid name is the validator of the ARN layer (C17) -/
theorem name_is_validName (site : NameSite) (s : Str) :
    acceptsName site s = validName s := by
  simp only [acceptsName, validName, nameLengths_eq, maxNameLength, range_window]
  rfl

/-! ### all sites of one limit decide alike -/

/-- **sites_agree** -/
theorem sites_agree :
    (∀ (s₁ s₂ : DataSite) (len : Nat), acceptsData s₁ len = acceptsData s₂ len) ∧
    (∀ (s₁ s₂ : DefSite) (len : Nat), acceptsDefinition s₁ len = acceptsDefinition s₂ len) ∧
    (∀ (s₁ s₂ : NameSite) (s : Str), acceptsName s₁ s = acceptsName s₂ s) := by
  refine ⟨?_, ?_, ?_⟩
  · intro s₁ s₂ len; simp [acceptsData, dataLimit_eq]
  · intro s₁ s₂ len; simp [acceptsDefinition, defLimit_eq]
  · intro s₁ s₂ s; rw [name_is_validName, name_is_validName]

/-! ### the boundary itself -/

/-- **at_limit_accepted**: values exactly at a limit are accepted, at every site -/
theorem at_limit_accepted :
    (∀ site, checkData site 262144 = .accepted) ∧
    (∀ site, checkDefinition site 1048576 = .accepted) ∧
    (∀ site, checkDefinition site 1 = .accepted) ∧
    (∀ site, checkName site (padChars 80) = .accepted) ∧
    (∀ site, checkName site (padChars 1) = .accepted) := by
  refine ⟨fun s => (data_limit_iff s _).mpr (by omega),
    fun s => (definition_limit_iff s _).mpr (by omega),
    fun s => (definition_limit_iff s _).mpr (by omega), ?_, ?_⟩
  · intro s; cases s <;> decide
  · intro s; cases s <;> decide

/-- **one_over_refused**: values one over (one under the lower bound) are refused, at every
site, with that site's documented error -/
theorem one_over_refused :
    (∀ site, checkData site 262145 = .refused (dataError site)) ∧
    (∀ site, checkDefinition site 1048577 = .refused "InvalidDefinition".toList) ∧
    (∀ site, checkDefinition site 0 = .refused "InvalidDefinition".toList) ∧
    (∀ site, checkName site (padChars 81) = .refused "InvalidName".toList) ∧
    (∀ site, checkName site [] = .refused "InvalidName".toList) := by
  refine ⟨fun s => (data_refusal s _ (by omega)).1, ?_, ?_, ?_, ?_⟩
  · intro s; apply ite_verdict_refused; simp [acceptsDefinition, defLimit_eq]
  · intro s; apply ite_verdict_refused; simp [acceptsDefinition]
  · intro s; cases s <;> decide
  · intro s; cases s <;> decide

/-! ### the padding documents hit the boundary exactly -/

/-- **serLen_pad**: the JSON text (Python `json.dumps`) of the generator's padding documents has
the intended length, for every n -/
theorem serLen_pad (n : Nat) :
    serLen (padStr n) = n + 2 ∧ serLen (padObj n) = n + 9 ∧
    serLen (padArr n) = n + 4 ∧ serLen (padArr2 n) = n + 7 := by
  have h := render_padStr_length n
  refine ⟨h, ?_, ?_, ?_⟩
  · simp only [serLen, padObj, render, renderM, quote_p]
    simp [h]
  · simp only [serLen, padArr, render, renderL]
    simp [h]
  · simp only [serLen, padArr2, render, renderL]
    have : (intText 0).length = 1 := by decide
    simp [h, this]

/-- so a state whose output is the padding object of 262135 characters is accepted and the one of
262136 characters fails with `States.DataLimitExceeded` -/
theorem pad_hits_boundary :
    checkStateOutput (padObj 262135) = .accepted ∧
    checkStateOutput (padObj 262136) = .refused "States.DataLimitExceeded".toList := by
  constructor
  · rw [state_output_iff]
    have := (serLen_pad 262135).2.1
    unfold serLen at this; omega
  · have h := (serLen_pad 262136).2.1
    unfold checkStateOutput
    rw [h]
    exact (data_refusal .stateOutput _ (by omega)).1

/-! ### execution history -/

/-- **history_bounded**: whatever the states of a run append (at most K events each), a run that
starts within bounds never records more than 25000 + K events while it is running, and never more
than 25000 + K + 2 at all: the first state entry that finds more than 25000 events fails the
execution, which appends one closing event. -/
theorem history_bounded (K h : Nat) (adds : List Nat) (hK : ∀ a ∈ adds, a ≤ K)
    (hh : h ≤ 25000 + K) :
    ((runHistory h adds).failed = false → (runHistory h adds).len ≤ 25000 + K) ∧
    (runHistory h adds).len ≤ 25000 + K + 2 := by
  have := runHistory_bound K adds h hK (by rw [gen_max_history]; exact hh)
  rw [gen_max_history] at this
  exact ⟨this.1, by have := this.2; simp [closingEvents] at this; omega⟩

/-- **history_limit_fails**: an execution cannot go on past the limit — every state entry appends
an event, so a run of more than 25000 state visits has been failed; and a failed run did exceed
the limit (the check never fails an execution early). -/
theorem history_limit_fails (h : Nat) (adds : List Nat) :
    (25000 < h + adds.length → adds ≠ [] → (runHistory h adds).failed = true) ∧
    ((runHistory h adds).failed = true → 25000 < (runHistory h adds).len) := by
  constructor
  · intro hlen hne
    cases hf : (runHistory h adds).failed with
    | true => rfl
    | false =>
      have := runHistory_running_visits adds h hne hf
      rw [gen_max_history] at this
      omega
  · intro hf
    have := runHistory_failed_over adds h hf
    rw [gen_max_history] at this
    exact this

/-- the check is made on entry: a state entered with exactly 25000 events recorded (the entry
makes 25000 + 1 > 25000) is the first to fail; one entered with 24999 still runs -/
theorem history_entry_boundary (a : Nat) :
    (visit 24999 a).failed = false ∧ (visit 25000 a).failed = true := by
  constructor
  · cases hf : (visit 24999 a).failed with
    | false => rfl
    | true => have := (visit_failed_iff _ _).mp hf; rw [gen_max_history] at this; omega
  · exact (visit_failed_iff _ _).mpr (by rw [gen_max_history]; omega)

/-! ### the same with re-entries that log no `…StateEntered` (retries, Map batches) -/

/-- **history_bounded_passes**: a run made of first entries (`e = 1`) and re-entries (`e = 0`: a
retried state, a Map state re-entered for its next batch), each appending at most K events after
the check, never records more than 25000 + K events while it is running and never more than
25000 + K + 2 at all — the check is made on *every* pass, also on the ones that log no entry. -/
theorem history_bounded_passes (K h : Nat) (ps : List (Nat × Nat))
    (hK : ∀ p ∈ ps, p.1 ≤ 1 ∧ p.2 ≤ K) (hh : h ≤ 25000 + K) :
    ((runPasses h ps).failed = false → (runPasses h ps).len ≤ 25000 + K) ∧
    (runPasses h ps).len ≤ 25000 + K + 2 := by
  have := runPasses_bound K ps h hK (by rw [gen_max_history]; exact hh)
  rw [gen_max_history] at this
  exact ⟨this.1, by have := this.2; simp [closingEvents] at this; omega⟩

/-- **retry_loop_is_failed**: a run cannot go on for ever by retrying — when every pass records at
least one event (a first entry logs `…StateEntered`, a retried Task logs its scheduling), a run of
more than 25001 passes past `h` recorded events has been failed; and a failed run did exceed the
limit. -/
theorem retry_loop_is_failed (h : Nat) (ps : List (Nat × Nat)) (hpos : ∀ p ∈ ps, 1 ≤ p.1 + p.2) :
    (25000 < h + (ps.length - 1) → ps ≠ [] → (runPasses h ps).failed = true) ∧
    ((runPasses h ps).failed = true → 25000 < (runPasses h ps).len) := by
  constructor
  · intro hlen hne
    cases hf : (runPasses h ps).failed with
    | true => rfl
    | false =>
      have := runPasses_running ps h hpos hne hf
      rw [gen_max_history] at this
      omega
  · intro hf
    have := runPasses_failed_over ps h hf
    rw [gen_max_history] at this
    exact this

/-- first entries only: the two formulations agree -/
theorem passes_generalise_visits (h : Nat) (adds : List Nat) :
    runHistory h adds = runPasses h (adds.map (fun a => (1, a))) :=
  runHistory_eq_runPasses adds h

-- non-vacuity: a state entered once and then retried (re-entries log nothing, each attempt 3 events)
example : (∀ p ∈ [(1, 3), (0, 3), (0, 3), (0, 3)], p.1 ≤ 1 ∧ p.2 ≤ 3) ∧ 24994 ≤ 25000 + 3 ∧
    (∀ p ∈ [(1, 3), (0, 3), (0, 3), (0, 3)], 1 ≤ p.1 + p.2) ∧
    (runPasses 24994 [(1, 3), (0, 3), (0, 3), (0, 3)]).failed = true ∧
    (runPasses 24994 [(1, 3), (0, 3), (0, 3), (0, 3)]).len = 25002 := by decide

/-! ### the recorded deviation (open finding C16-F1) breaks the property — the negation, proved -/

/-- with the switch on, a terminal state's output of 262145 characters is accepted although the
site refuses that length; with `Quirks.none` the terminal flag is irrelevant -/
theorem quirk_terminal_breaks :
    checkStateOutputLenQ { terminalOutputUnchecked := true } true 262145 = .accepted ∧
    checkData .stateOutput 262145 ≠ .accepted ∧
    (∀ terminal len, checkStateOutputLenQ Quirks.none terminal len = checkData .stateOutput len) := by
  refine ⟨by simp [checkStateOutputLenQ], ?_, ?_⟩
  · rw [Ne, data_limit_iff]; omega
  · intro t len; simp [checkStateOutputLenQ, Quirks.none]

/-! ### non-vacuity: the hypotheses are met by concrete, non-trivial instances -/

-- history_bounded: a run near the limit whose states append at most 4 events each
example : (∀ a ∈ [4, 1, 3, 4, 2], a ≤ 4) ∧ 24990 ≤ 25000 + 4 ∧
    (runHistory 24990 [4, 1, 3, 4, 2]).failed = true ∧
    (runHistory 24990 [4, 1, 3, 4, 2]).len = 25003 := by decide

-- history_bounded, running case: the run ends before the limit
example : (runHistory 10 [4, 1, 3]).failed = false ∧ (runHistory 10 [4, 1, 3]).len = 21 := by decide

-- history_limit_fails: both hypotheses of the first clause hold for a concrete run
example : 25000 < 24999 + [1, 1].length ∧ ([1, 1] : List Nat) ≠ [] ∧
    (runHistory 24999 [1, 1]).failed = true := by decide

-- data_refusal: a length over the limit exists at every site, with a site-specific error
example : (262144 < 262145) ∧ checkData .apiSendTaskSuccess 262145 = .refused "InvalidOutput".toList := by
  decide

-- name_limit_iff: a real name with unusual but permitted characters, and one with a forbidden one
example : checkName .asyncio "my-machine_1.v2".toList = .accepted ∧
    checkName .flask "my machine".toList = .refused "InvalidName".toList := by decide

-- serLen_pad on a small instance, computed
example : render (padObj 3) = "{\"p\": \"aaa\"}".toList ∧ serLen (padArr2 2) = 9 := by decide

end Asl.C16
