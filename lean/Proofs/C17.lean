/-
C17 — names and ARNs round-trip and link executions to their state machine.
Property theorems and non-vacuity examples only; helper lemmas live in Proofs/Lemmas/Names.lean.
-/
import AslModel.Names
import Proofs.Lemmas.Names
namespace Asl.C17
open Asl

/-! ### the separator-freedom under which an ARN reads back as written -/

/-- The fields of an ARN that `createArn` can write so that `parseArn` reads the same fields back:
the five leading fields hold no ':', the resource holds no '/', and either there is a non-empty
resource type free of ':' and '/' (the resource itself may then contain ':' — execution ARNs do),
or there is none and the resource holds no ':' either. -/
structure WFArn (p : Arn) : Prop where
  arn : ':' ∉ p.arn
  partition : ':' ∉ p.partition
  service : ':' ∉ p.service
  region : ':' ∉ p.region
  account : ':' ∉ p.account
  slash : '/' ∉ p.resource
  typed : (∃ t, p.resourceType = some t ∧ t ≠ [] ∧ ':' ∉ t ∧ '/' ∉ t) ∨
          (p.resourceType = none ∧ ':' ∉ p.resource)

/-- **parse ∘ create = id**: an ARN built from separator-free parts splits back into exactly the
parts it was built from — for all partition / service / region / account / type combinations. -/
theorem parse_create (p : Arn) (h : WFArn p) : parseArn (createArn p) = some p := by
  rw [parseArn_createArn_fields p h.arn h.partition h.service h.region h.account]
  obtain ⟨a, pa, sv, rg, ac, rt, rs⟩ := p
  rcases h.typed with ⟨t, ht, hne, htc, hts⟩ | ⟨hn, hc⟩
  · simp only at ht
    subst ht
    cases t with
    | nil => exact absurd rfl hne
    | cons c cs =>
      have := splitResource_typed (c :: cs) rs htc hts h.slash
      simp only [resourceText, this]
  · simp only at hn hc
    subst hn
    have := splitResource_none rs hc h.slash
    simp only [resourceText, this]

/-- **create ∘ parse = id** on every text without '/' whose type field is not empty: building an
ARN from the parts a text split into gives the same text. -/
theorem create_parse (s : Str) (p : Arn) (h : parseArn s = some p) (hs : '/' ∉ s)
    (ht : p.resourceType ≠ some []) : createArn p = s := by
  simp only [parseArn] at h
  split at h
  · cases h
  · rename_i a s1 h1
    split at h
    · cases h
    · rename_i pa s2 h2
      split at h
      · cases h
      · rename_i sv s3 h3
        split at h
        · cases h
        · rename_i rg s4 h4
          split at h
          · cases h
          · rename_i ac r h5
            have e1 := (breakAt_some _ _ _ _ h1).1
            have e2 := (breakAt_some _ _ _ _ h2).1
            have e3 := (breakAt_some _ _ _ _ h3).1
            have e4 := (breakAt_some _ _ _ _ h4).1
            have e5 := (breakAt_some _ _ _ _ h5).1
            have hr : '/' ∉ r := by
              intro hm
              apply hs
              rw [e1, e2, e3, e4, e5]
              simp [hm]
            cases h
            have hb : breakAt '/' r = none := breakAt_none _ _ hr
            simp only [splitResource, hb] at ht ⊢
            cases hc : breakAt ':' r with
            | none =>
              simp only [createArn, resourceText]
              rw [e1, e2, e3, e4, e5]
            | some tx =>
              obtain ⟨t, x⟩ := tx
              have e6 := (breakAt_some _ _ _ _ hc).1
              simp only [hc] at ht
              cases t with
              | nil => exact absurd rfl ht
              | cons c cs =>
                simp only [createArn, resourceText]
                rw [e1, e2, e3, e4, e5, e6]

/-- `create_parse` on the image of `createArn`: what a separator-free ARN splits into rebuilds it. -/
theorem create_parse_image (p q : Arn) (h : WFArn p) (hq : parseArn (createArn p) = some q) :
    createArn q = createArn p := by
  rw [parse_create p h] at hq
  cases hq
  rfl

/-! ### the validator -/

/-- the validator's data: both characters the parser treats specially are in the refused class -/
theorem gen_forbidden_sep : ':' ∈ forbiddenNameChars ∧ '/' ∈ forbiddenNameChars := by decide

/-- what `validName` accepts, exactly: 1..80 characters, none of them in the refused class,
wherever in the name it stands -/
theorem validName_iff (s : Str) :
    validName s = true ↔ 0 < s.length ∧ s.length ≤ 80 ∧ ∀ c ∈ s, c ∉ forbiddenNameChars := by
  simp [validName, nameCharOk, maxNameLength, and_assoc]
  intro _ _
  exact decide_eq_true_iff

/-- an accepted name holds neither ':' nor '/' -/
theorem validName_excludes_separators (s : Str) (h : validName s = true) : ':' ∉ s ∧ '/' ∉ s := by
  have := (validName_iff s).mp h
  exact ⟨fun hm => this.2.2 _ hm gen_forbidden_sep.1, fun hm => this.2.2 _ hm gen_forbidden_sep.2⟩

/-- **names that would break the round trips are refused**: ':' and '/' are the only characters
`parseArn` / `splitDerive` treat specially, and a name holding either — anywhere — is refused -/
theorem breaking_names_refused (s : Str) (h : ':' ∈ s ∨ '/' ∈ s) : validName s = false := by
  cases hv : validName s with
  | false => rfl
  | true =>
    have := validName_excludes_separators s hv
    rcases h with h | h
    · exact absurd h this.1
    · exact absurd h this.2

/-- the length window: the empty name and names of 81 or more characters are refused -/
theorem validName_length (s : Str) (h : validName s = true) : 1 ≤ s.length ∧ s.length ≤ 80 := by
  have := (validName_iff s).mp h
  exact ⟨this.1, this.2.1⟩

/-! ### the execution ARN identifies its state machine -/

/-- a state machine ARN as CreateStateMachine mints it reads back as written -/
theorem parse_minted_machine (region account sm : Str) (hr : ':' ∉ region) (ha : ':' ∉ account)
    (hsm : ':' ∉ sm ∧ '/' ∉ sm) :
    parseArn (mintStateMachineArn region account sm) =
      some ⟨sArn, sAws, sStates, region, account, some sStateMachine, sm⟩ := by
  apply parse_create
  exact ⟨sArn_nocolon, sAws_nocolon, sStates_nocolon, hr, ha, hsm.2,
    Or.inl ⟨sStateMachine, rfl, by decide, by decide, by decide⟩⟩

/-- what every minting site returns for a minted state machine ARN -/
theorem mint_shape (region account sm name : Str) (hr : ':' ∉ region) (ha : ':' ∉ account)
    (hsm : ':' ∉ sm ∧ '/' ∉ sm) :
    mintExecutionArn (mintStateMachineArn region account sm) name =
      some (createArn ⟨sArn, sAws, sStates, region, account, some sExecution, sm⟩ ++ ':' :: name) := by
  simp [mintExecutionArn, parse_minted_machine region account sm hr ha hsm, createArn, resourceText,
    sExecution]

/-- **exec_to_machine**: splitting a minted execution ARN at its last ':' and retagging the prefix
gives back exactly the state machine ARN and the execution name it was minted from.  Needs only:
region and account without ':', machine name without ':' and '/', execution name without ':'. -/
theorem exec_to_machine (region account sm name : Str) (hr : ':' ∉ region) (ha : ':' ∉ account)
    (hsm : ':' ∉ sm ∧ '/' ∉ sm) (hn : ':' ∉ name) :
    ∃ e, mintExecutionArn (mintStateMachineArn region account sm) name = some e ∧
      splitDerive e = some (mintStateMachineArn region account sm, name) := by
  refine ⟨_, mint_shape region account sm name hr ha hsm, ?_⟩
  have hp : parseArn (createArn ⟨sArn, sAws, sStates, region, account, some sExecution, sm⟩) =
      some ⟨sArn, sAws, sStates, region, account, some sExecution, sm⟩ := by
    apply parse_create
    exact ⟨sArn_nocolon, sAws_nocolon, sStates_nocolon, hr, ha, hsm.2,
      Or.inl ⟨sExecution, rfl, by decide, by decide, by decide⟩⟩
  simp only [splitDerive, rbreakAt_append _ _ _ hn, hp]
  rfl

/-- the same for the names the API accepts -/
theorem exec_to_machine_valid (region account sm name : Str) (hr : ':' ∉ region) (ha : ':' ∉ account)
    (hsm : validName sm = true) (hn : validName name = true) :
    ∃ e, mintExecutionArn (mintStateMachineArn region account sm) name = some e ∧
      splitDerive e = some (mintStateMachineArn region account sm, name) :=
  exec_to_machine region account sm name hr ha (validName_excludes_separators sm hsm)
    (validName_excludes_separators name hn).1

/-- every minting site (StartExecution, StartSyncExecution, `start_execution`, the child-execution
integration) mints the same ARN from the same state machine ARN and name -/
theorem mint_sites_agree (s1 s2 : MintSite) (smArn name : Str) : mint s1 smArn name = mint s2 smArn name :=
  rfl

/-- **derivations_agree**: for names the API accepts, every site — record creation, RUNNING
notification, EXPRESS detail, recovery after restart, the recovered execution's terminal
notification, the timeout backstop — arrives at the same state machine ARN and execution name,
namely the ones the execution ARN was minted from, whichever site minted it. -/
theorem derivations_agree (region account sm name : Str) (hr : ':' ∉ region) (ha : ':' ∉ account)
    (hsm : validName sm = true) (hn : validName name = true) (ms : MintSite) :
    ∃ e, mint ms (mintStateMachineArn region account sm) name = some e ∧
      ∀ site : DeriveSite, derive site ⟨mintStateMachineArn region account sm, name, e⟩ =
        some (mintStateMachineArn region account sm, name) := by
  obtain ⟨e, he, hd⟩ := exec_to_machine_valid region account sm name hr ha hsm hn
  refine ⟨e, he, ?_⟩
  intro site
  cases site <;> simp [derive, hd]

/-- the `account` and `region` a notification carries are the state machine's — for every name,
accepted or not -/
theorem notification_account_region (region account sm name : Str) (hr : ':' ∉ region)
    (ha : ':' ∉ account) (hsm : ':' ∉ sm ∧ '/' ∉ sm) :
    ∃ e, mintExecutionArn (mintStateMachineArn region account sm) name = some e ∧
      notifyAccountRegion e = some (account, region) := by
  refine ⟨_, mint_shape region account sm name hr ha hsm, ?_⟩
  have : createArn ⟨sArn, sAws, sStates, region, account, some sExecution, sm⟩ ++ ':' :: name =
      createArn ⟨sArn, sAws, sStates, region, account, some sExecution, sm ++ ':' :: name⟩ := by
    simp [createArn, resourceText, sExecution]
  rw [this, notifyAccountRegion,
    parseArn_createArn_fields _ sArn_nocolon sAws_nocolon sStates_nocolon hr ha]

/-- the refusal is needed: an execution name holding ':' never re-derives to itself, whatever the
state machine ARN — so such a name, if it were accepted, would break the link -/
theorem colon_name_breaks_link (smArn name e : Str) (hc : ':' ∈ name)
    (_he : mintExecutionArn smArn name = some e) : splitDerive e ≠ some (smArn, name) := by
  intro h
  simp only [splitDerive] at h
  split at h
  · cases h
  · rename_i pre nm hb
    split at h
    · cases h
    · cases h
      exact (rbreakAt_some _ _ _ _ hb).2 hc

/-! ### non-vacuity: concrete instances of every hypothesis set -/

def exName : Str := ['m', 'y', '-', 'e', 'x', 'e', 'c', '.', '1']
def exMachine : Str := ['m', 'y', '_', 's', 'm']
def exRegion : Str := ['l', 'o', 'c', 'a', 'l']
def exAccount : Str := ['0', '1', '2', '3']
def exExecArn : Arn := ⟨sArn, sAws, sStates, exRegion, exAccount, some sExecution, exMachine ++ ':' :: exName⟩

/-- `WFArn` holds of an execution ARN's parts (whose resource contains ':') … -/
example : WFArn exExecArn :=
  ⟨by decide, by decide, by decide, by decide, by decide, by decide,
    Or.inl ⟨sExecution, rfl, by decide, by decide, by decide⟩⟩
/-- … and of an untyped ARN -/
example : WFArn ⟨sArn, sAws, ['s', '3'], [], [], none, ['b', 'u', 'c', 'k', 'e', 't']⟩ :=
  ⟨by decide, by decide, by decide, by decide, by decide, by decide, Or.inr ⟨rfl, by decide⟩⟩
/-- `parse_create` is sharp: with '/' in the resource the round trip fails -/
example : parseArn (createArn ⟨sArn, sAws, sStates, exRegion, exAccount, some sStateMachine, ['a', '/', 'b']⟩)
    ≠ some ⟨sArn, sAws, sStates, exRegion, exAccount, some sStateMachine, ['a', '/', 'b']⟩ := by decide
/-- `create_parse`'s hypotheses are met by a real text, and its '/' hypothesis is needed -/
example : parseArn (createArn exExecArn) = some exExecArn ∧ '/' ∉ createArn exExecArn ∧
    exExecArn.resourceType ≠ some [] := by decide
example : ∃ p, parseArn "arn:aws:iam::1:role/r/x".toList = some p ∧ createArn p ≠ "arn:aws:iam::1:role/r/x".toList :=
  ⟨_, rfl, by decide⟩
/-- accepted names exist (with '.', '-', '_'), at both ends of the length window -/
example : validName exName = true ∧ validName exMachine = true ∧ validName ['a'] = true ∧
    validName (List.replicate 80 'a') = true ∧ validName (List.replicate 81 'a') = false ∧
    validName [] = false := by decide
/-- refused wherever the separator stands, also after a line break -/
example : validName ['a', '\n', ':', 'b'] = false ∧ validName ['a', '/'] = false ∧ validName [':'] = false := by
  decide
/-- region and account as configured / as the role ARN pattern `[0-9]+` yields them hold no ':' -/
example : ':' ∉ exRegion ∧ ':' ∉ exAccount ∧ (':' ∉ exMachine ∧ '/' ∉ exMachine) ∧ ':' ∉ exName := by decide
/-- `exec_to_machine` / `derivations_agree` on a concrete accepted pair of names -/
example : mintExecutionArn (mintStateMachineArn exRegion exAccount exMachine) exName
      = some "arn:aws:states:local:0123:execution:my_sm:my-exec.1".toList ∧
    splitDerive "arn:aws:states:local:0123:execution:my_sm:my-exec.1".toList
      = some ("arn:aws:states:local:0123:stateMachine:my_sm".toList, exName) := by decide
/-- the hypotheses are needed: ':' in the execution name, '/' in the machine name break the link -/
example : splitDerive "arn:aws:states:local:0123:execution:my_sm:a:b".toList
    = some ("arn:aws:states:local:0123:stateMachine:my_sm:a".toList, ['b']) := by decide
example : ∃ e, mintExecutionArn (mintStateMachineArn exRegion exAccount ['a', '/', 'b']) exName = some e ∧
    splitDerive e ≠ some (mintStateMachineArn exRegion exAccount ['a', '/', 'b'], exName) :=
  ⟨_, rfl, by decide⟩
/-- `colon_name_breaks_link`'s hypotheses are met -/
example : ':' ∈ ['a', ':', 'b'] ∧
    (mintExecutionArn (mintStateMachineArn exRegion exAccount exMachine) ['a', ':', 'b']).isSome = true := by decide

end Asl.C17
