/-
C19 — work is routed to the right queue / instance; messages map faithfully to AMQP.
Property theorems and non-vacuity examples only; helper lemmas live in Proofs/Lemmas/Amqp.lean and
Proofs/Lemmas/AmqpRoute.lean.  Models: AslModel/Amqp.lean (address strings → declarations, Message ↔
BasicProperties, expiration clamp, acknowledgement) and AslModel/AmqpRoute.lean (routing between instances).
-/
import AslModel.Amqp
import AslModel.AmqpRoute
import Proofs.Lemmas.Amqp
import Proofs.Lemmas.AmqpRoute
namespace Asl.C19
open Asl Asl.Amqp Asl.AmqpRoute

/-- the shipped configuration: queue name, a uuid instance id, a fresh broker -/
def QN : Str := ['a', 's', 'l', '_', 'w', 'o', 'r', 'k', 'f', 'l', 'o', 'w', '_', 'e', 'v', 'e', 'n', 't', 's']
def IID : Str := ['9', '2', '5', '6', 'f', '7', 'e', '8', '-', '5', '5', 'e', 'c', '-', '4', '7', 'e', 'a', '-', '8', '8', '5', 'e', '-', '8', 'e', 'e', '1', 'f', '9', '2', '2', 'e', 'f', 'a', '8']
def ENV : Env := ⟨[['a', 'm', 'q', '.', 'd', 'i', 'r', 'e', 'c', 't'], ['a', 'm', 'q', '.', 'f', 'a', 'n', 'o', 'u', 't'], ['a', 'm', 'q', '.', 'm', 'a', 't', 'c', 'h'], ['a', 'm', 'q', '.', 't', 'o', 'p', 'i', 'c']], ['a', 'm', 'q', '.', 'g', 'e', 'n', '-', '1']⟩

/-! ### the engine's address strings declare exactly what they describe -/

/-- For every transport, every broker state, every prefetch the configuration sets (or none) and every queue
name / instance id / queue type for which the three derived names are free of the grammar's separators (`;`,
`/`, a leading `{`), unpadded, and not the name of an existing exchange, the engine's address strings make the
layer send the broker exactly these frames, in this order:
* shared queue: the constructor's prefetch, a *passive* probe (temporary channel) for an exchange of that name,
  one declaration of a durable, non-exclusive, non-auto-delete queue (with the quorum argument when
  configured), the configured prefetch, a non-exclusive subscription that is not auto-acknowledged;
* instance queue: the same with an *exclusive* subscription;
* reply queue: the same with a subscription carrying `x-priority: 10`;
* notification topic (shipped configuration): the passive probe and one declaration of a durable, non-internal
  topic exchange, published to directly;
* the event producer (`session.producer(queue_name)`): the passive probe only, and the task producer
  (`session.producer()`): nothing — they publish to the default exchange —
and nothing else. -/
theorem address_declares (t : Transport) (env : Env) (qn iid : Str) (qt : QType) (cs ci cr : Option Nat)
    (hs : Clean (sharedName qn qt)) (hi : Clean (instanceName qn qt iid)) (hr : Clean (replyName qt iid))
    (xs : sharedName qn qt ∉ env.exchanges) (xi : instanceName qn qt iid ∉ env.exchanges)
    (xr : replyName qt iid ∉ env.exchanges) :
    consumerOps t env (sharedAddr qn qt) cs =
      .ok ([.qos 500, .probe (sharedName qn qt),
            .queueDeclare (.str (sharedName qn qt)) (.bool false) (.bool true) (.bool false) (.bool false) (queueArgs qt)] ++
           capacityOp cs ++
           [.consume (.str (sharedName qn qt)) (.bool false) (.bool false) .null], sharedName qn qt) ∧
    consumerOps t env (instanceAddr qn qt iid) ci =
      .ok ([.qos 500, .probe (instanceName qn qt iid),
            .queueDeclare (.str (instanceName qn qt iid)) (.bool false) (.bool true) (.bool false) (.bool false) (queueArgs qt)] ++
           capacityOp ci ++
           [.consume (.str (instanceName qn qt iid)) (.bool false) (.bool true) .null], instanceName qn qt iid) ∧
    consumerOps t env (replyAddr qt iid) cr =
      .ok ([.qos 500, .probe (replyName qt iid),
            .queueDeclare (.str (replyName qt iid)) (.bool false) (.bool true) (.bool false) (.bool false) (queueArgs qt)] ++
           capacityOp cr ++
           [.consume (.str (replyName qt iid)) (.bool false) (.bool false) (.obj [(sXPriority, .num 10)])], replyName qt iid) ∧
    producerOps t env topicAddr =
      .ok ([.probe sEngine,
            .exchangeDeclare (.str sEngine) (.str sTopic) (.bool false) (.bool true) (.bool false) (.bool false) .null],
           ⟨sEngine, []⟩) ∧
    producerOps t env (sharedName qn qt) = .ok ([.probe (sharedName qn qt)], ⟨[], sharedName qn qt⟩) ∧
    producerOps t env [] = .ok ([], ⟨[], []⟩) := by
  refine ⟨?_, ?_, ?_, ?_, ?_, ?_⟩
  · simp only [consumerOps, sharedAddr, parseAddress_clean hs (semi_sharedTail qt) (parse_sharedTail qt)]
    exact consumer_shared_eval env _ cs qt hs.nonempty xs
  · simp only [consumerOps, instanceAddr, parseAddress_clean hi (semi_instanceTail qt) (parse_instanceTail qt)]
    exact consumer_instance_eval env _ ci qt hi.nonempty xi
  · simp only [consumerOps, replyAddr, parseAddress_clean hr (semi_replyTail qt) (parse_replyTail qt)]
    exact consumer_reply_eval env _ cr qt hr.nonempty xr
  · have hp : parseAddress topicAddr = destOf [] [] optsTopic := by rfl
    simp only [producerOps, hp]
    simp [optsTopic, destOf, nodePart, truthyObj, dget, objGet, nonEmptyObj, nonEmptyArr, isStr, Json.truthy, bind,
      Except.bind, pure, Except.pure, objSet, declare0, upd, producerOpen, exchangeOp, probeOp, strOf, sEngine, sTopic]
  · simp only [producerOps, parseAddress_name hs]
    exact producer_name_eval env _ hs.nonempty xs
  · have hp : parseAddress [] = destOf [] [] (.obj []) := by rfl
    simp only [producerOps, hp]
    simp [destOf, truthyObj, dget, objGet, Json.truthy, bind, Except.bind, pure, Except.pure, producerOpen,
      exchangeOp, probeOp, declare0]

/-- … and what those frames can create at the broker is exactly: one durable (non-exclusive, non-auto-delete)
queue and one subscription per consumer address — exclusive on the instance queue only, `x-priority` on the
reply queue only —, one durable non-internal topic exchange for the notification topic, and nothing for the
event producer (its only frame is the passive probe: an address that describes no exchange creates none) and
the task producer; no binding anywhere. -/
theorem address_creates (t : Transport) (env : Env) (qn iid : Str) (qt : QType) (cs ci cr : Option Nat)
    (hs : Clean (sharedName qn qt)) (hi : Clean (instanceName qn qt iid)) (hr : Clean (replyName qt iid))
    (xs : sharedName qn qt ∉ env.exchanges) (xi : instanceName qn qt iid ∉ env.exchanges)
    (xr : replyName qt iid ∉ env.exchanges) :
    (consumerOps t env (sharedAddr qn qt) cs).map (fun r => created r.1) =
      .ok [.queue (.str (sharedName qn qt)) (.bool true) (.bool false) (.bool false) (queueArgs qt),
           .subscription (.str (sharedName qn qt)) (.bool false) (.bool false) .null] ∧
    (consumerOps t env (instanceAddr qn qt iid) ci).map (fun r => created r.1) =
      .ok [.queue (.str (instanceName qn qt iid)) (.bool true) (.bool false) (.bool false) (queueArgs qt),
           .subscription (.str (instanceName qn qt iid)) (.bool false) (.bool true) .null] ∧
    (consumerOps t env (replyAddr qt iid) cr).map (fun r => created r.1) =
      .ok [.queue (.str (replyName qt iid)) (.bool true) (.bool false) (.bool false) (queueArgs qt),
           .subscription (.str (replyName qt iid)) (.bool false) (.bool false) (.obj [(sXPriority, .num 10)])] ∧
    (producerOps t env topicAddr).map (fun r => created r.1) =
      .ok [.exchange (.str sEngine) (.str sTopic) (.bool true) (.bool false) (.bool false) .null] ∧
    (producerOps t env (sharedName qn qt)).map (fun r => created r.1) = .ok [] ∧
    (producerOps t env []).map (fun r => created r.1) = .ok [] := by
  obtain ⟨h1, h2, h3, h4, h5, h6⟩ := address_declares t env qn iid qt cs ci cr hs hi hr xs xi xr
  rw [h1, h2, h3, h4, h5, h6]
  refine ⟨?_, ?_, ?_, ?_, ?_, ?_⟩
  · exact congrArg Except.ok (created_plainQueue _ qt cs _ _)
  · exact congrArg Except.ok (created_plainQueue _ qt ci _ _)
  · exact congrArg Except.ok (created_plainQueue _ qt cr _ _)
  · simp [Except.map, created, Op.creates, Json.truthy]
  · simp [Except.map, created, Op.creates]
  · simp [Except.map, created]

/-- the existence probe is the only frame sent outside the session channel, and it is passive: whatever the
address, no frame on the temporary channel creates anything, and a Producer creates at most the one exchange
its `x-declare` names — none when the address describes none (for every address string and broker state) -/
theorem probe_declares_nothing (t : Transport) (env : Env) (addr : Str) :
    (∀ op : Op, op.channel = .temp → op.creates = []) ∧
    (∀ d, parseAddress addr = .ok d →
      (producerOps t env addr).map (fun r => created r.1) = .ok (created (exchangeOp d.declare)) ∧
      ((dget d.declare ['e', 'x', 'c', 'h', 'a', 'n', 'g', 'e']).truthy = false →
        (producerOps t env addr).map (fun r => created r.1) = .ok [])) := by
  refine ⟨?_, ?_⟩
  · intro op h
    cases op <;> first | rfl | cases h
  · intro d hd
    have h1 : (producerOps t env addr).map (fun r => created r.1) = .ok (created (exchangeOp d.declare)) := by
      simp [producerOps, hd, Except.map, producerOpen, created_append, created_probeOp]
    refine ⟨h1, fun hx => ?_⟩
    rw [h1]
    simp [exchangeOp, hx, created]

/-- `probe_declares_nothing` is not vacuous: a bare name is probed (passively, on the temporary channel) and
nothing else is sent; an address that does describe an exchange creates exactly that one -/
example : producerOps .asyncio ENV ['q', '1'] = .ok ([.probe ['q', '1']], ⟨[], ['q', '1']⟩) ∧
    (Op.probe ['q', '1']).channel = .temp ∧ created [.probe ['q', '1']] = [] ∧
    (producerOps .blocking ENV topicAddr).map (fun r => created r.1) =
      .ok [.exchange (.str sEngine) (.str sTopic) (.bool true) (.bool false) (.bool false) .null] := by
  refine ⟨by rfl, rfl, rfl, by rfl⟩

/-- an address that describes an *internal* exchange (`{"node":{"x-declare":{"exchange":"x","internal":true}}}`) declares an internal
exchange: the `internal` key of `x-declare` is passed through like `durable` and `auto-delete` -/
example : (producerOps .blocking ENV ['{', '"', 'n', 'o', 'd', 'e', '"', ':', '{', '"', 'x', '-', 'd', 'e', 'c', 'l', 'a', 'r', 'e', '"', ':', '{', '"', 'e', 'x', 'c', 'h', 'a', 'n', 'g', 'e', '"', ':', '"', 'x', '"', ',', '"', 'i', 'n', 't', 'e', 'r', 'n', 'a', 'l', '"', ':', 't', 'r', 'u', 'e', '}', '}', '}']).map (fun r => created r.1) =
    .ok [.exchange (.str ['x']) (.str ['d', 'i', 'r', 'e', 'c', 't']) (.bool false) (.bool false) (.bool true) .null] := by rfl

/-- `address_declares` applies to the shipped configuration (both queue types, a uuid instance id, a fresh broker) -/
example : ∀ qt : QType,
    Clean (sharedName QN qt) ∧ Clean (instanceName QN qt IID) ∧ Clean (replyName qt IID) ∧
    sharedName QN qt ∉ ENV.exchanges ∧ instanceName QN qt IID ∉ ENV.exchanges ∧ replyName qt IID ∉ ENV.exchanges := by
  intro qt
  cases qt <;>
  exact ⟨⟨by decide, by decide, by decide, by decide, by decide⟩, ⟨by decide, by decide, by decide, by decide, by decide⟩,
    ⟨by decide, by decide, by decide, by decide, by decide⟩, by decide, by decide, by decide⟩

/-- the hypothesis is needed: an instance id holding `;` makes the instance address declare a *non-durable*
queue under a truncated name (the options are ignored) — outside the documented grammar
`<name> [ / <subject> ] [ ; <options> ]` -/
example : consumerOps .asyncio ENV (instanceAddr QN .classic ['a', ';', 'b']) =
    .ok ([.qos 500, .probe (QN ++ ['-', 'a']),
          .queueDeclare (.str (QN ++ ['-', 'a'])) (.bool false) (.bool false) (.bool false) (.bool false) .null,
          .consume (.str (QN ++ ['-', 'a'])) (.bool false) (.bool false) .null], QN ++ ['-', 'a']) := by rfl

/-- … and one holding `/` is refused as a subject on something that is not an exchange -/
example : consumerOps .blocking ENV (instanceAddr QN .classic ['a', '/', 'b']) = .error .noExchange := by rfl

/-! ### Message ↔ BasicProperties -/

/-- what is sent arrives: body, application properties, subject, correlation id, reply-to (and content type,
message id, durability) are those of the message sent; the expiration that arrives is the clamped one; the
delivery carries its own tag.  For every target, message, tag and transport. -/
theorem message_mapping_roundtrip (t : Transport) (tgt : Target) (m : Msg) (tag : Nat) (red : Bool) :
    let m' := deliver t (send t tgt m) tag red
    m'.body = m.body ∧ m'.properties = m.properties ∧ m'.subject = m.subject ∧
    m'.correlationId = m.correlationId ∧ m'.replyTo = m.replyTo ∧ m'.contentType = m.contentType ∧
    m'.messageId = m.messageId ∧ m'.durable = m.durable ∧ m'.tag = tag ∧ m'.redelivered = red ∧
    m'.expiration = (match clamp m.expiration with
      | some s => .text s
      | none => .none) := by
  refine ⟨rfl, rfl, rfl, rfl, rfl, rfl, rfl, ?_, rfl, rfl, rfl⟩
  cases h : m.durable <;> simp [deliver, send, h]

/-- a sequence of sends is pointwise: whatever the Messages built before or after it, whatever the order in
which the frames go on the wire (direct sends at once, threadsafe sends whenever the connection's loop runs
them), the frame published for message `i` is `send` of message `i` alone — its routing key is its own subject
(or the producer's default when it has none), its headers are its own application properties. -/
theorem send_sequence_pointwise (t : Transport) (tgt : Target) (ms : List Msg) (order : List Nat) (i : Nat)
    (f : Frame) :
    (i, f) ∈ sendSeq t tgt ms order ↔ i ∈ order ∧ ∃ m, ms[i]? = some m ∧ f = send t tgt m := by
  simp only [sendSeq, List.mem_filterMap, Option.map_eq_some_iff, Prod.mk.injEq]
  constructor
  · rintro ⟨j, hj, m, hm, hji, hf⟩
    subst hji
    exact ⟨hj, m, hm, hf.symm⟩
  · rintro ⟨hi, m, hm, hf⟩
    exact ⟨i, hi, m, hm, rfl, hf.symm⟩

/-- hence independence: two runs that agree on message `i` publish the same frame for it — other Messages, their
subjects and the publishing order have no say — and the frames go out in the order given -/
theorem send_sequence_independent (t : Transport) (tgt : Target) (ms ms' : List Msg) (order order' : List Nat)
    (i : Nat) (f : Frame) (h : ms[i]? = ms'[i]?) (hi : i ∈ order') (hf : (i, f) ∈ sendSeq t tgt ms order) :
    (i, f) ∈ sendSeq t tgt ms' order' ∧
    ((∀ j ∈ order, j < ms.length) → (sendSeq t tgt ms order).map Prod.fst = order) := by
  obtain ⟨_, m, hm, hfm⟩ := (send_sequence_pointwise t tgt ms order i f).1 hf
  refine ⟨(send_sequence_pointwise t tgt ms' order' i f).2 ⟨hi, m, h ▸ hm, hfm⟩, ?_⟩
  exact sendSeq_fst t tgt ms order

/-- `send_sequence_pointwise` on the shape `EventDispatcher.publish` produces: a start event for the instance
queue handed over threadsafe, then a start event for the shared queue, then an event without a subject, the
first one published last: each frame bears its own routing key (the third the producer's default) -/
example :
    let sync : Msg := Msg.setSubject { body := ['a'], properties := [] } (.str (QN ++ ['-', 'i']))
    let strt : Msg := Msg.setSubject { body := ['b'], properties := [] } (.str QN)
    let bare : Msg := { body := ['c'], properties := [] }
    (sendSeq .asyncio ⟨[], QN⟩ [sync, strt, bare] [1, 2, 0]).map (fun p => (p.1, p.2.routingKey, p.2.props.headers)) =
      [(1, .str QN, [(subjectKey, .str QN)]), (2, .str QN, []),
       (0, .str (QN ++ ['-', 'i']), [(subjectKey, .str (QN ++ ['-', 'i']))])] := by
  decide

/-- routing by subject: a message given a non-empty subject is published with that subject as routing key
whatever the producer's default is, and the default exchange hands it to the queue of that name (if declared)
and to no other -/
theorem routing_by_subject (t : Transport) (tgt : Target) (m : Msg) (q : Str) (queues : List Str) (hq : q ≠ []) :
    (send t tgt (m.setSubject (.str q))).routingKey = .str q ∧
    (send t tgt (m.setSubject (.str q))).exchange = tgt.exchange ∧
    routeDefault queues (.str q) = (if q ∈ queues then [q] else []) := by
  have hs : (m.setSubject (.str q)).subject = .str q := by
    have ht : (Json.str q).truthy = true := by
      cases q with
      | nil => exact absurd rfl hq
      | cons c cs => rfl
    simp only [Msg.setSubject, ht, if_true, Msg.subject]
    have : ∀ (d : Dict), objGet (objSet d subjectKey (.str q)) subjectKey = some (.str q) := by
      intro d
      induction d with
      | nil => simp [objSet, objGet]
      | cons kv rest ih =>
        by_cases hk : kv.1 = subjectKey
        · simp [objSet, objGet, hk]
        · simp [objSet, objGet, hk, ih]
    simp [this]
  refine ⟨?_, rfl, rfl⟩
  have ht : (Json.str q).truthy = true := by
    cases q with
    | nil => exact absurd rfl hq
    | cons c cs => rfl
  simp [send, hs, ht]

/-- a task request goes (through the task producer, i.e. the default exchange) to the queue named by the
function, carries this instance's reply queue and the event's id as correlation id, asks to be returned if
unroutable, and has a non-negative integer expiration; a reply published to its reply-to reaches the
requesting instance's reply queue and no other -/
theorem rpc_addressing (t : Transport) (qt : QType) (iid fn corr payload : Str) (carrier : Dict) (timeoutMs : Int)
    (queues : List Str) (hf : fn ≠ []) :
    let f := send t ⟨[], []⟩ (rpcRequest qt iid fn corr payload carrier timeoutMs)
    f.exchange = [] ∧ f.routingKey = .str fn ∧ f.props.replyTo = .str (replyName qt iid) ∧
    f.props.correlationId = .str corr ∧ f.mandatory = true ∧ f.body = payload ∧
    (∃ n : Nat, f.props.expiration = some (natDigits n)) ∧
    routeDefault queues f.props.replyTo = (if replyName qt iid ∈ queues then [replyName qt iid] else []) := by
  have h := routing_by_subject t ⟨[], []⟩
    ({ body := payload, properties := carrier, contentType := .str ['a', 'p', 'p', 'l', 'i', 'c', 'a', 't', 'i', 'o', 'n', '/', 'j', 's', 'o', 'n'],
       correlationId := .str corr, replyTo := .str (replyName qt iid), expiration := .int timeoutMs,
       mandatory := true } : Msg) fn queues hf
  have ht : (Json.str fn).truthy = true := by
    cases fn with
    | nil => exact absurd rfl hf
    | cons c cs => rfl
  refine ⟨rfl, h.1, ?_, ?_, ?_, ?_, ?_, ?_⟩
  · simp [send, rpcRequest, Msg.setSubject, ht]
  · simp [send, rpcRequest, Msg.setSubject, ht]
  · simp [send, rpcRequest, Msg.setSubject, ht]
  · simp [send, rpcRequest, Msg.setSubject, ht]
  · have h0 : (['0'] : Str) = natDigits 0 := by decide
    simp only [send, rpcRequest, Msg.setSubject, ht, if_true, clamp, clampInt]
    split
    · exact ⟨0, by rw [h0]⟩
    · exact ⟨timeoutMs.toNat, rfl⟩
  · simp [send, rpcRequest, Msg.setSubject, ht, routeDefault]

/-- a task request to a function nobody serves (no queue of that name) comes back to the requesting
producer (`Basic.Return`), and the Message the return callback is handed is the request: same body,
application properties, subject, correlation id and reply-to; it is not a delivery (tag 0), and acknowledging it
the way the engine acknowledges acknowledges no delivery at all.  A request whose queue exists is not returned. -/
theorem unroutable_request_returned (t : Transport) (qt : QType) (iid fn corr payload : Str) (carrier : Dict)
    (timeoutMs : Int) (queues : List Str) (hf : fn ≠ []) :
    let rq := rpcRequest qt iid fn corr payload carrier timeoutMs
    let f := send t ⟨[], []⟩ rq
    let m := returned t f
    isReturned queues f = decide (fn ∉ queues) ∧
    m.body = payload ∧ m.properties = rq.properties ∧ m.subject = .str fn ∧ m.correlationId = .str corr ∧
    m.replyTo = .str (replyName qt iid) ∧ m.tag = 0 ∧ ∀ c : Chan, engineAck t c m = c := by
  have h := rpc_addressing t qt iid fn corr payload carrier timeoutMs queues hf
  have hr := message_mapping_roundtrip t ⟨[], []⟩ (rpcRequest qt iid fn corr payload carrier timeoutMs) 0 false
  obtain ⟨_, hk, hrt, hc, hm, hb, _, _⟩ := h
  obtain ⟨_, rp, rs, _, _, _, _, _, rtag, _, _⟩ := hr
  have hsub : (rpcRequest qt iid fn corr payload carrier timeoutMs).subject = .str fn := by
    have hk' := hk
    simp only [send] at hk'
    split at hk'
    · exact hk'
    · exact absurd (Json.str.inj hk').symm hf
  refine ⟨?_, ?_, ?_, ?_, ?_, ?_, ?_, ?_⟩
  · simp only [isReturned, hm, hk, routeDefault, Bool.true_and]
    by_cases hq : fn ∈ queues <;> simp [hq]
  · exact hb
  · exact rp
  · exact rs.trans hsub
  · exact hc
  · exact hrt
  · exact rtag
  · intro c
    simp [engineAck, acknowledge, returned, deliver]

/-- `unroutable_request_returned` is not vacuous: `f9` has no queue, `f1` has -/
example : isReturned [['f', '1']] (send .asyncio ⟨[], []⟩ (rpcRequest .classic ['i'] ['f', '9'] ['c'] ['{', '}'] [] 1000)) = true ∧
    isReturned [['f', '1']] (send .asyncio ⟨[], []⟩ (rpcRequest .classic ['i'] ['f', '1'] ['c'] ['{', '}'] [] 1000)) = false ∧
    (returned .blocking (send .blocking ⟨[], []⟩ (rpcRequest .classic ['i'] ['f', '9'] ['c'] ['{', '}'] [] 1000))).correlationId = .str ['c'] ∧
    engineAck .asyncio [1, 2] (returned .asyncio (send .asyncio ⟨[], []⟩ (rpcRequest .classic ['i'] ['f', '9'] ['c'] ['{', '}'] [] 1000))) = [1, 2] := by
  decide

/-- `rpc_addressing` / `routing_by_subject` on the engine's event producer: subject = an instance queue that is declared -/
example : (send .asyncio ⟨[], QN⟩ (Msg.setSubject { body := [], properties := [] } (.str (QN ++ ['-', 'a'])))).routingKey
      = .str (QN ++ ['-', 'a']) ∧ QN ++ ['-', 'a'] ≠ [] ∧
    routeDefault [QN, QN ++ ['-', 'a']] (.str (QN ++ ['-', 'a'])) = [QN ++ ['-', 'a']] ∧ (['f', '1'] : Str) ≠ [] := by decide

/-- for every expiration value — absent, any integer, any text (numeric, padded, with exponent, negative,
non-numeric, `inf`, `nan`) — the property sent is absent, or the decimal text of a non-negative integer -/
theorem expiration_clamped (e : Expiry) : clamp e = none ∨ ∃ n : Nat, clamp e = some (natDigits n) := by
  have h0 : (['0'] : Str) = natDigits 0 := by decide
  have hc : ∀ v : Int, ∃ n : Nat, clampInt v = natDigits n := by
    intro v
    unfold clampInt
    split
    · exact ⟨0, h0⟩
    · exact ⟨v.toNat, rfl⟩
  cases e with
  | none => exact Or.inl rfl
  | int n => obtain ⟨k, hk⟩ := hc n; exact Or.inr ⟨k, by simp [clamp, hk]⟩
  | text s =>
    right
    simp only [clamp]
    split
    · rename_i neg m ex _
      obtain ⟨k, hk⟩ := hc (truncNum neg m ex); exact ⟨k, by rw [hk]⟩
    · exact ⟨0, by rw [h0]⟩

/-- it is absent exactly when no expiration was given, and a non-negative integer is sent as it is -/
theorem expiration_intact (n : Nat) : clamp (.int (n : Int)) = some (natDigits n) ∧
    (∀ e, clamp e = none ↔ e = .none) := by
  refine ⟨?_, ?_⟩
  · have : ¬ ((n : Int) < 0) := by omega
    simp [clamp, clampInt, this]
  · intro e
    cases e with
    | none => simp [clamp]
    | int k => simp [clamp]
    | text s => simp only [clamp]; split <;> simp

example : clamp (.text [' ', '1', '2', '.', '7', 'e', '1', ' ']) = some ['1', '2', '7'] ∧
    clamp (.text ['-', '5']) = some ['0'] ∧ clamp (.text ['i', 'n', 'f']) = some ['0'] ∧
    clamp (.text ['a', 'b', 'c']) = some ['0'] ∧ clamp (.int (-3)) = some ['0'] ∧
    clamp (.int 86400000) = some ['8', '6', '4', '0', '0', '0', '0', '0'] ∧ clamp .none = none := by decide

/-! ### acknowledgement -/

/-- acknowledging a delivered message the way the engine does (`multiple=False`, both transports) removes
exactly that delivery from the channel's outstanding deliveries: every other one stays outstanding, in order -/
theorem ack_this_delivery_only (t : Transport) (c : Chan) (m : Msg) (hm : m.tag ≠ 0) :
    engineAck t c m = c.filter (fun x => decide (x ≠ m.tag)) ∧
    ∀ x, x ∈ engineAck t c m ↔ x ∈ c ∧ x ≠ m.tag := by
  have h : engineAck t c m = c.filter (fun x => decide (x ≠ m.tag)) := by
    simp [engineAck, acknowledge, basicAck, hm]
  refine ⟨h, ?_⟩
  intro x
  rw [h]
  simp

example : engineAck .asyncio [1, 2, 3] { body := [], properties := [], tag := 2 } = [1, 3] := by decide
/-- the layer's JMS-style default (`Message.acknowledge()` with `multiple=True`, never used by the engine)
acknowledges everything the session consumed — which is why the engine passes `multiple=False` -/
example : acknowledge [1, 2, 3] { body := [], properties := [], tag := 2 } true = [] := by decide

/-! ### the two transports -/

/-- one model serves both transports: declarations, frames, delivered messages and acknowledgement do not
depend on the transport -/
theorem transports_alike (t₁ t₂ : Transport) :
    consumerOps t₁ = consumerOps t₂ ∧ producerOps t₁ = producerOps t₂ ∧ send t₁ = send t₂ ∧
    deliver t₁ = deliver t₂ ∧ engineAck t₁ = engineAck t₂ := ⟨rfl, rfl, rfl, rfl, rfl⟩

/-! ### affinity -/

/-- In every reachable state of the routing model, a later (non-start) event of execution `e` that instance
`i` can be handed — from whatever queue `q` it sits in — belongs to an execution whose start event `i`
consumed; and the queue is `i`'s own.  Over all numbers of instances, all interleavings of submissions,
deliveries, timers / replies, and child launches. -/
theorem affinity {s : Net} (h : Reachable s) {q : QName} {e i : Nat} (hq : (q, e) ∈ s.later)
    (hc : canConsume q i) : s.st e = .owned i ∧ q = .inst i := by
  obtain ⟨j, hj, hst⟩ := (reachable_inv h).1 q e hq
  subst hj
  have : i = j := hc
  subst this
  exact ⟨hst, rfl⟩

/-- `owned i` means what it says: it is set only by the delivery of the start event to `i`, and once set it
never changes -/
theorem owner_is_start_consumer {s s' : Net} {a : Act} (hs : step s a = some s') (e i : Nat) :
    (s.st e = .owned i → s'.st e = .owned i) ∧
    (s'.st e = .owned i → s.st e = .owned i ∨ ∃ outs, a = .deliverStart e i outs) := by
  cases a with
  | submit via e' =>
    simp only [step] at hs
    split at hs
    · rename_i hu
      cases hs
      refine ⟨fun he => st_bind_owned (by intro j hj; rw [hu] at hj; cases hj) he, fun he => Or.inl ?_⟩
      by_cases hce : e' = e
      · subst hce; simp [Net.st, lookup] at he
      · simpa [Net.st, lookup, hce] using he
    · cases hs
  | deliverStart e' i' outs =>
    simp only [step] at hs
    split at hs
    · rename_i q hq
      split at hs
      · have hp := pubs_owned hs e i
        refine ⟨fun he => hp.1 (st_bind_owned (by intro j hj; rw [hq] at hj; cases hj) he), fun he => ?_⟩
        have h1 := hp.2 he
        by_cases hce : e' = e
        · subst hce
          have : i' = i := by simpa [Net.st, lookup] using h1
          subst this
          exact Or.inr ⟨outs, rfl⟩
        · left; simpa [Net.st, lookup, hce] using h1
      · cases hs
    · cases hs
  | deliverLater q e' i' outs =>
    simp only [step] at hs
    split at hs
    · have hp := pubs_owned hs e i
      exact ⟨fun he => hp.1 he, fun he => Or.inl (hp.2 he)⟩
    · cases hs
  | spontaneous i' outs =>
    simp only [step] at hs
    have hp := pubs_owned hs e i
    exact ⟨fun he => hp.1 he, fun he => Or.inl (hp.2 he)⟩

/-- start events submitted through the API go to the shared queue, which every instance may consume from;
a synchronous child launch stays on the launching instance's queue, an asynchronous one goes to the shared
queue -/
theorem start_events_shared (s : Net) (via e : Nat) (hu : s.st e = .unused) :
    (∃ s', step s (.submit via e) = some s' ∧ s'.st e = .startQueued .shared) ∧
    (∀ i, canConsume .shared i) ∧
    (∀ i j, canConsume (.inst j) i ↔ i = j) ∧
    route via false = .inst via ∧ route via true = .shared := by
  refine ⟨⟨{ s with ex := (e, .startQueued (route via true)) :: s.ex }, by simp [step, hu], ?_⟩,
    fun _ => trivial, fun _ _ => Iff.rfl, rfl, rfl⟩
  simp [Net.st, lookup, route]

/-- what the REST front end publishes through instance `via`: the start event of a StartExecution
(`use_shared_queue=True`) is queued in the shared queue, from which every instance may take it; the start event of
a StartSyncExecution (`use_shared_queue=False`: `via` publishes a start event to its own queue) is queued in
`via`'s queue, from which `via` and no other instance can take it.  The queue depends on the accepting instance
and the flag only — not on when the (threadsafe, deferred) publish is carried out or on what else is published
meanwhile. -/
theorem rest_start_routing (s : Net) (via e : Nat) (hu : s.st e = .unused) :
    (∃ s', step s (.submit via e) = some s' ∧ s'.st e = .startQueued (route via true) ∧ route via true = .shared ∧
      ∀ i, (step s' (.deliverStart e i [])).isSome) ∧
    (∃ s', step s (.spontaneous via [.childSync e]) = some s' ∧ s'.st e = .startQueued (route via false) ∧
      route via false = .inst via ∧ ∀ i, (step s' (.deliverStart e i [])).isSome ↔ i = via) := by
  refine ⟨⟨{ s with ex := (e, .startQueued (route via true)) :: s.ex }, by simp [step, hu], ?_, rfl, ?_⟩,
    ⟨{ s with ex := (e, .startQueued (route via false)) :: s.ex }, by simp [step, pubs, pub, hu], ?_, rfl, ?_⟩⟩
  · simp [Net.st, lookup]
  · intro i
    simp [step, Net.st, lookup, route, canConsume, pubs]
  · simp [Net.st, lookup]
  · intro i
    simp [step, Net.st, lookup, route, canConsume, pubs]

/-- `rest_start_routing` from the empty network, two instances: the synchronous start accepted by instance 1
cannot be handed to instance 0 -/
example : ({} : Net).st 7 = .unused ∧ ∃ s', step {} (.spontaneous 1 [.childSync 7]) = some s' ∧
    step s' (.deliverStart 7 0 []) = none ∧ (step s' (.deliverStart 7 1 [])).isSome := ⟨rfl, _, rfl, by decide, by decide⟩

/-- the hypotheses of `owner_is_start_consumer` / `start_events_shared` are met from the empty network -/
example : ({} : Net).st 7 = .unused ∧ ∃ s', step {} (.submit 0 7) = some s' ∧
    ∃ s'', step s' (.deliverStart 7 1 []) = some s'' ∧ s''.st 7 = .owned 1 := ⟨rfl, _, rfl, _, rfl, rfl⟩

/-- a reachable state with a later event in flight (two instances; instance 1 took the start event), so
`affinity`'s hypotheses are met; instance 0 cannot be handed that event -/
example : ∃ s, run {} [.submit 0 7, .deliverStart 7 1 [.later 7, .childSync 8]] = some s ∧
    (QName.inst 1, 7) ∈ s.later ∧ canConsume (.inst 1) 1 ∧ ¬ canConsume (.inst 1) 0 ∧
    s.st 7 = .owned 1 ∧ s.st 8 = .startQueued (.inst 1) := ⟨_, rfl, by decide, by decide, by decide, by decide, by decide⟩

/-- the model refuses a run in which a later event is published by an instance that never handled the execution -/
example : run {} [.submit 0 7, .deliverStart 7 1 [], .spontaneous 0 [.later 7]] = none := by decide

end Asl.C19
