/-
C19 — work is routed to the right queue / instance; messages map faithfully to AMQP.
Property theorems and non-vacuity examples only; helper lemmas live in Proofs/Lemmas/Amqp.lean and
Proofs/Lemmas/AmqpRoute.lean.  Models: AslModel/Amqp.lean (address strings → declarations, Message ↔
BasicProperties, expiration clamp, acknowledgement) and AslModel/AmqpRoute.lean (routing between instances).
-/
import AslModel.Amqp
import AslModel.AmqpRoute
import Proofs.Lemmas.Amqp
import Proofs.Lemmas.AmqpRoute
namespace Asl.C19
open Asl Asl.Amqp Asl.AmqpRoute

/-- the shipped configuration: queue name, a uuid instance id, a fresh broker -/
def QN : Str := ['a', 's', 'l', '_', 'w', 'o', 'r', 'k', 'f', 'l', 'o', 'w', '_', 'e', 'v', 'e', 'n', 't', 's']
def IID : Str := ['9', '2', '5', '6', 'f', '7', 'e', '8', '-', '5', '5', 'e', 'c', '-', '4', '7', 'e', 'a', '-', '8', '8', '5', 'e', '-', '8', 'e', 'e', '1', 'f', '9', '2', '2', 'e', 'f', 'a', '8']
def ENV : Env := ⟨[['a', 'm', 'q', '.', 'd', 'i', 'r', 'e', 'c', 't'], ['a', 'm', 'q', '.', 'f', 'a', 'n', 'o', 'u', 't'], ['a', 'm', 'q', '.', 'm', 'a', 't', 'c', 'h'], ['a', 'm', 'q', '.', 't', 'o', 'p', 'i', 'c']], ['a', 'm', 'q', '.', 'g', 'e', 'n', '-', '1']⟩

/-! ### the engine's address strings declare exactly what they describe -/

/-- For every transport, every broker state and every queue name / instance id / queue type for which the
three derived names are free of the grammar's separators (`;`, `/`, a leading `{`), unpadded, and not the
name of an existing exchange, the engine's address strings ask the broker for exactly:
* shared queue: one durable, non-exclusive, non-auto-delete queue (with the quorum argument when configured)
  and a non-exclusive subscription;
* instance queue: one such durable queue and an *exclusive* subscription;
* reply queue: one such durable queue and a subscription carrying `x-priority: 10`;
* notification topic (shipped configuration): one durable topic exchange, published to directly;
* the event producer (`session.producer(queue_name)`) and the task producer (`session.producer()`):
  nothing — they publish to the default exchange —
and nothing else. -/
theorem address_declares (t : Transport) (env : Env) (qn iid : Str) (qt : QType)
    (hs : Clean (sharedName qn qt)) (hi : Clean (instanceName qn qt iid)) (hr : Clean (replyName qt iid))
    (xs : sharedName qn qt ∉ env.exchanges) (xi : instanceName qn qt iid ∉ env.exchanges)
    (xr : replyName qt iid ∉ env.exchanges) :
    consumerOps t env (sharedAddr qn qt) =
      .ok ([.queueDeclare (.str (sharedName qn qt)) (.bool false) (.bool true) (.bool false) (.bool false) (queueArgs qt),
            .consume (.str (sharedName qn qt)) (.bool false) .null], sharedName qn qt) ∧
    consumerOps t env (instanceAddr qn qt iid) =
      .ok ([.queueDeclare (.str (instanceName qn qt iid)) (.bool false) (.bool true) (.bool false) (.bool false) (queueArgs qt),
            .consume (.str (instanceName qn qt iid)) (.bool true) .null], instanceName qn qt iid) ∧
    consumerOps t env (replyAddr qt iid) =
      .ok ([.queueDeclare (.str (replyName qt iid)) (.bool false) (.bool true) (.bool false) (.bool false) (queueArgs qt),
            .consume (.str (replyName qt iid)) (.bool false) (.obj [(sXPriority, .num 10)])], replyName qt iid) ∧
    producerOps t env topicAddr =
      .ok ([.exchangeDeclare (.str sEngine) (.str sTopic) (.bool false) (.bool true) (.bool false) .null], ⟨sEngine, []⟩) ∧
    producerOps t env (sharedName qn qt) = .ok ([], ⟨[], sharedName qn qt⟩) ∧
    producerOps t env [] = .ok ([], ⟨[], []⟩) := by
  refine ⟨?_, ?_, ?_, ?_, ?_, ?_⟩
  · simp only [consumerOps, sharedAddr, parseAddress_clean hs (semi_sharedTail qt) (parse_sharedTail qt)]
    exact consumer_shared_eval env _ qt hs.nonempty xs
  · simp only [consumerOps, instanceAddr, parseAddress_clean hi (semi_instanceTail qt) (parse_instanceTail qt)]
    exact consumer_instance_eval env _ qt hi.nonempty xi
  · simp only [consumerOps, replyAddr, parseAddress_clean hr (semi_replyTail qt) (parse_replyTail qt)]
    exact consumer_reply_eval env _ qt hr.nonempty xr
  · have hp : parseAddress topicAddr = destOf [] [] optsTopic := by rfl
    simp only [producerOps, hp]
    simp [optsTopic, destOf, nodePart, truthyObj, dget, objGet, nonEmptyObj, nonEmptyArr, isStr, Json.truthy, bind,
      Except.bind, pure, Except.pure, objSet, declare0, upd, producerOpen, exchangeOp, strOf, sEngine, sTopic]
  · simp only [producerOps, parseAddress_name hs]
    exact producer_name_eval env _ hs.nonempty xs
  · have hp : parseAddress [] = destOf [] [] (.obj []) := by rfl
    simp only [producerOps, hp]
    simp [destOf, truthyObj, dget, objGet, Json.truthy, bind, Except.bind, pure, Except.pure, producerOpen,
      exchangeOp, declare0]

/-- `address_declares` applies to the shipped configuration (both queue types, a uuid instance id, a fresh broker) -/
example : ∀ qt : QType,
    Clean (sharedName QN qt) ∧ Clean (instanceName QN qt IID) ∧ Clean (replyName qt IID) ∧
    sharedName QN qt ∉ ENV.exchanges ∧ instanceName QN qt IID ∉ ENV.exchanges ∧ replyName qt IID ∉ ENV.exchanges := by
  intro qt
  cases qt <;>
  exact ⟨⟨by decide, by decide, by decide, by decide, by decide⟩, ⟨by decide, by decide, by decide, by decide, by decide⟩,
    ⟨by decide, by decide, by decide, by decide, by decide⟩, by decide, by decide, by decide⟩

/-- the hypothesis is needed: an instance id holding `;` makes the instance address declare a *non-durable*
queue under a truncated name (the options are ignored) — outside the documented grammar
`<name> [ / <subject> ] [ ; <options> ]` -/
example : consumerOps .asyncio ENV (instanceAddr QN .classic ['a', ';', 'b']) =
    .ok ([.queueDeclare (.str (QN ++ ['-', 'a'])) (.bool false) (.bool false) (.bool false) (.bool false) .null,
          .consume (.str (QN ++ ['-', 'a'])) (.bool false) .null], QN ++ ['-', 'a']) := by rfl

/-- … and one holding `/` is refused as a subject on something that is not an exchange -/
example : consumerOps .blocking ENV (instanceAddr QN .classic ['a', '/', 'b']) = .error .noExchange := by rfl

/-! ### Message ↔ BasicProperties -/

/-- what is sent arrives: body, application properties, subject, correlation id, reply-to (and content type,
message id, durability) are those of the message sent; the expiration that arrives is the clamped one; the
delivery carries its own tag.  For every target, message, tag and transport. -/
theorem message_mapping_roundtrip (t : Transport) (tgt : Target) (m : Msg) (tag : Nat) (red : Bool) :
    let m' := deliver t (send t tgt m) tag red
    m'.body = m.body ∧ m'.properties = m.properties ∧ m'.subject = m.subject ∧
    m'.correlationId = m.correlationId ∧ m'.replyTo = m.replyTo ∧ m'.contentType = m.contentType ∧
    m'.messageId = m.messageId ∧ m'.durable = m.durable ∧ m'.tag = tag ∧ m'.redelivered = red ∧
    m'.expiration = (match clamp m.expiration with
      | some s => .text s
      | none => .none) := by
  refine ⟨rfl, rfl, rfl, rfl, rfl, rfl, rfl, ?_, rfl, rfl, rfl⟩
  cases h : m.durable <;> simp [deliver, send, h]

/-- routing by subject: a message given a non-empty subject is published with that subject as routing key
whatever the producer's default is, and the default exchange hands it to the queue of that name (if declared)
and to no other -/
theorem routing_by_subject (t : Transport) (tgt : Target) (m : Msg) (q : Str) (queues : List Str) (hq : q ≠ []) :
    (send t tgt (m.setSubject (.str q))).routingKey = .str q ∧
    (send t tgt (m.setSubject (.str q))).exchange = tgt.exchange ∧
    routeDefault queues (.str q) = (if q ∈ queues then [q] else []) := by
  have hs : (m.setSubject (.str q)).subject = .str q := by
    have ht : (Json.str q).truthy = true := by
      cases q with
      | nil => exact absurd rfl hq
      | cons c cs => rfl
    simp only [Msg.setSubject, ht, if_true, Msg.subject]
    have : ∀ (d : Dict), objGet (objSet d subjectKey (.str q)) subjectKey = some (.str q) := by
      intro d
      induction d with
      | nil => simp [objSet, objGet]
      | cons kv rest ih =>
        by_cases hk : kv.1 = subjectKey
        · simp [objSet, objGet, hk]
        · simp [objSet, objGet, hk, ih]
    simp [this]
  refine ⟨?_, rfl, rfl⟩
  have ht : (Json.str q).truthy = true := by
    cases q with
    | nil => exact absurd rfl hq
    | cons c cs => rfl
  simp [send, hs, ht]

/-- a task request goes (through the task producer, i.e. the default exchange) to the queue named by the
function, carries this instance's reply queue and the event's id as correlation id, asks to be returned if
unroutable, and has a non-negative integer expiration; a reply published to its reply-to reaches the
requesting instance's reply queue and no other -/
theorem rpc_addressing (t : Transport) (qt : QType) (iid fn corr payload : Str) (carrier : Dict) (timeoutMs : Int)
    (queues : List Str) (hf : fn ≠ []) :
    let f := send t ⟨[], []⟩ (rpcRequest qt iid fn corr payload carrier timeoutMs)
    f.exchange = [] ∧ f.routingKey = .str fn ∧ f.props.replyTo = .str (replyName qt iid) ∧
    f.props.correlationId = .str corr ∧ f.mandatory = true ∧ f.body = payload ∧
    (∃ n : Nat, f.props.expiration = some (natDigits n)) ∧
    routeDefault queues f.props.replyTo = (if replyName qt iid ∈ queues then [replyName qt iid] else []) := by
  have h := routing_by_subject t ⟨[], []⟩
    ({ body := payload, properties := carrier, contentType := .str ['a', 'p', 'p', 'l', 'i', 'c', 'a', 't', 'i', 'o', 'n', '/', 'j', 's', 'o', 'n'],
       correlationId := .str corr, replyTo := .str (replyName qt iid), expiration := .int timeoutMs,
       mandatory := true } : Msg) fn queues hf
  have ht : (Json.str fn).truthy = true := by
    cases fn with
    | nil => exact absurd rfl hf
    | cons c cs => rfl
  refine ⟨rfl, h.1, ?_, ?_, ?_, ?_, ?_, ?_⟩
  · simp [send, rpcRequest, Msg.setSubject, ht]
  · simp [send, rpcRequest, Msg.setSubject, ht]
  · simp [send, rpcRequest, Msg.setSubject, ht]
  · simp [send, rpcRequest, Msg.setSubject, ht]
  · have h0 : (['0'] : Str) = natDigits 0 := by decide
    simp only [send, rpcRequest, Msg.setSubject, ht, if_true, clamp, clampInt]
    split
    · exact ⟨0, by rw [h0]⟩
    · exact ⟨timeoutMs.toNat, rfl⟩
  · simp [send, rpcRequest, Msg.setSubject, ht, routeDefault]

/-- `rpc_addressing` / `routing_by_subject` on the engine's event producer: subject = an instance queue that is declared -/
example : (send .asyncio ⟨[], QN⟩ (Msg.setSubject { body := [], properties := [] } (.str (QN ++ ['-', 'a'])))).routingKey
      = .str (QN ++ ['-', 'a']) ∧ QN ++ ['-', 'a'] ≠ [] ∧
    routeDefault [QN, QN ++ ['-', 'a']] (.str (QN ++ ['-', 'a'])) = [QN ++ ['-', 'a']] ∧ (['f', '1'] : Str) ≠ [] := by decide

/-- for every expiration value — absent, any integer, any text (numeric, padded, with exponent, negative,
non-numeric, `inf`, `nan`) — the property sent is absent, or the decimal text of a non-negative integer -/
theorem expiration_clamped (e : Expiry) : clamp e = none ∨ ∃ n : Nat, clamp e = some (natDigits n) := by
  have h0 : (['0'] : Str) = natDigits 0 := by decide
  have hc : ∀ v : Int, ∃ n : Nat, clampInt v = natDigits n := by
    intro v
    unfold clampInt
    split
    · exact ⟨0, h0⟩
    · exact ⟨v.toNat, rfl⟩
  cases e with
  | none => exact Or.inl rfl
  | int n => obtain ⟨k, hk⟩ := hc n; exact Or.inr ⟨k, by simp [clamp, hk]⟩
  | text s =>
    right
    simp only [clamp]
    split
    · rename_i neg m ex _
      obtain ⟨k, hk⟩ := hc (truncNum neg m ex); exact ⟨k, by rw [hk]⟩
    · exact ⟨0, by rw [h0]⟩

/-- it is absent exactly when no expiration was given, and a non-negative integer is sent as it is -/
theorem expiration_intact (n : Nat) : clamp (.int (n : Int)) = some (natDigits n) ∧
    (∀ e, clamp e = none ↔ e = .none) := by
  refine ⟨?_, ?_⟩
  · have : ¬ ((n : Int) < 0) := by omega
    simp [clamp, clampInt, this]
  · intro e
    cases e with
    | none => simp [clamp]
    | int k => simp [clamp]
    | text s => simp only [clamp]; split <;> simp

example : clamp (.text [' ', '1', '2', '.', '7', 'e', '1', ' ']) = some ['1', '2', '7'] ∧
    clamp (.text ['-', '5']) = some ['0'] ∧ clamp (.text ['i', 'n', 'f']) = some ['0'] ∧
    clamp (.text ['a', 'b', 'c']) = some ['0'] ∧ clamp (.int (-3)) = some ['0'] ∧
    clamp (.int 86400000) = some ['8', '6', '4', '0', '0', '0', '0', '0'] ∧ clamp .none = none := by decide

/-! ### acknowledgement -/

/-- acknowledging a delivered message the way the engine does (`multiple=False`, both transports) removes
exactly that delivery from the channel's outstanding deliveries: every other one stays outstanding, in order -/
theorem ack_this_delivery_only (t : Transport) (c : Chan) (m : Msg) (hm : m.tag ≠ 0) :
    engineAck t c m = c.filter (fun x => decide (x ≠ m.tag)) ∧
    ∀ x, x ∈ engineAck t c m ↔ x ∈ c ∧ x ≠ m.tag := by
  have h : engineAck t c m = c.filter (fun x => decide (x ≠ m.tag)) := by
    simp [engineAck, acknowledge, basicAck, hm]
  refine ⟨h, ?_⟩
  intro x
  rw [h]
  simp

example : engineAck .asyncio [1, 2, 3] { body := [], properties := [], tag := 2 } = [1, 3] := by decide
/-- the layer's JMS-style default (`Message.acknowledge()` with `multiple=True`, never used by the engine)
acknowledges everything the session consumed — which is why the engine passes `multiple=False` -/
example : acknowledge [1, 2, 3] { body := [], properties := [], tag := 2 } true = [] := by decide

/-! ### the two transports -/

/-- one model serves both transports: declarations, frames, delivered messages and acknowledgement do not
depend on the transport -/
theorem transports_alike (t₁ t₂ : Transport) :
    consumerOps t₁ = consumerOps t₂ ∧ producerOps t₁ = producerOps t₂ ∧ send t₁ = send t₂ ∧
    deliver t₁ = deliver t₂ ∧ engineAck t₁ = engineAck t₂ := ⟨rfl, rfl, rfl, rfl, rfl⟩

/-! ### affinity -/

/-- In every reachable state of the routing model, a later (non-start) event of execution `e` that instance
`i` can be handed — from whatever queue `q` it sits in — belongs to an execution whose start event `i`
consumed; and the queue is `i`'s own.  Over all numbers of instances, all interleavings of submissions,
deliveries, timers / replies, and child launches. -/
theorem affinity {s : Net} (h : Reachable s) {q : QName} {e i : Nat} (hq : (q, e) ∈ s.later)
    (hc : canConsume q i) : s.st e = .owned i ∧ q = .inst i := by
  obtain ⟨j, hj, hst⟩ := (reachable_inv h).1 q e hq
  subst hj
  have : i = j := hc
  subst this
  exact ⟨hst, rfl⟩

/-- `owned i` means what it says: it is set only by the delivery of the start event to `i`, and once set it
never changes -/
theorem owner_is_start_consumer {s s' : Net} {a : Act} (hs : step s a = some s') (e i : Nat) :
    (s.st e = .owned i → s'.st e = .owned i) ∧
    (s'.st e = .owned i → s.st e = .owned i ∨ ∃ outs, a = .deliverStart e i outs) := by
  cases a with
  | submit via e' =>
    simp only [step] at hs
    split at hs
    · rename_i hu
      cases hs
      refine ⟨fun he => st_bind_owned (by intro j hj; rw [hu] at hj; cases hj) he, fun he => Or.inl ?_⟩
      by_cases hce : e' = e
      · subst hce; simp [Net.st, lookup] at he
      · simpa [Net.st, lookup, hce] using he
    · cases hs
  | deliverStart e' i' outs =>
    simp only [step] at hs
    split at hs
    · rename_i q hq
      split at hs
      · have hp := pubs_owned hs e i
        refine ⟨fun he => hp.1 (st_bind_owned (by intro j hj; rw [hq] at hj; cases hj) he), fun he => ?_⟩
        have h1 := hp.2 he
        by_cases hce : e' = e
        · subst hce
          have : i' = i := by simpa [Net.st, lookup] using h1
          subst this
          exact Or.inr ⟨outs, rfl⟩
        · left; simpa [Net.st, lookup, hce] using h1
      · cases hs
    · cases hs
  | deliverLater q e' i' outs =>
    simp only [step] at hs
    split at hs
    · have hp := pubs_owned hs e i
      exact ⟨fun he => hp.1 he, fun he => Or.inl (hp.2 he)⟩
    · cases hs
  | spontaneous i' outs =>
    simp only [step] at hs
    have hp := pubs_owned hs e i
    exact ⟨fun he => hp.1 he, fun he => Or.inl (hp.2 he)⟩

/-- start events submitted through the API go to the shared queue, which every instance may consume from;
a synchronous child launch stays on the launching instance's queue, an asynchronous one goes to the shared
queue -/
theorem start_events_shared (s : Net) (via e : Nat) (hu : s.st e = .unused) :
    (∃ s', step s (.submit via e) = some s' ∧ s'.st e = .startQueued .shared) ∧
    (∀ i, canConsume .shared i) ∧
    (∀ i j, canConsume (.inst j) i ↔ i = j) ∧
    route via false = .inst via ∧ route via true = .shared := by
  refine ⟨⟨{ s with ex := (e, .startQueued (route via true)) :: s.ex }, by simp [step, hu], ?_⟩,
    fun _ => trivial, fun _ _ => Iff.rfl, rfl, rfl⟩
  simp [Net.st, lookup, route]

/-- the hypotheses of `owner_is_start_consumer` / `start_events_shared` are met from the empty network -/
example : ({} : Net).st 7 = .unused ∧ ∃ s', step {} (.submit 0 7) = some s' ∧
    ∃ s'', step s' (.deliverStart 7 1 []) = some s'' ∧ s''.st 7 = .owned 1 := ⟨rfl, _, rfl, _, rfl, rfl⟩

/-- a reachable state with a later event in flight (two instances; instance 1 took the start event), so
`affinity`'s hypotheses are met; instance 0 cannot be handed that event -/
example : ∃ s, run {} [.submit 0 7, .deliverStart 7 1 [.later 7, .childSync 8]] = some s ∧
    (QName.inst 1, 7) ∈ s.later ∧ canConsume (.inst 1) 1 ∧ ¬ canConsume (.inst 1) 0 ∧
    s.st 7 = .owned 1 ∧ s.st 8 = .startQueued (.inst 1) := ⟨_, rfl, by decide, by decide, by decide, by decide, by decide⟩

/-- the model refuses a run in which a later event is published by an instance that never handled the execution -/
example : run {} [.submit 0 7, .deliverStart 7 1 [], .spontaneous 0 [.later 7]] = none := by decide

end Asl.C19
