import AslModel.Json
import AslModel.JsonText
import AslModel.Path
