"""Run one generated case (machine, input, task plans) on the real engine in the simulator and
collect the observables the properties constrain."""
import contextlib, copy, json
import sim as simmod
from machgen import ARN


class _ObservedLimit(int):
    """The size limit as the engine's module constant, observing the comparisons made against it: the engine's
    size checks read `len(json.dumps(event["data"])) > MAX_DATA_LENGTH` (change_state, handle_terminal_state, the
    join of a fan-out that ends its scope); for `int > subclass-of-int` Python asks the right operand's `__lt__`
    first, which reports the measured event data (found as `event` in the calling frame) to `sink` and then
    answers as an int does.  Nothing about the comparison is changed."""

    def __new__(cls, value, sink):
        o = int.__new__(cls, value)
        o.sink = sink
        return o

    def __lt__(self, other):
        try:
            import sys
            f = sys._getframe(1)
            ev = f.f_locals.get("event")
            if isinstance(ev, dict) and "data" in ev and isinstance(other, int):
                self.sink(ev, other, f.f_code.co_name)
        except Exception:
            pass
        return int.__lt__(self, other)

    __hash__ = int.__hash__


@contextlib.contextmanager
def data_limit(limit=None, refusals=None):
    """Small-limit mode: for the engine run inside the block the size limit of the code under test
    (`state_engine.MAX_DATA_LENGTH` — the output checks of `change_state`, `handle_terminal_state` and the
    terminal join — and `task_dispatcher.MAX_DATA_LENGTH` — the check of a worker's reply text) is `limit`
    characters; both constants are put back afterwards, also when the block raises.  `limit=None` keeps the value.
    With a list `refusals`, it receives
      * {"state", "type", "error", "retries"} for every transition `change_state` refuses (a pass-through observer
        around the real method) and {"state", "terminal": True} for every terminal output that is over the limit;
      * {"size", "state", "text"} for every output a size check measured (see `_ObservedLimit`);
      * {"cause_text_decides": True, ...} for a size check whose verdict depends on the text of an engine-generated
        Cause inside the data (the properties do not constrain that text, the comparisons mask it, so the reference
        semantics cannot know on which side of the limit such data falls)."""
    import asl_workflow_engine.state_engine as se
    import asl_workflow_engine.task_dispatcher as td
    old = (se.MAX_DATA_LENGTH, td.MAX_DATA_LENGTH)
    real = se.StateEngine.change_state
    lim = int(old[0]) if limit is None else limit
    if refusals is not None:
        def change_state(self, state_machine, state_type, next_state, event):
            st = event["context"]["State"]
            name, retries = st.get("Name"), st.get("RetryCount", 0)
            res = real(self, state_machine, state_type, next_state, event)
            if res[0]:
                refusals.append({"state": name, "type": state_type, "error": res[0], "retries": retries})
            return res
        se.StateEngine.change_state = change_state

        def sink(event, n_real, site):
            data = event["data"]
            name = ((event.get("context") or {}).get("State") or {}).get("Name")
            n_masked = len(json.dumps(mask_cause(data)))
            refusals.append({"size": n_real, "state": name, "text": json.dumps(data, separators=(",", ":"))})
            if (n_real > lim) != (n_masked > lim):
                refusals.append({"cause_text_decides": True, "state": name, "site": site})
            if n_real > lim and site != "change_state":
                refusals.append({"state": name, "terminal": True})
    try:
        if refusals is not None:
            se.MAX_DATA_LENGTH = _ObservedLimit(lim, sink)
            td.MAX_DATA_LENGTH = lim
        elif limit is not None:
            se.MAX_DATA_LENGTH = td.MAX_DATA_LENGTH = limit
        yield
    finally:
        se.MAX_DATA_LENGTH, td.MAX_DATA_LENGTH = old
        se.StateEngine.change_state = real


def canon_payload(p):
    return json.dumps(p, sort_keys=True, separators=(",", ":"))


class Plans(object):
    """worker behaviour: per function a list of outcomes indexed by the occurrence count of the
    same (function, payload) request; the last one repeats.  An outcome is ("ok"[, doc-or-None[, delay_ms]]),
    ("err", name[, message[, delay_ms]]) or ("none",) — the worker never answers.  Records the oracle table:
    the replies and, for the timed reference semantics, how long each took (read when the oracle is asked
    for, so that a delay a scenario sets on the Reply afterwards is the one that counts)."""

    def __init__(self, plans, delay_ms=10):
        self.plans, self.delay_ms = plans, delay_ms
        self.seen = {}       # (fn, payload text) -> count
        self.table = {}      # fn -> {payload text: (payload, [replies])}
        self.sent = {}       # fn -> {payload text: [Reply, …]}  (same order as the replies)
        self.order = {}      # fn -> {payload text: [arrival number, …]}  (same order as the replies)
        self.arrivals = 0

    def worker(self, fn):
        def plan(n, payload):
            key = (fn, canon_payload(payload))
            k = self.seen.get(key, 0)
            self.seen[key] = k + 1
            outcomes = self.plans.get(fn) or [("ok",)]
            o = outcomes[min(k, len(outcomes) - 1)]
            if o[0] == "ok":
                doc = {"fn": fn, "v": payload}
                if len(o) > 1 and o[1] is not None:
                    doc = o[1]
                r = simmod.Reply("ok", doc, o[2] if len(o) > 2 else self.delay_ms)
            elif o[0] == "none":
                doc = {}
                r = simmod.Reply("none")
            else:
                doc = {"errorType": o[1], "errorMessage": o[2] if len(o) > 2 else "m"}
                r = simmod.Reply("ok", doc, o[3] if len(o) > 3 else self.delay_ms)
            ent = self.table.setdefault(fn, {}).setdefault(key[1], (payload, []))
            ent[1].append(doc)
            self.sent.setdefault(fn, {}).setdefault(key[1], []).append(r)
            self.arrivals += 1
            self.order.setdefault(fn, {}).setdefault(key[1], []).append(self.arrivals)
            return r
        return plan

    def oracle(self):
        """{fn: [[payload, [replies], [delay_ms or None (never answered)]], …]}.
        The model looks a payload up with engine-generated Cause texts masked (they are outside every property and the
        model does not produce them): payloads that differ only there (an Error Output caught into the data — its Cause
        names the event id of the failed state's entry) are one entry for the model, while the worker kept a count for
        each.  Such entries are merged in order of arrival: the model's n-th request carrying the masked payload gets
        what the n-th such request got from the worker."""
        def entry(fn, k, p, replies):
            p = model_payload(p)
            sent = self.sent.get(fn, {}).get(k)
            if sent is None or len(sent) != len(replies):       # a table filled in from outside: no delays known
                return [p, replies]
            return [p, replies, [None if r.kind == "none" else r.delay_ms for r in sent]]
        out = {}
        for fn, ents in self.table.items():
            groups = {}
            for k, (p, replies) in ents.items():
                groups.setdefault(canon_payload(mask_cause(p)), []).append((k, p, replies))
            rows = []
            for g in groups.values():
                if len(g) == 1:
                    rows.append(entry(fn, *g[0]))
                    continue
                merged = []
                for k, p, replies in g:
                    e = entry(fn, k, p, replies)
                    order = self.order.get(fn, {}).get(k) or []
                    if len(e) < 3 or len(order) != len(replies):
                        merged = None
                        break
                    merged += [(order[i], replies[i], e[2][i]) for i in range(len(replies))]
                if merged is None:
                    rows += [entry(fn, *x) for x in g]
                else:
                    merged.sort(key=lambda x: x[0])
                    rows.append([g[0][1], [x[1] for x in merged], [x[2] for x in merged]])
            out[fn] = rows
        return out


def model_payload(x):
    """A payload as the model will produce it where it carries an Error Output *inside a JSON text* (an Error Output
    caught into the data and passed through `States.JsonToString` into a Task's Parameters): the model's Cause is
    "<cause>", and its `States.JsonToString` prints like the engine's (`json.dumps`, insertion order) — so the text is
    parsed, the Cause texts in it masked, and printed again the same way.  (Cause texts that are plain members are masked
    by the driver itself when it looks a payload up.)"""
    if isinstance(x, dict):
        return {k: model_payload(v) for k, v in x.items()}
    if isinstance(x, list):
        return [model_payload(v) for v in x]
    if isinstance(x, str) and '"Cause"' in x:
        try:
            j = json.loads(x)
        except ValueError:
            return x
        if isinstance(j, (dict, list)):
            def walk(y):
                if isinstance(y, dict):
                    return {k: ("<cause>" if k == "Cause" and "Error" in y and isinstance(v, str) else walk(v)) for k, v in y.items()}
                if isinstance(y, list):
                    return [walk(v) for v in y]
                return model_payload(y)
            return json.dumps(walk(j))
    return x


def mask_cause(x):
    """engine-generated Cause texts are not constrained by any property: mask them in data"""
    if isinstance(x, dict):
        if "Error" in x and isinstance(x.get("Cause"), str):
            # an Error Output (possibly with other members placed beside it later)
            return {k: ("<cause>" if k == "Cause" else mask_cause(v)) for k, v in x.items()}
        return {k: mask_cause(v) for k, v in x.items()}
    if isinstance(x, list):
        return [mask_cause(v) for v in x]
    if isinstance(x, str) and '"Cause"' in x:
        # an Error Output that went through States.JsonToString: the Cause text sits inside a JSON text
        try:
            j = json.loads(x)
        except ValueError:
            return x
        if isinstance(j, (dict, list)):
            return "<json>" + json.dumps(mask_cause(j), sort_keys=True)
    return x


class Result(object):
    pass


# --------------------------------------------------------------------------- history against the reference semantics

def _mc(x):
    """a Cause field of an event: any text is engine- or machine-made and masked; absent stays absent"""
    return "<cause>" if isinstance(x, str) else x


def _js(text):
    try:
        return mask_cause(json.loads(text))
    except (TypeError, ValueError):
        return ("unparseable", text)


BASE_EPOCH = 1700000000.0     # sim.BASE_EPOCH: instant 0 of the virtual clock


def ms_of(epoch_seconds):
    """an engine timestamp (epoch seconds on the virtual clock) as milliseconds since the start, to the microsecond
    (the engine goes through float epoch seconds and ISO texts: differences below that are representation noise)"""
    return round((epoch_seconds - BASE_EPOCH) * 1000.0, 3)


def model_ms(x):
    """an instant of the model: a number of ms, or the text "num/den" """
    if isinstance(x, str):
        a, b = x.split("/")
        return round(int(a) / int(b), 3)
    return round(float(x), 3)


def history_events(history, timed=False):
    """an execution history in the form the reference semantics predicts it: [type, name-or-None, detail] per event
    (with `timed`: [type, name, detail, ms since the start]),
    with the detail fields that are compared (JSON texts parsed, Cause texts masked); the `…Aborted` events of cancelled
    siblings are left out (which siblings were still pending is the schedule's)"""
    out = _history_events(history)
    if timed:
        kept = [h for h in history or [] if not h.get("type", "").endswith("Aborted")]
        out = [e + [ms_of(h.get("timestamp", 0))] for e, h in zip(out, kept)]
    return out


def _history_events(history):
    out = []
    for h in history or []:
        t = h.get("type", "")
        d = next((v for k, v in h.items() if k.endswith("EventDetails") and isinstance(v, dict)), {})
        if t.endswith("Aborted"):
            continue
        if t.endswith("StateEntered"):
            out.append([t, d.get("name"), {"input": _js(d.get("input"))}])
        elif t.endswith("StateExited"):
            out.append([t, d.get("name"), {"output": _js(d.get("output"))}])
        elif t == "ExecutionStarted":
            out.append([t, None, {"input": _js(d.get("input"))}])
        elif t == "ExecutionSucceeded":
            out.append([t, None, {"output": _js(d.get("output"))}])
        elif t == "ExecutionFailed":
            out.append([t, None, {"error": d.get("error"), "cause": _mc(d.get("cause"))}])
        elif t == "LambdaFunctionScheduled":
            out.append([t, None, {"input": _js(d.get("input")), "resource": d.get("resource")}])
        elif t == "LambdaFunctionSucceeded":
            out.append([t, None, {"output": _js(d.get("output"))}])
        elif t == "LambdaFunctionFailed":
            out.append([t, None, {"error": d.get("error"), "cause": d.get("cause")}])
        elif t == "LambdaFunctionTimedOut":
            out.append([t, None, {"error": d.get("error")}])
        elif t in ("MapIterationStarted", "MapIterationFailed", "MapIterationSucceeded"):
            out.append([t, d.get("name"), {"index": d.get("index")}])
        elif t == "MapStateStarted":
            out.append([t, None, {"length": d.get("length")}])
        elif t.endswith("StateStarted") or t.endswith("StateFailed"):
            out.append([t, None, {}])
        else:
            out.append([t, d.get("name"), {k: v for k, v in d.items() if k != "name"}])
    return out


def model_events(m, timed=False):
    """the model's `history` in the same form"""
    out = []
    for ev in m.get("history", []):
        t, name, d = ev[0], ev[1], ev[2]
        d = mask_cause(d) if isinstance(d, dict) else d
        if t == "ExecutionFailed":
            d = dict(d, cause=_mc(d.get("cause")))
        out.append([t, name, d] + ([model_ms(ev[3])] if timed and len(ev) > 3 else []))
    return out


def numbering_problems(history):
    """C09's first clause on the engine's history: ids are 1..n, previousEventId = id - 1"""
    bad = [[h.get("id"), h.get("previousEventId")] for i, h in enumerate(history or [])
           if h.get("id") != i + 1 or h.get("previousEventId") != i]
    return [{"what": "event ids are not 1..n with previousEventId = id - 1", "ids": bad[:4]}] if bad else []


def state_events(history):
    """the state events only, in the short form ["in" | "out", name, data]"""
    out = []
    for t, name, d in history_events(history):
        if t.endswith("StateEntered"):
            out.append(["in", name, d["input"]])
        elif t.endswith("StateExited"):
            out.append(["out", name, d["output"]])
    return out


def fanout_names(machine):
    names = set()

    def walk(states):
        for k, st in (states or {}).items():
            if not isinstance(st, dict):
                continue
            if st.get("Type") in ("Parallel", "Map"):
                names.add(k)
            for b in st.get("Branches", []) or []:
                walk(b.get("States"))
            for x in ("Iterator", "ItemProcessor"):
                if isinstance(st.get(x), dict):
                    walk(st[x].get("States"))
    walk(machine.get("States"))
    return names


FANFAIL_KINDS = ("ExecutionStarted", "ExecutionSucceeded", "ExecutionFailed", "LambdaFunctionSucceeded")


def oracle_order_ambiguous(m, requests=None, timed=False):
    """A worker's plan answers the n-th request carrying a given payload; the engine counts requests in the order they
    arrive (time), the reference semantics in the order it evaluates branches (index).  When concurrent branches ask the
    same function the same question the two orders can differ — visible in the model's own prediction: its
    LambdaFunctionScheduled events for one (resource, payload), in the order it logged them, are not in time order.
    Which branch then gets which answer is decided by the engine's arrival order, which the model does not have."""
    from common import cj
    last = {}
    for ev in m.get("history", []):
        if ev[0] == "LambdaFunctionScheduled" and len(ev) > 3:
            k = cj([ev[2].get("resource"), ev[2].get("input")])
            t = model_ms(ev[3])
            if k in last and t < last[k]:
                return True
            last[k] = t
    return requests is not None and replay_overrun(m, requests, timed)


def _request_instants(m, requests):
    """per (function, masked payload): the instants of the engine's requests (arrival order) and of the model's
    LambdaFunctionScheduled events (the order the model logged them)"""
    from common import cj
    eng, mod = {}, {}
    for q in requests:
        eng.setdefault(cj([q["queue"], mask_cause(q["payload"])]), []).append(round(float(q["t"]), 3))
    for ev in m.get("history", []):
        if ev[0] == "LambdaFunctionScheduled":
            fn = str(ev[2].get("resource")).rsplit(":", 1)[-1]
            mod.setdefault(cj([fn, mask_cause(ev[2].get("input"))]), []).append(model_ms(ev[3]) if len(ev) > 3 else None)
    return eng, mod


def replay_overrun(m, requests, timed):
    """The oracle the model is given is the *recording* of what the workers answered in this engine run, per (function,
    payload) in order of arrival.  When a fan-out attempt fails the engine cuts the siblings short while the reference
    semantics runs every branch (of the failing batch) to its end: a sibling's further requests then consume
    entries of the recording that the engine gave to *later* requests carrying the same payload (the next attempt of a
    retried fan-out), and from there on the model is answered differently from the engine.  Under the canonical schedule
    `settle_oracle` repairs the recording (the model's phantom requests are recognisable by their instants); under any
    other schedule instants say nothing and only equal numbers of requests per key are accepted — anything else is
    `skipped.oracle_order`.  `requests`: the simulator's `rpc_requests` of the run."""
    if not m.get("fanFail") or timed:
        return False
    eng, mod = _request_instants(m, requests)
    return any(len(mod.get(k, [])) != len(eng.get(k, [])) for k in set(eng) | set(mod))


def settle_oracle(m, oracle, requests, rerun, rounds=12):
    """Canonical schedule, some fan-out attempt failed.  A request the model makes in a branch the engine had already cut
    short (a *phantom*: the engine made no request carrying that payload at that instant) must not consume an entry of the
    recording.  Per (function, masked payload) the model's request instants (in its own order) are aligned with the
    engine's: a model request at the instant of the engine's next request is that request and gets its recorded reply; a
    model request at an earlier instant is a phantom and gets an empty reply (what a phantom is answered cannot matter —
    its branch is discarded; it comes after the failure, so it cannot become the earliest failure either).  The model is
    run again on the recording laid out that way (`rerun(oracle) -> outcome`) until the layout no longer changes.  A request of the engine's at a wrong
    instant is not explained away by this: the model's own request at the right instant is then answered `{}` and the
    recorded reply goes to a later request, so the histories differ and the comparison reports it.
    Returns (outcome, number of phantoms)."""
    import copy
    from common import cj
    if not m.get("fanFail") or m.get("tieFail") or m.get("status") not in ("SUCCEEDED", "FAILED"):
        return m, 0
    used, n = oracle, 0
    for _round in range(rounds):
        eng, mod = _request_instants(m, requests)
        new, n = copy.deepcopy(oracle), 0
        for fn, rows in new.items():
            for row in rows:
                k = cj([fn, mask_cause(row[0])])
                e, mo = eng.get(k, []), mod.get(k, [])
                if len(row) < 3 or len(row[1]) != len(row[2]) or len(e) > len(row[1]):
                    continue
                replies, delays, j = [], [], 0
                for t in mo:
                    if j < len(e) and t == e[j]:
                        replies.append(row[1][j]); delays.append(row[2][j]); j += 1
                    elif j < len(e) and t is not None and t > e[j]:
                        break               # a request of the engine's the model does not make: left for the comparison
                    else:
                        replies.append({}); delays.append(10); n += 1
                row[1], row[2] = replies + row[1][j:], delays + row[2][j:]
        if cj(new) == cj(used):
            return m, n
        m2 = rerun(new)
        if m2 is None or m2.get("status") not in ("SUCCEEDED", "FAILED"):
            return m, 0
        m, used = m2, new
    return m, n


def limit_ms(machine):
    """the execution's time limit (the machine's top-level TimeoutSeconds) as an instant in ms since the start, or None"""
    n = machine.get("TimeoutSeconds") if isinstance(machine, dict) else None
    return n * 1000.0 if isinstance(n, (int, float)) and not isinstance(n, bool) else None


BACKSTOP_MS = 60000.0    # the engine's once-a-minute back stop (`check_for_expired_branch_results`) is outside the model


def annotate_due(requests, plans):
    """add to every request the workers received (`rpc_requests` entries, in order of arrival) the instant its reply is
    due (`due`: arrival + the plan's delay; None: the worker never answers) — read off the recording of `Plans`"""
    seen = {}
    for q in requests:
        key = (q["queue"], canon_payload(q["payload"]))
        k = seen.get(key, 0)
        seen[key] = k + 1
        sent = (plans.sent.get(key[0], {}) if plans is not None else {}).get(key[1]) or []
        rep = sent[k] if k < len(sent) else None
        q["due"] = None if rep is None or rep.kind == "none" else q["t"] + rep.delay_ms
    return requests


def ttl_zero(t_ms, dl_ms):
    """is the time-to-live of a task request published at `t_ms` under the execution deadline `dl_ms` zero?  The engine
    gives the request message `expiration = str(int(timeout))`, the time left in ms computed through float epoch seconds;
    the broker discards a message whose time-to-live is 0 unless a consumer takes it at once (the fake broker: always)"""
    t1 = (BASE_EPOCH + dl_ms / 1000.0 - (BASE_EPOCH + t_ms / 1000.0)) * 1000
    return int(t1 if t1 > 0 else 0) == 0


def time_limit_incomparable(machine, m, requests, timed=True):
    """Under an execution time limit (top-level TimeoutSeconds): why this run cannot be held against the reference
    semantics at all (outcome, history, notifications, frames), or None.
      time_limit        not the canonical schedule: when the limit runs out relative to everything else is the schedule's;
      backstop          the run goes on for a minute or more: the engine's once-a-minute back stop may end it;
      reply_at_deadline a worker's reply is due at the very instant of the deadline: the engine's timer for the deadline is
                        armed through float epoch seconds and lands a hair before or after the reply."""
    dl = limit_ms(machine)
    if dl is None or m is None:
        return None
    if not timed:
        return "time_limit"
    if m.get("status") in ("SUCCEEDED", "FAILED") and model_ms(m.get("endTime", 0)) >= BACKSTOP_MS:
        return "backstop"
    if any(q.get("due") is not None and abs(q["due"] - dl) < 0.002 for q in requests or []):
        return "reply_at_deadline"
    return None


def compare_history(machine, m, history, n_requests, timed=False, request_instants=None, requests=None):
    """The engine's complete history against the `history` of `Asl.run` (`m`: the model's outcome).
    Returns (mode, problems, number of engine events compared):
      sequence  no Parallel / Map state was entered: the sequences of [type, name, detail] are equal;
      multiset  fan-outs, none of which failed: the multisets are equal (the interleaving of branches is the schedule's);
      fanfail   some fan-out attempt failed (which siblings got how far is the schedule's): the engine's ExecutionStarted /
                ExecutionSucceeded / ExecutionFailed, `…StateExited` and LambdaFunctionSucceeded events are among the
                model's (the model runs every branch of the failing batch to its end); nothing else is compared;
      skipped   the model ran out of fuel / does not support the machine / several branches of a fan-out failed.
    In every compared mode the ids are 1..n with previousEventId = id - 1; in the first two the number of task requests
    the workers saw equals the model's `requests`.  `…Aborted` events are left out everywhere.
    `timed` (the canonical schedule: every event is handled the instant it is due): each event also carries its instant
    (ms on the virtual clock since the start, exact to the microsecond), and `request_instants` — when the workers
    received their requests — are the instants of the model's LambdaFunctionScheduled events (first two modes).
    The execution's time limit (top-level TimeoutSeconds, canonical schedule): a fan-out cut by it is no `fanfail` —
    every branch still at work is cut at that same instant, in the model as in the engine, so the histories are compared
    as multisets; only what happens *at* that instant in several branches is the timers' order (`LambdaFunctionTimedOut`
    of a Task whose own limit is the same instant may or may not be filed before the execution ends: left out on both
    sides; anything else there: `skipped.tie_at_deadline`).  A request published at or after the deadline (C08-F1: after
    a Retrier's interval that ran past it; or within its last millisecond: `ttl_zero`) carries a time-to-live of 0 and is
    discarded by the broker: the workers do not see it.  A reply due exactly at the deadline: `skipped.reply_at_deadline`.  Runs that go on for a minute or more under a time limit are not compared (`skipped.backstop`)."""
    import collections
    from common import cj
    # several branches of one fan-out failed: under the canonical schedule the earliest failure is the fan-out's (unless
    # two failed at the same instant: `tieFail`); under any other schedule which is handled first is the schedule's
    if m.get("status") not in ("SUCCEEDED", "FAILED") or m.get("tieFail" if timed else "multiFail"):
        return "skipped", [], 0
    if oracle_order_ambiguous(m, requests, timed):
        return "skipped.oracle_order", [], 0
    dl = limit_ms(machine)
    why = time_limit_incomparable(machine, m, requests, timed)
    if why:
        return "skipped." + why, [], 0
    mine = model_events(m, timed)
    theirs = history_events(history, timed)
    fans = fanout_names(machine)
    fan_in = any(e[0].endswith("StateEntered") and e[1] in fans for e in mine + theirs)
    probs = numbering_problems(history)
    end = model_ms(m.get("endTime", 0)) if timed else None
    cut_in_fan = bool(m.get("execTimeout")) and fan_in and timed
    # (C08-F1) a sibling that sits in a Retrier's interval when the execution ends goes on in the model: phantoms
    phantoms = cut_in_fan and any(e[3] > end for e in mine)
    if m.get("fanFail") or phantoms:
        keep = lambda e: e[0] in FANFAIL_KINDS or e[0].endswith("StateExited")
        have = collections.Counter(cj(e) for e in mine if keep(e))
        sel = [e for e in theirs if keep(e)]
        extra = collections.Counter(cj(e) for e in sel) - have
        if extra:
            probs.append({"what": "events the reference semantics does not have", "events": sorted(extra.elements())[:4]})
        return "fanfail", probs, len(sel)
    if cut_in_fan and end == dl:
        at_end = lambda e: e[3] == end and not e[0].startswith("Execution")
        if any(at_end(e) and e[0] != "LambdaFunctionTimedOut" for e in mine):
            return "skipped.tie_at_deadline", [], 0
        mine = [e for e in mine if not at_end(e)]
        theirs = [e for e in theirs if not at_end(e)]
    if fan_in:
        mode = "multiset"
        a, b = collections.Counter(cj(e) for e in theirs), collections.Counter(cj(e) for e in mine)
        if a != b:
            probs.append({"what": "histories differ as multisets", "engine_only": sorted((a - b).elements())[:4],
                          "model_only": sorted((b - a).elements())[:4]})
        elif theirs and (theirs[0][0] != "ExecutionStarted" or not theirs[-1][0].startswith("Execution")):
            probs.append({"what": "ExecutionStarted is not first / the terminal event is not last", "first": theirs[0], "last": theirs[-1]})
    else:
        mode = "sequence"
        if cj(theirs) != cj(mine):
            i = next((i for i, (x, y) in enumerate(zip(theirs, mine)) if cj(x) != cj(y)), min(len(theirs), len(mine)))
            probs.append({"what": "histories differ as sequences", "at": i, "engine": theirs[i:i + 2], "model": mine[i:i + 2],
                          "lengths": [len(theirs), len(mine)]})
    # requests whose time limit is over when they are published — the execution's deadline has passed (or does within
    # the millisecond), or the Task's own limit is 0 s or less (TimeoutSecondsPath): `LambdaFunctionTimedOut` at the
    # request's own instant — carry a time-to-live of 0 and expire unseen
    evs = model_events(m, True) if timed else []
    sched, seen = [], []
    for i, e in enumerate(evs):
        if e[0] == "LambdaFunctionScheduled" and len(e) > 3:
            nxt = evs[i + 1] if i + 1 < len(evs) else None
            gone = (dl is not None and ttl_zero(e[3], dl)) or (nxt is not None and nxt[0] == "LambdaFunctionTimedOut" and nxt[3] == e[3])
            sched.append(e[3])
            if not gone:
                seen.append(e[3])
    expired = len(sched) - len(seen)
    if n_requests != (m.get("requests") - expired if timed else m.get("requests")):
        probs.append({"what": "number of task requests", "engine": n_requests, "model": m.get("requests"), "expired_unseen": expired})
    if timed and request_instants is not None:
        want = seen
        got = [round(float(t), 3) for t in request_instants]
        if (sorted(got) != sorted(want)) if mode == "multiset" else (got != want):
            probs.append({"what": "the instants at which the workers received their requests", "engine": got[:8], "model": want[:8]})
    return mode, probs, len(theirs)


def compare_notifications(m, details, data, timed=False, requests=None, machine=None):
    """The status notifications of the execution (the `detail` of each, in order of publication) against the model's
    `notifications`: the same statuses in the same order — RUNNING carrying the execution's input, then the terminal
    status carrying the output, or the error name with a cause exactly when the Error Output has one.
    (`machine`: to leave out what an execution time limit makes incomparable, `time_limit_incomparable`.)"""
    from common import cj
    if (m.get("status") not in ("SUCCEEDED", "FAILED") or m.get("tieFail" if timed else "multiFail")
            or oracle_order_ambiguous(m, requests, timed)):
        return "skipped", []
    if machine is not None and time_limit_incomparable(machine, m, requests, timed):
        return "skipped", []
    want = m.get("notifications", [])
    probs = []
    if [d.get("status") for d in details] != [w[0] for w in want]:
        return "compared", [{"what": "statuses", "engine": [d.get("status") for d in details], "model": [w[0] for w in want]}]
    if timed and details and "endTime" in m:
        stop = details[-1].get("stopDate")
        # the notification carries int(stopDate * 1000) of a float number of epoch seconds: a whole millisecond may come
        # out one lower (1700000004.005 * 1000 = 1700000004004.9999…); the history's timestamp is compared exactly
        if stop is None or not (-1.001 <= stop - (BASE_EPOCH * 1000 + model_ms(m["endTime"])) <= 0.001):
            probs.append({"what": "stopDate of the terminal notification (epoch ms)", "engine": stop,
                          "model": BASE_EPOCH * 1000 + model_ms(m["endTime"])})
    for d, (st, payload) in zip(details, want):
        if st == "RUNNING":
            if cj(_js(d.get("input"))) != cj(mask_cause(data)) or d.get("output") is not None:
                probs.append({"what": "RUNNING carries the input and no output", "engine": {"input": d.get("input"), "output": d.get("output")}})
        elif st == "SUCCEEDED":
            if d.get("output") is None or cj(_js(d.get("output"))) != cj(mask_cause(payload)) or d.get("error") is not None:
                probs.append({"what": "SUCCEEDED carries the output and no error", "engine": {"output": d.get("output"), "error": d.get("error")},
                              "model": payload})
        else:
            if (d.get("error") != payload.get("Error") or (d.get("cause") is not None) != ("Cause" in payload)
                    or d.get("output") is not None):
                probs.append({"what": "FAILED carries the error name (and a cause iff there is one) and no output",
                              "engine": {"error": d.get("error"), "cause": _mc(d.get("cause")), "output": d.get("output")},
                              "model": mask_cause(payload)})
    return "compared", probs


def run_case(machine, data, plans, policy="canonical", rng=None, sm_type="STANDARD", max_steps=4000,
             instances=1, name="e1", sim=None, monitor=None, logging_cfg=None, max_data=None):
    """`max_data`: run the engine with that size limit (small-limit mode, see `data_limit`); the
    transitions it refused are in `r.refusals`."""
    refusals = []
    with data_limit(max_data, refusals):
        r = _run_case(machine, data, plans, policy, rng, sm_type, max_steps, instances, name, sim, monitor, logging_cfg)
    r.refusals = [x for x in refusals if "error" in x]
    r.terminal_refusals = [x for x in refusals if x.get("terminal")]
    r.cause_text_decides = [x for x in refusals if x.get("cause_text_decides")]
    replies = [d for ents in pl_table(r).values() for (_p, reps) in ents.values() for d in reps]
    r.sizes = [x["size"] for x in refusals if "size" in x] + [len(json.dumps(d)) for d in replies]
    # every datum a size check measured, as protocol text, with the length the code saw
    r.measured = ([(x["text"], x["size"]) for x in refusals if "size" in x] +
                  [(json.dumps(d, separators=(",", ":")), len(json.dumps(d))) for d in replies])
    r.max_data = max_data
    return r


def pl_table(r):
    return r.plans.table


def _run_case(machine, data, plans, policy, rng, sm_type, max_steps, instances, name, sim, monitor, logging_cfg):
    s = sim or simmod.Sim(instances=instances)
    arn = ARN + "m1"
    s.put_machine(arn, copy.deepcopy(machine), type=sm_type, logging=logging_cfg)
    pl = Plans(plans)
    for fn in plans:
        s.add_worker(fn, pl.worker(fn))
    ea = s.start_execution(arn, copy.deepcopy(data), name=name)
    r = Result()
    r.sim, r.exec_arn, r.plans = s, ea, pl
    if monitor:
        monitor(s, ea, None)
    done = False
    grace = None
    while s.steps < max_steps:
        # after the terminal notification allow trailing activity (acks, cancellations), but do not
        # sit through hours of virtual heartbeats waiting for timers that were left armed
        term = [n for n in s.notifications if n["body"] and n["body"].get("detail", {}).get("executionArn") == ea
                and n["body"]["detail"].get("status") != "RUNNING"]
        if term and grace is None:
            grace = s.steps + 60
        if grace is not None and s.steps >= grace:
            break
        if policy == "canonical":
            st = s.canonical_step()
            if st is None:
                done = True
                break
        else:
            if s.quiescent():
                done = True
                break
            st = policy(s)
        s.do(st)
        if monitor:
            monitor(s, ea, st)
    r.quiescent = done
    r.trailing = grace is not None and not done      # ended by the grace rule: something was left armed/queued
    r.errors = list(s.errors)
    r.record = s.record(ea) if sm_type == "STANDARD" else None
    r.history = s.history(ea) if sm_type == "STANDARD" else None
    r.notifications = [n for n in s.notifications if n["body"] and n["body"].get("detail", {}).get("executionArn") == ea]
    r.volatile = s.snapshot_volatile()
    r.requests = annotate_due(list(s.rpc_requests), pl)
    last = r.notifications[-1]["body"]["detail"] if r.notifications else None
    r.status = last["status"] if last else None
    r.output = None
    r.error = r.cause = None
    if last:
        if last.get("output") is not None:
            try:
                r.output = json.loads(last["output"])
            except Exception:
                r.output = ("unparseable", last["output"])
        r.error, r.cause = last.get("error"), last.get("cause")
    return r
