#!/venv/bin/python
"""Confirm a seeded defect delivered by a sub-agent and run the registered checks against it.

usage: seed_eval.py <seed-id> <scratch-worktree> <property> [check ids to run ...]
  1. in the scratch worktree: the patch applies, the repo's tests give the baseline (66 pass / same 3 fail),
     the demonstration fails with the patch and passes without it;
  2. apply the patch to /repo, run the given checks (quick tier), undo it straight afterwards;
  3. keep the change as /verif/seeded/<seed-id>/ (patch.diff, demo, meta.json).
"""
import json, os, shutil, subprocess, sys, glob, time

VERIF = os.path.dirname(os.path.dirname(os.path.abspath(__file__)))


def sh(cmd, cwd=None, env=None, timeout=1800):
    p = subprocess.run(cmd, shell=True, cwd=cwd, env=env, stdout=subprocess.PIPE, stderr=subprocess.STDOUT,
                       text=True, timeout=timeout)
    return p.returncode, p.stdout


def eval_worktree():
    ev = "/tmp/seed/_eval_%d" % os.getpid()
    sh("git -C /repo worktree remove --force %s" % ev)
    rc, out = sh("git -C /repo worktree add --detach %s HEAD" % ev)
    assert rc == 0, out
    return ev


def main():
    sid, wt, prop = sys.argv[1], sys.argv[2], sys.argv[3]
    checks = sys.argv[4:] or [prop]
    patch = os.path.join(wt, "patch.diff")
    demos = glob.glob(os.path.join(wt, "demo_*.py"))
    assert os.path.exists(patch) and demos, "patch.diff / demo missing"
    demo = demos[0]
    env = dict(os.environ, PYTHONPATH=os.path.join(wt, "asl-workflow-engine", "py"))
    meta = {"id": sid, "property": prop, "ran": []}
    # --- 1. confirm in the scratch worktree
    sh("git checkout -- asl-workflow-engine", cwd=wt)
    rc, out = sh("/venv/bin/python %s" % os.path.basename(demo), cwd=wt, env=env)
    meta["demo_without_patch_rc"] = rc
    rc, out = sh("git apply patch.diff", cwd=wt)
    assert rc == 0, "patch does not apply: " + out
    rc, out = sh("/venv/bin/python %s" % os.path.basename(demo), cwd=wt, env=env)
    meta["demo_with_patch_rc"] = rc
    meta["demo_with_patch_tail"] = out[-400:]
    rc, out = sh("/venv/bin/python -m pytest -q -p no:cacheprovider --timeout=900 2>&1 | tail -1", cwd=wt)
    meta["tests_with_patch"] = out.strip()
    ok = meta["demo_without_patch_rc"] == 0 and meta["demo_with_patch_rc"] != 0 and "66 passed" in out and "3 failed" in out
    meta["confirmed"] = ok
    print("confirm:", json.dumps({k: meta[k] for k in ("demo_without_patch_rc", "demo_with_patch_rc", "tests_with_patch", "confirmed")}))
    # --- 2. run the checks against /repo with the patch applied
    # (the checks read the code under $LSF_REPO: a scratch worktree of /repo's HEAD carries the change, so that
    # /repo itself — which other runs may be reading at the same time — is never touched; equivalent to
    # `git -C /repo apply` + `git -C /repo checkout -- .`)
    ev = eval_worktree()
    rc, out = sh("git -C %s apply %s" % (ev, patch))
    assert rc == 0, "patch does not apply to /repo's HEAD: " + out
    cenv = dict(os.environ, LSF_REPO=ev)
    try:
        for c in checks:
            t0 = time.time()
            rc, out = sh("/venv/bin/python harness/check.py %s --tier quick" % c, cwd=VERIF, env=cenv, timeout=3600)
            viol = [l for l in out.splitlines() if l.startswith("VIOLATION")]
            meta["ran"].append({"check": c, "exit": rc, "violations": len(viol), "first": viol[:2],
                                "wall_s": round(time.time() - t0, 1)})
            print("check %s: exit=%d violations=%d %s" % (c, rc, len(viol), viol[:1]))
    finally:
        sh("git -C /repo worktree remove --force %s" % ev)
    meta["detected_by"] = [r["check"] for r in meta["ran"] if r["exit"] == 1]
    # --- 3. keep
    dst = os.path.join(VERIF, "seeded", sid)
    os.makedirs(dst, exist_ok=True)
    shutil.copy(patch, os.path.join(dst, "patch.diff"))
    shutil.copy(demo, os.path.join(dst, os.path.basename(demo)))
    notes = os.path.join(wt, "NOTES.md")
    if os.path.exists(notes):
        shutil.copy(notes, os.path.join(dst, "NOTES.md"))
        meta["needs"] = "see NOTES.md"
    with open(os.path.join(dst, "meta.json"), "w") as f:
        json.dump(meta, f, indent=1)
    # evidence files were rewritten by the runs against the patched tree: the caller re-runs the checks on the clean tree
    print("detected_by:", meta["detected_by"])


if __name__ == "__main__":
    main()
