"""The broker frames of the engine connection, handler step by handler step, against the steps `Asl.run` predicts
(`steps` of the model's outcome; lean/AslModel/Frames.lean) — law C03.frames_match_reference.

The engine side is read off the fake broker's frame log (harness/fakes/pika/broker.py): per simulator step the frames of
the engine's connection — deliver / publish / ack, each with the message it concerns.  Messages are matched with the
model's by *address*: an event by the state it is for and the branch it belongs to (the indices of its context's Branch
stack), the k-th event with that address in publication order being the model's k-th (a thread publishes its events one
after the other on both sides); a task request by the event it carries as correlation id, a reply by its request.
"""
import json, collections
from common import cj

EVQ = "asl_workflow_events"


def _body(fr):
    b = fr.get("body")
    try:
        return json.loads(b.decode("utf8") if isinstance(b, (bytes, bytearray)) else b)
    except Exception:
        return None


def rich_frames(log, pos, engine_conns):
    """the frames of the engine connections from position `pos` of the log on: (frames, new position)"""
    out = []
    while pos < len(log):
        fr = log[pos]
        pos += 1
        if fr.get("conn") not in engine_conns:
            continue
        op = fr["op"]
        if op in ("deliver", "ack"):
            mid, cid = fr.get("message_id"), fr.get("correlation_id")
            out.append([op[0], ("ev", mid) if mid else ("rp", cid)])
        elif op == "publish":
            props = fr.get("props") or {}
            rk = str(fr.get("routing_key", ""))
            if fr.get("exchange") == "asl_workflow_engine":
                out.append(["n", rk.rsplit(".", 1)[-1]])
            elif rk.startswith(EVQ):
                st = (((_body(fr) or {}).get("context") or {}).get("State") or {})
                path = [b["Index"] for b in (st.get("Branch") or []) if "Index" in b]
                out.append(["e", ("ev", props.get("message_id")), st.get("Name") or "", path])
            else:
                out.append(["q", ("rp", props.get("correlation_id")), ("ev", props.get("correlation_id"))])
    return out, pos


class Recorder(object):
    """a run monitor (called after every simulator step, and once before the first with step None): the frames of the
    engine's connections per step, with the instant of the step"""

    def __init__(self):
        self.pos = 0
        self.steps = []
        self.start = None           # message id of the start event (published by the API before the first step)

    def __call__(self, s, ea, step):
        import sim as simmod
        conns = {i.conn.ident for i in s.instances if i.alive and i.conn is not None}
        fr, self.pos = rich_frames(s.broker.log, self.pos, conns)
        if step is None:
            for f in fr:
                if f[0] == "e" and self.start is None:
                    self.start = f[1][1]
        else:
            self.steps.append((simmod.CLOCK.ms, fr))


def fan_entered(machine, m):
    """did the (model's) run enter a Parallel / Map state?"""
    import enginerun
    fans = enginerun.fanout_names(machine)
    return any(e[0].endswith("StateEntered") and e[1] in fans for e in m.get("history", []))


class Names(object):
    """engine message -> model message number, by address"""

    def __init__(self, model_steps, start_name):
        self.by_addr = collections.defaultdict(list)     # (name, path) -> model ids in publication order (model order)
        self.req_of = {}                                  # model event id -> model request id
        for _t, _early, frames in model_steps:
            for f in frames:
                if f[0] == "e":
                    self.by_addr[cj([f[2], f[3]])].append(f[1])
                elif f[0] == "q":
                    self.req_of[f[2]] = f[1]
        self.seen = collections.Counter()
        self.ev = {}                                      # engine event message id -> model id
        self.unknown = []

    def publish_event(self, mid, name, path):
        k = cj([name, path])
        i = self.seen[k]
        self.seen[k] += 1
        ids = self.by_addr.get(k, [])
        if i < len(ids):
            self.ev[mid] = ids[i]
        else:
            self.ev[mid] = "?%s#%d" % (k, i)
            self.unknown.append(self.ev[mid])
        return self.ev[mid]

    def msg(self, m):
        kind, ident = m
        if kind == "ev":
            return self.ev.get(ident, "?ev")
        e = self.ev.get(ident, "?ev")
        return self.req_of.get(e, "?rp(%s)" % e)


def translate(rich_steps, model_steps, start_mid):
    """the engine's steps [(t, frames)] in the model's message numbers"""
    nm = Names(model_steps, None)
    nm.ev[start_mid] = 0
    out = []
    for t, frames in rich_steps:
        cur = []
        for f in frames:
            if f[0] == "e":
                cur.append(["e", nm.publish_event(f[1][1], f[2], f[3]), f[2], f[3]])
            elif f[0] == "q":
                cur.append(["q", nm.msg(f[1]), nm.msg(f[2])])
            elif f[0] == "n":
                cur.append(["n", f[1]])
            else:
                cur.append([f[0], nm.msg(f[1])])
        if cur:
            out.append([round(float(t), 3), cur])
    return out, nm


def model_ms(t):
    if isinstance(t, str) and "/" in t:
        a, b = t.split("/")
        return round(int(a) / int(b), 3)
    return round(float(t), 3)


def kinds(frames):
    return [f[0] for f in frames]


def ledger_problems(steps):
    """every delivery of the translated steps is acknowledged at most once, after it was delivered; nothing is published
    after an acknowledgement within a step"""
    probs = []
    out = collections.Counter()
    for t, frames in steps:
        acked = False
        for f in frames:
            if f[0] == "d":
                out[cj(f[1])] += 1
            elif f[0] == "a":
                acked = True
                if out[cj(f[1])] <= 0:
                    probs.append({"what": "acknowledgement of a message that is not outstanding", "t": t, "message": f[1]})
                out[cj(f[1])] -= 1
            elif acked:
                probs.append({"what": "a publication after an acknowledgement within a step", "t": t, "frames": frames})
    return probs, [k for k, v in out.items() if v > 0]


def compare(m, rich_steps, start_mid, fan_entered):
    """(mode, problems, number of engine steps compared).  Modes:
      sequence  no Parallel / Map state was entered: the steps (instant, frames with message numbers) are equal as sequences;
      instants  fan-outs, none failed, no tie at a join, no Task time limit: at every instant the same steps as multisets
                (steps of different branches at one instant are interleaved by the broker's FIFO order, which the model
                does not have), the instants in the same order, and every branch's own steps in order (by the deliveries);
      flat      a tie at a join (two unlike branches end at the same instant: which of them completes the join is the
                broker's order): per instant the same frames (with message numbers) as multisets;
      late      a Task ran into its time limit (its late reply is not predicted): per instant the predicted frame kinds
                are among the engine's;
      ledger    some fan-out attempt failed (which siblings got how far is timing; the model runs every branch to its
                end): the engine publishes no more events / requests than the model and the same notifications; its
                own ledger is sound (every acknowledgement follows its delivery, once; nothing published after an ack);
      skipped   the model has no prediction (fuel, unsupported, several failures at one instant)."""
    import enginerun
    if m.get("status") not in ("SUCCEEDED", "FAILED") or m.get("tieFail") or "steps" not in m:
        return "skipped", [], 0
    if enginerun.oracle_order_ambiguous(m):
        return "skipped.oracle_order", [], 0
    mine = [[model_ms(t), fr] for t, _early, fr in m["steps"] if fr]
    theirs, nm = translate(rich_steps, m["steps"], start_mid)
    probs = []
    lp, left = ledger_problems(theirs)
    probs += lp[:3]
    if m.get("fanFail") or (m.get("execTimeout") and fan_entered):
        # (a fan-out cut by the execution's time limit: the engine ends the execution from the first timer that fires and
        # cancels the rest, the model lets every pending branch run into the limit: the ledger bound, as for a failure)
        cnt = lambda steps, k: sum(1 for _t, fr in steps for f in fr if f[0] == k)
        for k, what in (("e", "events"), ("q", "task requests")):
            if cnt(theirs, k) > cnt(mine, k):
                probs.append({"what": "more %s published than the reference semantics has" % what, "engine": cnt(theirs, k), "model": cnt(mine, k)})
        a = [f[1] for _t, fr in theirs for f in fr if f[0] == "n"]
        b = [f[1] for _t, fr in mine for f in fr if f[0] == "n"]
        if a != b:
            probs.append({"what": "notifications", "engine": a, "model": b})
        return "ledger", probs, len(theirs)
    if left and not m.get("late"):
        # (the late reply of a Task that ran into its time limit is kept as an orphan until its retention is over)
        probs.append({"what": "deliveries never acknowledged", "messages": left[:4]})
    if m.get("tieJoin") and not m.get("late"):
        # which of the tied branches completes the join is the broker's order: the frames of an instant are the same,
        # their distribution over the steps of that instant is not
        ga, gb = collections.defaultdict(collections.Counter), collections.defaultdict(collections.Counter)
        for g, steps in ((ga, theirs), (gb, mine)):
            for t, fr in steps:
                for f in fr:
                    g[t][cj(f)] += 1
        for t in sorted(set(ga) | set(gb)):
            if ga.get(t) != gb.get(t):
                probs.append({"what": "the frames of an instant differ", "t": t,
                              "engine_only": sorted(((ga.get(t) or collections.Counter()) - (gb.get(t) or collections.Counter())).elements())[:4],
                              "model_only": sorted(((gb.get(t) or collections.Counter()) - (ga.get(t) or collections.Counter())).elements())[:4]})
                break
        return "flat", probs, len(theirs)
    if m.get("late"):
        # a Task ran into its time limit: its reply, if the worker sends one, arrives later and is not predicted
        ga, gb = collections.defaultdict(collections.Counter), collections.defaultdict(collections.Counter)
        for g, steps in ((ga, theirs), (gb, mine)):
            for t, fr in steps:
                for f in fr:
                    g[t][f[0]] += 1
        for t in sorted(gb):
            if gb[t] - ga.get(t, collections.Counter()):
                probs.append({"what": "predicted frame kinds the engine does not have at an instant", "t": t,
                              "engine": dict(ga.get(t, {})), "model": dict(gb[t])})
                break
        return "late", probs, len(theirs)
    if not fan_entered:
        if cj(theirs) != cj(mine):
            i = next((i for i, (x, y) in enumerate(zip(theirs, mine)) if cj(x) != cj(y)), min(len(theirs), len(mine)))
            probs.append({"what": "steps differ as sequences", "at": i, "engine": theirs[i:i + 2], "model": mine[i:i + 2],
                          "lengths": [len(theirs), len(mine)]})
        return "sequence", probs, len(theirs)
    # fan-outs: per instant the same multiset of steps; the instants in order
    ga, gb = collections.defaultdict(collections.Counter), collections.defaultdict(collections.Counter)
    for g, steps in ((ga, theirs), (gb, mine)):
        for t, fr in steps:
            g[t][cj(fr)] += 1
    if [t for t, _ in theirs] != sorted(t for t, _ in theirs):
        probs.append({"what": "the engine's steps are not in time order"})
    for t in sorted(set(ga) | set(gb)):
        if ga.get(t) != gb.get(t):
            probs.append({"what": "steps differ at an instant", "t": t,
                          "engine_only": sorted(((ga.get(t) or collections.Counter()) - (gb.get(t) or collections.Counter())).elements())[:3],
                          "model_only": sorted(((gb.get(t) or collections.Counter()) - (ga.get(t) or collections.Counter())).elements())[:3]})
            break
    # causality on the engine's side, in the model's numbers: a message is delivered after the step that published it
    pub_at = {}
    for i, (t, fr) in enumerate(theirs):
        for f in fr:
            if f[0] in ("e", "q"):
                pub_at.setdefault(cj(f[1]), i)
            elif f[0] == "d" and f[1] != 0 and pub_at.get(cj(f[1]), -1) >= i:
                probs.append({"what": "a message is delivered before the step that publishes it has ended", "message": f[1]})
    return "instants", probs, len(theirs)
